/-
Exact (un-stripped) results of the operations on Mogensen's binary numerals (`/repo/src/data/num/binary.rs`).

The documentation allows leading zeroes only for `pred` on powers of two (and `shl0` of zero).  On every other
canonical argument the RAW results are canonical: `shl0 n = 2n` for `n ≠ 0`, `pred n = n - 1` for `n ≠ 0` not a power of
two, and `strip` is the identity on canonical numerals.  The bit-string facts behind this:
`decBits (bitsLSB n) = bitsLSB (n - 1)` exactly when `n` is positive and not a power of two.
-/
import LC.Proofs.Num.StumpFuBinary
import LC.Proofs.Eager.Binary

namespace LC
open Term Spec Enc StumpFuBinary

namespace BinaryExact

/-- halving a positive even number that is not a power of two gives a number that is not a power of two -/
theorem not_pow2_half {n : Nat} (h2 : ∀ k, n ≠ 2 ^ k) (k : Nat) : n / 2 ≠ 2 ^ k ∨ n % 2 = 1 := by
  by_cases hb : n % 2 = 1
  · exact Or.inr hb
  · refine Or.inl (fun e => h2 (k + 1) ?_)
    rw [Nat.pow_succ, ← e]; omega

/-- the borrow of `pred` stops at the lowest one bit; the result is canonical unless that bit was the only one -/
theorem decBits_bitsLSB (n : Nat) (h0 : n ≠ 0) (h2 : ∀ k, n ≠ 2 ^ k) : decBits (bitsLSB n) = bitsLSB (n - 1) := by
  induction n using Nat.strongRecOn with
  | _ n ih =>
    rw [bitsLSB_pos h0]
    by_cases hb : n % 2 = 1
    · -- odd: the lowest bit is cleared; `n / 2 ≠ 0` because `n ≠ 1 = 2 ^ 0`
      have h1 : n / 2 ≠ 0 := by
        intro e
        exact h2 0 (by simp; omega)
      rw [show (n % 2 == 1) = true by simp [hb], decBits,
        show n - 1 = 2 * (n / 2) by omega, bitsLSB_double h1]
    · -- even: borrow from the upper part, which is positive and not a power of two
      have h1 : n / 2 ≠ 0 := by omega
      have h3 : ∀ k, n / 2 ≠ 2 ^ k := fun k => by
        rcases not_pow2_half h2 k with h | h
        · exact h
        · exact absurd h hb
      rw [show (n % 2 == 1) = false by simp [hb], decBits, ih (n / 2) (by omega) h1 h3]
      conv => rhs; rw [show n - 1 = 2 * (n / 2 - 1) + 1 by omega, bitsLSB_double_succ]

/-- conversely the raw predecessor of a power of two is NOT canonical (it keeps the leading zero) -/
theorem decBits_bitsLSB_pow2 (k : Nat) : decBits (bitsLSB (2 ^ k)) = List.replicate k true ++ [false] := by
  induction k with
  | zero =>
    rw [show (2 : Nat) ^ 0 = 2 * 0 + 1 from rfl, bitsLSB_double_succ, bitsLSB_zero]; rfl
  | succ k ih =>
    have hp : (2 : Nat) ^ k ≠ 0 := Nat.pos_iff_ne_zero.1 (Nat.pow_pos (by decide))
    rw [show (2 : Nat) ^ (k + 1) = 2 * 2 ^ k by rw [Nat.pow_succ]; omega, bitsLSB_double hp, decBits, ih]
    rfl

/-- the canonical bits of `2 ^ k - 1` are `k` ones -/
theorem bitsLSB_pow2_pred (k : Nat) : bitsLSB (2 ^ k - 1) = List.replicate k true := by
  induction k with
  | zero => exact bitsLSB_zero
  | succ k ih =>
    have hp : 0 < (2 : Nat) ^ k := Nat.pow_pos (by decide)
    rw [show (2 : Nat) ^ (k + 1) - 1 = 2 * (2 ^ k - 1) + 1 by rw [Nat.pow_succ]; omega, bitsLSB_double_succ, ih]
    rfl

theorem bitsBody_inj {bs cs : List Bool} (h : bitsBody bs = bitsBody cs) : bs = cs := by
  induction bs generalizing cs with
  | nil =>
    cases cs with
    | nil => rfl
    | cons c cs => simp [bitsBody] at h
  | cons b bs ih =>
    cases cs with
    | nil => simp [bitsBody] at h
    | cons c cs =>
      simp only [bitsBody, Term.app.injEq] at h
      obtain ⟨h1, h2⟩ := h
      have : b = c := by cases b <;> cases c <;> simp at h1 <;> rfl
      rw [this, ih h2]

/-- different bit strings are different numerals (leading zeroes are visible in the term) -/
theorem binaryBits_inj {bs cs : List Bool} (h : binaryBits bs = binaryBits cs) : bs = cs := by
  simp only [binaryBits, Term.abs.injEq] at h
  exact bitsBody_inj h

theorem isNormal_binaryBits' (bs : List Bool) : isNormal (binaryBits bs) = true :=
  EagerBin.isNormal_binaryBits bs

end BinaryExact

open BinaryExact

/-! ### convergence (layer 1) -/

/-- raw `shl0` of a positive numeral is the canonical numeral of the double -/
theorem binary_shl0_exact (n : Nat) (h : n ≠ 0) : app Gen.Binary.shl0 (intoBinary n) ↠ intoBinary (2 * n) :=
  shl0_canon h

/-- raw `pred` of a positive numeral that is not a power of two is the canonical numeral of the predecessor -/
theorem binary_pred_exact (n : Nat) (h0 : n ≠ 0) (h2 : ∀ k, n ≠ 2 ^ k) :
    app Gen.Binary.pred (intoBinary n) ↠ intoBinary (n - 1) := by
  rw [intoBinary_eq_bits, intoBinary_eq_bits, ← decBits_bitsLSB n h0 h2]; exact pred_bits _

/-- `strip` is the identity on canonical numerals -/
theorem binary_strip_canonical (n : Nat) : app Gen.Binary.strip (intoBinary n) ↠ intoBinary n := by
  have h := binary_strip_correct (bitsLSB n)
  rwa [← intoBinary_eq_bits, valueOf_bitsLSB] at h

/-! ### sharpness of the side conditions, for ALL powers of two -/

/-- raw `pred (2 ^ k)` is `k` ones below a leading zero … -/
theorem binary_pred_pow2_raw (k : Nat) :
    app Gen.Binary.pred (intoBinary (2 ^ k)) ↠ binaryBits (List.replicate k true ++ [false]) := by
  rw [intoBinary_eq_bits, ← decBits_bitsLSB_pow2]; exact pred_bits _

/-- … which is a different term than the canonical numeral of `2 ^ k - 1`: the hypothesis `n ≠ 2 ^ k` of
`binary_pred_exact` cannot be dropped for any `k` -/
theorem binary_pred_pow2_not_exact (k : Nat) :
    ¬ (app Gen.Binary.pred (intoBinary (2 ^ k)) ↠ intoBinary (2 ^ k - 1)) := by
  intro h
  rw [intoBinary_eq_bits (2 ^ k - 1), bitsLSB_pow2_pred] at h
  have e := normal_unique h (binary_pred_pow2_raw k) (normal_of_decide (isNormal_binaryBits' _))
    (normal_of_decide (isNormal_binaryBits' _))
  have := congrArg List.length (binaryBits_inj e)
  simp at this

/-! ### eager orders: big-step derivations -/

theorem binary_shl0_exact_hap (n : Nat) (h : n ≠ 0) :
    EvalHap (app Gen.Binary.shl0 (intoBinary n)) (intoBinary (2 * n)) := by
  rw [intoBinary_eq_bits, intoBinary_eq_bits, bitsLSB_double h]; exact binary_shl0_bits_hap _

theorem binary_shl0_exact_app (n : Nat) (h : n ≠ 0) :
    EvalApp (app Gen.Binary.shl0 (intoBinary n)) (intoBinary (2 * n)) := by
  rw [intoBinary_eq_bits, intoBinary_eq_bits, bitsLSB_double h]; exact binary_shl0_bits_app _

theorem binary_pred_exact_hap (n : Nat) (h0 : n ≠ 0) (h2 : ∀ k, n ≠ 2 ^ k) :
    EvalHap (app Gen.Binary.pred (intoBinary n)) (intoBinary (n - 1)) := by
  rw [intoBinary_eq_bits, intoBinary_eq_bits, ← decBits_bitsLSB n h0 h2]; exact binary_pred_bits_hap _

theorem binary_pred_exact_app (n : Nat) (h0 : n ≠ 0) (h2 : ∀ k, n ≠ 2 ^ k) :
    EvalApp (app Gen.Binary.pred (intoBinary n)) (intoBinary (n - 1)) := by
  rw [intoBinary_eq_bits, intoBinary_eq_bits, ← decBits_bitsLSB n h0 h2]; exact binary_pred_bits_app _

theorem binary_strip_canonical_hap (n : Nat) : EvalHap (app Gen.Binary.strip (intoBinary n)) (intoBinary n) := by
  have h := binary_strip_hap (bitsLSB n)
  rwa [← intoBinary_eq_bits, valueOf_bitsLSB] at h

theorem binary_strip_canonical_app (n : Nat) : EvalApp (app Gen.Binary.strip (intoBinary n)) (intoBinary n) := by
  have h := binary_strip_app (bitsLSB n)
  rwa [← intoBinary_eq_bits, valueOf_bitsLSB] at h

end LC
