/-
Layer-1 correctness of the Church-numeral operations of `/repo/src/data/num/church.rs` (part B):
`fac quot rem div shl shr`, for ALL naturals (divisor `≠ 0`), up to β-reduction.
Helpers live in namespace `LC.ChurchB`.
-/
import LC.Proofs.Num.ChurchA

namespace LC
open Term Spec Enc
open ChurchA

/-! ## factorial -/

namespace ChurchB

/-- the specification of `FAC`: `0! = 1`, `(n+1)! = (n+1) * n!` (core Lean has no `Nat.factorial`) -/
def fact : Nat → Nat
  | 0 => 1
  | n + 1 => (n + 1) * fact n

@[simp] theorem fact_zero : fact 0 = 1 := rfl
theorem fact_succ (n : Nat) : fact (n + 1) = (n + 1) * fact n := rfl

/-- the step function of `FAC ≡ λn. n (λfab. f (MUL a b) (SUCC b)) K ONE ONE` -/
def facStep : Term :=
  abs (abs (abs (app2 (var 3) (app2 Gen.Church.mul (var 2) (var 1)) (app Gen.Church.succ (var 1)))))

/-- invariant of the iteration: the `k`-fold iterate applied to `(b!, b+1)` yields `(b+k)!` -/
theorem fac_iter (k b : Nat) :
    app2 (iterApp facStep Gen.Comb.K k) (intoChurch (fact b)) (intoChurch (b + 1)) ↠ intoChurch (fact (b + k)) := by
  induction k generalizing b with
  | zero => exact K_elim _ _
  | succ k ih =>
    rw [iterApp_succ]
    unfold facStep
    lc_beta 3
    lc_trans (Star.congApp (Star.congAppR _ (church_mul_correct (fact b) (b + 1))) (church_succ_correct (b + 1)))
    rw [show fact b * (b + 1) = fact (b + 1) by rw [fact_succ, Nat.mul_comm],
      show b + (k + 1) = (b + 1) + k by omega]
    exact ih (b + 1)

end ChurchB

open ChurchB

theorem church_fac_correct (n : Nat) : app Gen.Church.fac (intoChurch n) ↠ intoChurch (fact n) := by
  lc_beta
  lc_head (church_elim n _ _)
  have h := fac_iter n 0
  rw [Nat.zero_add n] at h
  exact h

/-! ## quotient, remainder, division (`Z`-recursive, thunked branches) -/

namespace ChurchB

/-- the functional of `QUOT ≡ Z (λzab.LT a b (λx.ZERO) (λx.SUCC (z (SUB a b) b)) I)` -/
def quotF : Term := appArg Gen.Church.quot
theorem quot_eq : Gen.Church.quot = app Gen.Comb.Z quotF := by decide
theorem closed_quotF : Closed quotF := by decide

theorem quot_rec (n : Nat) (hn : n ≠ 0) (m : Nat) :
    app2 (ZF quotF) (intoChurch m) (intoChurch n) ↠ intoChurch (m / n) := by
  induction m using Nat.strongRecOn with
  | _ m ih =>
    lc_head (ZF_unfold closed_quotF); lc_beta 3
    lc_head (church_lt_correct m n)
    lc_head (fromBool_elim _ _ _)
    by_cases h : m < n
    · simp only [h, decide_true, if_true]
      lc_beta
      rw [Nat.div_eq_of_lt h]; exact Star.refl _
    · simp only [h, decide_false, Bool.false_eq_true, if_false]
      lc_beta
      lc_rw (ZF_stub closed_quotF _)
      lc_rw (church_sub_correct m n)
      lc_rw (ih (m - n) (by omega))
      rw [show m / n = (m - n) / n + 1 by
        rw [Nat.div_eq m n, if_pos ⟨by omega, by omega⟩]]
      exact church_succ_correct _

end ChurchB

theorem church_quot_correct (m n : Nat) (hn : n ≠ 0) :
    app2 Gen.Church.quot (intoChurch m) (intoChurch n) ↠ intoChurch (m / n) := by
  rw [quot_eq]; lc_head (Z_unfold closed_quotF)
  exact quot_rec n hn m

namespace ChurchB

/-- the functional of `REM ≡ Z (λzab.LT a b (λx.a) (λx.z (SUB a b) b) I)` -/
def remF : Term := appArg Gen.Church.rem
theorem rem_eq : Gen.Church.rem = app Gen.Comb.Z remF := by decide
theorem closed_remF : Closed remF := by decide

theorem rem_rec (n : Nat) (hn : n ≠ 0) (m : Nat) :
    app2 (ZF remF) (intoChurch m) (intoChurch n) ↠ intoChurch (m % n) := by
  induction m using Nat.strongRecOn with
  | _ m ih =>
    lc_head (ZF_unfold closed_remF); lc_beta 3
    lc_head (church_lt_correct m n)
    lc_head (fromBool_elim _ _ _)
    by_cases h : m < n
    · simp only [h, decide_true, if_true]
      lc_beta
      rw [Nat.mod_eq_of_lt h]; exact Star.refl _
    · simp only [h, decide_false, Bool.false_eq_true, if_false]
      lc_beta
      lc_rw (ZF_stub closed_remF _)
      lc_rw (church_sub_correct m n)
      rw [Nat.mod_eq_sub_mod (by omega : m ≥ n)]
      exact ih (m - n) (by omega)

end ChurchB

theorem church_rem_correct (m n : Nat) (hn : n ≠ 0) :
    app2 Gen.Church.rem (intoChurch m) (intoChurch n) ↠ intoChurch (m % n) := by
  rw [rem_eq]; lc_head (Z_unfold closed_remF)
  exact rem_rec n hn m

namespace ChurchB

/-- the functional of `DIV ≡ Z (λzqab.LT a b (λx.PAIR q a) (λx.z (SUCC q) (SUB a b) b) I) ZERO` -/
def divF : Term := appArg (appFn Gen.Church.div)
theorem div_eq : Gen.Church.div = app (app Gen.Comb.Z divF) Gen.Church.zero := by decide
theorem closed_divF : Closed divF := by decide

/-- generalised over the accumulator `q` -/
theorem div_rec (n : Nat) (hn : n ≠ 0) (m q : Nat) :
    app3 (ZF divF) (intoChurch q) (intoChurch m) (intoChurch n) ↠
      tuple2 (intoChurch (q + m / n)) (intoChurch (m % n)) := by
  induction m using Nat.strongRecOn generalizing q with
  | _ m ih =>
    lc_head (ZF_unfold closed_divF); lc_beta 4
    lc_head (church_lt_correct m n)
    lc_head (fromBool_elim _ _ _)
    by_cases h : m < n
    · simp only [h, decide_true, if_true]
      lc_beta
      rw [Nat.div_eq_of_lt h, Nat.mod_eq_of_lt h, Nat.add_zero]
      exact pair_mk (closed_intoChurch q) (closed_intoChurch m)
    · simp only [h, decide_false, Bool.false_eq_true, if_false]
      lc_beta
      lc_rw (ZF_stub closed_divF _)
      lc_rw (church_succ_correct q)
      lc_rw (church_sub_correct m n)
      rw [Nat.mod_eq_sub_mod (by omega : m ≥ n),
        show q + m / n = (q + 1) + (m - n) / n by
          rw [Nat.div_eq m n, if_pos ⟨by omega, by omega⟩]; omega]
      exact ih (m - n) (by omega) (q + 1)

end ChurchB

theorem church_div_correct (m n : Nat) (hn : n ≠ 0) :
    app2 Gen.Church.div (intoChurch m) (intoChurch n) ↠ tuple2 (intoChurch (m / n)) (intoChurch (m % n)) := by
  rw [div_eq]; lc_head (Z_unfold closed_divF)
  have h := div_rec n hn m 0
  rw [Nat.zero_add (m / n)] at h
  exact h

/-! ## shifts -/

namespace ChurchB

/-- `POW (SUCC ONE) b` computes `2 ^ b` -/
theorem pow_two (n : Nat) :
    app2 Gen.Church.pow (app Gen.Church.succ Gen.Church.one) (intoChurch n) ↠ intoChurch (2 ^ n) := by
  lc_trans (Star.congAppL _ (Star.congAppR _ (church_succ_correct 1)))
  exact church_pow_correct 2 n

end ChurchB

theorem church_shl_correct (m n : Nat) :
    app2 Gen.Church.shl (intoChurch m) (intoChurch n) ↠ intoChurch (m * 2 ^ n) := by
  lc_beta 2
  lc_trans (Star.congAppR _ (pow_two n))
  exact church_mul_correct m (2 ^ n)

theorem church_shr_correct (m n : Nat) :
    app2 Gen.Church.shr (intoChurch m) (intoChurch n) ↠ intoChurch (m / 2 ^ n) := by
  lc_beta 2
  lc_head (church_is_zero_correct n)
  lc_trans (fromBool_elim _ _ _)
  cases n with
  | zero => simp; exact Star.refl _
  | succ n =>
    simp only [Nat.add_one_ne_zero, beq_iff_eq, if_false]
    lc_trans (Star.congAppR _ (pow_two (n + 1)))
    exact church_quot_correct m (2 ^ (n + 1)) (Nat.pos_iff_ne_zero.mp (Nat.two_pow_pos _))

end LC
