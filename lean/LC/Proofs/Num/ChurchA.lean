/-
Layer-1 correctness of the Church-numeral operations of `/repo/src/data/num/church.rs` (part A):
`pred sub mul pow is_even is_odd leq lt eq neq geq gt min max`, for ALL naturals, up to β-reduction.
Helpers live in namespace `LC.ChurchA`.
-/
import LC.Proofs.Num.Toolkit

namespace LC
open Term Spec Enc

namespace ChurchA

theorem star_of_eq {t u : Term} (h : t = u) : t ↠ u := h ▸ Star.refl _

/-! ### boolean laws on encoded booleans -/

theorem not_correct (b : Bool) : app Gen.Bool.not (fromBool b) ↠ fromBool (!b) := by
  lc_beta; lc_trans (fromBool_elim _ _ _); cases b <;> exact Star.refl _

theorem and_correct (a b : Bool) : app2 Gen.Bool.and (fromBool a) (fromBool b) ↠ fromBool (a && b) :=
  bool_and_correct a b

theorem or_correct (a b : Bool) : app2 Gen.Bool.or (fromBool a) (fromBool b) ↠ fromBool (a || b) := by
  lc_beta 2; lc_trans (fromBool_elim _ _ _); cases a <;> simp <;> exact Star.refl _

/-! ### one-argument elimination and iterated iteration -/

/-- a Church numeral applied to ONE (arbitrary, open) argument -/
theorem church_elim1 (n : Nat) (g : Term) :
    app (intoChurch n) g ↠ abs (iterApp (shiftFV 1 0 g) (var 1) n) := by
  rw [intoChurch_eq]; lc_beta; exact Star.refl _

/-- `λy. fᵖ y` applied to an argument -/
theorem iterFun_app (f y : Term) (p : Nat) :
    app (abs (iterApp (shiftFV 1 0 f) (var 1) p)) y ↠ iterApp f y p := by
  lc_beta; exact Star.refl _

/-- `(λy. fᵖ y)ᵐ x ↠ f^(m*p) x` -/
theorem iterFun_iter (f x : Term) (p m : Nat) :
    iterApp (abs (iterApp (shiftFV 1 0 f) (var 1) p)) x m ↠ iterApp f x (m * p) := by
  induction m with
  | zero => simp; exact Star.refl _
  | succ m ih =>
    rw [iterApp_succ]
    lc_trans (Star.congAppR _ ih)
    lc_trans (iterFun_app f _ p)
    rw [show (m + 1) * p = p + m * p by rw [Nat.succ_mul, Nat.add_comm], iterApp_add]
    exact Star.refl _

end ChurchA

open ChurchA

/-! ## predecessor, subtraction -/

namespace ChurchA

/-- the step function of `PRED` under the binders `f = var 2`, `x = var 1`: `λg h. h (g f)` -/
def predStep : Term := abs (abs (app (var 1) (app (var 2) (var 4))))

/-- the invariant family of `PRED`: `λu.x`, then `λh. h (f^k x)` -/
def predFam : Nat → Term
  | 0 => abs (var 2)
  | k + 1 => abs (app (var 1) (iterApp (var 3) (var 2) k))

theorem predStep_fam (k : Nat) : app predStep (predFam k) ↠ predFam (k + 1) := by
  cases k with
  | zero =>
    unfold predStep predFam
    lc_beta; lc_beta_in; exact Star.refl _
  | succ k =>
    unfold predStep predFam
    lc_beta; lc_beta_in; exact Star.refl _

theorem predFam_out (n : Nat) : app (predFam n) (abs (var 1)) ↠ iterApp (var 2) (var 1) (n - 1) := by
  cases n with
  | zero => unfold predFam; lc_beta; exact Star.refl _
  | succ k => unfold predFam; lc_beta; lc_beta; exact Star.refl _

end ChurchA

theorem church_pred_correct (n : Nat) : app Gen.Church.pred (intoChurch n) ↠ intoChurch (n - 1) := by
  lc_beta
  rw [intoChurch_eq (n - 1)]
  lc_cong
  lc_head (church_elim n _ _)
  lc_head (iterApp_star predStep predFam predStep_fam n)
  exact predFam_out n

theorem church_sub_correct (m n : Nat) :
    app2 Gen.Church.sub (intoChurch m) (intoChurch n) ↠ intoChurch (m - n) := by
  lc_beta 2
  lc_trans (church_elim n _ _)
  exact iterApp_star Gen.Church.pred (fun k => intoChurch (m - k)) (fun k => church_pred_correct (m - k)) n

/-! ## multiplication, exponentiation -/

theorem church_mul_correct (m n : Nat) :
    app2 Gen.Church.mul (intoChurch m) (intoChurch n) ↠ intoChurch (m * n) := by
  lc_beta 2
  rw [intoChurch_eq (m * n)]
  lc_cong
  lc_trans (church_elim1 m _)
  lc_simp
  lc_cong
  lc_trans (Star.iterApp (church_elim1 n (var 2)) (Star.refl (var 1)) m)
  exact iterFun_iter (var 2) (var 1) n m

namespace ChurchA

/-- `n+1` applied to `m` is `m^(n+1)`; stated on the body below the first binder (`var 1` free on the left) -/
theorem pow_body (m n : Nat) :
    iterApp (intoChurch m) (var 1) (n + 1) ↠ abs (iterApp (var 2) (var 1) (m ^ (n + 1))) := by
  induction n with
  | zero =>
    rw [Nat.pow_one]
    exact church_elim1 m (var 1)
  | succ n ih =>
    rw [iterApp_succ]
    lc_trans (Star.congAppR _ ih)
    lc_trans (church_elim1 m _)
    lc_cong
    rw [show m ^ (n + 1 + 1) = m * m ^ (n + 1) by rw [Nat.pow_succ, Nat.mul_comm]]
    have h := iterFun_iter (var 2) (var 1) (m ^ (n + 1)) m
    lc_simp at h ⊢; exact h

theorem pow_succ_app (m n : Nat) : app (intoChurch (n + 1)) (intoChurch m) ↠ intoChurch (m ^ (n + 1)) := by
  lc_trans (church_elim1 (n + 1) _)
  rw [intoChurch_eq (m ^ (n + 1))]
  lc_simp
  exact Star.congAbs (pow_body m n)

end ChurchA

theorem church_pow_correct (m n : Nat) :
    app2 Gen.Church.pow (intoChurch m) (intoChurch n) ↠ intoChurch (m ^ n) := by
  lc_beta 2
  lc_head (church_is_zero_correct n)
  lc_trans (fromBool_elim _ _ _)
  cases n with
  | zero => exact Star.refl _
  | succ n => exact pow_succ_app m n

/-! ## parity -/

theorem church_is_even_correct (n : Nat) : app Gen.Church.is_even (intoChurch n) ↠ fromBool (n % 2 == 0) := by
  lc_beta
  lc_trans (church_elim n _ _)
  refine iterApp_star Gen.Bool.not (fun k => fromBool (k % 2 == 0)) (fun k => ?_) n
  lc_trans (not_correct _)
  have h2 : (k + 1) % 2 = 1 - k % 2 := by omega
  apply star_of_eq; congr 1
  rcases Nat.mod_two_eq_zero_or_one k with h | h <;> simp [h, h2]

theorem church_is_odd_correct (n : Nat) : app Gen.Church.is_odd (intoChurch n) ↠ fromBool (n % 2 == 1) := by
  lc_beta
  lc_trans (church_elim n _ _)
  refine iterApp_star Gen.Bool.not (fun k => fromBool (k % 2 == 1)) (fun k => ?_) n
  lc_trans (not_correct _)
  have h2 : (k + 1) % 2 = 1 - k % 2 := by omega
  apply star_of_eq; congr 1
  rcases Nat.mod_two_eq_zero_or_one k with h | h <;> simp [h, h2]

/-! ## comparisons -/

theorem church_leq_correct (m n : Nat) :
    app2 Gen.Church.leq (intoChurch m) (intoChurch n) ↠ fromBool (decide (m ≤ n)) := by
  lc_beta 2
  lc_trans (Star.congAppR _ (church_sub_correct m n))
  lc_trans (church_is_zero_correct (m - n))
  rw [show (m - n == 0) = decide (m ≤ n) by
    by_cases h : m ≤ n <;> simp [h] <;> omega]
  exact Star.refl _

theorem church_lt_correct (m n : Nat) :
    app2 Gen.Church.lt (intoChurch m) (intoChurch n) ↠ fromBool (decide (m < n)) := by
  lc_beta 2
  lc_trans (Star.congAppR _ (church_leq_correct n m))
  lc_trans (not_correct _)
  rw [show (!decide (n ≤ m)) = decide (m < n) by
    by_cases h : n ≤ m <;> simp [h] <;> omega]
  exact Star.refl _

theorem church_eq_correct (m n : Nat) :
    app2 Gen.Church.eq (intoChurch m) (intoChurch n) ↠ fromBool (decide (m = n)) := by
  lc_beta 2
  lc_trans (Star.congApp (Star.congAppR _ (church_leq_correct m n)) (church_leq_correct n m))
  lc_trans (and_correct _ _)
  rw [show (decide (m ≤ n) && decide (n ≤ m)) = decide (m = n) by
    by_cases h : m = n <;> simp [h] <;> omega]
  exact Star.refl _

theorem church_neq_correct (m n : Nat) :
    app2 Gen.Church.neq (intoChurch m) (intoChurch n) ↠ fromBool (decide (m ≠ n)) := by
  lc_beta 2
  lc_trans (Star.congApp
    (Star.congAppR _ ((Star.congAppR _ (church_leq_correct m n)).trans (not_correct _)))
    ((Star.congAppR _ (church_leq_correct n m)).trans (not_correct _)))
  lc_trans (or_correct _ _)
  apply star_of_eq; congr 1
  by_cases h : m = n <;> simp [h] <;> omega

theorem church_geq_correct (m n : Nat) :
    app2 Gen.Church.geq (intoChurch m) (intoChurch n) ↠ fromBool (decide (m ≥ n)) := by
  lc_beta 2
  exact church_leq_correct n m

theorem church_gt_correct (m n : Nat) :
    app2 Gen.Church.gt (intoChurch m) (intoChurch n) ↠ fromBool (decide (m > n)) := by
  lc_beta 2
  lc_trans (Star.congAppR _ (church_leq_correct m n))
  lc_trans (not_correct _)
  rw [show (!decide (m ≤ n)) = decide (m > n) by
    by_cases h : m ≤ n <;> simp [h] <;> omega]
  exact Star.refl _

/-! ## minimum, maximum -/

theorem church_min_correct (m n : Nat) :
    app2 Gen.Church.min (intoChurch m) (intoChurch n) ↠ intoChurch (min m n) := by
  lc_beta 2
  lc_head (church_leq_correct m n)
  lc_trans (fromBool_elim _ _ _)
  by_cases h : m ≤ n
  · simp [h, Nat.min_eq_left h]; exact Star.refl _
  · simp [h, Nat.min_eq_right (Nat.le_of_not_le h)]; exact Star.refl _

theorem church_max_correct (m n : Nat) :
    app2 Gen.Church.max (intoChurch m) (intoChurch n) ↠ intoChurch (max m n) := by
  lc_beta 2
  lc_head (church_leq_correct m n)
  lc_trans (fromBool_elim _ _ _)
  by_cases h : m ≤ n
  · simp [h, Nat.max_eq_right h]; exact Star.refl _
  · simp [h, Nat.max_eq_left (Nat.le_of_not_le h)]; exact Star.refl _

end LC
