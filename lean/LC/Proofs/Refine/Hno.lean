/-
Refinement, soundness direction (DESIGN §6.3): whenever the traversal `betaHno` returns,
it has performed exactly `c' - c` steps of the small-step strategy `stepHno`, stayed within
the limit, and (if budget is left) stopped in a `stepHno`-normal form.
-/
import LC.Proofs.Beta
import LC.Proofs.Refine.Hsp
import LC.Proofs.Refine.Nor
import LC.Spec.NormalForms

namespace LC
namespace Term
open Spec

/-- a `stepHsp`-normal term that is not an abstraction has a head variable -/
theorem neutral_of_hsp_nf {t} (h1 : stepHsp t = none) (h2 : isAbs t = false) : neutral t = true := by
  induction t with
  | var i => rfl
  | abs b => simp [isAbs] at h2
  | app l r ihl _ =>
    cases l with
    | var i => rfl
    | abs b =>
      simp only [stepHsp] at h1
      split at h1 <;> simp at h1
    | app l1 l2 =>
      have hl : stepHsp (app l1 l2) = none := by
        cases hs : stepHsp (app l1 l2) with
        | none => rfl
        | some x => rw [stepHsp_app_of_step r hs] at h1; simp at h1
      simp only [neutral] at ihl ⊢
      exact ihl hl rfl

/-- conversely, a term with a head variable has no head-spine step -/
theorem stepHsp_neutral_none {t} (hn : neutral t = true) : stepHsp t = none := by
  induction t with
  | var i => simp [stepHsp]
  | abs b => simp [neutral] at hn
  | app l r ihl _ =>
    have hn' : neutral l = true := by simpa [neutral] using hn
    exact stepHsp_app_none r (neutral_not_abs hn') (ihl hn')

theorem stepHno_app_hsp {l l'} (r) (h : stepHsp l = some l') : stepHno (app l r) = some (app l' r) := by
  simp [stepHno, h]

theorem stepHno_app_redex {b} (r) (h : stepHsp (abs b) = none) : stepHno (app (abs b) r) = some (contract b r) := by
  simp only [stepHno]
  simp [h]

theorem stepHno_app_left {l l'} (r) (hn : neutral l = true) (h : stepHno l = some l') :
    stepHno (app l r) = some (app l' r) := by
  have hs := stepHsp_neutral_none hn
  cases l with
  | var i => simp [stepHno] at h
  | abs b => simp [neutral] at hn
  | app l1 l2 => simp only [stepHno] at h ⊢; simp only [hs]; simp [h]

theorem stepHno_app_right {l r r'} (hn : neutral l = true) (hl : stepHno l = none) (h : stepHno r = some r') :
    stepHno (app l r) = some (app l r') := by
  have hs := stepHsp_neutral_none hn
  cases l with
  | var i => simp [stepHno, stepHsp, h]
  | abs b => simp [neutral] at hn
  | app l1 l2 => simp only [stepHno] at hl ⊢; simp only [hs]; simp [hl, h]

theorem stepHno_app_none {l r} (hn : neutral l = true) (hl : stepHno l = none) (h : stepHno r = none) :
    stepHno (app l r) = none := by
  have hs := stepHsp_neutral_none hn
  cases l with
  | var i => simp [stepHno, stepHsp, h]
  | abs b => simp [neutral] at hn
  | app l1 l2 => simp only [stepHno] at hl ⊢; simp only [hs]; simp [hl, h]

theorem stepHno_neutral {t t'} (hn : neutral t = true) (h : stepHno t = some t') : neutral t' = true := by
  induction t generalizing t' with
  | var i => simp [stepHno] at h
  | abs b => simp [neutral] at hn
  | app l r ihl _ =>
    have hn' : neutral l = true := by simpa [neutral] using hn
    cases hs : stepHno l with
    | some l' =>
      rw [stepHno_app_left r hn' hs] at h; simp at h; subst h
      simp only [neutral]; exact ihl hn' hs
    | none =>
      cases hr : stepHno r with
      | some r' => rw [stepHno_app_right hn' hs hr] at h; simp at h; subst h; simpa [neutral] using hn'
      | none => rw [stepHno_app_none hn' hs hr] at h; simp at h

theorem Iter.hsp_hno_app {k l l'} (r) (h : Iter stepHsp k l l') : Iter stepHno k (app l r) (app l' r) := by
  induction h with
  | zero t => exact Iter.zero _
  | succ hs _ ih => exact Iter.succ (stepHno_app_hsp r hs) ih

theorem Iter.hno_abs {k b b'} (h : Iter stepHno k b b') : Iter stepHno k (abs b) (abs b') := by
  induction h with
  | zero t => exact Iter.zero _
  | succ hs _ ih => exact Iter.succ (by simp [stepHno, hs]) ih

theorem Iter.hno_app_left {k l l'} (r) (hn : neutral l = true) (h : Iter stepHno k l l') :
    Iter stepHno k (app l r) (app l' r) ∧ neutral l' = true := by
  induction h with
  | zero t => exact ⟨Iter.zero _, hn⟩
  | succ hs _ ih =>
    have := ih (stepHno_neutral hn hs)
    exact ⟨Iter.succ (stepHno_app_left r hn hs) this.1, this.2⟩

theorem Iter.hno_app_right {k r r'} (l) (hn : neutral l = true) (hl : stepHno l = none) (h : Iter stepHno k r r') :
    Iter stepHno k (app l r) (app l r') := by
  induction h with
  | zero t => exact Iter.zero _
  | succ hs _ ih => exact Iter.succ (stepHno_app_right hn hl hs) ih

theorem betaHno_sound (L : Nat) : ∀ fuel t c t' c', betaHno L fuel t c = some (t', c') → (L = 0 ∨ c ≤ L) →
    Post stepHno L c t t' c' := by
  intro fuel
  induction fuel with
  | zero => intro t c t' c' h; simp [betaHno] at h
  | succ fuel ih =>
    intro t c t' c' h hc
    unfold betaHno at h
    split at h
    · rename_i hg
      simp at h; obtain ⟨rfl, rfl⟩ := h
      simp [gate] at hg
      exact ⟨0, rfl, Iter.zero _, fun _ => by omega, fun hh => by omega⟩
    · rename_i hg
      have hgate : L ≠ 0 → c < L := by
        intro hL; simp [gate] at hg; rcases hc with h0 | h1
        · exact absurd h0 hL
        · have := hg hL; omega
      split at h
      · -- abs
        rename_i b
        split at h
        · simp at h
        · rename_i b' c1 hb
          simp at h; obtain ⟨rfl, rfl⟩ := h
          obtain ⟨k, rfl, it, hle, hnf⟩ := ih _ _ _ _ hb hc
          exact ⟨k, rfl, it.hno_abs, hle, fun hh => by simp [stepHno, hnf hh]⟩
      · -- app
        rename_i l r
        split at h
        · simp at h
        · rename_i l' c1 hl
          have P1 : Post stepHsp L c l l' c1 := betaHsp_sound L _ _ _ _ _ hl hc
          have hc1 := P1.budget_ok
          obtain ⟨k1, rfl, it1, hle1, hnf1⟩ := P1
          split at h
          · -- reducible
            rename_i hred
            simp at hred
            split at h
            · rename_i b
              have hbud : L = 0 ∨ c + k1 < L := by have := hred.2; simp [budget] at this; omega
              have hc1' : L = 0 ∨ c + k1 + 1 ≤ L := by omega
              obtain ⟨k2, rfl, it2, hle2, hnf2⟩ := ih _ _ _ _ h hc1'
              refine ⟨k1 + 1 + k2, by omega, ?_, hle2, hnf2⟩
              exact ((Iter.hsp_hno_app r it1).trans (Iter.succ (stepHno_app_redex r (hnf1 hbud)) it2)).cast (by omega)
            · simp at h
          · -- else branch
            rename_i hred
            split at h
            · simp at h
            · rename_i l2 c2 hl2
              split at h
              · simp at h
              · rename_i r' c3 hr
                simp at h; obtain ⟨rfl, rfl⟩ := h
                have P2 : Post stepHno L _ _ _ _ := ih _ _ _ _ hl2 hc1
                have hc2 := P2.budget_ok
                obtain ⟨k2, rfl, it2, hle2, hnf2⟩ := P2
                obtain ⟨k3, rfl, it3, hle3, hnf3⟩ := ih _ _ _ _ hr hc2
                by_cases hbud : L = 0 ∨ c + k1 < L
                · -- budget left after the hsp phase, so l' is not an abstraction, hence neutral
                  have hna : isAbs l' = false := by
                    cases hia : isAbs l' with
                    | false => rfl
                    | true => exfalso; apply hred; simp [hia, budget]; omega
                  have hneu := neutral_of_hsp_nf (hnf1 hbud) hna
                  obtain ⟨itL, hneu2⟩ := Iter.hno_app_left r hneu it2
                  by_cases hbud2 : L = 0 ∨ c + k1 + k2 < L
                  · have hn2 := hnf2 hbud2
                    have itR := Iter.hno_app_right l2 hneu2 hn2 it3
                    refine ⟨k1 + k2 + k3, by omega, (((Iter.hsp_hno_app r it1).trans itL).trans itR).cast (by omega), hle3, ?_⟩
                    intro hh
                    exact stepHno_app_none hneu2 hn2 (hnf3 hh)
                  · have hL : L ≠ 0 := by intro h0; exact hbud2 (Or.inl h0)
                    have hk3 : k3 = 0 := by have := hle3 hL; have := hle2 hL; omega
                    subst hk3
                    cases it3
                    refine ⟨k1 + k2, by omega, ((Iter.hsp_hno_app r it1).trans itL).cast (by omega), by simpa using hle3, ?_⟩
                    intro hh; exfalso; apply hbud2; simpa using hh
                · have hL : L ≠ 0 := by intro h0; exact hbud (Or.inl h0)
                  have hk2 : k2 = 0 := by have := hle2 hL; have := hle1 hL; omega
                  subst hk2
                  have hk3 : k3 = 0 := by have := hle3 hL; have := hle1 hL; omega
                  subst hk3
                  cases it2; cases it3
                  refine ⟨k1, by omega, Iter.hsp_hno_app r it1, by simpa using hle3, ?_⟩
                  intro hh; exfalso; apply hbud; simpa using hh
      · rename_i hna1 hna2
        simp at h; obtain ⟨rfl, rfl⟩ := h
        refine ⟨0, rfl, Iter.zero _, fun hL => by have := hgate hL; omega, ?_⟩
        intro _
        cases t with
        | var i => simp [stepHno]
        | abs b => exact absurd rfl (hna1 b)
        | app l r => exact absurd rfl (hna2 l r)

end Term
end LC
