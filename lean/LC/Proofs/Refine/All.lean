/-
Refinement, soundness direction, for all seven orders at once.
-/
import LC.Proofs.Refine.Nor
import LC.Proofs.Refine.App
import LC.Proofs.Refine.Hap
import LC.Proofs.Refine.Hno

namespace LC
namespace Term

theorem betaOrd_sound (o : Order) (L fuel : Nat) (t : Term) (c : Nat) (t' : Term) (c' : Nat)
    (h : betaOrd o L fuel t c = some (t', c')) (hc : L = 0 ∨ c ≤ L) :
    Post (stepOrd o) L c t t' c' := by
  cases o <;> simp only [betaOrd, stepOrd] at h ⊢
  · exact betaNor_sound L _ _ _ _ _ h hc
  · exact betaCbn_sound L _ _ _ _ _ h hc
  · exact betaHsp_sound L _ _ _ _ _ h hc
  · exact betaHno_sound L _ _ _ _ _ h hc
  · exact betaApp_sound L _ _ _ _ _ h hc
  · exact betaCbv_sound L _ _ _ _ _ h hc
  · exact betaHap_sound L _ _ _ _ _ h hc

/-- `reduce` returns the `c`-th iterate of the strategy, `c` within the limit, and a strategy-normal
form whenever the limit was not exhausted -/
theorem reduce_sound (o : Order) (L fuel : Nat) (t t' : Term) (c : Nat)
    (h : reduce o L fuel t = some (t', c)) :
    Iter (stepOrd o) c t t' ∧ (L ≠ 0 → c ≤ L) ∧ ((L = 0 ∨ c < L) → stepOrd o t' = none) := by
  have := betaOrd_sound o L fuel t 0 t' c h (by omega)
  obtain ⟨k, hk, it, hle, hnf⟩ := this
  have : c = k := by omega
  subst this
  exact ⟨it, hle, hnf⟩

end Term
end LC
