/-
Refinement, soundness direction (DESIGN §6.3): whenever the traversal `betaCbn` returns,
it has performed exactly `c' - c` steps of the small-step strategy `stepCbn`, stayed within
the limit, and (if budget is left) stopped in a `stepCbn`-normal form.
-/
import LC.Proofs.Beta

namespace LC
namespace Term

theorem stepCbn_isSome_not_abs {l l'} (h : stepCbn l = some l') : isAbs l = false := by
  cases l <;> simp_all [stepCbn, isAbs]

theorem stepCbn_app_of_step {l l' r} (h : stepCbn l = some l') : stepCbn (app l r) = some (app l' r) := by
  cases l with
  | var i => simp [stepCbn] at h
  | abs b => simp [stepCbn] at h
  | app l1 l2 => simp [stepCbn, h]

theorem Iter.cbn_app {k l l'} (r) (h : Iter stepCbn k l l') : Iter stepCbn k (app l r) (app l' r) := by
  induction h with
  | zero t => exact Iter.zero _
  | succ hs _ ih => exact Iter.succ (stepCbn_app_of_step hs) ih

theorem betaCbn_sound (L : Nat) : ∀ fuel t c t' c', betaCbn L fuel t c = some (t', c') → (L = 0 ∨ c ≤ L) →
    ∃ k, c' = c + k ∧ Iter stepCbn k t t' ∧ (L ≠ 0 → c' ≤ L) ∧ ((L = 0 ∨ c' < L) → stepCbn t' = none) := by
  intro fuel
  induction fuel with
  | zero => intro t c t' c' h; simp [betaCbn] at h
  | succ fuel ih =>
    intro t c t' c' h hc
    unfold betaCbn at h
    split at h
    · -- gate
      rename_i hg
      simp at h; obtain ⟨rfl, rfl⟩ := h
      simp [gate] at hg
      exact ⟨0, rfl, Iter.zero _, fun _ => by omega, fun hh => by omega⟩
    · rename_i hg
      split at h
      · -- app
        rename_i l r
        split at h
        · simp at h
        · rename_i l' c1 hl
          obtain ⟨k1, rfl, it1, hle1, hnf1⟩ := ih _ _ _ _ hl hc
          split at h
          · rename_i b
            split at h
            · rename_i hb
              have hc1 : L = 0 ∨ c + k1 + 1 ≤ L := by simp [budget] at hb; omega
              obtain ⟨k2, rfl, it2, hle2, hnf2⟩ := ih _ _ _ _ h hc1
              refine ⟨k1 + 1 + k2, by omega, ?_, hle2, hnf2⟩
              exact ((Iter.cbn_app r it1).trans (Iter.succ (by simp [stepCbn]) it2)).cast (by omega)
            · rename_i hb
              simp at h; obtain ⟨rfl, rfl⟩ := h
              refine ⟨k1, rfl, Iter.cbn_app r it1, hle1, ?_⟩
              intro hh; simp [budget] at hb; omega
          · rename_i hna
            simp at h; obtain ⟨rfl, rfl⟩ := h
            refine ⟨k1, rfl, Iter.cbn_app r it1, hle1, ?_⟩
            intro hh
            have := hnf1 hh
            cases l' with
            | var i => simp [stepCbn]
            | abs b => exact absurd rfl (hna b)
            | app l1 l2 => simp [stepCbn, this]
      · -- not app
        rename_i hna
        simp at h; obtain ⟨rfl, rfl⟩ := h
        refine ⟨0, rfl, Iter.zero _, ?_, ?_⟩
        · intro hL; simp [gate] at hg; rcases hc with h0 | h1 <;> omega
        · intro _; cases t with
          | var i => simp [stepCbn]
          | abs b => simp [stepCbn]
          | app l r => exact absurd rfl (hna l r)

end Term
end LC
