/-
Refinement, soundness direction (DESIGN §6.3): whenever the traversal `betaHap` returns,
it has performed exactly `c' - c` steps of the small-step strategy `stepHap`, stayed within
the limit, and (if budget is left) stopped in a `stepHap`-normal form.
-/
import LC.Proofs.Beta
import LC.Proofs.Refine.Cbv
import LC.Spec.NormalForms

namespace LC
namespace Term
open Spec

/-! ### `stepCbv`-normal forms are exactly the weak normal forms -/

theorem stepCbv_app_none_inv {l r} (h : stepCbv (app l r) = none) :
    stepCbv l = none ∧ stepCbv r = none ∧ isAbs l = false := by
  cases hl : stepCbv l with
  | some l' => rw [stepCbv_app_left r hl] at h; cases h
  | none =>
    cases hr : stepCbv r with
    | some r' => rw [stepCbv_app_right hl hr] at h; cases h
    | none =>
      cases l with
      | abs b => rw [stepCbv_app_red hr] at h; cases h
      | _ => exact ⟨rfl, rfl, rfl⟩

theorem isWNF_of_stepCbv_none {t} (h : stepCbv t = none) : isWNF t = true := by
  induction t with
  | var i => rfl
  | abs b => rfl
  | app l r ihl ihr =>
    obtain ⟨hl, hr, hna⟩ := stepCbv_app_none_inv h
    simp [isWNF, hna, ihl hl, ihr hr]

theorem stepCbv_none_of_isWNF {t} (h : isWNF t = true) : stepCbv t = none := by
  induction t with
  | var i => simp [stepCbv]
  | abs b => simp [stepCbv]
  | app l r ihl ihr =>
    simp [isWNF] at h
    exact stepCbv_app_none (ihl h.1.2) (ihr h.2) h.1.1

theorem stepCbv_none_iff_isWNF {t} : stepCbv t = none ↔ isWNF t = true :=
  ⟨isWNF_of_stepCbv_none, stepCbv_none_of_isWNF⟩

theorem isWNF_neutral {t} (hw : isWNF t = true) (hna : isAbs t = false) : neutral t = true := by
  induction t with
  | var i => rfl
  | abs b => simp [isAbs] at hna
  | app l r ihl _ =>
    simp [isWNF] at hw
    simpa [neutral] using ihl hw.1.2 hw.1.1

theorem neutral_isAbs_false {t} (h : neutral t = true) : isAbs t = false := by
  cases t <;> simp_all [neutral, isAbs]

/-! ### congruence of `stepHap` -/

theorem stepHap_abs_step {b b'} (h : stepHap b = some b') : stepHap (abs b) = some (abs b') := by
  simp [stepHap, h]

theorem stepHap_abs_none {b} (h : stepHap b = none) : stepHap (abs b) = none := by
  simp [stepHap, h]

theorem stepHap_app_cbv {l l'} (r) (h : stepCbv l = some l') :
    stepHap (app l r) = some (app l' r) := by
  simp [stepHap, h]

theorem stepHap_app_right {l r r'} (hn : stepCbv l = none) (h : stepHap r = some r') :
    stepHap (app l r) = some (app l r') := by
  simp [stepHap, hn, h]

theorem stepHap_app_red {b r} (h : stepHap r = none) :
    stepHap (app (abs b) r) = some (contract b r) := by
  simp [stepHap, stepCbv, h]

theorem stepHap_app_left {l l' r} (hn : stepCbv l = none) (hr : stepHap r = none)
    (hna : isAbs l = false) (h : stepHap l = some l') : stepHap (app l r) = some (app l' r) := by
  cases l with
  | var i => simp [stepHap] at h
  | abs b => simp [isAbs] at hna
  | app l1 l2 => rw [stepHap, hn, hr] <;> simp [h]

theorem stepHap_app_none {l r} (hn : stepCbv l = none) (hr : stepHap r = none)
    (hna : isAbs l = false) (h : stepHap l = none) : stepHap (app l r) = none := by
  cases l with
  | var i => rw [stepHap, hn, hr] <;> simp [stepHap]
  | abs b => simp [isAbs] at hna
  | app l1 l2 => rw [stepHap, hn, hr] <;> simp [h]

theorem stepHap_app_none_inv {l r} (h : stepHap (app l r) = none) :
    stepCbv l = none ∧ stepHap r = none ∧ isAbs l = false ∧ stepHap l = none := by
  cases hl : stepCbv l with
  | some l' => rw [stepHap_app_cbv r hl] at h; cases h
  | none =>
    cases hr : stepHap r with
    | some r' => rw [stepHap_app_right hl hr] at h; cases h
    | none =>
      cases hna : isAbs l with
      | true =>
        cases l with
        | abs b => rw [stepHap_app_red hr] at h; cases h
        | _ => simp [isAbs] at hna
      | false =>
        cases hs : stepHap l with
        | some l' => rw [stepHap_app_left hl hr hna hs] at h; cases h
        | none => exact ⟨rfl, rfl, rfl, rfl⟩

/-- normal forms of `stepHap` are `stepCbv`-normal -/
theorem stepCbv_none_of_stepHap_none {t} (h : stepHap t = none) : stepCbv t = none := by
  induction t with
  | var i => simp [stepCbv]
  | abs b => simp [stepCbv]
  | app l r _ ihr =>
    obtain ⟨hl, hr, hna, _⟩ := stepHap_app_none_inv h
    exact stepCbv_app_none hl (ihr hr) hna

/-- `stepHap` preserves weak normal forms, and neutral ones stay neutral -/
theorem stepHap_isWNF {t t'} (hw : isWNF t = true) (h : stepHap t = some t') :
    isWNF t' = true ∧ (neutral t = true → neutral t' = true) := by
  induction t generalizing t' with
  | var i => simp [stepHap] at h
  | abs b =>
    simp [stepHap] at h; obtain ⟨a, _, rfl⟩ := h
    simp [isWNF, neutral]
  | app l r ihl ihr =>
    simp [isWNF] at hw
    obtain ⟨⟨hna, hwl⟩, hwr⟩ := hw
    have hcl := stepCbv_none_of_isWNF hwl
    cases hr : stepHap r with
    | some r' =>
      rw [stepHap_app_right hcl hr] at h; simp at h; subst h
      have := (ihr hwr hr).1
      simp [isWNF, neutral, hna, hwl, this]
    | none =>
      cases hl : stepHap l with
      | some l' =>
        rw [stepHap_app_left hcl hr hna hl] at h; simp at h; subst h
        have hneu := isWNF_neutral hwl hna
        obtain ⟨hwl', hn'⟩ := ihl hwl hl
        have hneu' := hn' hneu
        simp [isWNF, neutral, hwl', hwr, hneu', neutral_isAbs_false hneu']
      | none =>
        rw [stepHap_app_none hcl hr hna hl] at h; simp at h

/-! ### lifting runs -/

theorem Iter.hap_abs {k b b'} (h : Iter stepHap k b b') : Iter stepHap k (abs b) (abs b') := by
  induction h with
  | zero t => exact Iter.zero _
  | succ hs _ ih => exact Iter.succ (stepHap_abs_step hs) ih

theorem Iter.cbv_hap_app {k l l'} (r) (h : Iter stepCbv k l l') :
    Iter stepHap k (app l r) (app l' r) := by
  induction h with
  | zero t => exact Iter.zero _
  | succ hs _ ih => exact Iter.succ (stepHap_app_cbv r hs) ih

theorem Iter.hap_app_right {k r r'} (l) (hn : stepCbv l = none) (h : Iter stepHap k r r') :
    Iter stepHap k (app l r) (app l r') := by
  induction h with
  | zero t => exact Iter.zero _
  | succ hs _ ih => exact Iter.succ (stepHap_app_right hn hs) ih

/-- the first two phases of `betaHap` on an application combined: the operand phase may only
perform steps when the operator is already `stepCbv`-normal -/
theorem Iter.hap_app {k1 k2 l l' r r'} (h1 : Iter stepCbv k1 l l') (h2 : Iter stepHap k2 r r')
    (hn : k2 ≠ 0 → stepCbv l' = none) : Iter stepHap (k1 + k2) (app l r) (app l' r') := by
  by_cases hk : k2 = 0
  · subst hk; cases h2; exact Iter.cbv_hap_app r h1
  · exact (Iter.cbv_hap_app r h1).trans (Iter.hap_app_right l' (hn hk) h2)

/-- the third phase: a `stepHap` run on a neutral weak normal form operator, next to a
`stepHap`-normal operand, is a run of the application -/
theorem Iter.hap_app_left {k l l'} (r) (hw : isWNF l = true) (hneu : neutral l = true)
    (hr : stepHap r = none) (h : Iter stepHap k l l') :
    Iter stepHap k (app l r) (app l' r) ∧ isWNF l' = true ∧ neutral l' = true := by
  induction h with
  | zero t => exact ⟨Iter.zero _, hw, hneu⟩
  | succ hs _ ih =>
    obtain ⟨hw', hn'⟩ := stepHap_isWNF hw hs
    obtain ⟨it, h1, h2⟩ := ih hw' (hn' hneu)
    exact ⟨Iter.succ (stepHap_app_left (stepCbv_none_of_isWNF hw) hr (neutral_isAbs_false hneu) hs) it,
      h1, h2⟩

theorem betaHap_sound (L : Nat) : ∀ fuel t c t' c', betaHap L fuel t c = some (t', c') → (L = 0 ∨ c ≤ L) →
    Post stepHap L c t t' c' := by
  intro fuel
  induction fuel with
  | zero => intro t c t' c' h; simp [betaHap] at h
  | succ fuel ih =>
    intro t c t' c' h hc
    unfold betaHap at h
    split at h
    · -- gate
      rename_i hg
      simp at h; obtain ⟨rfl, rfl⟩ := h
      simp [gate] at hg
      exact ⟨0, rfl, Iter.zero _, fun _ => by omega, fun hh => by omega⟩
    · rename_i hg
      have hgate : L ≠ 0 → c < L := by
        intro hL; simp [gate] at hg; rcases hc with h0 | h1
        · exact absurd h0 hL
        · have := hg hL; omega
      split at h
      · -- abs
        rename_i b
        split at h
        · simp at h
        · rename_i b' c1 hb
          simp at h; obtain ⟨rfl, rfl⟩ := h
          obtain ⟨k, rfl, it, hle, hnf⟩ := ih _ _ _ _ hb hc
          exact ⟨k, rfl, it.hap_abs, hle, fun hh => stepHap_abs_none (hnf hh)⟩
      · -- app
        rename_i l r
        split at h
        · simp at h
        · rename_i l' c1 hl
          have P1 : Post stepCbv L c l l' c1 := betaCbv_sound L _ _ _ _ _ hl hc
          have hc1 := P1.budget_ok'
          obtain ⟨k1, rfl, it1, hle1, hnf1⟩ := P1
          split at h
          · simp at h
          · rename_i r' c2 hr
            have P2 : Post stepHap L _ r r' c2 := ih _ _ _ _ hr hc1
            have hc2 := P2.budget_ok'
            obtain ⟨k2, rfl, it2, hle2, hnf2⟩ := P2
            -- the combined run of the two argument phases
            have it12 : Iter stepHap (k1 + k2) (app l r) (app l' r') := by
              apply Iter.hap_app it1 it2
              intro hk2
              apply hnf1
              by_cases hL : L = 0
              · exact Or.inl hL
              · have := hle2 hL; right; omega
            split at h
            · -- reducible
              rename_i hred
              simp at hred
              split at h
              · rename_i b
                have hb' : L = 0 ∨ c + k1 + k2 < L := by
                  have := hred.2; simp [budget] at this; omega
                have hc3 : L = 0 ∨ c + k1 + k2 + 1 ≤ L := by omega
                obtain ⟨k3, rfl, it3, hle3, hnf3⟩ := ih _ _ _ _ h hc3
                refine ⟨k1 + k2 + 1 + k3, by omega, ?_, hle3, hnf3⟩
                exact (it12.trans (Iter.succ (stepHap_app_red (hnf2 hb')) it3)).cast (by omega)
              · simp at h
            · -- else branch
              rename_i hred
              split at h
              · simp at h
              · rename_i l2 c3 hl2
                simp at h; obtain ⟨rfl, rfl⟩ := h
                obtain ⟨k3, rfl, it3, hle3, hnf3⟩ := ih _ _ _ _ hl2 hc2
                by_cases hbud : L = 0 ∨ c + k1 + k2 < L
                · -- budget left after the operand phase: `l'` is a neutral weak normal form
                  have hna : isAbs l' = false := by
                    cases hia : isAbs l' with
                    | false => rfl
                    | true => exfalso; apply hred; simp [hia, budget]; omega
                  have hb1 : L = 0 ∨ c + k1 < L := by omega
                  have hw := isWNF_of_stepCbv_none (hnf1 hb1)
                  have hneu := isWNF_neutral hw hna
                  have hrn := hnf2 hbud
                  obtain ⟨itL, hw2, hneu2⟩ := Iter.hap_app_left r' hw hneu hrn it3
                  refine ⟨k1 + k2 + k3, by omega, (it12.trans itL).cast (by omega), hle3, ?_⟩
                  intro hh
                  exact stepHap_app_none (stepCbv_none_of_isWNF hw2) hrn
                    (neutral_isAbs_false hneu2) (hnf3 hh)
                · have hL : L ≠ 0 := by intro h0; exact hbud (Or.inl h0)
                  have hk3 : k3 = 0 := by have := hle3 hL; have := hle2 hL; omega
                  subst hk3
                  cases it3
                  refine ⟨k1 + k2, by omega, it12, by simpa using hle3, ?_⟩
                  intro hh; exfalso; apply hbud; simpa using hh
      · -- neither abs nor app
        rename_i hna1 hna2
        simp at h; obtain ⟨rfl, rfl⟩ := h
        refine ⟨0, rfl, Iter.zero _, fun hL => by have := hgate hL; omega, ?_⟩
        intro _
        cases t with
        | var i => simp [stepHap]
        | abs b => exact absurd rfl (hna1 b)
        | app l r => exact absurd rfl (hna2 l r)

end Term
end LC
