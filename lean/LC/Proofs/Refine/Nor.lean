/-
Refinement, soundness direction (DESIGN §6.3): whenever the traversal `betaNor` returns,
it has performed exactly `c' - c` steps of the small-step strategy `stepNor`, stayed within
the limit, and (if budget is left) stopped in a `stepNor`-normal form.
-/
import LC.Proofs.Beta
import LC.Proofs.Refine.Cbn
import LC.Spec.NormalForms

namespace LC
namespace Term
open Spec

theorem neutral_of_cbn_nf {t} (h1 : stepCbn t = none) (h2 : isAbs t = false) : neutral t = true := by
  induction t with
  | var i => rfl
  | abs b => simp [isAbs] at h2
  | app l r ihl _ =>
    cases l with
    | var i => rfl
    | abs b => simp [stepCbn] at h1
    | app l1 l2 => simp [stepCbn] at h1; simp [neutral] at *; exact ihl h1 rfl

theorem neutral_not_abs {t} (h : neutral t = true) : isAbs t = false := by cases t <;> simp_all [neutral, isAbs]

theorem stepNor_app_left {l l'} (r) (hl : isAbs l = false) (h : stepNor l = some l') : stepNor (app l r) = some (app l' r) := by
  cases l with
  | var i => simp [stepNor] at h
  | abs b => simp [isAbs] at hl
  | app l1 l2 => simp only [stepNor]; simp [h]

theorem stepNor_app_right {l r r'} (hl : isAbs l = false) (hn : stepNor l = none) (h : stepNor r = some r') : stepNor (app l r) = some (app l r') := by
  cases l with
  | var i => simp [stepNor, h]
  | abs b => simp [isAbs] at hl
  | app l1 l2 => simp only [stepNor]; simp [hn, h]

theorem stepNor_app_none {l r} (hl : isAbs l = false) (hn : stepNor l = none) (h : stepNor r = none) : stepNor (app l r) = none := by
  cases l with
  | var i => simp [stepNor, h]
  | abs b => simp [isAbs] at hl
  | app l1 l2 => simp only [stepNor]; simp [hn, h]

theorem stepNor_neutral {t t'} (hn : neutral t = true) (h : stepNor t = some t') : neutral t' = true := by
  induction t generalizing t' with
  | var i => simp [stepNor] at h
  | abs b => simp [neutral] at hn
  | app l r ihl _ =>
    have hl : isAbs l = false := neutral_not_abs (by simpa [neutral] using hn)
    cases hs : stepNor l with
    | some l' =>
      rw [stepNor_app_left r hl hs] at h; simp at h; subst h
      simp [neutral] at *; exact ihl hn hs
    | none =>
      cases hr : stepNor r with
      | some r' => rw [stepNor_app_right hl hs hr] at h; simp at h; subst h; simpa [neutral] using hn
      | none => rw [stepNor_app_none hl hs hr] at h; simp at h

theorem stepCbn_stepNor {t t'} (h : stepCbn t = some t') : stepNor t = some t' := by
  induction t generalizing t' with
  | var i => simp [stepCbn] at h
  | abs b => simp [stepCbn] at h
  | app l r ihl _ =>
    cases l with
    | var i => simp [stepCbn] at h
    | abs b => simpa [stepCbn, stepNor] using h
    | app l1 l2 =>
      simp [stepCbn] at h; obtain ⟨a, ha, rfl⟩ := h
      exact stepNor_app_left r rfl (ihl ha)

theorem Iter.cbn_nor_app {k l l'} (r) (h : Iter stepCbn k l l') : Iter stepNor k (app l r) (app l' r) := by
  induction h with
  | zero t => exact Iter.zero _
  | succ hs _ ih => exact Iter.succ (stepNor_app_left r (stepCbn_isSome_not_abs hs) (stepCbn_stepNor hs)) ih

theorem Iter.nor_abs {k b b'} (h : Iter stepNor k b b') : Iter stepNor k (abs b) (abs b') := by
  induction h with
  | zero t => exact Iter.zero _
  | succ hs _ ih => exact Iter.succ (by simp [stepNor, hs]) ih

theorem Iter.nor_app_left {k l l'} (r) (hn : neutral l = true) (h : Iter stepNor k l l') :
    Iter stepNor k (app l r) (app l' r) ∧ neutral l' = true := by
  induction h with
  | zero t => exact ⟨Iter.zero _, hn⟩
  | succ hs _ ih =>
    have := ih (stepNor_neutral hn hs)
    exact ⟨Iter.succ (stepNor_app_left r (neutral_not_abs hn) hs) this.1, this.2⟩

theorem Iter.nor_app_right {k r r'} (l) (hl : isAbs l = false) (hn : stepNor l = none) (h : Iter stepNor k r r') :
    Iter stepNor k (app l r) (app l r') := by
  induction h with
  | zero t => exact Iter.zero _
  | succ hs _ ih => exact Iter.succ (stepNor_app_right hl hn hs) ih

theorem Post.budget_ok {step L c t t' c'} (h : Post step L c t t' c') : L = 0 ∨ c' ≤ L := by
  obtain ⟨_, _, _, hle, _⟩ := h
  by_cases hL : L = 0
  · exact Or.inl hL
  · exact Or.inr (hle hL)

theorem betaNor_sound (L : Nat) : ∀ fuel t c t' c', betaNor L fuel t c = some (t', c') → (L = 0 ∨ c ≤ L) →
    Post stepNor L c t t' c' := by
  intro fuel
  induction fuel with
  | zero => intro t c t' c' h; simp [betaNor] at h
  | succ fuel ih =>
    intro t c t' c' h hc
    unfold betaNor at h
    split at h
    · rename_i hg
      simp at h; obtain ⟨rfl, rfl⟩ := h
      simp [gate] at hg
      exact ⟨0, rfl, Iter.zero _, fun _ => by omega, fun hh => by omega⟩
    · rename_i hg
      have hgate : L ≠ 0 → c < L := by
        intro hL; simp [gate] at hg; rcases hc with h0 | h1
        · exact absurd h0 hL
        · have := hg hL; omega
      split at h
      · -- abs
        rename_i b
        split at h
        · simp at h
        · rename_i b' c1 hb
          simp at h; obtain ⟨rfl, rfl⟩ := h
          obtain ⟨k, rfl, it, hle, hnf⟩ := ih _ _ _ _ hb hc
          exact ⟨k, rfl, it.nor_abs, hle, fun hh => by simp [stepNor, hnf hh]⟩
      · -- app
        rename_i l r
        split at h
        · simp at h
        · rename_i l' c1 hl
          have P1 : Post stepCbn L c l l' c1 := betaCbn_sound L _ _ _ _ _ hl hc
          have hc1 := P1.budget_ok
          obtain ⟨k1, rfl, it1, hle1, hnf1⟩ := P1
          split at h
          · -- reducible
            rename_i hred
            simp at hred
            split at h
            · rename_i b
              have hc1' : L = 0 ∨ c + k1 + 1 ≤ L := by have := hred.2; simp [budget] at this; omega
              obtain ⟨k2, rfl, it2, hle2, hnf2⟩ := ih _ _ _ _ h hc1'
              refine ⟨k1 + 1 + k2, by omega, ?_, hle2, hnf2⟩
              exact ((Iter.cbn_nor_app r it1).trans (Iter.succ (by simp [stepNor]) it2)).cast (by omega)
            · simp at h
          · -- else branch
            rename_i hred
            split at h
            · simp at h
            · rename_i l2 c2 hl2
              split at h
              · simp at h
              · rename_i r' c3 hr
                simp at h; obtain ⟨rfl, rfl⟩ := h
                have P2 : Post stepNor L _ _ _ _ := ih _ _ _ _ hl2 hc1
                have hc2 := P2.budget_ok
                obtain ⟨k2, rfl, it2, hle2, hnf2⟩ := P2
                obtain ⟨k3, rfl, it3, hle3, hnf3⟩ := ih _ _ _ _ hr hc2
                by_cases hbud : L = 0 ∨ c + k1 < L
                · -- budget left after the cbn phase, so l' is not an abstraction, hence neutral
                  have hna : isAbs l' = false := by
                    cases hia : isAbs l' with
                    | false => rfl
                    | true => exfalso; apply hred; simp [hia, budget]; omega
                  have hneu := neutral_of_cbn_nf (hnf1 hbud) hna
                  obtain ⟨itL, hneu2⟩ := Iter.nor_app_left r hneu it2
                  by_cases hbud2 : L = 0 ∨ c + k1 + k2 < L
                  · have hn2 := hnf2 hbud2
                    have itR := Iter.nor_app_right l2 (neutral_not_abs hneu2) hn2 it3
                    refine ⟨k1 + k2 + k3, by omega, (((Iter.cbn_nor_app r it1).trans itL).trans itR).cast (by omega), hle3, ?_⟩
                    intro hh
                    exact stepNor_app_none (neutral_not_abs hneu2) hn2 (hnf3 hh)
                  · have hL : L ≠ 0 := by intro h0; exact hbud2 (Or.inl h0)
                    have hk3 : k3 = 0 := by have := hle3 hL; have := hle2 hL; omega
                    subst hk3
                    cases it3
                    refine ⟨k1 + k2, by omega, ((Iter.cbn_nor_app r it1).trans itL).cast (by omega), by simpa using hle3, ?_⟩
                    intro hh; exfalso; apply hbud2; simpa using hh
                · have hL : L ≠ 0 := by intro h0; exact hbud (Or.inl h0)
                  have hk2 : k2 = 0 := by have := hle2 hL; have := hle1 hL; omega
                  subst hk2
                  have hk3 : k3 = 0 := by have := hle3 hL; have := hle1 hL; omega
                  subst hk3
                  cases it2; cases it3
                  refine ⟨k1, by omega, Iter.cbn_nor_app r it1, by simpa using hle3, ?_⟩
                  intro hh; exfalso; apply hbud; simpa using hh
      · rename_i hna1 hna2
        simp at h; obtain ⟨rfl, rfl⟩ := h
        refine ⟨0, rfl, Iter.zero _, fun hL => by have := hgate hL; omega, ?_⟩
        intro _
        cases t with
        | var i => simp [stepNor]
        | abs b => exact absurd rfl (hna1 b)
        | app l r => exact absurd rfl (hna2 l r)

end Term
end LC
