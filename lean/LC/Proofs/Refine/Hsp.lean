/-
Refinement, soundness direction (DESIGN §6.3): whenever the traversal `betaHsp` returns,
it has performed exactly `c' - c` steps of the small-step strategy `stepHsp`, stayed within
the limit, and (if budget is left) stopped in a `stepHsp`-normal form.
-/
import LC.Proofs.Beta
import LC.Spec.NormalForms

namespace LC
namespace Term

theorem stepHsp_abs_of_step {b b'} (h : stepHsp b = some b') : stepHsp (abs b) = some (abs b') := by
  simp [stepHsp, h]

theorem stepHsp_abs_none {b} (h : stepHsp b = none) : stepHsp (abs b) = none := by
  simp [stepHsp, h]

/-- unlike CBN, this holds for every operator `l`, abstractions included -/
theorem stepHsp_app_of_step {l l'} (r) (h : stepHsp l = some l') : stepHsp (app l r) = some (app l' r) := by
  simp [stepHsp, h]

theorem stepHsp_app_redex {b} (r) (h : stepHsp (abs b) = none) : stepHsp (app (abs b) r) = some (contract b r) := by
  simp only [stepHsp] at h ⊢
  simp [h]

theorem stepHsp_app_none {l} (r) (hl : isAbs l = false) (h : stepHsp l = none) : stepHsp (app l r) = none := by
  cases l with
  | var i => simp [stepHsp]
  | abs b => simp [isAbs] at hl
  | app l1 l2 => simp only [stepHsp] at h ⊢; simp [h]

theorem Iter.hsp_abs {k b b'} (h : Iter stepHsp k b b') : Iter stepHsp k (abs b) (abs b') := by
  induction h with
  | zero t => exact Iter.zero _
  | succ hs _ ih => exact Iter.succ (stepHsp_abs_of_step hs) ih

theorem Iter.hsp_app {k l l'} (r) (h : Iter stepHsp k l l') : Iter stepHsp k (app l r) (app l' r) := by
  induction h with
  | zero t => exact Iter.zero _
  | succ hs _ ih => exact Iter.succ (stepHsp_app_of_step r hs) ih

theorem betaHsp_sound (L : Nat) : ∀ fuel t c t' c', betaHsp L fuel t c = some (t', c') → (L = 0 ∨ c ≤ L) →
    Post stepHsp L c t t' c' := by
  intro fuel
  induction fuel with
  | zero => intro t c t' c' h; simp [betaHsp] at h
  | succ fuel ih =>
    intro t c t' c' h hc
    unfold betaHsp at h
    split at h
    · -- gate
      rename_i hg
      simp at h; obtain ⟨rfl, rfl⟩ := h
      simp [gate] at hg
      exact ⟨0, rfl, Iter.zero _, fun _ => by omega, fun hh => by omega⟩
    · rename_i hg
      have hgate : L ≠ 0 → c < L := by
        intro hL; simp [gate] at hg; rcases hc with h0 | h1
        · exact absurd h0 hL
        · have := hg hL; omega
      split at h
      · -- abs
        rename_i b
        split at h
        · simp at h
        · rename_i b' c1 hb
          simp at h; obtain ⟨rfl, rfl⟩ := h
          obtain ⟨k, rfl, it, hle, hnf⟩ := ih _ _ _ _ hb hc
          exact ⟨k, rfl, it.hsp_abs, hle, fun hh => stepHsp_abs_none (hnf hh)⟩
      · -- app
        rename_i l r
        split at h
        · simp at h
        · rename_i l' c1 hl
          obtain ⟨k1, rfl, it1, hle1, hnf1⟩ := ih _ _ _ _ hl hc
          split at h
          · rename_i b
            split at h
            · rename_i hb
              have hbud : L = 0 ∨ c + k1 < L := by simp [budget] at hb; omega
              have hc1 : L = 0 ∨ c + k1 + 1 ≤ L := by omega
              obtain ⟨k2, rfl, it2, hle2, hnf2⟩ := ih _ _ _ _ h hc1
              refine ⟨k1 + 1 + k2, by omega, ?_, hle2, hnf2⟩
              exact ((Iter.hsp_app r it1).trans (Iter.succ (stepHsp_app_redex r (hnf1 hbud)) it2)).cast (by omega)
            · rename_i hb
              simp at h; obtain ⟨rfl, rfl⟩ := h
              refine ⟨k1, rfl, Iter.hsp_app r it1, hle1, ?_⟩
              intro hh; simp [budget] at hb; omega
          · rename_i hna
            simp at h; obtain ⟨rfl, rfl⟩ := h
            refine ⟨k1, rfl, Iter.hsp_app r it1, hle1, ?_⟩
            intro hh
            apply stepHsp_app_none r _ (hnf1 hh)
            cases l' with
            | var i => rfl
            | abs b => exact absurd rfl (hna b)
            | app l1 l2 => rfl
      · rename_i hna1 hna2
        simp at h; obtain ⟨rfl, rfl⟩ := h
        refine ⟨0, rfl, Iter.zero _, fun hL => by have := hgate hL; omega, ?_⟩
        intro _
        cases t with
        | var i => simp [stepHsp]
        | abs b => exact absurd rfl (hna1 b)
        | app l r => exact absurd rfl (hna2 l r)

end Term
end LC
