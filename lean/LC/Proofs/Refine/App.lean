/-
Refinement, soundness direction (DESIGN §6.3): whenever the traversal `betaApp` returns,
it has performed exactly `c' - c` steps of the small-step strategy `stepApp`, stayed within
the limit, and (if budget is left) stopped in a `stepApp`-normal form.
-/
import LC.Proofs.Beta
import LC.Proofs.Refine.Cbv

namespace LC
namespace Term
open Spec

theorem stepApp_abs_step {b b'} (h : stepApp b = some b') : stepApp (abs b) = some (abs b') := by
  simp [stepApp, h]

theorem stepApp_abs_none {b} (h : stepApp b = none) : stepApp (abs b) = none := by
  simp [stepApp, h]

theorem stepApp_app_left {l l'} (r) (h : stepApp l = some l') :
    stepApp (app l r) = some (app l' r) := by
  simp [stepApp, h]

theorem stepApp_app_right {l r r'} (hn : stepApp l = none) (h : stepApp r = some r') :
    stepApp (app l r) = some (app l r') := by
  simp [stepApp, hn, h]

theorem stepApp_app_red {b r} (hl : stepApp (abs b) = none) (h : stepApp r = none) :
    stepApp (app (abs b) r) = some (contract b r) := by
  rw [stepApp, hl, h]

theorem stepApp_app_none {l r} (hl : stepApp l = none) (hr : stepApp r = none)
    (hna : isAbs l = false) : stepApp (app l r) = none := by
  cases l with
  | var i => rw [stepApp, hl, hr]; intro b hb; cases hb
  | abs b => simp [isAbs] at hna
  | app l1 l2 => rw [stepApp, hl, hr]; intro b hb; cases hb

theorem Iter.app_abs {k b b'} (h : Iter stepApp k b b') : Iter stepApp k (abs b) (abs b') := by
  induction h with
  | zero t => exact Iter.zero _
  | succ hs _ ih => exact Iter.succ (stepApp_abs_step hs) ih

theorem Iter.app_app_left {k l l'} (r) (h : Iter stepApp k l l') :
    Iter stepApp k (app l r) (app l' r) := by
  induction h with
  | zero t => exact Iter.zero _
  | succ hs _ ih => exact Iter.succ (stepApp_app_left r hs) ih

theorem Iter.app_app_right {k r r'} (l) (hn : stepApp l = none) (h : Iter stepApp k r r') :
    Iter stepApp k (app l r) (app l r') := by
  induction h with
  | zero t => exact Iter.zero _
  | succ hs _ ih => exact Iter.succ (stepApp_app_right hn hs) ih

/-- the two argument phases of `betaApp` combined: the operand phase may only perform steps
when the operator is already `stepApp`-normal -/
theorem Iter.app_app {k1 k2 l l' r r'} (h1 : Iter stepApp k1 l l') (h2 : Iter stepApp k2 r r')
    (hn : k2 ≠ 0 → stepApp l' = none) : Iter stepApp (k1 + k2) (app l r) (app l' r') := by
  by_cases hk : k2 = 0
  · subst hk; cases h2; exact Iter.app_app_left r h1
  · exact (Iter.app_app_left r h1).trans (Iter.app_app_right l' (hn hk) h2)

theorem betaApp_sound (L : Nat) : ∀ fuel t c t' c', betaApp L fuel t c = some (t', c') → (L = 0 ∨ c ≤ L) →
    Post stepApp L c t t' c' := by
  intro fuel
  induction fuel with
  | zero => intro t c t' c' h; simp [betaApp] at h
  | succ fuel ih =>
    intro t c t' c' h hc
    unfold betaApp at h
    split at h
    · -- gate
      rename_i hg
      simp at h; obtain ⟨rfl, rfl⟩ := h
      simp [gate] at hg
      exact ⟨0, rfl, Iter.zero _, fun _ => by omega, fun hh => by omega⟩
    · rename_i hg
      have hgate : L ≠ 0 → c < L := by
        intro hL; simp [gate] at hg; rcases hc with h0 | h1
        · exact absurd h0 hL
        · have := hg hL; omega
      split at h
      · -- abs
        rename_i b
        split at h
        · simp at h
        · rename_i b' c1 hb
          simp at h; obtain ⟨rfl, rfl⟩ := h
          obtain ⟨k, rfl, it, hle, hnf⟩ := ih _ _ _ _ hb hc
          exact ⟨k, rfl, it.app_abs, hle, fun hh => stepApp_abs_none (hnf hh)⟩
      · -- app
        rename_i l r
        split at h
        · simp at h
        · rename_i l' c1 hl
          have P1 : Post stepApp L c l l' c1 := ih _ _ _ _ hl hc
          have hc1 := P1.budget_ok'
          obtain ⟨k1, rfl, it1, hle1, hnf1⟩ := P1
          split at h
          · simp at h
          · rename_i r' c2 hr
            have P2 : Post stepApp L _ r r' c2 := ih _ _ _ _ hr hc1
            have hc2 := P2.budget_ok'
            obtain ⟨k2, rfl, it2, hle2, hnf2⟩ := P2
            -- the combined run of the two argument phases
            have it12 : Iter stepApp (k1 + k2) (app l r) (app l' r') := by
              apply Iter.app_app it1 it2
              intro hk2
              apply hnf1
              by_cases hL : L = 0
              · exact Or.inl hL
              · have := hle2 hL; right; omega
            split at h
            · rename_i b
              split at h
              · rename_i hb
                have hb' : L = 0 ∨ c + k1 + k2 < L := by simp [budget] at hb; omega
                have hb1 : L = 0 ∨ c + k1 < L := by omega
                have hc3 : L = 0 ∨ c + k1 + k2 + 1 ≤ L := by omega
                obtain ⟨k3, rfl, it3, hle3, hnf3⟩ := ih _ _ _ _ h hc3
                refine ⟨k1 + k2 + 1 + k3, by omega, ?_, hle3, hnf3⟩
                exact (it12.trans (Iter.succ (stepApp_app_red (hnf1 hb1) (hnf2 hb')) it3)).cast (by omega)
              · rename_i hb
                simp at h; obtain ⟨rfl, rfl⟩ := h
                refine ⟨k1 + k2, by omega, it12, hle2, ?_⟩
                intro hh; simp [budget] at hb; omega
            · rename_i hna
              simp at h; obtain ⟨rfl, rfl⟩ := h
              refine ⟨k1 + k2, by omega, it12, hle2, ?_⟩
              intro hh
              have hh1 : L = 0 ∨ c + k1 < L := by omega
              apply stepApp_app_none (hnf1 hh1) (hnf2 hh)
              cases l' with
              | abs b => exact absurd rfl (hna b)
              | _ => rfl
      · -- neither abs nor app
        rename_i hna1 hna2
        simp at h; obtain ⟨rfl, rfl⟩ := h
        refine ⟨0, rfl, Iter.zero _, fun hL => by have := hgate hL; omega, ?_⟩
        intro _
        cases t with
        | var i => simp [stepApp]
        | abs b => exact absurd rfl (hna1 b)
        | app l r => exact absurd rfl (hna2 l r)

end Term
end LC
