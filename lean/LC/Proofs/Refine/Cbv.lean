/-
Refinement, soundness direction (DESIGN §6.3): whenever the traversal `betaCbv` returns,
it has performed exactly `c' - c` steps of the small-step strategy `stepCbv`, stayed within
the limit, and (if budget is left) stopped in a `stepCbv`-normal form.
-/
import LC.Proofs.Beta
import LC.Spec.NormalForms

namespace LC
namespace Term
open Spec

theorem stepCbv_abs (b : Term) : stepCbv (abs b) = none := by simp [stepCbv]

theorem stepCbv_app_left {l l'} (r) (h : stepCbv l = some l') :
    stepCbv (app l r) = some (app l' r) := by
  simp [stepCbv, h]

theorem stepCbv_app_right {l r r'} (hn : stepCbv l = none) (h : stepCbv r = some r') :
    stepCbv (app l r) = some (app l r') := by
  simp [stepCbv, hn, h]

theorem stepCbv_app_red {b r} (h : stepCbv r = none) :
    stepCbv (app (abs b) r) = some (contract b r) := by
  simp [stepCbv, h]

theorem stepCbv_app_none {l r} (hl : stepCbv l = none) (hr : stepCbv r = none)
    (hna : isAbs l = false) : stepCbv (app l r) = none := by
  cases l with
  | var i => simp [stepCbv, hr]
  | abs b => simp [isAbs] at hna
  | app l1 l2 => rw [stepCbv, hl, hr]; intro b hb; cases hb

theorem Iter.cbv_app_left {k l l'} (r) (h : Iter stepCbv k l l') :
    Iter stepCbv k (app l r) (app l' r) := by
  induction h with
  | zero t => exact Iter.zero _
  | succ hs _ ih => exact Iter.succ (stepCbv_app_left r hs) ih

theorem Iter.cbv_app_right {k r r'} (l) (hn : stepCbv l = none) (h : Iter stepCbv k r r') :
    Iter stepCbv k (app l r) (app l r') := by
  induction h with
  | zero t => exact Iter.zero _
  | succ hs _ ih => exact Iter.succ (stepCbv_app_right hn hs) ih

/-- the two argument phases of `betaCbv` combined: the operand phase may only perform steps
when the operator is already `stepCbv`-normal -/
theorem Iter.cbv_app {k1 k2 l l' r r'} (h1 : Iter stepCbv k1 l l') (h2 : Iter stepCbv k2 r r')
    (hn : k2 ≠ 0 → stepCbv l' = none) : Iter stepCbv (k1 + k2) (app l r) (app l' r') := by
  by_cases hk : k2 = 0
  · subst hk; cases h2; exact Iter.cbv_app_left r h1
  · exact (Iter.cbv_app_left r h1).trans (Iter.cbv_app_right l' (hn hk) h2)

theorem Post.budget_ok' {step L c t t' c'} (h : Post step L c t t' c') : L = 0 ∨ c' ≤ L := by
  obtain ⟨_, _, _, hle, _⟩ := h
  by_cases hL : L = 0
  · exact Or.inl hL
  · exact Or.inr (hle hL)

theorem betaCbv_sound (L : Nat) : ∀ fuel t c t' c', betaCbv L fuel t c = some (t', c') → (L = 0 ∨ c ≤ L) →
    Post stepCbv L c t t' c' := by
  intro fuel
  induction fuel with
  | zero => intro t c t' c' h; simp [betaCbv] at h
  | succ fuel ih =>
    intro t c t' c' h hc
    unfold betaCbv at h
    split at h
    · -- gate
      rename_i hg
      simp at h; obtain ⟨rfl, rfl⟩ := h
      simp [gate] at hg
      exact ⟨0, rfl, Iter.zero _, fun _ => by omega, fun hh => by omega⟩
    · rename_i hg
      have hgate : L ≠ 0 → c < L := by
        intro hL; simp [gate] at hg; rcases hc with h0 | h1
        · exact absurd h0 hL
        · have := hg hL; omega
      split at h
      · -- app
        rename_i l r
        split at h
        · simp at h
        · rename_i l' c1 hl
          have P1 : Post stepCbv L c l l' c1 := ih _ _ _ _ hl hc
          have hc1 := P1.budget_ok'
          obtain ⟨k1, rfl, it1, hle1, hnf1⟩ := P1
          split at h
          · simp at h
          · rename_i r' c2 hr
            have P2 : Post stepCbv L _ r r' c2 := ih _ _ _ _ hr hc1
            have hc2 := P2.budget_ok'
            obtain ⟨k2, rfl, it2, hle2, hnf2⟩ := P2
            -- the combined run of the two argument phases
            have it12 : Iter stepCbv (k1 + k2) (app l r) (app l' r') := by
              apply Iter.cbv_app it1 it2
              intro hk2
              apply hnf1
              by_cases hL : L = 0
              · exact Or.inl hL
              · have := hle2 hL; right; omega
            split at h
            · rename_i b
              split at h
              · rename_i hb
                have hb' : L = 0 ∨ c + k1 + k2 < L := by simp [budget] at hb; omega
                have hc3 : L = 0 ∨ c + k1 + k2 + 1 ≤ L := by omega
                obtain ⟨k3, rfl, it3, hle3, hnf3⟩ := ih _ _ _ _ h hc3
                refine ⟨k1 + k2 + 1 + k3, by omega, ?_, hle3, hnf3⟩
                exact (it12.trans (Iter.succ (stepCbv_app_red (hnf2 hb')) it3)).cast (by omega)
              · rename_i hb
                simp at h; obtain ⟨rfl, rfl⟩ := h
                refine ⟨k1 + k2, by omega, it12, hle2, ?_⟩
                intro hh; simp [budget] at hb; omega
            · rename_i hna
              simp at h; obtain ⟨rfl, rfl⟩ := h
              refine ⟨k1 + k2, by omega, it12, hle2, ?_⟩
              intro hh
              have hh1 : L = 0 ∨ c + k1 < L := by omega
              apply stepCbv_app_none (hnf1 hh1) (hnf2 hh)
              cases l' with
              | abs b => exact absurd rfl (hna b)
              | _ => rfl
      · -- not app
        rename_i hna
        simp at h; obtain ⟨rfl, rfl⟩ := h
        refine ⟨0, rfl, Iter.zero _, fun hL => by have := hgate hL; omega, ?_⟩
        intro _
        cases t with
        | var i => simp [stepCbv]
        | abs b => simp [stepCbv]
        | app l r => exact absurd rfl (hna l r)

end Term
end LC
