/-
Hybrid normal order (`stepHno`) is normalising: it reaches the β-normal form of every term that
has one.

Route: strong induction on the size of the normal form `n`.  Since `n` is in particular a head
normal form, head-spine reduction of `t` terminates in a head normal form `H`
(`hsp_terminates`), and every `stepHsp` step is a `stepHno` step.  By confluence `H` still
reduces to `n`; reductions starting from a head normal form `λ…λ. y P₁ … P_k` are componentwise,
so `n` has the same skeleton with smaller normal forms `P_i ↠ N_i`, which `stepHno` reaches by the
induction hypothesis, left to right.
-/
import LC.Proofs.HeadSpine
import LC.Proofs.Confluence
import LC.Proofs.Refine.Hno

namespace LC
open Term Spec

/-- number of constructors -/
def tsize : Term → Nat
  | var _ => 1
  | abs b => tsize b + 1
  | app l r => tsize l + tsize r + 1

/-! ### `stepHno` extends `stepHsp`, and its normal forms are the β-normal forms -/

/-- every head-spine step is a hybrid-normal-order step -/
theorem stepHsp_stepHno {t t' : Term} (h : stepHsp t = some t') : stepHno t = some t' := by
  induction t generalizing t' with
  | var i => simp [stepHsp] at h
  | abs b ih =>
    simp [stepHsp] at h; obtain ⟨a, ha, rfl⟩ := h
    simp [stepHno, ih ha]
  | app l r _ _ =>
    simp only [stepHsp] at h
    split at h
    · rename_i l' hl
      simp at h; subst h
      simp [stepHno, hl]
    · rename_i hl
      split at h
      · simp at h; subst h
        exact stepHno_app_redex r hl
      · simp at h

theorem Term.Iter.hsp_hno {k : Nat} {t u : Term} (h : Iter stepHsp k t u) : Iter stepHno k t u := by
  induction h with
  | zero t => exact Iter.zero _
  | succ hs _ ih => exact Iter.succ (stepHsp_stepHno hs) ih

theorem Term.Iter.hno_star {k : Nat} {t u : Term} (h : Iter stepHno k t u) : Star t u := by
  induction h with
  | zero t => exact Star.refl _
  | succ hs _ ih => exact Star.head (stepHno_beta hs) ih

theorem stepHno_none_of_normal {t : Term} (hn : Normal t) : stepHno t = none := by
  cases h : stepHno t with
  | none => rfl
  | some u => exact absurd (stepHno_beta h) (hn u)

theorem stepHsp_none_of_normal {t : Term} (hn : Normal t) : stepHsp t = none := by
  cases h : stepHsp t with
  | none => rfl
  | some u => exact absurd (stepHsp_beta h) (hn u)

theorem isNormal_of_stepHno_none {t : Term} (h : stepHno t = none) : isNormal t = true := by
  induction t with
  | var i => rfl
  | abs b ih =>
    simp [stepHno] at h
    simpa [isNormal] using ih h
  | app l r ihl ihr =>
    cases l with
    | var i =>
      simp [stepHno, stepHsp] at h
      simp [isNormal, isAbs, ihr h]
    | abs b =>
      simp only [stepHno] at h
      split at h <;> simp at h
    | app l1 l2 =>
      simp only [stepHno] at h
      split at h
      · simp at h
      · split at h
        · simp at h
        · rename_i hl
          simp at h
          have h1 := ihl hl
          simp only [isNormal, isAbs] at h1 ⊢
          simp [h1, ihr h]

/-- the terms on which `stepHno` selects nothing are exactly the β-normal forms -/
theorem stepHno_none_iff (t : Term) : stepHno t = none ↔ isNormal t = true :=
  ⟨isNormal_of_stepHno_none, fun h => stepHno_none_of_normal ((isNormal_iff_normal t).1 h)⟩

/-! ### reductions from a head normal form are componentwise -/

theorem Spec.Normal.abs_inv {b : Term} (h : Normal (Term.abs b)) : Normal b :=
  fun _ hu => h _ (Beta.congAbs hu)

theorem Spec.Normal.app_inv {l r : Term} (h : Normal (Term.app l r)) : Normal l ∧ Normal r :=
  ⟨fun _ hu => h _ (Beta.congAppL hu), fun _ hu => h _ (Beta.congAppR hu)⟩

theorem Spec.Beta.neutral {t u : Term} (h : Beta t u) (hn : neutral t = true) : neutral u = true := by
  induction h with
  | red b a => simp [Spec.neutral] at hn
  | congAbs _ _ => simp [Spec.neutral] at hn
  | congAppL _ ih => simp only [Spec.neutral] at hn ⊢; exact ih hn
  | congAppR _ _ => simpa [Spec.neutral] using hn

theorem Spec.Star.var_inv {i : Nat} {n : Term} (h : Star (var i) n) : n = var i := by
  cases h with
  | refl _ => rfl
  | head hb _ => cases hb

theorem Spec.Star.abs_inv {b n : Term} (h : Star (Term.abs b) n) :
    ∃ n', n = Term.abs n' ∧ Star b n' := by
  generalize ht : Term.abs b = t at h
  induction h generalizing b with
  | refl _ => subst ht; exact ⟨b, rfl, Star.refl _⟩
  | head hb _ ih =>
    subst ht
    cases hb with
    | congAbs hb' =>
      obtain ⟨n', rfl, hs⟩ := ih rfl
      exact ⟨n', rfl, Star.head hb' hs⟩

/-- a neutral application has no root redex, so its reducts are applications of reducts -/
theorem Spec.Star.neutral_app_inv {l r n : Term} (hl : neutral l = true) (h : Star (Term.app l r) n) :
    ∃ l' r', n = Term.app l' r' ∧ Star l l' ∧ Star r r' ∧ neutral l' = true := by
  generalize ht : Term.app l r = t at h
  induction h generalizing l r with
  | refl _ => subst ht; exact ⟨l, r, rfl, Star.refl _, Star.refl _, hl⟩
  | head hb _ ih =>
    subst ht
    cases hb with
    | red b a => simp [Spec.neutral] at hl
    | congAppL hb' =>
      obtain ⟨l', r', rfl, h1, h2, h3⟩ := ih (hb'.neutral hl) rfl
      exact ⟨l', r', rfl, Star.head hb' h1, h2, h3⟩
    | congAppR hb' =>
      obtain ⟨l', r', rfl, h1, h2, h3⟩ := ih hl rfl
      exact ⟨l', r', rfl, h1, Star.head hb' h2, h3⟩

/-! ### normalisation -/

theorem hno_normalises_aux (s : Nat) : ∀ (t n : Term), tsize n < s → Star t n → Normal n →
    ∃ k, Iter stepHno k t n := by
  induction s with
  | zero => intro t n hs; omega
  | succ s ih =>
    intro t n hs h hn
    -- head-spine phase
    have hhnf : isHNF n = true := (stepHsp_none_iff n).1 (stepHsp_none_of_normal hn)
    obtain ⟨m, H, hrun, hH⟩ := hsp_terminates h hhnf
    have hrun' : Iter stepHno m t H := hrun.hsp_hno
    have hHn : Star H n := star_normal_of_star hrun'.hno_star h hn
    suffices ∃ k, Iter stepHno k H n by
      obtain ⟨k, hk⟩ := this
      exact ⟨m + k, hrun'.trans hk⟩
    -- componentwise phase
    cases H with
    | var i =>
      rw [hHn.var_inv]; exact ⟨0, Iter.zero _⟩
    | abs b =>
      obtain ⟨n', rfl, hb⟩ := hHn.abs_inv
      obtain ⟨k, hk⟩ := ih b n' (by simp [tsize] at hs; omega) hb hn.abs_inv
      exact ⟨k, hk.hno_abs⟩
    | app l r =>
      have hl : neutral l = true := by
        have := (stepHsp_none_iff _).1 hH
        rwa [isHNF_app] at this
      obtain ⟨l', r', rfl, h1, h2, _⟩ := hHn.neutral_app_inv hl
      obtain ⟨hnl, hnr⟩ := hn.app_inv
      simp [tsize] at hs
      obtain ⟨k1, hk1⟩ := ih l l' (by omega) h1 hnl
      obtain ⟨k2, hk2⟩ := ih r r' (by omega) h2 hnr
      obtain ⟨hL, hl'⟩ := Iter.hno_app_left r hl hk1
      have hR := Iter.hno_app_right l' hl' (stepHno_none_of_normal hnl) hk2
      exact ⟨k1 + k2, hL.trans hR⟩

/-- hybrid normal order reaches every existing β-normal form -/
theorem hno_normalises {t n : Term} (h : Star t n) (hn : Normal n) : ∃ k, Iter stepHno k t n :=
  hno_normalises_aux (tsize n + 1) t n (Nat.lt_succ_self _) h hn

end LC
