/-
The representation boundary of De Bruijn indices, part 6: `ChkRel` for the checked HSP and HNO traversals
(see `Proofs/BoundedTraversal.lean`).
-/
import LC.Proofs.BoundedTraversal

namespace LC
namespace Term

theorem betaHspChk_rel (M L : Nat) : ∀ fuel t c, maxIndex t ≤ M → (L = 0 ∨ c ≤ L) →
    ChkRel M c (betaHspChk M L fuel t c) (betaHsp L fuel t c) := by
  intro fuel
  induction fuel with
  | zero => intro t c _ _; rfl
  | succ fuel ih =>
    intro t c ht hc
    unfold betaHspChk betaHsp
    by_cases hg : gate L c = true
    · simp only [hg, if_true]; exact ⟨rfl, ht⟩
    · simp only [hg, Bool.false_eq_true, if_false]
      cases t with
      | var i => exact ⟨rfl, ht⟩
      | abs b =>
        simp only [maxIndex] at ht
        have ihb := ih b c ht hc
        simp only []
        cases hy : betaHsp L fuel b c with
        | none =>
          rw [hy] at ihb
          cases hx : betaHspChk M L fuel b c with
          | fuel => rfl
          | panic => intro t' c' h; cases h
          | ret b' c1 => rw [hx] at ihb; cases ihb.1
        | some p =>
          obtain ⟨b', c1⟩ := p
          rw [hy] at ihb
          simp only []
          cases hx : betaHspChk M L fuel b c with
          | fuel => rw [hx] at ihb; cases ihb
          | panic =>
            rw [hx] at ihb
            apply ChkRel.panic_of_sub (ihb b' c1 rfl)
            intro t' c' hz
            cases hz
            exact ⟨Nat.le_refl _, fun _ => by simp only [maxIndex]; omega⟩
          | ret b2 c2 =>
            rw [hx] at ihb
            obtain ⟨e, hm⟩ := ihb
            cases e
            exact ⟨rfl, by simpa only [maxIndex] using hm⟩
      | app l r =>
        simp only [maxIndex] at ht
        have hl : maxIndex l ≤ M := by omega
        have hr : maxIndex r ≤ M := by omega
        have ihl := ih l c hl hc
        simp only []
        cases hy : betaHsp L fuel l c with
        | none =>
          rw [hy] at ihl
          cases hx : betaHspChk M L fuel l c with
          | fuel => rfl
          | panic => intro t' c' h; cases h
          | ret l' c1 => rw [hx] at ihl; cases ihl.1
        | some p =>
          obtain ⟨l', c1⟩ := p
          rw [hy] at ihl
          obtain ⟨u1, u2, u3⟩ := betaHsp_facts hy hc
          simp only []
          cases hx : betaHspChk M L fuel l c with
          | fuel => rw [hx] at ihl; cases ihl
          | panic =>
            rw [hx] at ihl
            apply ChkRel.panic_of_sub (ihl l' c1 rfl)
            intro t' c' hz
            cases l' with
            | abs b =>
              simp only [] at hz
              by_cases hb : budget L c1 = true
              · simp only [hb, if_true] at hz
                obtain ⟨v1, _, _⟩ := betaHsp_facts hz (budget_succ_ok hb)
                exact ⟨by omega, fun e => by omega⟩
              · simp only [hb] at hz
                cases hz
                exact ⟨Nat.le_refl _, fun _ => by simp only [maxIndex]; omega⟩
            | var i => cases hz; exact ⟨Nat.le_refl _, fun _ => by simp only [maxIndex]; omega⟩
            | app a b => cases hz; exact ⟨Nat.le_refl _, fun _ => by simp only [maxIndex]; omega⟩
          | ret l2 c2 =>
            rw [hx] at ihl
            obtain ⟨e, hm⟩ := ihl
            cases e
            apply ChkRel.weaken u1
            cases l' with
            | abs b =>
              simp only []
              simp only [maxIndex] at hm
              by_cases hb : budget L c1 = true
              · simp only [hb, if_true]
                cases hk : contractChk M b r with
                | none =>
                  intro t' c' hz
                  obtain ⟨v1, v2, _⟩ := betaHsp_facts hz (budget_succ_ok hb)
                  refine ⟨by omega, fun e => ?_⟩
                  rw [v2 e]
                  exact contractChk_none_lt hm hr hk
                | some u =>
                  obtain ⟨rfl, hu⟩ := contractChk_some_le hm hr hk
                  exact ChkRel.weaken (by omega) (ih _ (c1 + 1) hu (budget_succ_ok hb))
              · simp only [hb]
                exact ⟨rfl, by simp only [maxIndex]; omega⟩
            | var i => exact ⟨rfl, by simp only [maxIndex] at hm ⊢; omega⟩
            | app a b => exact ⟨rfl, by simp only [maxIndex] at hm ⊢; omega⟩

theorem betaHnoChk_rel (M L : Nat) : ∀ fuel t c, maxIndex t ≤ M → (L = 0 ∨ c ≤ L) →
    ChkRel M c (betaHnoChk M L fuel t c) (betaHno L fuel t c) := by
  intro fuel
  induction fuel with
  | zero => intro t c _ _; rfl
  | succ fuel ih =>
    intro t c ht hc
    unfold betaHnoChk betaHno
    by_cases hg : gate L c = true
    · simp only [hg, if_true]; exact ⟨rfl, ht⟩
    · simp only [hg, Bool.false_eq_true, if_false]
      cases t with
      | var i => exact ⟨rfl, ht⟩
      | abs b =>
        simp only [maxIndex] at ht
        have ihb := ih b c ht hc
        simp only []
        cases hy : betaHno L fuel b c with
        | none =>
          rw [hy] at ihb
          cases hx : betaHnoChk M L fuel b c with
          | fuel => rfl
          | panic => intro t' c' h; cases h
          | ret b' c1 => rw [hx] at ihb; cases ihb.1
        | some p =>
          obtain ⟨b', c1⟩ := p
          rw [hy] at ihb
          simp only []
          cases hx : betaHnoChk M L fuel b c with
          | fuel => rw [hx] at ihb; cases ihb
          | panic =>
            rw [hx] at ihb
            apply ChkRel.panic_of_sub (ihb b' c1 rfl)
            intro t' c' hz
            cases hz
            exact ⟨Nat.le_refl _, fun _ => by simp only [maxIndex]; omega⟩
          | ret b2 c2 =>
            rw [hx] at ihb
            obtain ⟨e, hm⟩ := ihb
            cases e
            exact ⟨rfl, by simpa only [maxIndex] using hm⟩
      | app l r =>
        simp only [maxIndex] at ht
        have hl : maxIndex l ≤ M := by omega
        have hr : maxIndex r ≤ M := by omega
        have ihl := betaHspChk_rel M L fuel l c hl hc
        simp only []
        cases hy : betaHsp L fuel l c with
        | none =>
          rw [hy] at ihl
          cases hx : betaHspChk M L fuel l c with
          | fuel => rfl
          | panic => intro t' c' h; cases h
          | ret l' c1 => rw [hx] at ihl; cases ihl.1
        | some p =>
          obtain ⟨l', c1⟩ := p
          rw [hy] at ihl
          obtain ⟨u1, u2, u3⟩ := betaHsp_facts hy hc
          simp only []
          -- what the rest of the unbounded call keeps of `l'`
          have keep : ∀ t' c',
              (if (isAbs l' && budget L c1) = true then
                match l' with
                | abs b => betaHno L fuel (contract b r) (c1 + 1)
                | _ => none
              else
                match betaHno L fuel l' c1 with
                | none => none
                | some (l2, c2) =>
                  match betaHno L fuel r c2 with
                  | none => none
                  | some (r', c3) => some (app l2 r', c3)) = some (t', c') →
              c1 ≤ c' ∧ (c' = c1 → maxIndex l' ≤ maxIndex t') := by
            intro t' c' hz
            by_cases hred : (isAbs l' && budget L c1) = true
            · simp only [hred, if_true] at hz
              simp only [Bool.and_eq_true] at hred
              cases l' with
              | abs b =>
                simp only [] at hz
                obtain ⟨v1, _, _⟩ := betaHno_facts hz (budget_succ_ok hred.2)
                exact ⟨by omega, fun e => by omega⟩
              | var i => cases hz
              | app a b => cases hz
            · simp only [hred] at hz
              cases h2 : betaHno L fuel l' c1 with
              | none => rw [h2] at hz; cases hz
              | some p2 =>
                obtain ⟨l2, c2⟩ := p2
                rw [h2] at hz
                simp only [] at hz
                obtain ⟨v1, v2, v3⟩ := betaHno_facts h2 u3
                cases h3 : betaHno L fuel r c2 with
                | none => rw [h3] at hz; cases hz
                | some p3 =>
                  obtain ⟨r', c3⟩ := p3
                  rw [h3] at hz
                  cases hz
                  obtain ⟨w1, _, _⟩ := betaHno_facts h3 v3
                  refine ⟨by omega, fun e => ?_⟩
                  rw [v2 (by omega)]
                  simp only [maxIndex]; omega
          cases hx : betaHspChk M L fuel l c with
          | fuel => rw [hx] at ihl; cases ihl
          | panic =>
            rw [hx] at ihl
            exact ChkRel.panic_of_sub (ihl l' c1 rfl) keep
          | ret l0 c0 =>
            rw [hx] at ihl
            obtain ⟨e, hm⟩ := ihl
            cases e
            apply ChkRel.weaken u1
            simp only []
            by_cases hred : (isAbs l' && budget L c1) = true
            · simp only [hred, if_true]
              simp only [Bool.and_eq_true] at hred
              cases l' with
              | var i => rfl
              | app a b => rfl
              | abs b =>
                simp only []
                simp only [maxIndex] at hm
                cases hk : contractChk M b r with
                | none =>
                  intro t' c' hz
                  obtain ⟨v1, v2, _⟩ := betaHno_facts hz (budget_succ_ok hred.2)
                  refine ⟨by omega, fun e => ?_⟩
                  rw [v2 e]
                  exact contractChk_none_lt hm hr hk
                | some u =>
                  obtain ⟨rfl, hu⟩ := contractChk_some_le hm hr hk
                  exact ChkRel.weaken (by omega) (ih _ (c1 + 1) hu (budget_succ_ok hred.2))
            · simp only [hred, Bool.false_eq_true, if_false]
              have ih2 := ih l' c1 hm u3
              cases h2 : betaHno L fuel l' c1 with
              | none =>
                rw [h2] at ih2
                cases hx2 : betaHnoChk M L fuel l' c1 with
                | fuel => rfl
                | panic => intro t' c' h; cases h
                | ret a b => rw [hx2] at ih2; cases ih2.1
              | some p2 =>
                obtain ⟨l2, c2⟩ := p2
                rw [h2] at ih2
                obtain ⟨v1, v2, v3⟩ := betaHno_facts h2 u3
                simp only []
                cases hx2 : betaHnoChk M L fuel l' c1 with
                | fuel => rw [hx2] at ih2; cases ih2
                | panic =>
                  rw [hx2] at ih2
                  apply ChkRel.panic_of_sub (ih2 l2 c2 rfl)
                  intro t' c' hz
                  cases h3 : betaHno L fuel r c2 with
                  | none => rw [h3] at hz; cases hz
                  | some p3 =>
                    obtain ⟨r', c3⟩ := p3
                    rw [h3] at hz
                    cases hz
                    obtain ⟨w1, _, _⟩ := betaHno_facts h3 v3
                    exact ⟨w1, fun _ => by simp only [maxIndex]; omega⟩
                | ret a b =>
                  rw [hx2] at ih2
                  obtain ⟨e, hm2⟩ := ih2
                  cases e
                  apply ChkRel.weaken v1
                  simp only []
                  have ih3 := ih r c2 hr v3
                  cases h3 : betaHno L fuel r c2 with
                  | none =>
                    rw [h3] at ih3
                    cases hx3 : betaHnoChk M L fuel r c2 with
                    | fuel => rfl
                    | panic => intro t' c' h; cases h
                    | ret a b => rw [hx3] at ih3; cases ih3.1
                  | some p3 =>
                    obtain ⟨r', c3⟩ := p3
                    rw [h3] at ih3
                    simp only []
                    cases hx3 : betaHnoChk M L fuel r c2 with
                    | fuel => rw [hx3] at ih3; cases ih3
                    | panic =>
                      rw [hx3] at ih3
                      apply ChkRel.panic_of_sub (ih3 r' c3 rfl)
                      intro t' c' hz
                      cases hz
                      exact ⟨Nat.le_refl _, fun _ => by simp only [maxIndex]; omega⟩
                    | ret a b =>
                      rw [hx3] at ih3
                      obtain ⟨e, hm3⟩ := ih3
                      cases e
                      exact ⟨rfl, by simp only [maxIndex]; omega⟩

end Term
end LC
