/-
The representation boundary of De Bruijn indices, part 14: `Raise` for the checked CBV, APP and HAP traversals, and all
seven orders (see `Proofs/BoundedTraversalRaise.lean`).
-/
import LC.Proofs.BoundedTraversalRaiseNor

namespace LC
namespace Term

theorem betaCbvChk_raise (M j : Nat) (hj : j ≠ 0) : ∀ fuel t c, maxIndex t ≤ M → c ≤ j →
    Raise j (betaCbvChk M j fuel t c) (betaCbvChk M 0 fuel t c) := by
  intro fuel
  induction fuel with
  | zero => intro t c _ _; exact Raise.fuel _ _
  | succ fuel ih =>
    intro t c ht hc
    unfold betaCbvChk
    by_cases hg : gate j c = true
    · simp only [hg, if_true]
      have : ¬ c < j := by
        intro hlt
        simp only [gate, Bool.and_eq_true, beq_iff_eq] at hg
        omega
      exact Raise.ret_ge (by omega)
    · have hcj := not_gate_lt hj hc hg
      simp only [hg, gate_zero, Bool.false_eq_true, if_false]
      cases t with
      | var i => exact Raise.refl _ _
      | abs b => exact Raise.refl _ _
      | app l r =>
        simp only [maxIndex] at ht
        have hl : maxIndex l ≤ M := by omega
        have hr : maxIndex r ≤ M := by omega
        have R1 := ih l c hl hc
        simp only []
        cases hx : betaCbvChk M j fuel l c with
        | fuel => exact Raise.fuel _ _
        | panic => rw [hx] at R1; rw [R1.1 rfl]; exact Raise.refl _ _
        | ret l' c1 =>
          rw [hx] at R1
          obtain ⟨P1, hm1⟩ := betaOrdChk_post M .CBV j fuel l c l' c1 hl (Or.inr hc) hx
          have hle1 : c1 ≤ j := by have := P1.budget_ok2; omega
          simp only []
          by_cases hlt : c1 < j
          · rw [R1.2 l' c1 rfl hlt]
            simp only []
            have R2 := ih r c1 hr hle1
            cases hx2 : betaCbvChk M j fuel r c1 with
            | fuel => exact Raise.fuel _ _
            | panic => rw [hx2] at R2; rw [R2.1 rfl]; exact Raise.refl _ _
            | ret r' c2 =>
              rw [hx2] at R2
              obtain ⟨P2, hm2⟩ := betaOrdChk_post M .CBV j fuel r c1 r' c2 hr (Or.inr hle1) hx2
              have hle2 : c2 ≤ j := by have := P2.budget_ok2; omega
              simp only []
              by_cases hlt2 : c2 < j
              · rw [R2.2 r' c2 rfl hlt2]
                simp only []
                have hb : budget j c2 = true := budget_of_guard (by omega)
                cases l' with
                | abs b =>
                  simp only [hb, budget_zero, if_true]
                  cases hk : contractChk M b r' with
                  | none => exact Raise.refl _ _
                  | some u =>
                    simp only [maxIndex] at hm1
                    obtain ⟨rfl, hu⟩ := contractChk_some_le hm1 hm2 hk
                    exact ih _ (c2 + 1) hu (by omega)
                | var i => exact Raise.refl _ _
                | app a b => exact Raise.refl _ _
              · have hb : budget j c2 = false := budget_limit hj (by omega)
                cases l' with
                | abs b => simp only [hb, Bool.false_eq_true, if_false]; exact Raise.ret_ge (by omega)
                | var i => exact Raise.ret_ge (by omega)
                | app a b => exact Raise.ret_ge (by omega)
          · have hb : budget j c1 = false := budget_limit hj (by omega)
            rcases betaCbvChk_at_limit M hj fuel r c1 (by omega) with h2 | h2
            · rw [h2]; exact Raise.fuel _ _
            · rw [h2]
              simp only []
              cases l' with
              | abs b => simp only [hb, Bool.false_eq_true, if_false]; exact Raise.ret_ge (by omega)
              | var i => exact Raise.ret_ge (by omega)
              | app a b => exact Raise.ret_ge (by omega)

theorem betaAppChk_raise (M j : Nat) (hj : j ≠ 0) : ∀ fuel t c, maxIndex t ≤ M → c ≤ j →
    Raise j (betaAppChk M j fuel t c) (betaAppChk M 0 fuel t c) := by
  intro fuel
  induction fuel with
  | zero => intro t c _ _; exact Raise.fuel _ _
  | succ fuel ih =>
    intro t c ht hc
    unfold betaAppChk
    by_cases hg : gate j c = true
    · simp only [hg, if_true]
      have : ¬ c < j := by
        intro hlt
        simp only [gate, Bool.and_eq_true, beq_iff_eq] at hg
        omega
      exact Raise.ret_ge (by omega)
    · have hcj := not_gate_lt hj hc hg
      simp only [hg, gate_zero, Bool.false_eq_true, if_false]
      cases t with
      | var i => exact Raise.refl _ _
      | abs b =>
        simp only [maxIndex] at ht
        have R1 := ih b c ht hc
        simp only []
        cases hx : betaAppChk M j fuel b c with
        | fuel => exact Raise.fuel _ _
        | panic => rw [hx] at R1; rw [R1.1 rfl]; exact Raise.refl _ _
        | ret b' c1 =>
          rw [hx] at R1
          simp only []
          by_cases hlt : c1 < j
          · rw [R1.2 b' c1 rfl hlt]; exact Raise.refl _ _
          · exact Raise.ret_ge (by omega)
      | app l r =>
        simp only [maxIndex] at ht
        have hl : maxIndex l ≤ M := by omega
        have hr : maxIndex r ≤ M := by omega
        have R1 := ih l c hl hc
        simp only []
        cases hx : betaAppChk M j fuel l c with
        | fuel => exact Raise.fuel _ _
        | panic => rw [hx] at R1; rw [R1.1 rfl]; exact Raise.refl _ _
        | ret l' c1 =>
          rw [hx] at R1
          obtain ⟨P1, hm1⟩ := betaOrdChk_post M .APP j fuel l c l' c1 hl (Or.inr hc) hx
          have hle1 : c1 ≤ j := by have := P1.budget_ok2; omega
          simp only []
          by_cases hlt : c1 < j
          · rw [R1.2 l' c1 rfl hlt]
            simp only []
            have R2 := ih r c1 hr hle1
            cases hx2 : betaAppChk M j fuel r c1 with
            | fuel => exact Raise.fuel _ _
            | panic => rw [hx2] at R2; rw [R2.1 rfl]; exact Raise.refl _ _
            | ret r' c2 =>
              rw [hx2] at R2
              obtain ⟨P2, hm2⟩ := betaOrdChk_post M .APP j fuel r c1 r' c2 hr (Or.inr hle1) hx2
              have hle2 : c2 ≤ j := by have := P2.budget_ok2; omega
              simp only []
              by_cases hlt2 : c2 < j
              · rw [R2.2 r' c2 rfl hlt2]
                simp only []
                have hb : budget j c2 = true := budget_of_guard (by omega)
                cases l' with
                | abs b =>
                  simp only [hb, budget_zero, if_true]
                  cases hk : contractChk M b r' with
                  | none => exact Raise.refl _ _
                  | some u =>
                    simp only [maxIndex] at hm1
                    obtain ⟨rfl, hu⟩ := contractChk_some_le hm1 hm2 hk
                    exact ih _ (c2 + 1) hu (by omega)
                | var i => exact Raise.refl _ _
                | app a b => exact Raise.refl _ _
              · have hb : budget j c2 = false := budget_limit hj (by omega)
                cases l' with
                | abs b => simp only [hb, Bool.false_eq_true, if_false]; exact Raise.ret_ge (by omega)
                | var i => exact Raise.ret_ge (by omega)
                | app a b => exact Raise.ret_ge (by omega)
          · have hb : budget j c1 = false := budget_limit hj (by omega)
            rcases betaAppChk_at_limit M hj fuel r c1 (by omega) with h2 | h2
            · rw [h2]; exact Raise.fuel _ _
            · rw [h2]
              simp only []
              cases l' with
              | abs b => simp only [hb, Bool.false_eq_true, if_false]; exact Raise.ret_ge (by omega)
              | var i => exact Raise.ret_ge (by omega)
              | app a b => exact Raise.ret_ge (by omega)

theorem betaHapChk_raise (M j : Nat) (hj : j ≠ 0) : ∀ fuel t c, maxIndex t ≤ M → c ≤ j →
    Raise j (betaHapChk M j fuel t c) (betaHapChk M 0 fuel t c) := by
  intro fuel
  induction fuel with
  | zero => intro t c _ _; exact Raise.fuel _ _
  | succ fuel ih =>
    intro t c ht hc
    unfold betaHapChk
    by_cases hg : gate j c = true
    · simp only [hg, if_true]
      have : ¬ c < j := by
        intro hlt
        simp only [gate, Bool.and_eq_true, beq_iff_eq] at hg
        omega
      exact Raise.ret_ge (by omega)
    · have hcj := not_gate_lt hj hc hg
      simp only [hg, gate_zero, Bool.false_eq_true, if_false]
      cases t with
      | var i => exact Raise.refl _ _
      | abs b =>
        simp only [maxIndex] at ht
        have R1 := ih b c ht hc
        simp only []
        cases hx : betaHapChk M j fuel b c with
        | fuel => exact Raise.fuel _ _
        | panic => rw [hx] at R1; rw [R1.1 rfl]; exact Raise.refl _ _
        | ret b' c1 =>
          rw [hx] at R1
          simp only []
          by_cases hlt : c1 < j
          · rw [R1.2 b' c1 rfl hlt]; exact Raise.refl _ _
          · exact Raise.ret_ge (by omega)
      | app l r =>
        simp only [maxIndex] at ht
        have hl : maxIndex l ≤ M := by omega
        have hr : maxIndex r ≤ M := by omega
        have R1 := betaCbvChk_raise M j hj fuel l c hl hc
        simp only []
        cases hx : betaCbvChk M j fuel l c with
        | fuel => exact Raise.fuel _ _
        | panic => rw [hx] at R1; rw [R1.1 rfl]; exact Raise.refl _ _
        | ret l' c1 =>
          rw [hx] at R1
          obtain ⟨P1, hm1⟩ := betaOrdChk_post M .CBV j fuel l c l' c1 hl (Or.inr hc) hx
          have hle1 : c1 ≤ j := by have := P1.budget_ok2; omega
          simp only []
          by_cases hlt : c1 < j
          · rw [R1.2 l' c1 rfl hlt]
            simp only []
            have R2 := ih r c1 hr hle1
            cases hx2 : betaHapChk M j fuel r c1 with
            | fuel => exact Raise.fuel _ _
            | panic => rw [hx2] at R2; rw [R2.1 rfl]; exact Raise.refl _ _
            | ret r' c2 =>
              rw [hx2] at R2
              obtain ⟨P2, hm2⟩ := betaOrdChk_post M .HAP j fuel r c1 r' c2 hr (Or.inr hle1) hx2
              have hle2 : c2 ≤ j := by have := P2.budget_ok2; omega
              simp only []
              by_cases hlt2 : c2 < j
              · rw [R2.2 r' c2 rfl hlt2]
                simp only []
                have hb : budget j c2 = true := budget_of_guard (by omega)
                simp only [hb, budget_zero, Bool.and_true]
                by_cases hia : isAbs l' = true
                · simp only [hia, if_true]
                  cases l' with
                  | var i => simp [isAbs] at hia
                  | app a b => simp [isAbs] at hia
                  | abs b =>
                    simp only []
                    cases hk : contractChk M b r' with
                    | none => exact Raise.refl _ _
                    | some u =>
                      simp only [maxIndex] at hm1
                      obtain ⟨rfl, hu⟩ := contractChk_some_le hm1 hm2 hk
                      exact ih _ (c2 + 1) hu (by omega)
                · simp only [hia]
                  have R3 := ih l' c2 hm1 hle2
                  cases hx3 : betaHapChk M j fuel l' c2 with
                  | fuel => exact Raise.fuel _ _
                  | panic => rw [hx3] at R3; rw [R3.1 rfl]; exact Raise.refl _ _
                  | ret l2 c3 =>
                    rw [hx3] at R3
                    simp only []
                    by_cases hlt3 : c3 < j
                    · rw [R3.2 l2 c3 rfl hlt3]; exact Raise.refl _ _
                    · exact Raise.ret_ge (by omega)
              · have hb : budget j c2 = false := budget_limit hj (by omega)
                simp only [hb, Bool.and_false, Bool.false_eq_true, if_false]
                rcases betaHapChk_at_limit M hj fuel l' c2 (by omega) with h3 | h3
                · rw [h3]; exact Raise.fuel _ _
                · rw [h3]; exact Raise.ret_ge (by omega)
          · have hb : budget j c1 = false := budget_limit hj (by omega)
            rcases betaHapChk_at_limit M hj fuel r c1 (by omega) with h2 | h2
            · rw [h2]; exact Raise.fuel _ _
            · rw [h2]
              simp only [hb, Bool.and_false, Bool.false_eq_true, if_false]
              rcases betaHapChk_at_limit M hj fuel l' c1 (by omega) with h3 | h3
              · rw [h3]; exact Raise.fuel _ _
              · rw [h3]; exact Raise.ret_ge (by omega)

/-- all seven orders -/
theorem betaOrdChk_raise (M : Nat) (o : Order) (j : Nat) (hj : j ≠ 0) (fuel : Nat) (t : Term) (c : Nat)
    (ht : maxIndex t ≤ M) (hc : c ≤ j) :
    Raise j (betaOrdChk M o j fuel t c) (betaOrdChk M o 0 fuel t c) := by
  cases o <;> simp only [betaOrdChk]
  · exact betaNorChk_raise M j hj fuel t c ht hc
  · exact betaCbnChk_raise M j hj fuel t c ht hc
  · exact betaHspChk_raise M j hj fuel t c ht hc
  · exact betaHnoChk_raise M j hj fuel t c ht hc
  · exact betaAppChk_raise M j hj fuel t c ht hc
  · exact betaCbvChk_raise M j hj fuel t c ht hc
  · exact betaHapChk_raise M j hj fuel t c ht hc

end Term
end LC
