/-
Refinement, completeness direction (DESIGN §6.3) for CBN: fuel monotonicity and
"whenever the strategy run exists the traversal returns it for some fuel".
-/
import LC.Proofs.Refine.Cbn

namespace LC
namespace Term

theorem betaCbn_mono1 (L : Nat) : ∀ fuel t c r, betaCbn L fuel t c = some r → betaCbn L (fuel+1) t c = some r := by
  intro fuel
  induction fuel with
  | zero => intro t c r h; simp [betaCbn] at h
  | succ fuel ih =>
    intro t c r h
    by_cases hg : gate L c = true
    · simp [betaCbn, hg] at h ⊢; exact h
    · cases t with
      | var i => simp [betaCbn, hg] at h ⊢; exact h
      | abs b => simp [betaCbn, hg] at h ⊢; exact h
      | app l r' =>
        rw [betaCbn] at h ⊢
        simp only [hg] at h ⊢
        cases hl : betaCbn L fuel l c with
        | none => simp [hl] at h
        | some p =>
          obtain ⟨l', c1⟩ := p
          rw [ih _ _ _ hl]
          simp only [hl] at h
          cases l' with
          | var i => simpa using h
          | app a1 a2 => simpa using h
          | abs b =>
            simp only at h ⊢
            by_cases hb : budget L c1 = true
            · simp only [hb, if_true] at h ⊢; exact ih _ _ _ h
            · simp only [hb] at h ⊢; exact h

theorem betaCbn_mono (L : Nat) {f f' t c r} (h : betaCbn L f t c = some r) (hle : f ≤ f') : betaCbn L f' t c = some r := by
  induction hle with
  | refl => exact h
  | step _ ih => exact betaCbn_mono1 L _ _ _ _ ih

/-- a cbn run from an application either stays inside the operator or reaches an abstraction there and contracts the root -/
theorem Iter.cbn_app_inv {k l r t'} (h : Iter stepCbn k (app l r) t') :
    (∃ l', t' = app l' r ∧ Iter stepCbn k l l') ∨
    (∃ j b, j < k ∧ Iter stepCbn j l (abs b) ∧ Iter stepCbn (k - j - 1) (contract b r) t') := by
  induction k generalizing l with
  | zero => cases h; exact Or.inl ⟨l, rfl, Iter.zero _⟩
  | succ k ih =>
    cases h with
    | succ hs hrest =>
      cases l with
      | var i => simp [stepCbn] at hs
      | abs b =>
        simp [stepCbn] at hs; subst hs
        exact Or.inr ⟨0, b, by omega, Iter.zero _, by simpa using hrest⟩
      | app l1 l2 =>
        simp [stepCbn] at hs; obtain ⟨a, ha, rfl⟩ := hs
        rcases ih hrest with ⟨l', rfl, it⟩ | ⟨j, b, hj, it1, it2⟩
        · exact Or.inl ⟨l', rfl, Iter.succ ha it⟩
        · refine Or.inr ⟨j+1, b, by omega, Iter.succ ha it1, ?_⟩
          rw [show k + 1 - (j + 1) - 1 = k - j - 1 by omega]; exact it2

theorem betaCbn_complete (L : Nat) : ∀ k t t' c, Iter stepCbn k t t' → (L = 0 → stepCbn t' = none) →
    (L ≠ 0 → c + k ≤ L ∧ (c + k < L → stepCbn t' = none)) → ∃ fuel, betaCbn L fuel t c = some (t', c + k) := by
  intro k
  induction k using Nat.strongRecOn with
  | _ k ihk =>
    intro t
    induction t with
    | var i =>
      intro t' c it _ _
      cases it with
      | zero => exact ⟨1, by simp [betaCbn]⟩
      | succ hs _ => simp [stepCbn] at hs
    | abs b _ =>
      intro t' c it _ _
      cases it with
      | zero => exact ⟨1, by simp [betaCbn]⟩
      | succ hs _ => simp [stepCbn] at hs
    | app l r ihl _ =>
      intro t' c it h0 hL
      by_cases hg : gate L c = true
      · -- gate closed: k = 0
        simp [gate] at hg
        have hk : k = 0 := by have := (hL hg.1).1; omega
        subst hk; cases it
        exact ⟨1, by simp [betaCbn, gate, hg]⟩
      · rcases it.cbn_app_inv with ⟨l', rfl, itl⟩ | ⟨j, b, hj, it1, it2⟩
        · -- the whole run is inside the operator
          have hfin : (L = 0 ∨ c + k < L) → stepCbn l' = none ∧ isAbs l' = false := by
            intro hb
            have : stepCbn (app l' r) = none := by
              rcases hb with hb | hb
              · exact h0 hb
              · exact (hL (by omega)).2 hb
            cases l' with
            | var i => exact ⟨rfl, rfl⟩
            | abs b => simp [stepCbn] at this
            | app a1 a2 => simp [stepCbn] at this; exact ⟨by simpa [stepCbn] using this, rfl⟩
          obtain ⟨fuel, hf⟩ := ihl l' c itl (fun h => (hfin (Or.inl h)).1)
            (fun h => ⟨(hL h).1, fun hlt => (hfin (Or.inr hlt)).1⟩)
          refine ⟨fuel + 1, ?_⟩
          unfold betaCbn
          simp only [hg, hf]
          cases l' with
          | var i => simp
          | app a1 a2 => simp
          | abs b =>
            have hnb : budget L (c + k) = false := by
              cases hbud : budget L (c + k) with
              | false => rfl
              | true =>
                simp [budget] at hbud
                have := (hfin (by omega)).2; simp [isAbs] at this
            simp [hnb]
        · -- operator reaches an abstraction after j steps, then the root is contracted
          obtain ⟨f1, hf1⟩ := ihk j hj l (abs b) c it1 (fun _ => by simp [stepCbn])
            (fun h => ⟨by have := (hL h).1; omega, fun _ => by simp [stepCbn]⟩)
          obtain ⟨f2, hf2⟩ := ihk (k - j - 1) (by omega) (contract b r) t' (c + j + 1) it2 h0
            (fun h => ⟨by have := (hL h).1; omega, fun hlt => (hL h).2 (by omega)⟩)
          refine ⟨max f1 f2 + 1, ?_⟩
          unfold betaCbn
          simp only [hg, betaCbn_mono L hf1 (Nat.le_max_left f1 f2)]
          have hbud : budget L (c + j) = true := by
            simp [budget]
            by_cases h : L = 0
            · exact Or.inl h
            · exact Or.inr (by have := (hL h).1; omega)
          simp only [hbud, if_true]
          rw [betaCbn_mono L hf2 (Nat.le_max_right f1 f2)]
          have e : c + j + 1 + (k - j - 1) = c + k := by omega
          rw [e]; simp

end Term
end LC
