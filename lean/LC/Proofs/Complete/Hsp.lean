/-
Refinement, completeness direction (DESIGN §6.3) for HSP: fuel monotonicity and
"whenever the strategy run exists the traversal returns it for some fuel".
-/
import LC.Proofs.Beta

namespace LC
namespace Term

/-! ### fuel monotonicity -/

theorem betaHsp_mono1 (L : Nat) : ∀ fuel t c r, betaHsp L fuel t c = some r → betaHsp L (fuel+1) t c = some r := by
  intro fuel
  induction fuel with
  | zero => intro t c r h; simp [betaHsp] at h
  | succ fuel ih =>
    intro t c r h
    by_cases hg : gate L c = true
    · simp [betaHsp, hg] at h ⊢; exact h
    · cases t with
      | var i => simp [betaHsp, hg] at h ⊢; exact h
      | abs b =>
        rw [betaHsp] at h ⊢
        simp only [hg] at h ⊢
        cases hb : betaHsp L fuel b c with
        | none => simp [hb] at h
        | some p =>
          rw [ih _ _ _ hb]
          simp only [hb] at h
          exact h
      | app l r' =>
        rw [betaHsp] at h ⊢
        simp only [hg] at h ⊢
        cases hl : betaHsp L fuel l c with
        | none => simp [hl] at h
        | some p =>
          obtain ⟨l', c1⟩ := p
          rw [ih _ _ _ hl]
          simp only [hl] at h
          cases l' with
          | var i => simpa using h
          | app a1 a2 => simpa using h
          | abs b =>
            simp only at h ⊢
            by_cases hb : budget L c1 = true
            · simp only [hb, if_true] at h ⊢; exact ih _ _ _ h
            · simp only [hb] at h ⊢; exact h

theorem betaHsp_mono (L : Nat) {f f' t c r} (h : betaHsp L f t c = some r) (hle : f ≤ f') : betaHsp L f' t c = some r := by
  induction hle with
  | refl => exact h
  | step _ ih => exact betaHsp_mono1 L _ _ _ _ ih

/-! ### inversion of `stepHsp` runs -/

theorem stepHsp_app_of_some {l l'} (r) (h : stepHsp l = some l') : stepHsp (app l r) = some (app l' r) := by
  simp only [stepHsp, h]

theorem stepHsp_app_of_none {l} (r) (h : stepHsp l = none) :
    stepHsp (app l r) = (match l with | Term.abs b => some (contract b r) | _ => none) := by
  simp only [stepHsp, h]
  cases l <;> rfl

theorem stepHsp_app_eq_none {l r} (h : stepHsp (app l r) = none) : stepHsp l = none ∧ isAbs l = false := by
  cases hl : stepHsp l with
  | some l' => rw [stepHsp_app_of_some r hl] at h; simp at h
  | none => rw [stepHsp_app_of_none r hl] at h; cases l <;> simp_all [isAbs]

theorem Iter.hsp_abs_inv {k b t'} (h : Iter stepHsp k (Term.abs b) t') :
    ∃ b', t' = Term.abs b' ∧ Iter stepHsp k b b' := by
  induction k generalizing b with
  | zero => cases h; exact ⟨b, rfl, Iter.zero _⟩
  | succ k ih =>
    cases h with
    | succ hs hrest =>
      simp [stepHsp] at hs; obtain ⟨a, ha, rfl⟩ := hs
      obtain ⟨b', rfl, it⟩ := ih hrest
      exact ⟨b', rfl, Iter.succ ha it⟩

/-- a head-spine run from an application either stays inside the operator or reaches a
`stepHsp`-normal abstraction there and contracts the root -/
theorem Iter.hsp_app_inv {k l r t'} (h : Iter stepHsp k (app l r) t') :
    (∃ l', t' = app l' r ∧ Iter stepHsp k l l') ∨
    (∃ j b, j < k ∧ Iter stepHsp j l (Term.abs b) ∧ stepHsp (Term.abs b) = none ∧
      Iter stepHsp (k - j - 1) (contract b r) t') := by
  induction k generalizing l with
  | zero => cases h; exact Or.inl ⟨l, rfl, Iter.zero _⟩
  | succ k ih =>
    cases h with
    | succ hs hrest =>
      cases hl : stepHsp l with
      | some l1 =>
        rw [stepHsp_app_of_some r hl] at hs; simp at hs; subst hs
        rcases ih hrest with ⟨l', rfl, it⟩ | ⟨j, b, hj, it1, hnb, it2⟩
        · exact Or.inl ⟨l', rfl, Iter.succ hl it⟩
        · refine Or.inr ⟨j+1, b, by omega, Iter.succ hl it1, hnb, ?_⟩
          rw [show k + 1 - (j + 1) - 1 = k - j - 1 by omega]; exact it2
      | none =>
        rw [stepHsp_app_of_none r hl] at hs
        cases l with
        | var i => simp at hs
        | app a1 a2 => simp at hs
        | abs b =>
          simp at hs; subst hs
          exact Or.inr ⟨0, b, by omega, Iter.zero _, hl, by simpa using hrest⟩

/-! ### completeness -/

theorem betaHsp_complete_gate {L k c t t'} (hg : gate L c = true) (it : Iter stepHsp k t t')
    (hle : L = 0 ∨ c + k ≤ L) : ∃ fuel, betaHsp L fuel t c = some (t', c + k) := by
  simp [gate] at hg
  have hk : k = 0 := by omega
  subst hk; cases it
  exact ⟨1, by simp [betaHsp, gate, hg]⟩

theorem betaHsp_complete' (L : Nat) : ∀ k t t' c, Iter stepHsp k t t' → (L = 0 ∨ c + k ≤ L) →
    ((L = 0 ∨ c + k < L) → stepHsp t' = none) → ∃ fuel, betaHsp L fuel t c = some (t', c + k) := by
  intro k
  induction k using Nat.strongRecOn with
  | _ k ihk =>
    intro t
    induction t with
    | var i =>
      intro t' c it _ _
      cases it with
      | zero => exact ⟨1, by simp [betaHsp]⟩
      | succ hs _ => simp [stepHsp] at hs
    | abs b ihb =>
      intro t' c it hle hnf
      by_cases hg : gate L c = true
      · exact betaHsp_complete_gate hg it hle
      · obtain ⟨b', rfl, itb⟩ := it.hsp_abs_inv
        obtain ⟨f, hf⟩ := ihb b' c itb hle (fun h => by simpa [stepHsp] using hnf h)
        refine ⟨f + 1, ?_⟩
        rw [betaHsp]; simp only [hg, hf]; simp
    | app l r ihl _ =>
      intro t' c it hle hnf
      by_cases hg : gate L c = true
      · exact betaHsp_complete_gate hg it hle
      · rcases it.hsp_app_inv with ⟨l', rfl, itl⟩ | ⟨j, b, hj, it1, hnb, it2⟩
        · -- the whole run is inside the operator
          have hfin : (L = 0 ∨ c + k < L) → stepHsp l' = none ∧ isAbs l' = false :=
            fun hb => stepHsp_app_eq_none (hnf hb)
          obtain ⟨fuel, hf⟩ := ihl l' c itl hle (fun h => (hfin h).1)
          refine ⟨fuel + 1, ?_⟩
          rw [betaHsp]
          simp only [hg, hf]
          cases l' with
          | var i => simp
          | app a1 a2 => simp
          | abs b =>
            have hnb : budget L (c + k) = false := by
              cases hbud : budget L (c + k) with
              | false => rfl
              | true =>
                simp [budget] at hbud
                have := (hfin (by omega)).2; simp [isAbs] at this
            simp [hnb]
        · -- the operator reaches a normal abstraction after j steps, then the root is contracted
          obtain ⟨f1, hf1⟩ := ihk j hj l (Term.abs b) c it1 (by omega) (fun _ => hnb)
          obtain ⟨f2, hf2⟩ := ihk (k - j - 1) (by omega) (contract b r) t' (c + j + 1) it2 (by omega)
            (fun h => hnf (by omega))
          refine ⟨max f1 f2 + 1, ?_⟩
          have hbud : budget L (c + j) = true := by simp [budget]; omega
          rw [betaHsp]
          simp only [hg, betaHsp_mono L hf1 (Nat.le_max_left f1 f2), hbud, if_true]
          rw [betaHsp_mono L hf2 (Nat.le_max_right f1 f2)]
          have e : c + j + 1 + (k - j - 1) = c + k := by omega
          rw [e]; simp

theorem betaHsp_complete (L : Nat) : ∀ k t t' c, Iter stepHsp k t t' → (L = 0 → stepHsp t' = none) →
    (L ≠ 0 → c + k ≤ L ∧ (c + k < L → stepHsp t' = none)) → ∃ fuel, betaHsp L fuel t c = some (t', c + k) := by
  intro k t t' c it h0 hL
  refine betaHsp_complete' L k t t' c it ?_ ?_
  · by_cases h : L = 0
    · exact Or.inl h
    · exact Or.inr (hL h).1
  · intro hb
    by_cases h : L = 0
    · exact h0 h
    · exact (hL h).2 (by omega)

end Term
end LC
