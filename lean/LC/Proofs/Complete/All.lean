/-
Refinement, completeness direction, for all seven orders at once, and fuel monotonicity.
-/
import LC.Proofs.Complete.Cbn
import LC.Proofs.Complete.Nor
import LC.Proofs.Complete.App
import LC.Proofs.Complete.Hap
import LC.Proofs.Complete.Hno

namespace LC
namespace Term

theorem betaOrd_mono (o : Order) (L : Nat) {f f' : Nat} {t : Term} {c : Nat} {r : Term × Nat}
    (h : betaOrd o L f t c = some r) (hle : f ≤ f') : betaOrd o L f' t c = some r := by
  cases o <;> simp only [betaOrd] at h ⊢
  · exact betaNor_mono L h hle
  · exact betaCbn_mono L h hle
  · exact betaHsp_mono L h hle
  · exact betaHno_mono L h hle
  · exact betaApp_mono L h hle
  · exact betaCbv_mono L h hle
  · exact betaHap_mono L h hle

theorem betaOrd_complete (o : Order) (L k : Nat) (t t' : Term) (c : Nat)
    (it : Iter (stepOrd o) k t t') (h0 : L = 0 → stepOrd o t' = none)
    (hL : L ≠ 0 → c + k ≤ L ∧ (c + k < L → stepOrd o t' = none)) :
    ∃ fuel, betaOrd o L fuel t c = some (t', c + k) := by
  cases o <;> simp only [betaOrd, stepOrd] at it h0 hL ⊢
  · exact betaNor_complete L k t t' c it h0 hL
  · exact betaCbn_complete L k t t' c it h0 hL
  · exact betaHsp_complete L k t t' c it h0 hL
  · exact betaHno_complete L k t t' c it h0 hL
  · exact betaApp_complete L k t t' c it h0 hL
  · exact betaCbv_complete L k t t' c it h0 hL
  · exact betaHap_complete L k t t' c it h0 hL

/-- whenever the strategy has a run of `k` steps from `t` to `t'` that the limit admits and that
ends either at the limit or in a strategy-normal form, `reduce` returns exactly `(t', k)` -/
theorem reduce_complete (o : Order) (L k : Nat) (t t' : Term)
    (it : Iter (stepOrd o) k t t') (h0 : L = 0 → stepOrd o t' = none)
    (hL : L ≠ 0 → k ≤ L ∧ (k < L → stepOrd o t' = none)) :
    ∃ fuel, reduce o L fuel t = some (t', k) := by
  have := betaOrd_complete o L k t t' 0 it h0 (by simpa using hL)
  simpa [reduce] using this

/-- for every term and every positive limit there is a bounded run: either it ends in a
strategy-normal form before the limit, or it has exactly `L` steps -/
theorem bounded_run_exists (f : Term → Option Term) (L : Nat) (t : Term) :
    ∃ k t', Iter f k t t' ∧ k ≤ L ∧ (k < L → f t' = none) := by
  induction L generalizing t with
  | zero => exact ⟨0, t, Iter.zero _, Nat.le_refl _, fun h => absurd h (Nat.lt_irrefl _)⟩
  | succ L ih =>
    cases hs : f t with
    | none => exact ⟨0, t, Iter.zero _, Nat.zero_le _, fun _ => hs⟩
    | some u =>
      obtain ⟨k, t', it, hk, hn⟩ := ih u
      exact ⟨k + 1, t', Iter.succ hs it, by omega, fun h => hn (by omega)⟩

/-- limited calls always return -/
theorem reduce_total (o : Order) (L : Nat) (hL : L ≠ 0) (t : Term) :
    ∃ fuel r, reduce o L fuel t = some r := by
  obtain ⟨k, t', it, hk, hn⟩ := bounded_run_exists (stepOrd o) L t
  obtain ⟨fuel, h⟩ := reduce_complete o L k t t' it (fun h => absurd h hL) (fun _ => ⟨hk, hn⟩)
  exact ⟨fuel, _, h⟩

end Term
end LC
