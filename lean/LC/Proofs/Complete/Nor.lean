/-
Refinement, completeness direction (DESIGN §6.3) for NOR: fuel monotonicity and
"whenever the strategy run exists the traversal returns it for some fuel".
-/
import LC.Proofs.Complete.Cbn
import LC.Proofs.Refine.Nor

namespace LC
namespace Term
open Spec

/-! ### fuel monotonicity -/

theorem betaNor_mono1 (L : Nat) : ∀ fuel t c r, betaNor L fuel t c = some r → betaNor L (fuel+1) t c = some r := by
  intro fuel
  induction fuel with
  | zero => intro t c r h; simp [betaNor] at h
  | succ fuel ih =>
    intro t c r h
    by_cases hg : gate L c = true
    · simp [betaNor, hg] at h ⊢; exact h
    · cases t with
      | var i => simp [betaNor, hg] at h ⊢; exact h
      | abs b =>
        rw [betaNor] at h ⊢
        simp only [hg] at h ⊢
        cases hb : betaNor L fuel b c with
        | none => simp [hb] at h
        | some p =>
          rw [ih _ _ _ hb]
          simp only [hb] at h
          exact h
      | app l r' =>
        rw [betaNor] at h ⊢
        simp only [hg] at h ⊢
        cases hl : betaCbn L fuel l c with
        | none => simp [hl] at h
        | some p =>
          obtain ⟨l', c1⟩ := p
          rw [betaCbn_mono1 L _ _ _ _ hl]
          simp only [hl] at h
          by_cases hcond : (isAbs l' && budget L c1) = true
          · simp only [hcond, if_true] at h ⊢
            cases l' with
            | var i => simp at h
            | app a1 a2 => simp at h
            | abs b => exact ih _ _ _ h
          · simp only [hcond] at h ⊢
            cases hl2 : betaNor L fuel l' c1 with
            | none => simp [hl2] at h
            | some p2 =>
              obtain ⟨l2, c2⟩ := p2
              simp only [ih _ _ _ hl2]
              simp only [hl2] at h
              cases hr : betaNor L fuel r' c2 with
              | none => simp [hr] at h
              | some p3 =>
                simp only [ih _ _ _ hr]
                simp only [hr] at h
                exact h

theorem betaNor_mono (L : Nat) {f f' t c r} (h : betaNor L f t c = some r) (hle : f ≤ f') : betaNor L f' t c = some r := by
  induction hle with
  | refl => exact h
  | step _ ih => exact betaNor_mono1 L _ _ _ _ ih

/-! ### inversion of `stepNor` runs -/

theorem stepNor_app_eq_none {l r} (h : stepNor (app l r) = none) :
    isAbs l = false ∧ stepNor l = none ∧ stepNor r = none := by
  cases hia : isAbs l with
  | true => cases l <;> simp [isAbs] at hia; simp [stepNor] at h
  | false =>
    cases hl : stepNor l with
    | some l' => rw [stepNor_app_left r hia hl] at h; simp at h
    | none =>
      cases hr : stepNor r with
      | some r' => rw [stepNor_app_right hia hl hr] at h; simp at h
      | none => exact ⟨rfl, rfl, rfl⟩

theorem Iter.nor_abs_inv {k b t'} (h : Iter stepNor k (Term.abs b) t') :
    ∃ b', t' = Term.abs b' ∧ Iter stepNor k b b' := by
  induction k generalizing b with
  | zero => cases h; exact ⟨b, rfl, Iter.zero _⟩
  | succ k ih =>
    cases h with
    | succ hs hrest =>
      simp [stepNor] at hs; obtain ⟨a, ha, rfl⟩ := hs
      obtain ⟨b', rfl, it⟩ := ih hrest
      exact ⟨b', rfl, Iter.succ ha it⟩

/-- once the operator is a normal non-abstraction, the run stays inside the operand -/
theorem Iter.nor_app_right_inv {k l r t'} (hl : isAbs l = false) (hn : stepNor l = none)
    (h : Iter stepNor k (app l r) t') : ∃ r', t' = app l r' ∧ Iter stepNor k r r' := by
  induction k generalizing r with
  | zero => cases h; exact ⟨r, rfl, Iter.zero _⟩
  | succ k ih =>
    cases h with
    | succ hs hrest =>
      cases hr : stepNor r with
      | none => rw [stepNor_app_none hl hn hr] at hs; simp at hs
      | some r1 =>
        rw [stepNor_app_right hl hn hr] at hs; simp at hs; subst hs
        obtain ⟨r', rfl, it⟩ := ih hrest
        exact ⟨r', rfl, Iter.succ hr it⟩

/-- a run from an application with neutral operator: first inside the operator, then (only once the
operator is normal) inside the operand -/
theorem Iter.nor_app_neutral_inv {k l r t'} (hneu : neutral l = true) (h : Iter stepNor k (app l r) t') :
    ∃ m l2 r', m ≤ k ∧ Iter stepNor m l l2 ∧ Iter stepNor (k - m) r r' ∧ t' = app l2 r' ∧
      (m < k → stepNor l2 = none) := by
  induction k generalizing l with
  | zero => cases h; exact ⟨0, l, r, by omega, Iter.zero _, Iter.zero _, rfl, by omega⟩
  | succ k ih =>
    cases hl : stepNor l with
    | none =>
      obtain ⟨r', rfl, it⟩ := Iter.nor_app_right_inv (neutral_not_abs hneu) hl h
      exact ⟨0, l, r', by omega, Iter.zero _, it, rfl, fun _ => hl⟩
    | some l1 =>
      cases h with
      | succ hs hrest =>
        rw [stepNor_app_left r (neutral_not_abs hneu) hl] at hs; simp at hs; subst hs
        obtain ⟨m, l2, r', hm, it1, it2, rfl, hnf⟩ := ih (stepNor_neutral hneu hl) hrest
        refine ⟨m + 1, l2, r', by omega, Iter.succ hl it1, ?_, rfl, fun h => hnf (by omega)⟩
        rw [show k + 1 - (m + 1) = k - m by omega]; exact it2

/-- a `stepNor` run from an application: `j` call-by-name steps in the operator; then either the
operator is an abstraction and the root is contracted, or (the operator being cbn-normal and not an
abstraction, unless the run is over) `m` steps in the operator and the rest in the operand -/
theorem Iter.nor_app_inv {k l r t'} (h : Iter stepNor k (app l r) t') :
    (∃ j b, j < k ∧ Iter stepCbn j l (Term.abs b) ∧ Iter stepNor (k - j - 1) (contract b r) t') ∨
    (∃ j m l1 l2 r', j + m ≤ k ∧ Iter stepCbn j l l1 ∧ Iter stepNor m l1 l2 ∧
      Iter stepNor (k - j - m) r r' ∧ t' = app l2 r' ∧
      (j < k → stepCbn l1 = none ∧ isAbs l1 = false) ∧ (j + m < k → stepNor l2 = none)) := by
  induction k generalizing l with
  | zero =>
    cases h
    exact Or.inr ⟨0, 0, l, l, r, by omega, Iter.zero _, Iter.zero _, Iter.zero _, rfl, by omega, by omega⟩
  | succ k ih =>
    cases hia : isAbs l with
    | true =>
      cases l with
      | var i => simp [isAbs] at hia
      | app a1 a2 => simp [isAbs] at hia
      | abs b =>
        cases h with
        | succ hs hrest =>
          simp [stepNor] at hs; subst hs
          exact Or.inl ⟨0, b, by omega, Iter.zero _, by simpa using hrest⟩
    | false =>
      cases hc : stepCbn l with
      | none =>
        obtain ⟨m, l2, r', hm, it1, it2, rfl, hnf⟩ := Iter.nor_app_neutral_inv (neutral_of_cbn_nf hc hia) h
        exact Or.inr ⟨0, m, l, l2, r', by omega, Iter.zero _, it1, by simpa using it2, rfl,
          fun _ => ⟨hc, hia⟩, fun h => hnf (by omega)⟩
      | some l1 =>
        cases h with
        | succ hs hrest =>
          rw [stepNor_app_left r hia (stepCbn_stepNor hc)] at hs; simp at hs; subst hs
          rcases ih hrest with ⟨j, b, hj, it1, it2⟩ | ⟨j, m, l1', l2, r', hjm, it1, it2, it3, rfl, hc1, hnf⟩
          · refine Or.inl ⟨j + 1, b, by omega, Iter.succ hc it1, ?_⟩
            rw [show k + 1 - (j + 1) - 1 = k - j - 1 by omega]; exact it2
          · refine Or.inr ⟨j + 1, m, l1', l2, r', by omega, Iter.succ hc it1, it2, ?_, rfl,
              fun h => hc1 (by omega), fun h => hnf (by omega)⟩
            rw [show k + 1 - (j + 1) - m = k - j - m by omega]; exact it3

/-! ### completeness -/

/-- `betaCbn_complete` with the side conditions in the form used by `Post` -/
theorem betaCbn_complete' (L : Nat) {k t t' c} (it : Iter stepCbn k t t') (hle : L = 0 ∨ c + k ≤ L)
    (hnf : (L = 0 ∨ c + k < L) → stepCbn t' = none) : ∃ fuel, betaCbn L fuel t c = some (t', c + k) :=
  betaCbn_complete L k t t' c it (fun h => hnf (Or.inl h))
    (fun h => ⟨by omega, fun hlt => hnf (Or.inr hlt)⟩)

theorem stepCbn_none_of_stepNor_none {t} (h : stepNor t = none) : stepCbn t = none := by
  cases hc : stepCbn t with
  | none => rfl
  | some t' => rw [stepCbn_stepNor hc] at h; simp at h

theorem betaNor_complete_gate {L k c t t'} (hg : gate L c = true) (it : Iter stepNor k t t')
    (hle : L = 0 ∨ c + k ≤ L) : ∃ fuel, betaNor L fuel t c = some (t', c + k) := by
  simp [gate] at hg
  have hk : k = 0 := by omega
  subst hk; cases it
  exact ⟨1, by simp [betaNor, gate, hg]⟩

theorem betaNor_complete' (L : Nat) : ∀ k t t' c, Iter stepNor k t t' → (L = 0 ∨ c + k ≤ L) →
    ((L = 0 ∨ c + k < L) → stepNor t' = none) → ∃ fuel, betaNor L fuel t c = some (t', c + k) := by
  intro k
  induction k using Nat.strongRecOn with
  | _ k ihk =>
    intro t
    induction t with
    | var i =>
      intro t' c it _ _
      cases it with
      | zero => exact ⟨1, by simp [betaNor]⟩
      | succ hs _ => simp [stepNor] at hs
    | abs b ihb =>
      intro t' c it hle hnf
      by_cases hg : gate L c = true
      · exact betaNor_complete_gate hg it hle
      · obtain ⟨b', rfl, itb⟩ := it.nor_abs_inv
        obtain ⟨f, hf⟩ := ihb b' c itb hle (fun h => by simpa [stepNor] using hnf h)
        refine ⟨f + 1, ?_⟩
        rw [betaNor]; simp only [hg, hf]; simp
    | app l r ihl ihr =>
      intro t' c it hle hnf
      by_cases hg : gate L c = true
      · exact betaNor_complete_gate hg it hle
      · have callL : ∀ k', k' ≤ k → ∀ t' c, Iter stepNor k' l t' → (L = 0 ∨ c + k' ≤ L) →
            ((L = 0 ∨ c + k' < L) → stepNor t' = none) → ∃ fuel, betaNor L fuel l c = some (t', c + k') := by
          intro k' hk'
          by_cases h : k' < k
          · exact ihk k' h l
          · have : k' = k := by omega
            subst this; exact ihl
        have callR : ∀ k', k' ≤ k → ∀ t' c, Iter stepNor k' r t' → (L = 0 ∨ c + k' ≤ L) →
            ((L = 0 ∨ c + k' < L) → stepNor t' = none) → ∃ fuel, betaNor L fuel r c = some (t', c + k') := by
          intro k' hk'
          by_cases h : k' < k
          · exact ihk k' h r
          · have : k' = k := by omega
            subst this; exact ihr
        rcases it.nor_app_inv with ⟨j, b, hj, it1, it2⟩ | ⟨j, m, l1, l2, r', hjm, it1, it2, it3, rfl, hc1, hn2⟩
        · -- the operator reaches an abstraction after j cbn steps, then the root is contracted
          obtain ⟨f1, hf1⟩ := betaCbn_complete' L (c := c) it1 (by omega) (fun _ => by simp [stepCbn])
          obtain ⟨f2, hf2⟩ := ihk (k - j - 1) (by omega) (contract b r) t' (c + j + 1) it2 (by omega)
            (fun h => hnf (by omega))
          refine ⟨max f1 f2 + 1, ?_⟩
          have hbud : budget L (c + j) = true := by simp [budget]; omega
          rw [betaNor]
          simp only [hg, betaCbn_mono L hf1 (Nat.le_max_left f1 f2), isAbs, hbud, Bool.and_self, if_true]
          rw [betaNor_mono L hf2 (Nat.le_max_right f1 f2)]
          have e : c + j + 1 + (k - j - 1) = c + k := by omega
          rw [e]; simp
        · -- j cbn steps in the operator, m further steps in the operator, the rest in the operand
          have hend : (L = 0 ∨ c + k < L) → isAbs l2 = false ∧ stepNor l2 = none ∧ stepNor r' = none :=
            fun h => stepNor_app_eq_none (hnf h)
          have hcn : (L = 0 ∨ c + j < L) → stepCbn l1 = none ∧ isAbs l1 = false := by
            intro hb
            by_cases hjk : j < k
            · exact hc1 hjk
            · have hm : m = 0 := by omega
              subst hm; cases it2
              have := hend (by omega)
              exact ⟨stepCbn_none_of_stepNor_none this.2.1, this.1⟩
          obtain ⟨f1, hf1⟩ := betaCbn_complete' L (c := c) it1 (by omega) (fun h => (hcn h).1)
          have hcond : (isAbs l1 && budget L (c + j)) = false := by
            cases hb : budget L (c + j) with
            | false => simp
            | true => simp [budget] at hb; simp [(hcn (by omega)).2]
          have hn : (L = 0 ∨ c + j + m < L) → stepNor l2 = none := by
            intro hb
            by_cases hlt : j + m < k
            · exact hn2 hlt
            · exact (hend (by omega)).2.1
          have h2 : ∃ f2, betaNor L f2 l1 (c + j) = some (l2, c + j + m) := by
            by_cases hj0 : j = 0
            · subst hj0; cases it1
              exact callL m (by omega) l2 (c + 0) it2 (by omega) hn
            · exact ihk m (by omega) l1 l2 (c + j) it2 (by omega) hn
          obtain ⟨f2, hf2⟩ := h2
          obtain ⟨f3, hf3⟩ := callR (k - j - m) (by omega) r' (c + j + m) it3 (by omega)
            (fun h => (hend (by omega)).2.2)
          refine ⟨max f1 (max f2 f3) + 1, ?_⟩
          have e : c + j + m + (k - j - m) = c + k := by omega
          rw [e] at hf3
          rw [betaNor]
          simp only [hg, betaCbn_mono L hf1 (Nat.le_max_left _ _), hcond,
            betaNor_mono L hf2 (Nat.le_trans (Nat.le_max_left f2 f3) (Nat.le_max_right f1 _)),
            betaNor_mono L hf3 (Nat.le_trans (Nat.le_max_right f2 f3) (Nat.le_max_right f1 _))]
          simp

theorem betaNor_complete (L : Nat) : ∀ k t t' c, Iter stepNor k t t' → (L = 0 → stepNor t' = none) →
    (L ≠ 0 → c + k ≤ L ∧ (c + k < L → stepNor t' = none)) → ∃ fuel, betaNor L fuel t c = some (t', c + k) := by
  intro k t t' c it h0 hL
  refine betaNor_complete' L k t t' c it ?_ ?_
  · by_cases h : L = 0
    · exact Or.inl h
    · exact Or.inr (hL h).1
  · intro hb
    by_cases h : L = 0
    · exact h0 h
    · exact (hL h).2 (by omega)

end Term
end LC
