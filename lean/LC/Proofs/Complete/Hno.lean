/-
Refinement, completeness direction (DESIGN §6.3) for HNO: fuel monotonicity and
"whenever the strategy run exists the traversal returns it for some fuel".
-/
import LC.Proofs.Complete.Hsp
import LC.Proofs.Refine.Nor

namespace LC
namespace Term
open Spec

/-! ### fuel monotonicity -/

theorem betaHno_mono1 (L : Nat) : ∀ fuel t c r, betaHno L fuel t c = some r → betaHno L (fuel+1) t c = some r := by
  intro fuel
  induction fuel with
  | zero => intro t c r h; simp [betaHno] at h
  | succ fuel ih =>
    intro t c r h
    by_cases hg : gate L c = true
    · simp [betaHno, hg] at h ⊢; exact h
    · cases t with
      | var i => simp [betaHno, hg] at h ⊢; exact h
      | abs b =>
        rw [betaHno] at h ⊢
        simp only [hg] at h ⊢
        cases hb : betaHno L fuel b c with
        | none => simp [hb] at h
        | some p =>
          rw [ih _ _ _ hb]
          simp only [hb] at h
          exact h
      | app l r' =>
        rw [betaHno] at h ⊢
        simp only [hg] at h ⊢
        cases hl : betaHsp L fuel l c with
        | none => simp [hl] at h
        | some p =>
          obtain ⟨l', c1⟩ := p
          rw [betaHsp_mono1 L _ _ _ _ hl]
          simp only [hl] at h
          by_cases hcond : (isAbs l' && budget L c1) = true
          · simp only [hcond, if_true] at h ⊢
            cases l' with
            | var i => simp at h
            | app a1 a2 => simp at h
            | abs b => exact ih _ _ _ h
          · simp only [hcond] at h ⊢
            cases hl2 : betaHno L fuel l' c1 with
            | none => simp [hl2] at h
            | some p2 =>
              obtain ⟨l2, c2⟩ := p2
              simp only [ih _ _ _ hl2]
              simp only [hl2] at h
              cases hr : betaHno L fuel r' c2 with
              | none => simp [hr] at h
              | some p3 =>
                simp only [ih _ _ _ hr]
                simp only [hr] at h
                exact h

theorem betaHno_mono (L : Nat) {f f' t c r} (h : betaHno L f t c = some r) (hle : f ≤ f') : betaHno L f' t c = some r := by
  induction hle with
  | refl => exact h
  | step _ ih => exact betaHno_mono1 L _ _ _ _ ih

/-! ### `stepHno` on applications, neutral terms -/

theorem stepHno_app_of_hsp {l l'} (r) (h : stepHsp l = some l') : stepHno (app l r) = some (app l' r) := by
  simp only [stepHno, h]

theorem stepHno_app_root {b} (r) (h : stepHsp (Term.abs b) = none) :
    stepHno (app (Term.abs b) r) = some (contract b r) := by
  rw [stepHno]; simp only [h]

theorem stepHsp_neutral {t} (h : neutral t = true) : stepHsp t = none := by
  induction t with
  | var i => rfl
  | abs b => simp [neutral] at h
  | app l r ihl _ =>
    have hl : neutral l = true := by simpa [neutral] using h
    rw [stepHsp_app_of_none r (ihl hl)]
    cases l with
    | var i => rfl
    | abs b => simp [neutral] at hl
    | app a1 a2 => rfl

theorem neutral_of_hsp_nf_cp {t} (h1 : stepHsp t = none) (h2 : isAbs t = false) : neutral t = true := by
  induction t with
  | var i => rfl
  | abs b => simp [isAbs] at h2
  | app l r ihl _ =>
    have := stepHsp_app_eq_none h1
    simpa [neutral] using ihl this.1 this.2

theorem stepHno_app_neutral {l} (r) (h : neutral l = true) :
    stepHno (app l r) = (match stepHno l with
      | some l' => some (app l' r)
      | none => (stepHno r).map (app l)) := by
  have hs := stepHsp_neutral h
  simp only [stepHno, hs]
  cases l with
  | var i => rfl
  | abs b => simp [neutral] at h
  | app a1 a2 => rfl

theorem stepHno_neutral_cp {t t'} (hn : neutral t = true) (h : stepHno t = some t') : neutral t' = true := by
  induction t generalizing t' with
  | var i => simp [stepHno] at h
  | abs b => simp [neutral] at hn
  | app l r ihl _ =>
    have hl : neutral l = true := by simpa [neutral] using hn
    rw [stepHno_app_neutral r hl] at h
    cases hs : stepHno l with
    | some l' => simp [hs] at h; subst h; simpa [neutral] using ihl hl hs
    | none =>
      simp [hs] at h; obtain ⟨a, _, rfl⟩ := h
      simpa [neutral] using hl

theorem stepHno_app_eq_none {l r} (h : stepHno (app l r) = none) :
    isAbs l = false ∧ stepHsp l = none ∧ stepHno l = none ∧ stepHno r = none := by
  cases hh : stepHsp l with
  | some l' => rw [stepHno_app_of_hsp r hh] at h; simp at h
  | none =>
    cases hia : isAbs l with
    | true =>
      cases l with
      | var i => simp [isAbs] at hia
      | app a1 a2 => simp [isAbs] at hia
      | abs b => rw [stepHno_app_root r hh] at h; simp at h
    | false =>
      rw [stepHno_app_neutral r (neutral_of_hsp_nf_cp hh hia)] at h
      cases hl : stepHno l with
      | some l' => simp [hl] at h
      | none =>
        cases hr : stepHno r with
        | some r' => simp [hl, hr] at h
        | none => exact ⟨rfl, rfl, rfl, rfl⟩

/-! ### inversion of `stepHno` runs -/

theorem Iter.hno_abs_inv {k b t'} (h : Iter stepHno k (Term.abs b) t') :
    ∃ b', t' = Term.abs b' ∧ Iter stepHno k b b' := by
  induction k generalizing b with
  | zero => cases h; exact ⟨b, rfl, Iter.zero _⟩
  | succ k ih =>
    cases h with
    | succ hs hrest =>
      simp [stepHno] at hs; obtain ⟨a, ha, rfl⟩ := hs
      obtain ⟨b', rfl, it⟩ := ih hrest
      exact ⟨b', rfl, Iter.succ ha it⟩

/-- once the operator is a normal neutral term, the run stays inside the operand -/
theorem Iter.hno_app_right_inv {k l r t'} (hl : neutral l = true) (hn : stepHno l = none)
    (h : Iter stepHno k (app l r) t') : ∃ r', t' = app l r' ∧ Iter stepHno k r r' := by
  induction k generalizing r with
  | zero => cases h; exact ⟨r, rfl, Iter.zero _⟩
  | succ k ih =>
    cases h with
    | succ hs hrest =>
      rw [stepHno_app_neutral r hl] at hs
      simp [hn] at hs; obtain ⟨r1, hr, rfl⟩ := hs
      obtain ⟨r', rfl, it⟩ := ih hrest
      exact ⟨r', rfl, Iter.succ hr it⟩

/-- a run from an application with neutral operator: first inside the operator, then (only once the
operator is normal) inside the operand -/
theorem Iter.hno_app_neutral_inv {k l r t'} (hneu : neutral l = true) (h : Iter stepHno k (app l r) t') :
    ∃ m l2 r', m ≤ k ∧ Iter stepHno m l l2 ∧ Iter stepHno (k - m) r r' ∧ t' = app l2 r' ∧
      (m < k → stepHno l2 = none) := by
  induction k generalizing l with
  | zero => cases h; exact ⟨0, l, r, by omega, Iter.zero _, Iter.zero _, rfl, by omega⟩
  | succ k ih =>
    cases hl : stepHno l with
    | none =>
      obtain ⟨r', rfl, it⟩ := Iter.hno_app_right_inv hneu hl h
      exact ⟨0, l, r', by omega, Iter.zero _, it, rfl, fun _ => hl⟩
    | some l1 =>
      cases h with
      | succ hs hrest =>
        rw [stepHno_app_neutral r hneu] at hs; simp [hl] at hs; subst hs
        obtain ⟨m, l2, r', hm, it1, it2, rfl, hnf⟩ := ih (stepHno_neutral_cp hneu hl) hrest
        refine ⟨m + 1, l2, r', by omega, Iter.succ hl it1, ?_, rfl, fun h => hnf (by omega)⟩
        rw [show k + 1 - (m + 1) = k - m by omega]; exact it2

/-- a `stepHno` run from an application: `j` head-spine steps in the operator; then either the
operator is a (head-spine normal) abstraction and the root is contracted, or (the operator being
head-spine normal and not an abstraction, unless the run is over) `m` steps in the operator and the
rest in the operand -/
theorem Iter.hno_app_inv {k l r t'} (h : Iter stepHno k (app l r) t') :
    (∃ j b, j < k ∧ Iter stepHsp j l (Term.abs b) ∧ stepHsp (Term.abs b) = none ∧
      Iter stepHno (k - j - 1) (contract b r) t') ∨
    (∃ j m l1 l2 r', j + m ≤ k ∧ Iter stepHsp j l l1 ∧ Iter stepHno m l1 l2 ∧
      Iter stepHno (k - j - m) r r' ∧ t' = app l2 r' ∧
      (j < k → stepHsp l1 = none ∧ isAbs l1 = false) ∧ (j + m < k → stepHno l2 = none)) := by
  induction k generalizing l with
  | zero =>
    cases h
    exact Or.inr ⟨0, 0, l, l, r, by omega, Iter.zero _, Iter.zero _, Iter.zero _, rfl, by omega, by omega⟩
  | succ k ih =>
    cases hh : stepHsp l with
    | some l1 =>
      cases h with
      | succ hs hrest =>
        rw [stepHno_app_of_hsp r hh] at hs; simp at hs; subst hs
        rcases ih hrest with ⟨j, b, hj, it1, hnb, it2⟩ | ⟨j, m, l1', l2, r', hjm, it1, it2, it3, rfl, hc1, hnf⟩
        · refine Or.inl ⟨j + 1, b, by omega, Iter.succ hh it1, hnb, ?_⟩
          rw [show k + 1 - (j + 1) - 1 = k - j - 1 by omega]; exact it2
        · refine Or.inr ⟨j + 1, m, l1', l2, r', by omega, Iter.succ hh it1, it2, ?_, rfl,
            fun h => hc1 (by omega), fun h => hnf (by omega)⟩
          rw [show k + 1 - (j + 1) - m = k - j - m by omega]; exact it3
    | none =>
      cases hia : isAbs l with
      | true =>
        cases l with
        | var i => simp [isAbs] at hia
        | app a1 a2 => simp [isAbs] at hia
        | abs b =>
          cases h with
          | succ hs hrest =>
            rw [stepHno_app_root r hh] at hs; simp at hs; subst hs
            exact Or.inl ⟨0, b, by omega, Iter.zero _, hh, by simpa using hrest⟩
      | false =>
        obtain ⟨m, l2, r', hm, it1, it2, rfl, hnf⟩ := Iter.hno_app_neutral_inv (neutral_of_hsp_nf_cp hh hia) h
        exact Or.inr ⟨0, m, l, l2, r', by omega, Iter.zero _, it1, by simpa using it2, rfl,
          fun _ => ⟨hh, hia⟩, fun h => hnf (by omega)⟩

/-! ### completeness -/

theorem betaHno_complete_gate {L k c t t'} (hg : gate L c = true) (it : Iter stepHno k t t')
    (hle : L = 0 ∨ c + k ≤ L) : ∃ fuel, betaHno L fuel t c = some (t', c + k) := by
  simp [gate] at hg
  have hk : k = 0 := by omega
  subst hk; cases it
  exact ⟨1, by simp [betaHno, gate, hg]⟩

theorem betaHno_complete' (L : Nat) : ∀ k t t' c, Iter stepHno k t t' → (L = 0 ∨ c + k ≤ L) →
    ((L = 0 ∨ c + k < L) → stepHno t' = none) → ∃ fuel, betaHno L fuel t c = some (t', c + k) := by
  intro k
  induction k using Nat.strongRecOn with
  | _ k ihk =>
    intro t
    induction t with
    | var i =>
      intro t' c it _ _
      cases it with
      | zero => exact ⟨1, by simp [betaHno]⟩
      | succ hs _ => simp [stepHno] at hs
    | abs b ihb =>
      intro t' c it hle hnf
      by_cases hg : gate L c = true
      · exact betaHno_complete_gate hg it hle
      · obtain ⟨b', rfl, itb⟩ := it.hno_abs_inv
        obtain ⟨f, hf⟩ := ihb b' c itb hle (fun h => by simpa [stepHno] using hnf h)
        refine ⟨f + 1, ?_⟩
        rw [betaHno]; simp only [hg, hf]; simp
    | app l r ihl ihr =>
      intro t' c it hle hnf
      by_cases hg : gate L c = true
      · exact betaHno_complete_gate hg it hle
      · have callL : ∀ k', k' ≤ k → ∀ t' c, Iter stepHno k' l t' → (L = 0 ∨ c + k' ≤ L) →
            ((L = 0 ∨ c + k' < L) → stepHno t' = none) → ∃ fuel, betaHno L fuel l c = some (t', c + k') := by
          intro k' hk'
          by_cases h : k' < k
          · exact ihk k' h l
          · have : k' = k := by omega
            subst this; exact ihl
        have callR : ∀ k', k' ≤ k → ∀ t' c, Iter stepHno k' r t' → (L = 0 ∨ c + k' ≤ L) →
            ((L = 0 ∨ c + k' < L) → stepHno t' = none) → ∃ fuel, betaHno L fuel r c = some (t', c + k') := by
          intro k' hk'
          by_cases h : k' < k
          · exact ihk k' h r
          · have : k' = k := by omega
            subst this; exact ihr
        rcases it.hno_app_inv with ⟨j, b, hj, it1, hnb, it2⟩ | ⟨j, m, l1, l2, r', hjm, it1, it2, it3, rfl, hc1, hn2⟩
        · -- the operator reaches a normal abstraction after j head-spine steps, then the root is contracted
          obtain ⟨f1, hf1⟩ := betaHsp_complete' L j l (Term.abs b) c it1 (by omega) (fun _ => hnb)
          obtain ⟨f2, hf2⟩ := ihk (k - j - 1) (by omega) (contract b r) t' (c + j + 1) it2 (by omega)
            (fun h => hnf (by omega))
          refine ⟨max f1 f2 + 1, ?_⟩
          have hbud : budget L (c + j) = true := by simp [budget]; omega
          rw [betaHno]
          simp only [hg, betaHsp_mono L hf1 (Nat.le_max_left f1 f2), isAbs, hbud, Bool.and_self, if_true]
          rw [betaHno_mono L hf2 (Nat.le_max_right f1 f2)]
          have e : c + j + 1 + (k - j - 1) = c + k := by omega
          rw [e]; simp
        · -- j head-spine steps in the operator, m further steps in the operator, the rest in the operand
          have hend : (L = 0 ∨ c + k < L) →
              isAbs l2 = false ∧ stepHsp l2 = none ∧ stepHno l2 = none ∧ stepHno r' = none :=
            fun h => stepHno_app_eq_none (hnf h)
          have hcn : (L = 0 ∨ c + j < L) → stepHsp l1 = none ∧ isAbs l1 = false := by
            intro hb
            by_cases hjk : j < k
            · exact hc1 hjk
            · have hm : m = 0 := by omega
              subst hm; cases it2
              have := hend (by omega)
              exact ⟨this.2.1, this.1⟩
          obtain ⟨f1, hf1⟩ := betaHsp_complete' L j l l1 c it1 (by omega) (fun h => (hcn h).1)
          have hcond : (isAbs l1 && budget L (c + j)) = false := by
            cases hb : budget L (c + j) with
            | false => simp
            | true => simp [budget] at hb; simp [(hcn (by omega)).2]
          have hn : (L = 0 ∨ c + j + m < L) → stepHno l2 = none := by
            intro hb
            by_cases hlt : j + m < k
            · exact hn2 hlt
            · exact (hend (by omega)).2.2.1
          have h2 : ∃ f2, betaHno L f2 l1 (c + j) = some (l2, c + j + m) := by
            by_cases hj0 : j = 0
            · subst hj0; cases it1
              exact callL m (by omega) l2 (c + 0) it2 (by omega) hn
            · exact ihk m (by omega) l1 l2 (c + j) it2 (by omega) hn
          obtain ⟨f2, hf2⟩ := h2
          obtain ⟨f3, hf3⟩ := callR (k - j - m) (by omega) r' (c + j + m) it3 (by omega)
            (fun h => (hend (by omega)).2.2.2)
          refine ⟨max f1 (max f2 f3) + 1, ?_⟩
          have e : c + j + m + (k - j - m) = c + k := by omega
          rw [e] at hf3
          rw [betaHno]
          simp only [hg, betaHsp_mono L hf1 (Nat.le_max_left _ _), hcond,
            betaHno_mono L hf2 (Nat.le_trans (Nat.le_max_left f2 f3) (Nat.le_max_right f1 _)),
            betaHno_mono L hf3 (Nat.le_trans (Nat.le_max_right f2 f3) (Nat.le_max_right f1 _))]
          simp

theorem betaHno_complete (L : Nat) : ∀ k t t' c, Iter stepHno k t t' → (L = 0 → stepHno t' = none) →
    (L ≠ 0 → c + k ≤ L ∧ (c + k < L → stepHno t' = none)) → ∃ fuel, betaHno L fuel t c = some (t', c + k) := by
  intro k t t' c it h0 hL
  refine betaHno_complete' L k t t' c it ?_ ?_
  · by_cases h : L = 0
    · exact Or.inl h
    · exact Or.inr (hL h).1
  · intro hb
    by_cases h : L = 0
    · exact h0 h
    · exact (hL h).2 (by omega)

end Term
end LC
