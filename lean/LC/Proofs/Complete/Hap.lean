/-
Refinement, completeness direction (DESIGN §6.3) for HAP (hybrid applicative order): fuel
monotonicity and "whenever the strategy run exists the traversal returns it for some fuel".
-/
import LC.Proofs.Complete.Cbv

namespace LC
namespace Term
open Spec

theorem betaHap_mono1 (L : Nat) : ∀ fuel t c r, betaHap L fuel t c = some r → betaHap L (fuel+1) t c = some r := by
  intro fuel
  induction fuel with
  | zero => intro t c r h; simp [betaHap] at h
  | succ fuel ih =>
    intro t c r h
    by_cases hg : gate L c = true
    · simp [betaHap, hg] at h ⊢; exact h
    · cases t with
      | var i => simp [betaHap, hg] at h ⊢; exact h
      | abs b =>
        rw [betaHap] at h ⊢
        simp only [hg] at h ⊢
        cases hb : betaHap L fuel b c with
        | none => simp [hb] at h
        | some p => simp only [ih _ _ _ hb]; simpa [hb] using h
      | app l r' =>
        rw [betaHap] at h ⊢
        simp only [hg] at h ⊢
        cases hl : betaCbv L fuel l c with
        | none => simp [hl] at h
        | some p =>
          obtain ⟨l', c1⟩ := p
          simp only [betaCbv_mono1 L _ _ _ _ hl]
          simp only [hl] at h
          cases hr : betaHap L fuel r' c1 with
          | none => simp [hr] at h
          | some q =>
            obtain ⟨r2, c2⟩ := q
            simp only [ih _ _ _ hr]
            simp only [hr] at h
            cases hc : (isAbs l' && budget L c2) with
            | true =>
              simp only [hc, if_true] at h ⊢
              cases l' with
              | abs b => exact ih _ _ _ (by simpa using h)
              | var i => simp at h
              | app a1 a2 => simp at h
            | false =>
              simp only [hc] at h ⊢
              cases hl2 : betaHap L fuel l' c2 with
              | none => simp [hl2] at h
              | some q2 => simp only [ih _ _ _ hl2]; simpa [hl2] using h

theorem betaHap_mono (L : Nat) {f f' t c r} (h : betaHap L f t c = some r) (hle : f ≤ f') : betaHap L f' t c = some r := by
  induction hle with
  | refl => exact h
  | step _ ih => exact betaHap_mono1 L _ _ _ _ ih

/-! ### facts about `stepCbv` / `stepHap` -/

/-- the cbv strategy selects nothing exactly on weak normal forms -/
theorem stepCbv_none_iff_isWNF_cp {t : Term} : stepCbv t = none ↔ isWNF t = true := by
  induction t with
  | var i => simp [stepCbv, isWNF]
  | abs b _ => simp [stepCbv, isWNF]
  | app l r ihl ihr =>
    rw [stepCbv_app_none_cp, ihl, ihr]
    simp only [isWNF, Bool.and_eq_true, Bool.not_eq_true']
    constructor
    · rintro ⟨h1, h2, h3⟩; exact ⟨⟨h3, h1⟩, h2⟩
    · rintro ⟨⟨h3, h1⟩, h2⟩; exact ⟨h1, h2, h3⟩

theorem stepHap_app_left_cp {l l1 : Term} (r : Term) (h : stepCbv l = some l1) :
    stepHap (Term.app l r) = some (Term.app l1 r) := by
  simp [stepHap, h]

theorem stepHap_app_right_cp {l : Term} (hl : stepCbv l = none) {r r1 : Term} (h : stepHap r = some r1) :
    stepHap (Term.app l r) = some (Term.app l r1) := by
  simp [stepHap, hl, h]

theorem stepHap_app_redex {b r : Term} (hr : stepHap r = none) :
    stepHap (Term.app (Term.abs b) r) = some (contract b r) := by
  simp [stepHap, stepCbv, hr]

theorem stepHap_app_neutral {l r : Term} (hl : stepCbv l = none) (hr : stepHap r = none)
    (ha : isAbs l = false) :
    stepHap (Term.app l r) = (stepHap l).map (fun l' => Term.app l' r) := by
  simp only [stepHap]
  rw [hl, hr]
  cases l <;> simp_all [isAbs]

theorem stepHap_app_none_cp {l r : Term} :
    stepHap (Term.app l r) = none ↔
      stepCbv l = none ∧ stepHap r = none ∧ isAbs l = false ∧ stepHap l = none := by
  cases hl : stepCbv l with
  | some l1 => simp [stepHap_app_left_cp r hl]
  | none =>
    cases hr : stepHap r with
    | some r1 => simp [stepHap_app_right_cp hl hr]
    | none =>
      cases l with
      | abs b => simp [stepHap_app_redex hr, isAbs]
      | var i => simp [stepHap_app_neutral hl hr rfl, isAbs]
      | app a1 a2 => simp [stepHap_app_neutral hl hr rfl, isAbs]

/-- a `stepHap` step of a weak normal form yields a weak normal form of the same kind -/
theorem stepHap_isWNF_cp {t t2 : Term} (hw : isWNF t = true) (hs : stepHap t = some t2) :
    isWNF t2 = true ∧ isAbs t2 = isAbs t := by
  induction t generalizing t2 with
  | var i => simp [stepHap] at hs
  | abs b _ =>
    simp [stepHap] at hs
    obtain ⟨b2, _, rfl⟩ := hs
    simp [isWNF, isAbs]
  | app l r ihl ihr =>
    simp only [isWNF, Bool.and_eq_true, Bool.not_eq_true'] at hw
    obtain ⟨⟨ha, hwl⟩, hwr⟩ := hw
    have hl : stepCbv l = none := stepCbv_none_iff_isWNF_cp.2 hwl
    cases hr : stepHap r with
    | some r2 =>
      rw [stepHap_app_right_cp hl hr] at hs
      cases hs
      have := ihr hwr hr
      refine ⟨?_, rfl⟩
      simp [isWNF, ha, hwl, this.1]
    | none =>
      rw [stepHap_app_neutral hl hr ha] at hs
      cases hl2 : stepHap l with
      | none => simp [hl2] at hs
      | some l2 =>
        simp [hl2] at hs; subst hs
        have := ihl hwl hl2
        have hl2a : isAbs l2 = false := by rw [this.2]; exact ha
        refine ⟨?_, rfl⟩
        simp [isWNF, hl2a, hwr, this.1]

/-- once operator (a weak normal form that is not an abstraction) and operand are done, the
run of the application proceeds inside the operator -/
theorem Iter.hap_app_neutral {m : Nat} {l r t' : Term} (hw : isWNF l = true) (ha : isAbs l = false)
    (hr : stepHap r = none) (h : Iter stepHap m (Term.app l r) t') :
    ∃ l2, t' = Term.app l2 r ∧ Iter stepHap m l l2 := by
  induction m generalizing l with
  | zero => cases h; exact ⟨l, rfl, Iter.zero _⟩
  | succ m ih =>
    cases h with
    | succ hs hrest =>
      rw [stepHap_app_neutral (stepCbv_none_iff_isWNF_cp.2 hw) hr ha] at hs
      cases hl2 : stepHap l with
      | none => simp [hl2] at hs
      | some l1 =>
        simp [hl2] at hs; subst hs
        have hp := stepHap_isWNF_cp hw hl2
        obtain ⟨l2, e, it⟩ := ih hp.1 (by rw [hp.2]; exact ha) hrest
        exact ⟨l2, e, Iter.succ hl2 it⟩

/-- a hap run from an application: `j1` cbv steps inside the operator, then (only once the operator
is cbv-normal) `j2` hap steps inside the operand, then (only once the operand is hap-normal) either
the operator is an abstraction, the root is contracted and the run goes on from the contractum, or
the rest of the run is a hap run inside the operator -/
theorem Iter.hap_app_inv {k : Nat} {l r t' : Term} (h : Iter stepHap k (Term.app l r) t') :
    ∃ j1 j2 l' r', j1 + j2 ≤ k ∧ Iter stepCbv j1 l l' ∧ Iter stepHap j2 r r' ∧
      (j1 < k → stepCbv l' = none) ∧ (j1 + j2 < k → stepHap r' = none) ∧
      ((∃ b, j1 + j2 < k ∧ l' = Term.abs b ∧ Iter stepHap (k - j1 - j2 - 1) (contract b r') t') ∨
       ((j1 + j2 < k → isAbs l' = false) ∧
          ∃ l2, t' = Term.app l2 r' ∧ Iter stepHap (k - j1 - j2) l' l2)) := by
  obtain ⟨j1, l', hj1, it1, hn1, rest1⟩ :=
    Iter.app_left_inv (f := stepHap) (g := stepCbv) (fun l l1 r h => stepHap_app_left_cp r h) h
  by_cases hlt1 : j1 < k
  · have hl' := hn1 hlt1
    obtain ⟨j2, r', hj2, it2, hn2, rest2⟩ :=
      Iter.app_right_inv (f := stepHap) (g := stepHap) (fun r r1 h => stepHap_app_right_cp hl' h) rest1
    by_cases hlt2 : j2 < k - j1
    · have hr' := hn2 hlt2
      refine ⟨j1, j2, l', r', by omega, it1, it2, hn1, fun _ => hr', ?_⟩
      cases hab : isAbs l' with
      | false =>
        obtain ⟨l2, e, it3⟩ := Iter.hap_app_neutral (stepCbv_none_iff_isWNF_cp.1 hl') hab hr' rest2
        exact Or.inr ⟨fun _ => rfl, l2, e, it3⟩
      | true =>
        cases l' with
        | var i => simp [isAbs] at hab
        | app a1 a2 => simp [isAbs] at hab
        | abs b =>
          obtain ⟨m, hm⟩ : ∃ m, k - j1 - j2 = m + 1 := ⟨k - j1 - j2 - 1, by omega⟩
          rw [hm] at rest2
          cases rest2 with
          | succ hs hrest =>
            rw [stepHap_app_redex hr'] at hs
            cases hs
            exact Or.inl ⟨b, by omega, rfl, by rw [show k - j1 - j2 - 1 = m by omega]; exact hrest⟩
    · have e : k - j1 - j2 = 0 := by omega
      refine ⟨j1, j2, l', r', by omega, it1, it2, hn1, fun h => absurd h (by omega), Or.inr ?_⟩
      rw [e] at rest2 ⊢; cases rest2
      exact ⟨fun h => absurd h (by omega), l', rfl, Iter.zero _⟩
  · have e : k - j1 = 0 := by omega
    refine ⟨j1, 0, l', r, by omega, it1, Iter.zero _, hn1, fun h => absurd h (by omega), Or.inr ?_⟩
    rw [e] at rest1; cases rest1
    have e' : k - j1 - 0 = 0 := by omega
    rw [e']
    exact ⟨fun h => absurd h (by omega), l', rfl, Iter.zero _⟩

theorem betaHap_complete (L : Nat) : ∀ k t t' c, Iter stepHap k t t' → (L = 0 → stepHap t' = none) →
    (L ≠ 0 → c + k ≤ L ∧ (c + k < L → stepHap t' = none)) → ∃ fuel, betaHap L fuel t c = some (t', c + k) := by
  intro k
  induction k using Nat.strongRecOn with
  | _ k ihk =>
    intro t
    induction t with
    | var i =>
      intro t' c it _ _
      cases it with
      | zero => exact ⟨1, by simp [betaHap]⟩
      | succ hs _ => simp [stepHap] at hs
    | abs b ihb =>
      intro t' c it h0 hL
      by_cases hg : gate L c = true
      · -- gate closed: k = 0
        simp [gate] at hg
        have hk : k = 0 := by have := (hL hg.1).1; omega
        subst hk; cases it
        exact ⟨1, by simp [betaHap, gate, hg]⟩
      · obtain ⟨b', rfl, itb⟩ := Iter.abs_inv (f := stepHap) (fun b => by simp [stepHap]) it
        have hnone : stepHap (Term.abs b') = none → stepHap b' = none := by
          intro h; simpa [stepHap] using h
        obtain ⟨fuel, hf⟩ := ihb b' c itb (fun h => hnone (h0 h))
          (fun h => ⟨(hL h).1, fun hlt => hnone ((hL h).2 hlt)⟩)
        refine ⟨fuel + 1, ?_⟩
        unfold betaHap
        simp only [hg, hf]
        simp
    | app l r ihl ihr =>
      intro t' c it h0 hL
      by_cases hg : gate L c = true
      · -- gate closed: k = 0
        simp [gate] at hg
        have hk : k = 0 := by have := (hL hg.1).1; omega
        subst hk; cases it
        exact ⟨1, by simp [betaHap, gate, hg]⟩
      · have hfin : (L = 0 ∨ c + k < L) → stepHap t' = none := by
          intro hb
          rcases hb with hb | hb
          · exact h0 hb
          · exact (hL (by omega)).2 hb
        have hle : L ≠ 0 → c + k ≤ L := fun h => (hL h).1
        have IHr : ∀ m, m ≤ k → ∀ t' c, Iter stepHap m r t' → (L = 0 → stepHap t' = none) →
            (L ≠ 0 → c + m ≤ L ∧ (c + m < L → stepHap t' = none)) →
            ∃ fuel, betaHap L fuel r c = some (t', c + m) := by
          intro m hm
          rcases Nat.lt_or_eq_of_le hm with h | h
          · exact ihk m h r
          · subst h; exact ihr
        obtain ⟨j1, j2, l', r', hj, it1, it2, hn1, hn2, fin⟩ := it.hap_app_inv
        -- the last phase runs on `l'`, which is `l` itself or comes with a strictly shorter run
        have IHl' : ∀ t' c, Iter stepHap (k - j1 - j2) l' t' → (L = 0 → stepHap t' = none) →
            (L ≠ 0 → c + (k - j1 - j2) ≤ L ∧ (c + (k - j1 - j2) < L → stepHap t' = none)) →
            ∃ fuel, betaHap L fuel l' c = some (t', c + (k - j1 - j2)) := by
          by_cases h : k - j1 - j2 < k
          · exact ihk _ h l'
          · have e1 : j1 = 0 := by omega
            have e2 : k - j1 - j2 = k := by omega
            subst e1; cases it1
            rw [e2]; exact ihl
        -- if the run ends in operator/operand then `t'` is the application of the two reducts
        have hend : j1 + j2 = k → t' = Term.app l' r' := by
          intro hk
          rcases fin with ⟨b, hlt, _⟩ | ⟨_, l2, e, it3⟩
          · omega
          · have e0 : k - j1 - j2 = 0 := by omega
            rw [e0] at it3; cases it3; exact e
        -- the operator, by call-by-value
        have hl'none : (L = 0 ∨ c + j1 < L) → stepCbv l' = none := by
          intro hb
          by_cases hlt : j1 < k
          · exact hn1 hlt
          · have := hfin (by omega)
            rw [hend (by omega)] at this
            exact (stepHap_app_none_cp.1 this).1
        obtain ⟨f1, hf1⟩ := betaCbv_complete L j1 l l' c it1 (fun h => hl'none (Or.inl h))
          (fun h => ⟨by have := hle h; omega, fun hlt => hl'none (Or.inr hlt)⟩)
        -- the operand
        have hr'none : (L = 0 ∨ c + j1 + j2 < L) → stepHap r' = none := by
          intro hb
          by_cases hlt : j1 + j2 < k
          · exact hn2 hlt
          · have := hfin (by omega)
            rw [hend (by omega)] at this
            exact (stepHap_app_none_cp.1 this).2.1
        obtain ⟨f2, hf2⟩ := IHr j2 (by omega) r' (c + j1) it2 (fun h => hr'none (Or.inl h))
          (fun h => ⟨by have := hle h; omega, fun hlt => hr'none (Or.inr hlt)⟩)
        rcases fin with ⟨b, hlt, rfl, it3⟩ | ⟨hna, l2, rfl, it3⟩
        · -- root contraction, then the rest of the run from the contractum
          obtain ⟨f3, hf3⟩ := ihk (k - j1 - j2 - 1) (by omega) (contract b r') t' (c + j1 + j2 + 1) it3 h0
            (fun h => ⟨by have := hle h; omega, fun hlt => (hL h).2 (by omega)⟩)
          refine ⟨max (max f1 f2) f3 + 1, ?_⟩
          unfold betaHap
          simp only [hg, betaCbv_mono L hf1 (Nat.le_trans (Nat.le_max_left f1 f2) (Nat.le_max_left _ f3)),
            betaHap_mono L hf2 (Nat.le_trans (Nat.le_max_right f1 f2) (Nat.le_max_left _ f3))]
          have hbud : budget L (c + j1 + j2) = true := by
            apply budget_true_of
            by_cases h : L = 0
            · exact Or.inl h
            · exact Or.inr (by have := hle h; omega)
          simp only [hbud, isAbs, Bool.and_self, if_true]
          rw [betaHap_mono L hf3 (Nat.le_max_right _ f3)]
          have e : c + j1 + j2 + 1 + (k - j1 - j2 - 1) = c + k := by omega
          rw [e]; simp
        · -- no root contraction: the rest of the run is inside the operator
          have hcond : (isAbs l' && budget L (c + j1 + j2)) = false := by
            cases hc : (isAbs l' && budget L (c + j1 + j2)) with
            | false => rfl
            | true =>
              exfalso
              simp only [Bool.and_eq_true] at hc
              obtain ⟨hab, hbud⟩ := hc
              have hk : j1 + j2 = k := by
                by_cases hlt : j1 + j2 < k
                · rw [hna hlt] at hab; cases hab
                · omega
              have hb : L = 0 ∨ c + k < L := by
                simp [budget] at hbud
                rcases hbud with h | h
                · exact Or.inl h
                · exact Or.inr (by omega)
              have := hfin hb
              rw [hend hk] at this
              rw [(stepHap_app_none_cp.1 this).2.2.1] at hab; cases hab
          have hl2none : (L = 0 ∨ c + k < L) → stepHap l2 = none := by
            intro hb
            exact (stepHap_app_none_cp.1 (hfin hb)).2.2.2
          obtain ⟨f3, hf3⟩ := IHl' l2 (c + j1 + j2) it3 (fun h => hl2none (Or.inl h))
            (fun h => ⟨by have := hle h; omega, fun hlt => hl2none (Or.inr (by omega))⟩)
          refine ⟨max (max f1 f2) f3 + 1, ?_⟩
          unfold betaHap
          simp only [hg, betaCbv_mono L hf1 (Nat.le_trans (Nat.le_max_left f1 f2) (Nat.le_max_left _ f3)),
            betaHap_mono L hf2 (Nat.le_trans (Nat.le_max_right f1 f2) (Nat.le_max_left _ f3)), hcond]
          rw [betaHap_mono L hf3 (Nat.le_max_right _ f3)]
          have e : c + j1 + j2 + (k - j1 - j2) = c + k := by omega
          rw [e]; simp

end Term
end LC
