/-
Refinement, completeness direction (DESIGN §6.3) for APP (applicative order): fuel
monotonicity and "whenever the strategy run exists the traversal returns it for some fuel".
-/
import LC.Proofs.Complete.Cbv

namespace LC
namespace Term

/-! ### APP -/

theorem betaApp_mono1 (L : Nat) : ∀ fuel t c r, betaApp L fuel t c = some r → betaApp L (fuel+1) t c = some r := by
  intro fuel
  induction fuel with
  | zero => intro t c r h; simp [betaApp] at h
  | succ fuel ih =>
    intro t c r h
    by_cases hg : gate L c = true
    · simp [betaApp, hg] at h ⊢; exact h
    · cases t with
      | var i => simp [betaApp, hg] at h ⊢; exact h
      | abs b =>
        rw [betaApp] at h ⊢
        simp only [hg] at h ⊢
        cases hb : betaApp L fuel b c with
        | none => simp [hb] at h
        | some p => simp only [ih _ _ _ hb]; simpa [hb] using h
      | app l r' =>
        rw [betaApp] at h ⊢
        simp only [hg] at h ⊢
        cases hl : betaApp L fuel l c with
        | none => simp [hl] at h
        | some p =>
          obtain ⟨l', c1⟩ := p
          simp only [ih _ _ _ hl]
          simp only [hl] at h
          cases hr : betaApp L fuel r' c1 with
          | none => simp [hr] at h
          | some q =>
            obtain ⟨r2, c2⟩ := q
            simp only [ih _ _ _ hr]
            simp only [hr] at h
            cases l' with
            | var i => simpa using h
            | app a1 a2 => simpa using h
            | abs b =>
              simp only at h ⊢
              by_cases hb : budget L c2 = true
              · simp only [hb, if_true] at h ⊢; exact ih _ _ _ h
              · simp only [hb] at h ⊢; exact h

theorem betaApp_mono (L : Nat) {f f' t c r} (h : betaApp L f t c = some r) (hle : f ≤ f') : betaApp L f' t c = some r := by
  induction hle with
  | refl => exact h
  | step _ ih => exact betaApp_mono1 L _ _ _ _ ih

theorem stepApp_app_none_cp {l r : Term} :
    stepApp (Term.app l r) = none ↔ stepApp l = none ∧ stepApp r = none ∧ isAbs l = false := by
  simp only [stepApp]
  cases hl : stepApp l with
  | some l1 => simp
  | none =>
    cases hr : stepApp r with
    | some r1 => simp
    | none => cases l <;> simp [isAbs]

theorem stepApp_app_left_cp {l l1 : Term} (r : Term) (h : stepApp l = some l1) :
    stepApp (Term.app l r) = some (Term.app l1 r) := by
  simp [stepApp, h]

theorem stepApp_app_right_cp {l : Term} (hl : stepApp l = none) {r r1 : Term} (h : stepApp r = some r1) :
    stepApp (Term.app l r) = some (Term.app l r1) := by
  simp [stepApp, hl, h]

/-- an applicative-order run from an application: `j1` steps inside the operator, then (only once the operator is
APP-normal) `j2` steps inside the operand, then (only once the operand is APP-normal) either the run
is over or the operator is an abstraction, the root is contracted and the run goes on from the contractum -/
theorem Iter.app_app_inv {k : Nat} {l r t' : Term} (h : Iter stepApp k (Term.app l r) t') :
    ∃ j1 j2 l' r', j1 + j2 ≤ k ∧ Iter stepApp j1 l l' ∧ Iter stepApp j2 r r' ∧
      (j1 < k → stepApp l' = none) ∧ (j1 + j2 < k → stepApp r' = none) ∧
      ((j1 + j2 = k ∧ t' = Term.app l' r') ∨
       (∃ b, j1 + j2 < k ∧ l' = Term.abs b ∧ Iter stepApp (k - j1 - j2 - 1) (contract b r') t')) := by
  obtain ⟨j1, l', hj1, it1, hn1, rest1⟩ := Iter.app_left_inv (g := stepApp) (fun l l1 r h => stepApp_app_left_cp r h) h
  by_cases hlt1 : j1 < k
  · have hl' := hn1 hlt1
    obtain ⟨j2, r', hj2, it2, hn2, rest2⟩ :=
      Iter.app_right_inv (g := stepApp) (fun r r1 h => stepApp_app_right_cp hl' h) rest1
    by_cases hlt2 : j2 < k - j1
    · have hr' := hn2 hlt2
      refine ⟨j1, j2, l', r', by omega, it1, it2, hn1, fun _ => hr', Or.inr ?_⟩
      obtain ⟨m, hm⟩ : ∃ m, k - j1 - j2 = m + 1 := ⟨k - j1 - j2 - 1, by omega⟩
      rw [hm] at rest2
      cases rest2 with
      | succ hs hrest =>
        cases l' with
        | var i => simp [stepApp, hr'] at hs
        | app a1 a2 =>
          have := (stepApp_app_none_cp (l := Term.app a1 a2) (r := r')).2 ⟨hl', hr', rfl⟩
          rw [this] at hs; cases hs
        | abs b =>
          have hb' : stepApp b = none := by simpa [stepApp] using hl'
          simp [stepApp, hb', hr'] at hs; subst hs
          exact ⟨b, by omega, rfl, by rw [show k - j1 - j2 - 1 = m by omega]; exact hrest⟩
    · have e : k - j1 - j2 = 0 := by omega
      rw [e] at rest2; cases rest2
      exact ⟨j1, j2, l', r', by omega, it1, it2, hn1, fun h => absurd h (by omega), Or.inl ⟨by omega, rfl⟩⟩
  · have e : k - j1 = 0 := by omega
    rw [e] at rest1; cases rest1
    exact ⟨j1, 0, l', r, by omega, it1, Iter.zero _, hn1, fun h => absurd h (by omega), Or.inl ⟨by omega, rfl⟩⟩

theorem betaApp_complete (L : Nat) : ∀ k t t' c, Iter stepApp k t t' → (L = 0 → stepApp t' = none) →
    (L ≠ 0 → c + k ≤ L ∧ (c + k < L → stepApp t' = none)) → ∃ fuel, betaApp L fuel t c = some (t', c + k) := by
  intro k
  induction k using Nat.strongRecOn with
  | _ k ihk =>
    intro t
    induction t with
    | var i =>
      intro t' c it _ _
      cases it with
      | zero => exact ⟨1, by simp [betaApp]⟩
      | succ hs _ => simp [stepApp] at hs
    | abs b ihb =>
      intro t' c it h0 hL
      by_cases hg : gate L c = true
      · -- gate closed: k = 0
        simp [gate] at hg
        have hk : k = 0 := by have := (hL hg.1).1; omega
        subst hk; cases it
        exact ⟨1, by simp [betaApp, gate, hg]⟩
      · obtain ⟨b', rfl, itb⟩ := Iter.abs_inv (f := stepApp) (fun b => by simp [stepApp]) it
        have hnone : stepApp (Term.abs b') = none → stepApp b' = none := by
          intro h; simpa [stepApp] using h
        obtain ⟨fuel, hf⟩ := ihb b' c itb (fun h => hnone (h0 h))
          (fun h => ⟨(hL h).1, fun hlt => hnone ((hL h).2 hlt)⟩)
        refine ⟨fuel + 1, ?_⟩
        unfold betaApp
        simp only [hg, hf]
        simp
    | app l r ihl ihr =>
      intro t' c it h0 hL
      by_cases hg : gate L c = true
      · -- gate closed: k = 0
        simp [gate] at hg
        have hk : k = 0 := by have := (hL hg.1).1; omega
        subst hk; cases it
        exact ⟨1, by simp [betaApp, gate, hg]⟩
      · have hfin : (L = 0 ∨ c + k < L) → stepApp t' = none := by
          intro hb
          rcases hb with hb | hb
          · exact h0 hb
          · exact (hL (by omega)).2 hb
        have hle : L ≠ 0 → c + k ≤ L := fun h => (hL h).1
        -- induction hypotheses for the two immediate subterms, for every run length ≤ k
        have IHl : ∀ m, m ≤ k → ∀ t' c, Iter stepApp m l t' → (L = 0 → stepApp t' = none) →
            (L ≠ 0 → c + m ≤ L ∧ (c + m < L → stepApp t' = none)) →
            ∃ fuel, betaApp L fuel l c = some (t', c + m) := by
          intro m hm
          rcases Nat.lt_or_eq_of_le hm with h | h
          · exact ihk m h l
          · subst h; exact ihl
        have IHr : ∀ m, m ≤ k → ∀ t' c, Iter stepApp m r t' → (L = 0 → stepApp t' = none) →
            (L ≠ 0 → c + m ≤ L ∧ (c + m < L → stepApp t' = none)) →
            ∃ fuel, betaApp L fuel r c = some (t', c + m) := by
          intro m hm
          rcases Nat.lt_or_eq_of_le hm with h | h
          · exact ihk m h r
          · subst h; exact ihr
        obtain ⟨j1, j2, l', r', hj, it1, it2, hn1, hn2, fin⟩ := it.app_app_inv
        -- the operator
        have hl'none : (L = 0 ∨ c + j1 < L) → stepApp l' = none := by
          intro hb
          by_cases hlt : j1 < k
          · exact hn1 hlt
          · rcases fin with ⟨_, rfl⟩ | ⟨b, hlt', _⟩
            · exact (stepApp_app_none_cp.1 (hfin (by omega))).1
            · omega
        obtain ⟨f1, hf1⟩ := IHl j1 (by omega) l' c it1 (fun h => hl'none (Or.inl h))
          (fun h => ⟨by have := hle h; omega, fun hlt => hl'none (Or.inr hlt)⟩)
        -- the operand
        have hr'none : (L = 0 ∨ c + j1 + j2 < L) → stepApp r' = none := by
          intro hb
          by_cases hlt : j1 + j2 < k
          · exact hn2 hlt
          · rcases fin with ⟨_, rfl⟩ | ⟨b, hlt', _⟩
            · exact (stepApp_app_none_cp.1 (hfin (by omega))).2.1
            · omega
        obtain ⟨f2, hf2⟩ := IHr j2 (by omega) r' (c + j1) it2 (fun h => hr'none (Or.inl h))
          (fun h => ⟨by have := hle h; omega, fun hlt => hr'none (Or.inr hlt)⟩)
        rcases fin with ⟨hk, rfl⟩ | ⟨b, hlt, rfl, it3⟩
        · -- the run ends inside the operator/operand
          refine ⟨max f1 f2 + 1, ?_⟩
          unfold betaApp
          simp only [hg, betaApp_mono L hf1 (Nat.le_max_left f1 f2),
            betaApp_mono L hf2 (Nat.le_max_right f1 f2)]
          have e : c + j1 + j2 = c + k := by omega
          rw [e]
          cases l' with
          | var i => simp
          | app a1 a2 => simp
          | abs b =>
            have hnb : budget L (c + k) = false := by
              apply budget_false_of
              intro hb
              have := (stepApp_app_none_cp.1 (hfin hb)).2.2
              simp [isAbs] at this
            simp [hnb]
        · -- root contraction, then the rest of the run from the contractum
          obtain ⟨f3, hf3⟩ := ihk (k - j1 - j2 - 1) (by omega) (contract b r') t' (c + j1 + j2 + 1) it3 h0
            (fun h => ⟨by have := hle h; omega, fun hlt => (hL h).2 (by omega)⟩)
          refine ⟨max (max f1 f2) f3 + 1, ?_⟩
          unfold betaApp
          simp only [hg, betaApp_mono L hf1 (Nat.le_trans (Nat.le_max_left f1 f2) (Nat.le_max_left _ f3)),
            betaApp_mono L hf2 (Nat.le_trans (Nat.le_max_right f1 f2) (Nat.le_max_left _ f3))]
          have hbud : budget L (c + j1 + j2) = true := by
            apply budget_true_of
            by_cases h : L = 0
            · exact Or.inl h
            · exact Or.inr (by have := hle h; omega)
          simp only [hbud, if_true]
          rw [betaApp_mono L hf3 (Nat.le_max_right _ f3)]
          have e : c + j1 + j2 + 1 + (k - j1 - j2 - 1) = c + k := by omega
          rw [e]; simp

end Term
end LC
