/-
Refinement, completeness direction (DESIGN §6.3) for CBV: fuel monotonicity and
"whenever the strategy run exists the traversal returns it for some fuel".
Also the generic run-decomposition lemmas reused for APP and HAP.
-/
import LC.Proofs.Beta
import LC.Spec.NormalForms

namespace LC
namespace Term

/-! ### generic decomposition of a run from an application -/

/-- a run of `f` from `app l r`, where `f` first steps inside the operator by `g`:
`j` steps of `g` inside `l`, and the run goes on from `app l' r` only once `g l' = none` -/
theorem Iter.app_left_inv {f g : Term → Option Term}
    (hf : ∀ l l1 r, g l = some l1 → f (Term.app l r) = some (Term.app l1 r))
    {k : Nat} {l r t' : Term} (h : Iter f k (Term.app l r) t') :
    ∃ j l', j ≤ k ∧ Iter g j l l' ∧ (j < k → g l' = none) ∧ Iter f (k - j) (Term.app l' r) t' := by
  induction k generalizing l with
  | zero => exact ⟨0, l, Nat.le_refl _, Iter.zero _, fun h => absurd h (by omega), h⟩
  | succ k ih =>
    cases hg : g l with
    | none => exact ⟨0, l, by omega, Iter.zero _, fun _ => hg, h⟩
    | some l1 =>
      cases h with
      | succ hs hrest =>
        rw [hf _ _ _ hg] at hs
        cases hs
        obtain ⟨j, l', hj, it, hn, rest⟩ := ih hrest
        refine ⟨j + 1, l', by omega, Iter.succ hg it, fun h => hn (by omega), ?_⟩
        rw [show k + 1 - (j + 1) = k - j by omega]; exact rest

/-- a run of `f` from `app l r` with `l` fixed, where `f` steps inside the operand by `g` -/
theorem Iter.app_right_inv {f g : Term → Option Term} {l : Term}
    (hf : ∀ r r1, g r = some r1 → f (Term.app l r) = some (Term.app l r1))
    {k : Nat} {r t' : Term} (h : Iter f k (Term.app l r) t') :
    ∃ j r', j ≤ k ∧ Iter g j r r' ∧ (j < k → g r' = none) ∧ Iter f (k - j) (Term.app l r') t' := by
  induction k generalizing r with
  | zero => exact ⟨0, r, Nat.le_refl _, Iter.zero _, fun h => absurd h (by omega), h⟩
  | succ k ih =>
    cases hg : g r with
    | none => exact ⟨0, r, by omega, Iter.zero _, fun _ => hg, h⟩
    | some r1 =>
      cases h with
      | succ hs hrest =>
        rw [hf _ _ hg] at hs
        cases hs
        obtain ⟨j, r', hj, it, hn, rest⟩ := ih hrest
        refine ⟨j + 1, r', by omega, Iter.succ hg it, fun h => hn (by omega), ?_⟩
        rw [show k + 1 - (j + 1) = k - j by omega]; exact rest

/-- a run of `f` from `abs b` where `f` steps under the binder by itself -/
theorem Iter.abs_inv {f : Term → Option Term}
    (hf : ∀ b, f (Term.abs b) = (f b).map Term.abs)
    {k : Nat} {b t' : Term} (h : Iter f k (Term.abs b) t') :
    ∃ b', t' = Term.abs b' ∧ Iter f k b b' := by
  induction k generalizing b with
  | zero => cases h; exact ⟨b, rfl, Iter.zero _⟩
  | succ k ih =>
    cases h with
    | succ hs hrest =>
      rw [hf] at hs
      cases hb : f b with
      | none => simp [hb] at hs
      | some b1 =>
        simp [hb] at hs; subst hs
        obtain ⟨b', e, it⟩ := ih hrest
        exact ⟨b', e, Iter.succ hb it⟩

/-- budget check in terms of the arithmetic facts used in the completeness proofs -/
theorem budget_true_of {L c : Nat} (h : L = 0 ∨ c < L) : budget L c = true := by
  simp [budget]; exact h

theorem budget_false_of {L c : Nat} (h : ¬ (L = 0 ∨ c < L)) : budget L c = false := by
  cases hb : budget L c with
  | false => rfl
  | true => simp [budget] at hb; exact absurd hb h

/-! ### CBV -/

theorem betaCbv_mono1 (L : Nat) : ∀ fuel t c r, betaCbv L fuel t c = some r → betaCbv L (fuel+1) t c = some r := by
  intro fuel
  induction fuel with
  | zero => intro t c r h; simp [betaCbv] at h
  | succ fuel ih =>
    intro t c r h
    by_cases hg : gate L c = true
    · simp [betaCbv, hg] at h ⊢; exact h
    · cases t with
      | var i => simp [betaCbv, hg] at h ⊢; exact h
      | abs b => simp [betaCbv, hg] at h ⊢; exact h
      | app l r' =>
        rw [betaCbv] at h ⊢
        simp only [hg] at h ⊢
        cases hl : betaCbv L fuel l c with
        | none => simp [hl] at h
        | some p =>
          obtain ⟨l', c1⟩ := p
          simp only [ih _ _ _ hl]
          simp only [hl] at h
          cases hr : betaCbv L fuel r' c1 with
          | none => simp [hr] at h
          | some q =>
            obtain ⟨r2, c2⟩ := q
            simp only [ih _ _ _ hr]
            simp only [hr] at h
            cases l' with
            | var i => simpa using h
            | app a1 a2 => simpa using h
            | abs b =>
              simp only at h ⊢
              by_cases hb : budget L c2 = true
              · simp only [hb, if_true] at h ⊢; exact ih _ _ _ h
              · simp only [hb] at h ⊢; exact h

theorem betaCbv_mono (L : Nat) {f f' t c r} (h : betaCbv L f t c = some r) (hle : f ≤ f') : betaCbv L f' t c = some r := by
  induction hle with
  | refl => exact h
  | step _ ih => exact betaCbv_mono1 L _ _ _ _ ih

theorem stepCbv_app_none_cp {l r : Term} :
    stepCbv (Term.app l r) = none ↔ stepCbv l = none ∧ stepCbv r = none ∧ isAbs l = false := by
  simp only [stepCbv]
  cases hl : stepCbv l with
  | some l1 => simp
  | none =>
    cases hr : stepCbv r with
    | some r1 => simp
    | none => cases l <;> simp [isAbs]

theorem stepCbv_app_left_cp {l l1 : Term} (r : Term) (h : stepCbv l = some l1) :
    stepCbv (Term.app l r) = some (Term.app l1 r) := by
  simp [stepCbv, h]

theorem stepCbv_app_right_cp {l : Term} (hl : stepCbv l = none) {r r1 : Term} (h : stepCbv r = some r1) :
    stepCbv (Term.app l r) = some (Term.app l r1) := by
  simp [stepCbv, hl, h]

/-- a cbv run from an application: `j1` steps inside the operator, then (only once the operator is
cbv-normal) `j2` steps inside the operand, then (only once the operand is cbv-normal) either the run
is over or the operator is an abstraction, the root is contracted and the run goes on from the contractum -/
theorem Iter.cbv_app_inv {k : Nat} {l r t' : Term} (h : Iter stepCbv k (Term.app l r) t') :
    ∃ j1 j2 l' r', j1 + j2 ≤ k ∧ Iter stepCbv j1 l l' ∧ Iter stepCbv j2 r r' ∧
      (j1 < k → stepCbv l' = none) ∧ (j1 + j2 < k → stepCbv r' = none) ∧
      ((j1 + j2 = k ∧ t' = Term.app l' r') ∨
       (∃ b, j1 + j2 < k ∧ l' = Term.abs b ∧ Iter stepCbv (k - j1 - j2 - 1) (contract b r') t')) := by
  obtain ⟨j1, l', hj1, it1, hn1, rest1⟩ := Iter.app_left_inv (g := stepCbv) (fun l l1 r h => stepCbv_app_left_cp r h) h
  by_cases hlt1 : j1 < k
  · have hl' := hn1 hlt1
    obtain ⟨j2, r', hj2, it2, hn2, rest2⟩ :=
      Iter.app_right_inv (g := stepCbv) (fun r r1 h => stepCbv_app_right_cp hl' h) rest1
    by_cases hlt2 : j2 < k - j1
    · have hr' := hn2 hlt2
      refine ⟨j1, j2, l', r', by omega, it1, it2, hn1, fun _ => hr', Or.inr ?_⟩
      obtain ⟨m, hm⟩ : ∃ m, k - j1 - j2 = m + 1 := ⟨k - j1 - j2 - 1, by omega⟩
      rw [hm] at rest2
      cases rest2 with
      | succ hs hrest =>
        cases l' with
        | var i => simp [stepCbv, hr'] at hs
        | app a1 a2 =>
          have := (stepCbv_app_none_cp (l := Term.app a1 a2) (r := r')).2 ⟨hl', hr', rfl⟩
          rw [this] at hs; cases hs
        | abs b =>
          simp [stepCbv, hr'] at hs; subst hs
          exact ⟨b, by omega, rfl, by rw [show k - j1 - j2 - 1 = m by omega]; exact hrest⟩
    · have e : k - j1 - j2 = 0 := by omega
      rw [e] at rest2; cases rest2
      exact ⟨j1, j2, l', r', by omega, it1, it2, hn1, fun h => absurd h (by omega), Or.inl ⟨by omega, rfl⟩⟩
  · have e : k - j1 = 0 := by omega
    rw [e] at rest1; cases rest1
    exact ⟨j1, 0, l', r, by omega, it1, Iter.zero _, hn1, fun h => absurd h (by omega), Or.inl ⟨by omega, rfl⟩⟩

theorem betaCbv_complete (L : Nat) : ∀ k t t' c, Iter stepCbv k t t' → (L = 0 → stepCbv t' = none) →
    (L ≠ 0 → c + k ≤ L ∧ (c + k < L → stepCbv t' = none)) → ∃ fuel, betaCbv L fuel t c = some (t', c + k) := by
  intro k
  induction k using Nat.strongRecOn with
  | _ k ihk =>
    intro t
    induction t with
    | var i =>
      intro t' c it _ _
      cases it with
      | zero => exact ⟨1, by simp [betaCbv]⟩
      | succ hs _ => simp [stepCbv] at hs
    | abs b _ =>
      intro t' c it _ _
      cases it with
      | zero => exact ⟨1, by simp [betaCbv]⟩
      | succ hs _ => simp [stepCbv] at hs
    | app l r ihl ihr =>
      intro t' c it h0 hL
      by_cases hg : gate L c = true
      · -- gate closed: k = 0
        simp [gate] at hg
        have hk : k = 0 := by have := (hL hg.1).1; omega
        subst hk; cases it
        exact ⟨1, by simp [betaCbv, gate, hg]⟩
      · have hfin : (L = 0 ∨ c + k < L) → stepCbv t' = none := by
          intro hb
          rcases hb with hb | hb
          · exact h0 hb
          · exact (hL (by omega)).2 hb
        have hle : L ≠ 0 → c + k ≤ L := fun h => (hL h).1
        -- induction hypotheses for the two immediate subterms, for every run length ≤ k
        have IHl : ∀ m, m ≤ k → ∀ t' c, Iter stepCbv m l t' → (L = 0 → stepCbv t' = none) →
            (L ≠ 0 → c + m ≤ L ∧ (c + m < L → stepCbv t' = none)) →
            ∃ fuel, betaCbv L fuel l c = some (t', c + m) := by
          intro m hm
          rcases Nat.lt_or_eq_of_le hm with h | h
          · exact ihk m h l
          · subst h; exact ihl
        have IHr : ∀ m, m ≤ k → ∀ t' c, Iter stepCbv m r t' → (L = 0 → stepCbv t' = none) →
            (L ≠ 0 → c + m ≤ L ∧ (c + m < L → stepCbv t' = none)) →
            ∃ fuel, betaCbv L fuel r c = some (t', c + m) := by
          intro m hm
          rcases Nat.lt_or_eq_of_le hm with h | h
          · exact ihk m h r
          · subst h; exact ihr
        obtain ⟨j1, j2, l', r', hj, it1, it2, hn1, hn2, fin⟩ := it.cbv_app_inv
        -- the operator
        have hl'none : (L = 0 ∨ c + j1 < L) → stepCbv l' = none := by
          intro hb
          by_cases hlt : j1 < k
          · exact hn1 hlt
          · rcases fin with ⟨_, rfl⟩ | ⟨b, hlt', _⟩
            · exact (stepCbv_app_none_cp.1 (hfin (by omega))).1
            · omega
        obtain ⟨f1, hf1⟩ := IHl j1 (by omega) l' c it1 (fun h => hl'none (Or.inl h))
          (fun h => ⟨by have := hle h; omega, fun hlt => hl'none (Or.inr hlt)⟩)
        -- the operand
        have hr'none : (L = 0 ∨ c + j1 + j2 < L) → stepCbv r' = none := by
          intro hb
          by_cases hlt : j1 + j2 < k
          · exact hn2 hlt
          · rcases fin with ⟨_, rfl⟩ | ⟨b, hlt', _⟩
            · exact (stepCbv_app_none_cp.1 (hfin (by omega))).2.1
            · omega
        obtain ⟨f2, hf2⟩ := IHr j2 (by omega) r' (c + j1) it2 (fun h => hr'none (Or.inl h))
          (fun h => ⟨by have := hle h; omega, fun hlt => hr'none (Or.inr hlt)⟩)
        rcases fin with ⟨hk, rfl⟩ | ⟨b, hlt, rfl, it3⟩
        · -- the run ends inside the operator/operand
          refine ⟨max f1 f2 + 1, ?_⟩
          unfold betaCbv
          simp only [hg, betaCbv_mono L hf1 (Nat.le_max_left f1 f2),
            betaCbv_mono L hf2 (Nat.le_max_right f1 f2)]
          have e : c + j1 + j2 = c + k := by omega
          rw [e]
          cases l' with
          | var i => simp
          | app a1 a2 => simp
          | abs b =>
            have hnb : budget L (c + k) = false := by
              apply budget_false_of
              intro hb
              have := (stepCbv_app_none_cp.1 (hfin hb)).2.2
              simp [isAbs] at this
            simp [hnb]
        · -- root contraction, then the rest of the run from the contractum
          obtain ⟨f3, hf3⟩ := ihk (k - j1 - j2 - 1) (by omega) (contract b r') t' (c + j1 + j2 + 1) it3 h0
            (fun h => ⟨by have := hle h; omega, fun hlt => (hL h).2 (by omega)⟩)
          refine ⟨max (max f1 f2) f3 + 1, ?_⟩
          unfold betaCbv
          simp only [hg, betaCbv_mono L hf1 (Nat.le_trans (Nat.le_max_left f1 f2) (Nat.le_max_left _ f3)),
            betaCbv_mono L hf2 (Nat.le_trans (Nat.le_max_right f1 f2) (Nat.le_max_left _ f3))]
          have hbud : budget L (c + j1 + j2) = true := by
            apply budget_true_of
            by_cases h : L = 0
            · exact Or.inl h
            · exact Or.inr (by have := hle h; omega)
          simp only [hbud, if_true]
          rw [betaCbv_mono L hf3 (Nat.le_max_right _ f3)]
          have e : c + j1 + j2 + 1 + (k - j1 - j2 - 1) = c + k := by omega
          rw [e]; simp

end Term
end LC
