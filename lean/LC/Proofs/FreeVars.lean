/-
C08: β-reduction never creates or renumbers free variables, and never creates `UD`.
-/
import LC.Spec.FreeVars
import LC.Proofs.Beta

namespace LC
open Term Spec

namespace Spec

/-! ### shifting -/

theorem freeInAux_shiftFV (a o d j : Nat) (hj : 1 ≤ j) (ho : o ≤ d) (t : Term) :
    freeInAux (d + a) j (shiftFV a o t) = freeInAux d j t := by
  induction t generalizing o d with
  | var i => grind [freeInAux, shiftFV]
  | abs b ih =>
    simp only [freeInAux, shiftFV]
    rw [show d + a + 1 = (d + 1) + a by omega, ih (o + 1) (d + 1) (by omega)]
  | app l r ihl ihr => simp [freeInAux, shiftFV, ihl o d ho, ihr o d ho]

theorem hasUD_shiftFV (a o : Nat) (t : Term) : hasUD (shiftFV a o t) = hasUD t := by
  induction t generalizing o with
  | var i => grind [hasUD, shiftFV]
  | abs b ih => simp [hasUD, shiftFV, ih]
  | app l r ihl ihr => simp [hasUD, shiftFV, ihl, ihr]

/-! ### substitution -/

theorem freeInAux_applyAux (r : Term) (e d j : Nat) (hj : 1 ≤ j) (he : 1 ≤ e) (hed : e ≤ d + 1) (t : Term)
    (h : freeInAux d j (applyAux r e t) = true) :
    freeInAux (d + 1) j t = true ∨ freeInAux (d + 1 - e) j r = true := by
  induction t generalizing e d with
  | var i =>
    by_cases hi : i = e
    · right
      have h1 : d = (d + 1 - e) + (e - 1) := by omega
      simp only [applyAux, hi, if_true] at h
      rw [h1, freeInAux_shiftFV _ _ _ _ hj (by omega)] at h
      exact h
    · left
      grind [freeInAux, applyAux]
  | abs b ih =>
    simp only [freeInAux, applyAux] at h ⊢
    have := ih (e + 1) (d + 1) (by omega) (by omega) h
    rw [show d + 1 + 1 - (e + 1) = d + 1 - e by omega] at this
    exact this
  | app l s ihl ihs =>
    simp only [freeInAux, applyAux, Bool.or_eq_true] at h ⊢
    rcases h with h | h
    · rcases ihl e d he hed h with h' | h'
      · exact Or.inl (Or.inl h')
      · exact Or.inr h'
    · rcases ihs e d he hed h with h' | h'
      · exact Or.inl (Or.inr h')
      · exact Or.inr h'

theorem hasUD_applyAux (r : Term) (e : Nat) (he : 1 ≤ e) (t : Term)
    (h : hasUD (applyAux r e t) = true) : hasUD t = true ∨ hasUD r = true := by
  induction t generalizing e with
  | var i =>
    by_cases hi : i = e
    · right
      simp only [applyAux, hi, if_true, hasUD_shiftFV] at h
      exact h
    · left
      grind [hasUD, applyAux]
  | abs b ih =>
    simp only [hasUD, applyAux] at h ⊢
    exact ih (e + 1) (by omega) h
  | app l s ihl ihs =>
    simp only [hasUD, applyAux, Bool.or_eq_true] at h ⊢
    rcases h with h | h
    · rcases ihl e he h with h' | h'
      · exact Or.inl (Or.inl h')
      · exact Or.inr h'
    · rcases ihs e he h with h' | h'
      · exact Or.inl (Or.inr h')
      · exact Or.inr h'

/-- contraction at an arbitrary context depth -/
theorem freeInAux_substTop (d j : Nat) (hj : 1 ≤ j) (b a : Term)
    (h : freeInAux d j (substTop b a) = true) :
    freeInAux d j (abs b) = true ∨ freeInAux d j a = true := by
  rw [substTop_eq] at h
  have := freeInAux_applyAux a 1 d j hj (by omega) (by omega) b h
  simpa [freeInAux] using this

theorem freeIn_substTop {j : Nat} {b a : Term} (h : FreeIn j (substTop b a)) :
    FreeIn j (abs b) ∨ FreeIn j a := by
  rcases freeInAux_substTop 0 j h.1 b a h.2 with h' | h'
  · exact Or.inl ⟨h.1, h'⟩
  · exact Or.inr ⟨h.1, h'⟩

theorem hasUD_substTop {b a : Term} (h : hasUD (substTop b a) = true) :
    hasUD b = true ∨ hasUD a = true := by
  rw [substTop_eq] at h
  exact hasUD_applyAux a 1 (by omega) b h

/-! ### one step, many steps -/

theorem freeInAux_beta {t u : Term} (hb : Beta t u) (d j : Nat) (hj : 1 ≤ j)
    (h : freeInAux d j u = true) : freeInAux d j t = true := by
  induction hb generalizing d with
  | red b a =>
    have := freeInAux_substTop d j hj b a h
    simpa [freeInAux] using this
  | congAbs _ ih =>
    simp only [freeInAux] at h ⊢
    exact ih (d + 1) h
  | congAppL _ ih =>
    simp only [freeInAux, Bool.or_eq_true] at h ⊢
    exact h.imp (ih d) id
  | congAppR _ ih =>
    simp only [freeInAux, Bool.or_eq_true] at h ⊢
    exact h.imp id (ih d)

theorem freeIn_beta {j : Nat} {t u : Term} (hb : Beta t u) (h : FreeIn j u) : FreeIn j t :=
  ⟨h.1, freeInAux_beta hb 0 j h.1 h.2⟩

theorem hasUD_beta {t u : Term} (hb : Beta t u) (h : hasUD u = true) : hasUD t = true := by
  induction hb with
  | red b a =>
    have := hasUD_substTop h
    simpa [hasUD] using this
  | congAbs _ ih =>
    simp only [hasUD] at h ⊢
    exact ih h
  | congAppL _ ih =>
    simp only [hasUD, Bool.or_eq_true] at h ⊢
    exact h.imp ih id
  | congAppR _ ih =>
    simp only [hasUD, Bool.or_eq_true] at h ⊢
    exact h.imp id ih

theorem freeIn_star {j : Nat} {t u : Term} (hs : Star t u) (h : FreeIn j u) : FreeIn j t := by
  induction hs with
  | refl _ => exact h
  | head hb _ ih => exact freeIn_beta hb (ih h)

theorem hasUD_star {t u : Term} (hs : Star t u) (h : hasUD u = true) : hasUD t = true := by
  induction hs with
  | refl _ => exact h
  | head hb _ ih => exact hasUD_beta hb (ih h)

/-! ### the model's `has_free_variables` -/

theorem hasFreeVariablesHelper_iff (d : Nat) (t : Term) :
    hasFreeVariablesHelper d t = true ↔
      ((∃ j, 1 ≤ j ∧ freeInAux d j t = true) ∨ hasUD t = true) := by
  induction t generalizing d with
  | var x =>
    simp only [hasFreeVariablesHelper, freeInAux, hasUD, Bool.or_eq_true, decide_eq_true_eq,
      beq_iff_eq]
    constructor
    · rintro (h | h)
      · exact Or.inl ⟨x - d, by omega, by omega⟩
      · exact Or.inr h
    · rintro (⟨j, h1, h2⟩ | h)
      · exact Or.inl (by omega)
      · exact Or.inr h
  | abs b ih =>
    simp only [hasFreeVariablesHelper, freeInAux, hasUD]
    exact ih (d + 1)
  | app l r ihl ihr =>
    simp only [hasFreeVariablesHelper, freeInAux, hasUD, Bool.or_eq_true, ihl d, ihr d]
    constructor
    · rintro ((⟨j, h1, h2⟩ | h) | (⟨j, h1, h2⟩ | h))
      · exact Or.inl ⟨j, h1, Or.inl h2⟩
      · exact Or.inr (Or.inl h)
      · exact Or.inl ⟨j, h1, Or.inr h2⟩
      · exact Or.inr (Or.inr h)
    · rintro (⟨j, h1, h2 | h2⟩ | h | h)
      · exact Or.inl (Or.inl ⟨j, h1, h2⟩)
      · exact Or.inr (Or.inl ⟨j, h1, h2⟩)
      · exact Or.inl (Or.inr h)
      · exact Or.inr (Or.inr h)

/-- the model's `has_free_variables` is "some free variable or UD occurs" -/
theorem hasFreeVariables_iff (t : Term) :
    hasFreeVariables t = true ↔ ((∃ j, FreeIn j t) ∨ hasUD t = true) :=
  hasFreeVariablesHelper_iff 0 t

theorem closed_star {t u : Term} (hs : Star t u) (h : hasFreeVariables t = false) :
    hasFreeVariables u = false := by
  cases hu : hasFreeVariables u with
  | false => rfl
  | true =>
    have ht : hasFreeVariables t = true := by
      rw [hasFreeVariables_iff] at hu ⊢
      rcases hu with ⟨j, hj⟩ | hu
      · exact Or.inl ⟨j, freeIn_star hs hj⟩
      · exact Or.inr (hasUD_star hs hu)
    rw [h] at ht; cases ht

end Spec
end LC
