/-
The small-step strategy functions select exactly the redexes described positionally in
`LC/Spec/Selection.lean`.
-/
import LC.Spec.Selection
import LC.Proofs.Beta

namespace LC
namespace Spec
open Term

/-! ### `subAt` under each constructor -/

/-- the binder counter is only carried along -/
theorem subAtAux_shift (k : Nat) (t : Term) (p : Pos) :
    subAtAux k t p = (subAtAux 0 t p).map (fun x => (x.1, x.2 + k)) := by
  induction p generalizing t k with
  | nil => simp [subAtAux]
  | cons d p ih =>
    cases t with
    | var n => simp [subAtAux]
    | abs b =>
      cases d <;> simp [subAtAux]
      rw [ih (k + 1), ih 1]; cases subAtAux 0 b p <;> simp; omega
    | app l r =>
      cases d <;> simp [subAtAux] <;> exact ih _ _

theorem subAt_nil (t : Term) : subAt t [] = some (t, 0) := by simp [subAt, subAtAux]

theorem subAt_var_cons (n : Nat) (d : Dir) (p : Pos) : subAt (var n) (d :: p) = none := by
  simp [subAt, subAtAux]

theorem subAt_abs_B (b : Term) (p : Pos) :
    subAt (abs b) (Dir.B :: p) = (subAt b p).map (fun x => (x.1, x.2 + 1)) := by
  simp only [subAt, subAtAux]; rw [subAtAux_shift]

theorem subAt_abs_L (b : Term) (p : Pos) : subAt (abs b) (Dir.L :: p) = none := by
  simp [subAt, subAtAux]

theorem subAt_abs_R (b : Term) (p : Pos) : subAt (abs b) (Dir.R :: p) = none := by
  simp [subAt, subAtAux]

theorem subAt_app_L (l r : Term) (p : Pos) : subAt (app l r) (Dir.L :: p) = subAt l p := by
  simp [subAt, subAtAux]

theorem subAt_app_R (l r : Term) (p : Pos) : subAt (app l r) (Dir.R :: p) = subAt r p := by
  simp [subAt, subAtAux]

theorem subAt_app_B (l r : Term) (p : Pos) : subAt (app l r) (Dir.B :: p) = none := by
  simp [subAt, subAtAux]

/-! ### `redexAt` under each constructor -/

theorem redexAt_var {n : Nat} {p : Pos} : ¬ redexAt (var n) p := by
  rintro ⟨b, a, k, h⟩
  cases p with
  | nil => simp [subAt_nil] at h
  | cons d p => simp [subAt_var_cons] at h

theorem redexAt_abs_B {b : Term} {p : Pos} : redexAt (abs b) (Dir.B :: p) ↔ redexAt b p := by
  unfold redexAt
  rw [subAt_abs_B]
  constructor
  · rintro ⟨b', a, k, h⟩
    cases hs : subAt b p with
    | none => simp [hs] at h
    | some x =>
      obtain ⟨s, n⟩ := x
      simp only [hs, Option.map_some, Option.some.injEq, Prod.mk.injEq] at h
      exact ⟨b', a, n, by rw [h.1]⟩
  · rintro ⟨b', a, k, h⟩
    exact ⟨b', a, k + 1, by simp [h]⟩

theorem redexAt_abs_iff {b : Term} {p : Pos} :
    redexAt (abs b) p ↔ ∃ p', p = Dir.B :: p' ∧ redexAt b p' := by
  constructor
  · intro h
    cases p with
    | nil => obtain ⟨b', a, k, h⟩ := h; simp [subAt_nil] at h
    | cons d p =>
      cases d with
      | B => exact ⟨p, rfl, redexAt_abs_B.1 h⟩
      | L => obtain ⟨b', a, k, h⟩ := h; simp [subAt_abs_L] at h
      | R => obtain ⟨b', a, k, h⟩ := h; simp [subAt_abs_R] at h
  · rintro ⟨p', rfl, h⟩
    exact redexAt_abs_B.2 h

theorem redexAt_app_nil {l r : Term} : redexAt (app l r) [] ↔ ∃ b, l = abs b := by
  unfold redexAt
  rw [subAt_nil]
  constructor
  · rintro ⟨b, a, k, h⟩
    simp only [Option.some.injEq, Prod.mk.injEq, app.injEq] at h
    exact ⟨b, h.1.1⟩
  · rintro ⟨b, rfl⟩
    exact ⟨b, r, 0, rfl⟩

theorem redexAt_app_L {l r : Term} {p : Pos} : redexAt (app l r) (Dir.L :: p) ↔ redexAt l p := by
  unfold redexAt; rw [subAt_app_L]

theorem redexAt_app_R {l r : Term} {p : Pos} : redexAt (app l r) (Dir.R :: p) ↔ redexAt r p := by
  unfold redexAt; rw [subAt_app_R]

theorem redexAt_app_B {l r : Term} {p : Pos} : ¬ redexAt (app l r) (Dir.B :: p) := by
  rintro ⟨b, a, k, h⟩; simp [subAt_app_B] at h

/-! ### `contractAt` under each constructor -/

theorem contractAt_root (b a : Term) : contractAt (app (abs b) a) [] = substTop b a := by
  simp [contractAt, subAt_nil, replaceAt]

theorem contractAt_app_L (l r : Term) (p : Pos) :
    contractAt (app l r) (Dir.L :: p) = app (contractAt l p) r := by
  unfold contractAt
  rw [subAt_app_L]
  split <;> simp [replaceAt]

theorem contractAt_app_R (l r : Term) (p : Pos) :
    contractAt (app l r) (Dir.R :: p) = app l (contractAt r p) := by
  unfold contractAt
  rw [subAt_app_R]
  split <;> simp [replaceAt]

theorem contractAt_abs_B (b : Term) (p : Pos) :
    contractAt (abs b) (Dir.B :: p) = abs (contractAt b p) := by
  unfold contractAt
  rw [subAt_abs_B]
  cases hs : subAt b p with
  | none => simp
  | some x =>
    obtain ⟨s, n⟩ := x
    simp only [Option.map_some]
    split <;> simp_all [replaceAt]

/-! ### the orders on positions -/

theorem leftOf_cons {d e : Dir} {p q : Pos} :
    leftOf (d :: p) (e :: q) ↔ (d = Dir.L ∧ e = Dir.R) ∨ (d = e ∧ leftOf p q) := by
  constructor
  · rintro ⟨r, p', q', hp, hq⟩
    cases r with
    | nil =>
      simp only [List.nil_append, List.cons.injEq] at hp hq
      exact Or.inl ⟨hp.1, hq.1⟩
    | cons c r =>
      simp only [List.cons_append, List.cons.injEq] at hp hq
      exact Or.inr ⟨hp.1.trans hq.1.symm, r, p', q', hp.2, hq.2⟩
  · rintro (⟨rfl, rfl⟩ | ⟨rfl, r, p', q', rfl, rfl⟩)
    · exact ⟨[], p, q, rfl, rfl⟩
    · exact ⟨d :: r, p', q', rfl, rfl⟩

theorem not_leftOf_nil_left {q : Pos} : ¬ leftOf [] q := by
  rintro ⟨r, p', q', hp, _⟩
  cases r <;> simp at hp

theorem not_leftOf_nil_right {p : Pos} : ¬ leftOf p [] := by
  rintro ⟨r, p', q', _, hq⟩
  cases r <;> simp at hq

theorem leftOf_asymm {p q : Pos} : leftOf p q → ¬ leftOf q p := by
  induction p generalizing q with
  | nil => intro h; exact absurd h not_leftOf_nil_left
  | cons d p ih =>
    cases q with
    | nil => intro h; exact absurd h not_leftOf_nil_right
    | cons e q =>
      rw [leftOf_cons, leftOf_cons]
      rintro (⟨rfl, rfl⟩ | ⟨rfl, h⟩) (⟨h1, h2⟩ | ⟨_, h'⟩)
      · cases h1
      · rename_i h1; cases h1
      · cases h1.symm.trans h2
      · exact ih h h'

theorem before_nil_left {q : Pos} : before [] q ↔ q ≠ [] := by
  unfold before
  constructor
  · rintro (⟨s, hs, rfl⟩ | h)
    · simpa using hs
    · exact absurd h not_leftOf_nil_left
  · intro h; exact Or.inl ⟨q, h, rfl⟩

theorem not_before_nil_right {p : Pos} : ¬ before p [] := by
  rintro (⟨s, hs, h⟩ | h)
  · cases p with
    | nil => exact hs (by simpa using h.symm)
    | cons d p => simp at h
  · exact not_leftOf_nil_right h

theorem before_cons {d e : Dir} {p q : Pos} :
    before (d :: p) (e :: q) ↔ (d = Dir.L ∧ e = Dir.R) ∨ (d = e ∧ before p q) := by
  unfold before
  rw [leftOf_cons]
  constructor
  · rintro (⟨s, hs, h⟩ | h | h)
    · simp only [List.cons_append, List.cons.injEq] at h
      exact Or.inr ⟨h.1.symm, Or.inl ⟨s, hs, h.2⟩⟩
    · exact Or.inl h
    · exact Or.inr ⟨h.1, Or.inr h.2⟩
  · rintro (h | ⟨rfl, ⟨s, hs, rfl⟩ | h⟩)
    · exact Or.inr (Or.inl h)
    · exact Or.inl ⟨s, hs, rfl⟩
    · exact Or.inr (Or.inr ⟨rfl, h⟩)

theorem before_asymm {p q : Pos} : before p q → ¬ before q p := by
  induction p generalizing q with
  | nil => intro _ h; exact not_before_nil_right h
  | cons d p ih =>
    cases q with
    | nil => intro h; exact absurd h not_before_nil_right
    | cons e q =>
      rw [before_cons, before_cons]
      rintro (⟨rfl, rfl⟩ | ⟨rfl, h⟩) (⟨h1, h2⟩ | ⟨h1, h'⟩)
      · cases h1
      · cases h1
      · cases h1.symm.trans h2
      · exact ih h h'

/-! ### leftmost-outermost: `stepNor`, `stepCbn` -/

theorem isLMO_root (b a : Term) : isLMO (app (abs b) a) [] := by
  refine ⟨redexAt_app_nil.2 ⟨b, rfl⟩, fun q _ => ?_⟩
  cases q with
  | nil => exact Or.inl rfl
  | cons d q => exact Or.inr (before_nil_left.2 (by simp))

theorem isLMO_abs_B {b : Term} {p : Pos} : isLMO (abs b) (Dir.B :: p) ↔ isLMO b p := by
  constructor
  · rintro ⟨h1, h2⟩
    refine ⟨redexAt_abs_B.1 h1, fun q hq => ?_⟩
    simpa [before_cons] using h2 (Dir.B :: q) (redexAt_abs_B.2 hq)
  · rintro ⟨h1, h2⟩
    refine ⟨redexAt_abs_B.2 h1, fun q hq => ?_⟩
    obtain ⟨q', rfl, hq'⟩ := redexAt_abs_iff.1 hq
    simpa [before_cons] using h2 q' hq'

theorem isLMO_of_app_L {l r : Term} {p : Pos} (h : isLMO (app l r) (Dir.L :: p)) : isLMO l p := by
  obtain ⟨h1, h2⟩ := h
  refine ⟨redexAt_app_L.1 h1, fun q hq => ?_⟩
  simpa [before_cons] using h2 (Dir.L :: q) (redexAt_app_L.2 hq)

theorem isLMO_app_L {l r : Term} {p : Pos} (hl : ∀ b, l ≠ abs b) (h : isLMO l p) :
    isLMO (app l r) (Dir.L :: p) := by
  obtain ⟨h1, h2⟩ := h
  refine ⟨redexAt_app_L.2 h1, fun q hq => ?_⟩
  cases q with
  | nil => obtain ⟨b, hb⟩ := redexAt_app_nil.1 hq; exact absurd hb (hl b)
  | cons d q =>
    cases d with
    | L => simpa [before_cons] using h2 q (redexAt_app_L.1 hq)
    | R => simp [before_cons]
    | B => exact absurd hq redexAt_app_B

theorem isLMO_app_R {l r : Term} {p : Pos} (hl : ∀ b, l ≠ abs b) (hn : ∀ q, ¬ redexAt l q)
    (h : isLMO r p) : isLMO (app l r) (Dir.R :: p) := by
  obtain ⟨h1, h2⟩ := h
  refine ⟨redexAt_app_R.2 h1, fun q hq => ?_⟩
  cases q with
  | nil => obtain ⟨b, hb⟩ := redexAt_app_nil.1 hq; exact absurd hb (hl b)
  | cons d q =>
    cases d with
    | L => exact absurd (redexAt_app_L.1 hq) (hn q)
    | R => simpa [before_cons] using h2 q (redexAt_app_R.1 hq)
    | B => exact absurd hq redexAt_app_B

theorem stepNor_app_of_not_abs {l : Term} (r : Term) (hl : ∀ b, l ≠ abs b) :
    stepNor (app l r) =
      match stepNor l with
      | some l' => some (app l' r)
      | none => (stepNor r).map (app l) := by
  cases l with
  | var n => simp [stepNor]
  | abs b => exact absurd rfl (hl b)
  | app l1 l2 => simp only [stepNor]; cases stepNor (app l1 l2) <;> rfl

theorem stepNor_positional (t : Term) :
    (∀ t', stepNor t = some t' → ∃ p, isLMO t p ∧ t' = contractAt t p) ∧
    (stepNor t = none → ∀ p, ¬ redexAt t p) := by
  induction t with
  | var n => exact ⟨by simp [stepNor], fun _ p => redexAt_var⟩
  | abs b ih =>
    obtain ⟨ih1, ih2⟩ := ih
    cases hb : stepNor b with
    | none =>
      refine ⟨by simp [stepNor, hb], fun _ p hp => ?_⟩
      obtain ⟨p', rfl, hp'⟩ := redexAt_abs_iff.1 hp
      exact ih2 hb p' hp'
    | some b' =>
      refine ⟨fun t' h => ?_, by simp [stepNor, hb]⟩
      simp only [stepNor, hb, Option.map_some, Option.some.injEq] at h
      subst h
      obtain ⟨p, hp, rfl⟩ := ih1 b' hb
      exact ⟨Dir.B :: p, isLMO_abs_B.2 hp, (contractAt_abs_B b p).symm⟩
  | app l r ihl ihr =>
    by_cases hl : ∃ b, l = abs b
    · obtain ⟨b, rfl⟩ := hl
      refine ⟨fun t' h => ?_, by simp [stepNor]⟩
      simp only [stepNor, Option.some.injEq] at h
      subst h
      exact ⟨[], isLMO_root b r, by rw [contractAt_root, contract_eq_substTop]⟩
    · have hl' : ∀ b, l ≠ abs b := fun b hb => hl ⟨b, hb⟩
      rw [stepNor_app_of_not_abs r hl']
      cases hsl : stepNor l with
      | some l' =>
        refine ⟨fun t' h => ?_, by simp⟩
        simp only [Option.some.injEq] at h
        subst h
        obtain ⟨p, hp, rfl⟩ := ihl.1 l' hsl
        exact ⟨Dir.L :: p, isLMO_app_L hl' hp, (contractAt_app_L l r p).symm⟩
      | none =>
        have nl := ihl.2 hsl
        cases hsr : stepNor r with
        | some r' =>
          refine ⟨fun t' h => ?_, by simp⟩
          simp only [Option.map_some, Option.some.injEq] at h
          subst h
          obtain ⟨p, hp, rfl⟩ := ihr.1 r' hsr
          exact ⟨Dir.R :: p, isLMO_app_R hl' nl hp, (contractAt_app_R l r p).symm⟩
        | none =>
          have nr := ihr.2 hsr
          refine ⟨by simp, fun _ p hp => ?_⟩
          cases p with
          | nil => exact hl (redexAt_app_nil.1 hp)
          | cons d p =>
            cases d with
            | L => exact nl p (redexAt_app_L.1 hp)
            | R => exact nr p (redexAt_app_R.1 hp)
            | B => exact redexAt_app_B hp

theorem stepCbn_app_of_not_abs {l : Term} (r : Term) (hl : ∀ b, l ≠ abs b) :
    stepCbn (app l r) = (stepCbn l).map (fun l' => app l' r) := by
  cases l with
  | var n => simp [stepCbn]
  | abs b => exact absurd rfl (hl b)
  | app l1 l2 => simp [stepCbn]

theorem stepCbn_positional (t : Term) :
    (∀ t', stepCbn t = some t' → ∃ p, isLMO t p ∧ spineL p ∧ t' = contractAt t p) ∧
    (stepCbn t = none → ∀ p, isLMO t p → ¬ spineL p) := by
  induction t with
  | var n => exact ⟨by simp [stepCbn], fun _ p hp => absurd hp.1 redexAt_var⟩
  | abs b _ =>
    refine ⟨by simp [stepCbn], fun _ p hp hs => ?_⟩
    obtain ⟨p', rfl, _⟩ := redexAt_abs_iff.1 hp.1
    simpa using hs Dir.B (by simp)
  | app l r ihl _ =>
    by_cases hl : ∃ b, l = abs b
    · obtain ⟨b, rfl⟩ := hl
      refine ⟨fun t' h => ?_, by simp [stepCbn]⟩
      simp only [stepCbn, Option.some.injEq] at h
      subst h
      exact ⟨[], isLMO_root b r, by simp [spineL], by rw [contractAt_root, contract_eq_substTop]⟩
    · have hl' : ∀ b, l ≠ abs b := fun b hb => hl ⟨b, hb⟩
      rw [stepCbn_app_of_not_abs r hl']
      cases hsl : stepCbn l with
      | some l' =>
        refine ⟨fun t' h => ?_, by simp⟩
        simp only [Option.map_some, Option.some.injEq] at h
        subst h
        obtain ⟨p, hp, hs, rfl⟩ := ihl.1 l' hsl
        refine ⟨Dir.L :: p, isLMO_app_L hl' hp, ?_, (contractAt_app_L l r p).symm⟩
        intro d hd
        rcases List.mem_cons.1 hd with rfl | hd
        · rfl
        · exact hs d hd
      | none =>
        refine ⟨by simp, fun _ p hp hs => ?_⟩
        cases p with
        | nil => exact hl (redexAt_app_nil.1 hp.1)
        | cons d p =>
          have hd : d = Dir.L := hs d (by simp)
          subst hd
          exact ihl.2 hsl p (isLMO_of_app_L hp) (fun d hd => hs d (List.mem_cons_of_mem _ hd))

/-! ### leftmost-innermost: `stepApp` -/

theorem innermost_abs_B {b : Term} {p : Pos} : innermost (abs b) (Dir.B :: p) ↔ innermost b p := by
  simp only [innermost, List.cons_append, redexAt_abs_B]

theorem innermost_app_L {l r : Term} {p : Pos} :
    innermost (app l r) (Dir.L :: p) ↔ innermost l p := by
  simp only [innermost, List.cons_append, redexAt_app_L]

theorem innermost_app_R {l r : Term} {p : Pos} :
    innermost (app l r) (Dir.R :: p) ↔ innermost r p := by
  simp only [innermost, List.cons_append, redexAt_app_R]

theorem innermost_app_nil {l r : Term} :
    innermost (app l r) [] ↔
      (∃ b, l = abs b) ∧ (∀ q, ¬ redexAt l q) ∧ (∀ q, ¬ redexAt r q) := by
  simp only [innermost, List.nil_append, redexAt_app_nil]
  constructor
  · rintro ⟨h1, h2⟩
    exact ⟨h1, fun q hq => h2 (Dir.L :: q) (by simp) (redexAt_app_L.2 hq),
      fun q hq => h2 (Dir.R :: q) (by simp) (redexAt_app_R.2 hq)⟩
  · rintro ⟨h1, h2, h3⟩
    refine ⟨h1, fun s hs hr => ?_⟩
    cases s with
    | nil => exact hs rfl
    | cons d s =>
      cases d with
      | L => exact h2 s (redexAt_app_L.1 hr)
      | R => exact h3 s (redexAt_app_R.1 hr)
      | B => exact redexAt_app_B hr

theorem isLMI_abs_B {b : Term} {p : Pos} (h : isLMI b p) : isLMI (abs b) (Dir.B :: p) := by
  obtain ⟨h1, h2⟩ := h
  refine ⟨innermost_abs_B.2 h1, fun q hq => ?_⟩
  obtain ⟨q', rfl, _⟩ := redexAt_abs_iff.1 hq.1
  simpa [leftOf_cons] using h2 q' (innermost_abs_B.1 hq)

theorem isLMI_app_L {l r : Term} {p : Pos} (h : isLMI l p) : isLMI (app l r) (Dir.L :: p) := by
  obtain ⟨h1, h2⟩ := h
  refine ⟨innermost_app_L.2 h1, fun q hq => ?_⟩
  cases q with
  | nil => exact absurd h1.1 ((innermost_app_nil.1 hq).2.1 p)
  | cons d q =>
    cases d with
    | L => simpa [leftOf_cons] using h2 q (innermost_app_L.1 hq)
    | R => simp [leftOf_cons]
    | B => exact absurd hq.1 redexAt_app_B

theorem isLMI_app_R {l r : Term} {p : Pos} (hn : ∀ q, ¬ redexAt l q) (h : isLMI r p) :
    isLMI (app l r) (Dir.R :: p) := by
  obtain ⟨h1, h2⟩ := h
  refine ⟨innermost_app_R.2 h1, fun q hq => ?_⟩
  cases q with
  | nil => exact absurd h1.1 ((innermost_app_nil.1 hq).2.2 p)
  | cons d q =>
    cases d with
    | L => exact absurd (redexAt_app_L.1 hq.1) (hn q)
    | R => simpa [leftOf_cons] using h2 q (innermost_app_R.1 hq)
    | B => exact absurd hq.1 redexAt_app_B

theorem isLMI_app_nil {b r : Term} (hl : ∀ q, ¬ redexAt (abs b) q) (hr : ∀ q, ¬ redexAt r q) :
    isLMI (app (abs b) r) [] := by
  refine ⟨innermost_app_nil.2 ⟨⟨b, rfl⟩, hl, hr⟩, fun q hq => ?_⟩
  cases q with
  | nil => exact Or.inl rfl
  | cons d q =>
    cases d with
    | L => exact absurd (redexAt_app_L.1 hq.1) (hl q)
    | R => exact absurd (redexAt_app_R.1 hq.1) (hr q)
    | B => exact absurd hq.1 redexAt_app_B

theorem stepApp_app_some {l l' : Term} (r : Term) (h : stepApp l = some l') :
    stepApp (app l r) = some (app l' r) := by
  rw [stepApp.eq_def]; simp only [h]

theorem stepApp_app_none_some {l r r' : Term} (hl : stepApp l = none) (hr : stepApp r = some r') :
    stepApp (app l r) = some (app l r') := by
  rw [stepApp.eq_def]; simp only [hl, hr]

theorem stepApp_app_none_none_abs {b r : Term} (hl : stepApp (abs b) = none)
    (hr : stepApp r = none) : stepApp (app (abs b) r) = some (contract b r) := by
  rw [stepApp.eq_def]; simp only [hl, hr]

theorem stepApp_app_none_none {l r : Term} (hl : stepApp l = none) (hr : stepApp r = none)
    (hn : ∀ b, l ≠ abs b) : stepApp (app l r) = none := by
  cases l with
  | abs b => exact absurd rfl (hn b)
  | var n => rw [stepApp.eq_def]; simp only [hl, hr]
  | app l1 l2 => rw [stepApp.eq_def]; simp only [hl, hr]

theorem stepApp_positional (t : Term) :
    (∀ t', stepApp t = some t' → ∃ p, isLMI t p ∧ t' = contractAt t p) ∧
    (stepApp t = none → ∀ p, ¬ redexAt t p) := by
  induction t with
  | var n => exact ⟨by simp [stepApp], fun _ p => redexAt_var⟩
  | abs b ih =>
    obtain ⟨ih1, ih2⟩ := ih
    cases hb : stepApp b with
    | none =>
      refine ⟨by simp [stepApp, hb], fun _ p hp => ?_⟩
      obtain ⟨p', rfl, hp'⟩ := redexAt_abs_iff.1 hp
      exact ih2 hb p' hp'
    | some b' =>
      refine ⟨fun t' h => ?_, by simp [stepApp, hb]⟩
      simp only [stepApp, hb, Option.map_some, Option.some.injEq] at h
      subst h
      obtain ⟨p, hp, rfl⟩ := ih1 b' hb
      exact ⟨Dir.B :: p, isLMI_abs_B hp, (contractAt_abs_B b p).symm⟩
  | app l r ihl ihr =>
    cases hsl : stepApp l with
    | some l' =>
      rw [stepApp_app_some r hsl]
      refine ⟨fun t' h => ?_, by simp⟩
      simp only [Option.some.injEq] at h
      subst h
      obtain ⟨p, hp, rfl⟩ := ihl.1 l' hsl
      exact ⟨Dir.L :: p, isLMI_app_L hp, (contractAt_app_L l r p).symm⟩
    | none =>
      have nl := ihl.2 hsl
      cases hsr : stepApp r with
      | some r' =>
        rw [stepApp_app_none_some hsl hsr]
        refine ⟨fun t' h => ?_, by simp⟩
        simp only [Option.some.injEq] at h
        subst h
        obtain ⟨p, hp, rfl⟩ := ihr.1 r' hsr
        exact ⟨Dir.R :: p, isLMI_app_R nl hp, (contractAt_app_R l r p).symm⟩
      | none =>
        have nr := ihr.2 hsr
        by_cases hl : ∃ b, l = abs b
        · obtain ⟨b, rfl⟩ := hl
          rw [stepApp_app_none_none_abs hsl hsr]
          refine ⟨fun t' h => ?_, by simp⟩
          simp only [Option.some.injEq] at h
          subst h
          exact ⟨[], isLMI_app_nil nl nr, by rw [contractAt_root, contract_eq_substTop]⟩
        · rw [stepApp_app_none_none hsl hsr (fun b hb => hl ⟨b, hb⟩)]
          refine ⟨by simp, fun _ p hp => ?_⟩
          cases p with
          | nil => exact hl (redexAt_app_nil.1 hp)
          | cons d p =>
            cases d with
            | L => exact nl p (redexAt_app_L.1 hp)
            | R => exact nr p (redexAt_app_R.1 hp)
            | B => exact redexAt_app_B hp

/-! ### leftmost-innermost among weak redexes: `stepCbv` -/

theorem weak_nil : weak [] := by simp [weak]

theorem weak_cons {d : Dir} {p : Pos} : weak (d :: p) ↔ d ≠ Dir.B ∧ weak p := by
  simp only [weak, List.mem_cons, not_or, ne_eq]
  constructor
  · rintro ⟨h1, h2⟩; exact ⟨fun h => h1 h.symm, h2⟩
  · rintro ⟨h1, h2⟩; exact ⟨fun h => h1 h.symm, h2⟩

theorem not_weak_redexAt_abs {b : Term} {p : Pos} (h : redexAt (abs b) p) : ¬ weak p := by
  obtain ⟨p', rfl, _⟩ := redexAt_abs_iff.1 h
  simp [weak_cons]

theorem innermostW_app_L {l r : Term} {p : Pos} :
    innermostW (app l r) (Dir.L :: p) ↔ innermostW l p := by
  simp [innermostW, redexAt_app_L, weak_cons]

theorem innermostW_app_R {l r : Term} {p : Pos} :
    innermostW (app l r) (Dir.R :: p) ↔ innermostW r p := by
  simp [innermostW, redexAt_app_R, weak_cons]

theorem innermostW_app_nil {l r : Term} :
    innermostW (app l r) [] ↔
      (∃ b, l = abs b) ∧ (∀ q, redexAt l q → ¬ weak q) ∧ (∀ q, redexAt r q → ¬ weak q) := by
  simp only [innermostW, List.nil_append, redexAt_app_nil]
  constructor
  · rintro ⟨h1, _, h2⟩
    refine ⟨h1, fun q hq hw => h2 (Dir.L :: q) (by simp) ?_ (redexAt_app_L.2 hq),
      fun q hq hw => h2 (Dir.R :: q) (by simp) ?_ (redexAt_app_R.2 hq)⟩
    · exact weak_cons.2 ⟨by simp, hw⟩
    · exact weak_cons.2 ⟨by simp, hw⟩
  · rintro ⟨h1, h2, h3⟩
    refine ⟨h1, weak_nil, fun s hs hw hr => ?_⟩
    cases s with
    | nil => exact hs rfl
    | cons d s =>
      cases d with
      | L => exact h2 s (redexAt_app_L.1 hr) (weak_cons.1 hw).2
      | R => exact h3 s (redexAt_app_R.1 hr) (weak_cons.1 hw).2
      | B => exact redexAt_app_B hr

theorem isLMIW_app_L {l r : Term} {p : Pos} (h : isLMIW l p) : isLMIW (app l r) (Dir.L :: p) := by
  obtain ⟨h1, h2⟩ := h
  refine ⟨innermostW_app_L.2 h1, fun q hq => ?_⟩
  cases q with
  | nil => exact absurd h1.2.1 ((innermostW_app_nil.1 hq).2.1 p h1.1)
  | cons d q =>
    cases d with
    | L => simpa [leftOf_cons] using h2 q (innermostW_app_L.1 hq)
    | R => simp [leftOf_cons]
    | B => exact absurd hq.1 redexAt_app_B

theorem isLMIW_app_R {l r : Term} {p : Pos} (hn : ∀ q, redexAt l q → ¬ weak q) (h : isLMIW r p) :
    isLMIW (app l r) (Dir.R :: p) := by
  obtain ⟨h1, h2⟩ := h
  refine ⟨innermostW_app_R.2 h1, fun q hq => ?_⟩
  cases q with
  | nil => exact absurd h1.2.1 ((innermostW_app_nil.1 hq).2.2 p h1.1)
  | cons d q =>
    cases d with
    | L => exact absurd (weak_cons.1 hq.2.1).2 (hn q (redexAt_app_L.1 hq.1))
    | R => simpa [leftOf_cons] using h2 q (innermostW_app_R.1 hq)
    | B => exact absurd hq.1 redexAt_app_B

theorem isLMIW_app_nil {b r : Term} (hr : ∀ q, redexAt r q → ¬ weak q) :
    isLMIW (app (abs b) r) [] := by
  have hl : ∀ q, redexAt (abs b) q → ¬ weak q := fun q => not_weak_redexAt_abs
  refine ⟨innermostW_app_nil.2 ⟨⟨b, rfl⟩, hl, hr⟩, fun q hq => ?_⟩
  cases q with
  | nil => exact Or.inl rfl
  | cons d q =>
    cases d with
    | L => exact absurd (weak_cons.1 hq.2.1).2 (hl q (redexAt_app_L.1 hq.1))
    | R => exact absurd (weak_cons.1 hq.2.1).2 (hr q (redexAt_app_R.1 hq.1))
    | B => exact absurd hq.1 redexAt_app_B

theorem stepCbv_app_some {l l' : Term} (r : Term) (h : stepCbv l = some l') :
    stepCbv (app l r) = some (app l' r) := by
  rw [stepCbv.eq_def]; simp only [h]

theorem stepCbv_app_none_some {l r r' : Term} (hl : stepCbv l = none) (hr : stepCbv r = some r') :
    stepCbv (app l r) = some (app l r') := by
  rw [stepCbv.eq_def]; simp only [hl, hr]

theorem stepCbv_app_none_none_abs {b r : Term} (hr : stepCbv r = none) :
    stepCbv (app (abs b) r) = some (contract b r) := by
  have hl : stepCbv (abs b) = none := by simp [stepCbv]
  rw [stepCbv.eq_def]; simp only [hl, hr]

theorem stepCbv_app_none_none {l r : Term} (hl : stepCbv l = none) (hr : stepCbv r = none)
    (hn : ∀ b, l ≠ abs b) : stepCbv (app l r) = none := by
  cases l with
  | abs b => exact absurd rfl (hn b)
  | var n => rw [stepCbv.eq_def]; simp only [hl, hr]
  | app l1 l2 => rw [stepCbv.eq_def]; simp only [hl, hr]

theorem stepCbv_positional (t : Term) :
    (∀ t', stepCbv t = some t' → ∃ p, isLMIW t p ∧ t' = contractAt t p) ∧
    (stepCbv t = none → ∀ p, redexAt t p → ¬ weak p) := by
  induction t with
  | var n => exact ⟨by simp [stepCbv], fun _ p hp => absurd hp redexAt_var⟩
  | abs b _ => exact ⟨by simp [stepCbv], fun _ p hp => not_weak_redexAt_abs hp⟩
  | app l r ihl ihr =>
    cases hsl : stepCbv l with
    | some l' =>
      rw [stepCbv_app_some r hsl]
      refine ⟨fun t' h => ?_, by simp⟩
      simp only [Option.some.injEq] at h
      subst h
      obtain ⟨p, hp, rfl⟩ := ihl.1 l' hsl
      exact ⟨Dir.L :: p, isLMIW_app_L hp, (contractAt_app_L l r p).symm⟩
    | none =>
      have nl := ihl.2 hsl
      cases hsr : stepCbv r with
      | some r' =>
        rw [stepCbv_app_none_some hsl hsr]
        refine ⟨fun t' h => ?_, by simp⟩
        simp only [Option.some.injEq] at h
        subst h
        obtain ⟨p, hp, rfl⟩ := ihr.1 r' hsr
        exact ⟨Dir.R :: p, isLMIW_app_R nl hp, (contractAt_app_R l r p).symm⟩
      | none =>
        have nr := ihr.2 hsr
        by_cases hl : ∃ b, l = abs b
        · obtain ⟨b, rfl⟩ := hl
          rw [stepCbv_app_none_none_abs hsr]
          refine ⟨fun t' h => ?_, by simp⟩
          simp only [Option.some.injEq] at h
          subst h
          exact ⟨[], isLMIW_app_nil nr, by rw [contractAt_root, contract_eq_substTop]⟩
        · rw [stepCbv_app_none_none hsl hsr (fun b hb => hl ⟨b, hb⟩)]
          refine ⟨by simp, fun _ p hp hw => ?_⟩
          cases p with
          | nil => exact hl (redexAt_app_nil.1 hp)
          | cons d p =>
            cases d with
            | L => exact nl p (redexAt_app_L.1 hp) (weak_cons.1 hw).2
            | R => exact nr p (redexAt_app_R.1 hp) (weak_cons.1 hw).2
            | B => exact redexAt_app_B hp

/-! ### head spine: `stepHsp` -/

theorem noArg_cons {d : Dir} {p : Pos} : noArg (d :: p) ↔ d ≠ Dir.R ∧ noArg p := by
  simp only [noArg, List.mem_cons, not_or, ne_eq]
  constructor
  · rintro ⟨h1, h2⟩; exact ⟨fun h => h1 h.symm, h2⟩
  · rintro ⟨h1, h2⟩; exact ⟨fun h => h1 h.symm, h2⟩

theorem stepHsp_positional (t t' : Term) (h : stepHsp t = some t') :
    ∃ p, redexAt t p ∧ noArg p ∧ t' = contractAt t p := by
  induction t generalizing t' with
  | var n => simp [stepHsp] at h
  | abs b ih =>
    cases hb : stepHsp b with
    | none => simp [stepHsp, hb] at h
    | some b' =>
      simp only [stepHsp, hb, Option.map_some, Option.some.injEq] at h
      subst h
      obtain ⟨p, hp, hn, rfl⟩ := ih b' hb
      exact ⟨Dir.B :: p, redexAt_abs_B.2 hp, noArg_cons.2 ⟨by simp, hn⟩,
        (contractAt_abs_B b p).symm⟩
  | app l r ihl _ =>
    rw [stepHsp.eq_def] at h
    simp only at h
    cases hsl : stepHsp l with
    | some l' =>
      simp only [hsl, Option.some.injEq] at h
      subst h
      obtain ⟨p, hp, hn, rfl⟩ := ihl l' hsl
      exact ⟨Dir.L :: p, redexAt_app_L.2 hp, noArg_cons.2 ⟨by simp, hn⟩,
        (contractAt_app_L l r p).symm⟩
    | none =>
      simp only [hsl] at h
      cases l with
      | abs b =>
        simp only [Option.some.injEq] at h
        subst h
        exact ⟨[], redexAt_app_nil.2 ⟨b, rfl⟩, by simp [noArg],
          by rw [contractAt_root, contract_eq_substTop]⟩
      | var n => simp at h
      | app l1 l2 => simp at h

/-! ### uniqueness of the selected position -/

/-- the selected positions are unique, so "the" leftmost-outermost / leftmost-innermost redex is
well defined -/
theorem isLMO_unique {t : Term} {p q : Pos} : isLMO t p → isLMO t q → p = q := by
  rintro ⟨hp, hp'⟩ ⟨hq, hq'⟩
  rcases hp' q hq with h | h
  · exact h.symm
  · rcases hq' p hp with h' | h'
    · exact h'
    · exact absurd h' (before_asymm h)

theorem isLMI_unique {t : Term} {p q : Pos} : isLMI t p → isLMI t q → p = q := by
  rintro ⟨hp, hp'⟩ ⟨hq, hq'⟩
  rcases hp' q hq with h | h
  · exact h.symm
  · rcases hq' p hp with h' | h'
    · exact h'
    · exact absurd h' (leftOf_asymm h)

theorem isLMIW_unique {t : Term} {p q : Pos} : isLMIW t p → isLMIW t q → p = q := by
  rintro ⟨hp, hp'⟩ ⟨hq, hq'⟩
  rcases hp' q hq with h | h
  · exact h.symm
  · rcases hq' p hp with h' | h'
    · exact h'
    · exact absurd h' (leftOf_asymm h)

end Spec
end LC
