/-
The representation boundary of De Bruijn indices, part 7: `Ex` for the checked NOR traversal
(see `Proofs/BoundedTraversalExact.lean`).
-/
import LC.Proofs.BoundedTraversalExact

namespace LC
namespace Term
open Spec

theorem budget_of_guard {L c : Nat} (h : L = 0 ∨ c + 1 ≤ L) : budget L c = true := by
  simp only [budget, Bool.or_eq_true, beq_iff_eq, decide_eq_true_eq]; omega

/-- the operator left by the first phase of `beta_nor`/`beta_hno`/`beta_hap` is not an abstraction when the
reducibility test failed although budget is left -/
theorem not_abs_of_not_red {L c1 : Nat} {l' : Term} (hred : ¬ (isAbs l' && budget L c1) = true)
    (hb : L = 0 ∨ c1 + 1 ≤ L) : isAbs l' = false := by
  cases hia : isAbs l' with
  | false => rfl
  | true => exact absurd (by simp [hia, budget_of_guard hb]) hred

theorem betaNorChk_ex (M L : Nat) : ∀ fuel t c, maxIndex t ≤ M → (L = 0 ∨ c ≤ L) →
    Ex M L stepNor (betaNorChk M L fuel t c) t c := by
  intro fuel
  induction fuel with
  | zero => intro t c _ _; trivial
  | succ fuel ih =>
    intro t c ht hc
    unfold betaNorChk
    by_cases hg : gate L c = true
    · simp only [hg, if_true]; exact Ex.ret_of_prog (Prog.refl c ht) _
    · simp only [hg, Bool.false_eq_true, if_false]
      cases t with
      | var i => exact Ex.ret_of_prog (Prog.refl c ht) _
      | abs b =>
        simp only [maxIndex] at ht
        have ihb := ih b c ht hc
        simp only []
        cases hx : betaNorChk M L fuel b c with
        | fuel => trivial
        | panic =>
          rw [hx] at ihb
          exact Bad.lift (C := abs) ht (fun x => Nat.le_refl _) (fun _ j a it => Iter.nor_abs it) ihb
        | ret b' c1 =>
          rw [hx] at ihb
          obtain ⟨P1, hm1⟩ := betaOrdChk_post M .NOR L fuel b c b' c1 ht hc hx
          exact Ex.ret_of_prog (Prog.lift (C := abs) P1 ihb (fun x hx => hx) (fun _ j a it => Iter.nor_abs it)) _
      | app l r =>
        simp only [maxIndex] at ht
        have hl : maxIndex l ≤ M := by omega
        have hr : maxIndex r ≤ M := by omega
        have ihl := betaCbnChk_ex M L fuel l c hl hc
        simp only []
        cases hx : betaCbnChk M L fuel l c with
        | fuel => trivial
        | panic =>
          rw [hx] at ihl
          exact Bad.lift (C := fun x => app x r) hl (fun x => by simp only [maxIndex]; omega)
            (fun _ j a it => Iter.cbn_nor_app r it) ihl
        | ret l' c1 =>
          rw [hx] at ihl
          obtain ⟨P1, hm1⟩ := betaOrdChk_post M .CBN L fuel l c l' c1 hl hc hx
          have hc1 := P1.budget_ok2
          have G1 : Prog M stepNor (app l r) c (app l' r) c1 :=
            Prog.lift (C := fun x => app x r) P1 ihl (fun x hx => by simp only [maxIndex]; omega)
              (fun _ j a it => Iter.cbn_nor_app r it)
          simp only []
          by_cases hred : (isAbs l' && budget L c1) = true
          · simp only [hred, if_true]
            simp only [Bool.and_eq_true] at hred
            cases l' with
            | var i => trivial
            | app a b => trivial
            | abs b =>
              simp only []
              simp only [maxIndex] at hm1
              cases hk : contractChk M b r with
              | none =>
                exact Ex.of_prog G1 (Ex.panic_step (by simp [stepNor]) (contractChk_none_lt hm1 hr hk)
                  (budget_succ_ok hred.2))
              | some u =>
                obtain ⟨rfl, hu⟩ := contractChk_some_le hm1 hr hk
                have G2 : Prog M stepNor (app (abs b) r) c1 (contract b r) (c1 + 1) :=
                  Prog.step (by simp only [maxIndex]; omega) (by simp [stepNor]) hu
                exact Ex.of_prog (G1.trans G2) (ih _ (c1 + 1) hu (budget_succ_ok hred.2))
          · simp only [hred, Bool.false_eq_true, if_false]
            have hneu : (L = 0 ∨ c1 + 1 ≤ L) → neutral l' = true := fun hb =>
              neutral_of_cbn_nf (P1.nf hb) (not_abs_of_not_red hred hb)
            apply Ex.of_prog G1
            have ih2 := ih l' c1 hm1 hc1
            cases hx2 : betaNorChk M L fuel l' c1 with
            | fuel => trivial
            | panic =>
              rw [hx2] at ih2
              exact Bad.lift (C := fun x => app x r) hm1 (fun x => by simp only [maxIndex]; omega)
                (fun hb j a it => (Iter.nor_app_left r (hneu hb) it).1) ih2
            | ret l2 c2 =>
              rw [hx2] at ih2
              obtain ⟨P2, hm2⟩ := betaOrdChk_post M .NOR L fuel l' c1 l2 c2 hm1 hc1 hx2
              have hc2 := P2.budget_ok2
              have G2 : Prog M stepNor (app l' r) c1 (app l2 r) c2 :=
                Prog.lift (C := fun x => app x r) P2 ih2 (fun x hx => by simp only [maxIndex]; omega)
                  (fun hb j a it => (Iter.nor_app_left r (hneu hb) it).1)
              have hside : (L = 0 ∨ c2 + 1 ≤ L) → isAbs l2 = false ∧ stepNor l2 = none := by
                intro hb
                have hle := P2.le
                have hn2 := P2.nf hb
                obtain ⟨k2, _, it2, _, _⟩ := P2
                exact ⟨neutral_not_abs (Iter.nor_app_left r (hneu (by omega)) it2).2, hn2⟩
              simp only []
              apply Ex.of_prog G2
              have ih3 := ih r c2 hr hc2
              cases hx3 : betaNorChk M L fuel r c2 with
              | fuel => trivial
              | panic =>
                rw [hx3] at ih3
                exact Bad.lift (C := fun x => app l2 x) hr (fun x => by simp only [maxIndex]; omega)
                  (fun hb j a it => Iter.nor_app_right l2 (hside hb).1 (hside hb).2 it) ih3
              | ret r' c3 =>
                rw [hx3] at ih3
                obtain ⟨P3, hm3⟩ := betaOrdChk_post M .NOR L fuel r c2 r' c3 hr hc2 hx3
                exact Ex.ret_of_prog (Prog.lift (C := fun x => app l2 x) P3 ih3
                  (fun x hx => by simp only [maxIndex]; omega)
                  (fun hb j a it => Iter.nor_app_right l2 (hside hb).1 (hside hb).2 it)) _

end Term
end LC
