/-
Upper bound on the fuel of a traversal (continued): APP.
-/
import LC.Proofs.FuelBoundsUpper

namespace LC
namespace Term

theorem betaApp_fuel (L : Nat) : ∀ fuel t c t' c', betaApp L fuel t c = some (t', c') →
    (L = 0 ∨ c ≤ L) → ∀ H k, c' = c + k → HB stepApp H k t →
    ∀ g, k + H + 1 ≤ g → betaApp L g t c = some (t', c') := by
  intro fuel
  induction fuel with
  | zero => intro t c t' c' h; simp [betaApp] at h
  | succ fuel ih =>
    intro t c t' c' h hc H k hk hb g hg
    obtain ⟨g, rfl⟩ : ∃ g', g = g' + 1 := ⟨g - 1, by omega⟩
    by_cases hgate : gate L c = true
    · simp [betaApp, hgate] at h ⊢; exact h
    · cases t with
      | var i => simp [betaApp, hgate] at h ⊢; exact h
      | abs b =>
        have hH := hb.pos_abs
        rw [betaApp] at h ⊢
        simp only [hgate] at h ⊢
        cases hb' : betaApp L fuel b c with
        | none => simp [hb'] at h
        | some p =>
          obtain ⟨b', c1⟩ := p
          simp [hb'] at h; obtain ⟨rfl, rfl⟩ := h
          rw [ih _ _ _ _ hb' hc (H - 1) k hk (hb.abs (fun _ _ it => Iter.app_abs it)) g (by omega)]
          simp
      | app l r =>
        have hH := hb.pos_app
        have hhr : height r ≤ H - 1 := by have := hb.here; simp only [height] at this; omega
        rw [betaApp] at h ⊢
        simp only [hgate] at h ⊢
        cases hl : betaApp L fuel l c with
        | none => simp [hl] at h
        | some p =>
          obtain ⟨l', c1⟩ := p
          have P1 := betaApp_sound L _ _ _ _ _ hl hc
          have hc1 := P1.budget_ok'
          obtain ⟨k1, rfl, it1, hle1, hnf1⟩ := P1
          simp only [hl] at h
          cases hr : betaApp L fuel r (c + k1) with
          | none => simp [hr] at h
          | some p =>
            obtain ⟨r', c2⟩ := p
            have P2 := betaApp_sound L _ _ _ _ _ hr hc1
            have hc2 := P2.budget_ok'
            obtain ⟨k2, rfl, it2, hle2, hnf2⟩ := P2
            simp only [hr] at h
            have hn1 : k2 ≠ 0 → stepApp l' = none := by
              intro hk2; apply hnf1
              by_cases hL : L = 0
              · exact Or.inl hL
              · have := hle2 hL; right; omega
            have it12 : Iter stepApp (k1 + k2) (app l r) (app l' r') := Iter.app_app it1 it2 hn1
            have key1 : k1 + k2 ≤ k → betaApp L g l c = some (l', c + k1) := fun hk1 =>
              ih _ _ _ _ hl hc (H - 1) k1 rfl
                ((hb.mono (show k1 ≤ k by omega)).appL (fun _ _ it => Iter.app_app_left r it)) g
                (by omega)
            have key2 : k1 + k2 ≤ k → betaApp L g r (c + k1) = some (r', c + k1 + k2) := fun hk1 => by
              refine ih _ _ _ _ hr hc1 (H - 1) k2 rfl ?_ g (by omega)
              by_cases hk2 : k2 = 0
              · subst hk2; exact HB.of_height hhr
              · exact (hb.shift (Iter.app_app_left r it1) hk1).appR
                  (fun _ _ it => Iter.app_app_right l' (hn1 hk2) it)
            cases l' with
            | var i =>
              simp at h; obtain ⟨rfl, h2⟩ := h
              have e1 := key1 (by omega); have e2 := key2 (by omega)
              simp [e1, e2]; omega
            | app a1 a2 =>
              simp at h; obtain ⟨rfl, h2⟩ := h
              have e1 := key1 (by omega); have e2 := key2 (by omega)
              simp [e1, e2]; omega
            | abs b =>
              simp only at h ⊢
              by_cases hbud : budget L (c + k1 + k2) = true
              · simp only [hbud, if_true] at h
                have hb1 : L = 0 ∨ c + k1 + k2 < L := by simp [budget] at hbud; omega
                have hc3 : L = 0 ∨ c + k1 + k2 + 1 ≤ L := by omega
                obtain ⟨k3, hk3, it3, _, _⟩ := betaApp_sound L _ _ _ _ _ h hc3
                have e1 := key1 (by omega); have e2 := key2 (by omega)
                simp only [e1, e2, hbud, if_true]
                exact ih _ _ _ _ h hc3 H k3 hk3
                  (hb.shift (it12.trans (Iter.one (stepApp_app_red (hnf1 (by omega)) (hnf2 hb1)))) (by omega))
                  g (by omega)
              · simp [hbud] at h; obtain ⟨rfl, h2⟩ := h
                subst hk
                have e1 := key1 (by omega); have e2 := key2 (by omega)
                simp [e1, e2, hbud]; omega

end Term
end LC
