/-
Upper bound on the fuel of a traversal (continued): HNO (which calls HSP on operators).
-/
import LC.Proofs.FuelBoundsUpper

namespace LC
namespace Term
open Spec

theorem betaHno_fuel (L : Nat) : ∀ fuel t c t' c', betaHno L fuel t c = some (t', c') →
    (L = 0 ∨ c ≤ L) → ∀ H k, c' = c + k → HB stepHno H k t →
    ∀ g, k + H + 1 ≤ g → betaHno L g t c = some (t', c') := by
  intro fuel
  induction fuel with
  | zero => intro t c t' c' h; simp [betaHno] at h
  | succ fuel ih =>
    intro t c t' c' h hc H k hk hb g hg
    obtain ⟨g, rfl⟩ : ∃ g', g = g' + 1 := ⟨g - 1, by omega⟩
    by_cases hgate : gate L c = true
    · simp [betaHno, hgate] at h ⊢; exact h
    · cases t with
      | var i => simp [betaHno, hgate] at h ⊢; exact h
      | abs b =>
        have hH := hb.pos_abs
        rw [betaHno] at h ⊢
        simp only [hgate] at h ⊢
        cases hb' : betaHno L fuel b c with
        | none => simp [hb'] at h
        | some p =>
          obtain ⟨b', c1⟩ := p
          simp [hb'] at h; obtain ⟨rfl, rfl⟩ := h
          rw [ih _ _ _ _ hb' hc (H - 1) k hk (hb.abs (fun _ _ it => Iter.hno_abs it)) g (by omega)]
          simp
      | app l r =>
        have hH := hb.pos_app
        have hhr : height r ≤ H - 1 := by have := hb.here; simp only [height] at this; omega
        rw [betaHno] at h ⊢
        simp only [hgate] at h ⊢
        cases hl : betaHsp L fuel l c with
        | none => simp [hl] at h
        | some p =>
          obtain ⟨l', c1⟩ := p
          have P1 := betaHsp_sound L _ _ _ _ _ hl hc
          have hc1 : L = 0 ∨ c1 ≤ L := Post.budget_ok (step := stepHsp) (c := c) (t := l) P1
          obtain ⟨k1, rfl, it1, hle1, hnf1⟩ := P1
          simp only [hl] at h
          have key1 : k1 ≤ k → betaHsp L g l c = some (l', c + k1) := fun hk1 =>
            betaHsp_fuel L _ _ _ _ _ hl hc (H - 1) k1 rfl
              ((hb.mono hk1).appL (fun _ _ it => Iter.hsp_hno_app r it)) g (by omega)
          by_cases hred : (isAbs l' && budget L (c + k1)) = true
          · rw [if_pos hred] at h
            cases l' with
            | var i => simp [isAbs] at hred
            | app a1 a2 => simp [isAbs] at hred
            | abs b =>
              simp only at h
              have hbud : budget L (c + k1) = true := by simpa [isAbs] using hred
              have hc1' : L = 0 ∨ c + k1 + 1 ≤ L := by simp [budget] at hbud; omega
              obtain ⟨k2, hk2, it2, _, _⟩ := betaHno_sound L _ _ _ _ _ h hc1'
              have e1 := key1 (by omega)
              simp only [e1]
              rw [if_pos hred]
              exact ih _ _ _ _ h hc1' H k2 hk2
                (hb.shift ((Iter.hsp_hno_app r it1).trans (Iter.one (stepHno_app_redex r (hnf1 (by simp [budget] at hbud; omega))))) (by omega))
                g (by omega)
          · rw [if_neg hred] at h
            cases hl2 : betaHno L fuel l' (c + k1) with
            | none => simp [hl2] at h
            | some p =>
              obtain ⟨l2, c2⟩ := p
              have P2 := betaHno_sound L _ _ _ _ _ hl2 hc1
              have hc2 := P2.budget_ok
              obtain ⟨k2, rfl, it2, hle2, hnf2⟩ := P2
              simp only [hl2] at h
              cases hr : betaHno L fuel r (c + k1 + k2) with
              | none => simp [hr] at h
              | some p =>
                obtain ⟨r', c3⟩ := p
                obtain ⟨k3, rfl, it3, hle3, hnf3⟩ := betaHno_sound L _ _ _ _ _ hr hc2
                simp [hr] at h; obtain ⟨rfl, h2⟩ := h
                have hkk : k = k1 + k2 + k3 := by omega
                have hb1 : HB stepHno H (k2 + k3) (app l' r) :=
                  hb.shift (Iter.hsp_hno_app r it1) (by omega)
                -- when steps happen after the cbn phase, its result is neutral
                have hneu : k2 + k3 ≠ 0 → neutral l' = true := by
                  intro hne
                  have hbud : L = 0 ∨ c + k1 < L := by
                    by_cases hL : L = 0
                    · exact Or.inl hL
                    · have := hle3 hL; right; omega
                  have hna : isAbs l' = false := by
                    cases hia : isAbs l' with
                    | false => rfl
                    | true => exfalso; apply hred; simp [hia, budget]; omega
                  exact neutral_of_hsp_nf (hnf1 hbud) hna
                have e1 := key1 (by omega)
                have e2 : betaHno L g l' (c + k1) = some (l2, c + k1 + k2) := by
                  refine ih _ _ _ _ hl2 hc1 (H - 1) k2 rfl ?_ g (by omega)
                  by_cases hk2 : k2 = 0
                  · subst hk2
                    have := hb1.here; simp only [height] at this
                    exact HB.of_height (by omega)
                  · exact (hb1.mono (by omega)).appL
                      (fun _ _ it => (Iter.hno_app_left r (hneu (by omega)) it).1)
                have e3 : betaHno L g r (c + k1 + k2) = some (r', c + k1 + k2 + k3) := by
                  refine ih _ _ _ _ hr hc2 (H - 1) k3 rfl ?_ g (by omega)
                  by_cases hk3 : k3 = 0
                  · subst hk3; exact HB.of_height hhr
                  · have hbud2 : L = 0 ∨ c + k1 + k2 < L := by
                      by_cases hL : L = 0
                      · exact Or.inl hL
                      · have := hle3 hL; right; omega
                    obtain ⟨itL, hneu2⟩ := Iter.hno_app_left r (hneu (by omega)) it2
                    exact (hb1.shift itL (Nat.le_refl _)).appR
                      (fun _ _ it => Iter.hno_app_right l2 hneu2 (hnf2 hbud2) it)
                simp only [e1]
                rw [if_neg hred]
                simp [e2, e3]; omega

end Term
end LC
