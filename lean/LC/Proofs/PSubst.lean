/-
Parallel (simultaneous) substitution for the free variables of an open term, and the
*reflection principle*: one reduction `t ↠ u` of an open term whose free variables
`1..n` serve as placeholders yields the law `t[x₁..xₙ] ↠ u[x₁..xₙ]` for arbitrary
argument terms.
-/
import LC.Proofs.Beta
import LC.Proofs.Subst

namespace LC
namespace Spec
open Term

/-- simultaneous substitution for the free variables: free variable number `j ≥ 1` (an occurrence `var (j + d)` under `d`
    binders) is replaced by `σ j` shifted by `d`; bound variables and `var 0` are untouched -/
def psubstAux (σ : Nat → Term) (d : Nat) : Term → Term
  | var i => if i > d then shiftFV d 0 (σ (i - d)) else var i
  | abs b => abs (psubstAux σ (d + 1) b)
  | app l r => app (psubstAux σ d l) (psubstAux σ d r)

def psubst (σ : Nat → Term) (t : Term) : Term := psubstAux σ 0 t

/-- closedness: no index exceeds the number of enclosing binders (given `d` binders of context) -/
def closedAt (d : Nat) : Term → Bool
  | var i => decide (i ≤ d)
  | abs b => closedAt (d + 1) b
  | app l r => closedAt d l && closedAt d r

/-! ### closed terms are fixed by shifting and substitution -/

theorem psubstAux_closedAt {t : Term} (σ : Nat → Term) (d : Nat) (h : closedAt d t = true) :
    psubstAux σ d t = t := by
  induction t generalizing d with
  | var i => simp [closedAt] at h; simp [psubstAux]; omega
  | abs b ih => simp only [closedAt] at h; simp [psubstAux, ih _ h]
  | app l r ihl ihr =>
    simp only [closedAt, Bool.and_eq_true] at h; simp [psubstAux, ihl _ h.1, ihr _ h.2]

theorem shiftFV_closedAt {t : Term} (a o d : Nat) (hd : d ≤ o) (h : closedAt d t = true) :
    shiftFV a o t = t := by
  induction t generalizing d o with
  | var i => simp [closedAt] at h; simp [shiftFV]; omega
  | abs b ih => simp only [closedAt] at h; simp [shiftFV, ih (o + 1) (d + 1) (by omega) h]
  | app l r ihl ihr =>
    simp only [closedAt, Bool.and_eq_true] at h; simp [shiftFV, ihl _ _ hd h.1, ihr _ _ hd h.2]

theorem applyAux_closedAt {t : Term} (r : Term) (e d : Nat) (hd : d < e) (h : closedAt d t = true) :
    applyAux r e t = t := by
  induction t generalizing d e with
  | var i =>
    simp [closedAt] at h
    have h1 : ¬ i = e := by omega
    have h2 : ¬ i > e := by omega
    simp [applyAux, h1, h2]
  | abs b ih => simp only [closedAt] at h; simp [applyAux, ih (e + 1) (d + 1) (by omega) h]
  | app l r ihl ihr =>
    simp only [closedAt, Bool.and_eq_true] at h; simp [applyAux, ihl _ _ hd h.1, ihr _ _ hd h.2]

theorem psubst_closed {t : Term} (σ : Nat → Term) (h : closedAt 0 t = true) : psubst σ t = t :=
  psubstAux_closedAt σ 0 h

theorem shiftFV_closed {t : Term} (a o : Nat) (h : closedAt 0 t = true) : shiftFV a o t = t :=
  shiftFV_closedAt a o 0 (by omega) h

/-- NOTE: the requested statement without `hd` is FALSE at depth `0` (see the counterexample below):
`applyAux r 0 (var 0) = shiftFV (0 - 1) 0 r = r`.  Depth `0` is never used by `contract`/β (depths start at `1`). -/
theorem applyAux_closed {t : Term} (r : Term) (d : Nat) (hd : 1 ≤ d) (h : closedAt 0 t = true) :
    applyAux r d t = t :=
  applyAux_closedAt r d 0 (by omega) h

/-- counterexample to `applyAux_closed` without the hypothesis `1 ≤ d` -/
example : closedAt 0 (var 0) = true ∧ applyAux (var 5) 0 (var 0) ≠ var 0 := by decide

theorem contract_closed {t : Term} (r : Term) (h : closedAt 0 t = true) : contract t r = t :=
  applyAux_closed r 1 (by omega) h

/-! ### basic equations -/

theorem shiftFV_zero (o : Nat) (t : Term) : shiftFV 0 o t = t := by
  induction t generalizing o with
  | var i => simp [shiftFV]
  | abs b ih => simp [shiftFV, ih]
  | app l r ihl ihr => simp [shiftFV, ihl, ihr]

@[simp] theorem psubst_var (σ : Nat → Term) (j : Nat) (hj : 1 ≤ j) : psubst σ (var j) = σ j := by
  have : j > 0 := by omega
  simp [psubst, psubstAux, this, shiftFV_zero]

@[simp] theorem psubst_var_zero (σ : Nat → Term) : psubst σ (var 0) = var 0 := by
  simp [psubst, psubstAux]

@[simp] theorem psubst_app (σ : Nat → Term) (l r : Term) :
    psubst σ (app l r) = app (psubst σ l) (psubst σ r) := rfl

theorem psubst_abs (σ : Nat → Term) (b : Term) : psubst σ (abs b) = abs (psubstAux σ 1 b) := rfl

/-- under `d` binders: a bound variable (or `var 0`) is untouched … -/
theorem psubstAux_var_le (σ : Nat → Term) (d i : Nat) (h : i ≤ d) : psubstAux σ d (var i) = var i := by
  have : ¬ i > d := by omega
  simp [psubstAux, this]

/-- … and free variable number `j` is replaced by `σ j`, shifted over the `d` binders -/
theorem psubstAux_var_gt (σ : Nat → Term) (d j : Nat) (hj : 1 ≤ j) :
    psubstAux σ d (var (d + j)) = shiftFV d 0 (σ j) := by
  have : d + j > d := by omega
  simp [psubstAux, this]

/-! ### commutation with shifting and with substitution -/

theorem psubstAux_shiftFV (σ : Nat → Term) (a o d : Nat) (h : o ≤ d) (t : Term) :
    psubstAux σ (d + a) (shiftFV a o t) = shiftFV a o (psubstAux σ d t) := by
  induction t generalizing o d with
  | var i =>
    by_cases h1 : i > d
    · have hx1 : i > o := by omega
      have hx2 : i + a > d + a := by omega
      simp only [shiftFV, psubstAux, hx1, hx2, h1, if_true]
      rw [shiftFV_shiftFV_within a d 0 o (by omega) (by omega)]
      have e1 : i + a - (d + a) = i - d := by omega
      rw [e1, Nat.add_comm d a]
    · grind [shiftFV, psubstAux]
  | abs b ih =>
    simp only [shiftFV, psubstAux]
    rw [← ih (o + 1) (d + 1) (by omega)]; congr 2; omega
  | app l r ihl ihr => simp [shiftFV, psubstAux, ihl _ _ h, ihr _ _ h]

theorem psubstAux_applyAux (σ : Nat → Term) (a : Term) (e d : Nat) (he : 1 ≤ e) (hed : e ≤ d + 1) (b : Term) :
    psubstAux σ d (applyAux a e b)
      = applyAux (psubstAux σ (d + 1 - e) a) e (psubstAux σ (d + 1) b) := by
  induction b generalizing e d with
  | var i =>
    by_cases h1 : i = e
    · subst h1
      have hx : ¬ i > d + 1 := by omega
      simp only [applyAux, psubstAux, hx, if_false, if_true]
      have := psubstAux_shiftFV σ (i - 1) 0 (d + 1 - i) (by omega) a
      rw [← this]; congr 1; omega
    · by_cases h2 : i > d + 1
      · have hx1 : i > e := by omega
        have hx2 : i - 1 > d := by omega
        simp only [applyAux, psubstAux, h1, h2, hx1, hx2, if_false, if_true]
        rw [applyAux_shiftFV_cancel' _ e 0 d (by omega) (by omega)]
        congr 2; omega
      · grind [applyAux, psubstAux]
  | abs b ih =>
    simp only [applyAux, psubstAux]
    rw [ih (e + 1) (d + 1) (by omega) (by omega)]; congr 3; omega
  | app l r ihl ihr => simp [applyAux, psubstAux, ihl _ _ he hed, ihr _ _ he hed]

theorem psubstAux_contract (σ : Nat → Term) (d : Nat) (b a : Term) :
    psubstAux σ d (contract b a) = contract (psubstAux σ (d + 1) b) (psubstAux σ d a) := by
  have := psubstAux_applyAux σ a 1 d (by omega) (by omega) b
  simpa [contract] using this

/-! ### β is stable under parallel substitution -/

theorem beta_psubstAux {t u : Term} (σ : Nat → Term) (d : Nat) (h : Beta t u) :
    Beta (psubstAux σ d t) (psubstAux σ d u) := by
  induction h generalizing d with
  | red b a =>
    rw [substTop_eq, psubstAux_contract]
    exact Beta.redc _ _
  | congAbs _ ih => exact Beta.congAbs (ih _)
  | congAppL _ ih => exact Beta.congAppL (ih _)
  | congAppR _ ih => exact Beta.congAppR (ih _)

theorem beta_psubst {t u : Term} (σ : Nat → Term) (h : Beta t u) : Beta (psubst σ t) (psubst σ u) :=
  beta_psubstAux σ 0 h

theorem star_psubst {t u : Term} (σ : Nat → Term) (h : Star t u) : Star (psubst σ t) (psubst σ u) := by
  induction h with
  | refl _ => exact Star.refl _
  | head hb _ ih => exact Star.head (beta_psubst σ hb) ih

/-! ### environments given by a list of payload terms -/

/-- the environment that maps free variable `j` (`1 ≤ j ≤ xs.length`) to the `j`-th element of `xs` and every other
free variable to the inert constant `var 0` -/
def env (xs : List Term) (j : Nat) : Term := xs.getD (j - 1) (var 0)

theorem env_succ (xs : List Term) (k : Nat) : env xs (k + 1) = xs.getD k (var 0) := by simp [env]

@[simp] theorem env_nil (j : Nat) : env [] j = var 0 := by simp [env]

@[simp] theorem env_cons_one (x : Term) (xs : List Term) : env (x :: xs) 1 = x := by simp [env]

@[simp] theorem env_cons_succ_succ (x : Term) (xs : List Term) (k : Nat) :
    env (x :: xs) (k + 2) = env xs (k + 1) := by simp [env]

/-- the reflection principle: a reduction of the open term yields the law for arbitrary payloads -/
theorem law_of_star {t u : Term} (h : Star t u) (xs : List Term) :
    Star (psubst (env xs) t) (psubst (env xs) u) := star_psubst (env xs) h

@[simp] theorem psubst_env_var (xs : List Term) (k : Nat) :
    psubst (env xs) (var (k + 1)) = xs.getD k (var 0) := by
  rw [psubst_var _ _ (by omega), env_succ]

@[simp] theorem psubst_env_var1 (x₁ : Term) (xs : List Term) :
    psubst (env (x₁ :: xs)) (var 1) = x₁ := by simp [psubst_var, env]

@[simp] theorem psubst_env_var2 (x₁ x₂ : Term) (xs : List Term) :
    psubst (env (x₁ :: x₂ :: xs)) (var 2) = x₂ := by simp [psubst_var, env]

@[simp] theorem psubst_env_var3 (x₁ x₂ x₃ : Term) (xs : List Term) :
    psubst (env (x₁ :: x₂ :: x₃ :: xs)) (var 3) = x₃ := by simp [psubst_var, env]

@[simp] theorem psubst_env_var4 (x₁ x₂ x₃ x₄ : Term) (xs : List Term) :
    psubst (env (x₁ :: x₂ :: x₃ :: x₄ :: xs)) (var 4) = x₄ := by simp [psubst_var, env]

/-- one / two / three / four payloads, spelled out -/
theorem law1_of_star {t u : Term} (h : Star t u) (x : Term) :
    Star (psubst (env [x]) t) (psubst (env [x]) u) := law_of_star h _

theorem law2_of_star {t u : Term} (h : Star t u) (x y : Term) :
    Star (psubst (env [x, y]) t) (psubst (env [x, y]) u) := law_of_star h _

theorem law3_of_star {t u : Term} (h : Star t u) (x y z : Term) :
    Star (psubst (env [x, y, z]) t) (psubst (env [x, y, z]) u) := law_of_star h _

theorem law4_of_star {t u : Term} (h : Star t u) (x y z w : Term) :
    Star (psubst (env [x, y, z, w]) t) (psubst (env [x, y, z, w]) u) := law_of_star h _

/-! ### obtaining the open-term reduction by computation -/

theorem star_of_iterNor {k : Nat} {t u : Term} (h : Iter stepNor k t u) : Star t u := by
  induction h with
  | zero _ => exact Star.refl _
  | succ hs _ ih => exact Star.head (stepNor_beta hs) ih

/-- iterate `stepNor` at most `k` times (stop early at a normal form) -/
def norSteps : Nat → Term → Term
  | 0, t => t
  | k + 1, t =>
    match stepNor t with
    | some t' => norSteps k t'
    | none => t

theorem star_norSteps (k : Nat) (t : Term) : Star t (norSteps k t) := by
  induction k generalizing t with
  | zero => exact Star.refl _
  | succ k ih =>
    unfold norSteps
    split
    · rename_i t' ht; exact Star.head (stepNor_beta ht) (ih t')
    · exact Star.refl _

/-- a law from a computation: `t` normal-order reduces in (at most) `k` steps to `u` -/
theorem law_of_norSteps (k : Nat) (t u : Term) (h : norSteps k t = u) (xs : List Term) :
    Star (psubst (env xs) t) (psubst (env xs) u) :=
  law_of_star (h ▸ star_norSteps k t) xs

/-! ### worked examples -/

namespace Example

def K : Term := abs (abs (var 2))
def S : Term := abs (abs (abs (app (app (var 3) (var 1)) (app (var 2) (var 1)))))

theorem K_closed : closedAt 0 K = true := by decide
theorem S_closed : closedAt 0 S = true := by decide

example (x y : Term) : Star (app (app K x) y) x := by
  have h := law_of_norSteps 2 (app (app K (var 1)) (var 2)) (var 1) (by decide) [x, y]
  simpa [psubst_closed, K_closed] using h

example (x y z : Term) : Star (app (app (app S x) y) z) (app (app x z) (app y z)) := by
  have h := law_of_norSteps 3 (app (app (app S (var 1)) (var 2)) (var 3))
    (app (app (var 1) (var 3)) (app (var 2) (var 3))) (by decide) [x, y, z]
  simpa [psubst_closed, S_closed] using h

/-- the simp set `psubst_app`, `psubst_env_var*`, `psubst_closed` (+ closedness fact) instantiates the placeholders -/
example (x y z : Term) :
    psubst (env [x, y, z]) (app (app (app S (var 1)) (var 2)) (var 3)) = app (app (app S x) y) z := by
  simp [psubst_closed, S_closed]

/-- the same with an explicit chain of β-steps on the open term -/
example (x y : Term) : Star (app (app K x) y) x := by
  have h0 : Star (app (app K (var 1)) (var 2)) (var 1) :=
    Star.head (Beta.congAppL (Beta.redc _ _)) (Star.head (Beta.redc _ _) (Star.refl _))
  simpa [psubst_closed, K_closed] using law_of_star h0 [x, y]

end Example

end Spec
end LC
