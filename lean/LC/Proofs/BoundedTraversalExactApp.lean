/-
The representation boundary of De Bruijn indices, part 9: `Ex` for the checked CBV and APP traversals
(see `Proofs/BoundedTraversalExact.lean`).
-/
import LC.Proofs.BoundedTraversalExactNor

namespace LC
namespace Term
open Spec

theorem betaCbvChk_ex (M L : Nat) : ∀ fuel t c, maxIndex t ≤ M → (L = 0 ∨ c ≤ L) →
    Ex M L stepCbv (betaCbvChk M L fuel t c) t c := by
  intro fuel
  induction fuel with
  | zero => intro t c _ _; trivial
  | succ fuel ih =>
    intro t c ht hc
    unfold betaCbvChk
    by_cases hg : gate L c = true
    · simp only [hg, if_true]; exact Ex.ret_of_prog (Prog.refl c ht) _
    · simp only [hg, Bool.false_eq_true, if_false]
      cases t with
      | var i => exact Ex.ret_of_prog (Prog.refl c ht) _
      | abs b => exact Ex.ret_of_prog (Prog.refl c ht) _
      | app l r =>
        simp only [maxIndex] at ht
        have hl : maxIndex l ≤ M := by omega
        have hr : maxIndex r ≤ M := by omega
        have ihl := ih l c hl hc
        simp only []
        cases hx : betaCbvChk M L fuel l c with
        | fuel => trivial
        | panic =>
          rw [hx] at ihl
          exact Bad.lift (C := fun x => app x r) hl (fun x => by simp only [maxIndex]; omega)
            (fun _ j a it => Iter.cbv_app_left r it) ihl
        | ret l' c1 =>
          rw [hx] at ihl
          obtain ⟨P1, hm1⟩ := betaOrdChk_post M .CBV L fuel l c l' c1 hl hc hx
          have hc1 := P1.budget_ok2
          have G1 : Prog M stepCbv (app l r) c (app l' r) c1 :=
            Prog.lift (C := fun x => app x r) P1 ihl (fun x hx => by simp only [maxIndex]; omega)
              (fun _ j a it => Iter.cbv_app_left r it)
          simp only []
          apply Ex.of_prog G1
          have ih2 := ih r c1 hr hc1
          cases hx2 : betaCbvChk M L fuel r c1 with
          | fuel => trivial
          | panic =>
            rw [hx2] at ih2
            exact Bad.lift (C := fun x => app l' x) hr (fun x => by simp only [maxIndex]; omega)
              (fun hb j a it => Iter.cbv_app_right l' (P1.nf hb) it) ih2
          | ret r' c2 =>
            rw [hx2] at ih2
            obtain ⟨P2, hm2⟩ := betaOrdChk_post M .CBV L fuel r c1 r' c2 hr hc1 hx2
            have hc2 := P2.budget_ok2
            have G2 : Prog M stepCbv (app l' r) c1 (app l' r') c2 :=
              Prog.lift (C := fun x => app l' x) P2 ih2 (fun x hx => by simp only [maxIndex]; omega)
                (fun hb j a it => Iter.cbv_app_right l' (P1.nf hb) it)
            simp only []
            apply Ex.of_prog G2
            cases l' with
            | abs b =>
              simp only []
              simp only [maxIndex] at hm1
              by_cases hb : budget L c2 = true
              · simp only [hb, if_true]
                have hstep : stepCbv (app (abs b) r') = some (contract b r') :=
                  stepCbv_app_red (P2.nf (budget_succ_ok hb))
                cases hk : contractChk M b r' with
                | none =>
                  exact Ex.panic_step hstep (contractChk_none_lt hm1 hm2 hk) (budget_succ_ok hb)
                | some u =>
                  obtain ⟨rfl, hu⟩ := contractChk_some_le hm1 hm2 hk
                  have G3 : Prog M stepCbv (app (abs b) r') c2 (contract b r') (c2 + 1) :=
                    Prog.step (by simp only [maxIndex]; omega) hstep hu
                  exact Ex.of_prog G3 (ih _ (c2 + 1) hu (budget_succ_ok hb))
              · simp only [hb]
                exact Ex.ret_of_prog (Prog.refl c2 (by simp only [maxIndex]; omega)) _
            | var i => exact Ex.ret_of_prog (Prog.refl c2 (by simp only [maxIndex] at hm1 ⊢; omega)) _
            | app a b => exact Ex.ret_of_prog (Prog.refl c2 (by simp only [maxIndex] at hm1 ⊢; omega)) _

theorem betaAppChk_ex (M L : Nat) : ∀ fuel t c, maxIndex t ≤ M → (L = 0 ∨ c ≤ L) →
    Ex M L stepApp (betaAppChk M L fuel t c) t c := by
  intro fuel
  induction fuel with
  | zero => intro t c _ _; trivial
  | succ fuel ih =>
    intro t c ht hc
    unfold betaAppChk
    by_cases hg : gate L c = true
    · simp only [hg, if_true]; exact Ex.ret_of_prog (Prog.refl c ht) _
    · simp only [hg, Bool.false_eq_true, if_false]
      cases t with
      | var i => exact Ex.ret_of_prog (Prog.refl c ht) _
      | abs b =>
        simp only [maxIndex] at ht
        have ihb := ih b c ht hc
        simp only []
        cases hx : betaAppChk M L fuel b c with
        | fuel => trivial
        | panic =>
          rw [hx] at ihb
          exact Bad.lift (C := abs) ht (fun x => Nat.le_refl _) (fun _ j a it => Iter.app_abs it) ihb
        | ret b' c1 =>
          rw [hx] at ihb
          obtain ⟨P1, hm1⟩ := betaOrdChk_post M .APP L fuel b c b' c1 ht hc hx
          exact Ex.ret_of_prog (Prog.lift (C := abs) P1 ihb (fun x hx => hx) (fun _ j a it => Iter.app_abs it)) _
      | app l r =>
        simp only [maxIndex] at ht
        have hl : maxIndex l ≤ M := by omega
        have hr : maxIndex r ≤ M := by omega
        have ihl := ih l c hl hc
        simp only []
        cases hx : betaAppChk M L fuel l c with
        | fuel => trivial
        | panic =>
          rw [hx] at ihl
          exact Bad.lift (C := fun x => app x r) hl (fun x => by simp only [maxIndex]; omega)
            (fun _ j a it => Iter.app_app_left r it) ihl
        | ret l' c1 =>
          rw [hx] at ihl
          obtain ⟨P1, hm1⟩ := betaOrdChk_post M .APP L fuel l c l' c1 hl hc hx
          have hc1 := P1.budget_ok2
          have G1 : Prog M stepApp (app l r) c (app l' r) c1 :=
            Prog.lift (C := fun x => app x r) P1 ihl (fun x hx => by simp only [maxIndex]; omega)
              (fun _ j a it => Iter.app_app_left r it)
          simp only []
          apply Ex.of_prog G1
          have ih2 := ih r c1 hr hc1
          cases hx2 : betaAppChk M L fuel r c1 with
          | fuel => trivial
          | panic =>
            rw [hx2] at ih2
            exact Bad.lift (C := fun x => app l' x) hr (fun x => by simp only [maxIndex]; omega)
              (fun hb j a it => Iter.app_app_right l' (P1.nf hb) it) ih2
          | ret r' c2 =>
            rw [hx2] at ih2
            obtain ⟨P2, hm2⟩ := betaOrdChk_post M .APP L fuel r c1 r' c2 hr hc1 hx2
            have hc2 := P2.budget_ok2
            have hle2 := P2.le
            have G2 : Prog M stepApp (app l' r) c1 (app l' r') c2 :=
              Prog.lift (C := fun x => app l' x) P2 ih2 (fun x hx => by simp only [maxIndex]; omega)
                (fun hb j a it => Iter.app_app_right l' (P1.nf hb) it)
            simp only []
            apply Ex.of_prog G2
            cases l' with
            | abs b =>
              simp only []
              simp only [maxIndex] at hm1
              by_cases hb : budget L c2 = true
              · simp only [hb, if_true]
                have hg2 := budget_succ_ok hb
                have hstep : stepApp (app (abs b) r') = some (contract b r') :=
                  stepApp_app_red (P1.nf (by omega)) (P2.nf hg2)
                cases hk : contractChk M b r' with
                | none =>
                  exact Ex.panic_step hstep (contractChk_none_lt hm1 hm2 hk) hg2
                | some u =>
                  obtain ⟨rfl, hu⟩ := contractChk_some_le hm1 hm2 hk
                  have G3 : Prog M stepApp (app (abs b) r') c2 (contract b r') (c2 + 1) :=
                    Prog.step (by simp only [maxIndex]; omega) hstep hu
                  exact Ex.of_prog G3 (ih _ (c2 + 1) hu hg2)
              · simp only [hb]
                exact Ex.ret_of_prog (Prog.refl c2 (by simp only [maxIndex]; omega)) _
            | var i => exact Ex.ret_of_prog (Prog.refl c2 (by simp only [maxIndex] at hm1 ⊢; omega)) _
            | app a b => exact Ex.ret_of_prog (Prog.refl c2 (by simp only [maxIndex] at hm1 ⊢; omega)) _

end Term
end LC
