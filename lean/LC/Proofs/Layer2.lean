/-
From a convergence theorem `t ↠ n` (n normal) to statements about the reducer itself:
* NOR and HNO with limit 0 return exactly `n` (termination included) — via C07;
* any of the four normalising orders, IF it returns, returns `n` — via C01/C03/C06
  (for HAP and APP termination itself is not implied by a general theorem).
-/
import LC.Props.C06
import LC.Props.C07

namespace LC
open Term Spec

theorem nor_hno_of_star {t n : Term} (h : Star t n) (hn : isNormal n = true) :
    (∃ fuel c, reduce .NOR 0 fuel t = some (n, c)) ∧ (∃ fuel c, reduce .HNO 0 fuel t = some (n, c)) :=
  ⟨C07_nor t n h ((isNormal_iff_normal n).1 hn), C07_hno t n h ((isNormal_iff_normal n).1 hn)⟩

theorem result_of_star {o : Order} (ho : normalising o) {t n : Term} (h : Star t n)
    (hn : isNormal n = true) {fuel : Nat} {r : Term} {c : Nat}
    (hr : reduce o 0 fuel t = some (r, c)) : r = n := by
  obtain ⟨h1, h2⟩ := C06_normalising_result o ho fuel t r c hr
  exact normal_unique h1 h (h2) ((isNormal_iff_normal n).1 hn)

/-- packaged: what a layer-1 convergence theorem yields about `reduce` -/
structure Computes (t n : Term) : Prop where
  conv : Star t n
  normal : isNormal n = true
  nor : ∃ fuel c, reduce .NOR 0 fuel t = some (n, c)
  hno : ∃ fuel c, reduce .HNO 0 fuel t = some (n, c)
  any : ∀ o, normalising o → ∀ fuel r c, reduce o 0 fuel t = some (r, c) → r = n

theorem computes_of_star {t n : Term} (h : Star t n) (hn : isNormal n = true) : Computes t n :=
  { conv := h, normal := hn, nor := (nor_hno_of_star h hn).1, hno := (nor_hno_of_star h hn).2,
    any := fun _ ho _ _ _ hr => result_of_star ho h hn hr }

end LC
