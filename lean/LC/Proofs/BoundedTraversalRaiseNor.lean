/-
The representation boundary of De Bruijn indices, part 13: `Raise` for the checked NOR, HSP and HNO traversals
(see `Proofs/BoundedTraversalRaise.lean`).
-/
import LC.Proofs.BoundedTraversalRaise

namespace LC
namespace Term

theorem betaNorChk_raise (M j : Nat) (hj : j ≠ 0) : ∀ fuel t c, maxIndex t ≤ M → c ≤ j →
    Raise j (betaNorChk M j fuel t c) (betaNorChk M 0 fuel t c) := by
  intro fuel
  induction fuel with
  | zero => intro t c _ _; exact Raise.fuel _ _
  | succ fuel ih =>
    intro t c ht hc
    unfold betaNorChk
    by_cases hg : gate j c = true
    · simp only [hg, if_true]
      have : ¬ c < j := by
        intro hlt
        simp only [gate, Bool.and_eq_true, beq_iff_eq] at hg
        omega
      exact Raise.ret_ge (by omega)
    · have hcj := not_gate_lt hj hc hg
      simp only [hg, gate_zero, Bool.false_eq_true, if_false]
      cases t with
      | var i => exact Raise.refl _ _
      | abs b =>
        simp only [maxIndex] at ht
        have R1 := ih b c ht hc
        simp only []
        cases hx : betaNorChk M j fuel b c with
        | fuel => exact Raise.fuel _ _
        | panic => rw [hx] at R1; rw [R1.1 rfl]; exact Raise.refl _ _
        | ret b' c1 =>
          rw [hx] at R1
          simp only []
          by_cases hlt : c1 < j
          · rw [R1.2 b' c1 rfl hlt]; exact Raise.refl _ _
          · exact Raise.ret_ge (by omega)
      | app l r =>
        simp only [maxIndex] at ht
        have hl : maxIndex l ≤ M := by omega
        have hr : maxIndex r ≤ M := by omega
        have R1 := betaCbnChk_raise M j hj fuel l c hl hc
        simp only []
        cases hx : betaCbnChk M j fuel l c with
        | fuel => exact Raise.fuel _ _
        | panic => rw [hx] at R1; rw [R1.1 rfl]; exact Raise.refl _ _
        | ret l' c1 =>
          rw [hx] at R1
          obtain ⟨P1, hm1⟩ := betaOrdChk_post M .CBN j fuel l c l' c1 hl (Or.inr hc) hx
          have hle1 : c1 ≤ j := by have := P1.budget_ok2; omega
          simp only []
          by_cases hlt : c1 < j
          · rw [R1.2 l' c1 rfl hlt]
            simp only []
            have hb : budget j c1 = true := budget_of_guard (by omega)
            simp only [hb, budget_zero, Bool.and_true]
            by_cases hia : isAbs l' = true
            · simp only [hia, if_true]
              cases l' with
              | var i => simp [isAbs] at hia
              | app a b => simp [isAbs] at hia
              | abs b =>
                simp only []
                cases hk : contractChk M b r with
                | none => exact Raise.refl _ _
                | some u =>
                  simp only [maxIndex] at hm1
                  obtain ⟨rfl, hu⟩ := contractChk_some_le hm1 hr hk
                  exact ih _ (c1 + 1) hu (by omega)
            · simp only [hia]
              have R2 := ih l' c1 hm1 hle1
              cases hx2 : betaNorChk M j fuel l' c1 with
              | fuel => exact Raise.fuel _ _
              | panic => rw [hx2] at R2; rw [R2.1 rfl]; exact Raise.refl _ _
              | ret l2 c2 =>
                rw [hx2] at R2
                obtain ⟨P2, hm2⟩ := betaOrdChk_post M .NOR j fuel l' c1 l2 c2 hm1 (Or.inr hle1) hx2
                have hle2 : c2 ≤ j := by have := P2.budget_ok2; omega
                simp only []
                by_cases hlt2 : c2 < j
                · rw [R2.2 l2 c2 rfl hlt2]
                  simp only []
                  have R3 := ih r c2 hr hle2
                  cases hx3 : betaNorChk M j fuel r c2 with
                  | fuel => exact Raise.fuel _ _
                  | panic => rw [hx3] at R3; rw [R3.1 rfl]; exact Raise.refl _ _
                  | ret r' c3 =>
                    rw [hx3] at R3
                    simp only []
                    by_cases hlt3 : c3 < j
                    · rw [R3.2 r' c3 rfl hlt3]; exact Raise.refl _ _
                    · exact Raise.ret_ge (by omega)
                · rcases betaNorChk_at_limit M hj fuel r c2 (by omega) with h3 | h3
                  · rw [h3]; exact Raise.fuel _ _
                  · rw [h3]; exact Raise.ret_ge (by omega)
          · have hb : budget j c1 = false := budget_limit hj (by omega)
            simp only [hb, Bool.and_false, Bool.false_eq_true, if_false]
            rcases betaNorChk_at_limit M hj fuel l' c1 (by omega) with h2 | h2
            · rw [h2]; exact Raise.fuel _ _
            · rw [h2]
              simp only []
              rcases betaNorChk_at_limit M hj fuel r c1 (by omega) with h3 | h3
              · rw [h3]; exact Raise.fuel _ _
              · rw [h3]; exact Raise.ret_ge (by omega)

theorem betaHspChk_raise (M j : Nat) (hj : j ≠ 0) : ∀ fuel t c, maxIndex t ≤ M → c ≤ j →
    Raise j (betaHspChk M j fuel t c) (betaHspChk M 0 fuel t c) := by
  intro fuel
  induction fuel with
  | zero => intro t c _ _; exact Raise.fuel _ _
  | succ fuel ih =>
    intro t c ht hc
    unfold betaHspChk
    by_cases hg : gate j c = true
    · simp only [hg, if_true]
      have : ¬ c < j := by
        intro hlt
        simp only [gate, Bool.and_eq_true, beq_iff_eq] at hg
        omega
      exact Raise.ret_ge (by omega)
    · have hcj := not_gate_lt hj hc hg
      simp only [hg, gate_zero, Bool.false_eq_true, if_false]
      cases t with
      | var i => exact Raise.refl _ _
      | abs b =>
        simp only [maxIndex] at ht
        have R1 := ih b c ht hc
        simp only []
        cases hx : betaHspChk M j fuel b c with
        | fuel => exact Raise.fuel _ _
        | panic => rw [hx] at R1; rw [R1.1 rfl]; exact Raise.refl _ _
        | ret b' c1 =>
          rw [hx] at R1
          simp only []
          by_cases hlt : c1 < j
          · rw [R1.2 b' c1 rfl hlt]; exact Raise.refl _ _
          · exact Raise.ret_ge (by omega)
      | app l r =>
        simp only [maxIndex] at ht
        have hl : maxIndex l ≤ M := by omega
        have hr : maxIndex r ≤ M := by omega
        have R1 := ih l c hl hc
        simp only []
        cases hx : betaHspChk M j fuel l c with
        | fuel => exact Raise.fuel _ _
        | panic => rw [hx] at R1; rw [R1.1 rfl]; exact Raise.refl _ _
        | ret l' c1 =>
          rw [hx] at R1
          obtain ⟨P1, hm1⟩ := betaOrdChk_post M .HSP j fuel l c l' c1 hl (Or.inr hc) hx
          have hle1 : c1 ≤ j := by have := P1.budget_ok2; omega
          simp only []
          by_cases hlt : c1 < j
          · rw [R1.2 l' c1 rfl hlt]
            simp only []
            have hb : budget j c1 = true := budget_of_guard (by omega)
            cases l' with
            | abs b =>
              simp only [hb, budget_zero, if_true]
              cases hk : contractChk M b r with
              | none => exact Raise.refl _ _
              | some u =>
                simp only [maxIndex] at hm1
                obtain ⟨rfl, hu⟩ := contractChk_some_le hm1 hr hk
                exact ih _ (c1 + 1) hu (by omega)
            | var i => exact Raise.refl _ _
            | app a b => exact Raise.refl _ _
          · have hb : budget j c1 = false := budget_limit hj (by omega)
            cases l' with
            | abs b => simp only [hb, Bool.false_eq_true, if_false]; exact Raise.ret_ge (by omega)
            | var i => exact Raise.ret_ge (by omega)
            | app a b => exact Raise.ret_ge (by omega)

theorem betaHnoChk_raise (M j : Nat) (hj : j ≠ 0) : ∀ fuel t c, maxIndex t ≤ M → c ≤ j →
    Raise j (betaHnoChk M j fuel t c) (betaHnoChk M 0 fuel t c) := by
  intro fuel
  induction fuel with
  | zero => intro t c _ _; exact Raise.fuel _ _
  | succ fuel ih =>
    intro t c ht hc
    unfold betaHnoChk
    by_cases hg : gate j c = true
    · simp only [hg, if_true]
      have : ¬ c < j := by
        intro hlt
        simp only [gate, Bool.and_eq_true, beq_iff_eq] at hg
        omega
      exact Raise.ret_ge (by omega)
    · have hcj := not_gate_lt hj hc hg
      simp only [hg, gate_zero, Bool.false_eq_true, if_false]
      cases t with
      | var i => exact Raise.refl _ _
      | abs b =>
        simp only [maxIndex] at ht
        have R1 := ih b c ht hc
        simp only []
        cases hx : betaHnoChk M j fuel b c with
        | fuel => exact Raise.fuel _ _
        | panic => rw [hx] at R1; rw [R1.1 rfl]; exact Raise.refl _ _
        | ret b' c1 =>
          rw [hx] at R1
          simp only []
          by_cases hlt : c1 < j
          · rw [R1.2 b' c1 rfl hlt]; exact Raise.refl _ _
          · exact Raise.ret_ge (by omega)
      | app l r =>
        simp only [maxIndex] at ht
        have hl : maxIndex l ≤ M := by omega
        have hr : maxIndex r ≤ M := by omega
        have R1 := betaHspChk_raise M j hj fuel l c hl hc
        simp only []
        cases hx : betaHspChk M j fuel l c with
        | fuel => exact Raise.fuel _ _
        | panic => rw [hx] at R1; rw [R1.1 rfl]; exact Raise.refl _ _
        | ret l' c1 =>
          rw [hx] at R1
          obtain ⟨P1, hm1⟩ := betaOrdChk_post M .HSP j fuel l c l' c1 hl (Or.inr hc) hx
          have hle1 : c1 ≤ j := by have := P1.budget_ok2; omega
          simp only []
          by_cases hlt : c1 < j
          · rw [R1.2 l' c1 rfl hlt]
            simp only []
            have hb : budget j c1 = true := budget_of_guard (by omega)
            simp only [hb, budget_zero, Bool.and_true]
            by_cases hia : isAbs l' = true
            · simp only [hia, if_true]
              cases l' with
              | var i => simp [isAbs] at hia
              | app a b => simp [isAbs] at hia
              | abs b =>
                simp only []
                cases hk : contractChk M b r with
                | none => exact Raise.refl _ _
                | some u =>
                  simp only [maxIndex] at hm1
                  obtain ⟨rfl, hu⟩ := contractChk_some_le hm1 hr hk
                  exact ih _ (c1 + 1) hu (by omega)
            · simp only [hia]
              have R2 := ih l' c1 hm1 hle1
              cases hx2 : betaHnoChk M j fuel l' c1 with
              | fuel => exact Raise.fuel _ _
              | panic => rw [hx2] at R2; rw [R2.1 rfl]; exact Raise.refl _ _
              | ret l2 c2 =>
                rw [hx2] at R2
                obtain ⟨P2, hm2⟩ := betaOrdChk_post M .HNO j fuel l' c1 l2 c2 hm1 (Or.inr hle1) hx2
                have hle2 : c2 ≤ j := by have := P2.budget_ok2; omega
                simp only []
                by_cases hlt2 : c2 < j
                · rw [R2.2 l2 c2 rfl hlt2]
                  simp only []
                  have R3 := ih r c2 hr hle2
                  cases hx3 : betaHnoChk M j fuel r c2 with
                  | fuel => exact Raise.fuel _ _
                  | panic => rw [hx3] at R3; rw [R3.1 rfl]; exact Raise.refl _ _
                  | ret r' c3 =>
                    rw [hx3] at R3
                    simp only []
                    by_cases hlt3 : c3 < j
                    · rw [R3.2 r' c3 rfl hlt3]; exact Raise.refl _ _
                    · exact Raise.ret_ge (by omega)
                · rcases betaHnoChk_at_limit M hj fuel r c2 (by omega) with h3 | h3
                  · rw [h3]; exact Raise.fuel _ _
                  · rw [h3]; exact Raise.ret_ge (by omega)
          · have hb : budget j c1 = false := budget_limit hj (by omega)
            simp only [hb, Bool.and_false, Bool.false_eq_true, if_false]
            rcases betaHnoChk_at_limit M hj fuel l' c1 (by omega) with h2 | h2
            · rw [h2]; exact Raise.fuel _ _
            · rw [h2]
              simp only []
              rcases betaHnoChk_at_limit M hj fuel r c1 (by omega) with h3 | h3
              · rw [h3]; exact Raise.fuel _ _
              · rw [h3]; exact Raise.ret_ge (by omega)

end Term
end LC
