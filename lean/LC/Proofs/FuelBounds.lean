/-
Fuel (= depth of the call tree of the traversals of `Model/Reduce.lean`) as a quantity:
definitions (`height`, the self-application `FB.W`, `FB.Om = Ω`) and the exact fuel the seven
traversals need on `Ω` under a limit `L ≠ 0`: the call depth grows linearly with the number of
contractions although the term never grows (DESIGN §9, "Stack exhaustion").
-/
import LC.Proofs.ReduceLemmas
import LC.Proofs.Complete.All

namespace LC
namespace Term

/-- nesting depth of a term (a variable has height 0) -/
def height : Term → Nat
  | var _ => 0
  | abs b => height b + 1
  | app l r => max (height l) (height r) + 1

namespace FB

/-- `λx. x x` -/
abbrev W : Term := abs (app (var 1) (var 1))
/-- `Ω = (λx. x x)(λx. x x)` -/
abbrev Om : Term := app W W

theorem contract_W : contract (app (var 1) (var 1)) W = Om := by decide

/-- the constant `k` of the exact fuel `L + k` an order needs on `Ω` under limit `L` -/
def omK : Order → Nat
  | .NOR | .CBN | .CBV => 1
  | _ => 3

theorem gate_lt {L c : Nat} (h : c < L) : gate L c = false := by
  simp [gate]; omega
theorem gate_self {L : Nat} (h : L ≠ 0) : gate L L = true := by
  simp [gate, h]
theorem budget_lt {L c : Nat} (h : c < L) : budget L c = true := by
  simp [budget, h]

/-! ### the operand / operator `W` alone -/

theorem cbn_W (L f c : Nat) : betaCbn L (f+1) W c = some (W, c) := by
  by_cases hg : gate L c = true <;> simp [betaCbn, W, hg]
theorem cbv_W (L f c : Nat) : betaCbv L (f+1) W c = some (W, c) := by
  by_cases hg : gate L c = true <;> simp [betaCbv, W, hg]

theorem hsp_W (L f c : Nat) (hg : gate L c = false) :
    betaHsp L f W c = if 3 ≤ f then some (W, c) else none := by
  match f with
  | 0 => simp [betaHsp]
  | 1 => simp [betaHsp, hg]
  | 2 => simp [betaHsp, hg]
  | f+3 => simp [betaHsp, W, hg]
theorem app_W (L f c : Nat) (hg : gate L c = false) :
    betaApp L f W c = if 3 ≤ f then some (W, c) else none := by
  match f with
  | 0 => simp [betaApp]
  | 1 => simp [betaApp, hg]
  | 2 => simp [betaApp, hg]
  | f+3 => simp [betaApp, W, hg]
theorem hap_W (L f c : Nat) (hg : gate L c = false) :
    betaHap L f W c = if 3 ≤ f then some (W, c) else none := by
  match f with
  | 0 => simp [betaHap]
  | 1 => simp [betaHap, hg]
  | 2 => simp [betaHap, betaCbv, hg]
  | f+3 => simp [betaHap, W, betaCbv, hg, isAbs]

/-! ### one unfolding on `Ω` below the limit -/

theorem cbn_Om_succ (L f c : Nat) (h : c < L) :
    betaCbn L (f+1) Om c = if 1 ≤ f then betaCbn L f Om (c+1) else none := by
  show betaCbn L (f+1) (app (abs (app (var 1) (var 1))) (abs (app (var 1) (var 1)))) c = _
  rw [betaCbn]
  cases f with
  | zero => simp [betaCbn, gate_lt h]
  | succ f => simp [gate_lt h, cbn_W, budget_lt h, contract_W]
theorem nor_Om_succ (L f c : Nat) (h : c < L) :
    betaNor L (f+1) Om c = if 1 ≤ f then betaNor L f Om (c+1) else none := by
  show betaNor L (f+1) (app (abs (app (var 1) (var 1))) (abs (app (var 1) (var 1)))) c = _
  rw [betaNor]
  cases f with
  | zero => simp [betaCbn, gate_lt h]
  | succ f => simp [gate_lt h, cbn_W, budget_lt h, contract_W, isAbs]
theorem cbv_Om_succ (L f c : Nat) (h : c < L) :
    betaCbv L (f+1) Om c = if 1 ≤ f then betaCbv L f Om (c+1) else none := by
  show betaCbv L (f+1) (app (abs (app (var 1) (var 1))) (abs (app (var 1) (var 1)))) c = _
  rw [betaCbv]
  cases f with
  | zero => simp [betaCbv, gate_lt h]
  | succ f => simp [gate_lt h, cbv_W, budget_lt h, contract_W]
theorem hsp_Om_succ (L f c : Nat) (h : c < L) :
    betaHsp L (f+1) Om c = if 3 ≤ f then betaHsp L f Om (c+1) else none := by
  show betaHsp L (f+1) (app (abs (app (var 1) (var 1))) (abs (app (var 1) (var 1)))) c = _
  rw [betaHsp]
  by_cases h3 : 3 ≤ f <;> simp [gate_lt h, hsp_W, h3, budget_lt h, contract_W]
theorem hno_Om_succ (L f c : Nat) (h : c < L) :
    betaHno L (f+1) Om c = if 3 ≤ f then betaHno L f Om (c+1) else none := by
  show betaHno L (f+1) (app (abs (app (var 1) (var 1))) (abs (app (var 1) (var 1)))) c = _
  rw [betaHno]
  by_cases h3 : 3 ≤ f <;> simp [gate_lt h, hsp_W, h3, budget_lt h, contract_W, isAbs]
theorem app_Om_succ (L f c : Nat) (h : c < L) :
    betaApp L (f+1) Om c = if 3 ≤ f then betaApp L f Om (c+1) else none := by
  show betaApp L (f+1) (app (abs (app (var 1) (var 1))) (abs (app (var 1) (var 1)))) c = _
  rw [betaApp]
  by_cases h3 : 3 ≤ f <;> simp [gate_lt h, app_W, h3, budget_lt h, contract_W]
theorem hap_Om_succ (L f c : Nat) (h : c < L) :
    betaHap L (f+1) Om c = if 3 ≤ f then betaHap L f Om (c+1) else none := by
  show betaHap L (f+1) (app (abs (app (var 1) (var 1))) (abs (app (var 1) (var 1)))) c = _
  rw [betaHap]
  by_cases h3 : 3 ≤ f
  · obtain ⟨g, rfl⟩ : ∃ g, f = g + 1 := ⟨f - 1, by omega⟩
    simp [gate_lt h, hap_W, cbv_W, h3, budget_lt h, contract_W, isAbs]
  · cases f with
    | zero => simp [gate_lt h, betaCbv]
    | succ g => simp [gate_lt h, hap_W, cbv_W, h3]

theorem omK_pos (o : Order) : 1 ≤ omK o := by cases o <;> simp [omK]

theorem ord_Om_zero (o : Order) (L c : Nat) : betaOrd o L 0 Om c = none := by
  cases o <;> simp [betaOrd, betaCbn, betaNor, betaCbv, betaApp, betaHap, betaHsp, betaHno]

theorem ord_Om_gate (o : Order) (L f : Nat) (hL : L ≠ 0) : betaOrd o L (f+1) Om L = some (Om, L) := by
  cases o <;> simp [betaOrd, betaCbn, betaNor, betaCbv, betaApp, betaHap, betaHsp, betaHno, gate_self hL]

theorem ord_Om_succ (o : Order) (L f c : Nat) (h : c < L) :
    betaOrd o L (f+1) Om c = if omK o ≤ f then betaOrd o L f Om (c+1) else none := by
  cases o <;> simp only [betaOrd, omK]
  · exact nor_Om_succ L f c h
  · exact cbn_Om_succ L f c h
  · exact hsp_Om_succ L f c h
  · exact hno_Om_succ L f c h
  · exact app_Om_succ L f c h
  · exact cbv_Om_succ L f c h
  · exact hap_Om_succ L f c h

/-- the exact behaviour of every traversal on `Ω` below the limit: it returns (with `Ω` and the
full count `L`) iff the fuel is at least the number of remaining contractions plus `omK o` -/
theorem ord_Om (o : Order) (L : Nat) : ∀ f c, c < L →
    betaOrd o L f Om c = if L - c + omK o ≤ f then some (Om, L) else none := by
  intro f
  have hk := omK_pos o
  induction f with
  | zero =>
    intro c _
    rw [ord_Om_zero, if_neg (by omega)]
  | succ f ih =>
    intro c hc
    rw [ord_Om_succ o L f c hc]
    by_cases hkf : omK o ≤ f
    · rw [if_pos hkf]
      by_cases hcl : c + 1 = L
      · obtain ⟨g, rfl⟩ : ∃ g, f = g + 1 := ⟨f - 1, by omega⟩
        rw [hcl, ord_Om_gate o L g (by omega), if_pos (by omega)]
      · rw [ih (c+1) (by omega)]
        by_cases hle : L - (c + 1) + omK o ≤ f
        · rw [if_pos hle, if_pos (by omega)]
        · rw [if_neg hle, if_neg (by omega)]
    · rw [if_neg hkf, if_neg (by omega)]

/-- `reduce` on `Ω` under a non-zero limit, as a function of the fuel -/
theorem reduce_Om (o : Order) (L fuel : Nat) (hL : L ≠ 0) :
    reduce o L fuel Om = if L + omK o ≤ fuel then some (Om, L) else none := by
  have := ord_Om o L fuel 0 (by omega)
  simpa [reduce] using this

end FB
end Term
end LC
