/-
Freshness and injectivity for `udToFree k d`: when the outer reference number `k + 1` does not occur in a term
(`freeInAux d (k+1) t = false`: no `var i` under `m` binders of `t` has `i = k + 1 + d + m`), renaming UD to that
reference loses nothing: `udToFree k d` is injective on such terms and `freeToUD k d` is its inverse.  Freshness is
preserved by β-reduction, hence by `reduce`.
-/
import LC.Proofs.UDParamReduce
import LC.Proofs.FreeVars
import LC.Proofs.ReduceLemmas

namespace LC
namespace Term
open Spec

/-- the inverse renaming: the outer reference number `k + 1` (`var (k + d + 1)` under `d` binders) becomes UD -/
def freeToUD (k : Nat) (d : Nat) : Term → Term
  | var i => if i = k + d + 1 then var 0 else var i
  | abs b => abs (freeToUD k (d + 1) b)
  | app l r => app (freeToUD k d l) (freeToUD k d r)

/-- a `maxIndex`-style bound: every `var i` under `e` binders (counted from `e` outside) has `i ≤ e + k`, i.e. every
outer reference number of the term is at most `k` -/
def udBound (k : Nat) (e : Nat) : Term → Bool
  | var i => decide (i ≤ e + k)
  | abs b => udBound k (e + 1) b
  | app l r => udBound k e l && udBound k e r

theorem fresh_of_udBound (k e : Nat) (t : Term) (h : udBound k e t = true) : freeInAux e (k + 1) t = false := by
  induction t generalizing e with
  | var i => simp only [udBound, decide_eq_true_eq] at h; simp only [freeInAux, beq_eq_false_iff_ne, ne_eq]; omega
  | abs b ih => exact ih (e + 1) h
  | app l r ihl ihr =>
    simp only [udBound, Bool.and_eq_true] at h
    simp only [freeInAux, Bool.or_eq_false_iff]
    exact ⟨ihl e h.1, ihr e h.2⟩

theorem udBound_of_maxIndex (k e : Nat) (t : Term) (h : maxIndex t ≤ k + e) : udBound k e t = true := by
  induction t generalizing e with
  | var i => simp only [maxIndex] at h; simp only [udBound, decide_eq_true_eq]; omega
  | abs b ih => exact ih (e + 1) (by simp only [maxIndex] at h; omega)
  | app l r ihl ihr =>
    simp only [maxIndex] at h
    simp only [udBound, Bool.and_eq_true]
    exact ⟨ihl e (by omega), ihr e (by omega)⟩

theorem fresh_of_maxIndex (k e : Nat) (t : Term) (h : maxIndex t ≤ k + e) : freeInAux e (k + 1) t = false :=
  fresh_of_udBound k e t (udBound_of_maxIndex k e t h)

/-- on a term in which reference `k + 1` is fresh, `freeToUD` undoes `udToFree` -/
theorem freeToUD_udToFree (k d : Nat) (t : Term) (h : freeInAux d (k + 1) t = false) :
    freeToUD k d (udToFree k d t) = t := by
  induction t generalizing d with
  | var i =>
    cases i with
    | zero => simp [udToFree, freeToUD]
    | succ i =>
      simp only [freeInAux, beq_eq_false_iff_ne, ne_eq] at h
      have : ¬ (i + 1 = k + d + 1) := by omega
      simp only [udToFree, freeToUD, this, if_false]
  | abs b ih => simp only [udToFree, freeToUD]; rw [ih (d + 1) h]
  | app l r ihl ihr =>
    simp only [freeInAux, Bool.or_eq_false_iff] at h
    simp only [udToFree, freeToUD]; rw [ihl d h.1, ihr d h.2]

/-- `udToFree k d` is injective on terms in which reference `k + 1` is fresh -/
theorem udToFree_injective (k d : Nat) (t u : Term) (ht : freeInAux d (k + 1) t = false)
    (hu : freeInAux d (k + 1) u = false) (h : udToFree k d t = udToFree k d u) : t = u := by
  rw [← freeToUD_udToFree k d t ht, ← freeToUD_udToFree k d u hu, h]

/-- after the renaming no UD is left -/
theorem hasUD_udToFree (k d : Nat) (t : Term) : hasUD (udToFree k d t) = false := by
  induction t generalizing d with
  | var i => cases i <;> simp [udToFree, hasUD]
  | abs b ih => simp [hasUD, ih]
  | app l r ihl ihr => simp [hasUD, ihl, ihr]

/-- a term without UD is not changed -/
theorem udToFree_of_not_hasUD (k d : Nat) (t : Term) (h : hasUD t = false) : udToFree k d t = t := by
  induction t generalizing d with
  | var i => cases i <;> simp [hasUD] at h ⊢
  | abs b ih => simp only [hasUD] at h; simp [ih (d + 1) h]
  | app l r ihl ihr =>
    simp only [hasUD, Bool.or_eq_false_iff] at h
    simp [ihl d h.1, ihr d h.2]

/-- the renamed term mentions reference `k + 1` exactly when the original mentions UD (given freshness) -/
theorem freeInAux_udToFree (k d : Nat) (t : Term) (h : freeInAux d (k + 1) t = false) :
    freeInAux d (k + 1) (udToFree k d t) = hasUD t := by
  induction t generalizing d with
  | var i =>
    cases i with
    | zero => simp [udToFree, freeInAux, hasUD]; omega
    | succ i => simpa [udToFree, hasUD] using h
  | abs b ih => simp only [udToFree, freeInAux, hasUD]; exact ih (d + 1) h
  | app l r ihl ihr =>
    simp only [freeInAux, Bool.or_eq_false_iff] at h
    simp only [udToFree, freeInAux, hasUD, ihl d h.1, ihr d h.2]

theorem fresh_star {t u : Term} (hs : Star t u) (d j : Nat) (hj : 1 ≤ j) (h : freeInAux d j t = false) :
    freeInAux d j u = false := by
  induction hs with
  | refl _ => exact h
  | head hb _ ih =>
    apply ih
    cases hx : freeInAux d j _ with
    | false => rfl
    | true => rw [freeInAux_beta hb d j hj hx] at h; cases h

/-- freshness of a reference is preserved by `reduce` -/
theorem fresh_reduce {o : Order} {L fuel : Nat} {t t' : Term} {c : Nat} (h : reduce o L fuel t = some (t', c))
    (d k : Nat) (hk : freeInAux d (k + 1) t = false) : freeInAux d (k + 1) t' = false :=
  fresh_star (RL.reduce_star h) d (k + 1) (by omega) hk

end Term
end LC
