/-
The representation boundary of De Bruijn indices, part 6: the checked traversals are EXACTLY the checked small-step
runs (all limits, all fuels).

`Proofs/BoundedTraversal*.lean` relate the checked traversal to the unbounded one (`ChkRel`): a returning checked call
returns the unbounded answer.  Here the missing half is threaded through the same traversals:

* `Ex M L f x t c` for the answer `x` of a checked call on `t` started at count `c`:
  - `x = ret t' c'` → `c' = c + k` and ALL iterates `0 … k` of the strategy `f` from `t` are representable
    (`RunLe M f k t`);
  - `x = panic` → some iterate of `f` from `t`, reached within the limit, is NOT representable (`Bad M L f c t`);
  - `x = fuel` → nothing.
* `betaXChk_ex`: `Ex M L stepX (betaXChk M L fuel t c) t c` for every order, limit, fuel, count and representable input.

The proofs reuse the unbounded refinement (`Proofs/Refine/*`): for a returning sub-call `betaOrdChk_post` gives its
`Post`-condition (the sub-run of the strategy), and the lifting lemmas of `Refine` (`Iter.cbn_app`, `Iter.nor_app_left`,
…) are turned into liftings of `RunLe` / `Bad` by determinism of `Iter` (`Prog.lift`, `Bad.lift`).  `Prog M g T c U c1`
is the progress made so far inside one call: `U` is the `(c1 - c)`-th iterate of `g` from `T` and all iterates up to it are
representable.
-/
import LC.Proofs.BoundedTraversalHap
import LC.Proofs.BoundedRun

namespace LC
namespace Term

/-- some iterate of `f` from `t`, reached within the limit when counting from `c`, is not representable -/
def Bad (M L : Nat) (f : Term → Option Term) (c : Nat) (t : Term) : Prop :=
  ∃ k u, Iter f k t u ∧ M < maxIndex u ∧ (L = 0 ∨ c + k ≤ L)

/-- what the answer of a checked traversal says about the iterates of the strategy (see the header) -/
def Ex (M L : Nat) (f : Term → Option Term) (x : ChkRes) (t : Term) (c : Nat) : Prop :=
  match x with
  | .fuel => True
  | .ret _ c' => ∃ k, c' = c + k ∧ RunLe M f k t
  | .panic => Bad M L f c t

/-- progress inside a call: `U` is the `(c1 - c)`-th iterate of `g` from `T`, all iterates up to it representable -/
def Prog (M : Nat) (g : Term → Option Term) (T : Term) (c : Nat) (U : Term) (c1 : Nat) : Prop :=
  ∃ k, c1 = c + k ∧ Iter g k T U ∧ RunLe M g k T

theorem RunLe.trans {M k m : Nat} {f : Term → Option Term} {t u : Term} (it : Iter f k t u)
    (h1 : RunLe M f k t) (h2 : RunLe M f m u) : RunLe M f (k + m) t := by
  intro j w hj itw
  by_cases hjk : j ≤ k
  · exact h1 j w hjk itw
  · obtain ⟨u', i1, i2⟩ := Iter.split k (by omega) itw
    have := Iter.det i1 it
    subst this
    exact h2 (j - k) w (by omega) i2

theorem Prog.refl {M : Nat} {g : Term → Option Term} {T : Term} (c : Nat) (h : maxIndex T ≤ M) :
    Prog M g T c T c :=
  ⟨0, rfl, Iter.zero _, RunLe.zero h⟩

theorem Prog.trans {M : Nat} {g : Term → Option Term} {T U V : Term} {c c1 c2 : Nat}
    (h1 : Prog M g T c U c1) (h2 : Prog M g U c1 V c2) : Prog M g T c V c2 := by
  obtain ⟨k1, e1, i1, r1⟩ := h1
  obtain ⟨k2, e2, i2, r2⟩ := h2
  exact ⟨k1 + k2, by omega, i1.trans i2, RunLe.trans i1 r1 r2⟩

theorem Prog.step {M : Nat} {g : Term → Option Term} {T U : Term} {c : Nat}
    (hT : maxIndex T ≤ M) (hs : g T = some U) (hU : maxIndex U ≤ M) : Prog M g T c U (c + 1) :=
  ⟨1, rfl, Iter.one hs, RunLe.succ hT hs (RunLe.zero hU)⟩

theorem Prog.iter {M : Nat} {g : Term → Option Term} {T U : Term} {c c1 : Nat}
    (h : Prog M g T c U c1) : Iter g (c1 - c) T U := by
  obtain ⟨k, e, it, _⟩ := h
  exact it.cast (by omega)

/-- a returning sub-call (its `Post`-condition and its `Ex`) seen inside the context `C`, given the lifting of the
sub-strategy's runs into the context (needed only if the sub-call contracts at all, hence only if budget is left) -/
theorem Prog.lift {M L : Nat} {f g : Term → Option Term} {C : Term → Term} {l l' : Term} {c c1 : Nat}
    (P : Post f L c l l' c1) (E : Ex M L f (.ret l' c1) l c)
    (hC : ∀ x, maxIndex x ≤ M → maxIndex (C x) ≤ M)
    (hl : (L = 0 ∨ c + 1 ≤ L) → ∀ j a, Iter f j l a → Iter g j (C l) (C a)) :
    Prog M g (C l) c (C l') c1 := by
  obtain ⟨k, e, it, hle, _⟩ := P
  obtain ⟨k', e', r⟩ := E
  have : k' = k := by omega
  subst this
  by_cases hk : k' = 0
  · subst hk
    cases it
    exact ⟨0, e, Iter.zero _, RunLe.zero (hC _ r.start)⟩
  · have hb : L = 0 ∨ c + 1 ≤ L := by
      by_cases h0 : L = 0
      · exact Or.inl h0
      · have := hle h0; right; omega
    have lf := hl hb
    refine ⟨k', e, lf _ _ it, ?_⟩
    intro j w hj itw
    obtain ⟨a, i1, _⟩ := Iter.split j hj it
    have := Iter.det itw (lf _ _ i1)
    subst this
    exact hC _ (r j a hj i1)

/-- a panicking sub-call seen inside the context `C` -/
theorem Bad.lift {M L : Nat} {f g : Term → Option Term} {C : Term → Term} {l : Term} {c : Nat}
    (hm : maxIndex l ≤ M) (hC : ∀ x, maxIndex x ≤ maxIndex (C x))
    (hl : (L = 0 ∨ c + 1 ≤ L) → ∀ j a, Iter f j l a → Iter g j (C l) (C a))
    (h : Bad M L f c l) : Bad M L g c (C l) := by
  obtain ⟨k, u, it, hu, hb⟩ := h
  have hk : k ≠ 0 := by
    rintro rfl
    cases it
    omega
  exact ⟨k, C u, hl (by omega) _ _ it, by have := hC u; omega, hb⟩

/-- the rest of the call after the progress `p` -/
theorem Ex.of_prog {M L : Nat} {g : Term → Option Term} {T U : Term} {c c1 : Nat} {x : ChkRes}
    (p : Prog M g T c U c1) (h : Ex M L g x U c1) : Ex M L g x T c := by
  obtain ⟨k, e, it, r⟩ := p
  cases x with
  | fuel => trivial
  | ret t' c' =>
    obtain ⟨k2, e2, r2⟩ := h
    exact ⟨k + k2, by omega, RunLe.trans it r r2⟩
  | panic =>
    obtain ⟨k2, u, it2, hu, hb⟩ := h
    exact ⟨k + k2, u, it.trans it2, hu, by omega⟩

theorem Ex.ret_of_prog {M L : Nat} {g : Term → Option Term} {T U : Term} {c c1 : Nat}
    (p : Prog M g T c U c1) (t' : Term) : Ex M L g (.ret t' c1) T c := by
  obtain ⟨k, e, _, r⟩ := p
  exact ⟨k, e, r⟩

/-- the panic of `eval`: the next iterate is not representable -/
theorem Ex.panic_step {M L : Nat} {g : Term → Option Term} {U V : Term} {c1 : Nat}
    (hs : g U = some V) (hV : M < maxIndex V) (hb : L = 0 ∨ c1 + 1 ≤ L) : Ex M L g .panic U c1 :=
  ⟨1, V, Iter.one hs, hV, hb⟩

/-- the `Post`-condition of a returning checked call (from `betaOrdChk_rel` and the unbounded soundness) -/
theorem betaOrdChk_post (M : Nat) (o : Order) (L fuel : Nat) (t : Term) (c : Nat) (t' : Term) (c' : Nat)
    (ht : maxIndex t ≤ M) (hc : L = 0 ∨ c ≤ L) (h : betaOrdChk M o L fuel t c = .ret t' c') :
    Post (stepOrd o) L c t t' c' ∧ maxIndex t' ≤ M := by
  have := betaOrdChk_rel M o L fuel t c ht hc
  rw [h] at this
  exact ⟨betaOrd_sound o L fuel t c t' c' this.1 hc, this.2⟩

theorem Post.budget_ok2 {step : Term → Option Term} {L c : Nat} {t t' : Term} {c' : Nat}
    (h : Post step L c t t' c') : L = 0 ∨ c' ≤ L := (Post.count_facts h).2.2

theorem Post.le {step : Term → Option Term} {L c : Nat} {t t' : Term} {c' : Nat}
    (h : Post step L c t t' c') : c ≤ c' := (Post.count_facts h).1

/-- the strategy-normal form clause of `Post`, in the form used for the side conditions: if budget for one more
contraction is left after the call, the result is normal for the strategy -/
theorem Post.nf {step : Term → Option Term} {L c : Nat} {t t' : Term} {c' : Nat}
    (h : Post step L c t t' c') (hb : L = 0 ∨ c' + 1 ≤ L) : step t' = none := by
  obtain ⟨_, _, _, _, hnf⟩ := h
  exact hnf (by omega)

/-! ### CBN -/

theorem betaCbnChk_ex (M L : Nat) : ∀ fuel t c, maxIndex t ≤ M → (L = 0 ∨ c ≤ L) →
    Ex M L stepCbn (betaCbnChk M L fuel t c) t c := by
  intro fuel
  induction fuel with
  | zero => intro t c _ _; trivial
  | succ fuel ih =>
    intro t c ht hc
    unfold betaCbnChk
    by_cases hg : gate L c = true
    · simp only [hg, if_true]; exact Ex.ret_of_prog (Prog.refl c ht) _
    · simp only [hg]
      cases t with
      | var i => exact Ex.ret_of_prog (Prog.refl c ht) _
      | abs b => exact Ex.ret_of_prog (Prog.refl c ht) _
      | app l r =>
        simp only [maxIndex] at ht
        have hl : maxIndex l ≤ M := by omega
        have hr : maxIndex r ≤ M := by omega
        have ihl := ih l c hl hc
        simp only []
        cases hx : betaCbnChk M L fuel l c with
        | fuel => trivial
        | panic =>
          rw [hx] at ihl
          exact Bad.lift (C := fun x => app x r) hl (fun x => by simp only [maxIndex]; omega)
            (fun _ j a it => Iter.cbn_app r it) ihl
        | ret l' c1 =>
          rw [hx] at ihl
          obtain ⟨P1, hm1⟩ := betaOrdChk_post M .CBN L fuel l c l' c1 hl hc hx
          have G1 : Prog M stepCbn (app l r) c (app l' r) c1 :=
            Prog.lift (C := fun x => app x r) P1 ihl (fun x hx => by simp only [maxIndex]; omega)
              (fun _ j a it => Iter.cbn_app r it)
          simp only []
          cases l' with
          | abs b =>
            simp only []
            simp only [maxIndex] at hm1
            by_cases hb : budget L c1 = true
            · simp only [hb, if_true]
              cases hk : contractChk M b r with
              | none =>
                exact Ex.of_prog G1 (Ex.panic_step (by simp [stepCbn]) (contractChk_none_lt hm1 hr hk)
                  (budget_succ_ok hb))
              | some u =>
                obtain ⟨rfl, hu⟩ := contractChk_some_le hm1 hr hk
                have G2 : Prog M stepCbn (app (abs b) r) c1 (contract b r) (c1 + 1) :=
                  Prog.step (by simp only [maxIndex]; omega) (by simp [stepCbn]) hu
                exact Ex.of_prog (G1.trans G2) (ih _ (c1 + 1) hu (budget_succ_ok hb))
            · simp only [hb]; exact Ex.ret_of_prog G1 _
          | var i => exact Ex.ret_of_prog G1 _
          | app a b => exact Ex.ret_of_prog G1 _

end Term
end LC
