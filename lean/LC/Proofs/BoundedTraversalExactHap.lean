/-
The representation boundary of De Bruijn indices, part 10: `Ex` for the checked HAP traversal, and all seven orders
(see `Proofs/BoundedTraversalExact.lean`).
-/
import LC.Proofs.BoundedTraversalExactHno
import LC.Proofs.BoundedTraversalExactApp

namespace LC
namespace Term
open Spec

theorem betaHapChk_ex (M L : Nat) : ∀ fuel t c, maxIndex t ≤ M → (L = 0 ∨ c ≤ L) →
    Ex M L stepHap (betaHapChk M L fuel t c) t c := by
  intro fuel
  induction fuel with
  | zero => intro t c _ _; trivial
  | succ fuel ih =>
    intro t c ht hc
    unfold betaHapChk
    by_cases hg : gate L c = true
    · simp only [hg, if_true]; exact Ex.ret_of_prog (Prog.refl c ht) _
    · simp only [hg, Bool.false_eq_true, if_false]
      cases t with
      | var i => exact Ex.ret_of_prog (Prog.refl c ht) _
      | abs b =>
        simp only [maxIndex] at ht
        have ihb := ih b c ht hc
        simp only []
        cases hx : betaHapChk M L fuel b c with
        | fuel => trivial
        | panic =>
          rw [hx] at ihb
          exact Bad.lift (C := abs) ht (fun x => Nat.le_refl _) (fun _ j a it => Iter.hap_abs it) ihb
        | ret b' c1 =>
          rw [hx] at ihb
          obtain ⟨P1, hm1⟩ := betaOrdChk_post M .HAP L fuel b c b' c1 ht hc hx
          exact Ex.ret_of_prog (Prog.lift (C := abs) P1 ihb (fun x hx => hx) (fun _ j a it => Iter.hap_abs it)) _
      | app l r =>
        simp only [maxIndex] at ht
        have hl : maxIndex l ≤ M := by omega
        have hr : maxIndex r ≤ M := by omega
        have ihl := betaCbvChk_ex M L fuel l c hl hc
        simp only []
        cases hx : betaCbvChk M L fuel l c with
        | fuel => trivial
        | panic =>
          rw [hx] at ihl
          exact Bad.lift (C := fun x => app x r) hl (fun x => by simp only [maxIndex]; omega)
            (fun _ j a it => Iter.cbv_hap_app r it) ihl
        | ret l' c1 =>
          rw [hx] at ihl
          obtain ⟨P1, hm1⟩ := betaOrdChk_post M .CBV L fuel l c l' c1 hl hc hx
          have hc1 := P1.budget_ok2
          have G1 : Prog M stepHap (app l r) c (app l' r) c1 :=
            Prog.lift (C := fun x => app x r) P1 ihl (fun x hx => by simp only [maxIndex]; omega)
              (fun _ j a it => Iter.cbv_hap_app r it)
          simp only []
          apply Ex.of_prog G1
          have ih2 := ih r c1 hr hc1
          cases hx2 : betaHapChk M L fuel r c1 with
          | fuel => trivial
          | panic =>
            rw [hx2] at ih2
            exact Bad.lift (C := fun x => app l' x) hr (fun x => by simp only [maxIndex]; omega)
              (fun hb j a it => Iter.hap_app_right l' (P1.nf hb) it) ih2
          | ret r' c2 =>
            rw [hx2] at ih2
            obtain ⟨P2, hm2⟩ := betaOrdChk_post M .HAP L fuel r c1 r' c2 hr hc1 hx2
            have hc2 := P2.budget_ok2
            have hle2 := P2.le
            have G2 : Prog M stepHap (app l' r) c1 (app l' r') c2 :=
              Prog.lift (C := fun x => app l' x) P2 ih2 (fun x hx => by simp only [maxIndex]; omega)
                (fun hb j a it => Iter.hap_app_right l' (P1.nf hb) it)
            simp only []
            apply Ex.of_prog G2
            by_cases hred : (isAbs l' && budget L c2) = true
            · simp only [hred, if_true]
              simp only [Bool.and_eq_true] at hred
              cases l' with
              | var i => trivial
              | app a b => trivial
              | abs b =>
                simp only []
                simp only [maxIndex] at hm1
                have hg2 := budget_succ_ok hred.2
                have hstep : stepHap (app (abs b) r') = some (contract b r') := stepHap_app_red (P2.nf hg2)
                cases hk : contractChk M b r' with
                | none =>
                  exact Ex.panic_step hstep (contractChk_none_lt hm1 hm2 hk) hg2
                | some u =>
                  obtain ⟨rfl, hu⟩ := contractChk_some_le hm1 hm2 hk
                  have G3 : Prog M stepHap (app (abs b) r') c2 (contract b r') (c2 + 1) :=
                    Prog.step (by simp only [maxIndex]; omega) hstep hu
                  exact Ex.of_prog G3 (ih _ (c2 + 1) hu hg2)
            · simp only [hred, Bool.false_eq_true, if_false]
              have hside : (L = 0 ∨ c2 + 1 ≤ L) →
                  isWNF l' = true ∧ neutral l' = true ∧ stepHap r' = none := by
                intro hb
                have hw := isWNF_of_stepCbv_none (P1.nf (by omega))
                exact ⟨hw, isWNF_neutral hw (not_abs_of_not_red hred hb), P2.nf hb⟩
              have ih3 := ih l' c2 hm1 hc2
              cases hx3 : betaHapChk M L fuel l' c2 with
              | fuel => trivial
              | panic =>
                rw [hx3] at ih3
                exact Bad.lift (C := fun x => app x r') hm1 (fun x => by simp only [maxIndex]; omega)
                  (fun hb j a it => (Iter.hap_app_left r' (hside hb).1 (hside hb).2.1 (hside hb).2.2 it).1) ih3
              | ret l2 c3 =>
                rw [hx3] at ih3
                obtain ⟨P3, hm3⟩ := betaOrdChk_post M .HAP L fuel l' c2 l2 c3 hm1 hc2 hx3
                exact Ex.ret_of_prog (Prog.lift (C := fun x => app x r') P3 ih3
                  (fun x hx => by simp only [maxIndex]; omega)
                  (fun hb j a it =>
                    (Iter.hap_app_left r' (hside hb).1 (hside hb).2.1 (hside hb).2.2 it).1)) _

/-- all seven orders -/
theorem betaOrdChk_ex (M : Nat) (o : Order) (L fuel : Nat) (t : Term) (c : Nat) (ht : maxIndex t ≤ M)
    (hc : L = 0 ∨ c ≤ L) : Ex M L (stepOrd o) (betaOrdChk M o L fuel t c) t c := by
  cases o <;> simp only [betaOrdChk, stepOrd]
  · exact betaNorChk_ex M L fuel t c ht hc
  · exact betaCbnChk_ex M L fuel t c ht hc
  · exact betaHspChk_ex M L fuel t c ht hc
  · exact betaHnoChk_ex M L fuel t c ht hc
  · exact betaAppChk_ex M L fuel t c ht hc
  · exact betaCbvChk_ex M L fuel t c ht hc
  · exact betaHapChk_ex M L fuel t c ht hc

theorem reduceChk_ex (M : Nat) (o : Order) (L fuel : Nat) (t : Term) (ht : maxIndex t ≤ M) :
    Ex M L (stepOrd o) (reduceChk M o L fuel t) t 0 :=
  betaOrdChk_ex M o L fuel t 0 ht (by omega)

end Term
end LC
