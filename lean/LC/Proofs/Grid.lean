/-
Kernel-evaluated grids ("layer 3", DESIGN §7 C13): termination of the eager orders on the
encoded programs is not implied by a general theorem; it is established on a stated finite
grid by evaluating the verified model reducer inside the kernel (`decide +kernel`, no
`native_decide`).  These facts are labelled bounded in the evidence.
-/
import LC.Model.Reduce
import LC.Model.Encode

namespace LC
namespace Grid
open Term

/-- the model reducer, started with limit 0 and the given fuel, returns exactly `n` -/
def runsTo (o : Order) (fuel : Nat) (t n : Term) : Bool :=
  match reduce o 0 fuel t with
  | some (r, _) => decide (r = n)
  | none => false

theorem runsTo_spec {o : Order} {fuel : Nat} {t n : Term} (h : runsTo o fuel t n = true) :
    ∃ c, reduce o 0 fuel t = some (n, c) := by
  unfold runsTo at h
  split at h
  · rename_i r c hr
    have : r = n := by simpa using h
    exact ⟨c, by rw [hr, this]⟩
  · cases h

def range2 (m n : Nat) : List (Nat × Nat) :=
  (List.range (m + 1)).flatMap (fun a => (List.range (n + 1)).map (fun b => (a, b)))

def app2 (f a b : Term) : Term := app (app f a) b

end Grid
end LC
