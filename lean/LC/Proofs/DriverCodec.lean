/-
The line protocol of the driver carries values faithfully, part 1: numbers, lines and words, terms.

`LC/Drv/Codec.lean` holds the pure codec of the correspondence check (DESIGN §3.2).  This file proves, for the actual
functions: the defining equations of the fuel-indexed decoders (they are the equations of the recursive definitions they replaced, which were not checked for termination),
the round trips printer → decoder at the level of words and at the level of whole lines, and the complete
characterisation of what `decTerm` accepts.  Part 2 (`DriverCodecMore.lean`) does the same for tokens, names,
characters, expression trees, code-point strings, orders, encodings and error names.
-/
import LC.Drv.Codec
import LC.Drv.Wire
import Std.Data.String.ToNat

open LC LC.Term LC.Parser

namespace Drv

/-! ## numbers: `toString` / `String.toNat?` -/

theorem toString_nat (n : Nat) : toString n = n.repr := rfl

/-- a printed number is read back as itself (core: `Nat.toNat?_repr`) -/
theorem toNat?_toString (n : Nat) : (toString n).toNat? = some n := Nat.toNat?_repr n

theorem toString_nat_inj {n m : Nat} (h : toString n = toString m) : n = m := Nat.repr_injective h

/-- the characters of a printed number are decimal digits -/
theorem isDigit_of_mem_toString {n : Nat} {c : Char} (h : c ∈ (toString n).toList) : c.isDigit = true := by
  rw [toString_nat, Nat.toList_repr] at h
  exact Nat.isDigit_of_mem_toDigits (by omega) (by omega) h

theorem toNat?_empty : "".toNat? = none :=
  String.toNat?_eq_none_iff.2 (Bool.eq_false_iff.2 (fun h => (String.isNat_iff.1 h).1 rfl))

theorem toString_nat_ne_empty (n : Nat) : toString n ≠ "" := by
  intro h
  have := toNat?_toString n
  rw [h, toNat?_empty] at this
  exact absurd this (by simp)

/-- the characters of a word that reads as a number are decimal digits or `_` (the separator Lean's
`String.toNat?` accepts: `"1_0".toNat? = some 10`), and there is at least one -/
theorem chars_of_toNat? {w : String} {k : Nat} (h : w.toNat? = some k) :
    w ≠ "" ∧ ∀ c ∈ w.toList, c.isDigit = true ∨ c = '_' := by
  have := String.isNat_of_toNat?_eq_some h
  rw [String.isNat_iff] at this
  exact ⟨this.1, this.2.1⟩

/-- a word whose first character is neither a digit nor `_` does not read as a number -/
theorem toNat?_eq_none_of_head {w : String} {c : Char} {cs : List Char} (hw : w.toList = c :: cs)
    (hc : c.isDigit = false) (hu : c ≠ '_') : w.toNat? = none := by
  cases h : w.toNat? with
  | none => rfl
  | some k =>
    have := (chars_of_toNat? h).2 c (by simp [hw])
    simp [hc, hu] at this

/-- a printed number contains none of the punctuation of the protocol -/
theorem not_mem_toString {n : Nat} {c : Char} (hc : c.isDigit = false) : c ∉ (toString n).toList :=
  fun h => by simp [isDigit_of_mem_toString h] at hc

/-- evaluate `String.toNat?` on a literal: `w.toNat? = some k` -/
macro "toNat_some" : tactic =>
  `(tactic| (rw [String.toNat?_eq_some_ofDigitChars (by rw [String.isNat_iff]; decide)]; decide))

/-- evaluate `String.toNat?` on a literal: `w.toNat? = none` -/
macro "toNat_none" : tactic =>
  `(tactic| (rw [String.toNat?_eq_none_iff, Bool.eq_false_iff, ne_eq, String.isNat_iff]; decide))

/-! ## lines and words: `splitChar`, `tokenize` -/

theorem splitChar_eq (c : Char) (s : String) :
    splitChar c s = (s.toList.splitOn c).map String.ofList := by
  simp [splitChar, ← String.toList_split_char]

/-- splitting at `c` undoes joining with `c`, for pieces free of `c` -/
theorem splitChar_intercalate {c : Char} {l : List String} (hl : ∀ s ∈ l, c ∉ s.toList) (hne : l ≠ []) :
    splitChar c ((String.singleton c).intercalate l) = l := by
  have := String.toList_split_intercalate hl
  simpa [splitChar, hne] using this

theorem singleton_space : String.singleton ' ' = " " := by decide

theorem Words.nil : Words [] := by simp [Words]
theorem Words.cons {w : String} {l : List String} (h1 : w ≠ "") (h2 : ' ' ∉ w.toList) (h : Words l) :
    Words (w :: l) := by
  intro x hx
  rcases List.mem_cons.1 hx with rfl | hx
  · exact ⟨h1, h2⟩
  · exact h x hx
theorem Words.append {l m : List String} (hl : Words l) (hm : Words m) : Words (l ++ m) := by
  intro x hx
  rcases List.mem_append.1 hx with hx | hx
  · exact hl x hx
  · exact hm x hx

/-- the words of a line made of words separated by single spaces are these words -/
theorem tokenize_intercalate {l : List String} (hl : Words l) : tokenize (" ".intercalate l) = l := by
  by_cases hne : l = []
  · subst hne
    simp [tokenize, splitChar_eq]
  · rw [tokenize, ← singleton_space, splitChar_intercalate (fun s hs => (hl s hs).2) hne]
    exact List.filter_eq_self.2 (fun w hw => by simpa using (hl w hw).1)

/-- joining words with single spaces is injective -/
theorem intercalate_inj {l m : List String} (hl : Words l) (hm : Words m)
    (h : " ".intercalate l = " ".intercalate m) : l = m := by
  rw [← tokenize_intercalate hl, ← tokenize_intercalate hm, h]

/-- joining lines (each made of at least one word) with spaces joins their word lists -/
theorem intercalate_flatten {ls : List (List String)} (h : ∀ l ∈ ls, l ≠ []) :
    " ".intercalate (ls.map (" ".intercalate ·)) = " ".intercalate ls.flatten := by
  induction ls with
  | nil => simp
  | cons l ls ih =>
    by_cases hls : ls = []
    · subst hls; simp
    · have hl : l ≠ [] := h l (by simp)
      have hfl : ls.flatten ≠ [] := by
        cases ls with
        | nil => exact absurd rfl hls
        | cons a as =>
          have : a ≠ [] := h a (by simp)
          simp [this]
      rw [List.map_cons, String.intercalate_cons_of_ne_nil (by simpa using hls),
        ih (fun x hx => h x (by simp [hx])), List.flatten_cons,
        String.intercalate_append_of_ne_nil hl hfl]

/-! ## terms: the fuel-indexed decoder satisfies the equations of the original recursive definition -/

theorem decTermF_zero (ws : List String) : decTermF 0 ws = none := by
  unfold decTermF; rfl

theorem decTermF_nil (f : Nat) : decTermF f [] = none := by
  cases f <;> simp [decTermF]

theorem decTermF_L (f : Nat) (rest : List String) : decTermF (f+1) ("L" :: rest) =
    (do let (b, rest') ← decTermF f rest; pure (.abs b, rest')) := by
  simp [decTermF]

theorem decTermF_A (f : Nat) (rest : List String) : decTermF (f+1) ("A" :: rest) =
    (do let (l, r1) ← decTermF f rest
        let (r, r2) ← decTermF f r1
        pure (.app l r, r2)) := by
  simp [decTermF]

theorem decTermF_num (f : Nat) (w : String) (rest : List String) (hL : w ≠ "L") (hA : w ≠ "A") :
    decTermF (f+1) (w :: rest) = (do let k ← w.toNat?; pure (.var k, rest)) := by
  simp [decTermF]

/-- a successful call consumes at least one word -/
theorem decTermF_length {f : Nat} {ws : List String} {t : Term} {r : List String}
    (h : decTermF f ws = some (t, r)) : r.length < ws.length := by
  induction f generalizing ws t r with
  | zero => simp [decTermF_zero] at h
  | succ f ih =>
    match ws with
    | [] => simp [decTermF_nil] at h
    | w :: rest =>
      by_cases hL : w = "L"
      · subst hL
        rw [decTermF_L] at h
        cases h1 : decTermF f rest with
        | none => simp [h1] at h
        | some p =>
          obtain ⟨b, r'⟩ := p
          simp [h1] at h
          have := ih h1
          obtain ⟨-, rfl⟩ := h
          simp; omega
      · by_cases hA : w = "A"
        · subst hA
          rw [decTermF_A] at h
          cases h1 : decTermF f rest with
          | none => simp [h1] at h
          | some p =>
            obtain ⟨l, r1⟩ := p
            cases h2 : decTermF f r1 with
            | none => simp [h1, h2] at h
            | some q =>
              obtain ⟨r', r2⟩ := q
              simp [h1, h2] at h
              have := ih h1
              have := ih h2
              obtain ⟨-, rfl⟩ := h
              simp; omega
        · rw [decTermF_num _ _ _ hL hA] at h
          cases h1 : w.toNat? with
          | none => simp [h1] at h
          | some k =>
            simp [h1] at h
            obtain ⟨-, rfl⟩ := h
            simp

/-- fuel beyond the number of words changes nothing -/
theorem decTermF_stable {f f' : Nat} {ws : List String} (h : ws.length ≤ f) (h' : f ≤ f') :
    decTermF f' ws = decTermF f ws := by
  induction f generalizing f' ws with
  | zero =>
    have : ws = [] := List.eq_nil_of_length_eq_zero (by omega)
    subst this
    simp [decTermF_nil]
  | succ f ih =>
    obtain ⟨f'', rfl⟩ : ∃ f'', f' = f'' + 1 := ⟨f' - 1, by omega⟩
    match ws with
    | [] => simp [decTermF_nil]
    | w :: rest =>
      have hr : rest.length ≤ f := by simp at h; omega
      have hf : f ≤ f'' := by omega
      by_cases hL : w = "L"
      · subst hL
        rw [decTermF_L, decTermF_L, ih hr hf]
      · by_cases hA : w = "A"
        · subst hA
          rw [decTermF_A, decTermF_A, ih hr hf]
          cases h1 : decTermF f rest with
          | none => rfl
          | some p =>
            obtain ⟨l, r1⟩ := p
            have := decTermF_length h1
            simp only [Option.bind_eq_bind, Option.bind_some]
            rw [ih (by omega) hf]
        · rw [decTermF_num _ _ _ hL hA, decTermF_num _ _ _ hL hA]

/-! ### the equations of `decTerm` (those of the recursive definition it replaced) -/

theorem decTerm_nil : decTerm [] = none := by
  simp [decTerm, decTermF_nil]

theorem decTerm_L (rest : List String) : decTerm ("L" :: rest) =
    (do let (b, rest') ← decTerm rest; pure (.abs b, rest')) := by
  simp only [decTerm, List.length_cons, decTermF_L]

theorem decTerm_A (rest : List String) : decTerm ("A" :: rest) =
    (do let (l, r1) ← decTerm rest
        let (r, r2) ← decTerm r1
        pure (.app l r, r2)) := by
  simp only [decTerm, List.length_cons, decTermF_A]
  cases h1 : decTermF rest.length rest with
  | none => rfl
  | some p =>
    obtain ⟨l, r1⟩ := p
    have := decTermF_length h1
    simp only [Option.bind_eq_bind, Option.bind_some]
    rw [decTermF_stable (Nat.le_refl r1.length) (by omega)]

theorem decTerm_num (w : String) (rest : List String) (hL : w ≠ "L") (hA : w ≠ "A") :
    decTerm (w :: rest) = (do let k ← w.toNat?; pure (.var k, rest)) := by
  simp only [decTerm, List.length_cons, decTermF_num _ _ _ hL hA]

theorem decTerm_length {ws : List String} {t : Term} {r : List String}
    (h : decTerm ws = some (t, r)) : r.length < ws.length := decTermF_length h

/-! ### the words of a term; printer = words joined by spaces; decoder ∘ words = id -/

theorem termWords_ne_nil (t : Term) : termWords t ≠ [] := by
  cases t <;> simp [termWords]

theorem termWords_words (t : Term) : Words (termWords t) := by
  induction t with
  | var n =>
    exact Words.cons (toString_nat_ne_empty n) (not_mem_toString (by decide)) Words.nil
  | abs b ih => exact Words.cons (by decide) (by decide) ih
  | app l r ihl ihr => exact Words.cons (by decide) (by decide) (ihl.append ihr)

theorem encTerm_eq (t : Term) (acc : String) :
    encTerm t acc = acc ++ " ".intercalate (termWords t) := by
  induction t generalizing acc with
  | var n => simp [encTerm, termWords]
  | abs b ih =>
    simp only [encTerm, termWords, ih]
    rw [String.intercalate_cons_of_ne_nil (termWords_ne_nil b)]
    simp [String.append_assoc]
  | app l r ihl ihr =>
    simp only [encTerm, termWords, ihl, ihr]
    rw [String.intercalate_cons_of_ne_nil (by simp [termWords_ne_nil]),
      String.intercalate_append_of_ne_nil (termWords_ne_nil l) (termWords_ne_nil r)]
    simp [String.append_assoc]

/-- the printed form of a term is its words joined by single spaces -/
theorem showTerm_eq (t : Term) : showTerm t = " ".intercalate (termWords t) := by
  simp [showTerm, encTerm_eq]

theorem toString_ne_L (n : Nat) : toString n ≠ "L" := by
  intro h
  have := not_mem_toString (n := n) (c := 'L') (by decide)
  rw [h] at this
  exact this (by decide)

theorem toString_ne_A (n : Nat) : toString n ≠ "A" := by
  intro h
  have := not_mem_toString (n := n) (c := 'A') (by decide)
  rw [h] at this
  exact this (by decide)

/-- ROUND TRIP (words): decoding the words of a term gives the term back and leaves the rest untouched -/
theorem decTerm_termWords (t : Term) (rest : List String) :
    decTerm (termWords t ++ rest) = some (t, rest) := by
  induction t generalizing rest with
  | var n =>
    show decTerm (toString n :: rest) = _
    rw [decTerm_num _ _ (toString_ne_L n) (toString_ne_A n), toNat?_toString]
    rfl
  | abs b ih => simp [termWords, decTerm_L, ih]
  | app l r ihl ihr =>
    simp [termWords, decTerm_A, List.append_assoc, ihl, ihr]

/-- ROUND TRIP (lines): the driver reads a printed term back as itself -/
theorem decTerm_tokenize_showTerm (t : Term) : decTerm (tokenize (showTerm t)) = some (t, []) := by
  rw [showTerm_eq, tokenize_intercalate (termWords_words t)]
  simpa using decTerm_termWords t []

theorem termWords_inj {t u : Term} (h : termWords t = termWords u) : t = u := by
  have h1 := decTerm_termWords t []
  rw [h, decTerm_termWords u []] at h1
  simpa using h1.symm

/-- two different terms never print the same -/
theorem showTerm_inj {t u : Term} (h : showTerm t = showTerm u) : t = u := by
  rw [showTerm_eq, showTerm_eq] at h
  exact termWords_inj (intercalate_inj (termWords_words t) (termWords_words u) h)

/-- more: no word list is the encoding of two terms, even with different continuations -/
theorem termWords_append_inj {t u : Term} {r s : List String}
    (h : termWords t ++ r = termWords u ++ s) : t = u ∧ r = s := by
  have h1 := decTerm_termWords t r
  rw [h, decTerm_termWords u s] at h1
  simpa using h1.symm

/-! ### what `decTerm` accepts: exactly a spelling of one term, followed by anything -/

theorem toNat?_L : "L".toNat? = none := toNat?_eq_none_of_head (c := 'L') (cs := []) (by decide) (by decide) (by decide)
theorem toNat?_A : "A".toNat? = none := toNat?_eq_none_of_head (c := 'A') (cs := []) (by decide) (by decide) (by decide)

theorem Spells.termWords (t : Term) : Spells (termWords t) t := by
  induction t with
  | var n => exact .var (toNat?_toString n)
  | abs b ih => exact .abs ih
  | app l r ihl ihr => exact .app ihl ihr

theorem Spells.decTerm {ws : List String} {t : Term} (h : Spells ws t) (rest : List String) :
    decTerm (ws ++ rest) = some (t, rest) := by
  induction h generalizing rest with
  | @var w k hk =>
    have hL : w ≠ "L" := by rintro rfl; simp [toNat?_L] at hk
    have hA : w ≠ "A" := by rintro rfl; simp [toNat?_A] at hk
    simp [decTerm_num _ _ hL hA, hk]
  | abs _ ih => simp [decTerm_L, ih]
  | app _ _ ihl ihr => simp [decTerm_A, List.append_assoc, ihl, ihr]

theorem decTerm_spells {ws : List String} {t : Term} {rest : List String}
    (h : decTerm ws = some (t, rest)) : ∃ pre, ws = pre ++ rest ∧ Spells pre t := by
  generalize hn : ws.length = n
  induction n using Nat.strongRecOn generalizing ws t rest with
  | _ n ih =>
    match ws with
    | [] => simp [decTerm_nil] at h
    | w :: tl =>
      by_cases hL : w = "L"
      · subst hL
        rw [decTerm_L] at h
        cases h1 : decTerm tl with
        | none => simp [h1] at h
        | some p =>
          obtain ⟨b, r'⟩ := p
          simp [h1] at h
          obtain ⟨rfl, rfl⟩ := h
          obtain ⟨pre, rfl, hs⟩ := ih tl.length (by simp at hn; omega) h1 rfl
          exact ⟨"L" :: pre, by simp, .abs hs⟩
      · by_cases hA : w = "A"
        · subst hA
          rw [decTerm_A] at h
          cases h1 : decTerm tl with
          | none => simp [h1] at h
          | some p =>
            obtain ⟨l, r1⟩ := p
            cases h2 : decTerm r1 with
            | none => simp [h1, h2] at h
            | some q =>
              obtain ⟨r', r2⟩ := q
              simp [h1, h2] at h
              obtain ⟨rfl, rfl⟩ := h
              have hlen := decTerm_length h1
              obtain ⟨pre1, rfl, hs1⟩ := ih tl.length (by simp at hn; omega) h1 rfl
              obtain ⟨pre2, rfl, hs2⟩ := ih _ (by simp at hn hlen ⊢; omega) h2 rfl
              exact ⟨"A" :: (pre1 ++ pre2), by simp, .app hs1 hs2⟩
        · rw [decTerm_num _ _ hL hA] at h
          cases h1 : w.toNat? with
          | none => simp [h1] at h
          | some k =>
            simp [h1] at h
            obtain ⟨rfl, rfl⟩ := h
            exact ⟨[w], by simp, .var h1⟩

/-- TOTALITY: `decTerm` succeeds exactly on a spelling of one term followed by the returned rest -/
theorem decTerm_eq_some_iff {ws : List String} {t : Term} {rest : List String} :
    decTerm ws = some (t, rest) ↔ ∃ pre, ws = pre ++ rest ∧ Spells pre t :=
  ⟨decTerm_spells, fun ⟨_, h, hs⟩ => h ▸ hs.decTerm rest⟩

/-- a spelling determines its term, and no proper prefix or extension of a spelling is a spelling of anything -/
theorem Spells.unique {ws vs r s : List String} {t u : Term} (h1 : Spells ws t) (h2 : Spells vs u)
    (h : ws ++ r = vs ++ s) : t = u ∧ ws = vs ∧ r = s := by
  have e1 := h1.decTerm r
  rw [h, h2.decTerm s] at e1
  simp at e1
  obtain ⟨rfl, rfl⟩ := e1
  exact ⟨rfl, List.append_cancel_right h, rfl⟩

/-! ### term sequences -/

theorem decTerms_zero (ws : List String) : decTerms 0 ws = some ([], ws) := rfl

theorem decTerms_succ (n : Nat) (ws : List String) : decTerms (n+1) ws =
    (do let (t, r) ← decTerm ws
        let (more, r') ← decTerms n r
        pure (t :: more, r')) := rfl

/-- ROUND TRIP: `n` terms, written one after the other, are read back -/
theorem decTerms_termWords (ts : List Term) (rest : List String) :
    decTerms ts.length ((ts.map termWords).flatten ++ rest) = some (ts, rest) := by
  induction ts with
  | nil => simp [decTerms_zero]
  | cons t ts ih =>
    simp [decTerms_succ, List.append_assoc, decTerm_termWords, ih]

/-- a successful `decTerms n` returns exactly `n` terms -/
theorem decTerms_length {n : Nat} {ws : List String} {ts : List Term} {rest : List String}
    (h : decTerms n ws = some (ts, rest)) : ts.length = n := by
  induction n generalizing ws ts rest with
  | zero => simp [decTerms_zero] at h; simp [← h.1]
  | succ n ih =>
    rw [decTerms_succ] at h
    cases h1 : decTerm ws with
    | none => simp [h1] at h
    | some p =>
      obtain ⟨t, r⟩ := p
      cases h2 : decTerms n r with
      | none => simp [h1, h2] at h
      | some q =>
        obtain ⟨more, r'⟩ := q
        simp [h1, h2] at h
        obtain ⟨rfl, -⟩ := h
        simp [ih h2]

end Drv
