/-
Review remark A2: renaming UNREFERENCED binders does not change name resolution.

`renameB f` renames the binders of a named term (the variable occurrences are left alone), `renameTok f` the binder
tokens of a token list.  If every binder name `n` is either kept (`f n = n`) or is not the name of any variable
occurrence and is sent to a name that is not the name of any variable occurrence either (`V` = the variable names),
then the specification's scoped resolution (`Cl.resolve`, `Cl.resolveAll` on tokens; `Cl.toDB`, `Cl.toDeBruijn` on
named terms — `LC/Spec/ClassicSpec.lean`) returns the same De Bruijn tokens / term: in every scope the lookup
`idxOf?` of a variable name finds the same position, i.e. no variable occurrence ever resolved to a renamed binder.
-/
import LC.Spec.ClassicAllSpec

namespace LC.Spec.Cl
open LC LC.Parser LC.Parser.CToken LC.Parser.Token NTerm Term

/-- rename the binders (only) of a named term -/
def renameB (f : Name → Name) : NTerm → NTerm
  | nvar n => nvar n
  | nlam n b => nlam (f n) (renameB f b)
  | napp a b => napp (renameB f a) (renameB f b)

/-- the names of the variable occurrences of a named term -/
def varNames : NTerm → List Name
  | nvar n => [n]
  | nlam _ b => varNames b
  | napp a b => varNames a ++ varNames b

/-- the names of the binders of a named term -/
def binderNames : NTerm → List Name
  | nvar _ => []
  | nlam n b => n :: binderNames b
  | napp a b => binderNames a ++ binderNames b

/-- rename the binder tokens (only) -/
def renameTok (f : Name → Name) : CToken → CToken
  | CLambda n => CLambda (f n)
  | t => t

/-- `f` only touches names outside `V`, and sends them outside `V` -/
def RenamesOutside (f : Name → Name) (V : Name → Prop) : Prop := ∀ n, f n = n ∨ (¬ V n ∧ ¬ V (f n))

/-- the lookup the specification uses finds, when it finds something, a binder with exactly the name looked up:
the binder a variable occurrence resolves to is named like the variable -/
theorem idxOf?_some_getElem? {bs : List Name} {x : Name} {p : Nat} (h : bs.idxOf? x = some p) :
    bs[p]? = some x := by
  induction bs generalizing p with
  | nil => simp at h
  | cons b bs ih =>
    rw [List.idxOf?_cons] at h
    by_cases hb : (b == x) = true
    · rw [if_pos hb] at h
      cases h
      simpa using hb
    · rw [if_neg hb] at h
      cases hq : bs.idxOf? x with
      | none => simp [hq] at h
      | some q =>
        simp only [hq, Option.map_some, Option.some.injEq] at h
        subst h
        simpa using ih hq

/-- the lookup of a name of `V` is not affected by the renaming -/
theorem idxOf?_map_rename {f : Name → Name} {V : Name → Prop} (hf : RenamesOutside f V) {x : Name}
    (hx : V x) (bs : List Name) : (bs.map f).idxOf? x = bs.idxOf? x := by
  induction bs with
  | nil => rfl
  | cons b bs ih =>
    rw [List.map_cons, List.idxOf?_cons, List.idxOf?_cons, ih]
    rcases hf b with e | ⟨h1, h2⟩
    · rw [e]
    · have n1 : (b == x) = false := by
        simp only [beq_eq_false_iff_ne, ne_eq]; rintro rfl; exact h1 hx
      have n2 : (f b == x) = false := by
        simp only [beq_eq_false_iff_ne, ne_eq]; intro e; rw [e] at h2; exact h2 hx
      simp [n1, n2]

/-- named terms: the translation is unchanged (in every scope, with every list of free names) -/
theorem toDB_renameB {f : Name → Name} {V : Name → Prop} (hf : RenamesOutside f V) :
    ∀ (t : NTerm), (∀ x ∈ varNames t, V x) → ∀ (bs free : List Name),
      toDB (bs.map f) free (renameB f t) = toDB bs free t := by
  intro t
  induction t with
  | nvar n =>
    intro hV bs free
    have hn : V n := hV n (by simp [varNames])
    simp only [renameB, toDB, idxOf?_map_rename hf hn, List.length_map]
  | nlam n b ih =>
    intro hV bs free
    have := ih (fun x hx => hV x (by simpa [varNames] using hx)) (n :: bs) free
    rw [List.map_cons] at this
    simp only [renameB, toDB, this]
  | napp a b iha ihb =>
    intro hV bs free
    have ha := iha (fun x hx => hV x (by simp [varNames, hx])) bs free
    simp only [renameB, toDB, ha]
    have hb := ihb (fun x hx => hV x (by simp [varNames, hx])) bs (toDB bs free a).2
    rw [hb]

theorem toDeBruijn_renameB {f : Name → Name} {V : Name → Prop} (hf : RenamesOutside f V) (t : NTerm)
    (hV : ∀ x ∈ varNames t, V x) : toDeBruijn (renameB f t) = toDeBruijn t := by
  have := toDB_renameB hf t hV [] []
  simp only [List.map_nil] at this
  simp only [toDeBruijn, this]

/-- tokens: the scoped resolution is unchanged (in every state: the scopes are renamed along) -/
theorem resolve_rename {f : Name → Name} {V : Name → Prop} (hf : RenamesOutside f V) :
    ∀ (cts : List CToken), (∀ x, CName x ∈ cts → V x) → ∀ (scs : List (List Name)) (free : List Name),
      resolve (cts.map (renameTok f)) (scs.map (·.map f)) free = resolve cts scs free := by
  intro cts
  induction cts with
  | nil => intro _ scs free; simp [resolve]
  | cons c cts ih =>
    intro hV scs free
    have hV' : ∀ x, CName x ∈ cts → V x := fun x hx => hV x (List.mem_cons_of_mem _ hx)
    cases scs with
    | nil => simp [resolve]
    | cons sc scs =>
      cases c with
      | CLambda n =>
        have := ih hV' ((n :: sc) :: scs) free
        simp only [List.map_cons] at this
        simp only [List.map_cons, renameTok, resolve, this]
      | CLparen =>
        have := ih hV' ([] :: sc :: scs) free
        simp only [List.map_cons, List.map_nil] at this
        simp only [List.map_cons, renameTok, resolve, this]
      | CRparen =>
        cases scs with
        | nil => simp [renameTok, resolve]
        | cons sc2 scs =>
          have := ih hV' (sc2 :: scs) free
          simp only [List.map_cons] at this
          simp only [List.map_cons, renameTok, resolve, this]
      | CName n =>
        have hn : V n := hV n (by simp)
        have hfl : ((sc :: scs).map (·.map f)).flatten = ((sc :: scs).flatten).map f := by
          rw [List.map_flatten]
        have hidx := idxOf?_map_rename hf hn (sc :: scs).flatten
        have h1 := ih hV' (sc :: scs) free
        have h2 := ih hV' (sc :: scs) (free ++ [n])
        simp only [List.map_cons] at h1 h2 hfl
        simp only [List.map_cons, renameTok, resolve, hfl, hidx, List.length_map, h1, h2]

theorem resolveAll_rename {f : Name → Name} {V : Name → Prop} (hf : RenamesOutside f V) (cts : List CToken)
    (hV : ∀ x, CName x ∈ cts → V x) : resolveAll (cts.map (renameTok f)) = resolveAll cts := by
  have := resolve_rename hf cts hV [[]] []
  simpa [resolveAll] using this

/-- a printing of `t` renamed is a printing of the renamed `t` -/
theorem printsN_rename (f : Name → Name) {t : NTerm} {arg fin : Bool} {cts : List CToken}
    (h : PrintsN t arg fin cts) : PrintsN (renameB f t) arg fin (cts.map (renameTok f)) := by
  induction h with
  | var => exact .var
  | lam _ ih => exact .lam ih
  | app _ _ ih1 ih2 => rw [List.map_append]; exact .app ih1 ih2
  | paren _ ih =>
    rw [List.map_cons, List.map_append]
    exact .paren ih

/-- the variable names of a printed term are the names of the variable tokens -/
theorem printsN_varNames {t : NTerm} {arg fin : Bool} {cts : List CToken} (h : PrintsN t arg fin cts) :
    ∀ x, x ∈ varNames t ↔ CName x ∈ cts := by
  induction h with
  | var => intro x; simp [varNames, eq_comm]
  | lam _ ih => intro x; simp [varNames, ih]
  | app _ _ ih1 ih2 => intro x; simp [varNames, ih1, ih2]
  | paren _ ih => intro x; simp [ih]

/-- the binder names of a printed term are the names of the binder tokens -/
theorem printsN_binderNames {t : NTerm} {arg fin : Bool} {cts : List CToken} (h : PrintsN t arg fin cts) :
    ∀ x, x ∈ binderNames t ↔ CLambda x ∈ cts := by
  induction h with
  | var => intro x; simp [binderNames]
  | lam _ ih => intro x; simp [binderNames, ih, eq_comm]
  | app _ _ ih1 ih2 => intro x; simp [binderNames, ih1, ih2]
  | paren _ ih => intro x; simp [ih]

end LC.Spec.Cl
