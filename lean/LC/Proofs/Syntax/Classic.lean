/-
C09, Classic half: the lexer `tokenizeCla`, the name resolution `convertClassicTokens`
(deque + counters) and `parse … .Classic` against the specification `LC/Spec/ClassicSpec.lean`.
-/
import LC.Model.Parser
import LC.Spec.ClassicSpec

namespace LC
open Parser Parser.CToken Parser.Token Spec Spec.Cl

namespace C09C

/-! ### `indexOf?` is `List.idxOf?` -/

theorem indexOf?_eq (x : Name) (l : List Name) : indexOf? x l = l.idxOf? x := by
  induction l with
  | nil => rfl
  | cons y ys ih =>
    rw [indexOf?, List.idxOf?_cons, ih]
    by_cases h : x = y
    · subst h; simp
    · have h' : ¬ y = x := fun e => h e.symm
      simp [h, h']

theorem idxOf?_append (x : Name) (l₁ l₂ : List Name) :
    (l₁ ++ l₂).idxOf? x =
      match l₁.idxOf? x with
      | some p => some p
      | none => (l₂.idxOf? x).map (· + l₁.length) := by
  unfold List.idxOf?
  rw [List.findIdx?_append]
  cases List.findIdx? (fun y => y == x) l₁ <;> rfl

/-! ### the deque + counters implement the scoped resolution -/

/-- generalised invariant: the deque is `binders in scope (innermost first) ++ free names (in
order)`, the counters are the sizes of the scopes -/
theorem convLoop_eq_resolve (ts : List CToken) :
    ∀ (scs : List (List Name)) (free : List Name),
      convLoop ts (scs.flatten ++ free) (scs.map List.length) = resolve ts scs free := by
  induction ts with
  | nil => intro scs free; simp [convLoop, resolve]
  | cons t ts ih =>
    intro scs free
    cases scs with
    | nil => cases t <;> simp [convLoop, resolve]
    | cons sc scs =>
      cases t with
      | CLambda n =>
        have := ih ((n :: sc) :: scs) free
        simp only [List.flatten_cons, List.map_cons, List.length_cons, List.cons_append] at this
        simp only [convLoop, resolve, List.flatten_cons, List.map_cons, this]
      | CLparen =>
        have := ih ([] :: sc :: scs) free
        simp only [List.flatten_cons, List.map_cons, List.length_nil, List.nil_append] at this
        simp only [convLoop, resolve, List.flatten_cons, List.map_cons, this]
      | CRparen =>
        cases scs with
        | nil => simp [convLoop, resolve]
        | cons sc' scs' =>
          have := ih (sc' :: scs') free
          simp only [List.flatten_cons, List.map_cons] at this
          have hle : sc.length ≤ (sc ++ (sc' ++ scs'.flatten) ++ free).length := by
            simp only [List.length_append]; omega
          have hdrop : (sc ++ (sc' ++ scs'.flatten) ++ free).drop sc.length
              = sc' ++ scs'.flatten ++ free := by
            rw [List.append_assoc, List.drop_left]
          simp only [convLoop, resolve, List.flatten_cons, List.map_cons, hle, if_true, hdrop, this]
      | CName n =>
        simp only [convLoop, resolve, indexOf?_eq, idxOf?_append, List.map_cons]
        cases hb : List.idxOf? n (sc :: scs).flatten with
        | some p =>
          simp only []
          rw [← ih (sc :: scs) free]; rfl
        | none =>
          cases hf : List.idxOf? n free with
          | some r =>
            simp only [Option.map_some]
            rw [← ih (sc :: scs) free]
            simp only [List.map_cons]
            rw [Nat.add_comm r]
          | none =>
            simp only [Option.map_none]
            rw [← ih (sc :: scs) (free ++ [n])]
            simp only [List.map_cons, List.length_append, List.append_assoc]

end C09C

open C09C

/-- the deque + counters of the code implement the scoped reference resolution -/
theorem convert_eq_resolve (ts : List CToken) : convertClassicTokens ts = Cl.resolveAll ts := by
  have := convLoop_eq_resolve ts [[]] []
  simpa [convertClassicTokens, resolveAll] using this

/-! ### totality and shape of the resolution -/

namespace C09C

/-- the reference resolution is total, and its output has the shape of the input up to the first
unmatched `)` -/
theorem resolve_shape (ts : List CToken) :
    ∀ (sc : List Name) (scs : List (List Name)) (free : List Name),
      ∃ toks, resolve ts (sc :: scs) free = some toks ∧
        toks.map shape = (ts.take (scopedPrefix ts scs.length)).map cshape := by
  induction ts with
  | nil => intro sc scs free; exact ⟨[], by simp [resolve]⟩
  | cons t ts ih =>
    intro sc scs free
    cases t with
    | CLambda n =>
      obtain ⟨toks, h, hs⟩ := ih (n :: sc) scs free
      exact ⟨Lambda :: toks, by simp [resolve, h], by simp [scopedPrefix, hs, shape, cshape]⟩
    | CLparen =>
      obtain ⟨toks, h, hs⟩ := ih [] (sc :: scs) free
      exact ⟨Lparen :: toks, by simp [resolve, h],
        by simpa [scopedPrefix, shape, cshape] using hs⟩
    | CRparen =>
      cases scs with
      | nil => exact ⟨[Rparen], by simp [resolve], by simp [scopedPrefix, shape, cshape]⟩
      | cons sc' scs' =>
        obtain ⟨toks, h, hs⟩ := ih sc' scs' free
        exact ⟨Rparen :: toks, by simp [resolve, h],
          by simpa [scopedPrefix, shape, cshape] using hs⟩
    | CName n =>
      simp only [resolve]
      cases List.idxOf? n (sc :: scs).flatten with
      | some p =>
        obtain ⟨toks, h, hs⟩ := ih sc scs free
        exact ⟨Number (p + 1) :: toks, by simp [h], by simp [scopedPrefix, hs, shape, cshape]⟩
      | none =>
        cases List.idxOf? n free with
        | some r =>
          obtain ⟨toks, h, hs⟩ := ih sc scs free
          exact ⟨_ :: toks, by simp only [h]; rfl, by simp [scopedPrefix, hs, shape, cshape]⟩
        | none =>
          obtain ⟨toks, h, hs⟩ := ih sc scs (free ++ [n])
          exact ⟨_ :: toks, by simp only [h]; rfl, by simp [scopedPrefix, hs, shape, cshape]⟩

theorem scopedPrefix_of_closesOk (ts : List CToken) :
    ∀ d, closesOk ts d = true → scopedPrefix ts d = ts.length := by
  induction ts with
  | nil => intro d _; rfl
  | cons t ts ih =>
    intro d h
    cases t with
    | CLambda n => simp only [closesOk] at h; simp [scopedPrefix, ih d h]
    | CLparen => simp only [closesOk] at h; simp [scopedPrefix, ih (d + 1) h]
    | CRparen =>
      cases d with
      | zero => simp [closesOk] at h
      | succ d => simp only [closesOk] at h; simp [scopedPrefix, ih d h]
    | CName n => simp only [closesOk] at h; simp [scopedPrefix, ih d h]

theorem scopedPrefix_le (ts : List CToken) : ∀ d, scopedPrefix ts d ≤ ts.length := by
  induction ts with
  | nil => intro d; simp [scopedPrefix]
  | cons t ts ih =>
    intro d
    cases t with
    | CLambda n => simp [scopedPrefix, ih d]
    | CLparen => simp [scopedPrefix, ih (d + 1)]
    | CRparen =>
      cases d with
      | zero => simp [scopedPrefix]
      | succ d => simp [scopedPrefix, ih d]
    | CName n => simp [scopedPrefix, ih d]

end C09C

/-- the name resolution never panics (the checked subtraction never underflows) -/
theorem convert_no_panic (ts : List CToken) : convertClassicTokens ts ≠ none := by
  rw [convert_eq_resolve, resolveAll]
  obtain ⟨toks, h, _⟩ := resolve_shape ts [] [] []
  simp [h]

/-- structure of the output: one token per input token up to (and including) the first unmatched
`)`, of the same kind: `Lambda`↔`CLambda`, parentheses↔parentheses, `Number`↔`CName` -/
theorem convert_structure (cts : List CToken) :
    ∃ toks, convertClassicTokens cts = some toks ∧
      toks.map shape = (cts.take (scopedPrefix cts 0)).map cshape := by
  rw [convert_eq_resolve, resolveAll]
  exact resolve_shape cts [] [] []

/-- when every `)` has a matching `(`, the output has exactly one token per input token -/
theorem convert_length (cts : List CToken) (h : closesOk cts 0 = true) :
    ∃ toks, convertClassicTokens cts = some toks ∧ toks.length = cts.length ∧
      toks.map shape = cts.map cshape := by
  obtain ⟨toks, h1, h2⟩ := convert_structure cts
  rw [scopedPrefix_of_closesOk cts 0 h, List.take_length] at h2
  refine ⟨toks, h1, ?_, h2⟩
  have := congrArg List.length h2
  simpa using this

/-- in general the output is never longer than the input -/
theorem convert_length_le (cts : List CToken) :
    ∃ toks, convertClassicTokens cts = some toks ∧ toks.length = scopedPrefix cts 0 ∧
      toks.length ≤ cts.length := by
  obtain ⟨toks, h1, h2⟩ := convert_structure cts
  have := congrArg List.length h2
  have hle := scopedPrefix_le cts 0
  simp only [List.length_map, List.length_take] at this
  exact ⟨toks, h1, by omega, by omega⟩

/-! ### `parse … .Classic` -/

/-- `parse` in Classic notation = lexer, then name resolution, then the token-level stage shared
with the De Bruijn notation -/
theorem parse_cla_spec (cls : CharCls) (s : List Nat) :
    parse cls s .Classic =
      match tokenizeCla cls s with
      | .error e => .err e
      | .ok cts =>
        match convertClassicTokens cts with
        | none => .panic
        | some ts => Cl.tokenStage ts := by
  unfold parse
  cases tokenizeCla cls s with
  | error e => rfl
  | ok cts =>
    simp only [Functor.map, Except.map]
    cases convertClassicTokens cts with
    | none => rfl
    | some ts => rfl

namespace C09C

/-- the same decomposition for the De Bruijn notation (for comparison) -/
theorem parse_dbr_spec (cls : CharCls) (s : List Nat) :
    parse cls s .DeBruijn =
      match tokenizeDbr cls s with
      | .error e => .err e
      | .ok ts => Cl.tokenStage ts := by
  unfold parse
  cases tokenizeDbr cls s with
  | error e => rfl
  | ok ts => rfl

theorem tokenStage_ne_panic (ts : List Token) : Cl.tokenStage ts ≠ .panic := by
  unfold Cl.tokenStage
  split
  · simp
  · split <;> simp
  · simp

end C09C

/-- no string whatsoever makes `parse` panic in Classic notation -/
theorem parse_cla_no_panic (cls : CharCls) (s : List Nat) : parse cls s .Classic ≠ .panic := by
  rw [parse_cla_spec]
  cases tokenizeCla cls s with
  | error e => simp
  | ok cts =>
    simp only []
    cases h : convertClassicTokens cts with
    | none => exact absurd h (convert_no_panic cts)
    | some ts => exact tokenStage_ne_panic ts

/-- `parse` in Classic notation, with the code's name resolution replaced by the reference one -/
theorem parse_cla_resolve (cls : CharCls) (s : List Nat) (cts : List CToken)
    (h : tokenizeCla cls s = .ok cts) :
    ∃ ts, Cl.resolveAll cts = some ts ∧ parse cls s .Classic = Cl.tokenStage ts := by
  obtain ⟨ts, hts, _⟩ := convert_structure cts
  refine ⟨ts, by rw [← convert_eq_resolve, hts], ?_⟩
  rw [parse_cla_spec, h]; simp only [hts]

/-- corresponding inputs in the two notations: a Classic input whose named tokens resolve (by the
reference resolution) to the De Bruijn tokens of a De Bruijn input goes through the same
token-level parser, hence gives the same outcome -/
theorem parse_cla_eq_dbr (cls : CharCls) (s s' : List Nat) (cts : List CToken) (ts : List Token)
    (hc : tokenizeCla cls s = .ok cts) (hd : tokenizeDbr cls s' = .ok ts)
    (hr : Cl.resolveAll cts = some ts) :
    parse cls s .Classic = parse cls s' .DeBruijn := by
  rw [parse_cla_spec, parse_dbr_spec, hc, hd]
  simp only [convert_eq_resolve, hr]

/-! ### the lexer on renderings -/

namespace C09C

variable {cls : CharCls}

theorem except_map_map {ε α β γ} (f : β → γ) (g : α → β) (x : Except ε α) :
    f <$> (g <$> x) = (fun a => f (g a)) <$> x := by
  cases x <;> rfl

theorem except_map_ok {ε α β} (f : α → β) (a : α) :
    f <$> (Except.ok a : Except ε α) = Except.ok (f a) := rfl

theorem lex_top_nil (i : Nat) : tokenizeClaAux cls .top i [] = .ok [] := by
  simp [tokenizeClaAux]

/-- whitespace at top level is skipped -/
theorem lex_top_ws (hcls : ClsOk cls) {c : Nat} (hc : cls.isWs c = true) (i : Nat) (s : List Nat) :
    tokenizeClaAux cls .top i (c :: s) = tokenizeClaAux cls .top (i + 1) s := by
  obtain ⟨h1, h2, h3⟩ := hcls.1 c hc
  simp [tokenizeClaAux, h1, h2, h3, hc]

theorem lex_top_lparen (i : Nat) (s : List Nat) :
    tokenizeClaAux cls .top i (cLparen :: s)
      = (CLparen :: ·) <$> tokenizeClaAux cls .top (i + 1) s := by
  have : isLam cLparen = false := by decide
  simp [tokenizeClaAux, this]

theorem lex_top_rparen (i : Nat) (s : List Nat) :
    tokenizeClaAux cls .top i (cRparen :: s)
      = (CRparen :: ·) <$> tokenizeClaAux cls .top (i + 1) s := by
  have h1 : isLam cRparen = false := by decide
  have h2 : (cRparen == cLparen) = false := by decide
  simp [tokenizeClaAux, h1, h2]

theorem lex_top_glyph {g : Nat} (hg : isLam g = true) (i : Nat) (s : List Nat) :
    tokenizeClaAux cls .top i (g :: s) = tokenizeClaAux cls (.lam [] true) (i + 1) s := by
  simp [tokenizeClaAux, hg]

/-- the first character of a variable name switches the lexer to name mode -/
theorem lex_top_alpha {c : Nat} (h1 : isLam c = false) (h2 : c ≠ cLparen) (h3 : c ≠ cRparen)
    (h4 : cls.isWs c = false) (h5 : cls.isAlpha c = true) (i : Nat) (s : List Nat) :
    tokenizeClaAux cls .top i (c :: s) = tokenizeClaAux cls (.name [c]) (i + 1) s := by
  simp [tokenizeClaAux, h1, h2, h3, h4, h5]

/-- the first character of a binder name: a letter starts the name (the dot is not tested for: an
empty name cannot be ended, repair F12 of the crate) … -/
theorem lex_lam_first {c : Nat} (hc : cls.isAlpha c = true) (name : List Nat) (i : Nat)
    (s : List Nat) :
    tokenizeClaAux cls (.lam name true) i (c :: s)
      = tokenizeClaAux cls (.lam (name ++ [c]) false) (i + 1) s := by
  simp [tokenizeClaAux, hc]

/-- … and anything else — the dot included, if it is not a letter — is an error -/
theorem lex_lam_first_bad {c : Nat} (hc : cls.isAlpha c = false) (name : List Nat) (i : Nat)
    (s : List Nat) :
    tokenizeClaAux cls (.lam name true) i (c :: s) = .error (.InvalidCharacter i c) := by
  simp [tokenizeClaAux, hc]

/-- after the first character of a binder name, a character other than the dot that is not
alphanumeric is an error -/
theorem lex_lam_next_bad {c : Nat} (hd : c ≠ cDot) (hc : cls.isAlnum c = false) (name : List Nat)
    (i : Nat) (s : List Nat) :
    tokenizeClaAux cls (.lam name false) i (c :: s) = .error (.InvalidCharacter i c) := by
  simp [tokenizeClaAux, hc, hd]

/-- inside a binder, after its first character: alphanumeric characters up to the dot -/
theorem lex_lam_rest (s : List Nat) (n : List Nat) :
    ∀ (acc : List Nat) (i : Nat), (∀ d ∈ n, cls.isAlnum d = true ∧ d ≠ cDot) →
      tokenizeClaAux cls (.lam acc false) i (n ++ cDot :: s)
        = (CLambda (acc ++ n) :: ·) <$> tokenizeClaAux cls .top (i + n.length + 1) s := by
  induction n with
  | nil => intro acc i _; simp [tokenizeClaAux]
  | cons d n ih =>
    intro acc i h
    obtain ⟨ha, hd⟩ := h d (by simp)
    have := ih (acc ++ [d]) (i + 1) (fun e he => h e (by simp [he]))
    have e : i + 1 + n.length + 1 = i + (n.length + 1) + 1 := by omega
    simp [tokenizeClaAux, hd, ha, this, e]

/-- a whole binder name followed by its dot -/
theorem lex_lam (s : List Nat) {n : List Nat} (hn : WfName cls n) (i : Nat) :
    tokenizeClaAux cls (.lam [] true) i (n ++ cDot :: s)
      = (CLambda n :: ·) <$> tokenizeClaAux cls .top (i + n.length + 1) s := by
  obtain ⟨⟨c, cs, rfl, hal, _, hrest⟩, hall, _⟩ := hn
  have := lex_lam_rest (cls := cls) s cs [c] (i + 1)
    (fun d hd => ⟨hrest d hd, hall d (by simp [hd])⟩)
  rw [List.cons_append, lex_lam_first hal, List.nil_append, this]
  simp only [List.cons_append, List.nil_append, List.length_cons]
  congr 2; omega

/-- inside a variable name: alphanumeric characters other than the glyph `λ` are accumulated -/
theorem lex_name_rest (s : List Nat) (n : List Nat) :
    ∀ (acc : List Nat) (i : Nat), (∀ d ∈ n, cls.isAlnum d = true ∧ d ≠ cLambda) →
      tokenizeClaAux cls (.name acc) i (n ++ s)
        = tokenizeClaAux cls (.name (acc ++ n)) (i + n.length) s := by
  induction n with
  | nil => intro acc i _; simp
  | cons d n ih =>
    intro acc i h
    obtain ⟨h1, h2⟩ := h d (by simp)
    have h3 : (d != cLambda) = true := by simp [h2]
    have := ih (acc ++ [d]) (i + 1) (fun e he => h e (by simp [he]))
    simp only [List.cons_append, tokenizeClaAux, h1, h3, Bool.and_self, if_true, this,
      List.append_assoc, List.length_cons]
    congr 1; omega

/-- the facts of `ClsOk` about an alphanumeric character -/
theorem alnum_facts (hcls : ClsOk cls) {c : Nat} (hc : cls.isAlnum c = true) :
    cls.isWs c = false ∧ c ≠ cLparen ∧ c ≠ cRparen ∧ c ≠ cBackslash := hcls.2.2 c hc

/-- whitespace is not alphanumeric -/
theorem ws_not_alnum (hcls : ClsOk cls) {c : Nat} (hc : cls.isWs c = true) :
    cls.isAlnum c = false := by
  cases h : cls.isAlnum c with
  | false => rfl
  | true => rw [(alnum_facts hcls h).1] at hc; cases hc

/-- the parentheses and the backslash are not alphanumeric -/
theorem lparen_not_alnum (hcls : ClsOk cls) : cls.isAlnum cLparen = false := by
  cases h : cls.isAlnum cLparen with
  | false => rfl
  | true => exact absurd rfl (alnum_facts hcls h).2.1

theorem rparen_not_alnum (hcls : ClsOk cls) : cls.isAlnum cRparen = false := by
  cases h : cls.isAlnum cRparen with
  | false => rfl
  | true => exact absurd rfl (alnum_facts hcls h).2.2.1

theorem backslash_not_alnum (hcls : ClsOk cls) : cls.isAlnum cBackslash = false := by
  cases h : cls.isAlnum cBackslash with
  | false => rfl
  | true => exact absurd rfl (alnum_facts hcls h).2.2.2

/-- whitespace is not a backslash (`ClsOk`: whitespace is not a lambda glyph) -/
theorem ws_ne_backslash (hcls : ClsOk cls) {c : Nat} (hc : cls.isWs c = true) : c ≠ cBackslash := by
  rintro rfl
  have := (hcls.1 _ hc).1
  revert this; decide

/-- a character that does not continue a variable name (the test of the code: "alphanumeric and
not the glyph `λ`" fails) ends it and is then lexed at top level: mode `.name` on it is
`CName acc ::` what mode `.top` does on it -/
theorem lex_name_break (acc : List Nat) (i : Nat) {c : Nat}
    (hc : (cls.isAlnum c && c != cLambda) = false) (s : List Nat) :
    tokenizeClaAux cls (.name acc) i (c :: s)
      = (CName acc :: ·) <$> tokenizeClaAux cls .top i (c :: s) := by
  simp only [tokenizeClaAux, hc, Bool.false_eq_true, if_false]
  cases isLam c <;> cases (c == cLparen) <;> cases (c == cRparen) <;> cases cls.isWs c <;>
    cases cls.isAlpha c <;>
    simp only [Bool.false_eq_true, if_false, if_true, except_map_map] <;> rfl

/-- a character that is not alphanumeric ends a variable name and is then lexed at top level -/
theorem lex_name_nonalnum (acc : List Nat) (i : Nat) {c : Nat} (hc : cls.isAlnum c = false)
    (s : List Nat) :
    tokenizeClaAux cls (.name acc) i (c :: s)
      = (CName acc :: ·) <$> tokenizeClaAux cls .top i (c :: s) :=
  lex_name_break acc i (by rw [hc]; rfl) s

/-- the glyph `λ` ends a variable name and is then lexed at top level, whatever its classification
(repair F11 of the crate) -/
theorem lex_name_lambda_top (acc : List Nat) (i : Nat) (s : List Nat) :
    tokenizeClaAux cls (.name acc) i (cLambda :: s)
      = (CName acc :: ·) <$> tokenizeClaAux cls .top i (cLambda :: s) :=
  lex_name_break acc i (by simp) s

/-- a backslash ends a variable name and opens a binder -/
theorem lex_name_backslash (hcls : ClsOk cls) (acc : List Nat) (i : Nat) (s : List Nat) :
    tokenizeClaAux cls (.name acc) i (cBackslash :: s)
      = (CName acc :: ·) <$> tokenizeClaAux cls (.lam [] true) (i + 1) s := by
  rw [lex_name_nonalnum acc i (backslash_not_alnum hcls), lex_top_glyph (by decide)]

/-- the glyph `λ` ends a variable name and opens a binder -/
theorem lex_name_lambda (acc : List Nat) (i : Nat) (s : List Nat) :
    tokenizeClaAux cls (.name acc) i (cLambda :: s)
      = (CName acc :: ·) <$> tokenizeClaAux cls (.lam [] true) (i + 1) s := by
  rw [lex_name_lambda_top, lex_top_glyph (by decide)]

/-- a glyph is the backslash or `λ` -/
theorem isLam_cases {g : Nat} (hg : isLam g = true) : g = cBackslash ∨ g = cLambda := by
  simpa [isLam] using hg

/-- either glyph ends a variable name and opens a binder -/
theorem lex_name_glyph (hcls : ClsOk cls) (acc : List Nat) (i : Nat) {g : Nat}
    (hg : isLam g = true) (s : List Nat) :
    tokenizeClaAux cls (.name acc) i (g :: s)
      = (CName acc :: ·) <$> tokenizeClaAux cls (.lam [] true) (i + 1) s := by
  rcases isLam_cases hg with rfl | rfl
  · exact lex_name_backslash hcls acc i s
  · exact lex_name_lambda acc i s

/-- a non-alphanumeric character, the glyph `λ`, or the end of the input ends a variable name and
is then lexed at top level -/
theorem lex_name_end {s : List Nat} (hs : NameEnd cls s) (acc : List Nat) (i : Nat) :
    tokenizeClaAux cls (.name acc) i s = (CName acc :: ·) <$> tokenizeClaAux cls .top i s := by
  cases s with
  | nil => simp only [tokenizeClaAux]; rfl
  | cons c s =>
    rcases hs with hs | rfl
    · exact lex_name_nonalnum acc i hs s
    · exact lex_name_lambda_top acc i s

/-- the first character of a well-formed name is (alphanumeric, hence) not whitespace and not a
parenthesis -/
theorem wfName_head (hcls : ClsOk cls) {c : Nat} {cs : List Nat} (hn : WfName cls (c :: cs)) :
    cls.isAlpha c = true ∧ isLam c = false ∧ cls.isWs c = false ∧ c ≠ cLparen ∧ c ≠ cRparen := by
  obtain ⟨⟨c', cs', e, hal, hg, _⟩, _, _⟩ := hn
  obtain ⟨rfl, rfl⟩ := List.cons.inj e
  obtain ⟨h1, h2, h3, _⟩ := alnum_facts hcls (hcls.2.1 _ hal)
  exact ⟨hal, hg, h1, h2, h3⟩

/-- every character of a well-formed name is alphanumeric -/
theorem wfName_alnum (hcls : ClsOk cls) {n : List Nat} (hn : WfName cls n) :
    ∀ d ∈ n, cls.isAlnum d = true := by
  obtain ⟨⟨c, cs, rfl, hal, _, hrest⟩, _, _⟩ := hn
  intro d hd
  rcases List.mem_cons.1 hd with rfl | hd
  · exact hcls.2.1 _ hal
  · exact hrest d hd

/-- a whole variable name followed by a non-alphanumeric character, the glyph `λ` or the end of
the input -/
theorem lex_name (hcls : ClsOk cls) {n s : List Nat} (hn : WfName cls n) (hs : NameEnd cls s)
    (i : Nat) :
    tokenizeClaAux cls .top i (n ++ s)
      = (CName n :: ·) <$> tokenizeClaAux cls .top (i + n.length) s := by
  obtain ⟨⟨c, cs, rfl, hal, hg, hrest⟩, hall, hnl⟩ := hn
  obtain ⟨_, _, h1, h2, h3⟩ := wfName_head hcls ⟨⟨c, cs, rfl, hal, hg, hrest⟩, hall, hnl⟩
  rw [List.cons_append, lex_top_alpha hg h2 h3 h1 hal,
    lex_name_rest s cs [c] (i + 1) (fun d hd => ⟨hrest d hd, hnl d (by simp [hd])⟩),
    lex_name_end hs]
  simp only [List.cons_append, List.nil_append, List.length_cons]
  congr 2; omega

theorem lex_render (hcls : ClsOk cls) {cts : List CToken} {s : List Nat}
    (h : Renders cls cts s) : ∀ i, tokenizeClaAux cls .top i s = .ok cts := by
  induction h with
  | nil => intro i; exact lex_top_nil i
  | ws hc _ ih => intro i; rw [lex_top_ws hcls hc, ih]
  | lparen _ ih => intro i; rw [lex_top_lparen, ih]; rfl
  | rparen _ ih => intro i; rw [lex_top_rparen, ih]; rfl
  | lam hg hn _ ih => intro i; rw [lex_top_glyph hg, lex_lam _ hn, ih]; rfl
  | name hn hs _ ih => intro i; rw [lex_name hcls hn hs, ih]; rfl

end C09C

/-- LEXER: on any rendering of a list of named tokens — whatever the glyphs and the whitespace —
the lexer returns exactly that list -/
theorem tokenizeCla_render (cls : CharCls) (hcls : Cl.ClsOk cls) (cts : List CToken) (s : List Nat)
    (h : Cl.Renders cls cts s) : tokenizeCla cls s = .ok cts :=
  lex_render hcls h 0

/-- whitespace and the choice of glyph never change the result: two renderings of the same named
tokens parse alike -/
theorem parse_cla_render_indep (cls : CharCls) (hcls : Cl.ClsOk cls) (cts : List CToken)
    (s₁ s₂ : List Nat) (h₁ : Cl.Renders cls cts s₁) (h₂ : Cl.Renders cls cts s₂) :
    parse cls s₁ .Classic = parse cls s₂ .Classic := by
  rw [parse_cla_spec, parse_cla_spec, tokenizeCla_render cls hcls cts s₁ h₁,
    tokenizeCla_render cls hcls cts s₂ h₂]

/-- for Rust's classification the dot is not alphanumeric (checked by the harness for all code
points); with that fact and `ClsOk` a well-formed name is just: a letter other than a glyph, then
alphanumeric characters other than the glyph `λ` -/
theorem wfName_of_unicode (cls : CharCls) (hcls : Cl.ClsOk cls)
    (hdot : cls.isAlnum cDot = false)
    (c : Nat) (cs : List Nat) (hc : cls.isAlpha c = true) (hg : isLam c = false)
    (hcs : ∀ d ∈ cs, cls.isAlnum d = true ∧ d ≠ cLambda) : Cl.WfName cls (c :: cs) := by
  refine ⟨⟨c, cs, rfl, hc, hg, fun d hd => (hcs d hd).1⟩, ?_, ?_⟩
  · have hb : ∀ d, cls.isAlnum d = true → d ≠ cDot := by
      rintro d hd rfl
      rw [hdot] at hd; cases hd
    intro d hd
    rcases List.mem_cons.1 hd with rfl | hd
    · exact hb _ (hcls.2.1 _ hc)
    · exact hb _ (hcs d hd).1
  · intro d hd
    rcases List.mem_cons.1 hd with rfl | hd
    · rintro rfl; revert hg; decide
    · exact (hcs d hd).2

/-- … and conversely, so under these facts `WfName` IS "a letter other than a glyph followed by
alphanumeric characters other than the glyph `λ`" -/
theorem wfName_iff_unicode (cls : CharCls) (hcls : Cl.ClsOk cls)
    (hdot : cls.isAlnum cDot = false) (n : List Nat) :
    Cl.WfName cls n ↔
      ∃ c cs, n = c :: cs ∧ cls.isAlpha c = true ∧ isLam c = false ∧
        ∀ d ∈ cs, cls.isAlnum d = true ∧ d ≠ cLambda := by
  constructor
  · rintro ⟨⟨c, cs, rfl, hc, hg, hcs⟩, _, hnl⟩
    exact ⟨c, cs, rfl, hc, hg, fun d hd => ⟨hcs d hd, hnl d (by simp [hd])⟩⟩
  · rintro ⟨c, cs, rfl, hc, hg, hcs⟩
    exact wfName_of_unicode cls hcls hdot c cs hc hg hcs

/-! ### lexical errors -/

namespace C09C

variable {cls : CharCls}

theorem endsTop_of_append {a s : List Nat} (h : EndsTop cls (a ++ s)) : EndsTop cls s := by
  intro c hc
  apply h c
  rw [List.getLast?_append, hc]; rfl

theorem endsTop_of_cons {a : Nat} {s : List Nat} (h : EndsTop cls (a :: s)) : EndsTop cls s :=
  endsTop_of_append (a := [a]) h

/-- a well-formed name does not end at top level: its last character is alphanumeric, hence
(`ClsOk`) neither whitespace nor a parenthesis, and it is not the dot -/
theorem wfName_not_endsTop (hcls : ClsOk cls) {n : List Nat} (hn : WfName cls n) :
    ¬ EndsTop cls n := by
  intro h
  have hal := wfName_alnum hcls hn
  obtain ⟨⟨c, cs, rfl, _⟩, hall, _⟩ := hn
  cases hl : (c :: cs).getLast? with
  | none => simp at hl
  | some d =>
    have hd := List.mem_of_getLast? hl
    obtain ⟨h1, h2, h3, _⟩ := alnum_facts hcls (hal d hd)
    rcases h d hl with h' | h' | h' | h'
    · rw [h1] at h'; cases h'
    · exact h2 h'
    · exact h3 h'
    · exact hall d hd h'

theorem nameEnd_append {s : List Nat} (hs : NameEnd cls s) (hne : s ≠ []) (rest : List Nat) :
    NameEnd cls (s ++ rest) := by
  cases s with
  | nil => exact absurd rfl hne
  | cons c s => exact hs

/-- after a rendering the lexer has produced its tokens and continues at top level with whatever
follows, provided the rendering ends at top level or — if it ends inside a name — what follows may
end a name (it is empty or starts with a character that is not alphanumeric or is the glyph `λ`) -/
theorem lex_prefix' (hcls : ClsOk cls) {ts : List CToken} {pre : List Nat}
    (h : Renders cls ts pre) :
    ∀ (i : Nat) (rest : List Nat), (EndsTop cls pre ∨ NameEnd cls rest) →
      tokenizeClaAux cls .top i (pre ++ rest)
        = (ts ++ ·) <$> tokenizeClaAux cls .top (i + pre.length) rest := by
  induction h with
  | nil =>
    intro i rest _
    cases h : tokenizeClaAux cls .top i rest <;> simp [h] <;> rfl
  | @ws c cts s hc _ ih =>
    intro i rest he
    rw [List.cons_append, lex_top_ws hcls hc, ih _ _ (he.imp endsTop_of_cons id)]
    simp only [List.length_cons]; congr 2; omega
  | @lparen cts s _ ih =>
    intro i rest he
    rw [List.cons_append, lex_top_lparen, ih _ _ (he.imp endsTop_of_cons id), except_map_map]
    simp only [List.length_cons, List.cons_append]; congr 2; omega
  | @rparen cts s _ ih =>
    intro i rest he
    rw [List.cons_append, lex_top_rparen, ih _ _ (he.imp endsTop_of_cons id), except_map_map]
    simp only [List.length_cons, List.cons_append]; congr 2; omega
  | @lam g n cts s hg hn _ ih =>
    intro i rest he
    have he' : EndsTop cls s ∨ NameEnd cls rest :=
      he.imp (fun h => endsTop_of_cons (endsTop_of_append (a := n) (endsTop_of_cons h))) id
    rw [List.cons_append, List.append_assoc, List.cons_append, lex_top_glyph hg, lex_lam _ hn,
      ih _ _ he', except_map_map]
    simp only [List.length_cons, List.length_append, List.cons_append]; congr 2; omega
  | @name n cts s hn hs _ ih =>
    intro i rest he
    have hs' : NameEnd cls (s ++ rest) := by
      cases s with
      | nil =>
        rcases he with he | he
        · rw [List.append_nil] at he
          exact absurd he (wfName_not_endsTop hcls hn)
        · exact he
      | cons c s => exact hs
    rw [List.append_assoc, lex_name hcls hn hs', ih _ _ (he.imp endsTop_of_append id),
      except_map_map]
    simp only [List.length_append, List.cons_append]; congr 2; omega

/-- after a rendering that ends at top level the lexer has produced its tokens and continues at
top level with whatever follows -/
theorem lex_prefix (hcls : ClsOk cls) {ts : List CToken} {pre : List Nat}
    (h : Renders cls ts pre) :
    EndsTop cls pre → ∀ (i : Nat) (rest : List Nat),
      tokenizeClaAux cls .top i (pre ++ rest)
        = (ts ++ ·) <$> tokenizeClaAux cls .top (i + pre.length) rest :=
  fun he i rest => lex_prefix' hcls h i rest (Or.inl he)

/-- renderings compose: after a rendering that ends at top level — or, if it ends inside a name,
when what follows may end a name (the end of the input, a character that is not alphanumeric —
whitespace, a parenthesis, a backslash … — or the glyph `λ`) — any rendering may follow -/
theorem renders_append (hcls : ClsOk cls) {ts₁ ts₂ : List CToken} {pre s : List Nat}
    (h₁ : Renders cls ts₁ pre) (h₂ : Renders cls ts₂ s) :
    (EndsTop cls pre ∨ NameEnd cls s) → Renders cls (ts₁ ++ ts₂) (pre ++ s) := by
  induction h₁ with
  | nil => intro _; exact h₂
  | ws hc _ ih => intro he; exact .ws hc (ih (he.imp endsTop_of_cons id))
  | lparen _ ih => intro he; exact .lparen (ih (he.imp endsTop_of_cons id))
  | rparen _ ih => intro he; exact .rparen (ih (he.imp endsTop_of_cons id))
  | @lam g n cts s' hg hn _ ih =>
    intro he
    have he' : EndsTop cls s' ∨ NameEnd cls s :=
      he.imp (fun h => endsTop_of_cons (endsTop_of_append (a := n) (endsTop_of_cons h))) id
    have := Renders.lam hg hn (ih he')
    rw [List.cons_append, List.cons_append, List.append_assoc, List.cons_append]
    exact this
  | @name n cts s' hn hs _ ih =>
    intro he
    have hs' : NameEnd cls (s' ++ s) := by
      cases s' with
      | nil =>
        rcases he with he | he
        · rw [List.append_nil] at he
          exact absurd he (wfName_not_endsTop hcls hn)
        · exact he
      | cons c s' => exact hs
    have := Renders.name hn hs' (ih (he.imp endsTop_of_append id))
    rw [List.cons_append, List.append_assoc]
    exact this

/-- whitespace may be inserted in front of any rendering -/
theorem renders_ws_prefix {ts : List CToken} {s : List Nat} (h : Renders cls ts s) (ws : List Nat)
    (hws : ∀ w ∈ ws, cls.isWs w = true) : Renders cls ts (ws ++ s) := by
  induction ws with
  | nil => exact h
  | cons w ws ih =>
    exact .ws (hws w (by simp)) (ih (fun v hv => hws v (by simp [hv])))

/-- whitespace followed by a backslash may end a name, and so may the backslash alone -/
theorem nameEnd_ws_backslash (hcls : ClsOk cls) (ws s : List Nat)
    (hws : ∀ w ∈ ws, cls.isWs w = true) :
    NameEnd cls (ws ++ cBackslash :: s) := by
  cases ws with
  | nil => exact .inl (backslash_not_alnum hcls)
  | cons w ws => exact .inl (ws_not_alnum hcls (hws w (by simp)))

/-- a glyph (either one) may end a name -/
theorem nameEnd_glyph (hcls : ClsOk cls) {g : Nat} (hg : isLam g = true) (s : List Nat) :
    NameEnd cls (g :: s) := by
  rcases isLam_cases hg with rfl | rfl
  · exact .inl (backslash_not_alnum hcls)
  · exact .inr rfl

/-- whitespace followed by a glyph may end a name, and so may the glyph alone -/
theorem nameEnd_ws_glyph (hcls : ClsOk cls) {g : Nat} (hg : isLam g = true) (ws s : List Nat)
    (hws : ∀ w ∈ ws, cls.isWs w = true) :
    NameEnd cls (ws ++ g :: s) := by
  cases ws with
  | nil => exact nameEnd_glyph hcls hg s
  | cons w ws => exact .inl (ws_not_alnum hcls (hws w (by simp)))

/-- inside a binder, after its first character: alphanumeric characters are accumulated -/
theorem lex_lam_acc (rest : List Nat) (n : List Nat) :
    ∀ (acc : List Nat) (i : Nat), (∀ d ∈ n, cls.isAlnum d = true ∧ d ≠ cDot) →
      tokenizeClaAux cls (.lam acc false) i (n ++ rest)
        = tokenizeClaAux cls (.lam (acc ++ n) false) (i + n.length) rest := by
  induction n with
  | nil => intro acc i _; simp
  | cons d n ih =>
    intro acc i h
    obtain ⟨ha, hd⟩ := h d (by simp)
    have := ih (acc ++ [d]) (i + 1) (fun e he => h e (by simp [he]))
    have e : i + 1 + n.length = i + (n.length + 1) := by omega
    simp [tokenizeClaAux, hd, ha, this, e]

end C09C

/-- LEXICAL ERROR, general form: after a prefix that renders complete tokens and either ends at top
level or ends inside a name that the offending character ends (it is not alphanumeric), a character
that is neither a glyph, a parenthesis, whitespace nor alphabetic is reported with its index -/
theorem tokenizeCla_invalid_top' (cls : CharCls) (hcls : Cl.ClsOk cls)
    (ts₀ : List CToken) (pre : List Nat) (c : Nat) (post : List Nat)
    (hpre : Cl.Renders cls ts₀ pre) (hend : Cl.EndsTop cls pre ∨ cls.isAlnum c = false)
    (hglyph : isLam c = false) (hlp : c ≠ cLparen) (hrp : c ≠ cRparen)
    (hws : cls.isWs c = false) (halpha : cls.isAlpha c = false) :
    tokenizeCla cls (pre ++ c :: post) = .error (.InvalidCharacter pre.length c) := by
  unfold tokenizeCla
  rw [lex_prefix' hcls hpre 0 (c :: post) (hend.imp id Or.inl)]
  simp [tokenizeClaAux, hglyph, hlp, hrp, hws, halpha]
  rfl

/-- LEXICAL ERROR at top level: after a prefix that renders complete tokens and ends at top level
(with whitespace, a parenthesis or a binder dot), a character that is neither a glyph, a
parenthesis, whitespace nor alphabetic is reported with its index -/
theorem tokenizeCla_invalid_top (cls : CharCls) (hcls : Cl.ClsOk cls)
    (ts₀ : List CToken) (pre : List Nat) (c : Nat) (post : List Nat)
    (hpre : Cl.Renders cls ts₀ pre) (hend : Cl.EndsTop cls pre)
    (hglyph : isLam c = false) (hlp : c ≠ cLparen) (hrp : c ≠ cRparen)
    (hws : cls.isWs c = false) (halpha : cls.isAlpha c = false) :
    tokenizeCla cls (pre ++ c :: post) = .error (.InvalidCharacter pre.length c) :=
  tokenizeCla_invalid_top' cls hcls ts₀ pre c post hpre (Or.inl hend) hglyph hlp hrp hws halpha

/-- LEXICAL ERROR directly after a variable name: after a prefix that renders complete tokens and
ends at top level, and a well-formed name `n`, a character that cannot continue the name (not
alphanumeric) and cannot start a token either (not a glyph, a parenthesis, whitespace or a letter)
is reported with its index (e.g. `x.y` ↦ `InvalidCharacter 1 '.'`, `λx.x-` ↦
`InvalidCharacter 4 '-'`) -/
theorem tokenizeCla_invalid_after_name (cls : CharCls) (hcls : Cl.ClsOk cls)
    (ts₀ : List CToken) (pre n : List Nat) (c : Nat) (post : List Nat)
    (hpre : Cl.Renders cls ts₀ pre) (hend : Cl.EndsTop cls pre) (hn : Cl.WfName cls n)
    (halnum : cls.isAlnum c = false)
    (hglyph : isLam c = false) (hlp : c ≠ cLparen) (hrp : c ≠ cRparen)
    (hws : cls.isWs c = false) (halpha : cls.isAlpha c = false) :
    tokenizeCla cls (pre ++ n ++ c :: post)
      = .error (.InvalidCharacter (pre.length + n.length) c) := by
  have hr : Cl.Renders cls (ts₀ ++ [CName n]) (pre ++ (n ++ [])) :=
    renders_append hcls hpre (.name hn trivial .nil) (Or.inl hend)
  rw [List.append_nil] at hr
  have := tokenizeCla_invalid_top' cls hcls _ (pre ++ n) c post hr (Or.inr halnum)
    hglyph hlp hrp hws halpha
  rwa [List.length_append] at this

/-- LEXICAL ERROR inside a binder: after such a prefix, a glyph and a (possibly empty) partial
binder name `nm`, a character other than the dot that cannot continue the name — not alphabetic
if `nm` is empty, not alphanumeric otherwise — is reported with its index
(e.g. `λa.λb a` ↦ `InvalidCharacter 5 ' '`) -/
theorem tokenizeCla_invalid_binder (cls : CharCls) (hcls : Cl.ClsOk cls)
    (ts₀ : List CToken) (pre : List Nat) (g : Nat) (nm : List Nat) (c : Nat) (post : List Nat)
    (hpre : Cl.Renders cls ts₀ pre) (hend : Cl.EndsTop cls pre) (hg : isLam g = true)
    (hnm : ∀ a as, nm = a :: as →
      cls.isAlpha a = true ∧ a ≠ cDot ∧ ∀ d ∈ as, cls.isAlnum d = true ∧ d ≠ cDot)
    (hdot : c ≠ cDot)
    (hbad : if nm = [] then cls.isAlpha c = false else cls.isAlnum c = false) :
    tokenizeCla cls (pre ++ g :: (nm ++ c :: post))
      = .error (.InvalidCharacter (pre.length + 1 + nm.length) c) := by
  unfold tokenizeCla
  rw [lex_prefix hcls hpre hend, lex_top_glyph hg]
  cases nm with
  | nil =>
    simp only [if_true] at hbad
    rw [List.nil_append, lex_lam_first_bad hbad]
    simp only [List.length_nil, Nat.add_zero, Nat.zero_add]
    rfl
  | cons a as =>
    obtain ⟨ha, _, has⟩ := hnm a as rfl
    simp only [reduceCtorEq, if_false] at hbad
    have := lex_lam_acc (cls := cls) (c :: post) as [a] (0 + pre.length + 1 + 1) has
    rw [List.cons_append, lex_lam_first ha, List.nil_append, this, lex_lam_next_bad hdot hbad]
    have e : 0 + pre.length + 1 + 1 + as.length = pre.length + 1 + (as.length + 1) := by omega
    simp only [List.length_cons, e]; rfl

/-- the same when the binder directly follows a variable name, which is possible with the backslash
glyph (it ends the name): the prefix `pre` may be ANY rendering of complete tokens
(e.g. `x\1` ↦ `InvalidCharacter 2 '1'`) -/
theorem tokenizeCla_invalid_binder_backslash (cls : CharCls) (hcls : Cl.ClsOk cls)
    (ts₀ : List CToken) (pre : List Nat) (nm : List Nat) (c : Nat) (post : List Nat)
    (hpre : Cl.Renders cls ts₀ pre)
    (hnm : ∀ a as, nm = a :: as →
      cls.isAlpha a = true ∧ a ≠ cDot ∧ ∀ d ∈ as, cls.isAlnum d = true ∧ d ≠ cDot)
    (hdot : c ≠ cDot)
    (hbad : if nm = [] then cls.isAlpha c = false else cls.isAlnum c = false) :
    tokenizeCla cls (pre ++ cBackslash :: (nm ++ c :: post))
      = .error (.InvalidCharacter (pre.length + 1 + nm.length) c) := by
  unfold tokenizeCla
  have hne : NameEnd cls (cBackslash :: (nm ++ c :: post)) := .inl (backslash_not_alnum hcls)
  rw [lex_prefix' hcls hpre 0 _ (Or.inr hne),
    lex_top_glyph (show isLam cBackslash = true by decide)]
  cases nm with
  | nil =>
    simp only [if_true] at hbad
    rw [List.nil_append, lex_lam_first_bad hbad]
    simp only [List.length_nil, Nat.add_zero, Nat.zero_add]
    rfl
  | cons a as =>
    obtain ⟨ha, _, has⟩ := hnm a as rfl
    simp only [reduceCtorEq, if_false] at hbad
    have := lex_lam_acc (cls := cls) (c :: post) as [a] (0 + pre.length + 1 + 1) has
    rw [List.cons_append, lex_lam_first ha, List.nil_append, this, lex_lam_next_bad hdot hbad]
    have e : 0 + pre.length + 1 + 1 + as.length = pre.length + 1 + (as.length + 1) := by omega
    simp only [List.length_cons, e]; rfl

/-- the same for EITHER glyph directly after a variable name (since the repair F11 of the crate the
glyph `λ` ends a name like the backslash does; e.g. `xλ1` ↦ `InvalidCharacter 2 '1'`) -/
theorem tokenizeCla_invalid_binder_glyph (cls : CharCls) (hcls : Cl.ClsOk cls)
    (ts₀ : List CToken) (pre : List Nat) (g : Nat) (nm : List Nat) (c : Nat) (post : List Nat)
    (hpre : Cl.Renders cls ts₀ pre) (hg : isLam g = true)
    (hnm : ∀ a as, nm = a :: as →
      cls.isAlpha a = true ∧ a ≠ cDot ∧ ∀ d ∈ as, cls.isAlnum d = true ∧ d ≠ cDot)
    (hdot : c ≠ cDot)
    (hbad : if nm = [] then cls.isAlpha c = false else cls.isAlnum c = false) :
    tokenizeCla cls (pre ++ g :: (nm ++ c :: post))
      = .error (.InvalidCharacter (pre.length + 1 + nm.length) c) := by
  unfold tokenizeCla
  have hne : NameEnd cls (g :: (nm ++ c :: post)) := nameEnd_glyph hcls hg _
  rw [lex_prefix' hcls hpre 0 _ (Or.inr hne), lex_top_glyph hg]
  cases nm with
  | nil =>
    simp only [if_true] at hbad
    rw [List.nil_append, lex_lam_first_bad hbad]
    simp only [List.length_nil, Nat.add_zero, Nat.zero_add]
    rfl
  | cons a as =>
    obtain ⟨ha, _, has⟩ := hnm a as rfl
    simp only [reduceCtorEq, if_false] at hbad
    have := lex_lam_acc (cls := cls) (c :: post) as [a] (0 + pre.length + 1 + 1) has
    rw [List.cons_append, lex_lam_first ha, List.nil_append, this, lex_lam_next_bad hdot hbad]
    have e : 0 + pre.length + 1 + 1 + as.length = pre.length + 1 + (as.length + 1) := by omega
    simp only [List.length_cons, e]; rfl

/-- EMPTY BINDER NAME (repair F12 of the crate): a glyph directly followed by the dot is a lexical
error AT THE DOT, after ANY rendering of complete tokens, whenever the dot is not a letter -/
theorem tokenizeCla_empty_binder (cls : CharCls) (hcls : Cl.ClsOk cls)
    (hdot : cls.isAlpha cDot = false) (ts₀ : List CToken) (pre : List Nat) (g : Nat) (post : List Nat)
    (hpre : Cl.Renders cls ts₀ pre) (hg : isLam g = true) :
    tokenizeCla cls (pre ++ g :: cDot :: post)
      = .error (.InvalidCharacter (pre.length + 1) cDot) := by
  unfold tokenizeCla
  have hne : NameEnd cls (g :: cDot :: post) := nameEnd_glyph hcls hg _
  rw [lex_prefix' hcls hpre 0 _ (Or.inr hne), lex_top_glyph hg, lex_lam_first_bad hdot]
  simp only [Nat.zero_add]
  rfl

/-- WHITESPACE BEFORE A BINDER, either glyph: a variable name may be followed directly by a binder;
with or without whitespace in between the string renders the same named tokens -/
theorem renders_name_glyph (cls : CharCls) (hcls : Cl.ClsOk cls) (ts₀ cts : List CToken)
    (pre n ws s : List Nat) (g : Nat) (hg : isLam g = true)
    (hpre : Cl.Renders cls ts₀ pre) (hend : Cl.EndsTop cls pre) (hn : Cl.WfName cls n)
    (hws : ∀ w ∈ ws, cls.isWs w = true) (hs : Cl.Renders cls cts (g :: s)) :
    Cl.Renders cls (ts₀ ++ CName n :: cts) (pre ++ (n ++ (ws ++ g :: s))) :=
  renders_append hcls hpre
    (.name hn (nameEnd_ws_glyph hcls hg ws s hws) (renders_ws_prefix hs ws hws)) (Or.inl hend)

/-- WHITESPACE BEFORE A BACKSLASH BINDER: a variable name may be followed directly by a backslash
binder; with or without whitespace in between the string renders the same named tokens
(`pre`: any rendering that ends at top level, so that the name `n` starts a token) -/
theorem renders_name_backslash (cls : CharCls) (hcls : Cl.ClsOk cls) (ts₀ cts : List CToken)
    (pre n ws s : List Nat)
    (hpre : Cl.Renders cls ts₀ pre) (hend : Cl.EndsTop cls pre) (hn : Cl.WfName cls n)
    (hws : ∀ w ∈ ws, cls.isWs w = true) (hs : Cl.Renders cls cts (cBackslash :: s)) :
    Cl.Renders cls (ts₀ ++ CName n :: cts) (pre ++ (n ++ (ws ++ cBackslash :: s))) :=
  renders_append hcls hpre
    (.name hn (nameEnd_ws_backslash hcls ws s hws) (renders_ws_prefix hs ws hws)) (Or.inl hend)

/-! ### name resolution vs. the standard named → De Bruijn translation on trees -/

namespace C09C
open NTerm Term

/-- the binders left open (not enclosed in parentheses) by the printing of `t` in context `ctx`,
innermost first -/
def opened : NTerm → Nat → List Name
  | nvar _, _ => []
  | nlam n b, ctx => if ctx > 1 then [] else opened b 0 ++ [n]
  | napp _ _, _ => []

theorem opened_of_gt (t : NTerm) {ctx : Nat} (h : ctx > 1) : opened t ctx = [] := by
  cases t <;> simp [opened, h]

/-- compositional form: resolving the printing of `t` followed by `rest` yields the De Bruijn
printing of the translation of `t`, then continues on `rest` with the binders opened by `t` added
to the innermost scope and the free-name list extended as by the translation -/
theorem resolve_print (t : NTerm) :
    ∀ (ctx : Nat) (rest : List CToken) (sc : List Name) (scs : List (List Name)) (free : List Name),
      resolve (printN t ctx ++ rest) (sc :: scs) free =
        (printD (toDB (sc :: scs).flatten free t).1 ctx ++ ·) <$>
          resolve rest ((opened t ctx ++ sc) :: scs) (toDB (sc :: scs).flatten free t).2 := by
  induction t with
  | nvar n =>
    intro ctx rest sc scs free
    simp only [printN, List.cons_append, List.nil_append, resolve, toDB, opened]
    cases List.idxOf? n (sc :: scs).flatten with
    | some p => simp [printD]
    | none =>
      cases List.idxOf? n free with
      | some r => simp [printD]
      | none => simp [printD]
  | nlam n b ih =>
    intro ctx rest sc scs free
    by_cases hctx : ctx > 1
    · have := ih 0 (CRparen :: rest) [n] (sc :: scs) free
      simp only [List.flatten_cons, List.cons_append, List.nil_append] at this
      simp only [printN, parenC, hctx, decide_true, if_true, List.cons_append, List.append_assoc,
        List.nil_append, resolve, List.flatten_cons, this, toDB, printD, parenD, opened,
        Option.map_eq_map, Option.map_map]
      rfl
    · have := ih 0 rest (n :: sc) scs free
      simp only [List.flatten_cons, List.cons_append] at this
      simp only [printN, parenC, hctx, decide_false, if_false, List.cons_append,
        resolve, List.flatten_cons, this, toDB, printD, parenD, opened, Bool.false_eq_true,
        Option.map_eq_map, Option.map_map, List.append_assoc, List.nil_append]
      rfl
  | napp f a ihf iha =>
    intro ctx rest sc scs free
    by_cases hctx : ctx = 3
    · subst hctx
      have h1 := ihf 2 (printN a 3 ++ CRparen :: rest) [] (sc :: scs) free
      have h2 := iha 3 (CRparen :: rest) [] (sc :: scs) (toDB (sc :: scs).flatten free f).2
      simp only [opened_of_gt _ (show 2 > 1 by omega), opened_of_gt _ (show 3 > 1 by omega),
        List.flatten_cons, List.nil_append] at h1 h2
      simp only [printN, parenC, beq_self_eq_true, if_true, List.cons_append, List.append_assoc,
        List.nil_append, resolve, List.flatten_cons, h1, h2, toDB, printD, parenD, opened,
        Option.map_eq_map, Option.map_map]
      rfl
    · have h1 := ihf 2 (printN a 3 ++ rest) sc scs free
      have h2 := iha 3 rest sc scs (toDB (sc :: scs).flatten free f).2
      simp only [opened_of_gt _ (show 2 > 1 by omega), opened_of_gt _ (show 3 > 1 by omega),
        List.nil_append] at h1 h2
      have hb : (ctx == 3) = false := by simp [hctx]
      simp only [printN, parenC, hb, Bool.false_eq_true, if_false, List.append_assoc, h1, h2,
        toDB, printD, parenD, opened, Option.map_eq_map, Option.map_map, List.nil_append]
      rfl

end C09C

/-- NAME RESOLUTION = STANDARD TRANSLATION: resolving the named tokens of the printing of a named
term gives the De Bruijn tokens of the printing of its standard De Bruijn translation -/
theorem resolve_print_toDB (t : Cl.NTerm) (ctx : Nat) :
    Cl.resolveAll (Cl.printN t ctx) = some (Cl.printD (Cl.toDeBruijn t) ctx) := by
  have := resolve_print t ctx [] [] [] []
  simpa [resolveAll, toDeBruijn, resolve] using this

/-- the same for the code's conversion -/
theorem convert_print_toDB (t : Cl.NTerm) (ctx : Nat) :
    convertClassicTokens (Cl.printN t ctx) = some (Cl.printD (Cl.toDeBruijn t) ctx) := by
  rw [convert_eq_resolve, resolve_print_toDB]

/-! ### all admissible printings: redundant parentheses never change the result -/

namespace C09C
open NTerm Term Parser.Expression

/-- an admissible position can always be used as a final one -/
theorem PrintsN_fin {t arg fin cts} (h : PrintsN t arg fin cts) : PrintsN t arg true cts := by
  induction h with
  | var => exact .var
  | lam _ ih => exact .lam ih
  | app hf _ _ iha => exact .app hf iha
  | paren h _ => exact .paren h

theorem PrintsD_fin {t arg fin ts} (h : PrintsD t arg fin ts) : PrintsD t arg true ts := by
  induction h with
  | var => exact .var
  | lam _ ih => exact .lam ih
  | app hf _ _ iha => exact .app hf iha
  | paren h _ => exact .paren h

/-- the crate's parenthesisation discipline is an admissible printing -/
theorem printN_prints (t : NTerm) :
    ∀ ctx, PrintsN t (ctx == 3) (decide (ctx ≤ 1)) (printN t ctx) := by
  induction t with
  | nvar n => intro ctx; exact .var
  | nlam n b ih =>
    intro ctx
    by_cases hctx : ctx > 1
    · simp only [printN, parenC, hctx, decide_true, if_true]
      exact .paren (.lam (ih 0))
    · have h1 : ctx ≤ 1 := by omega
      simp only [printN, parenC, hctx, decide_false, Bool.false_eq_true, if_false, h1, decide_true]
      exact .lam (ih 0)
  | napp f a ihf iha =>
    intro ctx
    by_cases hctx : ctx = 3
    · subst hctx
      simp only [printN, parenC, beq_self_eq_true, if_true]
      exact .paren (.app (ihf 2) (PrintsN_fin (iha 3)))
    · have hb : (ctx == 3) = false := by simp [hctx]
      simp only [printN, parenC, hb, Bool.false_eq_true, if_false]
      cases hfin : decide (ctx ≤ 1) with
      | true => exact .app (ihf 2) (PrintsN_fin (iha 3))
      | false => exact .app (ihf 2) (iha 3)

theorem printD_prints (t : Term) :
    ∀ ctx, PrintsD t (ctx == 3) (decide (ctx ≤ 1)) (printD t ctx) := by
  induction t with
  | var i => intro ctx; exact .var
  | abs b ih =>
    intro ctx
    by_cases hctx : ctx > 1
    · simp only [printD, parenD, hctx, decide_true, if_true]
      exact .paren (.lam (ih 0))
    · have h1 : ctx ≤ 1 := by omega
      simp only [printD, parenD, hctx, decide_false, Bool.false_eq_true, if_false, h1, decide_true]
      exact .lam (ih 0)
  | app f a ihf iha =>
    intro ctx
    by_cases hctx : ctx = 3
    · subst hctx
      simp only [printD, parenD, beq_self_eq_true, if_true]
      exact .paren (.app (ihf 2) (PrintsD_fin (iha 3)))
    · have hb : (ctx == 3) = false := by simp [hctx]
      simp only [printD, parenD, hb, Bool.false_eq_true, if_false]
      cases hfin : decide (ctx ≤ 1) with
      | true => exact .app (ihf 2) (PrintsD_fin (iha 3))
      | false => exact .app (ihf 2) (iha 3)

/-- compositional form: resolving an admissible printing of `t` followed by `rest` yields an
admissible printing (same parentheses) of the translation of `t`, then continues on `rest` with the
binders `op` left open by `t` (none unless the position is final) and the free names of the
translation -/
theorem resolve_prints {t : NTerm} {arg fin : Bool} {cts : List CToken}
    (h : PrintsN t arg fin cts) :
    ∀ (rest : List CToken) (sc : List Name) (scs : List (List Name)) (free : List Name),
      ∃ dts op, PrintsD (toDB (sc :: scs).flatten free t).1 arg fin dts ∧ (fin = false → op = []) ∧
        resolve (cts ++ rest) (sc :: scs) free =
          (dts ++ ·) <$> resolve rest ((op ++ sc) :: scs) (toDB (sc :: scs).flatten free t).2 := by
  induction h with
  | @var n arg fin =>
    intro rest sc scs free
    simp only [List.cons_append, List.nil_append, resolve, toDB]
    cases List.idxOf? n (sc :: scs).flatten with
    | some p => exact ⟨_, [], .var, fun _ => rfl, rfl⟩
    | none =>
      cases List.idxOf? n free with
      | some r => exact ⟨_, [], .var, fun _ => rfl, rfl⟩
      | none => exact ⟨_, [], .var, fun _ => rfl, rfl⟩
  | @lam n b arg cts _ ih =>
    intro rest sc scs free
    obtain ⟨dts, op, hp, _, he⟩ := ih rest (n :: sc) scs free
    simp only [List.flatten_cons, List.cons_append] at hp he
    refine ⟨Lambda :: dts, op ++ [n], ?_, (fun h => by cases h), ?_⟩
    · simpa only [toDB, List.flatten_cons] using PrintsD.lam hp
    · simp only [List.cons_append, resolve, List.flatten_cons, he, toDB, Option.map_eq_map,
        Option.map_map, List.append_assoc, List.nil_append]
      rfl
  | @app f a fin c₁ c₂ _ _ ihf iha =>
    intro rest sc scs free
    obtain ⟨d₁, op₁, hp₁, ho₁, he₁⟩ := ihf (c₂ ++ rest) sc scs free
    obtain ⟨d₂, op₂, hp₂, ho₂, he₂⟩ := iha rest sc scs (toDB (sc :: scs).flatten free f).2
    rw [ho₁ rfl, List.nil_append] at he₁
    refine ⟨d₁ ++ d₂, op₂, ?_, ho₂, ?_⟩
    · simpa only [toDB] using PrintsD.app hp₁ hp₂
    · simp only [List.append_assoc, he₁, he₂, toDB, Option.map_eq_map, Option.map_map]
      rfl
  | @paren t arg fin cts _ ih =>
    intro rest sc scs free
    obtain ⟨dts, op, hp, _, he⟩ := ih (CRparen :: rest) [] (sc :: scs) free
    simp only [List.flatten_cons, List.nil_append] at hp he
    refine ⟨Lparen :: (dts ++ [Rparen]), [], .paren hp, fun _ => rfl, ?_⟩
    simp only [List.cons_append, List.append_assoc, List.nil_append, resolve, List.flatten_cons,
      he, Option.map_eq_map, Option.map_map]
    rfl

/-! #### the token-level stage on admissible printings of De Bruijn terms -/

/-- the expression lists that `get_ast` builds from admissible printings -/
inductive ExprsR : Term → (arg fin : Bool) → List Expression → Prop
  | var {i arg fin} : ExprsR (var i) arg fin [Variable i]
  | lam {b arg es} : ExprsR b false true es → ExprsR (abs b) arg true (Abstraction :: es)
  | app {f a fin e₁ e₂} : ExprsR f false false e₁ → ExprsR a true fin e₂ →
      ExprsR (app f a) false fin (e₁ ++ e₂)
  | paren {t arg fin es} : ExprsR t false true es → ExprsR t arg fin [Sequence es]

theorem astLoop_prints {t : Term} {arg fin : Bool} {dts : List Token} (h : PrintsD t arg fin dts) :
    ∃ es, ExprsR t arg fin es ∧
      ∀ (rest : List Token) (cur : List Expression) (st : List (List Expression)),
        astLoop (dts ++ rest) cur st = astLoop rest (es.reverse ++ cur) st := by
  induction h with
  | var => exact ⟨_, .var, fun rest cur st => by simp [astLoop]⟩
  | lam _ ih =>
    obtain ⟨es, he, h⟩ := ih
    exact ⟨_, .lam he, fun rest cur st => by simp [astLoop, h]⟩
  | app _ _ ihf iha =>
    obtain ⟨e₁, he₁, h₁⟩ := ihf
    obtain ⟨e₂, he₂, h₂⟩ := iha
    exact ⟨_, .app he₁ he₂, fun rest cur st => by simp [h₁, h₂]⟩
  | paren _ ih =>
    obtain ⟨es, he, h⟩ := ih
    exact ⟨_, .paren he, fun rest cur st => by simp [astLoop, h]⟩

theorem prints_ne_nil {t : Term} {arg fin : Bool} {dts : List Token} (h : PrintsD t arg fin dts) :
    dts ≠ [] := by
  induction h with
  | var => simp
  | lam _ _ => simp
  | app _ _ ihf _ => simp [ihf]
  | paren _ _ => simp

theorem getAst_prints {t : Term} {arg fin : Bool} {dts : List Token} (h : PrintsD t arg fin dts) :
    ∃ es, ExprsR t arg fin es ∧ getAst dts = .ok (Sequence es) := by
  obtain ⟨es, he, h'⟩ := astLoop_prints h
  refine ⟨es, he, ?_⟩
  have := h' [] [] []
  simp only [List.append_nil] at this
  simp [getAst, prints_ne_nil h, this, astLoop]

/-- `us` folds like the single term `t` when used as the head of an application spine -/
def IsHead (us : List Term) (t : Term) : Prop := ∀ ts, foldTerms (us ++ ts) = .ok (ts.foldl app t)

theorem isHead_single (t : Term) : IsHead [t] t := fun _ => rfl

theorem IsHead.snoc {us : List Term} {f : Term} (h : IsHead us f) (a : Term) :
    IsHead (us ++ [a]) (app f a) := by
  intro ts
  have := h (a :: ts)
  simpa using this

theorem foldList_var (i : Nat) (rest : List Expression) :
    foldList (Variable i :: rest) = (var i :: ·) <$> foldList rest := by
  rw [foldList]; cases foldList rest <;> rfl

theorem foldList_seq (es rest : List Expression) (us : List Term) (t : Term)
    (h1 : foldList es = .ok us) (h2 : foldTerms us = .ok t) :
    foldList (Sequence es :: rest) = (t :: ·) <$> foldList rest := by
  rw [foldList, h1]; simp only [h2]; cases foldList rest <;> rfl

theorem foldList_abs (es : List Expression) (us : List Term) (t : Term)
    (h1 : foldList es = .ok us) (h2 : foldTerms us = .ok t) :
    foldList (Abstraction :: es) = .ok [abs t] := by
  rw [foldList, h1]; simp only [h2]

/-- how `fold_exprs` folds the expressions of an admissible printing back: to a list `us` that
behaves like `t` (exactly `[t]` in argument position); in non-final position whatever follows is
folded independently -/
theorem foldList_exprsR {t : Term} {arg fin : Bool} {es : List Expression}
    (h : ExprsR t arg fin es) :
    ∃ us, IsHead us t ∧ (arg = true → us = [t]) ∧ foldList es = .ok us ∧
      (fin = false → ∀ rest, foldList (es ++ rest) = (us ++ ·) <$> foldList rest) := by
  induction h with
  | @var i arg fin =>
    refine ⟨[var i], isHead_single _, fun _ => rfl, ?_, fun _ rest => ?_⟩
    · simp [foldList]
    · simp [foldList_var]
  | @lam b arg es _ ih =>
    obtain ⟨us, hh, _, hf, _⟩ := ih
    have hT : foldTerms us = .ok b := by simpa using hh []
    exact ⟨[abs b], isHead_single _, fun _ => rfl, foldList_abs _ _ _ hf hT,
      fun h => by cases h⟩
  | @app f a fin e₁ e₂ _ _ ihf iha =>
    obtain ⟨u₁, hh₁, _, _, hr₁⟩ := ihf
    obtain ⟨u₂, _, ha₂, hf₂, hr₂⟩ := iha
    obtain rfl := ha₂ rfl
    refine ⟨u₁ ++ [a], hh₁.snoc a, (fun h => by cases h), ?_, fun hfin rest => ?_⟩
    · rw [hr₁ rfl, hf₂]; rfl
    · rw [List.append_assoc, hr₁ rfl, hr₂ hfin, except_map_map]
      simp
  | @paren t arg fin es _ ih =>
    obtain ⟨us, hh, _, hf, _⟩ := ih
    have hT : foldTerms us = .ok t := by simpa using hh []
    refine ⟨[t], isHead_single _, fun _ => rfl, ?_, fun _ rest => ?_⟩
    · have := foldList_seq es [] us t hf hT
      simpa [foldList, except_map_ok] using this
    · exact foldList_seq es rest us t hf hT

end C09C

namespace C09C

/-- the token-level stage inverts every admissible printing of a De Bruijn term (any indices,
any redundant parentheses) -/
theorem tokenStage_prints {t : Term} {arg fin : Bool} {dts : List Token}
    (h : Cl.PrintsD t arg fin dts) : Cl.tokenStage dts = .ok t := by
  obtain ⟨es, he, hg⟩ := getAst_prints h
  obtain ⟨us, hh, _, hf, _⟩ := foldList_exprsR he
  have hT : foldTerms us = .ok t := by simpa using hh []
  simp only [Cl.tokenStage, hg, foldExprs, hf, hT]

/-- in particular it inverts the De Bruijn token printer -/
theorem tokenStage_printD (t : Term) (ctx : Nat) : Cl.tokenStage (Cl.printD t ctx) = .ok t :=
  tokenStage_prints (printD_prints t ctx)

end C09C

/-- REDUNDANT PARENTHESES: the name resolution of any admissible printing of a named term is an
admissible printing, with the same parentheses, of its standard De Bruijn translation -/
theorem resolve_prints_toDB {t : Cl.NTerm} {arg fin : Bool} {cts : List CToken}
    (h : Cl.PrintsN t arg fin cts) :
    ∃ dts, Cl.resolveAll cts = some dts ∧ Cl.PrintsD (Cl.toDeBruijn t) arg fin dts := by
  obtain ⟨dts, op, hp, _, he⟩ := resolve_prints h [] [] [] []
  refine ⟨dts, ?_, hp⟩
  simpa [resolveAll, resolve] using he

/-- END TO END: any rendering (any glyphs, any whitespace) of any admissible printing (any
redundant parentheses) of a named term parses, in Classic notation, to its standard De Bruijn
translation -/
theorem parse_cla_prints (cls : CharCls) (hcls : Cl.ClsOk cls) (t : Cl.NTerm) (arg fin : Bool)
    (cts : List CToken) (s : List Nat)
    (hp : Cl.PrintsN t arg fin cts) (hr : Cl.Renders cls cts s) :
    parse cls s .Classic = .ok (Cl.toDeBruijn t) := by
  obtain ⟨dts, hd, hpd⟩ := resolve_prints_toDB hp
  rw [parse_cla_spec, tokenizeCla_render cls hcls _ s hr]
  simp only [convert_eq_resolve, hd, tokenStage_prints hpd]

/-- the same for the crate's parenthesisation discipline -/
theorem parse_cla_print (cls : CharCls) (hcls : Cl.ClsOk cls) (t : Cl.NTerm) (ctx : Nat)
    (s : List Nat) (h : Cl.Renders cls (Cl.printN t ctx) s) :
    parse cls s .Classic = .ok (Cl.toDeBruijn t) :=
  parse_cla_prints cls hcls t _ _ _ s (printN_prints t ctx) h

/-! ### non-vacuity: concrete instances -/

namespace C09C.Examples
open NTerm Term

-- code points: `λ` 955, `\` 92, `(` 40, `)` 41, `.` 46, space 32, `a` 97, `b` 98, `x` 120, `y` 121, `z` 122

/-- `λx.λy.x y z` ↦ `λ λ 2 1 3`: bound names count binders from the inside, the free `z` comes
above the two binders in scope -/
example : resolveAll [CLambda [120], CLambda [121], CName [120], CName [121], CName [122]]
    = some [Lambda, Lambda, Number 2, Number 1, Number 3] := by decide

/-- `a λb.b a` ↦ `1 λ 1 2`: the free `a` is `1` outside and `2` under the binder -/
example : resolveAll [CName [97], CLambda [98], CName [98], CName [97]]
    = some [Number 1, Lambda, Number 1, Number 2] := by decide

/-- shadowing, `λx.λx.x` ↦ `λ λ 1`: a name resolves to its innermost binder -/
example : resolveAll [CLambda [120], CLambda [120], CName [120]]
    = some [Lambda, Lambda, Number 1] := by decide

/-- a parenthesised scope, `(λx.x) x` ↦ `(λ 1) 1`: the binder is closed by the `)`, the second `x`
is free -/
example : resolveAll [CLparen, CLambda [120], CName [120], CRparen, CName [120]]
    = some [Lparen, Lambda, Number 1, Rparen, Number 1] := by decide

/-- free names in order of first appearance: `b a b (λx.a c)` ↦ `1 2 1 (λ 3 4)` -/
example : resolveAll [CName [98], CName [97], CName [98], CLparen, CLambda [120], CName [97],
      CName [99], CRparen]
    = some [Number 1, Number 2, Number 1, Lparen, Lambda, Number 3, Number 4, Rparen] := by decide

/-- an unmatched `)` ends the conversion (the token-level stage then rejects it) -/
example : convertClassicTokens [CName [97], CRparen, CName [98]] = some [Number 1, Rparen] := by
  decide

/-- an ASCII-only (plus `λ`) character classification -/
def asciiCls : CharCls where
  isWs c := c == 32 || c == 9 || c == 10 || c == 13
  isAlpha c := (decide (65 ≤ c) && decide (c ≤ 90)) || (decide (97 ≤ c) && decide (c ≤ 122)) || c == 955
  isAlnum c := (decide (65 ≤ c) && decide (c ≤ 90)) || (decide (97 ≤ c) && decide (c ≤ 122)) || c == 955
    || (decide (48 ≤ c) && decide (c ≤ 57))
  digit16 c :=
    if 48 ≤ c ∧ c ≤ 57 then some (c - 48) else if 97 ≤ c ∧ c ≤ 102 then some (c - 87)
    else if 65 ≤ c ∧ c ≤ 70 then some (c - 55) else none

theorem asciiCls_ok : ClsOk asciiCls := by
  refine ⟨?_, ?_, ?_⟩
  · intro c h
    simp only [asciiCls, Bool.or_eq_true, beq_iff_eq] at h
    rcases h with ((rfl | rfl) | rfl) | rfl <;> decide
  · intro c h
    simp only [asciiCls] at h ⊢
    rw [h]; rfl
  · intro c h
    simp only [asciiCls, Bool.or_eq_true, Bool.and_eq_true, decide_eq_true_eq, beq_iff_eq] at h
    simp only [asciiCls, cLparen, cRparen, cBackslash, Bool.or_eq_false_iff, beq_eq_false_iff_ne,
      ne_eq]
    omega

/-- a character that is not alphanumeric may follow a name -/
theorem nameEnd_of {c : Nat} {s : List Nat} (h : asciiCls.isAlnum c = false) :
    NameEnd asciiCls (c :: s) := .inl h

/-- … and so may the glyph `λ` (alphanumeric for this classification, as for Rust's) -/
theorem nameEnd_lambda {s : List Nat} : NameEnd asciiCls (955 :: s) := .inr rfl

theorem wf_single (c : Nat) (h1 : asciiCls.isAlpha c = true) (h2 : isLam c = false)
    (h3 : c ≠ cDot) : WfName asciiCls [c] :=
  ⟨⟨c, [], rfl, h1, h2, by simp⟩, by simp [h3], by
    have : c ≠ cLambda := by rintro rfl; revert h2; decide
    simp [this]⟩

theorem wf_x : WfName asciiCls [120] := wf_single 120 (by decide) (by decide) (by decide)
theorem wf_y : WfName asciiCls [121] := wf_single 121 (by decide) (by decide) (by decide)
theorem wf_z : WfName asciiCls [122] := wf_single 122 (by decide) (by decide) (by decide)

/-- `λx.λy.x y z` is a rendering of its tokens … -/
theorem renders₁ : Renders asciiCls
    [CLambda [120], CLambda [121], CName [120], CName [121], CName [122]]
    [955, 120, 46, 955, 121, 46, 120, 32, 121, 32, 122] :=
  .lam (g := 955) (n := [120]) (by decide) wf_x <|
  .lam (g := 955) (n := [121]) (by decide) wf_y <|
  .name (n := [120]) wf_x (nameEnd_of (by decide)) <| .ws (by decide) <|
  .name (n := [121]) wf_y (nameEnd_of (by decide)) <| .ws (by decide) <|
  .name (n := [122]) wf_z trivial .nil

/-- … and so is `  \x. \y.x  y z ` (other glyph, other whitespace) -/
theorem renders₂ : Renders asciiCls
    [CLambda [120], CLambda [121], CName [120], CName [121], CName [122]]
    [32, 32, 92, 120, 46, 32, 92, 121, 46, 120, 32, 32, 121, 32, 122, 32] :=
  .ws (by decide) <| .ws (by decide) <|
  .lam (g := 92) (n := [120]) (by decide) wf_x <| .ws (by decide) <|
  .lam (g := 92) (n := [121]) (by decide) wf_y <|
  .name (n := [120]) wf_x (nameEnd_of (by decide)) <| .ws (by decide) <| .ws (by decide) <|
  .name (n := [121]) wf_y (nameEnd_of (by decide)) <| .ws (by decide) <|
  .name (n := [122]) wf_z (nameEnd_of (by decide)) <| .ws (by decide) .nil

example : tokenizeCla asciiCls [955, 120, 46, 955, 121, 46, 120, 32, 121, 32, 122]
    = .ok [CLambda [120], CLambda [121], CName [120], CName [121], CName [122]] :=
  tokenizeCla_render _ asciiCls_ok _ _ renders₁

/-- the tokens are the printing of the named term `λx.λy.x y z` -/
example : printN (nlam [120] (nlam [121] (napp (napp (nvar [120]) (nvar [121])) (nvar [122])))) 0
    = [CLambda [120], CLambda [121], CName [120], CName [121], CName [122]] := by decide

example : toDeBruijn (nlam [120] (nlam [121] (napp (napp (nvar [120]) (nvar [121])) (nvar [122]))))
    = abs (abs (app (app (var 2) (var 1)) (var 3))) := by decide

/-- end to end, both renderings -/
example : parse asciiCls [955, 120, 46, 955, 121, 46, 120, 32, 121, 32, 122] .Classic
    = .ok (abs (abs (app (app (var 2) (var 1)) (var 3)))) :=
  parse_cla_print _ asciiCls_ok
    (nlam [120] (nlam [121] (napp (napp (nvar [120]) (nvar [121])) (nvar [122])))) 0 _ renders₁

example : parse asciiCls [32, 32, 92, 120, 46, 32, 92, 121, 46, 120, 32, 32, 121, 32, 122, 32] .Classic
    = .ok (abs (abs (app (app (var 2) (var 1)) (var 3)))) :=
  parse_cla_print _ asciiCls_ok
    (nlam [120] (nlam [121] (napp (napp (nvar [120]) (nvar [121])) (nvar [122])))) 0 _ renders₂

/-- redundant parentheses: `(λx.((x) (y)))` is an admissible printing of `λx.x y` -/
example : PrintsN (nlam [120] (napp (nvar [120]) (nvar [121]))) false true
    [CLparen, CLambda [120], CLparen, CLparen, CName [120], CRparen, CLparen, CName [121], CRparen,
      CRparen, CRparen] :=
  .paren (cts := [_, _, _, _, _, _, _, _, _]) <| .lam <|
  .paren (cts := [_, _, _, _, _, _]) <|
  .app (c₁ := [_, _, _]) (c₂ := [_, _, _])
    (.paren (cts := [_]) .var) (.paren (cts := [_]) .var)

/-- an abstraction may stay bare in final position: `x λy.y x` is `x (λy.y x)` -/
example : PrintsN (napp (nvar [120]) (nlam [121] (napp (nvar [121]) (nvar [120])))) false true
    [CName [120], CLambda [121], CName [121], CName [120]] :=
  .app (c₁ := [_]) (c₂ := [_, _, _]) .var (.lam (.app (c₁ := [_]) (c₂ := [_]) .var .var))

/-- the lexical errors of the crate's own tests: `λa.λb a` ↦ `InvalidCharacter (5, ' ')` -/
example : tokenizeCla asciiCls [955, 97, 46, 955, 98, 32, 97]
    = .error (.InvalidCharacter 5 32) :=
  tokenizeCla_invalid_binder asciiCls asciiCls_ok [CLambda [97]] [955, 97, 46] 955 [98] 32 [97]
    (.lam (g := 955) (n := [97]) (by decide)
      (wf_single 97 (by decide) (by decide) (by decide)) .nil)
    (by intro c h; simp at h; subst h; decide) (by decide)
    (by intro a as h; cases h; simp; decide) (by decide) (by decide)

/-- `x #` ↦ `InvalidCharacter (2, '#')` -/
example : tokenizeCla asciiCls [120, 32, 35, 120] = .error (.InvalidCharacter 2 35) :=
  tokenizeCla_invalid_top asciiCls asciiCls_ok [CName [120]] [120, 32] 35 [120]
    (.name (n := [120]) wf_x (nameEnd_of (by decide)) (.ws (by decide) .nil))
    (by intro c h; simp at h; subst h; decide)
    (by decide) (by decide) (by decide) (by decide) (by decide)

/-- identifiers are validated in variable position too: a variable name is a letter followed by
alphanumeric characters, and the first other character is lexed at top level.  `x+1.λ` (accepted as
ONE name before the repair F10) is a lexical error … -/
example : tokenizeCla asciiCls [120, 43, 49, 46, 955] = .error (.InvalidCharacter 1 43) := rfl

/-- … and so are `x.y`, `x#` and `λx.x-` (where a bound variable used to turn silently into a free
one named `x-`) -/
example : tokenizeCla asciiCls [120, 46, 121] = .error (.InvalidCharacter 1 46) := rfl
example : tokenizeCla asciiCls [120, 35] = .error (.InvalidCharacter 1 35) := rfl
example : tokenizeCla asciiCls [955, 120, 46, 120, 45] = .error (.InvalidCharacter 4 45) := rfl

/-- a backslash ends a name and opens a binder: `x\y.y` is `x`, `\y.`, `y` -/
example : tokenizeCla asciiCls [120, 92, 121, 46, 121]
    = .ok [CName [120], CLambda [121], CName [121]] := rfl

/-- … and so does the other glyph `λ`, although it is a letter (repair F11 of the crate; before it
`λ` continued the name: `xλy.y` was the name `xλy` followed by the invalid `.`, and `xλy` alone was
ONE name): `xλy.y` is `x`, `λy.`, `y`, and `xλy` is `x` followed by the unterminated binder `λy` -/
example : tokenizeCla asciiCls [120, 955, 121, 46, 121]
    = .ok [CName [120], CLambda [121], CName [121]] := rfl
example : tokenizeCla asciiCls [120, 955, 121] = .ok [CName [120], CLambda [121]] := rfl

/-- inside a BINDER name `λ` is still an ordinary letter (pinned by a test of the crate): `λxλy.x`
has ONE binder, named `xλy`, and `\λ.x` has a binder named `λ` -/
example : tokenizeCla asciiCls [955, 120, 955, 121, 46, 120]
    = .ok [CLambda [120, 955, 121], CName [120]] := rfl
example : tokenizeCla asciiCls [92, 955, 46, 120] = .ok [CLambda [955], CName [120]] := rfl

/-- an EMPTY binder name is an error at the dot (repair F12 of the crate; before it `λ.x` lexed as
a binder with the empty name): `λ.x`, `\.x`, `x λ.x` -/
example : tokenizeCla asciiCls [955, 46, 120] = .error (.InvalidCharacter 1 46) := rfl
example : tokenizeCla asciiCls [92, 46, 120] = .error (.InvalidCharacter 1 46) := rfl
example : tokenizeCla asciiCls [120, 32, 955, 46, 120] = .error (.InvalidCharacter 3 46) := rfl

/-- `x\y.y` is a rendering of these tokens (no separator needed before a backslash) -/
theorem renders₆ : Renders asciiCls [CName [120], CLambda [121], CName [121]]
    [120, 92, 121, 46, 121] :=
  .name (n := [120]) wf_x (nameEnd_of (by decide)) <|
  .lam (g := 92) (n := [121]) (by decide) wf_y <|
  .name (n := [121]) wf_y trivial .nil

/-- `xλy.y` is a rendering of the same tokens (no separator needed before `λ` either) -/
theorem renders₇ : Renders asciiCls [CName [120], CLambda [121], CName [121]]
    [120, 955, 121, 46, 121] :=
  .name (n := [120]) wf_x nameEnd_lambda <|
  .lam (g := 955) (n := [121]) (by decide) wf_y <|
  .name (n := [121]) wf_y trivial .nil

/-- `x\1`: the binder opened by the backslash is validated as usual -/
example : tokenizeCla asciiCls [120, 92, 49] = .error (.InvalidCharacter 2 49) :=
  tokenizeCla_invalid_binder_backslash asciiCls asciiCls_ok [CName [120]] [120] [] 49 []
    (.name (n := [120]) wf_x trivial .nil) (by intro a as h; cases h) (by decide) (by decide)

/-- the same characters are rejected inside a binder: `λx+.x` -/
example : tokenizeCla asciiCls [955, 120, 43, 46, 120] = .error (.InvalidCharacter 2 43) := rfl

/-- an unterminated or empty binder at the end of the input is pushed as it is: `λx` , `λ` -/
example : tokenizeCla asciiCls [955, 120] = .ok [CLambda [120]] := rfl
example : tokenizeCla asciiCls [955] = .ok [CLambda []] := rfl

end C09C.Examples

end LC
