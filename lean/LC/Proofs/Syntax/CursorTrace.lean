/-
C09, review remark K1: the relations `ConvLoopAt` / `AstLoopAt` of `LC/Proofs/Syntax/Cursor.lean` ("loop head
reached while `convert_classic_tokens(tokens)` / `get_ast(tokens)` runs") are hand-written transition systems.
Here the two cursor loops are INSTRUMENTED: `convLoopT` / `astLoopT` are `convLoopC` / `astLoopC` with the same
recursion, which additionally return the list of the loop-head states they visit, in the order of the visits (the
trace is returned also when the run fails, so nothing is hidden behind a `none`).

* `convLoopT_erase`, `astLoopT_erase`: forgetting the trace gives back `convLoopC` / `astLoopC` EXACTLY (every
  fuel, every state);
* `convLoopT_sound`, `astLoopT_sound`: started in a state that satisfies `ConvLoopAt` / `AstLoopAt`, every state of
  the trace satisfies it (every fuel);
* `convLoopT_complete`, `astLoopT_complete`: conversely every state that satisfies `ConvLoopAt` / `AstLoopAt`
  occurs in the trace of the top-level run: the relations are EXACTLY the sets of visited loop heads.
-/
import LC.Proofs.Syntax.Cursor

namespace LC
namespace Cursor
open Parser Term

/-! ## `_convert_classic_tokens` -/

/-- the state of an activation of `_convert_classic_tokens` at its loop head: the values of `*stack`, `*pos`,
`output`, `inner_stack_count` when `tokens.get(*pos)` is about to be evaluated -/
structure ConvHead where
  stack : List (List Nat)
  pos : Nat
  output : List Token
  inner : Nat
deriving DecidableEq, Repr

/-- `convLoopC` instrumented: first component = the loop heads visited by this activation and by its callees, in
order; second component = the result of `convLoopC`.  Same recursion, same checks. -/
def convLoopT (tokens : List CToken) :
    Nat → List (List Nat) → Nat → List Token → Nat →
      List ConvHead × Option (List Token × List (List Nat) × Nat)
  | 0, _, _, _, _ => ([], none)
  | fuel + 1, stack, pos, output, inner =>
    match tokens[pos]? with
    | none => ([⟨stack, pos, output, inner⟩], some (output, stack, pos))
    | some (.CLambda name) =>
      let r := convLoopT tokens fuel (stack ++ [name]) (pos + 1) (output ++ [.Lambda]) (inner + 1)
      (⟨stack, pos, output, inner⟩ :: r.1, r.2)
    | some .CLparen =>
      match subChk tokens.length (pos + 1) with
      | none => ([⟨stack, pos, output, inner⟩], none)
      | some _capacity =>
        let r1 := convLoopT tokens fuel stack (pos + 1) [] 0
        match r1.2 with
        | none => (⟨stack, pos, output, inner⟩ :: r1.1, none)
        | some (out', stack', pos') =>
          let r2 := convLoopT tokens fuel stack' (pos' + 1) (output ++ [.Lparen] ++ out') inner
          (⟨stack, pos, output, inner⟩ :: (r1.1 ++ r2.1), r2.2)
    | some .CRparen =>
      match subChk stack.length inner with
      | none => ([⟨stack, pos, output, inner⟩], none)
      | some k => ([⟨stack, pos, output, inner⟩], some (output ++ [.Rparen], stack.take k, pos))
    | some (.CName name) =>
      match indexOf? name stack.reverse with
      | some index =>
        let r := convLoopT tokens fuel stack (pos + 1) (output ++ [.Number (index + 1)]) inner
        (⟨stack, pos, output, inner⟩ :: r.1, r.2)
      | none =>
        let r := convLoopT tokens fuel (name :: stack) (pos + 1)
          (output ++ [.Number ((name :: stack).length)]) inner
        (⟨stack, pos, output, inner⟩ :: r.1, r.2)

/-- `convert_classic_tokens(tokens)` instrumented: the loop heads visited during the whole run, and the result -/
def convertCurT (tokens : List CToken) : List ConvHead × Option (List Token) :=
  match subChk tokens.length 0 with
  | none => ([], none)
  | some _capacity =>
    let r := convLoopT tokens (tokens.length + 1) [] 0 [] 0
    (r.1, r.2.map (·.1))

/-- erasing the trace gives back `convLoopC` exactly -/
theorem convLoopT_erase (tokens : List CToken) :
    ∀ (fuel : Nat) (stack : List (List Nat)) (pos : Nat) (output : List Token) (inner : Nat),
      (convLoopT tokens fuel stack pos output inner).2 = convLoopC tokens fuel stack pos output inner := by
  intro fuel
  induction fuel with
  | zero => intro _ _ _ _; rfl
  | succ fuel ih =>
    intro stack pos output inner
    rw [convLoopT, convLoopC]
    cases htok : tokens[pos]? with
    | none => rfl
    | some tok =>
      cases tok with
      | CLambda name => exact ih _ _ _ _
      | CLparen =>
        simp only []
        cases subChk tokens.length (pos + 1) with
        | none => rfl
        | some c =>
          simp only []
          rw [← ih stack (pos + 1) [] 0]
          cases (convLoopT tokens fuel stack (pos + 1) [] 0).2 with
          | none => rfl
          | some r1 =>
            obtain ⟨o1, s1, p1⟩ := r1
            exact ih _ _ _ _
      | CRparen =>
        simp only []
        cases subChk stack.length inner <;> rfl
      | CName name =>
        simp only []
        cases indexOf? name stack.reverse with
        | some index => exact ih _ _ _ _
        | none => exact ih _ _ _ _

theorem convertCurT_erase (tokens : List CToken) : (convertCurT tokens).2 = convertCur tokens := by
  unfold convertCurT convertCur convCall
  cases subChk tokens.length 0 with
  | none => rfl
  | some c => simp only [convLoopT_erase]

/-- with fuel the trace starts with the state the loop is entered in -/
theorem convLoopT_head (tokens : List CToken) (fuel : Nat) (stack : List (List Nat)) (pos : Nat)
    (output : List Token) (inner : Nat) :
    ∃ tr, (convLoopT tokens (fuel + 1) stack pos output inner).1 = ⟨stack, pos, output, inner⟩ :: tr := by
  rw [convLoopT]
  cases tokens[pos]? with
  | none => exact ⟨_, rfl⟩
  | some tok =>
    cases tok with
    | CLambda name => exact ⟨_, rfl⟩
    | CLparen =>
      simp only []
      cases subChk tokens.length (pos + 1) with
      | none => exact ⟨_, rfl⟩
      | some c =>
        simp only []
        cases (convLoopT tokens fuel stack (pos + 1) [] 0).2 with
        | none => exact ⟨_, rfl⟩
        | some r1 => exact ⟨_, rfl⟩
    | CRparen =>
      simp only []
      cases subChk stack.length inner <;> exact ⟨_, rfl⟩
    | CName name =>
      simp only []
      cases indexOf? name stack.reverse <;> exact ⟨_, rfl⟩

/-- SOUNDNESS of `ConvLoopAt`: a run of the instrumented loop that starts in a state satisfying `ConvLoopAt` only
visits states satisfying `ConvLoopAt` (whatever the fuel, whether or not the run succeeds) -/
theorem convLoopT_sound (tokens : List CToken) :
    ∀ (fuel : Nat) (stack : List (List Nat)) (pos : Nat) (output : List Token) (inner : Nat),
      ConvLoopAt tokens stack pos output inner →
      ∀ st ∈ (convLoopT tokens fuel stack pos output inner).1,
        ConvLoopAt tokens st.stack st.pos st.output st.inner := by
  intro fuel
  induction fuel with
  | zero => intro _ _ _ _ _ st hst; simp [convLoopT] at hst
  | succ fuel ih =>
    intro stack pos output inner hat st hst
    rw [convLoopT] at hst
    cases htok : tokens[pos]? with
    | none =>
      simp only [htok, List.mem_singleton] at hst
      subst hst; exact hat
    | some tok =>
      rw [htok] at hst
      cases tok with
      | CLambda name =>
        simp only [List.mem_cons] at hst
        rcases hst with rfl | hst
        · exact hat
        · exact ih _ _ _ _ (.lambda hat htok) st hst
      | CLparen =>
        simp only [] at hst
        cases hsub : subChk tokens.length (pos + 1) with
        | none =>
          simp only [hsub, List.mem_singleton] at hst
          subst hst; exact hat
        | some c =>
          simp only [hsub] at hst
          have he := convLoopT_erase tokens fuel stack (pos + 1) [] 0
          cases hr1 : (convLoopT tokens fuel stack (pos + 1) [] 0).2 with
          | none =>
            simp only [hr1, List.mem_cons] at hst
            rcases hst with rfl | hst
            · exact hat
            · exact ih _ _ _ _ (.call hat htok) st hst
          | some r1 =>
            obtain ⟨o1, s1, p1⟩ := r1
            simp only [hr1, List.mem_cons, List.mem_append] at hst
            rcases hst with rfl | hst | hst
            · exact hat
            · exact ih _ _ _ _ (.call hat htok) st hst
            · have hc : convCall tokens fuel stack (pos + 1) = some (o1, s1, p1) := by
                unfold convCall; rw [hsub]; simp only []; rw [← he, hr1]
              exact ih _ _ _ _ (.back hat htok hc) st hst
      | CRparen =>
        simp only [] at hst
        cases hsub : subChk stack.length inner with
        | none => simp only [hsub, List.mem_singleton] at hst; subst hst; exact hat
        | some k => simp only [hsub, List.mem_singleton] at hst; subst hst; exact hat
      | CName name =>
        simp only [] at hst
        cases hidx : indexOf? name stack.reverse with
        | some index =>
          simp only [hidx, List.mem_cons] at hst
          rcases hst with rfl | hst
          · exact hat
          · exact ih _ _ _ _ (.bound hat htok hidx) st hst
        | none =>
          simp only [hidx, List.mem_cons] at hst
          rcases hst with rfl | hst
          · exact hat
          · exact ih _ _ _ _ (.free hat htok hidx) st hst

/-- COMPLETENESS of the trace: every state satisfying `ConvLoopAt` is visited by the top-level run, moreover with
enough fuel left, and everything the run visits from there on belongs to the trace of the top-level run -/
theorem convLoopT_complete_aux (tokens : List CToken) {stack : List (List Nat)} {pos : Nat}
    {output : List Token} {inner : Nat} (h : ConvLoopAt tokens stack pos output inner) :
    ∃ fuel, 1 ≤ fuel ∧ tokens.length + 1 ≤ fuel + pos ∧
      ∀ st ∈ (convLoopT tokens fuel stack pos output inner).1,
        st ∈ (convLoopT tokens (tokens.length + 1) [] 0 [] 0).1 := by
  induction h with
  | top => exact ⟨tokens.length + 1, by omega, by omega, fun st h => h⟩
  | @lambda stack pos output inner name _ ht ih =>
    obtain ⟨fuel, h1, h2, hsub⟩ := ih
    have hlt := (drop_of_getElem? ht).1
    obtain ⟨f, rfl⟩ : ∃ f, fuel = f + 1 := ⟨fuel - 1, by omega⟩
    refine ⟨f, by omega, by omega, fun st hst => hsub st ?_⟩
    rw [convLoopT]; simp only [ht]
    exact List.mem_cons_of_mem _ hst
  | @call stack pos output inner _ ht ih =>
    obtain ⟨fuel, h1, h2, hsub⟩ := ih
    have hlt := (drop_of_getElem? ht).1
    obtain ⟨f, rfl⟩ : ∃ f, fuel = f + 1 := ⟨fuel - 1, by omega⟩
    refine ⟨f, by omega, by omega, fun st hst => hsub st ?_⟩
    have hs : subChk tokens.length (pos + 1) = some (tokens.length - (pos + 1)) := by
      unfold subChk; rw [if_pos (by omega)]
    rw [convLoopT]; simp only [ht, hs]
    cases (convLoopT tokens f stack (pos + 1) [] 0).2 with
    | none => exact List.mem_cons_of_mem _ hst
    | some r1 => exact List.mem_cons_of_mem _ (List.mem_append_left _ hst)
  | @back stack pos output inner fuel0 out' stack' pos' _ ht hc ih =>
    obtain ⟨fuel, h1, h2, hsub⟩ := ih
    have hlt := (drop_of_getElem? ht).1
    obtain ⟨f, rfl⟩ : ∃ f, fuel = f + 1 := ⟨fuel - 1, by omega⟩
    have hs : subChk tokens.length (pos + 1) = some (tokens.length - (pos + 1)) := by
      unfold subChk; rw [if_pos (by omega)]
    obtain ⟨o, s, p, he, hp1, hp2, _⟩ :=
      convCall_spec tokens f stack (pos + 1) (by omega) (by omega)
    have := convCall_det tokens hc he
    simp only [Prod.mk.injEq] at this
    obtain ⟨rfl, rfl, rfl⟩ := this
    have hr1 : (convLoopT tokens f stack (pos + 1) [] 0).2 = some (out', stack', pos') := by
      rw [convLoopT_erase]
      unfold convCall at he; rw [hs] at he; exact he
    refine ⟨f, by omega, by omega, fun st hst => hsub st ?_⟩
    rw [convLoopT]; simp only [ht, hs, hr1]
    exact List.mem_cons_of_mem _ (List.mem_append_right _ hst)
  | @bound stack pos output inner name index _ ht hidx ih =>
    obtain ⟨fuel, h1, h2, hsub⟩ := ih
    have hlt := (drop_of_getElem? ht).1
    obtain ⟨f, rfl⟩ : ∃ f, fuel = f + 1 := ⟨fuel - 1, by omega⟩
    refine ⟨f, by omega, by omega, fun st hst => hsub st ?_⟩
    rw [convLoopT]; simp only [ht, hidx]
    exact List.mem_cons_of_mem _ hst
  | @free stack pos output inner name _ ht hidx ih =>
    obtain ⟨fuel, h1, h2, hsub⟩ := ih
    have hlt := (drop_of_getElem? ht).1
    obtain ⟨f, rfl⟩ : ∃ f, fuel = f + 1 := ⟨fuel - 1, by omega⟩
    refine ⟨f, by omega, by omega, fun st hst => hsub st ?_⟩
    rw [convLoopT]; simp only [ht, hidx]
    exact List.mem_cons_of_mem _ hst

/-- the trace of the top-level run is EXACTLY `ConvLoopAt` -/
theorem convLoopT_trace_iff (tokens : List CToken) (st : ConvHead) :
    st ∈ (convLoopT tokens (tokens.length + 1) [] 0 [] 0).1 ↔
      ConvLoopAt tokens st.stack st.pos st.output st.inner := by
  constructor
  · exact convLoopT_sound tokens _ [] 0 [] 0 .top st
  · intro h
    obtain ⟨fuel, h1, _, hsub⟩ := convLoopT_complete_aux tokens h
    obtain ⟨f, rfl⟩ : ∃ f, fuel = f + 1 := ⟨fuel - 1, by omega⟩
    obtain ⟨tr, htr⟩ := convLoopT_head tokens f st.stack st.pos st.output st.inner
    exact hsub st (by rw [htr]; exact List.mem_cons_self)

/-! ## `_get_ast` -/

/-- the state of an activation of `_get_ast` at its loop head: `*pos`, `nested`, `expr` -/
structure AstHead where
  pos : Nat
  nested : Bool
  expr : List Expression

/-- `astLoopC` instrumented (same recursion): the loop heads visited, and the result of `astLoopC` -/
def astLoopT (tokens : List Token) :
    Nat → Nat → Bool → List Expression →
      List AstHead × Option (Except ParseError Expression × Nat)
  | 0, _, _, _ => ([], none)
  | fuel + 1, pos, nested, expr =>
    match tokens[pos]? with
    | none =>
      ([⟨pos, nested, expr⟩],
        some (if nested then .error .InvalidExpression else .ok (.Sequence expr), pos))
    | some .Lambda =>
      let r := astLoopT tokens fuel (pos + 1) nested (expr ++ [.Abstraction])
      (⟨pos, nested, expr⟩ :: r.1, r.2)
    | some (.Number i) =>
      let r := astLoopT tokens fuel (pos + 1) nested (expr ++ [.Variable i])
      (⟨pos, nested, expr⟩ :: r.1, r.2)
    | some .Lparen =>
      if tokens.isEmpty then ([⟨pos, nested, expr⟩], some (.error .EmptyExpression, pos + 1))
      else
        let r1 := astLoopT tokens fuel (pos + 1) true []
        match r1.2 with
        | none => (⟨pos, nested, expr⟩ :: r1.1, none)
        | some (.error e, pos') => (⟨pos, nested, expr⟩ :: r1.1, some (.error e, pos'))
        | some (.ok subtree, pos') =>
          let r2 := astLoopT tokens fuel (pos' + 1) nested (expr ++ [subtree])
          (⟨pos, nested, expr⟩ :: (r1.1 ++ r2.1), r2.2)
    | some .Rparen =>
      ([⟨pos, nested, expr⟩],
        some (if nested then .ok (.Sequence expr) else .error .InvalidExpression, pos))

/-- `get_ast(tokens)` instrumented -/
def getAstCurT (tokens : List Token) : List AstHead × Option (Except ParseError Expression) :=
  if tokens.isEmpty then ([], some (.error .EmptyExpression))
  else
    let r := astLoopT tokens (tokens.length + 1) 0 false []
    (r.1, r.2.map (·.1))

/-- erasing the trace gives back `astLoopC` exactly -/
theorem astLoopT_erase (tokens : List Token) :
    ∀ (fuel pos : Nat) (nested : Bool) (expr : List Expression),
      (astLoopT tokens fuel pos nested expr).2 = astLoopC tokens fuel pos nested expr := by
  intro fuel
  induction fuel with
  | zero => intro _ _ _; rfl
  | succ fuel ih =>
    intro pos nested expr
    rw [astLoopT, astLoopC]
    cases htok : tokens[pos]? with
    | none => rfl
    | some tok =>
      cases tok with
      | Lambda => exact ih _ _ _
      | Number i => exact ih _ _ _
      | Lparen =>
        simp only []
        cases tokens.isEmpty with
        | true => rfl
        | false =>
          simp only [Bool.false_eq_true, if_false]
          rw [← ih (pos + 1) true []]
          cases (astLoopT tokens fuel (pos + 1) true []).2 with
          | none => rfl
          | some r1 =>
            obtain ⟨x1, p1⟩ := r1
            cases x1 with
            | error e => rfl
            | ok e1 => exact ih _ _ _
      | Rparen => rfl

theorem getAstCurT_erase (tokens : List Token) : (getAstCurT tokens).2 = getAstCur tokens := by
  unfold getAstCurT getAstCur astCall
  cases tokens.isEmpty with
  | true => rfl
  | false => simp only [Bool.false_eq_true, if_false, astLoopT_erase]

/-- with fuel the trace starts with the state the loop is entered in -/
theorem astLoopT_head (tokens : List Token) (fuel pos : Nat) (nested : Bool) (expr : List Expression) :
    ∃ tr, (astLoopT tokens (fuel + 1) pos nested expr).1 = ⟨pos, nested, expr⟩ :: tr := by
  rw [astLoopT]
  cases tokens[pos]? with
  | none => exact ⟨_, rfl⟩
  | some tok =>
    cases tok with
    | Lambda => exact ⟨_, rfl⟩
    | Number i => exact ⟨_, rfl⟩
    | Lparen =>
      simp only []
      cases tokens.isEmpty with
      | true => exact ⟨_, rfl⟩
      | false =>
        simp only [Bool.false_eq_true, if_false]
        cases (astLoopT tokens fuel (pos + 1) true []).2 with
        | none => exact ⟨_, rfl⟩
        | some r1 =>
          obtain ⟨x1, p1⟩ := r1
          cases x1 <;> exact ⟨_, rfl⟩
    | Rparen => exact ⟨_, rfl⟩

/-- SOUNDNESS of `AstLoopAt`: a run of the instrumented loop that starts in a state satisfying `AstLoopAt` only
visits states satisfying `AstLoopAt` (whatever the fuel, whether or not the run succeeds) -/
theorem astLoopT_sound (tokens : List Token) :
    ∀ (fuel pos : Nat) (nested : Bool) (expr : List Expression),
      AstLoopAt tokens pos nested expr →
      ∀ st ∈ (astLoopT tokens fuel pos nested expr).1, AstLoopAt tokens st.pos st.nested st.expr := by
  intro fuel
  induction fuel with
  | zero => intro _ _ _ _ st hst; simp [astLoopT] at hst
  | succ fuel ih =>
    intro pos nested expr hat st hst
    rw [astLoopT] at hst
    cases htok : tokens[pos]? with
    | none =>
      simp only [htok, List.mem_singleton] at hst
      subst hst; exact hat
    | some tok =>
      rw [htok] at hst
      cases tok with
      | Lambda =>
        simp only [List.mem_cons] at hst
        rcases hst with rfl | hst
        · exact hat
        · exact ih _ _ _ (.lambda hat htok) st hst
      | Number i =>
        simp only [List.mem_cons] at hst
        rcases hst with rfl | hst
        · exact hat
        · exact ih _ _ _ (.number hat htok) st hst
      | Lparen =>
        simp only [] at hst
        cases hemp : tokens.isEmpty with
        | true =>
          simp only [hemp, if_true, List.mem_singleton] at hst
          subst hst; exact hat
        | false =>
          simp only [hemp, Bool.false_eq_true, if_false] at hst
          have he := astLoopT_erase tokens fuel (pos + 1) true []
          cases hr1 : (astLoopT tokens fuel (pos + 1) true []).2 with
          | none =>
            simp only [hr1, List.mem_cons] at hst
            rcases hst with rfl | hst
            · exact hat
            · exact ih _ _ _ (.call hat htok) st hst
          | some r1 =>
            obtain ⟨x1, p1⟩ := r1
            cases x1 with
            | error e =>
              simp only [hr1, List.mem_cons] at hst
              rcases hst with rfl | hst
              · exact hat
              · exact ih _ _ _ (.call hat htok) st hst
            | ok e1 =>
              simp only [hr1, List.mem_cons, List.mem_append] at hst
              rcases hst with rfl | hst | hst
              · exact hat
              · exact ih _ _ _ (.call hat htok) st hst
              · have hc : astCall tokens fuel (pos + 1) true = some (.ok e1, p1) := by
                  unfold astCall; rw [hemp]; simp only [Bool.false_eq_true, if_false]; rw [← he, hr1]
                exact ih _ _ _ (.back hat htok hc) st hst
      | Rparen =>
        simp only [List.mem_singleton] at hst
        subst hst; exact hat

/-- COMPLETENESS of the trace: every state satisfying `AstLoopAt` is visited by the top-level run, with enough fuel
left, and everything the run visits from there on belongs to the trace of the top-level run -/
theorem astLoopT_complete_aux (tokens : List Token) {pos : Nat} {nested : Bool} {expr : List Expression}
    (h : AstLoopAt tokens pos nested expr) :
    ∃ fuel, 1 ≤ fuel ∧ tokens.length + 1 ≤ fuel + pos ∧
      ∀ st ∈ (astLoopT tokens fuel pos nested expr).1,
        st ∈ (astLoopT tokens (tokens.length + 1) 0 false []).1 := by
  induction h with
  | top => exact ⟨tokens.length + 1, by omega, by omega, fun st h => h⟩
  | @lambda pos nested expr _ ht ih =>
    obtain ⟨fuel, h1, h2, hsub⟩ := ih
    have hlt := (drop_of_getElem? ht).1
    obtain ⟨f, rfl⟩ : ∃ f, fuel = f + 1 := ⟨fuel - 1, by omega⟩
    refine ⟨f, by omega, by omega, fun st hst => hsub st ?_⟩
    rw [astLoopT]; simp only [ht]
    exact List.mem_cons_of_mem _ hst
  | @number pos nested expr i _ ht ih =>
    obtain ⟨fuel, h1, h2, hsub⟩ := ih
    have hlt := (drop_of_getElem? ht).1
    obtain ⟨f, rfl⟩ : ∃ f, fuel = f + 1 := ⟨fuel - 1, by omega⟩
    refine ⟨f, by omega, by omega, fun st hst => hsub st ?_⟩
    rw [astLoopT]; simp only [ht]
    exact List.mem_cons_of_mem _ hst
  | @call pos nested expr _ ht ih =>
    obtain ⟨fuel, h1, h2, hsub⟩ := ih
    have hlt := (drop_of_getElem? ht).1
    obtain ⟨f, rfl⟩ : ∃ f, fuel = f + 1 := ⟨fuel - 1, by omega⟩
    have hne : tokens.isEmpty = false := by
      cases tokens with
      | nil => simp at hlt
      | cons _ _ => rfl
    refine ⟨f, by omega, by omega, fun st hst => hsub st ?_⟩
    rw [astLoopT]; simp only [ht, hne, Bool.false_eq_true, if_false]
    cases (astLoopT tokens f (pos + 1) true []).2 with
    | none => exact List.mem_cons_of_mem _ hst
    | some r1 =>
      obtain ⟨x1, p1⟩ := r1
      cases x1 with
      | error e => exact List.mem_cons_of_mem _ hst
      | ok e1 => exact List.mem_cons_of_mem _ (List.mem_append_left _ hst)
  | @back pos nested expr fuel0 subtree pos' _ ht hc ih =>
    obtain ⟨fuel, h1, h2, hsub⟩ := ih
    have hlt := (drop_of_getElem? ht).1
    obtain ⟨f, rfl⟩ : ∃ f, fuel = f + 1 := ⟨fuel - 1, by omega⟩
    have hne : tokens.isEmpty = false := by
      cases tokens with
      | nil => simp at hlt
      | cons _ _ => rfl
    obtain ⟨r, p, he, hp1, hp2, _⟩ := astCall_spec tokens f (pos + 1) true (by omega) (by omega)
    have := astCall_det tokens hc he
    simp only [Prod.mk.injEq] at this
    obtain ⟨rfl, rfl⟩ := this
    have hr1 : (astLoopT tokens f (pos + 1) true []).2 = some (.ok subtree, pos') := by
      rw [astLoopT_erase]
      unfold astCall at he; rw [hne] at he; simpa using he
    refine ⟨f, by omega, by omega, fun st hst => hsub st ?_⟩
    rw [astLoopT]; simp only [ht, hne, Bool.false_eq_true, if_false, hr1]
    exact List.mem_cons_of_mem _ (List.mem_append_right _ hst)

/-- the trace of the top-level run is EXACTLY `AstLoopAt` -/
theorem astLoopT_trace_iff (tokens : List Token) (st : AstHead) :
    st ∈ (astLoopT tokens (tokens.length + 1) 0 false []).1 ↔
      AstLoopAt tokens st.pos st.nested st.expr := by
  constructor
  · exact astLoopT_sound tokens _ 0 false [] .top st
  · intro h
    obtain ⟨fuel, h1, _, hsub⟩ := astLoopT_complete_aux tokens h
    obtain ⟨f, rfl⟩ : ∃ f, fuel = f + 1 := ⟨fuel - 1, by omega⟩
    obtain ⟨tr, htr⟩ := astLoopT_head tokens f st.pos st.nested st.expr
    exact hsub st (by rw [htr]; exact List.mem_cons_self)

end Cursor
end LC
