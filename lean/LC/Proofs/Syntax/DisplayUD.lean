/-
Helpers for `LC/Props/C10Sharp.lean`: Display and the Classic parser on terms that contain `UD`.

* `nameOfU`: the named term that `Display` prints for ANY term (`UD` is printed as the identifier `undefined`);
  `renders_showU`: the printed string is a rendering of its token printing (the lexical layer of `C10.renders_show`
  without the hypothesis `noUD`).
* `toDB_noUD`: the standard named → De Bruijn translation never produces the index 0.
* `hasUD_canon`: `canon` keeps `UD`.
* `fillUD K`: every `UD` replaced by the free variable number `K`; with `K` chosen so that this free variable is
  NAMED `undefined` the Display output does not change (`showCla_fillUD`).
-/
import LC.Props.C10

namespace LC
open Term Parser Display
open Spec (hasUD)

namespace C10S
open Spec Spec.Cl Spec.Cl.NTerm Parser.CToken C10

/-- the code points of the word `undefined` -/
def undefinedName : List Nat := [117, 110, 100, 101, 102, 105, 110, 101, 100]

theorem str_undefined : str "undefined" = undefinedName := by decide +kernel

/-- the ordinal whose bijective base-26 name is `undefined` -/
def undefinedOrdinal : Nat := 4499111678181

theorem base26_undefined : base26 undefinedOrdinal = undefinedName := by decide +kernel

theorem noUD_eq (t : Term) : noUD t = !hasUD t := by
  induction t with
  | var i => by_cases h : i = 0 <;> simp [noUD, hasUD, h]
  | abs b ih => simpa [noUD, hasUD] using ih
  | app l r ihl ihr => simp [noUD, hasUD, ihl, ihr]

theorem noUD_of_hasUD_false {t : Term} (h : hasUD t = false) : noUD t = true := by
  rw [noUD_eq, h]; rfl

theorem hasUD_of_noUD_false {t : Term} (h : noUD t = false) : hasUD t = true := by
  rw [noUD_eq] at h; simpa using h

/-! ## 1. the lexical layer for all terms -/

variable {cls : CharCls}

/-- a non-empty word of lower-case ASCII letters is a well-formed name -/
theorem wfName_lower (hc : ClsOk10 cls) (n : List Nat) (hne : n ≠ [])
    (hr : ∀ c ∈ n, 97 ≤ c ∧ c ≤ 122) : WfName cls n := by
  cases n with
  | nil => exact absurd rfl hne
  | cons c cs =>
    refine ⟨⟨c, cs, rfl, ?_, ?_, ?_⟩, ?_, ?_⟩
    · have := hr c List.mem_cons_self
      exact hc.lower_alpha c this.1 this.2
    · have := hr c List.mem_cons_self
      simp [isLam, cBackslash, cLambda]; omega
    · intro d hd
      have := hr d (List.mem_cons_of_mem _ hd)
      exact hc.lower_alnum d this.1 this.2
    · intro d hd
      have := hr d hd
      simp [cDot]; omega
    · intro d hd
      have := hr d hd
      simp [cLambda]; omega

theorem wfName_undefined (hc : ClsOk10 cls) : WfName cls undefinedName :=
  wfName_lower hc _ (by simp [undefinedName]) (by decide)

/-- the named term that `Display` prints, for any term: `UD` is printed as the identifier `undefined` -/
def nameOfU (M : Nat) : Nat → Term → NTerm
  | _, var 0 => nvar undefinedName
  | d, var (i + 1) => nvar (varName M d (i + 1))
  | d, abs b => nlam (base26 d) (nameOfU M (d + 1) b)
  | d, app l r => napp (nameOfU M d l) (nameOfU M d r)

theorem nameOfU_eq_nameOf (M : Nat) (t : Term) (h : noUD t = true) :
    ∀ d, nameOfU M d t = nameOf M d t := by
  induction t with
  | var i =>
    intro d
    cases i with
    | zero => simp [noUD] at h
    | succ i => rfl
  | abs b ih =>
    intro d
    have hb : noUD b = true := by simpa [noUD] using h
    simp [nameOfU, nameOf, ih hb]
  | app l r ihl ihr =>
    intro d
    simp only [noUD, Bool.and_eq_true] at h
    simp [nameOfU, nameOf, ihl h.1, ihr h.2]

/-- LEXICAL LAYER, all terms: the printed string is a rendering of the token printing of `nameOfU` -/
theorem renders_showU (hc : ClsOk10 cls) (lam : Nat) (hl : isLam lam = true) (M : Nat) (t : Term) :
    ∀ (ctx d : Nat) (rest : List CToken) (s : List Nat), Renders cls rest s → NameEnd cls s →
      Renders cls (printN (nameOfU M d t) ctx ++ rest) (showCla lam M t ctx d ++ s) := by
  induction t with
  | var i =>
    intro ctx d rest s hr hs
    cases i with
    | zero =>
      have : showCla lam M (var 0) ctx d = undefinedName := by
        simp only [showCla]; exact str_undefined
      rw [this]
      exact Renders.name (wfName_undefined hc) hs hr
    | succ i =>
      rw [showCla_var _ _ _ _ _ (by omega)]
      exact Renders.name (wfName_varName hc M d (i + 1)) hs hr
  | abs b ih =>
    intro ctx d rest s hr hs
    by_cases hctx : ctx > 1
    · have := ih 0 (d + 1) (CRparen :: rest) (cRparen :: s) (.rparen hr)
        (nameEnd_rparen hc s)
      have := Renders.lparen (Renders.lam hl (wfName_base26 hc d) this)
      simpa [showCla, nameOfU, printN, parenIf, parenC, hctx, cLparen, cRparen, cDot] using this
    · have := Renders.lam hl (wfName_base26 hc d) (ih 0 (d + 1) rest s hr hs)
      simpa [showCla, nameOfU, printN, parenIf, parenC, hctx, cDot] using this
  | app l r ihl ihr =>
    intro ctx d rest s hr hs
    have hsp : NameEnd cls (32 :: (showCla lam M r 3 d ++ s)) := nameEnd_space hc _
    by_cases hctx : ctx = 3
    · subst hctx
      have h2 := ihr 3 d (CRparen :: rest) (cRparen :: s) (.rparen hr)
        (nameEnd_rparen hc s)
      have h1 := ihl 2 d _ _ (Renders.ws hc.space_ws h2) (nameEnd_space hc _)
      have := Renders.lparen h1
      simpa [showCla, nameOfU, printN, parenIf, parenC, cLparen, cRparen] using this
    · have h2 := ihr 3 d rest s hr hs
      have h1 := ihl 2 d _ _ (Renders.ws hc.space_ws h2) hsp
      have hb : (ctx == 3) = false := by simp [hctx]
      simpa [showCla, nameOfU, printN, parenIf, parenC, hb] using h1

/-- the Display output of ANY term parses in Classic notation, to the standard translation of the named term
that was printed -/
theorem parse_display (cls : CharCls) (hc : ClsOk10 cls) (lam : Nat) (hl : lam = 955 ∨ lam = 92)
    (t : Term) :
    parse cls (display lam t) .Classic = .ok (toDeBruijn (nameOfU t.maxDepth 0 t)) := by
  have hlam : isLam lam = true := by rcases hl with rfl | rfl <;> decide
  have hr := renders_showU hc lam hlam t.maxDepth t 0 0 [] [] .nil trivial
  simp only [List.append_nil] at hr
  rw [display, parse_cla_print cls hc.ok (nameOfU t.maxDepth 0 t) 0 _ hr]

/-! ## 2. name resolution never produces `UD` -/

theorem toDB_noUD (nt : NTerm) : ∀ B F, hasUD (toDB B F nt).1 = false := by
  induction nt with
  | nvar n =>
    intro B F
    rw [C10.toDB_nvar]
    split <;> simp [hasUD]
  | nlam n b ih =>
    intro B F
    have := ih (n :: B) F
    simpa [toDB, hasUD] using this
  | napp f a ihf iha =>
    intro B F
    have h1 := ihf B F
    have h2 := iha B (toDB B F f).2
    simp [toDB, hasUD, h1, h2]

theorem toDeBruijn_noUD (nt : NTerm) : hasUD (toDeBruijn nt) = false := toDB_noUD nt [] []

/-! ## 3. `canon` keeps `UD` -/

theorem hasUD_canonAux (t : Term) : ∀ d seen, hasUD (canonAux d seen t).1 = hasUD t := by
  induction t with
  | var i =>
    intro d seen
    rw [canonAux_var]
    by_cases h : i ≤ d
    · simp [h]
    · have h0 : i ≠ 0 := by omega
      simp [h, hasUD, h0]
  | abs b ih => intro d seen; rw [canonAux_abs]; simpa [hasUD] using ih (d + 1) seen
  | app l r ihl ihr =>
    intro d seen
    rw [canonAux_app]
    simp [hasUD, ihl, ihr]

theorem hasUD_canon (t : Term) : hasUD (canon t) = hasUD t := hasUD_canonAux t 0 []

/-! ## 4. `UD` replaced by the free variable that is named `undefined` -/

/-- every `UD` (under `d` binders: counted from `d`) replaced by the free variable number `K` -/
def fillUD (K : Nat) : Nat → Term → Term
  | d, var 0 => var (d + K)
  | _, var (i + 1) => var (i + 1)
  | d, abs b => abs (fillUD K (d + 1) b)
  | d, app l r => app (fillUD K d l) (fillUD K d r)

theorem maxDepth_fillUD (K : Nat) (t : Term) : ∀ d, (fillUD K d t).maxDepth = t.maxDepth := by
  induction t with
  | var i => intro d; cases i <;> rfl
  | abs b ih => intro d; simp [fillUD, maxDepth, ih]
  | app l r ihl ihr => intro d; simp [fillUD, maxDepth, ihl, ihr]

theorem hasUD_fillUD (K : Nat) (hK : 1 ≤ K) (t : Term) : ∀ d, hasUD (fillUD K d t) = false := by
  induction t with
  | var i =>
    intro d
    cases i with
    | zero => simp [fillUD, hasUD]; omega
    | succ i => simp [fillUD, hasUD]
  | abs b ih => intro d; simpa [fillUD, hasUD] using ih (d + 1)
  | app l r ihl ihr => intro d; simp [fillUD, hasUD, ihl, ihr]

theorem fillUD_noUD (K : Nat) (t : Term) (h : hasUD t = false) : ∀ d, fillUD K d t = t := by
  induction t with
  | var i =>
    intro d
    cases i with
    | zero => simp [hasUD] at h
    | succ i => rfl
  | abs b ih => intro d; simp only [hasUD] at h; simp [fillUD, ih h]
  | app l r ihl ihr =>
    intro d
    simp only [hasUD, Bool.or_eq_false_iff] at h
    simp [fillUD, ihl h.1, ihr h.2]

theorem fillUD_ne (K : Nat) (hK : 1 ≤ K) (t : Term) (h : hasUD t = true) (d : Nat) :
    fillUD K d t ≠ t := by
  intro he
  have := hasUD_fillUD K hK t d
  rw [he, h] at this
  exact absurd this (by decide)

/-- with `M` names reserved for binders the free variable number `K` is named `base26 (M + K - 1)`: if that is
the word `undefined`, replacing `UD` by it does not change the printed string -/
theorem showCla_fillUD (lam M K : Nat) (hK : 1 ≤ K) (hMK : M + K - 1 = undefinedOrdinal) (t : Term) :
    ∀ ctx d, showCla lam M (fillUD K d t) ctx d = showCla lam M t ctx d := by
  induction t with
  | var i =>
    intro ctx d
    cases i with
    | zero =>
      obtain ⟨k, rfl⟩ : ∃ k, K = k + 1 := ⟨K - 1, by omega⟩
      have h1 : ¬ (d + k + 1 ≤ d) := by omega
      have h2 : M + (d + k + 1) - d - 1 = undefinedOrdinal := by omega
      show showCla lam M (var (d + k + 1)) ctx d = showCla lam M (var 0) ctx d
      simp only [showCla, h1, if_false, h2, base26_undefined, str_undefined]
    | succ i => rfl
  | abs b ih => intro ctx d; simp [fillUD, showCla, ih]
  | app l r ihl ihr => intro ctx d; simp [fillUD, showCla, ihl, ihr]

end C10S
end LC
