/-
C09, no-panic clause completed: a SECOND, cursor-faithful executable model of the recursive functions
of `src/parser.rs` and its refinement to the frozen model `LC/Model/Parser.lean`.

The frozen model turns `_convert_classic_tokens` and `_get_ast` (loops over `tokens.get(*pos)` that
call themselves at `(` and return at `)`) into single passes with an explicit stack.  Here the Rust
recursion is kept: a loop function over `(tokens, pos)` that calls itself for the recursive call and
RETURNS THE NEW `pos` with its result.  EVERY partial operation of the Rust text is a checked
operation returning `none` (= panic):

* `tokens.len() - *pos`            (`Vec::with_capacity(..)`, first statement of every call) — `subChk`
* `stack.len() - inner_stack_count`                                                          — `subChk`
* `&exprs[i + 1..]`                (`fold_exprs`)                                            — `sliceFrom`
* `terms.remove(0)`                (`fold_terms`)                                            — `removeAt`

(`tokens.get(*pos)`, `VecDeque::truncate`, `Iterator::position`, `?` are total.)  The recursion is on
a fuel argument; running out of fuel is ALSO `none`, so "never `none`" below means: no panic and the
recursion ends within the stated fuel (`tokens.length + 1 - pos` loop iterations on every path).

`usize` additions (`*pos += 1`, `inner_stack_count += 1`, `index + 1`) are over `Nat`; the bounds
proved here (`pos' ≤ 2 * tokens.length`, `inner ≤ stack.len()`) are what keeps them below
`usize::MAX` (a slice has at most `isize::MAX / size_of::<T>()` elements).
-/
import LC.Model.Parser

namespace LC
namespace Cursor
open Parser Term

/-! ## checked primitives -/

/-- `a - b` on `usize`: panics (debug) / wraps (release) when `b > a` -/
def subChk (a b : Nat) : Option Nat := if b ≤ a then some (a - b) else none

/-- `&v[k..]`: panics when `k > v.len()` -/
def sliceFrom {α : Type} (v : List α) (k : Nat) : Option (List α) :=
  if k ≤ v.length then some (v.drop k) else none

/-- `v.remove(k)`: panics when `k >= v.len()`; returns the element and the shortened vector -/
def removeAt {α : Type} (v : List α) (k : Nat) : Option (α × List α) :=
  match v[k]? with
  | some x => some (x, v.eraseIdx k)
  | none => none

/-! ## `_convert_classic_tokens`

The `VecDeque<&str>` is a list in FRONT-TO-BACK order: `push_back n` = `stack ++ [n]`,
`push_front n` = `n :: stack`, `truncate k` = `stack.take k`, `iter().rev().position(..)` =
`indexOf? · stack.reverse`.  (The frozen model keeps the deque reversed.) -/

/-- the `while let Some(token) = tokens.get(*pos)` loop of `_convert_classic_tokens`, with the
local variables `output`, `inner_stack_count` and the `&mut` arguments `stack`, `pos` as state.
Result: the returned `output` and the final values of `*stack` and `*pos`. -/
def convLoopC (tokens : List CToken) :
    Nat → List (List Nat) → Nat → List Token → Nat → Option (List Token × List (List Nat) × Nat)
  | 0, _, _, _, _ => none
  | fuel + 1, stack, pos, output, inner =>
    match tokens[pos]? with
    | none => some (output, stack, pos)                       -- loop ends; `output`
    | some (.CLambda name) =>
      -- output.push(Lambda); stack.push_back(name); inner_stack_count += 1;   *pos += 1
      convLoopC tokens fuel (stack ++ [name]) (pos + 1) (output ++ [.Lambda]) (inner + 1)
    | some .CLparen =>
      -- output.push(Lparen); *pos += 1; output.append(&mut _convert_classic_tokens(tokens, stack, pos));
      -- the callee starts with `Vec::with_capacity(tokens.len() - *pos)`, `inner_stack_count = 0`
      match subChk tokens.length (pos + 1) with
      | none => none
      | some _capacity =>
        match convLoopC tokens fuel stack (pos + 1) [] 0 with
        | none => none
        | some (out', stack', pos') =>
          --                                                                   *pos += 1
          convLoopC tokens fuel stack' (pos' + 1) (output ++ [.Lparen] ++ out') inner
    | some .CRparen =>
      -- output.push(Rparen); stack.truncate(stack.len() - inner_stack_count); return output;
      match subChk stack.length inner with
      | none => none
      | some k => some (output ++ [.Rparen], stack.take k, pos)
    | some (.CName name) =>
      match indexOf? name stack.reverse with
      | some index =>
        -- output.push(Number(index + 1));                                     *pos += 1
        convLoopC tokens fuel stack (pos + 1) (output ++ [.Number (index + 1)]) inner
      | none =>
        -- stack.push_front(name); output.push(Number(stack.len()));           *pos += 1
        convLoopC tokens fuel (name :: stack) (pos + 1)
          (output ++ [.Number ((name :: stack).length)]) inner

/-- `_convert_classic_tokens(tokens, stack, pos)`: `Vec::with_capacity(tokens.len() - *pos)`,
`inner_stack_count = 0`, then the loop -/
def convCall (tokens : List CToken) (fuel : Nat) (stack : List (List Nat)) (pos : Nat) :
    Option (List Token × List (List Nat) × Nat) :=
  match subChk tokens.length pos with
  | none => none
  | some _capacity => convLoopC tokens fuel stack pos [] 0

/-- `convert_classic_tokens(tokens)` = `_convert_classic_tokens(tokens, &mut VecDeque::new(), &mut 0)` -/
def convertCur (tokens : List CToken) : Option (List Token) :=
  (convCall tokens (tokens.length + 1) [] 0).map (·.1)

/-- the recursive call inside the loop IS `convCall` at `pos + 1` -/
theorem convLoopC_lparen (tokens : List CToken) (fuel : Nat) (stack : List (List Nat)) (pos : Nat)
    (output : List Token) (inner : Nat) (h : tokens[pos]? = some .CLparen) :
    convLoopC tokens (fuel + 1) stack pos output inner =
      match convCall tokens fuel stack (pos + 1) with
      | none => none
      | some (out', stack', pos') =>
        convLoopC tokens fuel stack' (pos' + 1) (output ++ [.Lparen] ++ out') inner := by
  rw [convLoopC]
  simp only [h, convCall]
  cases subChk tokens.length (pos + 1) <;> rfl

/-- what the frozen single-pass model still has to do after the cursor call returned at `pos'` with
deque `stack'`, when the suspended callers have the counters `cs` -/
def convRest (tokens : List CToken) (stack' : List (List Nat)) (pos' : Nat) :
    List Nat → Option (List Token)
  | [] => some []
  | c :: cs => convLoop (tokens.drop (pos' + 1)) stack'.reverse (c :: cs)

theorem convRest_cons (tokens : List CToken) (stack' : List (List Nat)) (pos' c : Nat) (cs : List Nat) :
    convRest tokens stack' pos' (c :: cs) =
      convLoop (tokens.drop (pos' + 1)) stack'.reverse (c :: cs) := rfl

theorem drop_of_getElem? {α : Type} {l : List α} {i : Nat} {a : α} (h : l[i]? = some a) :
    i < l.length ∧ l.drop i = a :: l.drop (i + 1) := by
  obtain ⟨hlt, ha⟩ := List.getElem?_eq_some_iff.mp h
  exact ⟨hlt, by rw [List.drop_eq_getElem_cons hlt, ha]⟩

/-- The cursor loop never panics, never runs out of the stated fuel, keeps the cursor within the
stated bounds, and computes what the frozen single-pass `convLoop` computes.

`Δ` is what this run appends to `output`.  Bounds: the cursor never moves backwards; a return at
`pos' < tokens.length` is a return AT a `)`; a run started at `pos ≤ tokens.length` ends with
`pos' ≤ 2 * tokens.length - pos` (NOT `≤ tokens.length`: after a callee ran into the end of the
input, every suspended caller still executes its `*pos += 1`); started beyond the end, nothing moves. -/
theorem convLoopC_spec (tokens : List CToken) :
    ∀ (fuel : Nat) (stack : List (List Nat)) (pos : Nat) (output : List Token) (inner : Nat),
      1 ≤ fuel → tokens.length + 1 ≤ fuel + pos → inner ≤ stack.length →
      ∃ Δ stack' pos',
        convLoopC tokens fuel stack pos output inner = some (output ++ Δ, stack', pos') ∧
        pos ≤ pos' ∧
        (pos ≤ tokens.length → pos' + pos ≤ 2 * tokens.length) ∧
        (tokens.length < pos → pos' = pos) ∧
        (pos' < tokens.length → tokens[pos']? = some .CRparen) ∧
        stack.length ≤ stack'.length + inner ∧
        ∀ cs, convLoop (tokens.drop pos) stack.reverse (inner :: cs) =
          (fun r => Δ ++ r) <$> convRest tokens stack' pos' cs := by
  intro fuel
  induction fuel with
  | zero => intro _ _ _ _ h; omega
  | succ fuel ih =>
    intro stack pos output inner _ hfuel hinner
    rw [convLoopC]
    cases htok : tokens[pos]? with
    | none =>
      have hle : tokens.length ≤ pos := List.getElem?_eq_none_iff.mp htok
      refine ⟨[], stack, pos, by simp, Nat.le_refl _, by omega, fun _ => rfl, by omega, by omega, ?_⟩
      intro cs
      rw [List.drop_eq_nil_of_le hle]
      cases cs with
      | nil => simp [convLoop, convRest]
      | cons c cs =>
        simp [convLoop, convRest, List.drop_eq_nil_of_le (show tokens.length ≤ pos + 1 by omega)]
    | some tok =>
      obtain ⟨hlt, hdrop⟩ := drop_of_getElem? htok
      have hf1 : 1 ≤ fuel := by omega
      cases tok with
      | CLambda name =>
        obtain ⟨Δ, s', p', he, h1, h2, _, h4, h5, h6⟩ :=
          ih (stack ++ [name]) (pos + 1) (output ++ [.Lambda]) (inner + 1) hf1 (by omega)
            (by simp; omega)
        refine ⟨.Lambda :: Δ, s', p', by simp [he], by omega, ?_, by omega, h4, ?_, ?_⟩
        · intro _; have := h2 (by omega); omega
        · simp only [List.length_append, List.length_cons, List.length_nil] at h5; omega
        · intro cs
          have := h6 cs
          simp only [List.reverse_append, List.reverse_cons, List.reverse_nil, List.nil_append,
            List.singleton_append] at this
          rw [hdrop]
          simp only [convLoop, this]
          generalize convRest tokens s' p' cs = x
          cases x <;> simp
      | CLparen =>
        have hsub : subChk tokens.length (pos + 1) = some (tokens.length - (pos + 1)) := by
          unfold subChk; rw [if_pos (by omega)]
        obtain ⟨Δ1, s1, p1, he1, h11, h12, _, _, h15, h16⟩ :=
          ih stack (pos + 1) [] 0 hf1 (by omega) (Nat.zero_le _)
        obtain ⟨Δ2, s2, p2, he2, h21, h22, h23, h24, h25, h26⟩ :=
          ih s1 (p1 + 1) (output ++ [.Lparen] ++ Δ1) inner hf1 (by omega) (by omega)
        simp only [List.nil_append] at he1
        refine ⟨.Lparen :: (Δ1 ++ Δ2), s2, p2, ?_, by omega, ?_, by omega, h24, by omega, ?_⟩
        · simp only [hsub, he1, he2]; simp
        · intro _
          have a := h12 (by omega)
          by_cases hp : p1 + 1 ≤ tokens.length
          · have := h22 hp; omega
          · have := h23 (by omega); omega
        · intro cs
          rw [hdrop]
          simp only [convLoop]
          rw [h16 (inner :: cs), convRest_cons, h26 cs]
          generalize convRest tokens s2 p2 cs = x
          cases x <;> simp
      | CRparen =>
        have hsub : subChk stack.length inner = some (stack.length - inner) := by
          unfold subChk; rw [if_pos hinner]
        refine ⟨[.Rparen], stack.take (stack.length - inner), pos, by simp [hsub], Nat.le_refl _,
          by omega, fun _ => rfl, fun _ => htok, ?_, ?_⟩
        · simp only [List.length_take]; omega
        · intro cs
          rw [hdrop]
          have hrev : (stack.take (stack.length - inner)).reverse = stack.reverse.drop inner := by
            rw [List.reverse_take]
            congr 1; omega
          cases cs with
          | nil => simp [convLoop, convRest, hinner]
          | cons c cs =>
            simp only [convLoop, convRest, List.length_reverse, hinner, if_true, hrev]
            cases convLoop (tokens.drop (pos + 1)) (stack.reverse.drop inner) (c :: cs) <;> simp
      | CName name =>
        simp only []
        cases hidx : indexOf? name stack.reverse with
        | some index =>
          simp only []
          obtain ⟨Δ, s', p', he, h1, h2, _, h4, h5, h6⟩ :=
            ih stack (pos + 1) (output ++ [.Number (index + 1)]) inner hf1 (by omega) hinner
          refine ⟨.Number (index + 1) :: Δ, s', p', by simp [he], by omega, ?_, by omega, h4, h5, ?_⟩
          · intro _; have := h2 (by omega); omega
          · intro cs
            rw [hdrop]
            simp only [convLoop, hidx, h6 cs]
            generalize convRest tokens s' p' cs = x
            cases x <;> simp
        | none =>
          simp only []
          obtain ⟨Δ, s', p', he, h1, h2, _, h4, h5, h6⟩ :=
            ih (name :: stack) (pos + 1) (output ++ [.Number ((name :: stack).length)]) inner hf1
              (by omega) (by simp; omega)
          refine ⟨.Number (stack.length + 1) :: Δ, s', p', by simpa using he, by omega, ?_, by omega,
            h4, ?_, ?_⟩
          · intro _; have := h2 (by omega); omega
          · simp only [List.length_cons] at h5; omega
          · intro cs
            have := h6 cs
            simp only [List.reverse_cons] at this
            rw [hdrop]
            simp only [convLoop, hidx, List.length_reverse, this]
            generalize convRest tokens s' p' cs = x
            cases x <;> simp

/-- a call `_convert_classic_tokens(tokens, stack, pos)` with `pos ≤ tokens.length` -/
theorem convCall_spec (tokens : List CToken) (fuel : Nat) (stack : List (List Nat)) (pos : Nat)
    (hpos : pos ≤ tokens.length) (hfuel : tokens.length + 1 ≤ fuel + pos) :
    ∃ out stack' pos',
      convCall tokens fuel stack pos = some (out, stack', pos') ∧
      pos ≤ pos' ∧ pos' + pos ≤ 2 * tokens.length ∧
      (pos' < tokens.length → tokens[pos']? = some .CRparen) ∧
      stack.length ≤ stack'.length ∧
      ∀ cs, convLoop (tokens.drop pos) stack.reverse (0 :: cs) =
        (fun r => out ++ r) <$> convRest tokens stack' pos' cs := by
  obtain ⟨Δ, s', p', he, h1, h2, _, h4, h5, h6⟩ :=
    convLoopC_spec tokens fuel stack pos [] 0 (by omega) hfuel (Nat.zero_le _)
  refine ⟨Δ, s', p', ?_, h1, h2 hpos, h4, by omega, h6⟩
  unfold convCall subChk
  rw [if_pos hpos]
  simpa using he

/-- a call with the cursor beyond the end WOULD panic (`tokens.len() - *pos` underflows): the entry
check of the model is not vacuous -/
theorem convCall_beyond (tokens : List CToken) (fuel : Nat) (stack : List (List Nat)) (pos : Nat)
    (hpos : tokens.length < pos) : convCall tokens fuel stack pos = none := by
  unfold convCall subChk
  rw [if_neg (by omega)]

/-- more fuel does not change a result -/
theorem convLoopC_mono (tokens : List CToken) :
    ∀ (fuel : Nat) (stack : List (List Nat)) (pos : Nat) (output : List Token) (inner : Nat)
      (r : List Token × List (List Nat) × Nat),
      convLoopC tokens fuel stack pos output inner = some r →
      convLoopC tokens (fuel + 1) stack pos output inner = some r := by
  intro fuel
  induction fuel with
  | zero => intro _ _ _ _ _ h; simp [convLoopC] at h
  | succ fuel ih =>
    intro stack pos output inner r h
    rw [convLoopC] at h
    rw [convLoopC]
    cases htok : tokens[pos]? with
    | none => simpa [htok] using h
    | some tok =>
      rw [htok] at h
      cases tok with
      | CLambda name => exact ih _ _ _ _ _ h
      | CLparen =>
        simp only at h ⊢
        cases hs : subChk tokens.length (pos + 1) with
        | none => simp [hs] at h
        | some c =>
          simp only [hs] at h ⊢
          cases h1 : convLoopC tokens fuel stack (pos + 1) [] 0 with
          | none => simp [h1] at h
          | some r1 =>
            obtain ⟨o1, s1, p1⟩ := r1
            simp only [h1] at h
            rw [ih _ _ _ _ _ h1]
            exact ih _ _ _ _ _ h
      | CRparen => simpa using h
      | CName name =>
        simp only at h ⊢
        cases hidx : indexOf? name stack.reverse with
        | some index => simp only [hidx] at h ⊢; exact ih _ _ _ _ _ h
        | none => simp only [hidx] at h ⊢; exact ih _ _ _ _ _ h

theorem convLoopC_mono_le (tokens : List CToken) {fuel fuel' : Nat} (hle : fuel ≤ fuel')
    {stack : List (List Nat)} {pos : Nat} {output : List Token} {inner : Nat}
    {r : List Token × List (List Nat) × Nat}
    (h : convLoopC tokens fuel stack pos output inner = some r) :
    convLoopC tokens fuel' stack pos output inner = some r := by
  induction hle with
  | refl => exact h
  | step _ ih => exact convLoopC_mono tokens _ _ _ _ _ _ ih

/-- the result of a call does not depend on the fuel (once there is enough of it) -/
theorem convCall_det (tokens : List CToken) {f1 f2 : Nat} {stack : List (List Nat)} {pos : Nat}
    {r1 r2 : List Token × List (List Nat) × Nat}
    (h1 : convCall tokens f1 stack pos = some r1) (h2 : convCall tokens f2 stack pos = some r2) :
    r1 = r2 := by
  unfold convCall at h1 h2
  cases hs : subChk tokens.length pos with
  | none => simp [hs] at h1
  | some c =>
    simp only [hs] at h1 h2
    have a := convLoopC_mono_le tokens (Nat.le_max_left f1 f2) h1
    have b := convLoopC_mono_le tokens (Nat.le_max_right f1 f2) h2
    rw [a] at b
    exact Option.some.inj b

theorem convertCur_eq (tokens : List CToken) : convertCur tokens = convertClassicTokens tokens := by
  obtain ⟨out, s', p', he, _, _, _, _, h6⟩ :=
    convCall_spec tokens (tokens.length + 1) [] 0 (Nat.zero_le _) (by omega)
  have := h6 []
  simp only [List.drop_zero, List.reverse_nil, convRest] at this
  unfold convertCur convertClassicTokens
  rw [he, this]
  simp

/-! ### every call and every loop head reached while `convert_classic_tokens(tokens)` runs -/

/-- `ConvLoopAt tokens stack pos output inner`: while `convert_classic_tokens(tokens)` runs, some
activation of `_convert_classic_tokens` is at its loop head (about to evaluate
`tokens.get(*pos)`) with these values of `*stack`, `*pos`, `output`, `inner_stack_count`.
`call` is the first loop head of a callee (so it records every recursive CALL, made with cursor
`pos + 1`), `back` the loop head of the caller after a callee RETURNED `(out', stack', pos')`. -/
inductive ConvLoopAt (tokens : List CToken) : List (List Nat) → Nat → List Token → Nat → Prop
  | top : ConvLoopAt tokens [] 0 [] 0
  | lambda {stack pos output inner name} :
    ConvLoopAt tokens stack pos output inner → tokens[pos]? = some (.CLambda name) →
    ConvLoopAt tokens (stack ++ [name]) (pos + 1) (output ++ [.Lambda]) (inner + 1)
  | call {stack pos output inner} :
    ConvLoopAt tokens stack pos output inner → tokens[pos]? = some .CLparen →
    ConvLoopAt tokens stack (pos + 1) [] 0
  | back {stack pos output inner fuel out' stack' pos'} :
    ConvLoopAt tokens stack pos output inner → tokens[pos]? = some .CLparen →
    convCall tokens fuel stack (pos + 1) = some (out', stack', pos') →
    ConvLoopAt tokens stack' (pos' + 1) (output ++ [.Lparen] ++ out') inner
  | bound {stack pos output inner name index} :
    ConvLoopAt tokens stack pos output inner → tokens[pos]? = some (.CName name) →
    indexOf? name stack.reverse = some index →
    ConvLoopAt tokens stack (pos + 1) (output ++ [.Number (index + 1)]) inner
  | free {stack pos output inner name} :
    ConvLoopAt tokens stack pos output inner → tokens[pos]? = some (.CName name) →
    indexOf? name stack.reverse = none →
    ConvLoopAt tokens (name :: stack) (pos + 1) (output ++ [.Number ((name :: stack).length)]) inner

/-- at every loop head the subtraction `stack.len() - inner_stack_count` is safe and the cursor is
at most `2 * tokens.length` -/
theorem ConvLoopAt.inv {tokens : List CToken} {stack : List (List Nat)} {pos : Nat}
    {output : List Token} {inner : Nat} (h : ConvLoopAt tokens stack pos output inner) :
    inner ≤ stack.length ∧ pos ≤ 2 * tokens.length := by
  induction h with
  | top => simp
  | lambda _ ht ih => have := (drop_of_getElem? ht).1; simp; omega
  | call _ ht ih => have := (drop_of_getElem? ht).1; simp; omega
  | @back stack pos output inner fuel out' stack' pos' _ ht hc ih =>
    have hlt := (drop_of_getElem? ht).1
    obtain ⟨o, s, p, he, _, h2, _, h4, _⟩ :=
      convCall_spec tokens (tokens.length + 1) stack (pos + 1) (by omega) (by omega)
    have := convCall_det tokens hc he
    simp only [Prod.mk.injEq] at this
    obtain ⟨_, rfl, rfl⟩ := this
    omega
  | bound _ ht _ ih => have := (drop_of_getElem? ht).1; omega
  | free _ ht _ ih => have := (drop_of_getElem? ht).1; simp; omega

/-! ## `_get_ast` -/

/-- the loop of `_get_ast(tokens, pos, nested)` with the local `expr` as state; result: the returned
`Result` and the final value of `*pos` (it is a `&mut`, so it has one on `Err` too).  There is NO
partial operation in this function (`tokens.get` is total, `?` propagates): `none` = out of fuel. -/
def astLoopC (tokens : List Token) :
    Nat → Nat → Bool → List Expression → Option (Except ParseError Expression × Nat)
  | 0, _, _, _ => none
  | fuel + 1, pos, nested, expr =>
    match tokens[pos]? with
    | none =>
      some (if nested then .error .InvalidExpression else .ok (.Sequence expr), pos)
    | some .Lambda => astLoopC tokens fuel (pos + 1) nested (expr ++ [.Abstraction])
    | some (.Number i) => astLoopC tokens fuel (pos + 1) nested (expr ++ [.Variable i])
    | some .Lparen =>
      -- *pos += 1; let subtree = _get_ast(tokens, pos, true)?; expr.push(subtree);
      -- the callee starts with `if tokens.is_empty() { return Err(EmptyExpression) }`, `expr = []`
      if tokens.isEmpty then some (.error .EmptyExpression, pos + 1)
      else
        match astLoopC tokens fuel (pos + 1) true [] with
        | none => none
        | some (.error e, pos') => some (.error e, pos')
        | some (.ok subtree, pos') =>
          --                                                                   *pos += 1
          astLoopC tokens fuel (pos' + 1) nested (expr ++ [subtree])
    | some .Rparen =>
      some (if nested then .ok (.Sequence expr) else .error .InvalidExpression, pos)

/-- `_get_ast(tokens, pos, nested)` -/
def astCall (tokens : List Token) (fuel : Nat) (pos : Nat) (nested : Bool) :
    Option (Except ParseError Expression × Nat) :=
  if tokens.isEmpty then some (.error .EmptyExpression, pos)
  else astLoopC tokens fuel pos nested []

/-- `get_ast(tokens)` = `_get_ast(tokens, &mut 0, false)` -/
def getAstCur (tokens : List Token) : Option (Except ParseError Expression) :=
  (astCall tokens (tokens.length + 1) 0 false).map (·.1)

/-- the recursive call inside the loop IS `astCall` at `pos + 1` with `nested = true` -/
theorem astLoopC_lparen (tokens : List Token) (fuel pos : Nat) (nested : Bool)
    (expr : List Expression) (h : tokens[pos]? = some .Lparen) :
    astLoopC tokens (fuel + 1) pos nested expr =
      match astCall tokens fuel (pos + 1) true with
      | none => none
      | some (.error e, pos') => some (.error e, pos')
      | some (.ok subtree, pos') => astLoopC tokens fuel (pos' + 1) nested (expr ++ [subtree]) := by
  rw [astLoopC]
  simp only [h, astCall]
  cases tokens.isEmpty <;> simp

/-- what the frozen single-pass `astLoop` still has to do after the cursor call returned `r` at
`pos'`, when the suspended callers hold the partial vectors `st` (innermost first, reversed) -/
def astRest (tokens : List Token) (r : Except ParseError Expression) (pos' : Nat) :
    List (List Expression) → Except ParseError Expression
  | [] => r
  | parent :: st =>
    match r with
    | .ok e => astLoop (tokens.drop (pos' + 1)) (e :: parent) st
    | .error err => .error err

/-- The cursor loop of `_get_ast` ends within the stated fuel, keeps `pos ≤ tokens.length`, returns
`Ok` of a nested call only AT a `)`, and computes what the frozen `astLoop` computes (`nested` =
"there is a suspended caller"). -/
theorem astLoopC_spec (tokens : List Token) :
    ∀ (fuel pos : Nat) (nested : Bool) (expr : List Expression),
      1 ≤ fuel → tokens.length + 1 ≤ fuel + pos →
      ∃ r pos',
        astLoopC tokens fuel pos nested expr = some (r, pos') ∧
        pos ≤ pos' ∧
        (pos ≤ tokens.length → pos' ≤ tokens.length) ∧
        (tokens.length < pos → pos' = pos) ∧
        (∀ e, r = .ok e → nested = true → tokens[pos']? = some .Rparen) ∧
        (∀ e, r = .ok e → nested = false → tokens.length ≤ pos') ∧
        ∀ st, nested = !st.isEmpty →
          astLoop (tokens.drop pos) expr.reverse st = astRest tokens r pos' st := by
  intro fuel
  induction fuel with
  | zero => intro _ _ _ h; omega
  | succ fuel ih =>
    intro pos nested expr _ hfuel
    rw [astLoopC]
    cases htok : tokens[pos]? with
    | none =>
      have hle : tokens.length ≤ pos := List.getElem?_eq_none_iff.mp htok
      refine ⟨_, pos, rfl, Nat.le_refl _, by omega, fun _ => rfl, ?_, ?_, ?_⟩
      · intro e he hn; simp [hn] at he
      · intro _ _ _; exact hle
      · intro st hst
        rw [List.drop_eq_nil_of_le hle]
        cases st with
        | nil => simp at hst; simp [hst, astLoop, astRest]
        | cons parent st => simp at hst; simp [hst, astLoop, astRest]
    | some tok =>
      obtain ⟨hlt, hdrop⟩ := drop_of_getElem? htok
      have hf1 : 1 ≤ fuel := by omega
      cases tok with
      | Lambda =>
        obtain ⟨r, p', he, h1, h2, _, h4, h5, h6⟩ :=
          ih (pos + 1) nested (expr ++ [.Abstraction]) hf1 (by omega)
        refine ⟨r, p', he, by omega, fun _ => h2 (by omega), by omega, h4, h5, ?_⟩
        intro st hst
        have := h6 st hst
        simp only [List.reverse_append, List.reverse_cons, List.reverse_nil, List.nil_append,
          List.singleton_append] at this
        rw [hdrop]; simp only [astLoop, this]
      | Number i =>
        obtain ⟨r, p', he, h1, h2, _, h4, h5, h6⟩ :=
          ih (pos + 1) nested (expr ++ [.Variable i]) hf1 (by omega)
        refine ⟨r, p', he, by omega, fun _ => h2 (by omega), by omega, h4, h5, ?_⟩
        intro st hst
        have := h6 st hst
        simp only [List.reverse_append, List.reverse_cons, List.reverse_nil, List.nil_append,
          List.singleton_append] at this
        rw [hdrop]; simp only [astLoop, this]
      | Lparen =>
        have hne : tokens.isEmpty = false := by
          cases tokens with
          | nil => simp at hlt
          | cons _ _ => rfl
        simp only [hne]
        obtain ⟨r1, p1, he1, h11, h12, _, h14, _, h16⟩ := ih (pos + 1) true [] hf1 (by omega)
        have hp1 := h12 (by omega)
        cases r1 with
        | error err =>
          refine ⟨.error err, p1, by simp [he1], by omega, fun _ => hp1, by omega, ?_, ?_, ?_⟩
          · intro e he; cases he
          · intro e he; cases he
          · intro st hst
            rw [hdrop]; simp only [astLoop]
            have h16' := h16 (expr.reverse :: st) (by simp)
            simp only [List.reverse_nil] at h16'
            rw [h16']
            cases st <;> simp [astRest]
        | ok e1 =>
          have hr := h14 e1 rfl rfl
          have hp1lt : p1 < tokens.length := (List.getElem?_eq_some_iff.mp hr).1
          obtain ⟨r2, p2, he2, h21, h22, _, h24, h25, h26⟩ :=
            ih (p1 + 1) nested (expr ++ [e1]) hf1 (by omega)
          refine ⟨r2, p2, by simp [he1, he2], by omega, fun _ => h22 (by omega), by omega, h24, h25,
            ?_⟩
          intro st hst
          rw [hdrop]; simp only [astLoop]
          have h16' := h16 (expr.reverse :: st) (by simp)
          simp only [List.reverse_nil] at h16'
          rw [h16']
          have := h26 st hst
          simp only [List.reverse_append, List.reverse_cons, List.reverse_nil, List.nil_append,
            List.singleton_append] at this
          simp only [astRest, this]
      | Rparen =>
        refine ⟨_, pos, rfl, Nat.le_refl _, fun h => h, fun _ => rfl, ?_, ?_, ?_⟩
        · intro _ _ _; exact htok
        · intro e he hn; simp [hn] at he
        · intro st hst
          rw [hdrop]
          cases st with
          | nil => simp at hst; simp [hst, astLoop, astRest]
          | cons parent st => simp at hst; simp [hst, astLoop, astRest]

/-- a call `_get_ast(tokens, pos, nested)` with `pos ≤ tokens.length` -/
theorem astCall_spec (tokens : List Token) (fuel pos : Nat) (nested : Bool)
    (hpos : pos ≤ tokens.length) (hfuel : tokens.length + 1 ≤ fuel + pos) :
    ∃ r pos',
      astCall tokens fuel pos nested = some (r, pos') ∧
      pos ≤ pos' ∧ pos' ≤ tokens.length ∧
      (∀ e, r = .ok e → nested = true → tokens[pos']? = some .Rparen) ∧
      (∀ e, r = .ok e → nested = false → pos' = tokens.length) ∧
      (tokens = [] → r = .error .EmptyExpression) ∧
      ∀ st, tokens ≠ [] → nested = !st.isEmpty →
        astLoop (tokens.drop pos) [] st = astRest tokens r pos' st := by
  cases htk : tokens with
  | nil =>
    subst htk
    exact ⟨_, pos, rfl, Nat.le_refl _, hpos, by simp, by simp, fun _ => rfl, by simp⟩
  | cons t ts =>
    rw [← htk]
    have hne : tokens.isEmpty = false := by rw [htk]; rfl
    obtain ⟨r, p', he, h1, h2, _, h4, h5, h6⟩ :=
      astLoopC_spec tokens fuel pos nested [] (by omega) hfuel
    refine ⟨r, p', by simp [astCall, hne, he], h1, h2 hpos, h4, ?_, by simp [htk], ?_⟩
    · intro e hr hn; have := h5 e hr hn; have := h2 hpos; omega
    · intro st _ hst; simpa using h6 st hst

theorem astLoopC_mono (tokens : List Token) :
    ∀ (fuel pos : Nat) (nested : Bool) (expr : List Expression)
      (r : Except ParseError Expression × Nat),
      astLoopC tokens fuel pos nested expr = some r →
      astLoopC tokens (fuel + 1) pos nested expr = some r := by
  intro fuel
  induction fuel with
  | zero => intro _ _ _ _ h; simp [astLoopC] at h
  | succ fuel ih =>
    intro pos nested expr r h
    rw [astLoopC] at h
    rw [astLoopC]
    cases htok : tokens[pos]? with
    | none => simpa [htok] using h
    | some tok =>
      rw [htok] at h
      cases tok with
      | Lambda => exact ih _ _ _ _ h
      | Number i => exact ih _ _ _ _ h
      | Lparen =>
        simp only at h ⊢
        cases hemp : tokens.isEmpty with
        | true => simpa [hemp] using h
        | false =>
          simp only [hemp] at h ⊢
          cases h1 : astLoopC tokens fuel (pos + 1) true [] with
          | none => simp [h1] at h
          | some r1 =>
            obtain ⟨x1, p1⟩ := r1
            rw [ih _ _ _ _ h1]
            cases x1 with
            | error e => simpa [h1] using h
            | ok e1 =>
              simp only [h1] at h
              exact ih _ _ _ _ h
      | Rparen => simpa using h

theorem astLoopC_mono_le (tokens : List Token) {fuel fuel' : Nat} (hle : fuel ≤ fuel')
    {pos : Nat} {nested : Bool} {expr : List Expression} {r : Except ParseError Expression × Nat}
    (h : astLoopC tokens fuel pos nested expr = some r) :
    astLoopC tokens fuel' pos nested expr = some r := by
  induction hle with
  | refl => exact h
  | step _ ih => exact astLoopC_mono tokens _ _ _ _ _ ih

/-- the result of a call does not depend on the fuel (once there is enough of it) -/
theorem astCall_det (tokens : List Token) {f1 f2 pos : Nat} {nested : Bool}
    {r1 r2 : Except ParseError Expression × Nat}
    (h1 : astCall tokens f1 pos nested = some r1) (h2 : astCall tokens f2 pos nested = some r2) :
    r1 = r2 := by
  unfold astCall at h1 h2
  cases hemp : tokens.isEmpty with
  | true =>
    simp only [hemp, if_true, Option.some.injEq] at h1 h2
    rw [← h1, ← h2]
  | false =>
    simp only [hemp] at h1 h2
    have a := astLoopC_mono_le tokens (Nat.le_max_left f1 f2) h1
    have b := astLoopC_mono_le tokens (Nat.le_max_right f1 f2) h2
    rw [a] at b
    exact Option.some.inj b

theorem getAstCur_eq (tokens : List Token) : getAstCur tokens = some (getAst tokens) := by
  obtain ⟨r, p', he, _, _, _, _, h6, h7⟩ :=
    astCall_spec tokens (tokens.length + 1) 0 false (Nat.zero_le _) (by omega)
  unfold getAstCur getAst
  rw [he]
  cases htk : tokens with
  | nil => simp [h6 htk]
  | cons t ts =>
    have := h7 [] (by simp [htk]) (by simp)
    simp only [List.drop_zero, astRest] at this
    rw [htk] at this
    simp [this]

/-! ### every call and every loop head reached while `get_ast(tokens)` runs -/

/-- `AstLoopAt tokens pos nested expr`: while `get_ast(tokens)` runs, some activation of `_get_ast`
is at its loop head with these values of `*pos`, `nested`, `expr`.  `call` is the first loop head
of a callee (cursor `pos + 1`, `nested = true`), `back` the loop head of the caller after a callee
returned `Ok(subtree)` with the cursor at `pos'` (on `Err` the caller returns at once). -/
inductive AstLoopAt (tokens : List Token) : Nat → Bool → List Expression → Prop
  | top : AstLoopAt tokens 0 false []
  | lambda {pos nested expr} :
    AstLoopAt tokens pos nested expr → tokens[pos]? = some .Lambda →
    AstLoopAt tokens (pos + 1) nested (expr ++ [.Abstraction])
  | number {pos nested expr i} :
    AstLoopAt tokens pos nested expr → tokens[pos]? = some (.Number i) →
    AstLoopAt tokens (pos + 1) nested (expr ++ [.Variable i])
  | call {pos nested expr} :
    AstLoopAt tokens pos nested expr → tokens[pos]? = some .Lparen →
    AstLoopAt tokens (pos + 1) true []
  | back {pos nested expr fuel subtree pos'} :
    AstLoopAt tokens pos nested expr → tokens[pos]? = some .Lparen →
    astCall tokens fuel (pos + 1) true = some (.ok subtree, pos') →
    AstLoopAt tokens (pos' + 1) nested (expr ++ [subtree])

/-- at every loop head of `_get_ast` the cursor is within the token slice (or one past its end) -/
theorem AstLoopAt.inv {tokens : List Token} {pos : Nat} {nested : Bool} {expr : List Expression}
    (h : AstLoopAt tokens pos nested expr) : pos ≤ tokens.length := by
  induction h with
  | top => simp
  | lambda _ ht ih => exact (drop_of_getElem? ht).1
  | number _ ht ih => exact (drop_of_getElem? ht).1
  | call _ ht ih => exact (drop_of_getElem? ht).1
  | @back pos nested expr fuel subtree pos' _ ht hc ih =>
    have hlt := (drop_of_getElem? ht).1
    obtain ⟨r, p, he, _, _, h4, _⟩ :=
      astCall_spec tokens (tokens.length + 1) (pos + 1) true (by omega) (by omega)
    have := astCall_det tokens hc he
    simp only [Prod.mk.injEq] at this
    obtain ⟨rfl, rfl⟩ := this
    exact (drop_of_getElem? (h4 subtree rfl rfl)).1

/-! ## `fold_exprs`, `fold_terms` -/

mutual
/-- number of `Expression` nodes (fuel measure for `fold_exprs`) -/
def esize : Expression → Nat
  | .Abstraction => 1
  | .Variable _ => 1
  | .Sequence es => esizeL es + 1
def esizeL : List Expression → Nat
  | [] => 0
  | e :: es => esize e + esizeL es
end

/-- `fold_terms(terms)`: `terms.remove(0)` is the partial operation -/
def foldTermsC (terms : List Term) : Option (Except ParseError Term) :=
  if terms.isEmpty then some (.error .EmptyExpression)
  else
    match removeAt terms 0 with
    | none => none
    | some (fst, rest) =>
      if rest.isEmpty then some (.ok fst) else some (.ok (rest.foldl app fst))

/-- the `for (i, expr) in exprs.iter().enumerate()` loop of `fold_exprs(exprs)`, followed by
`fold_terms(output)`; `&exprs[i + 1..]` is the partial operation -/
def foldLoopC : Nat → List Expression → Nat → List Term → Option (Except ParseError Term)
  | 0, _, _, _ => none
  | fuel + 1, exprs, i, output =>
    match exprs[i]? with
    | none => foldTermsC output
    | some .Abstraction =>
      -- output.push(abs(fold_exprs(&exprs[i + 1..])?)); break;
      match sliceFrom exprs (i + 1) with
      | none => none
      | some slice =>
        match foldLoopC fuel slice 0 [] with
        | none => none
        | some (.error e) => some (.error e)
        | some (.ok body) => foldTermsC (output ++ [abs body])
    | some (.Variable k) => foldLoopC fuel exprs (i + 1) (output ++ [var k])
    | some (.Sequence es) =>
      -- output.push(fold_exprs(exprs)?)
      match foldLoopC fuel es 0 [] with
      | none => none
      | some (.error e) => some (.error e)
      | some (.ok t) => foldLoopC fuel exprs (i + 1) (output ++ [t])

/-- `fold_exprs(exprs)` -/
def foldExprsCur (exprs : List Expression) : Option (Except ParseError Term) :=
  foldLoopC (esizeL exprs + 1) exprs 0 []

theorem foldTermsC_eq (terms : List Term) : foldTermsC terms = some (foldTerms terms) := by
  cases terms with
  | nil => rfl
  | cons t ts =>
    cases ts with
    | nil => rfl
    | cons u us => rfl

theorem esizeL_drop {exprs : List Expression} {i : Nat} {e : Expression} (h : exprs[i]? = some e) :
    esizeL (exprs.drop i) = esize e + esizeL (exprs.drop (i + 1)) := by
  rw [(drop_of_getElem? h).2, esizeL]

/-- the cursor loop of `fold_exprs` never panics (the slice `&exprs[i + 1..]` is in bounds, the
vector given to `remove(0)` is not empty), ends within the stated fuel and computes the frozen
model's result -/
theorem foldLoopC_spec :
    ∀ (fuel : Nat) (exprs : List Expression) (i : Nat) (output : List Term),
      esizeL (exprs.drop i) + 1 ≤ fuel →
      foldLoopC fuel exprs i output =
        some (match foldList (exprs.drop i) with
              | .ok ts => foldTerms (output ++ ts)
              | .error e => .error e) := by
  intro fuel
  induction fuel with
  | zero => intro _ _ _ h; omega
  | succ fuel ih =>
    intro exprs i output hfuel
    rw [foldLoopC]
    cases hex : exprs[i]? with
    | none =>
      have hle : exprs.length ≤ i := List.getElem?_eq_none_iff.mp hex
      rw [List.drop_eq_nil_of_le hle]
      simp [foldList, foldTermsC_eq]
    | some e =>
      obtain ⟨hlt, hdrop⟩ := drop_of_getElem? hex
      have hsz := esizeL_drop hex
      cases e with
      | Abstraction =>
        have hsl : sliceFrom exprs (i + 1) = some (exprs.drop (i + 1)) := by
          unfold sliceFrom; rw [if_pos (by omega)]
        simp only [hsl]
        rw [ih (exprs.drop (i + 1)) 0 [] (by simp only [List.drop_zero]; simp only [esize] at hsz; omega)]
        rw [hdrop, foldList]
        simp only [List.drop_zero, List.nil_append]
        cases foldList (exprs.drop (i + 1)) with
        | error err => rfl
        | ok ts =>
          simp only []
          cases hft : foldTerms ts with
          | error err => rfl
          | ok b => simp only [foldTermsC_eq]
      | Variable k =>
        simp only []
        rw [ih exprs (i + 1) (output ++ [var k]) (by simp only [esize] at hsz; omega)]
        rw [hdrop, foldList]
        cases foldList (exprs.drop (i + 1)) with
        | error err => rfl
        | ok ts => simp
      | Sequence es =>
        simp only [esize] at hsz
        simp only []
        rw [ih es 0 [] (by simp only [List.drop_zero]; omega)]
        rw [hdrop, foldList]
        simp only [List.drop_zero, List.nil_append]
        cases foldList es with
        | error err => rfl
        | ok us =>
          simp only []
          cases hft : foldTerms us with
          | error err => rfl
          | ok t =>
            simp only []
            rw [ih exprs (i + 1) (output ++ [t]) (by omega)]
            cases foldList (exprs.drop (i + 1)) with
            | error err => rfl
            | ok ts => simp

theorem foldExprsCur_eq (exprs : List Expression) : foldExprsCur exprs = some (foldExprs exprs) := by
  unfold foldExprsCur
  rw [foldLoopC_spec _ exprs 0 [] (by simp)]
  simp only [List.drop_zero, List.nil_append, foldExprs]
  cases foldList exprs <;> rfl

/-! ## `parse` over the cursor functions -/

/-- `get_ast(&tokens)?`, the `if let Sequence(exprs) = ast` test and `fold_exprs(&exprs?)` of `parse` -/
def tokenStageCur (toks : List Token) : Option (Except ParseError Term) :=
  match getAstCur toks with
  | none => none
  | some (.error e) => some (.error e)
  | some (.ok (.Sequence es)) => foldExprsCur es
  | some (.ok _) => some (.error .InvalidExpression)

/-- `parse(input, notation)` with the three recursive stages replaced by their cursor models;
`none` = panic (or out of fuel) -/
def parseCur (cls : CharCls) (input : List Nat) (n : Notation) : Option (Except ParseError Term) :=
  let tokens : Except ParseError (Option (List Token)) :=
    match n with
    | .DeBruijn => some <$> tokenizeDbr cls input
    | .Classic => convertCur <$> tokenizeCla cls input
  match tokens with
  | .error e => some (.error e)
  | .ok none => none
  | .ok (some toks) => tokenStageCur toks

/-- the Rust `Result` (or panic) as an `Outcome` of the frozen model -/
def toOutcome : Option (Except ParseError Term) → Outcome
  | none => .panic
  | some (.ok t) => .ok t
  | some (.error e) => .err e

theorem tokenStageCur_eq (toks : List Token) :
    tokenStageCur toks =
      some (match getAst toks with
            | .error e => .error e
            | .ok (.Sequence es) => foldExprs es
            | .ok _ => .error .InvalidExpression) := by
  unfold tokenStageCur
  rw [getAstCur_eq]
  cases getAst toks with
  | error e => rfl
  | ok x =>
    cases x with
    | Abstraction => rfl
    | Variable i => rfl
    | Sequence es => simp only [foldExprsCur_eq]

/-- `parse` over the cursor functions never panics and is the frozen model's `parse` -/
theorem parseCur_eq (cls : CharCls) (input : List Nat) (n : Notation) :
    parseCur cls input n ≠ none ∧ toOutcome (parseCur cls input n) = parse cls input n := by
  have key : ∀ toks : List Token, tokenStageCur toks ≠ none ∧
      toOutcome (tokenStageCur toks) =
        (match getAst toks with
        | .error e => Outcome.err e
        | .ok (.Sequence es) =>
          match foldExprs es with
          | .ok t => .ok t
          | .error e => .err e
        | .ok _ => .err .InvalidExpression) := by
    intro toks
    rw [tokenStageCur_eq]
    refine ⟨by simp, ?_⟩
    cases getAst toks with
    | error e => rfl
    | ok x =>
      cases x with
      | Abstraction => rfl
      | Variable i => rfl
      | Sequence es => simp only []; cases foldExprs es <;> rfl
  unfold parseCur parse
  cases n with
  | DeBruijn =>
    simp only []
    cases tokenizeDbr cls input with
    | error e => simp [Functor.map, Except.map, toOutcome]
    | ok toks =>
      simp only [Functor.map, Except.map]
      exact key toks
  | Classic =>
    simp only []
    cases tokenizeCla cls input with
    | error e => simp [Functor.map, Except.map, toOutcome]
    | ok cts =>
      simp only [Functor.map, Except.map, convertCur_eq]
      cases hc : convertClassicTokens cts with
      | none =>
        exfalso
        have := convertCur_eq cts
        rw [hc] at this
        obtain ⟨out, s', p', he, _⟩ :=
          convCall_spec cts (cts.length + 1) [] 0 (Nat.zero_le _) (by omega)
        simp [convertCur, he] at this
      | some toks => exact key toks

end Cursor
end LC
