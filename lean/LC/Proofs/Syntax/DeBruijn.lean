/-
C09 (De Bruijn notation + token-level half): the parser accepts exactly the reference grammar
`LC.Spec.Gr.DExpr` (`LC/Spec/Grammar.lean`) and returns the denoted term.

Main statements: `parseTokens_iff`, `parseTokens_err_of_not`, `Gr.DExpr.unambiguous`,
`tokenizeDbr_spec`, `tokenizeDbr_invalid`, `tokenizeDbr_error`, `parse_dbr_spec`, `parse_dbr_no_panic`,
`parse_dbr_ok_iff` (= "`parse` succeeds exactly on `Gr.Denotes` and returns the denoted term"),
`parse_dbr_err_iff`, `parse_dbr_invalid`; invariance: `tokenizeDbr_ws_invariant`,
`parse_dbr_ws_invariant`, `tokenizeDbr_glyph_invariant`, `parse_dbr_glyph_invariant`,
`Gr.DExpr.paren_whole`, `Gr.DAtom.paren_atom`, `parseTokens_paren_atom` (parentheses around any atom
occurrence in any context); sanity of the grammar: `Gr.DExpr.ne_nil`, `Gr.DExpr.balanced`,
`Gr.DExpr.lam_inv`, `parseTokens_empty_group`, `parseTokens_empty_body`, `not_DExpr_empty`.

Route:
* lexer: `tokenizeDbrAux` is characterised character by character through `Gr.tokenOf`
  (`tokenizeDbrAux_cons`), giving `tokenizeDbr_spec` / `tokenizeDbr_invalid` / `tokenizeDbr_error`;
* `astLoop`: `flat`/`flatL` print an `Expression` back to tokens; `astLoop_flatL` (completeness) and
  `astLoop_sound` (invariant `flatL result = consumed cur st ++ remaining tokens`) give
  `astLoop ts [] [] = .ok e ↔ ∃ es, e = .Sequence es ∧ flatL es = ts`;
* `foldList`: `foldList_sound` (functional induction) and `foldList_complete` (mutual recursor of the
  grammar) relate folding to derivations of the grammar over `flatL es`;
* context lemmas (`parseTokens_paren_atom`, `parseTokens_empty_group`): simulation arguments on the
  `astLoop` state (`EqP`/`EqS`: states that fold alike; `Bad`: states that make every fold fail).
-/
import LC.Spec.Grammar

namespace LC
open Term Parser Spec

namespace C09D

theorem tokenOf_isLam {cls : CharCls} {c : Nat} (h : isLam c = true) : Gr.tokenOf cls c = some .Lambda := by
  simp [isLam, cBackslash, cLambda] at h
  simp [Gr.tokenOf]; omega

theorem tokenizeDbrAux_cons (cls : CharCls) (i c : Nat) (cs : List Nat) :
    tokenizeDbrAux cls i (c :: cs) =
      match Gr.tokenOf cls c with
      | some tk => (tk :: ·) <$> tokenizeDbrAux cls (i + 1) cs
      | none => if cls.isWs c then tokenizeDbrAux cls (i + 1) cs else .error (.InvalidCharacter i c) := by
  rw [tokenizeDbrAux]
  by_cases h1 : isLam c = true
  · simp [h1, tokenOf_isLam h1]
  · have h1' : ¬ (c = 955 ∨ c = 92) := by
      simpa [isLam, cBackslash, cLambda, or_comm] using h1
    by_cases h2 : c = 40
    · subst h2; simp [Gr.tokenOf, isLam, cBackslash, cLambda, cLparen]
    · by_cases h3 : c = 41
      · subst h3; simp [Gr.tokenOf, isLam, cBackslash, cLambda, cLparen, cRparen]
      · simp only [h1, Bool.false_eq_true, if_false, Gr.tokenOf, h1', cLparen, cRparen, beq_iff_eq, h2, h3]
        cases cls.digit16 c <;> simp


theorem map_ok_iff {α β ε} (f : α → β) (r : Except ε α) (b : β) :
    f <$> r = .ok b ↔ ∃ a, r = .ok a ∧ b = f a := by
  cases r with
  | error e => simp [Functor.map, Except.map]
  | ok a => simp [Functor.map, Except.map, eq_comm]

theorem map_error_iff {α β ε} (f : α → β) (r : Except ε α) (e : ε) :
    f <$> r = .error e ↔ r = .error e := by
  cases r with
  | error e => simp [Functor.map, Except.map]
  | ok a => simp [Functor.map, Except.map]

theorem tokenizeDbrAux_ok_iff (cls : CharCls) (s : List Nat) (i : Nat) (toks : List Token) :
    tokenizeDbrAux cls i s = .ok toks ↔ (∀ c ∈ s, Gr.ValidChar cls c) ∧ toks = Gr.tokensOf cls s := by
  induction s generalizing i toks with
  | nil => simp [tokenizeDbrAux, Gr.tokensOf, eq_comm]
  | cons c cs ih =>
    rw [tokenizeDbrAux_cons]
    cases h : Gr.tokenOf cls c with
    | some tk =>
      simp only [map_ok_iff, ih, List.forall_mem_cons, Gr.ValidChar, h, Gr.tokensOf,
        List.filterMap_cons]
      constructor
      · rintro ⟨a, ⟨h1, h2⟩, h3⟩; subst h2 h3; exact ⟨⟨Or.inl rfl, h1⟩, rfl⟩
      · rintro ⟨⟨_, h1⟩, h2⟩; exact ⟨_, ⟨h1, rfl⟩, h2⟩
    | none =>
      by_cases hw : cls.isWs c = true
      · simp [hw, ih, Gr.ValidChar, Gr.tokensOf, h]
      · simp [hw, Gr.ValidChar, h]

theorem tokenizeDbrAux_invalid (cls : CharCls) (pre post : List Nat) (c i : Nat)
    (hpre : ∀ c' ∈ pre, Gr.ValidChar cls c') (hc : ¬ Gr.ValidChar cls c) :
    tokenizeDbrAux cls i (pre ++ c :: post) = .error (.InvalidCharacter (i + pre.length) c) := by
  induction pre generalizing i with
  | nil =>
    simp only [Gr.ValidChar, not_or, Bool.not_eq_true, Option.isSome_eq_false_iff, Option.isNone_iff_eq_none] at hc
    simp [tokenizeDbrAux_cons, hc.1, hc.2]
  | cons d ds ih =>
    have hd := hpre d (by simp)
    have ih' := ih (i + 1) (fun c' h => hpre c' (by simp [h]))
    rw [List.cons_append, tokenizeDbrAux_cons, ih']
    have e : i + 1 + ds.length = i + (d :: ds).length := by simp; omega
    rw [e]
    cases h : Gr.tokenOf cls d with
    | some tk => simp [map_error_iff]
    | none =>
      have : cls.isWs d = true := by simpa [Gr.ValidChar, h] using hd
      simp [this]


theorem tokenizeDbrAux_error (cls : CharCls) (s : List Nat) (i : Nat) (e : ParseError)
    (h : tokenizeDbrAux cls i s = .error e) :
    ∃ pre c post, s = pre ++ c :: post ∧ (∀ c' ∈ pre, Gr.ValidChar cls c') ∧ ¬ Gr.ValidChar cls c ∧
      e = .InvalidCharacter (i + pre.length) c := by
  induction s generalizing i with
  | nil => simp [tokenizeDbrAux] at h
  | cons d ds ih =>
    by_cases hd : Gr.ValidChar cls d
    · have : tokenizeDbrAux cls (i + 1) ds = .error e := by
        rw [tokenizeDbrAux_cons] at h
        cases ht : Gr.tokenOf cls d with
        | some tk => simpa [ht, map_error_iff] using h
        | none =>
          have : cls.isWs d = true := by simpa [Gr.ValidChar, ht] using hd
          simpa [ht, this] using h
      obtain ⟨pre, c, post, rfl, h1, h2, h3⟩ := ih _ this
      refine ⟨d :: pre, c, post, rfl, ?_, h2, ?_⟩
      · intro c' hc'
        rcases List.mem_cons.1 hc' with rfl | hc'
        · exact hd
        · exact h1 _ hc'
      · rw [h3]; simp; omega
    · refine ⟨[], d, ds, rfl, by simp, hd, ?_⟩
      have := tokenizeDbrAux_invalid cls [] ds d i (by simp) hd
      simp only [List.nil_append] at this
      rw [this] at h
      simpa [eq_comm] using h

mutual
/-- the tokens an `Expression` was read from -/
def flat : Expression → List Token
  | .Abstraction => [.Lambda]
  | .Variable i => [.Number i]
  | .Sequence es => .Lparen :: (flatL es ++ [.Rparen])
def flatL : List Expression → List Token
  | [] => []
  | e :: es => flat e ++ flatL es
end

theorem flatL_append (es fs : List Expression) : flatL (es ++ fs) = flatL es ++ flatL fs := by
  induction es with
  | nil => simp [flatL]
  | cons e es ih => simp [flatL, ih]

mutual
theorem astLoop_flat (e : Expression) (rest : List Token) (cur : List Expression) (st : List (List Expression)) :
    astLoop (flat e ++ rest) cur st = astLoop rest (e :: cur) st := by
  cases e with
  | Abstraction => simp [flat, astLoop]
  | Variable i => simp [flat, astLoop]
  | Sequence es =>
    simp only [flat, List.cons_append, List.append_assoc, astLoop]
    rw [astLoop_flatL es]
    simp [astLoop]
theorem astLoop_flatL (es : List Expression) (rest : List Token) (cur : List Expression) (st : List (List Expression)) :
    astLoop (flatL es ++ rest) cur st = astLoop rest (es.reverse ++ cur) st := by
  cases es with
  | nil => simp [flatL]
  | cons e es =>
    simp only [flatL, List.append_assoc]
    rw [astLoop_flat e, astLoop_flatL es]
    simp
end


/-- the tokens consumed so far by `astLoop`, reconstructed from its state -/
def consumed : List Expression → List (List Expression) → List Token
  | cur, [] => flatL cur.reverse
  | cur, parent :: st => consumed parent st ++ .Lparen :: flatL cur.reverse

theorem consumed_cons (x : Expression) (cur : List Expression) (st : List (List Expression)) :
    consumed (x :: cur) st = consumed cur st ++ flat x := by
  cases st <;> simp [consumed, flatL_append, flatL]

theorem astLoop_sound (ts : List Token) (cur : List Expression) (st : List (List Expression))
    (e : Expression) (h : astLoop ts cur st = .ok e) :
    ∃ es, e = .Sequence es ∧ flatL es = consumed cur st ++ ts := by
  induction ts generalizing cur st with
  | nil =>
    cases st with
    | nil => simp [astLoop] at h; exact ⟨_, h.symm, by simp [consumed]⟩
    | cons p st => simp [astLoop] at h
  | cons tk ts ih =>
    cases tk with
    | Lambda =>
      rw [astLoop] at h
      obtain ⟨es, h1, h2⟩ := ih _ _ h
      exact ⟨es, h1, by rw [h2, consumed_cons]; simp [flat]⟩
    | Number i =>
      rw [astLoop] at h
      obtain ⟨es, h1, h2⟩ := ih _ _ h
      exact ⟨es, h1, by rw [h2, consumed_cons]; simp [flat]⟩
    | Lparen =>
      rw [astLoop] at h
      obtain ⟨es, h1, h2⟩ := ih _ _ h
      exact ⟨es, h1, by rw [h2]; simp [consumed, flatL]⟩
    | Rparen =>
      cases st with
      | nil => simp [astLoop] at h
      | cons p st =>
        rw [astLoop] at h
        obtain ⟨es, h1, h2⟩ := ih _ _ h
        exact ⟨es, h1, by rw [h2, consumed_cons]; simp [consumed, flat]⟩

theorem astLoop_iff (ts : List Token) (e : Expression) :
    astLoop ts [] [] = .ok e ↔ ∃ es, e = .Sequence es ∧ flatL es = ts := by
  constructor
  · intro h
    simpa [consumed, flatL] using astLoop_sound ts [] [] e h
  · rintro ⟨es, rfl, rfl⟩
    have := astLoop_flatL es [] [] []
    simpa [astLoop] using this

theorem flatL_injective {es fs : List Expression} (h : flatL es = flatL fs) : es = fs := by
  have h1 := (astLoop_iff (flatL es) (.Sequence es)).2 ⟨es, rfl, rfl⟩
  have h2 := (astLoop_iff (flatL es) (.Sequence fs)).2 ⟨fs, rfl, h.symm⟩
  rw [h1] at h2
  simpa using h2


theorem foldList_abs_ok (rest : List Expression) (l : List Term) :
    foldList (.Abstraction :: rest) = .ok l ↔
      ∃ ts b, foldList rest = .ok ts ∧ foldTerms ts = .ok b ∧ l = [abs b] := by
  rw [foldList]
  cases h1 : foldList rest with
  | error e => simp
  | ok ts =>
    cases h2 : foldTerms ts with
    | error e => simp [h2]
    | ok b => simp [h2, eq_comm]

theorem foldList_var_ok (i : Nat) (rest : List Expression) (l : List Term) :
    foldList (.Variable i :: rest) = .ok l ↔ ∃ ts, foldList rest = .ok ts ∧ l = var i :: ts := by
  rw [foldList]
  cases h1 : foldList rest with
  | error e => simp
  | ok ts => simp [eq_comm]

theorem foldList_seq_ok (es rest : List Expression) (l : List Term) :
    foldList (.Sequence es :: rest) = .ok l ↔
      ∃ us t ts, foldList es = .ok us ∧ foldTerms us = .ok t ∧ foldList rest = .ok ts ∧ l = t :: ts := by
  rw [foldList]
  cases h1 : foldList es with
  | error e => simp
  | ok us =>
    cases h2 : foldTerms us with
    | error e => simp [h2]
    | ok t =>
      cases h3 : foldList rest with
      | error e => simp [h2]
      | ok ts => simp [h2, eq_comm]

theorem foldTerms_ok (l : List Term) (t : Term) :
    foldTerms l = .ok t ↔ ∃ h tl, l = h :: tl ∧ t = tl.foldl app h := by
  cases l with
  | nil => simp [foldTerms]
  | cons h tl =>
    simp only [foldTerms, Except.ok.injEq, List.cons.injEq]
    constructor
    · rintro rfl; exact ⟨_, _, ⟨rfl, rfl⟩, rfl⟩
    · rintro ⟨_, _, ⟨rfl, rfl⟩, rfl⟩; rfl

theorem sound_step {as : List Token} {a : Term} (ha : Gr.DAtom as a) {rs : List Token}
    {l' : List Term} (ih : ∀ pre f, Gr.DAtoms pre f → Gr.DExpr (pre ++ rs) (l'.foldl app f)) :
    (∀ pre f, Gr.DAtoms pre f → Gr.DExpr (pre ++ (as ++ rs)) ((a :: l').foldl app f)) ∧
    (∀ t, foldTerms (a :: l') = .ok t → Gr.DExpr (as ++ rs) t) := by
  constructor
  · intro pre f hf
    rw [← List.append_assoc]
    exact ih _ _ (.snoc hf ha)
  · intro t ht
    simp only [foldTerms, Except.ok.injEq] at ht
    subst ht
    exact ih _ _ (.one ha)

/-- soundness of the folding stage w.r.t. the grammar, for a group continuing a spine `pre`
(first part) and for a whole group (second part) -/
theorem foldList_sound (es : List Expression) :
    ∀ l, foldList es = .ok l →
      (∀ pre f, Gr.DAtoms pre f → Gr.DExpr (pre ++ flatL es) (l.foldl app f)) ∧
      (∀ t, foldTerms l = .ok t → Gr.DExpr (flatL es) t) := by
  fun_induction foldList es
  case case1 =>
    intro l h
    simp only [Except.ok.injEq] at h
    subst h
    exact ⟨fun pre f hf => by simpa [flatL] using Gr.DExpr.atoms hf, fun t ht => by simp [foldTerms] at ht⟩
  case case2 rest ts hts b hb ih =>
    intro l h
    simp only [Except.ok.injEq] at h
    subst h
    have hb' := (ih ts hts).2 b hb
    refine ⟨fun pre f hf => ?_, fun t ht => ?_⟩
    · simpa [flatL, flat] using Gr.DExpr.tailLam hf hb'
    · simp only [foldTerms, List.foldl_nil, Except.ok.injEq] at ht
      subst ht
      simpa [flatL, flat] using Gr.DExpr.lam hb'
  case case5 i rest ts hts ih =>
    intro l h
    simp only [Except.ok.injEq] at h
    subst h
    simpa [flatL, flat] using sound_step (Gr.DAtom.idx i) (ih ts hts).1
  case case7 es rest us hus b hb ts hts ih2 ih1 =>
    intro l h
    simp only [Except.ok.injEq] at h
    subst h
    have := sound_step (Gr.DAtom.paren ((ih2 us hus).2 b hb)) (ih1 ts hts).1
    simpa [flatL, flat] using this
  all_goals (intro l h; simp at h)

/-- completeness of the folding stage: every derivation of the grammar is the flattening of an
`Expression` list which `foldList`/`foldTerms` fold to the denoted term -/
theorem foldList_complete {ts : List Token} {t : Term} (h : Gr.DExpr ts t) :
    ∃ es, flatL es = ts ∧ ∃ l, foldList es = .ok l ∧ foldTerms l = .ok t := by
  refine Gr.DExpr.rec
    (motive_1 := fun ts t _ => ∃ es, flatL es = ts ∧ ∃ l, foldList es = .ok l ∧ foldTerms l = .ok t)
    (motive_2 := fun ts f _ => ∃ es, flatL es = ts ∧ ∃ h l, l.foldl app h = f ∧
      ∀ es2 l2, foldList es2 = .ok l2 → foldList (es ++ es2) = .ok (h :: l ++ l2))
    (motive_3 := fun ts a _ => ∃ e, flat e = ts ∧
      ∀ es2 l2, foldList es2 = .ok l2 → foldList (e :: es2) = .ok (a :: l2))
    ?lam ?atoms ?tailLam ?one ?snoc ?idx ?paren h
  case lam =>
    rintro ts b _ ⟨es, rfl, l, h1, h2⟩
    refine ⟨.Abstraction :: es, by simp [flatL, flat], [abs b], ?_, by simp [foldTerms]⟩
    exact (foldList_abs_ok _ _).2 ⟨l, b, h1, h2, rfl⟩
  case atoms =>
    rintro ts t _ ⟨es, rfl, h, l, rfl, h2⟩
    refine ⟨es, rfl, h :: l, ?_, by simp [foldTerms]⟩
    simpa using h2 [] [] (by simp [foldList])
  case tailLam =>
    rintro ts us f b _ _ ⟨es, rfl, h, l, rfl, h2⟩ ⟨es', rfl, l', h1', h2'⟩
    refine ⟨es ++ .Abstraction :: es', by simp [flatL_append, flatL, flat], h :: l ++ [abs b], ?_, by simp [foldTerms]⟩
    exact h2 _ _ ((foldList_abs_ok _ _).2 ⟨l', b, h1', h2', rfl⟩)
  case one =>
    rintro ts t _ ⟨e, rfl, h2⟩
    exact ⟨[e], by simp [flatL], t, [], rfl, fun es2 l2 h => by simpa using h2 es2 l2 h⟩
  case snoc =>
    rintro ts us f a _ _ ⟨es, rfl, h, l, rfl, h2⟩ ⟨e, rfl, h3⟩
    refine ⟨es ++ [e], by simp [flatL_append, flatL], h, l ++ [a], by simp, fun es2 l2 h4 => ?_⟩
    simpa using h2 _ _ (h3 es2 l2 h4)
  case idx =>
    intro n
    exact ⟨.Variable n, by simp [flat], fun es2 l2 h => (foldList_var_ok _ _ _).2 ⟨l2, h, rfl⟩⟩
  case paren =>
    rintro ts t _ ⟨es, rfl, l, h1, h2⟩
    exact ⟨.Sequence es, by simp [flat], fun es2 l2 h => (foldList_seq_ok _ _ _).2 ⟨l, t, l2, h1, h2, h, rfl⟩⟩

end C09D

/-! ## token level -/

/-- the token-to-term stage of `parse`: `getAst`, then `foldExprs` of the top-level `Sequence` -/
def parseTokens (ts : List Token) : Except ParseError Term :=
  match getAst ts with
  | .error e => .error e
  | .ok (.Sequence es) => foldExprs es
  | .ok _ => .error .InvalidExpression

namespace C09D

theorem foldExprs_ok (es : List Expression) (t : Term) :
    foldExprs es = .ok t ↔ ∃ l, foldList es = .ok l ∧ foldTerms l = .ok t := by
  rw [foldExprs]
  cases foldList es <;> simp

theorem flatL_eq_nil {es : List Expression} (h : flatL es = []) : es = [] :=
  flatL_injective (fs := []) (by simpa [flatL] using h)

/-- `parseTokens` succeeds iff the tokens are the flattening of an `Expression` list that folds -/
theorem parseTokens_ok_iff (ts : List Token) (t : Term) :
    parseTokens ts = .ok t ↔ ∃ es, flatL es = ts ∧ foldExprs es = .ok t := by
  cases ts with
  | nil =>
    constructor
    · intro h; simp [parseTokens, getAst] at h
    · rintro ⟨es, h1, h2⟩
      rw [flatL_eq_nil h1] at h2
      simp [foldExprs, foldList, foldTerms] at h2
  | cons tk ts =>
    have hne : getAst (tk :: ts) = astLoop (tk :: ts) [] [] := by simp [getAst]
    rw [parseTokens, hne]
    cases h : astLoop (tk :: ts) [] [] with
    | error e =>
      constructor
      · intro h'; simp at h'
      · rintro ⟨es, h1, _⟩
        rw [(astLoop_iff _ (.Sequence es)).2 ⟨es, rfl, h1⟩] at h
        simp at h
    | ok e =>
      obtain ⟨es, rfl, h1⟩ := (astLoop_iff _ _).1 h
      constructor
      · intro h'; exact ⟨es, h1, h'⟩
      · rintro ⟨es', h1', h2'⟩
        rw [flatL_injective (h1.trans h1'.symm)]
        exact h2'

end C09D

/-- token level: the model's token-to-term stage accepts exactly the grammar and returns the
denoted term -/
theorem parseTokens_iff (ts : List Token) (t : Term) : parseTokens ts = .ok t ↔ Gr.DExpr ts t := by
  rw [C09D.parseTokens_ok_iff]
  constructor
  · rintro ⟨es, rfl, h⟩
    obtain ⟨l, h1, h2⟩ := (C09D.foldExprs_ok _ _).1 h
    exact (C09D.foldList_sound es l h1).2 t h2
  · intro h
    obtain ⟨es, h1, l, h2, h3⟩ := C09D.foldList_complete h
    exact ⟨es, h1, (C09D.foldExprs_ok _ _).2 ⟨l, h2, h3⟩⟩

/-- ill-formed token lists are rejected (there is no third possibility, in particular no parse of
a proper prefix) -/
theorem parseTokens_err_of_not (ts : List Token) :
    (¬ ∃ t, Gr.DExpr ts t) → ∃ e, parseTokens ts = .error e := by
  intro h
  cases h' : parseTokens ts with
  | error e => exact ⟨e, rfl⟩
  | ok t => exact absurd ⟨t, (parseTokens_iff ts t).1 h'⟩ h

/-- conversely an error means that the token list is not derivable in the grammar -/
theorem parseTokens_err_iff (ts : List Token) :
    (∃ e, parseTokens ts = .error e) ↔ ¬ ∃ t, Gr.DExpr ts t := by
  constructor
  · rintro ⟨e, he⟩ ⟨t, ht⟩
    rw [(parseTokens_iff ts t).2 ht] at he
    simp at he
  · exact parseTokens_err_of_not ts

/-- the grammar is unambiguous: a token list denotes at most one term -/
theorem Spec.Gr.DExpr.unambiguous {ts : List Token} {t t' : Term}
    (h : Gr.DExpr ts t) (h' : Gr.DExpr ts t') : t = t' := by
  have h1 := (parseTokens_iff ts t).2 h
  have h2 := (parseTokens_iff ts t').2 h'
  rw [h1] at h2
  simpa using h2

/-! ## lexer -/

/-- lexer: lexing succeeds iff every character is a token character or white space, and the
tokens are exactly the token characters, in order -/
theorem tokenizeDbr_spec (cls : CharCls) (s : List Nat) (toks : List Token) :
    tokenizeDbr cls s = .ok toks ↔
      (∀ c ∈ s, Gr.ValidChar cls c) ∧ toks = s.filterMap (Gr.tokenOf cls) :=
  C09D.tokenizeDbrAux_ok_iff cls s 0 toks

/-- the first character that cannot start a token is reported, with its character index -/
theorem tokenizeDbr_invalid (cls : CharCls) (s : List Nat) (i : Nat) (c : Nat)
    (pre post : List Nat) (hs : s = pre ++ c :: post) (hi : i = pre.length)
    (hpre : ∀ c' ∈ pre, Gr.ValidChar cls c') (hc : ¬ Gr.ValidChar cls c) :
    tokenizeDbr cls s = .error (.InvalidCharacter i c) := by
  subst hs hi
  simpa [tokenizeDbr] using C09D.tokenizeDbrAux_invalid cls pre post c 0 hpre hc

/-- every lexer error is of that form -/
theorem tokenizeDbr_error (cls : CharCls) (s : List Nat) (e : ParseError)
    (h : tokenizeDbr cls s = .error e) :
    ∃ pre c post, s = pre ++ c :: post ∧ (∀ c' ∈ pre, Gr.ValidChar cls c') ∧
      ¬ Gr.ValidChar cls c ∧ e = .InvalidCharacter pre.length c := by
  simpa [tokenizeDbr] using C09D.tokenizeDbrAux_error cls s 0 e h

/-! ## `parse` -/

theorem parse_dbr_spec (cls : CharCls) (s : List Nat) :
    parse cls s .DeBruijn =
      match tokenizeDbr cls s with
      | .error e => .err e
      | .ok ts =>
        (match parseTokens ts with
         | .ok t => .ok t
         | .error e => .err e) := by
  simp only [parse, parseTokens]
  cases tokenizeDbr cls s with
  | error e => rfl
  | ok ts =>
    simp only [Functor.map, Except.map]
    cases getAst ts with
    | error e => rfl
    | ok e =>
      cases e with
      | Abstraction => rfl
      | Variable i => rfl
      | Sequence es => rfl

theorem parse_dbr_no_panic (cls : CharCls) (s : List Nat) : parse cls s .DeBruijn ≠ .panic := by
  rw [parse_dbr_spec]
  cases tokenizeDbr cls s with
  | error e => simp
  | ok ts => cases hp : parseTokens ts <;> simp [hp]

/-- `parse` succeeds exactly on the well-formed strings and returns the denoted term -/
theorem parse_dbr_ok_iff (cls : CharCls) (s : List Nat) (t : Term) :
    parse cls s .DeBruijn = .ok t ↔ Gr.Denotes cls s t := by
  rw [parse_dbr_spec, Gr.Denotes, Gr.tokensOf]
  cases h : tokenizeDbr cls s with
  | error e =>
    simp only [reduceCtorEq, false_iff, not_and]
    intro hv _
    rw [(tokenizeDbr_spec cls s _).2 ⟨hv, rfl⟩] at h
    simp at h
  | ok ts =>
    obtain ⟨hv, rfl⟩ := (tokenizeDbr_spec cls s ts).1 h
    rw [← parseTokens_iff]
    cases hp : parseTokens (s.filterMap (Gr.tokenOf cls)) with
    | error e => simp [hp]
    | ok t' => simpa [hp] using fun _ => hv

/-- `parse` fails (with an `Err`, never a panic) exactly on the ill-formed strings -/
theorem parse_dbr_err_iff (cls : CharCls) (s : List Nat) :
    (∃ e, parse cls s .DeBruijn = .err e) ↔ ¬ ∃ t, Gr.Denotes cls s t := by
  constructor
  · rintro ⟨e, he⟩ ⟨t, ht⟩
    rw [(parse_dbr_ok_iff cls s t).2 ht] at he
    simp at he
  · intro h
    cases h' : parse cls s .DeBruijn with
    | ok t => exact absurd ⟨t, (parse_dbr_ok_iff cls s t).1 h'⟩ h
    | err e => exact ⟨e, rfl⟩
    | panic => exact absurd h' (parse_dbr_no_panic cls s)

/-- an invalid character is reported by `parse` itself -/
theorem parse_dbr_invalid (cls : CharCls) (pre post : List Nat) (c : Nat)
    (hpre : ∀ c' ∈ pre, Gr.ValidChar cls c') (hc : ¬ Gr.ValidChar cls c) :
    parse cls (pre ++ c :: post) .DeBruijn = .err (.InvalidCharacter pre.length c) := by
  rw [parse_dbr_spec, tokenizeDbr_invalid cls _ _ c pre post rfl rfl hpre hc]

/-! ## invariance: white space, glyph, redundant parentheses -/

/-- a successful lexing, hence the whole parse, depends only on the sequence of token
characters: two strings of valid characters with the same token characters lex alike -/
theorem tokenizeDbr_congr (cls : CharCls) (s s' : List Nat)
    (hs : ∀ c ∈ s, Gr.ValidChar cls c) (hs' : ∀ c ∈ s', Gr.ValidChar cls c)
    (h : Gr.tokensOf cls s = Gr.tokensOf cls s') :
    tokenizeDbr cls s = tokenizeDbr cls s' := by
  rw [(tokenizeDbr_spec cls s _).2 ⟨hs, rfl⟩, (tokenizeDbr_spec cls s' _).2 ⟨hs', rfl⟩]
  exact congrArg _ h

namespace C09D

theorem valid_insert (cls : CharCls) (pre post : List Nat) (w : Nat) (hv : Gr.ValidChar cls w) :
    (∀ c ∈ pre ++ w :: post, Gr.ValidChar cls c) ↔ (∀ c ∈ pre ++ post, Gr.ValidChar cls c) := by
  constructor
  · intro h c hc
    apply h c
    rcases List.mem_append.1 hc with hc | hc
    · exact List.mem_append.2 (.inl hc)
    · exact List.mem_append.2 (.inr (List.mem_cons_of_mem _ hc))
  · intro h c hc
    rcases List.mem_append.1 hc with hc | hc
    · exact h c (List.mem_append.2 (.inl hc))
    · rcases List.mem_cons.1 hc with rfl | hc
      · exact hv
      · exact h c (List.mem_append.2 (.inr hc))

end C09D

/-- invariance: inserting or removing a white-space character `w` anywhere does not change the
result of a successful lexing -/
theorem tokenizeDbr_ws_invariant (cls : CharCls) (pre post : List Nat) (w : Nat)
    (hw : cls.isWs w = true) (hn : Gr.tokenOf cls w = none) (toks : List Token) :
    tokenizeDbr cls (pre ++ w :: post) = .ok toks ↔ tokenizeDbr cls (pre ++ post) = .ok toks := by
  rw [tokenizeDbr_spec, tokenizeDbr_spec, C09D.valid_insert cls pre post w (Or.inr hw)]
  simp [List.filterMap_append, hn]

/-- … and therefore does not change the parsed term -/
theorem parse_dbr_ws_invariant (cls : CharCls) (pre post : List Nat) (w : Nat)
    (hw : cls.isWs w = true) (hn : Gr.tokenOf cls w = none) (t : Term) :
    parse cls (pre ++ w :: post) .DeBruijn = .ok t ↔ parse cls (pre ++ post) .DeBruijn = .ok t := by
  rw [parse_dbr_ok_iff, parse_dbr_ok_iff, Gr.Denotes, Gr.Denotes, Gr.tokensOf, Gr.tokensOf,
    C09D.valid_insert cls pre post w (Or.inr hw)]
  simp [List.filterMap_append, hn]

/-- both glyphs are the token `Lambda` -/
theorem tokenOf_glyph (cls : CharCls) :
    Gr.tokenOf cls 955 = some Token.Lambda ∧ Gr.tokenOf cls 92 = some Token.Lambda := by
  simp [Gr.tokenOf]

namespace C09D

theorem tokenizeDbrAux_char_congr (cls : CharCls) (pre post : List Nat) (c c' i : Nat)
    (h : Gr.tokenOf cls c = Gr.tokenOf cls c') (hsome : (Gr.tokenOf cls c).isSome = true) :
    tokenizeDbrAux cls i (pre ++ c :: post) = tokenizeDbrAux cls i (pre ++ c' :: post) := by
  induction pre generalizing i with
  | nil =>
    obtain ⟨tk, htk⟩ := Option.isSome_iff_exists.1 hsome
    simp only [List.nil_append, tokenizeDbrAux_cons, ← h, htk]
  | cons d ds ih =>
    simp only [List.cons_append, tokenizeDbrAux_cons, ih]

end C09D

/-- the choice of glyph (`λ` or `\`) at any position changes nothing, not even an error -/
theorem tokenizeDbr_glyph_invariant (cls : CharCls) (pre post : List Nat) :
    tokenizeDbr cls (pre ++ 955 :: post) = tokenizeDbr cls (pre ++ 92 :: post) :=
  C09D.tokenizeDbrAux_char_congr cls pre post 955 92 0
    ((tokenOf_glyph cls).1.trans (tokenOf_glyph cls).2.symm) (by simp [(tokenOf_glyph cls).1])

theorem parse_dbr_glyph_invariant (cls : CharCls) (pre post : List Nat) :
    parse cls (pre ++ 955 :: post) .DeBruijn = parse cls (pre ++ 92 :: post) .DeBruijn := by
  rw [parse_dbr_spec, parse_dbr_spec, tokenizeDbr_glyph_invariant]

/-- redundant parentheses around a whole expression -/
theorem Spec.Gr.DExpr.paren_whole {ts : List Token} {t : Term} (h : Gr.DExpr ts t) :
    Gr.DExpr (Token.Lparen :: ts ++ [Token.Rparen]) t :=
  .atoms (.one (.paren h))

/-- redundant parentheses around an atom, in whatever position the atom is used -/
theorem Spec.Gr.DAtom.paren_atom {ts : List Token} {t : Term} (h : Gr.DAtom ts t) :
    Gr.DAtom (Token.Lparen :: ts ++ [Token.Rparen]) t :=
  .paren (.atoms (.one h))

theorem parseTokens_paren_whole {ts : List Token} {t : Term} (h : parseTokens ts = .ok t) :
    parseTokens (Token.Lparen :: ts ++ [Token.Rparen]) = .ok t :=
  (parseTokens_iff _ _).2 ((parseTokens_iff _ _).1 h).paren_whole

namespace C09D

/-! ### redundant parentheses around an atom occurrence, in any context -/

theorem foldList_cons_congr (x : Expression) {l l' : List Expression} (h : foldList l = foldList l') :
    foldList (x :: l) = foldList (x :: l') := by
  cases x <;> simp only [foldList, h]

theorem foldList_seq_congr {es es' l l' : List Expression} (h1 : foldList es = foldList es')
    (h2 : foldList l = foldList l') :
    foldList (.Sequence es :: l) = foldList (.Sequence es' :: l') := by
  simp only [foldList, h1, h2]

theorem foldList_wrap (e : Expression) (he : e ≠ .Abstraction) (l : List Expression) :
    foldList (.Sequence [e] :: l) = foldList (e :: l) := by
  cases e with
  | Abstraction => exact absurd rfl he
  | Variable i => simp [foldList, foldTerms]
  | Sequence es =>
    simp only [foldList]
    cases foldList es with
    | error e => rfl
    | ok us =>
      cases h : foldTerms us with
      | error e => simp only [h]
      | ok t => simp only [h]; simp [foldTerms]

/-- `cur` (reversed) components of two `astLoop` states that fold alike in every continuation -/
def EqP (c c' : List Expression) : Prop :=
  ∀ rest rest', foldList rest = foldList rest' →
    foldList (c.reverse ++ rest) = foldList (c'.reverse ++ rest')

def EqS : List (List Expression) → List (List Expression) → Prop
  | [], [] => True
  | p :: s, p' :: s' => EqP p p' ∧ EqS s s'
  | _, _ => False

theorem EqP.push {c c' : List Expression} (h : EqP c c') {x x' : Expression}
    (hx : ∀ rest rest', foldList rest = foldList rest' → foldList (x :: rest) = foldList (x' :: rest')) :
    EqP (x :: c) (x' :: c') := by
  intro rest rest' hr
  simpa using h _ _ (hx rest rest' hr)

theorem EqP.push_same {c c' : List Expression} (h : EqP c c') (x : Expression) :
    EqP (x :: c) (x :: c') :=
  h.push fun _ _ hr => foldList_cons_congr x hr

theorem EqP.nil : EqP [] [] := fun _ _ h => by simpa using h

theorem EqP.refl (c : List Expression) : EqP c c := by
  induction c with
  | nil => exact EqP.nil
  | cons x c ih => exact ih.push_same x

theorem EqS.refl (s : List (List Expression)) : EqS s s := by
  induction s with
  | nil => trivial
  | cons p s ih => exact ⟨EqP.refl p, ih⟩

/-- the part of `parseTokens` after `astLoop` -/
def finish : Except ParseError Expression → Except ParseError Term
  | .error e => .error e
  | .ok (.Sequence es) => foldExprs es
  | .ok _ => .error .InvalidExpression

theorem astLoop_congr (ts : List Token) {c c' : List Expression} {s s' : List (List Expression)}
    (hc : EqP c c') (hs : EqS s s') :
    finish (astLoop ts c s) = finish (astLoop ts c' s') := by
  induction ts generalizing c c' s s' with
  | nil =>
    cases s with
    | nil =>
      cases s' with
      | nil =>
        have := hc [] [] rfl
        simp only [List.append_nil] at this
        simp [astLoop, finish, foldExprs, this]
      | cons p' s' => exact absurd hs (by simp [EqS])
    | cons p s =>
      cases s' with
      | nil => exact absurd hs (by simp [EqS])
      | cons p' s' => simp [astLoop, finish]
  | cons tk ts ih =>
    cases tk with
    | Lambda => simp only [astLoop]; exact ih (hc.push_same _) hs
    | Number i => simp only [astLoop]; exact ih (hc.push_same _) hs
    | Lparen => simp only [astLoop]; exact ih EqP.nil ⟨hc, hs⟩
    | Rparen =>
      cases s with
      | nil =>
        cases s' with
        | nil => simp [astLoop, finish]
        | cons p' s' => exact absurd hs (by simp [EqS])
      | cons p s =>
        cases s' with
        | nil => exact absurd hs (by simp [EqS])
        | cons p' s' =>
          simp only [astLoop]
          refine ih (hs.1.push fun rest rest' hr => foldList_seq_congr ?_ hr) hs.2
          simpa using hc [] [] rfl

theorem astLoop_wrap (e : Expression) (he : e ≠ .Abstraction) (pre post : List Token)
    (c : List Expression) (s : List (List Expression)) :
    finish (astLoop (pre ++ (Token.Lparen :: flat e ++ [Token.Rparen]) ++ post) c s) =
      finish (astLoop (pre ++ flat e ++ post) c s) := by
  induction pre generalizing c s with
  | nil =>
    have h1 := astLoop_flat (.Sequence [e]) post c s
    simp only [flat, flatL, List.append_nil] at h1
    simp only [List.nil_append, List.cons_append, List.append_assoc] at h1 ⊢
    rw [h1, astLoop_flat]
    exact astLoop_congr post ((EqP.refl c).push fun rest rest' hr =>
      (foldList_wrap e he rest).trans (foldList_cons_congr e hr)) (EqS.refl s)
  | cons tk pre ih =>
    cases tk with
    | Lambda => simp only [List.cons_append, astLoop]; exact ih _ _
    | Number i => simp only [List.cons_append, astLoop]; exact ih _ _
    | Lparen => simp only [List.cons_append, astLoop]; exact ih _ _
    | Rparen =>
      cases s with
      | nil => simp [astLoop]
      | cons p s => simp only [List.cons_append, astLoop]; exact ih _ _

theorem parseTokens_eq_finish (ts : List Token) (h : ts ≠ []) :
    parseTokens ts = finish (astLoop ts [] []) := by
  have : getAst ts = astLoop ts [] [] := by simp [getAst, h]
  rw [parseTokens, this]
  cases astLoop ts [] [] with
  | error e => rfl
  | ok e => cases e <;> rfl

theorem atom_flat {us : List Token} {a : Term} (h : Gr.DAtom us a) :
    ∃ e, e ≠ .Abstraction ∧ flat e = us := by
  cases h with
  | idx n => exact ⟨.Variable n, by simp, by simp [flat]⟩
  | paren h =>
    obtain ⟨es, h1, _⟩ := foldList_complete h
    exact ⟨.Sequence es, by simp, by simp [flat, h1]⟩

end C09D

/-- redundant parentheses around an atom, wherever it occurs: if `us` is an atom (an index or a
parenthesised expression), replacing an occurrence of `us` by `(us)` in ANY token list changes
nothing: the same term, or the same error -/
theorem parseTokens_paren_atom (pre us post : List Token) (a : Term) (hu : Gr.DAtom us a) :
    parseTokens (pre ++ (Token.Lparen :: us ++ [Token.Rparen]) ++ post) =
      parseTokens (pre ++ us ++ post) := by
  obtain ⟨e, he, rfl⟩ := C09D.atom_flat hu
  rw [C09D.parseTokens_eq_finish _ (by simp), C09D.parseTokens_eq_finish _ (by cases e <;> simp [C09D.flat] at he ⊢)]
  exact C09D.astLoop_wrap e he pre post [] []


/-- the same, on the grammar -/
theorem Spec.Gr.DAtom.paren_in_context {us : List Token} {a : Term} (hu : Gr.DAtom us a)
    (pre post : List Token) (t : Term) :
    Gr.DExpr (pre ++ (Token.Lparen :: us ++ [Token.Rparen]) ++ post) t ↔
      Gr.DExpr (pre ++ us ++ post) t := by
  rw [← parseTokens_iff, ← parseTokens_iff, parseTokens_paren_atom pre us post a hu]

/-! ## sanity of the grammar: what "well-formed" implies -/

/-- parenthesis counter: `balAux d ts` — reading `ts` at nesting depth `d` never closes an unopened
parenthesis and ends at depth `0` -/
def C09D.balAux : Nat → List Token → Bool
  | d, [] => d == 0
  | d, .Lparen :: ts => balAux (d + 1) ts
  | 0, .Rparen :: _ => false
  | d + 1, .Rparen :: ts => balAux d ts
  | d, .Lambda :: ts => balAux d ts
  | d, .Number _ :: ts => balAux d ts

/-- well-formed token lists are non-empty and have balanced parentheses -/
theorem Spec.Gr.DExpr.ne_nil_balanced {ts : List Token} {t : Term} (h : Gr.DExpr ts t) :
    ts ≠ [] ∧ ∀ d rest, C09D.balAux d (ts ++ rest) = C09D.balAux d rest := by
  refine Gr.DExpr.rec
    (motive_1 := fun ts _ _ => ts ≠ [] ∧ ∀ d rest, C09D.balAux d (ts ++ rest) = C09D.balAux d rest)
    (motive_2 := fun ts _ _ => ts ≠ [] ∧ ∀ d rest, C09D.balAux d (ts ++ rest) = C09D.balAux d rest)
    (motive_3 := fun ts _ _ => ts ≠ [] ∧ ∀ d rest, C09D.balAux d (ts ++ rest) = C09D.balAux d rest)
    ?lam ?atoms ?tailLam ?one ?snoc ?idx ?paren h
  case lam => rintro ts b _ ⟨_, h⟩; exact ⟨by simp, fun d rest => by simp [C09D.balAux, h]⟩
  case atoms => exact fun _ h => h
  case tailLam =>
    rintro ts us f b _ _ ⟨_, h1⟩ ⟨_, h2⟩
    exact ⟨by simp, fun d rest => by simp [C09D.balAux, h1, h2]⟩
  case one => exact fun _ h => h
  case snoc =>
    rintro ts us f a _ _ ⟨h0, h1⟩ ⟨_, h2⟩
    exact ⟨by simp [h0], fun d rest => by simp [h1, h2]⟩
  case idx => intro n; exact ⟨by simp, fun d rest => by simp [C09D.balAux]⟩
  case paren =>
    rintro ts t _ ⟨_, h⟩
    exact ⟨by simp, fun d rest => by simp [C09D.balAux, h]⟩

theorem Spec.Gr.DExpr.ne_nil {ts : List Token} {t : Term} (h : Gr.DExpr ts t) : ts ≠ [] :=
  h.ne_nil_balanced.1

theorem Spec.Gr.DExpr.balanced {ts : List Token} {t : Term} (h : Gr.DExpr ts t) :
    C09D.balAux 0 ts = true := by
  simpa [C09D.balAux] using h.ne_nil_balanced.2 0 []

namespace C09D

theorem flat_ne_nil (e : Expression) : flat e ≠ [] := by cases e <;> simp [flat]

theorem flatL_lambda {es : List Expression} {ts : List Token} (h : flatL es = Token.Lambda :: ts) :
    ∃ es', es = .Abstraction :: es' ∧ flatL es' = ts := by
  cases es with
  | nil => simp [flatL] at h
  | cons e es =>
    cases e with
    | Abstraction => exact ⟨es, rfl, by simpa [flatL, flat] using h⟩
    | Variable i => simp [flatL, flat] at h
    | Sequence fs => simp [flatL, flat] at h

end C09D

/-- abstraction bodies are maximal: an expression that starts with `λ` is an abstraction whose body
is the WHOLE rest of the token list -/
theorem Spec.Gr.DExpr.lam_inv {ts : List Token} {t : Term} (h : Gr.DExpr (Token.Lambda :: ts) t) :
    ∃ b, t = abs b ∧ Gr.DExpr ts b := by
  obtain ⟨es, h1, l, h2, h3⟩ := C09D.foldList_complete h
  obtain ⟨es', rfl, rfl⟩ := C09D.flatL_lambda h1
  obtain ⟨l', b, h4, h5, rfl⟩ := (C09D.foldList_abs_ok _ _).1 h2
  simp only [foldTerms, List.foldl_nil, Except.ok.injEq] at h3
  exact ⟨b, h3.symm, (C09D.foldList_sound es' l' h4).2 b h5⟩


/-! ## empty groups and empty bodies are rejected wherever they occur -/

namespace C09D

theorem foldList_append_error (l : List Expression) {l2 : List Expression} {e : ParseError}
    (h : foldList l2 = .error e) : ∃ e', foldList (l ++ l2) = .error e' := by
  induction l with
  | nil => exact ⟨e, h⟩
  | cons x l ih =>
    obtain ⟨e', ih⟩ := ih
    cases x with
    | Abstraction => exact ⟨e', by simp [foldList, ih]⟩
    | Variable i => exact ⟨e', by simp [foldList, ih]⟩
    | Sequence es =>
      simp only [List.cons_append, foldList, ih]
      cases foldList es with
      | error e1 => exact ⟨e1, rfl⟩
      | ok us =>
        cases h2 : foldTerms us with
        | error e2 => exact ⟨e2, by simp only [h2]⟩
        | ok t => exact ⟨e', by simp only [h2]⟩

/-- a `cur` component (reversed) that makes every group it ends up in fail -/
def Bad (c : List Expression) : Prop := ∀ rest, ∃ e, foldList (c.reverse ++ rest) = .error e

theorem Bad.push {c : List Expression} (h : Bad c) (x : Expression) : Bad (x :: c) := by
  intro rest; simpa using h (x :: rest)

theorem Bad.of_head {x : Expression} (hx : ∀ rest, ∃ e, foldList (x :: rest) = .error e)
    (c : List Expression) : Bad (x :: c) := by
  intro rest
  obtain ⟨e, he⟩ := hx rest
  simpa using foldList_append_error c.reverse he

theorem seq_error {es : List Expression} (h : ∃ e, foldExprs es = .error e) (rest : List Expression) :
    ∃ e, foldList (.Sequence es :: rest) = .error e := by
  obtain ⟨e, he⟩ := h
  simp only [foldList]
  simp only [foldExprs] at he
  cases h1 : foldList es with
  | error e1 => exact ⟨e1, rfl⟩
  | ok us =>
    simp only [h1] at he
    simp only [he]
    exact ⟨e, rfl⟩

theorem Bad.foldExprs_error {c : List Expression} (h : Bad c) : ∃ e, foldExprs c.reverse = .error e := by
  obtain ⟨e, he⟩ := h []
  simp only [List.append_nil] at he
  exact ⟨e, by simp [foldExprs, he]⟩

theorem astLoop_bad (ts : List Token) (c : List Expression) (s : List (List Expression))
    (h : Bad c ∨ ∃ p ∈ s, Bad p) : ∃ e, finish (astLoop ts c s) = .error e := by
  induction ts generalizing c s with
  | nil =>
    cases s with
    | nil =>
      rcases h with h | ⟨p, hp, _⟩
      · simpa [astLoop, finish] using h.foldExprs_error
      · simp at hp
    | cons p s => exact ⟨.InvalidExpression, by simp [astLoop, finish]⟩
  | cons tk ts ih =>
    cases tk with
    | Lambda => simp only [astLoop]; exact ih _ _ (h.imp_left fun h => h.push _)
    | Number i => simp only [astLoop]; exact ih _ _ (h.imp_left fun h => h.push _)
    | Lparen =>
      simp only [astLoop]
      refine ih _ _ (.inr ?_)
      rcases h with h | ⟨p, hp, hb⟩
      · exact ⟨c, by simp, h⟩
      · exact ⟨p, by simp [hp], hb⟩
    | Rparen =>
      cases s with
      | nil => exact ⟨.InvalidExpression, by simp [astLoop, finish]⟩
      | cons p s =>
        simp only [astLoop]
        rcases h with h | ⟨q, hq, hb⟩
        · exact ih _ _ (.inl (Bad.of_head (seq_error h.foldExprs_error) p))
        · rcases List.mem_cons.1 hq with rfl | hq
          · exact ih _ _ (.inl (hb.push _))
          · exact ih _ _ (.inr ⟨q, hq, hb⟩)

theorem astLoop_prefix_error (suffix : List Token)
    (h : ∀ c s, ∃ e, finish (astLoop suffix c s) = .error e) (pre : List Token)
    (c : List Expression) (s : List (List Expression)) :
    ∃ e, finish (astLoop (pre ++ suffix) c s) = .error e := by
  induction pre generalizing c s with
  | nil => exact h c s
  | cons tk pre ih =>
    cases tk with
    | Lambda => simp only [List.cons_append, astLoop]; exact ih _ _
    | Number i => simp only [List.cons_append, astLoop]; exact ih _ _
    | Lparen => simp only [List.cons_append, astLoop]; exact ih _ _
    | Rparen =>
      cases s with
      | nil => exact ⟨.InvalidExpression, by simp [astLoop, finish]⟩
      | cons p s => simp only [List.cons_append, astLoop]; exact ih _ _

theorem parseTokens_error_of_suffix (suffix : List Token) (hne : suffix ≠ [])
    (h : ∀ c s, ∃ e, finish (astLoop suffix c s) = .error e) (pre : List Token) :
    ∃ e, parseTokens (pre ++ suffix) = .error e := by
  rw [parseTokens_eq_finish _ (by simp [hne])]
  exact astLoop_prefix_error suffix h pre [] []

end C09D

/-- an empty group `()` anywhere makes the parse fail -/
theorem parseTokens_empty_group (pre post : List Token) :
    ∃ e, parseTokens (pre ++ Token.Lparen :: Token.Rparen :: post) = .error e := by
  refine C09D.parseTokens_error_of_suffix _ (by simp) (fun c s => ?_) pre
  simp only [astLoop, List.reverse_nil]
  refine C09D.astLoop_bad _ _ _ (.inl (C09D.Bad.of_head (C09D.seq_error ?_) c))
  exact ⟨.EmptyExpression, by simp [foldExprs, foldList, foldTerms]⟩

/-- an empty abstraction body `λ)` anywhere makes the parse fail -/
theorem parseTokens_empty_body (pre post : List Token) :
    ∃ e, parseTokens (pre ++ Token.Lambda :: Token.Rparen :: post) = .error e := by
  refine C09D.parseTokens_error_of_suffix _ (by simp) (fun c s => ?_) pre
  cases s with
  | nil => exact ⟨.InvalidExpression, by simp [astLoop, C09D.finish]⟩
  | cons p s =>
    simp only [astLoop]
    refine C09D.astLoop_bad _ _ _ (.inl (C09D.Bad.of_head (C09D.seq_error ?_) p))
    obtain ⟨e, he⟩ := C09D.foldList_append_error c.reverse
      (show foldList [.Abstraction] = .error .EmptyExpression by simp [foldList, foldTerms])
    exact ⟨e, by simp [foldExprs, he]⟩

/-- … and so does an empty body at the end of the input -/
theorem parseTokens_empty_body_end (pre : List Token) :
    ∃ e, parseTokens (pre ++ [Token.Lambda]) = .error e := by
  refine C09D.parseTokens_error_of_suffix _ (by simp) (fun c s => ?_) pre
  cases s with
  | cons p s => exact ⟨.InvalidExpression, by simp [astLoop, C09D.finish]⟩
  | nil =>
    obtain ⟨e, he⟩ := C09D.foldList_append_error c.reverse
      (show foldList [.Abstraction] = .error .EmptyExpression by simp [foldList, foldTerms])
    exact ⟨e, by simp [astLoop, C09D.finish, foldExprs, he]⟩

/-- the same facts about the grammar -/
theorem not_DExpr_empty (pre post : List Token) (t : Term) :
    ¬ Gr.DExpr (pre ++ Token.Lparen :: Token.Rparen :: post) t ∧
    ¬ Gr.DExpr (pre ++ Token.Lambda :: Token.Rparen :: post) t ∧
    ¬ Gr.DExpr (pre ++ [Token.Lambda]) t :=
  ⟨fun h => (parseTokens_err_iff _).1 (parseTokens_empty_group pre post) ⟨t, h⟩,
   fun h => (parseTokens_err_iff _).1 (parseTokens_empty_body pre post) ⟨t, h⟩,
   fun h => (parseTokens_err_iff _).1 (parseTokens_empty_body_end pre) ⟨t, h⟩⟩


/-! ## examples (non-vacuity) -/

namespace C09D

/-- evaluation of `parseTokens` on concrete token lists (`foldList` is compiled by well-founded
recursion, so this goes through its equation lemmas) -/
macro "parse_eval" : tactic =>
  `(tactic| simp [parseTokens, getAst, astLoop, foldExprs, foldList, foldTerms])

open Token in
example : parseTokens [Lambda, Lambda, Lambda, Number 3, Number 1, Lparen, Number 2, Number 1, Rparen]
    = .ok (abs (abs (abs (app (app (var 3) (var 1)) (app (var 2) (var 1)))))) := by parse_eval

open Token in
example : Gr.DExpr [Lambda, Lambda, Lambda, Number 3, Number 1, Lparen, Number 2, Number 1, Rparen]
    (abs (abs (abs (app (app (var 3) (var 1)) (app (var 2) (var 1)))))) :=
  (parseTokens_iff _ _).1 (by parse_eval)

open Token Gr in
example : Gr.DExpr [Lambda, Lambda, Lambda, Number 3, Number 1, Lparen, Number 2, Number 1, Rparen]
    (abs (abs (abs (app (app (var 3) (var 1)) (app (var 2) (var 1)))))) :=
  .lam (.lam (.lam (.atoms
    (.snoc (ts := [Number 3, Number 1]) (.snoc (ts := [Number 3]) (.one (.idx 3)) (.idx 1))
      (.paren (ts := [Number 2, Number 1]) (.atoms (.snoc (ts := [Number 2]) (.one (.idx 2)) (.idx 1))))))))

open Token Gr in
example : Gr.DExpr [Number 1, Lambda, Number 2] (app (var 1) (abs (var 2))) :=
  .tailLam (ts := [Number 1]) (.one (.idx 1)) (.atoms (.one (.idx 2)))

open Token in
example : parseTokens [Lparen, Number 1] = .error .InvalidExpression := by parse_eval
open Token in
example : parseTokens [Number 1, Rparen, Number 2] = .error .InvalidExpression := by parse_eval
open Token in
example : ¬ ∃ t, Gr.DExpr [Number 1, Rparen, Number 2] t :=
  (parseTokens_err_iff _).1 ⟨.InvalidExpression, by parse_eval⟩
open Token in
example : parseTokens [] = .error .EmptyExpression ∧ parseTokens [Lambda] = .error .EmptyExpression ∧
    parseTokens [Lparen, Rparen] = .error .EmptyExpression ∧
    parseTokens [Number 1, Lambda] = .error .EmptyExpression := by
  refine ⟨?_, ?_, ?_, ?_⟩ <;> parse_eval


/-- an ASCII classification, for the examples below -/
def asciiCls : CharCls where
  isWs c := c == 32 || c == 9 || c == 10
  isAlpha c := (65 ≤ c && c ≤ 90) || (97 ≤ c && c ≤ 122)
  isAlnum c := (65 ≤ c && c ≤ 90) || (97 ≤ c && c ≤ 122) || (48 ≤ c && c ≤ 57)
  digit16 c :=
    if 48 ≤ c ∧ c ≤ 57 then some (c - 48) else if 97 ≤ c ∧ c ≤ 102 then some (c - 87)
    else if 65 ≤ c ∧ c ≤ 70 then some (c - 55) else none

-- `λλλ31(21)`
example : parse asciiCls [955, 955, 955, 51, 49, 40, 50, 49, 41] .DeBruijn
    = .ok (abs (abs (abs (app (app (var 3) (var 1)) (app (var 2) (var 1)))))) := by
  rw [parse_dbr_spec, show tokenizeDbr asciiCls [955, 955, 955, 51, 49, 40, 50, 49, 41] = .ok _ from rfl]
  parse_eval
-- ` \ \λ (3 1)((2) 1) `: white space, glyphs and redundant parentheses change nothing
example : parse asciiCls [32, 92, 32, 92, 955, 32, 40, 51, 32, 49, 41, 40, 40, 50, 41, 32, 49, 41, 32] .DeBruijn
    = .ok (abs (abs (abs (app (app (var 3) (var 1)) (app (var 2) (var 1)))))) := by
  rw [parse_dbr_spec, show tokenizeDbr asciiCls [32, 92, 32, 92, 955, 32, 40, 51, 32, 49, 41, 40, 40, 50, 41, 32, 49, 41, 32] = .ok _ from rfl]
  parse_eval
-- `1λ2`, `1 2 3`, `1(2 3)`
example : parse asciiCls [49, 955, 50] .DeBruijn = .ok (app (var 1) (abs (var 2))) := by
  rw [parse_dbr_spec, show tokenizeDbr asciiCls [49, 955, 50] = .ok _ from rfl]; parse_eval
example : parse asciiCls [49, 32, 50, 32, 51] .DeBruijn = .ok (app (app (var 1) (var 2)) (var 3)) := by
  rw [parse_dbr_spec, show tokenizeDbr asciiCls [49, 32, 50, 32, 51] = .ok _ from rfl]; parse_eval
example : parse asciiCls [49, 40, 50, 32, 51, 41] .DeBruijn = .ok (app (var 1) (app (var 2) (var 3))) := by
  rw [parse_dbr_spec, show tokenizeDbr asciiCls [49, 40, 50, 32, 51, 41] = .ok _ from rfl]; parse_eval
-- `λ1x2`: `x` (120) is not a token character; it is character number 2
example : parse asciiCls [955, 49, 120, 50] .DeBruijn = .err (.InvalidCharacter 2 120) := rfl
example : parse asciiCls [955, 49, 120, 50] .DeBruijn = .err (.InvalidCharacter 2 120) :=
  parse_dbr_invalid asciiCls [955, 49] [50] 120 (by decide) (by decide)

end C09D

end LC
