/-
C09, Classic half, ALL strings: the lexer `tokenizeCla` against `LC/Spec/ClassicAllSpec.lean`.

* soundness: on a string with an `Offending` position the lexer returns `InvalidCharacter` there
  (`lex_offending`); on a `Lexes` string it returns the tokens (`lex_lexes`);
* completeness: EVERY string either has an offending position or is a `Lexes` string
  (`classify`, a statement about strings only — the lexer is not mentioned);
* `RendersB` + `GlyphFree` = `Renders`;
* token level: which error `parseTokens` returns (`parseTokens_error_eq`).
-/
import LC.Proofs.Syntax.Classic
import LC.Proofs.Syntax.DeBruijn
import LC.Spec.ClassicAllSpec

namespace LC
open Parser Parser.CToken Parser.Token Spec Spec.Cl C09C

namespace C09A

variable {cls : CharCls}

/-! ### `RendersB` and `Renders` -/

theorem bName_of_wfName {n : Name} (hn : WfName cls n) : BName cls n := by
  obtain ⟨⟨c, cs, rfl, hal, _, hrest⟩, hall, _⟩ := hn
  exact ⟨c, cs, rfl, hal, fun d hd => ⟨hrest d hd, hall d (by simp [hd])⟩⟩

/-- under `ClsOk`, when the dot is not alphanumeric: a well-formed name is a binder name without
the glyph `λ` -/
theorem wfName_iff_bName (hcls : ClsOk cls) (hdot : cls.isAlnum cDot = false) (n : Name) :
    WfName cls n ↔ BName cls n ∧ cLambda ∉ n := by
  constructor
  · intro hn
    exact ⟨bName_of_wfName hn, fun h => hn.2.2 _ h rfl⟩
  · rintro ⟨⟨c, cs, rfl, hal, hrest⟩, hl⟩
    refine wfName_of_unicode cls hcls hdot c cs hal ?_ (fun d hd => ⟨(hrest d hd).1, ?_⟩)
    · have h1 : c ≠ cLambda := fun e => hl (by simp [e])
      have h2 : c ≠ cBackslash := (alnum_facts hcls (hcls.2.1 _ hal)).2.2.2
      simp [isLam, h1, h2]
    · rintro rfl; exact hl (by simp [hd])

theorem rendersB_of_renders {cts : List CToken} {s : List Nat} (h : Renders cls cts s) :
    RendersB cls cts s := by
  induction h with
  | nil => exact .nil
  | ws hc _ ih => exact .ws hc ih
  | lparen _ ih => exact .lparen ih
  | rparen _ ih => exact .rparen ih
  | lam hg hn _ ih => exact .lam hg (bName_of_wfName hn) ih
  | name hn hs _ ih => exact .name hn hs ih

theorem glyphFree_of_renders {cts : List CToken} {s : List Nat} (h : Renders cls cts s) :
    GlyphFree cts := by
  induction h with
  | nil => intro n hn; simp at hn
  | ws _ _ ih => exact ih
  | lparen _ ih => intro n hn; exact ih n (by simpa using hn)
  | rparen _ ih => intro n hn; exact ih n (by simpa using hn)
  | @lam g m cts s _ hm _ ih =>
    intro n hn
    rcases List.mem_cons.1 hn with e | hn
    · cases e; exact fun h => hm.2.2 _ h rfl
    · exact ih n hn
  | name _ _ _ ih => intro n hn; exact ih n (by simpa using hn)

theorem renders_of_rendersB (hcls : ClsOk cls) (hdot : cls.isAlnum cDot = false)
    {cts : List CToken} {s : List Nat} (h : RendersB cls cts s) :
    GlyphFree cts → Renders cls cts s := by
  induction h with
  | nil => intro _; exact .nil
  | ws hc _ ih => intro hf; exact .ws hc (ih hf)
  | lparen _ ih => intro hf; exact .lparen (ih fun n hn => hf n (by simp [hn]))
  | rparen _ ih => intro hf; exact .rparen (ih fun n hn => hf n (by simp [hn]))
  | @lam g m cts s hg hm _ ih =>
    intro hf
    exact .lam hg ((wfName_iff_bName hcls hdot m).2 ⟨hm, hf m (by simp)⟩)
      (ih fun n hn => hf n (by simp [hn]))
  | name hn hs _ ih => intro hf; exact .name hn hs (ih fun n hn => hf n (by simp [hn]))

/-- `Renders` = `RendersB` with glyph-free binder names -/
theorem renders_iff (hcls : ClsOk cls) (hdot : cls.isAlnum cDot = false)
    (cts : List CToken) (s : List Nat) :
    Renders cls cts s ↔ RendersB cls cts s ∧ GlyphFree cts :=
  ⟨fun h => ⟨rendersB_of_renders h, glyphFree_of_renders h⟩,
   fun h => renders_of_rendersB hcls hdot h.1 h.2⟩

/-- in a rendering, no variable is named like a binder whose name contains `λ`: such a binder binds
nothing -/
theorem rendersB_name_glyphfree {cts : List CToken} {s : List Nat} (h : RendersB cls cts s) :
    ∀ n, CName n ∈ cts → cLambda ∉ n := by
  induction h with
  | nil => intro n hn; simp at hn
  | ws _ _ ih => exact ih
  | lparen _ ih => intro n hn; exact ih n (by simpa using hn)
  | rparen _ ih => intro n hn; exact ih n (by simpa using hn)
  | lam _ _ _ ih => intro n hn; exact ih n (by simpa using hn)
  | @name m cts s hm _ _ ih =>
    intro n hn
    rcases List.mem_cons.1 hn with e | hn
    · cases e; exact fun h => hm.2.2 _ h rfl
    · exact ih n hn

/-! ### the lexer on `RendersB` prefixes (soundness) -/

/-- a whole binder name (as the lexer reads it) followed by its dot -/
theorem lex_lamB (s : List Nat) {n : List Nat} (hn : BName cls n) (i : Nat) :
    tokenizeClaAux cls (.lam [] true) i (n ++ cDot :: s)
      = (CLambda n :: ·) <$> tokenizeClaAux cls .top (i + n.length + 1) s := by
  obtain ⟨c, cs, rfl, hal, hrest⟩ := hn
  have := lex_lam_rest (cls := cls) s cs [c] (i + 1) hrest
  rw [List.cons_append, lex_lam_first hal, List.nil_append, this]
  simp only [List.cons_append, List.nil_append, List.length_cons]
  congr 2; omega

/-- `NameEnd` only looks at the first character -/
theorem nameEnd_prefix {p q : List Nat} (h : NameEnd cls (p ++ q)) : NameEnd cls p := by
  cases p with
  | nil => trivial
  | cons c p => exact h

theorem endsTop_append_of_ne {x pre : List Nat} (h : EndsTop cls pre) (hne : pre ≠ []) :
    EndsTop cls (x ++ pre) := by
  intro c hc
  apply h c
  cases pre with
  | nil => exact absurd rfl hne
  | cons a pre =>
    rw [List.getLast?_append] at hc
    cases hl : (a :: pre).getLast? with
    | none => simp at hl
    | some d => rw [hl] at hc; simpa using hc

/-- the lexer after a `RendersB` prefix (generalises `lex_prefix'`) -/
theorem lexB_prefix (hcls : ClsOk cls) {ts : List CToken} {pre : List Nat}
    (h : RendersB cls ts pre) :
    ∀ (i : Nat) (rest : List Nat), (EndsTop cls pre ∨ NameEnd cls rest) →
      tokenizeClaAux cls .top i (pre ++ rest)
        = (ts ++ ·) <$> tokenizeClaAux cls .top (i + pre.length) rest := by
  induction h with
  | nil =>
    intro i rest _
    cases h : tokenizeClaAux cls .top i rest <;> simp [h] <;> rfl
  | @ws c cts s hc _ ih =>
    intro i rest he
    rw [List.cons_append, lex_top_ws hcls hc, ih _ _ (he.imp endsTop_of_cons id)]
    simp only [List.length_cons]; congr 2; omega
  | @lparen cts s _ ih =>
    intro i rest he
    rw [List.cons_append, lex_top_lparen, ih _ _ (he.imp endsTop_of_cons id), except_map_map]
    simp only [List.length_cons, List.cons_append]; congr 2; omega
  | @rparen cts s _ ih =>
    intro i rest he
    rw [List.cons_append, lex_top_rparen, ih _ _ (he.imp endsTop_of_cons id), except_map_map]
    simp only [List.length_cons, List.cons_append]; congr 2; omega
  | @lam g n cts s hg hn _ ih =>
    intro i rest he
    have he' : EndsTop cls s ∨ NameEnd cls rest :=
      he.imp (fun h => endsTop_of_cons (endsTop_of_append (a := n) (endsTop_of_cons h))) id
    rw [List.cons_append, List.append_assoc, List.cons_append, lex_top_glyph hg, lex_lamB _ hn,
      ih _ _ he', except_map_map]
    simp only [List.length_cons, List.length_append, List.cons_append]; congr 2; omega
  | @name n cts s hn hs _ ih =>
    intro i rest he
    have hs' : NameEnd cls (s ++ rest) := by
      cases s with
      | nil =>
        rcases he with he | he
        · rw [List.append_nil] at he
          exact absurd he (wfName_not_endsTop hcls hn)
        · exact he
      | cons c s => exact hs
    rw [List.append_assoc, lex_name hcls hn hs', ih _ _ (he.imp endsTop_of_append id),
      except_map_map]
    simp only [List.length_append, List.cons_append]; congr 2; omega

/-- `RendersB` strings compose (generalises `renders_append`) -/
theorem rendersB_append (hcls : ClsOk cls) {ts₁ ts₂ : List CToken} {pre s : List Nat}
    (h₁ : RendersB cls ts₁ pre) (h₂ : RendersB cls ts₂ s) :
    (EndsTop cls pre ∨ NameEnd cls s) → RendersB cls (ts₁ ++ ts₂) (pre ++ s) := by
  induction h₁ with
  | nil => intro _; exact h₂
  | ws hc _ ih => intro he; exact .ws hc (ih (he.imp endsTop_of_cons id))
  | lparen _ ih => intro he; exact .lparen (ih (he.imp endsTop_of_cons id))
  | rparen _ ih => intro he; exact .rparen (ih (he.imp endsTop_of_cons id))
  | @lam g n cts s' hg hn _ ih =>
    intro he
    have he' : EndsTop cls s' ∨ NameEnd cls s :=
      he.imp (fun h => endsTop_of_cons (endsTop_of_append (a := n) (endsTop_of_cons h))) id
    have := RendersB.lam hg hn (ih he')
    rw [List.cons_append, List.cons_append, List.append_assoc, List.cons_append]
    exact this
  | @name n cts s' hn hs _ ih =>
    intro he
    have hs' : NameEnd cls (s' ++ s) := by
      cases s' with
      | nil =>
        rcases he with he | he
        · rw [List.append_nil] at he
          exact absurd he (wfName_not_endsTop hcls hn)
        · exact he
      | cons c s' => exact hs
    have := RendersB.name hn hs' (ih (he.imp endsTop_of_append id))
    rw [List.cons_append, List.append_assoc]
    exact this

/-- the lexer on complete tokens -/
theorem lex_rendersB (hcls : ClsOk cls) {cts : List CToken} {s : List Nat}
    (h : RendersB cls cts s) : tokenizeCla cls s = .ok cts := by
  have := lexB_prefix hcls h 0 [] (.inr trivial)
  rw [List.append_nil] at this
  unfold tokenizeCla
  rw [this, lex_top_nil]
  simp [except_map_ok]

/-- the lexer inside a binder at the end of the input: the unterminated binder is pushed -/
theorem lex_cut_tail {nm : List Nat} (hnm : nm = [] ∨ BName cls nm) (i : Nat) :
    tokenizeClaAux cls (.lam [] true) i nm = .ok [CLambda nm] := by
  rcases hnm with rfl | ⟨c, cs, rfl, hal, hrest⟩
  · simp [tokenizeClaAux]
  · have := lex_lam_acc (cls := cls) [] cs [c] (i + 1) hrest
    rw [List.append_nil] at this
    rw [lex_lam_first hal, List.nil_append, this]
    simp [tokenizeClaAux]

/-- the lexer on an input that ends inside a binder -/
theorem lex_cutBinder (hcls : ClsOk cls) {cts : List CToken} {s : List Nat}
    (h : CutBinder cls cts s) : tokenizeCla cls s = .ok cts := by
  obtain ⟨cts₀, pre, g, nm, rfl, rfl, hpre, hg, hnm⟩ := h
  unfold tokenizeCla
  rw [lexB_prefix hcls hpre 0 _ (.inr (nameEnd_glyph hcls hg nm)), lex_top_glyph hg,
    lex_cut_tail hnm]
  rfl

/-- SOUNDNESS (success): on a `Lexes` string the lexer returns the tokens -/
theorem lex_lexes (hcls : ClsOk cls) {cts : List CToken} {s : List Nat}
    (h : Lexes cls cts s) : tokenizeCla cls s = .ok cts :=
  h.elim (lex_rendersB hcls) (lex_cutBinder hcls)

/-- SOUNDNESS (error): an offending character is reported with its index -/
theorem lex_offending (hcls : ClsOk cls) {pre : List Nat} {c : Nat} (h : Offending cls pre c)
    (post : List Nat) :
    tokenizeCla cls (pre ++ c :: post) = .error (.InvalidCharacter pre.length c) := by
  unfold tokenizeCla
  rcases h with ⟨cts, hpre, hend, hg, hlp, hrp, hws, hal⟩ |
    ⟨cts, pre₀, g, rfl, hpre, hg, hal⟩ | ⟨cts, pre₀, g, nm, rfl, hpre, hg, hnm, hd, han⟩
  · rw [lexB_prefix hcls hpre 0 (c :: post) (hend.imp id Or.inl)]
    simp [tokenizeClaAux, hg, hlp, hrp, hws, hal]
    rfl
  · rw [List.append_assoc, List.cons_append, List.nil_append,
      lexB_prefix hcls hpre 0 _ (.inr (nameEnd_glyph hcls hg _)),
      lex_top_glyph hg, lex_lam_first_bad hal]
    simp only [List.length_append, List.length_cons, List.length_nil, Nat.zero_add]
    rfl
  · obtain ⟨a, as, rfl, hal, hrest⟩ := hnm
    rw [List.append_assoc, List.cons_append, List.cons_append,
      lexB_prefix hcls hpre 0 _ (.inr (nameEnd_glyph hcls hg _)),
      lex_top_glyph hg, lex_lam_first hal, List.nil_append,
      lex_lam_acc _ as [a] _ hrest, lex_lam_next_bad hd han]
    simp only [List.length_append, List.length_cons, Nat.zero_add]
    have e : pre₀.length + 1 + 1 + as.length = pre₀.length + (as.length + 1 + 1) := by omega
    rw [e]; rfl

/-! ### completeness: every string is classified (a statement about strings only) -/

/-- the string has an offending position, or it is a `Lexes` string -/
def Classified (cls : CharCls) (s : List Nat) : Prop :=
  (∃ pre c post, s = pre ++ c :: post ∧ Offending cls pre c) ∨ (∃ cts, Lexes cls cts s)

/-- the maximal run of characters that continue a variable name -/
theorem split_name (s : List Nat) :
    ∃ n' s', s = n' ++ s' ∧ (∀ d ∈ n', cls.isAlnum d = true ∧ d ≠ cLambda) ∧ NameEnd cls s' := by
  induction s with
  | nil => exact ⟨[], [], rfl, by simp, trivial⟩
  | cons c s ih =>
    by_cases h : cls.isAlnum c = true ∧ c ≠ cLambda
    · obtain ⟨n', s', rfl, h1, h2⟩ := ih
      refine ⟨c :: n', s', rfl, ?_, h2⟩
      intro d hd
      rcases List.mem_cons.1 hd with rfl | hd
      · exact h
      · exact h1 d hd
    · refine ⟨[], c :: s, rfl, by simp, ?_⟩
      by_cases ha : cls.isAlnum c = true
      · exact .inr (Classical.byContradiction fun hc => h ⟨ha, hc⟩)
      · exact .inl (by simpa using ha)

/-- the maximal run of characters that continue a binder name, and what follows it: the dot, the
end of the input, or an offending character -/
theorem split_binder (s : List Nat) :
    (∃ n' s', s = n' ++ cDot :: s' ∧ ∀ d ∈ n', cls.isAlnum d = true ∧ d ≠ cDot) ∨
    (∀ d ∈ s, cls.isAlnum d = true ∧ d ≠ cDot) ∨
    (∃ n' c post, s = n' ++ c :: post ∧ (∀ d ∈ n', cls.isAlnum d = true ∧ d ≠ cDot) ∧
      c ≠ cDot ∧ cls.isAlnum c = false) := by
  induction s with
  | nil => exact .inr (.inl (by simp))
  | cons c s ih =>
    by_cases hd : c = cDot
    · subst hd; exact .inl ⟨[], s, rfl, by simp⟩
    · by_cases ha : cls.isAlnum c = true
      · have hc : ∀ n' : List Nat, (∀ d ∈ n', cls.isAlnum d = true ∧ d ≠ cDot) →
            ∀ d ∈ c :: n', cls.isAlnum d = true ∧ d ≠ cDot := by
          intro n' h d hd'
          rcases List.mem_cons.1 hd' with rfl | hd'
          · exact ⟨ha, hd⟩
          · exact h d hd'
        rcases ih with ⟨n', s', rfl, h⟩ | h | ⟨n', x, post, rfl, h, hx, hxa⟩
        · exact .inl ⟨c :: n', s', rfl, hc n' h⟩
        · exact .inr (.inl (hc s h))
        · exact .inr (.inr ⟨c :: n', x, post, rfl, hc n' h, hx, hxa⟩)
      · exact .inr (.inr ⟨[], c, s, rfl, by simp, hd, by simpa using ha⟩)

theorem endsTop_nil : EndsTop cls [] := by intro c hc; simp at hc

theorem endsTop_snoc (x : List Nat) {d : Nat}
    (h : cls.isWs d = true ∨ d = cLparen ∨ d = cRparen ∨ d = cDot) : EndsTop cls (x ++ [d]) := by
  intro c hc
  simp only [List.getLast?_append, List.getLast?_singleton, Option.some_or,
    Option.some.injEq] at hc
  subst hc; exact h

/-- a rendering of complete tokens in front of a classified string -/
theorem classified_append (hcls : ClsOk cls) {cts₁ : List CToken} {x s : List Nat}
    (hx : RendersB cls cts₁ x) (he : EndsTop cls x ∨ NameEnd cls s) (h : Classified cls s) :
    Classified cls (x ++ s) := by
  rcases h with ⟨pre, c, post, rfl, hoff⟩ | ⟨cts, hr | ⟨cts₀, pre, g, nm, rfl, rfl, hpre, hg, hnm⟩⟩
  · refine .inl ⟨x ++ pre, c, post, by simp, ?_⟩
    rcases hoff with ⟨cts, hpre, hend, hg, hrest⟩ |
      ⟨cts, pre₀, g, rfl, hpre, hg, hal⟩ | ⟨cts, pre₀, g, nm, rfl, hpre, hg, hnm, hd, han⟩
    · refine .inl ⟨cts₁ ++ cts, rendersB_append hcls hx hpre (he.imp id nameEnd_prefix), ?_, hg,
        hrest⟩
      cases pre with
      | nil =>
        rw [List.append_nil]
        rcases he with he | he | he
        · exact .inl he
        · exact .inr he
        · subst he; exact absurd hg (by decide)
      | cons a pre =>
        exact hend.imp (fun h => endsTop_append_of_ne h (by simp)) id
    · refine .inr (.inl ⟨cts₁ ++ cts, x ++ pre₀, g, by simp, ?_, hg, hal⟩)
      refine rendersB_append hcls hx hpre (he.imp id fun h => ?_)
      rw [List.append_assoc] at h
      exact nameEnd_prefix h
    · refine .inr (.inr ⟨cts₁ ++ cts, x ++ pre₀, g, nm, by simp, ?_, hg, hnm, hd, han⟩)
      refine rendersB_append hcls hx hpre (he.imp id fun h => ?_)
      rw [List.append_assoc] at h
      exact nameEnd_prefix h
  · exact .inr ⟨cts₁ ++ cts, .inl (rendersB_append hcls hx hr he)⟩
  · exact .inr ⟨cts₁ ++ (cts₀ ++ [CLambda nm]), .inr ⟨cts₁ ++ cts₀, x ++ pre, g, nm, by simp,
      by simp, rendersB_append hcls hx hpre (he.imp id nameEnd_prefix), hg, hnm⟩⟩

/-- COMPLETENESS: every string has an offending position or is a `Lexes` string.  (The proof
follows the characters of the string; the lexer is not mentioned.) -/
theorem classify (hcls : ClsOk cls) (hdot : cls.isAlnum cDot = false) :
    ∀ s : List Nat, Classified cls s
  | [] => .inr ⟨[], .inl .nil⟩
  | c :: s => by
    by_cases hg : isLam c = true
    · -- a binder
      cases s with
      | nil => exact .inr ⟨[CLambda []], .inr ⟨[], [], c, [], rfl, rfl, .nil, hg, .inl rfl⟩⟩
      | cons a s =>
        by_cases hal : cls.isAlpha a = true
        · rcases split_binder (cls := cls) s with
            ⟨n', s', hs, hn'⟩ | hall | ⟨n', x, post, rfl, hn', hx, hxa⟩
          · have hlt : s'.length < s.length := by
              rw [hs]; simp only [List.length_append, List.length_cons]; omega
            have ih := classify hcls hdot s'
            subst hs
            have hr : RendersB cls [CLambda (a :: n')] (c :: ((a :: n') ++ cDot :: [])) :=
              .lam hg ⟨a, n', rfl, hal, hn'⟩ .nil
            have := classified_append hcls hr
              (.inl (endsTop_snoc (c :: (a :: n')) (.inr (.inr (.inr rfl))))) ih
            simpa using this
          · exact .inr ⟨[CLambda (a :: s)], .inr ⟨[], [], c, a :: s, rfl, rfl, .nil, hg,
              .inr ⟨a, s, rfl, hal, hall⟩⟩⟩
          · exact .inl ⟨c :: a :: n', x, post, by simp,
              .inr (.inr ⟨[], [], c, a :: n', rfl, .nil, hg, ⟨a, n', rfl, hal, hn'⟩, hx, hxa⟩)⟩
        · exact .inl ⟨[c], a, s, rfl, .inr (.inl ⟨[], [], c, rfl, .nil, hg, by simpa using hal⟩)⟩
    · have hg' : isLam c = false := by simpa using hg
      by_cases hlp : c = cLparen
      · subst hlp
        have := classified_append hcls (.lparen .nil)
          (.inl (endsTop_snoc [] (.inr (.inl rfl)))) (classify hcls hdot s)
        simpa using this
      · by_cases hrp : c = cRparen
        · subst hrp
          have := classified_append hcls (.rparen .nil)
            (.inl (endsTop_snoc [] (.inr (.inr (.inl rfl))))) (classify hcls hdot s)
          simpa using this
        · by_cases hws : cls.isWs c = true
          · have := classified_append hcls (.ws hws .nil)
              (.inl (endsTop_snoc [] (.inl hws))) (classify hcls hdot s)
            simpa using this
          · by_cases hal : cls.isAlpha c = true
            · obtain ⟨n', s', hs, hn', hend⟩ := split_name (cls := cls) s
              have hlt : s'.length ≤ s.length := by
                rw [hs]; simp only [List.length_append]; omega
              have ih := classify hcls hdot s'
              subst hs
              have hwf : WfName cls (c :: n') := wfName_of_unicode cls hcls hdot c n' hal hg' hn'
              have hr : RendersB cls [CName (c :: n')] ((c :: n') ++ []) := .name hwf trivial .nil
              rw [List.append_nil] at hr
              have := classified_append hcls hr (.inr hend) ih
              simpa using this
            · exact .inl ⟨[], c, s, rfl, .inl ⟨[], .nil, .inl endsTop_nil, hg', hlp, hrp,
                by simpa using hws, by simpa using hal⟩⟩
termination_by s => s.length
decreasing_by all_goals (simp only [List.length_cons]; omega)

/-! ### the lexer on all strings -/

/-- LEXER, ALL STRINGS: the lexer reports the offending character with its index, or returns the
tokens of a `Lexes` string -/
theorem lex_total (hcls : ClsOk cls) (hdot : cls.isAlnum cDot = false) (s : List Nat) :
    (∃ pre c post, s = pre ++ c :: post ∧ Offending cls pre c ∧
      tokenizeCla cls s = .error (.InvalidCharacter pre.length c)) ∨
    (∃ cts, Lexes cls cts s ∧ tokenizeCla cls s = .ok cts) := by
  rcases classify hcls hdot s with ⟨pre, c, post, rfl, h⟩ | ⟨cts, h⟩
  · exact .inl ⟨pre, c, post, rfl, h, lex_offending hcls h post⟩
  · exact .inr ⟨cts, h, lex_lexes hcls h⟩

theorem lex_ok_iff (hcls : ClsOk cls) (hdot : cls.isAlnum cDot = false) (s : List Nat)
    (cts : List CToken) : tokenizeCla cls s = .ok cts ↔ Lexes cls cts s := by
  refine ⟨fun h => ?_, lex_lexes hcls⟩
  rcases lex_total hcls hdot s with ⟨_, _, _, _, _, h'⟩ | ⟨cts', hl, h'⟩
  · rw [h] at h'; cases h'
  · rw [h] at h'; cases h'; exact hl

theorem lex_error_iff (hcls : ClsOk cls) (hdot : cls.isAlnum cDot = false) (s : List Nat)
    (e : ParseError) :
    tokenizeCla cls s = .error e ↔
      ∃ pre c post, s = pre ++ c :: post ∧ Offending cls pre c ∧
        e = .InvalidCharacter pre.length c := by
  constructor
  · intro h
    rcases lex_total hcls hdot s with ⟨pre, c, post, hs, ho, h'⟩ | ⟨cts', _, h'⟩
    · rw [h] at h'; cases h'; exact ⟨pre, c, post, hs, ho, rfl⟩
    · rw [h] at h'; cases h'
  · rintro ⟨pre, c, post, rfl, ho, rfl⟩
    exact lex_offending hcls ho post

/-- the parentheses are not letters -/
theorem lparen_not_alpha (hcls : ClsOk cls) : cls.isAlpha cLparen = false := by
  cases h : cls.isAlpha cLparen with
  | false => rfl
  | true => have := hcls.2.1 _ h; rw [lparen_not_alnum hcls] at this; cases this

/-- a string is not both a rendering of complete tokens and cut off inside a binder (append `(`:
fine after complete tokens, an error inside a binder) -/
theorem rendersB_not_cut (hcls : ClsOk cls) {cts cts' : List CToken} {s : List Nat}
    (h : RendersB cls cts s) (h' : CutBinder cls cts' s) : False := by
  have h1 : tokenizeCla cls (s ++ [cLparen]) = .ok (cts ++ [CLparen]) :=
    lex_rendersB hcls (rendersB_append hcls h (.lparen .nil) (.inr (.inl (lparen_not_alnum hcls))))
  obtain ⟨cts₀, pre, g, nm, rfl, rfl, hpre, hg, hnm⟩ := h'
  have hoff : Offending cls (pre ++ g :: nm) cLparen := by
    rcases hnm with rfl | hnm
    · exact .inr (.inl ⟨cts₀, pre, g, rfl, hpre, hg, lparen_not_alpha hcls⟩)
    · exact .inr (.inr ⟨cts₀, pre, g, nm, rfl, hpre, hg, hnm, by decide, lparen_not_alnum hcls⟩)
  have h2 := lex_offending hcls hoff []
  rw [h1] at h2; cases h2

/-! ### token level: which error -/

theorem astLoop_bal (ts : List Token) :
    ∀ (cur : List Expression) (st : List (List Expression)),
      (∀ e, astLoop ts cur st = .error e →
        e = .InvalidExpression ∧ C09D.balAux st.length ts = false) ∧
      (∀ x, astLoop ts cur st = .ok x → C09D.balAux st.length ts = true) := by
  induction ts with
  | nil =>
    intro cur st
    cases st with
    | nil => simp [astLoop, C09D.balAux]
    | cons p st => simp [astLoop, C09D.balAux]
  | cons tk ts ih =>
    intro cur st
    cases tk with
    | Lambda => simpa [astLoop, C09D.balAux] using ih (.Abstraction :: cur) st
    | Number i => simpa [astLoop, C09D.balAux] using ih (.Variable i :: cur) st
    | Lparen => simpa [astLoop, C09D.balAux] using ih [] (cur :: st)
    | Rparen =>
      cases st with
      | nil => simp [astLoop, C09D.balAux]
      | cons p st => simpa [astLoop, C09D.balAux] using ih (.Sequence cur.reverse :: p) st

theorem foldTerms_error {l : List Term} {e : ParseError} (h : foldTerms l = .error e) :
    e = .EmptyExpression := by
  cases l with
  | nil => simpa [foldTerms, eq_comm] using h
  | cons t ts => simp [foldTerms] at h

theorem foldList_error (es : List Expression) :
    ∀ e, foldList es = .error e → e = .EmptyExpression := by
  fun_induction foldList es <;> intro e h <;> simp_all
  all_goals exact foldTerms_error ‹_›

theorem foldExprs_error {es : List Expression} {e : ParseError} (h : foldExprs es = .error e) :
    e = .EmptyExpression := by
  unfold foldExprs at h
  cases h1 : foldList es with
  | error e' => rw [h1] at h; cases h; exact foldList_error es _ h1
  | ok l => rw [h1] at h; exact foldTerms_error h

/-- TOKEN LEVEL, which error: `InvalidExpression` iff the parentheses are unbalanced, otherwise
`EmptyExpression` (an empty input, group or abstraction body); never `InvalidCharacter` -/
theorem parseTokens_error_eq {ts : List Token} {e : ParseError} (h : parseTokens ts = .error e) :
    e = if C09D.balAux 0 ts = true then .EmptyExpression else .InvalidExpression := by
  cases ts with
  | nil =>
    simp only [parseTokens, getAst, List.isEmpty_nil, if_true] at h
    cases h; simp [C09D.balAux]
  | cons tk ts =>
    have hne : getAst (tk :: ts) = astLoop (tk :: ts) [] [] := by simp [getAst]
    rw [parseTokens, hne] at h
    have hb := astLoop_bal (tk :: ts) [] []
    cases h1 : astLoop (tk :: ts) [] [] with
    | error e' =>
      rw [h1] at h; cases h
      obtain ⟨rfl, hb'⟩ := hb.1 _ h1
      simp only [List.length_nil] at hb'
      simp [hb']
    | ok x =>
      have hb' := hb.2 _ h1
      simp only [List.length_nil] at hb'
      obtain ⟨es, rfl, _⟩ := (C09D.astLoop_iff _ _).1 h1
      rw [h1] at h
      simp only [hb', if_true]
      exact foldExprs_error h

theorem parseTokens_invalidExpression_iff (ts : List Token) :
    parseTokens ts = .error .InvalidExpression ↔ C09D.balAux 0 ts = false := by
  constructor
  · intro h
    have := parseTokens_error_eq h
    cases hb : C09D.balAux 0 ts with
    | false => rfl
    | true => simp [hb] at this
  · intro hb
    cases h : parseTokens ts with
    | ok t =>
      have := ((parseTokens_iff ts t).1 h).balanced
      rw [hb] at this; cases this
    | error e =>
      have := parseTokens_error_eq h
      simp only [hb, Bool.false_eq_true, if_false] at this
      rw [this]

theorem parseTokens_emptyExpression_iff (ts : List Token) :
    parseTokens ts = .error .EmptyExpression ↔
      C09D.balAux 0 ts = true ∧ ¬ ∃ t, Gr.DExpr ts t := by
  constructor
  · intro h
    have := parseTokens_error_eq h
    refine ⟨?_, (parseTokens_err_iff ts).1 ⟨_, h⟩⟩
    cases hb : C09D.balAux 0 ts with
    | true => rfl
    | false => simp [hb] at this
  · rintro ⟨hb, hn⟩
    obtain ⟨e, he⟩ := (parseTokens_err_iff ts).2 hn
    have := parseTokens_error_eq he
    simp only [hb, if_true] at this
    rw [he, this]

end C09A
end LC
