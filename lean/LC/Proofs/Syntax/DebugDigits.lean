/-
Helpers for `LC/Props/C11Sharp.lean`: what the De Bruijn lexer / parser does with the Debug output of a term whose
indices are NOT all in 1..=15.

* `hexDigits n`: the hexadecimal digits (values) of `n`, most significant first; `hexUpper n` is their rendering.
* `readBack t`: the term that the Debug output of `t` denotes for the De Bruijn parser (one token per character):
  every index is read as the string of its digits, each digit an index of its own (`0` = `UD`), and the string is
  spliced into the enclosing application spine.
* lexing of the Debug output of a `UD`-free term, for all indices (`lex_showH`);
* the Debug output of a term with `UD` up to and including the first `u` (`show_split`), and the lexer on it
  (`lex_bad`).
-/
import LC.Props.C11
import LC.Spec.FreeVars

namespace LC
open Term Parser Display
open Spec (hasUD)

namespace C11S

/-! ## 1. hexadecimal digits -/

/-- the loop of `hexLoop` on digit values -/
def hexDigitsLoop (n : Nat) (acc : List Nat) : List Nat :=
  if _h : n = 0 then acc else hexDigitsLoop (n / 16) (n % 16 :: acc)
termination_by n
decreasing_by omega

/-- the hexadecimal digits of `n`, most significant first (`0` has the single digit `0`) -/
def hexDigits (n : Nat) : List Nat := if n = 0 then [0] else hexDigitsLoop n []

/-- value of a string of hexadecimal digits, most significant first -/
def hexValue (ds : List Nat) : Nat := ds.foldl (fun acc d => 16 * acc + d) 0

theorem hexDigitsLoop_zero (acc : List Nat) : hexDigitsLoop 0 acc = acc := by
  rw [hexDigitsLoop]; simp

theorem hexDigitsLoop_pos (n : Nat) (h : n ≠ 0) (acc : List Nat) :
    hexDigitsLoop n acc = hexDigitsLoop (n / 16) (n % 16 :: acc) := by
  rw [hexDigitsLoop, dif_neg h]

theorem hexDigitsLoop_acc (n : Nat) : ∀ acc, hexDigitsLoop n acc = hexDigitsLoop n [] ++ acc := by
  induction n using Nat.strongRecOn with
  | _ n ih =>
    intro acc
    by_cases h : n = 0
    · subst h; simp [hexDigitsLoop_zero]
    · have hlt : n / 16 < n := by omega
      rw [hexDigitsLoop_pos n h, hexDigitsLoop_pos n h, ih _ hlt, ih _ hlt [n % 16]]
      simp

theorem hexDigitsLoop_snoc (n : Nat) (h : n ≠ 0) :
    hexDigitsLoop n [] = hexDigitsLoop (n / 16) [] ++ [n % 16] := by
  rw [hexDigitsLoop_pos n h, hexDigitsLoop_acc]

theorem hexLoop_zero (acc : List Nat) : hexLoop 0 acc = acc := by
  rw [hexLoop]; simp

theorem hexLoop_pos (n : Nat) (h : n ≠ 0) (acc : List Nat) :
    hexLoop n acc = hexLoop (n / 16) (hexDigit (n % 16) :: acc) := by
  rw [hexLoop, dif_neg h]

/-- `hexLoop` renders the digits of `hexDigitsLoop` -/
theorem hexLoop_eq (n : Nat) : ∀ acc : List Nat,
    hexLoop n (acc.map hexDigit) = (hexDigitsLoop n acc).map hexDigit := by
  induction n using Nat.strongRecOn with
  | _ n ih =>
    intro acc
    by_cases h : n = 0
    · subst h; rw [hexLoop_zero, hexDigitsLoop_zero]
    · have hlt : n / 16 < n := by omega
      rw [hexLoop_pos n h, hexDigitsLoop_pos n h, ← ih _ hlt]
      rfl

/-- the `{:X}` rendering of an index is the rendering of its hexadecimal digits -/
theorem hexUpper_eq (n : Nat) : hexUpper n = (hexDigits n).map hexDigit := by
  unfold hexUpper hexDigits
  by_cases h : n = 0
  · subst h; rfl
  · rw [if_neg h, if_neg h]
    exact hexLoop_eq n []

theorem hexDigitsLoop_lt (n : Nat) : ∀ d ∈ hexDigitsLoop n [], d < 16 := by
  induction n using Nat.strongRecOn with
  | _ n ih =>
    by_cases h : n = 0
    · subst h; simp [hexDigitsLoop_zero]
    · have hlt : n / 16 < n := by omega
      rw [hexDigitsLoop_snoc n h]
      intro d hd
      rcases List.mem_append.1 hd with hd | hd
      · exact ih _ hlt d hd
      · simp at hd; omega

theorem hexValue_snoc (ds : List Nat) (d : Nat) : hexValue (ds ++ [d]) = 16 * hexValue ds + d := by
  simp [hexValue, List.foldl_append]

theorem hexValue_loop (n : Nat) : hexValue (hexDigitsLoop n []) = n := by
  induction n using Nat.strongRecOn with
  | _ n ih =>
    by_cases h : n = 0
    · subst h; simp [hexDigitsLoop_zero, hexValue]
    · have hlt : n / 16 < n := by omega
      rw [hexDigitsLoop_snoc n h, hexValue_snoc, ih _ hlt]
      omega

theorem hexDigitsLoop_ne_nil (n : Nat) (h : n ≠ 0) : hexDigitsLoop n [] ≠ [] := by
  rw [hexDigitsLoop_snoc n h]; simp

/-- the leading digit is not `0` -/
theorem hexDigitsLoop_head (n : Nat) (h : n ≠ 0) : (hexDigitsLoop n []).head? ≠ some 0 := by
  induction n using Nat.strongRecOn with
  | _ n ih =>
    rw [hexDigitsLoop_snoc n h]
    by_cases h16 : n / 16 = 0
    · rw [h16, hexDigitsLoop_zero]
      simp; omega
    · have hlt : n / 16 < n := by omega
      have := ih _ hlt h16
      have hne := hexDigitsLoop_ne_nil _ h16
      cases hl : hexDigitsLoop (n / 16) [] with
      | nil => exact absurd hl hne
      | cons a as => rw [hl] at this; simpa using this

theorem hexDigits_lt (n : Nat) : ∀ d ∈ hexDigits n, d < 16 := by
  unfold hexDigits
  by_cases h : n = 0
  · subst h; simp
  · rw [if_neg h]; exact hexDigitsLoop_lt n

theorem hexValue_hexDigits (n : Nat) : hexValue (hexDigits n) = n := by
  unfold hexDigits
  by_cases h : n = 0
  · subst h; rfl
  · rw [if_neg h]; exact hexValue_loop n

theorem hexDigits_ne_nil (n : Nat) : hexDigits n ≠ [] := by
  unfold hexDigits
  by_cases h : n = 0
  · subst h; simp
  · rw [if_neg h]; exact hexDigitsLoop_ne_nil n h

theorem hexDigits_head (n : Nat) (h : n ≠ 0) : (hexDigits n).head? ≠ some 0 := by
  unfold hexDigits
  rw [if_neg h]; exact hexDigitsLoop_head n h

/-- one digit exactly for the indices below 16 -/
theorem hexDigits_small (n : Nat) (h : n < 16) : hexDigits n = [n] := by
  unfold hexDigits
  by_cases h0 : n = 0
  · subst h0; rfl
  · have hd : n / 16 = 0 := by omega
    have hm : n % 16 = n := by omega
    rw [if_neg h0, hexDigitsLoop_snoc n h0, hd, hexDigitsLoop_zero, hm]; rfl

/-- at least two digits from 16 on -/
theorem hexDigits_large (n : Nat) (h : 16 ≤ n) : 2 ≤ (hexDigits n).length := by
  unfold hexDigits
  have h0 : n ≠ 0 := by omega
  have h1 : n / 16 ≠ 0 := by omega
  rw [if_neg h0, hexDigitsLoop_snoc n h0, hexDigitsLoop_snoc _ h1]
  simp

theorem hexDigits_length_pos (n : Nat) : 1 ≤ (hexDigits n).length := by
  have := hexDigits_ne_nil n
  cases h : hexDigits n with
  | nil => exact absurd h this
  | cons a as => simp

/-! ## 2. the term denoted by the Debug output -/

/-- apply `f` successively to the variables with the given indices -/
def appVars (f : Term) (ds : List Nat) : Term := ds.foldl (fun acc d => app acc (var d)) f

/-- the term denoted by a non-empty string of digits: the left-nested application of the digits,
each read as an index (`0` = `UD`) -/
def digitsTerm : List Nat → Term
  | [] => var 0
  | d :: ds => appVars (var d) ds

/-- what the De Bruijn parser reads from the Debug output of `t`: an index is the string of its hexadecimal
digits, each digit an index of its own.  As the whole term, as the body of an abstraction or as an operator the
string is the left-nested application of its digits; as an OPERAND (the only unparenthesised operand is a
variable) it continues the application spine it stands in: `f 1A` is `(f 1) A`. -/
def readBack : Term → Term
  | var i => digitsTerm (hexDigits i)
  | abs b => abs (readBack b)
  | app l (var i) => appVars (readBack l) (hexDigits i)
  | app l (abs b) => app (readBack l) (abs (readBack b))
  | app l (app r₁ r₂) => app (readBack l) (readBack (app r₁ r₂))

theorem appVars_nil (f : Term) : appVars f [] = f := rfl

theorem appVars_cons (f : Term) (d : Nat) (ds : List Nat) :
    appVars f (d :: ds) = appVars (app f (var d)) ds := rfl

theorem appVars_single (f : Term) (d : Nat) : appVars f [d] = app f (var d) := rfl

theorem readBack_app_nonvar (l r : Term) (h : ∀ i, r ≠ var i) :
    readBack (app l r) = app (readBack l) (readBack r) := by
  cases r with
  | var i => exact absurd rfl (h i)
  | abs b => simp [readBack]
  | app r₁ r₂ => simp [readBack]

/-! ### the token printing of `readBack t` is the digit-wise token printing of `t` -/

/-- the tokens that the lexer produces from the Debug output: one `Number` per hexadecimal digit -/
def toksH : Term → Nat → List Token
  | var i, _ => (hexDigits i).map Token.Number
  | abs b, ctx => C11.parenT (Token.Lambda :: toksH b 0) (decide (ctx > 1))
  | app l r, ctx => C11.parenT (toksH l 2 ++ toksH r 3) (ctx == 3)

theorem toks_appVars (ds : List Nat) (hds : ds ≠ []) : ∀ (f : Term) (ctx : Nat),
    C11.toks (appVars f ds) ctx = C11.parenT (C11.toks f 2 ++ ds.map Token.Number) (ctx == 3) := by
  induction ds with
  | nil => exact absurd rfl hds
  | cons d ds ih =>
    intro f ctx
    cases ds with
    | nil => simp [appVars_single, C11.toks]
    | cons d' ds' =>
      rw [appVars_cons, ih (by simp)]
      simp [C11.toks, C11.parenT]

theorem toks_digitsTerm (ds : List Nat) (hds : ds ≠ []) (ctx : Nat) (hctx : (ctx == 3) = false) :
    C11.toks (digitsTerm ds) ctx = ds.map Token.Number := by
  cases ds with
  | nil => exact absurd rfl hds
  | cons d ds =>
    cases ds with
    | nil => simp [digitsTerm, appVars_nil, C11.toks]
    | cons d' ds' =>
      rw [digitsTerm, toks_appVars _ (by simp), hctx]
      simp [C11.toks, C11.parenT]

/-- except for a variable in operand position (where the digits continue the enclosing spine) -/
theorem toks_readBack (t : Term) : ∀ ctx, ((ctx == 3) = false ∨ ∀ i, t ≠ var i) →
    C11.toks (readBack t) ctx = toksH t ctx := by
  induction t with
  | var i =>
    intro ctx h
    rcases h with h | h
    · rw [readBack, toksH, toks_digitsTerm _ (hexDigits_ne_nil i) ctx h]
    · exact absurd rfl (h i)
  | abs b ih =>
    intro ctx _
    rw [readBack, C11.toks, toksH, ih 0 (.inl rfl)]
  | app l r ihl ihr =>
    intro ctx _
    cases r with
    | var i =>
      rw [readBack, toks_appVars _ (hexDigits_ne_nil i), toksH, ihl 2 (.inl rfl)]
      rfl
    | abs b =>
      rw [readBack_app_nonvar _ _ (by intro i; simp), C11.toks, toksH, ihl 2 (.inl rfl),
        ihr 3 (.inr (by intro i; simp))]
    | app r₁ r₂ =>
      rw [readBack_app_nonvar _ _ (by intro i; simp), C11.toks, toksH, ihl 2 (.inl rfl),
        ihr 3 (.inr (by intro i; simp))]

theorem toks_readBack_top (t : Term) : C11.toks (readBack t) 0 = toksH t 0 :=
  toks_readBack t 0 (.inl rfl)

/-! ### `readBack` on small indices, and how it changes the number of variable occurrences -/

theorem readBack_small (t : Term) (h : smallIdx t = true) : readBack t = t := by
  induction t with
  | var i =>
    simp only [smallIdx, Bool.and_eq_true, decide_eq_true_eq] at h
    rw [readBack, hexDigits_small i (by omega)]; rfl
  | abs b ih =>
    simp only [smallIdx] at h
    rw [readBack, ih h]
  | app l r ihl ihr =>
    simp only [smallIdx, Bool.and_eq_true] at h
    cases r with
    | var i =>
      have hi := h.2
      simp only [smallIdx, Bool.and_eq_true, decide_eq_true_eq] at hi
      rw [readBack, hexDigits_small i (by omega), ihl h.1]; rfl
    | abs b => rw [readBack_app_nonvar _ _ (by intro i; simp), ihl h.1, ihr h.2]
    | app r₁ r₂ => rw [readBack_app_nonvar _ _ (by intro i; simp), ihl h.1, ihr h.2]

/-- total number of hexadecimal digits of the indices -/
def digitCount : Term → Nat
  | var i => (hexDigits i).length
  | abs b => digitCount b
  | app l r => digitCount l + digitCount r

theorem numVars_appVars (ds : List Nat) : ∀ f, C11.numVars (appVars f ds) = C11.numVars f + ds.length := by
  induction ds with
  | nil => intro f; simp [appVars_nil]
  | cons d ds ih => intro f; rw [appVars_cons, ih]; simp [C11.numVars]; omega

theorem numVars_digitsTerm (ds : List Nat) (h : ds ≠ []) : C11.numVars (digitsTerm ds) = ds.length := by
  cases ds with
  | nil => exact absurd rfl h
  | cons d ds => rw [digitsTerm, numVars_appVars]; simp [C11.numVars]; omega

theorem numVars_readBack (t : Term) : C11.numVars (readBack t) = digitCount t := by
  induction t with
  | var i => rw [readBack, numVars_digitsTerm _ (hexDigits_ne_nil i), digitCount]
  | abs b ih => rw [readBack, C11.numVars, ih, digitCount]
  | app l r ihl ihr =>
    cases r with
    | var i => rw [readBack, numVars_appVars, ihl, digitCount, digitCount]
    | abs b =>
      rw [readBack_app_nonvar _ _ (by intro i; simp), C11.numVars, ihl, ihr]; rfl
    | app r₁ r₂ =>
      rw [readBack_app_nonvar _ _ (by intro i; simp), C11.numVars, ihl, ihr]; rfl

theorem digitCount_ge (t : Term) : C11.numVars t ≤ digitCount t := by
  induction t with
  | var i => have := hexDigits_length_pos i; simpa [C11.numVars, digitCount] using this
  | abs b ih => simpa [C11.numVars, digitCount] using ih
  | app l r ihl ihr => simp only [C11.numVars, digitCount]; omega

theorem digitCount_gt (t : Term) (hu : hasUD t = false) (hs : smallIdx t = false) :
    C11.numVars t < digitCount t := by
  induction t with
  | var i =>
    simp only [hasUD, beq_eq_false_iff_ne, ne_eq] at hu
    have h16 : 16 ≤ i := by
      simp only [smallIdx, Bool.and_eq_false_iff, decide_eq_false_iff_not] at hs
      omega
    have := hexDigits_large i h16
    simp only [C11.numVars, digitCount]; omega
  | abs b ih =>
    simp only [hasUD] at hu
    simp only [smallIdx] at hs
    simpa [C11.numVars, digitCount] using ih hu hs
  | app l r ihl ihr =>
    simp only [hasUD, Bool.or_eq_false_iff] at hu
    simp only [smallIdx, Bool.and_eq_false_iff] at hs
    have h1 := digitCount_ge l
    have h2 := digitCount_ge r
    simp only [C11.numVars, digitCount]
    rcases hs with hs | hs
    · have := ihl hu.1 hs; omega
    · have := ihr hu.2 hs; omega

theorem smallIdx_noUD (t : Term) (h : smallIdx t = true) : hasUD t = false := by
  induction t with
  | var i =>
    simp only [smallIdx, Bool.and_eq_true, decide_eq_true_eq] at h
    simp [hasUD]; omega
  | abs b ih => simp only [smallIdx] at h; simpa [hasUD] using ih h
  | app l r ihl ihr =>
    simp only [smallIdx, Bool.and_eq_true] at h
    simp [hasUD, ihl h.1, ihr h.2]

/-! ## 3. lexing the Debug output of a `UD`-free term -/

theorem lex_digits (cls : CharCls) (hx : C11.HexOk cls) (rest : List Nat) (r : List Token)
    (h : ∀ j, tokenizeDbrAux cls j rest = .ok r) :
    ∀ (ds : List Nat), (∀ d ∈ ds, d < 16) →
      ∀ i, tokenizeDbrAux cls i (ds.map hexDigit ++ rest) = .ok (ds.map Token.Number ++ r) := by
  intro ds
  induction ds with
  | nil => intro _ i; simpa using h i
  | cons d ds ih =>
    intro hd i
    have hd0 : d < 16 := hd d List.mem_cons_self
    have := C11.lex_digit cls hx d hd0 (ds.map hexDigit ++ rest) (ds.map Token.Number ++ r)
      (ih (fun x hx => hd x (List.mem_cons_of_mem _ hx))) i
    simpa using this

theorem lex_showH (cls : CharCls) (hx : C11.HexOk cls) (lam : Nat) (hl : lam = 955 ∨ lam = 92)
    (t : Term) : ∀ (ctx : Nat) (rest : List Nat) (r : List Token), hasUD t = false →
      (∀ j, tokenizeDbrAux cls j rest = .ok r) →
      ∀ i, tokenizeDbrAux cls i (showDbr lam t ctx ++ rest) = .ok (toksH t ctx ++ r) := by
  have hlam : isLam lam = true := by
    rcases hl with h | h <;> subst h <;> decide
  induction t with
  | var n =>
    intro ctx rest r hs h i
    simp only [hasUD, beq_eq_false_iff_ne, ne_eq] at hs
    obtain ⟨n, rfl⟩ : ∃ m, n = m + 1 := ⟨n - 1, by omega⟩
    simp only [showDbr, toksH]
    rw [hexUpper_eq]
    exact lex_digits cls hx rest r h _ (hexDigits_lt _) i
  | abs b ih =>
    intro ctx rest r hs h i
    simp only [hasUD] at hs
    simp only [showDbr, toksH, parenIf, C11.parenT]
    by_cases hc : ctx > 1
    · simp only [hc, decide_true, if_true, List.cons_append, List.append_assoc]
      apply C11.lex_lparen
      apply C11.lex_lam cls lam hlam
      apply ih 0 _ _ hs
      exact C11.lex_rparen cls rest r h
    · simp only [hc, decide_false, List.cons_append]
      apply C11.lex_lam cls lam hlam
      exact ih 0 rest r hs h
  | app l r' ihl ihr =>
    intro ctx rest r hs h i
    simp only [hasUD, Bool.or_eq_false_iff] at hs
    simp only [showDbr, toksH, parenIf, C11.parenT]
    cases hc : ctx == 3
    · simp only [Bool.false_eq_true, if_false, List.append_assoc]
      apply ihl 2 _ _ hs.1
      exact ihr 3 rest r hs.2 h
    · simp only [if_true, List.cons_append, List.append_assoc]
      apply C11.lex_lparen
      apply ihl 2 _ _ hs.1
      apply ihr 3 _ _ hs.2
      exact C11.lex_rparen cls rest r h

theorem lex_debugH (cls : CharCls) (hx : C11.HexOk cls) (lam : Nat) (hl : lam = 955 ∨ lam = 92)
    (t : Term) (h : hasUD t = false) :
    tokenizeDbr cls (debug lam t) = .ok (toksH t 0) := by
  have := lex_showH cls hx lam hl t 0 [] [] h (fun _ => rfl) 0
  simpa [tokenizeDbr, debug] using this

/-! ## 4. the Debug output of a term with `UD`, and the lexer on it -/

/-- the code points of the word `undefined` -/
def undefinedWord : List Nat := [117, 110, 100, 101, 102, 105, 110, 101, 100]

theorem str_undefined : str "undefined" = undefinedWord := by decide +kernel

/-- a character that the Debug printer emits outside the word `undefined` -/
def GoodChar (lam c : Nat) : Prop := c = lam ∨ c = 40 ∨ c = 41 ∨ ∃ d, d < 16 ∧ c = hexDigit d

def GoodL (lam : Nat) (s : List Nat) : Prop := ∀ c ∈ s, GoodChar lam c

theorem goodL_nil (lam : Nat) : GoodL lam [] := by intro c hc; simp at hc

theorem goodL_cons {lam c : Nat} {s : List Nat} (hc : GoodChar lam c) (hs : GoodL lam s) :
    GoodL lam (c :: s) := by
  intro x hx
  rcases List.mem_cons.1 hx with rfl | hx
  · exact hc
  · exact hs x hx

theorem goodL_append {lam : Nat} {s₁ s₂ : List Nat} (h₁ : GoodL lam s₁) (h₂ : GoodL lam s₂) :
    GoodL lam (s₁ ++ s₂) := by
  intro x hx
  rcases List.mem_append.1 hx with hx | hx
  · exact h₁ x hx
  · exact h₂ x hx

theorem goodL_parenIf {lam : Nat} {s : List Nat} (h : GoodL lam s) (c : Bool) :
    GoodL lam (parenIf s c) := by
  unfold parenIf
  cases c
  · exact h
  · exact goodL_cons (.inr (.inl rfl)) (goodL_append h (goodL_cons (.inr (.inr (.inl rfl))) (goodL_nil lam)))

/-- the Debug output of a `UD`-free term consists of glyphs, parentheses and hexadecimal digits -/
theorem goodL_show (lam : Nat) (t : Term) : ∀ ctx, hasUD t = false → GoodL lam (showDbr lam t ctx) := by
  induction t with
  | var n =>
    intro ctx hs
    simp only [hasUD, beq_eq_false_iff_ne, ne_eq] at hs
    obtain ⟨n, rfl⟩ : ∃ m, n = m + 1 := ⟨n - 1, by omega⟩
    simp only [showDbr]
    rw [hexUpper_eq]
    intro c hc
    obtain ⟨d, hd, rfl⟩ := List.mem_map.1 hc
    exact .inr (.inr (.inr ⟨d, hexDigits_lt _ d hd, rfl⟩))
  | abs b ih =>
    intro ctx hs
    simp only [hasUD] at hs
    simp only [showDbr]
    exact goodL_parenIf (goodL_cons (.inl rfl) (ih 0 hs)) _
  | app l r ihl ihr =>
    intro ctx hs
    simp only [hasUD, Bool.or_eq_false_iff] at hs
    simp only [showDbr]
    exact goodL_parenIf (goodL_append (ihl 2 hs.1) (ihr 3 hs.2)) _

/-- a prefix of a parenthesised string -/
theorem parenIf_split (s pre post : List Nat) (c : Bool) (h : s = pre ++ undefinedWord ++ post) :
    ∃ pre' post', parenIf s c = pre' ++ undefinedWord ++ post' ∧
      (∀ lam, GoodL lam pre → GoodL lam pre') := by
  cases c
  · exact ⟨pre, post, by simp [parenIf, h], fun _ hg => hg⟩
  · refine ⟨40 :: pre, post ++ [41], by simp [parenIf, h], fun lam hg => ?_⟩
    exact goodL_cons (.inr (.inl rfl)) hg

/-- the Debug output of a term with `UD`: glyphs, parentheses and hexadecimal digits up to the word
`undefined` printed for the FIRST `UD` in printing order -/
theorem show_split (lam : Nat) (t : Term) : ∀ ctx, hasUD t = true →
    ∃ pre post, showDbr lam t ctx = pre ++ undefinedWord ++ post ∧ GoodL lam pre := by
  induction t with
  | var n =>
    intro ctx hs
    simp only [hasUD, beq_iff_eq] at hs
    subst hs
    exact ⟨[], [], by simp [showDbr, str_undefined], goodL_nil lam⟩
  | abs b ih =>
    intro ctx hs
    simp only [hasUD] at hs
    obtain ⟨pre, post, he, hg⟩ := ih 0 hs
    have h1 : lam :: showDbr lam b 0 = (lam :: pre) ++ undefinedWord ++ post := by simp [he]
    obtain ⟨pre', post', he', hg'⟩ := parenIf_split _ _ _ (decide (ctx > 1)) h1
    exact ⟨pre', post', by simpa [showDbr] using he', hg' lam (goodL_cons (.inl rfl) hg)⟩
  | app l r ihl ihr =>
    intro ctx hs
    simp only [hasUD, Bool.or_eq_true] at hs
    cases hl : hasUD l with
    | true =>
      obtain ⟨pre, post, he, hg⟩ := ihl 2 hl
      have h1 : showDbr lam l 2 ++ showDbr lam r 3 =
          pre ++ undefinedWord ++ (post ++ showDbr lam r 3) := by simp [he]
      obtain ⟨pre', post', he', hg'⟩ := parenIf_split _ _ _ (ctx == 3) h1
      exact ⟨pre', post', by simpa [showDbr] using he', hg' lam hg⟩
    | false =>
      have hr : hasUD r = true := by
        rcases hs with hs | hs
        · rw [hl] at hs; exact absurd hs (by decide)
        · exact hs
      obtain ⟨pre, post, he, hg⟩ := ihr 3 hr
      have h1 : showDbr lam l 2 ++ showDbr lam r 3 =
          (showDbr lam l 2 ++ pre) ++ undefinedWord ++ post := by simp [he]
      obtain ⟨pre', post', he', hg'⟩ := parenIf_split _ _ _ (ctx == 3) h1
      exact ⟨pre', post', by simpa [showDbr] using he',
        hg' lam (goodL_append (goodL_show lam l 2 hl) hg)⟩

theorem goodChar_ne_u {lam : Nat} (hl : lam = 955 ∨ lam = 92) {c : Nat} (hc : GoodChar lam c) :
    c ≠ 117 := by
  rcases hc with h | h | h | ⟨d, hd, h⟩
  · omega
  · omega
  · omega
  · have := C11.hexDigit_range d hd; omega

theorem map_error {ε α β : Type} (f : α → β) (e : ε) :
    f <$> (Except.error e : Except ε α) = Except.error e := rfl

/-- a good character is consumed by the lexer; an error behind it is passed on -/
theorem lex_good_error (cls : CharCls) (hx : C11.HexOk cls) (lam : Nat) (hl : lam = 955 ∨ lam = 92)
    {c : Nat} (hc : GoodChar lam c) (rest : List Nat) (e : ParseError) (i : Nat)
    (h : tokenizeDbrAux cls (i + 1) rest = .error e) :
    tokenizeDbrAux cls i (c :: rest) = .error e := by
  rcases hc with rfl | rfl | rfl | ⟨d, hd, rfl⟩
  · have hlam : isLam c = true := by rcases hl with h | h <;> subst h <;> decide
    simp [tokenizeDbrAux, hlam, h, map_error]
  · simp [tokenizeDbrAux, isLam, cBackslash, cLambda, cLparen, h, map_error]
  · simp [tokenizeDbrAux, isLam, cBackslash, cLambda, cLparen, cRparen, h, map_error]
  · have hr := C11.hexDigit_range d hd
    have h1 : isLam (hexDigit d) = false := by
      simp [isLam, cBackslash, cLambda]; omega
    have h2 : (hexDigit d == cLparen) = false := by simp [cLparen]; omega
    have h3 : (hexDigit d == cRparen) = false := by simp [cRparen]; omega
    simp [tokenizeDbrAux, h1, h2, h3, hx.digit d hd, h, map_error]

/-- the lexer stops at the `u` with `InvalidCharacter`, its index counted in characters -/
theorem lex_bad (cls : CharCls) (hx : C11.HexOk cls) (hu : cls.digit16 117 = none)
    (hw : cls.isWs 117 = false) (lam : Nat) (hl : lam = 955 ∨ lam = 92) (post : List Nat) :
    ∀ (pre : List Nat), GoodL lam pre → ∀ i,
      tokenizeDbrAux cls i (pre ++ 117 :: post) = .error (.InvalidCharacter (i + pre.length) 117) := by
  intro pre
  induction pre with
  | nil =>
    intro _ i
    simp [tokenizeDbrAux, isLam, cBackslash, cLambda, cLparen, cRparen, hu, hw]
  | cons c pre ih =>
    intro hg i
    have hc : GoodChar lam c := hg c List.mem_cons_self
    have := ih (fun x hx => hg x (List.mem_cons_of_mem _ hx)) (i + 1)
    rw [List.cons_append]
    apply lex_good_error cls hx lam hl hc
    rw [this]
    simp only [List.length_cons]
    congr 2; omega

theorem idxOf_u (lam : Nat) (hl : lam = 955 ∨ lam = 92) (pre post : List Nat) (hg : GoodL lam pre) :
    (pre ++ 117 :: post).idxOf 117 = pre.length := by
  have hn : ¬ 117 ∈ pre := fun hm => goodChar_ne_u hl (hg 117 hm) rfl
  rw [List.idxOf_append, if_neg hn]
  simp

/-! ## 5. the index of the first `u`, structurally -/

/-- number of characters that the Debug printer emits before the word `undefined` of the first `UD` (in
printing order) of a term that has one: an opening parenthesis where the context demands one, the glyph of
an abstraction, the whole output of a `UD`-free operator -/
def udOffset (lam : Nat) : Term → Nat → Nat
  | var _, _ => 0
  | abs b, ctx => (if ctx > 1 then 1 else 0) + (1 + udOffset lam b 0)
  | app l r, ctx => (if ctx == 3 then 1 else 0) +
      (if hasUD l then udOffset lam l 2 else (showDbr lam l 2).length + udOffset lam r 3)

theorem mem_u_show (lam : Nat) (t : Term) (ctx : Nat) (h : hasUD t = true) :
    117 ∈ showDbr lam t ctx := by
  obtain ⟨pre, post, he, _⟩ := show_split lam t ctx h
  rw [he]; simp [undefinedWord]

theorem not_mem_u_show (lam : Nat) (hl : lam = 955 ∨ lam = 92) (t : Term) (ctx : Nat)
    (h : hasUD t = false) : ¬ 117 ∈ showDbr lam t ctx :=
  fun hm => goodChar_ne_u hl (goodL_show lam t ctx h 117 hm) rfl

theorem idxOf_parenIf (s : List Nat) (c : Bool) (hm : 117 ∈ s) :
    (parenIf s c).idxOf 117 = (if c = true then 1 else 0) + s.idxOf 117 := by
  cases c
  · simp [parenIf]
  · simp only [parenIf, if_true]
    rw [List.idxOf_cons, List.idxOf_append, if_pos hm]
    simp; omega

theorem idxOf_show (lam : Nat) (hl : lam = 955 ∨ lam = 92) (t : Term) :
    ∀ ctx, hasUD t = true → (showDbr lam t ctx).idxOf 117 = udOffset lam t ctx := by
  induction t with
  | var n =>
    intro ctx hs
    simp only [hasUD, beq_iff_eq] at hs
    subst hs
    simp [showDbr, str_undefined, undefinedWord, udOffset]
  | abs b ih =>
    intro ctx hs
    simp only [hasUD] at hs
    have hm : 117 ∈ lam :: showDbr lam b 0 := List.mem_cons_of_mem _ (mem_u_show lam b 0 hs)
    have hne : (lam == 117) = false := by
      rcases hl with h | h <;> subst h <;> decide
    simp only [showDbr, udOffset]
    rw [idxOf_parenIf _ _ hm, List.idxOf_cons, hne, ih 0 hs]
    simp only [decide_eq_true_eq, cond_false]
    omega
  | app l r ihl ihr =>
    intro ctx hs
    simp only [hasUD, Bool.or_eq_true] at hs
    simp only [showDbr, udOffset]
    cases hl' : hasUD l with
    | true =>
      have hml := mem_u_show lam l 2 hl'
      rw [idxOf_parenIf _ _ (List.mem_append_left _ hml), List.idxOf_append, if_pos hml, ihl 2 hl']
      simp
    | false =>
      have hr : hasUD r = true := by
        rcases hs with hs | hs
        · rw [hl'] at hs; exact absurd hs (by decide)
        · exact hs
      have hml := not_mem_u_show lam hl l 2 hl'
      rw [idxOf_parenIf _ _ (List.mem_append_right _ (mem_u_show lam r 3 hr)), List.idxOf_append,
        if_neg hml, ihr 3 hr]
      simp; omega

end C11S
end LC
