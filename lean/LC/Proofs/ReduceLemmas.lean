/-
Helper lemmas for the property files C01, C03, C04, C06, C08:

* "the strategy selects nothing" ⇔ "the term has the shape documented for the order"
  (`RL.stepOrd_none_iff`), and shape-normal ⇔ β-normal (`RL.isNormal_iff_normal`);
* every traversal leaves a strategy-normal term unchanged once `fuel > size t`
  (`RL.betaOrd_nf_fixed`);
* the abstract "L-bounded run of a deterministic partial function" (`RL.Run`): uniqueness and
  composition.
-/
import LC.Proofs.Refine.All
import LC.Proofs.Confluence
import LC.Spec.NormalForms

namespace LC
namespace RL
open Term Spec

/-! ### no step ⇔ documented normal form -/

theorem stepCbn_none_iff (t : Term) : stepCbn t = none ↔ isWHNF t = true := by
  induction t with
  | var i => simp [stepCbn, isWHNF, neutral]
  | abs b => simp [stepCbn, isWHNF]
  | app l r ihl _ =>
    cases l with
    | var i => simp [stepCbn, isWHNF, neutral]
    | abs b => simp [stepCbn, isWHNF, neutral]
    | app l1 l2 =>
      simp only [stepCbn, isWHNF, neutral, Option.map_eq_none_iff] at ihl ⊢
      exact ihl

theorem stepNor_none_iff (t : Term) : stepNor t = none ↔ isNormal t = true := by
  induction t with
  | var i => simp [stepNor, isNormal]
  | abs b ih => simpa [stepNor, isNormal] using ih
  | app l r ihl ihr =>
    cases l with
    | var i => simpa [stepNor, isNormal, isAbs] using ihr
    | abs b => simp [stepNor, isNormal, isAbs]
    | app l1 l2 =>
      simp only [stepNor]
      cases hl : stepNor (app l1 l2) with
      | some l' =>
        have : ¬ isNormal (app l1 l2) = true := fun h => by rw [ihl.2 h] at hl; cases hl
        simp only [reduceCtorEq, false_iff]
        intro h
        rw [isNormal] at h
        simp only [Bool.and_eq_true] at h
        exact this h.1.2
      | none =>
        have h1 := ihl.1 hl
        simp only [Option.map_eq_none_iff, ihr]
        rw [isNormal.eq_3 (app l1 l2) r]
        simp [h1, isAbs]

theorem stepHsp_none_iff (t : Term) : stepHsp t = none ↔ isHNF t = true := by
  induction t with
  | var i => simp [stepHsp, isHNF, neutral]
  | abs b ih => simpa [stepHsp, isHNF] using ih
  | app l r ihl _ =>
    unfold stepHsp
    cases hl : stepHsp l with
    | some l' =>
      have hn : ¬ isHNF l = true := fun h => by rw [ihl.2 h] at hl; cases hl
      cases l with
      | var i => simp [stepHsp] at hl
      | abs b => simp [isHNF, neutral]
      | app l1 l2 => simpa [isHNF, neutral] using hn
    | none =>
      have hn := ihl.1 hl
      cases l with
      | var i => simp [isHNF, neutral]
      | abs b => simp [isHNF, neutral]
      | app l1 l2 => simpa [isHNF, neutral] using hn

theorem isNormal_isHNF {t : Term} (h : isNormal t = true) : isHNF t = true := by
  induction t with
  | var i => rfl
  | abs b ih => simp only [isNormal, isHNF] at h ⊢; exact ih h
  | app l r ihl _ =>
    simp only [isNormal, Bool.and_eq_true, Bool.not_eq_true'] at h
    cases l with
    | var i => rfl
    | abs b => simp [isAbs] at h
    | app l1 l2 =>
      have := ihl h.1.2
      simpa [isHNF, neutral] using this

theorem isNormal_isWNF {t : Term} (h : isNormal t = true) : isWNF t = true := by
  induction t with
  | var i => rfl
  | abs b => rfl
  | app l r ihl ihr =>
    simp only [isNormal, Bool.and_eq_true, Bool.not_eq_true'] at h
    simp [isWNF, h.1.1, ihl h.1.2, ihr h.2]

theorem stepApp_none_iff (t : Term) : stepApp t = none ↔ isNormal t = true := by
  induction t with
  | var i => simp [stepApp, isNormal]
  | abs b ih => simpa [stepApp, isNormal] using ih
  | app l r ihl ihr =>
    unfold stepApp
    rw [isNormal]
    cases hl : stepApp l with
    | some l' =>
      have hn : ¬ isNormal l = true := fun h => by rw [ihl.2 h] at hl; cases hl
      simp [hn]
    | none =>
      have hn := ihl.1 hl
      cases hr : stepApp r with
      | some r' =>
        have hn' : ¬ isNormal r = true := fun h => by rw [ihr.2 h] at hr; cases hr
        simp [hn']
      | none =>
        have hn' := ihr.1 hr
        cases l <;> simp_all [isAbs]

theorem stepHno_none_iff (t : Term) : stepHno t = none ↔ isNormal t = true := by
  induction t with
  | var i => simp [stepHno, isNormal]
  | abs b ih => simpa [stepHno, isNormal] using ih
  | app l r ihl ihr =>
    unfold stepHno
    rw [isNormal]
    cases hs : stepHsp l with
    | some l' =>
      have hn : ¬ isNormal l = true := fun h => by
        rw [(stepHsp_none_iff l).2 (isNormal_isHNF h)] at hs; cases hs
      simp [hn]
    | none =>
      cases l with
      | abs b => simp [isAbs]
      | var i => simpa [stepHno, isNormal, isAbs] using ihr
      | app l1 l2 =>
        cases hl : stepHno (app l1 l2) with
        | some l' =>
          have hn : ¬ isNormal (app l1 l2) = true := fun h => by rw [ihl.2 h] at hl; cases hl
          simp [hn]
        | none =>
          have hn := ihl.1 hl
          simp [hn, isAbs, ihr]

theorem stepHap_none_iff (t : Term) : stepHap t = none ↔ isNormal t = true := by
  induction t with
  | var i => simp [stepHap, isNormal]
  | abs b ih => simpa [stepHap, isNormal] using ih
  | app l r ihl ihr =>
    unfold stepHap
    rw [isNormal]
    cases hs : stepCbv l with
    | some l' =>
      have hn : ¬ isNormal l = true := fun h => by
        rw [stepCbv_none_of_isWNF (isNormal_isWNF h)] at hs; cases hs
      simp [hn]
    | none =>
      cases hr : stepHap r with
      | some r' =>
        have hn' : ¬ isNormal r = true := fun h => by rw [ihr.2 h] at hr; cases hr
        simp [hn']
      | none =>
        have hn' := ihr.1 hr
        cases l with
        | abs b => simp [isAbs]
        | var i => simp [stepHap, isNormal, isAbs, hn']
        | app l1 l2 => simp [isAbs, hn', ihl]

theorem stepOrd_none_iff (o : Order) (t : Term) : stepOrd o t = none ↔ NF o t = true := by
  cases o <;> simp only [stepOrd, NF]
  · exact stepNor_none_iff t
  · exact stepCbn_none_iff t
  · exact stepHsp_none_iff t
  · exact stepHno_none_iff t
  · exact stepApp_none_iff t
  · exact stepCbv_none_iff_isWNF
  · exact stepHap_none_iff t

/-! ### shape-normal ⇔ β-normal -/

theorem not_beta_of_isNormal {t u : Term} (hb : Beta t u) : isNormal t = false := by
  induction hb with
  | red b a => simp [isNormal, isAbs]
  | congAbs _ ih => simpa [isNormal] using ih
  | congAppL _ ih => simp [isNormal, ih]
  | congAppR _ ih => simp [isNormal, ih]

theorem isNormal_iff_normal (t : Term) : isNormal t = true ↔ Normal t := by
  constructor
  · intro h u hb
    rw [not_beta_of_isNormal hb] at h; cases h
  · intro h
    rw [← stepNor_none_iff]
    cases hs : stepNor t with
    | none => rfl
    | some u => exact absurd (stepNor_beta hs) (h u)

/-- for the four normalising orders, "no step" is β-normality -/
theorem stepOrd_none_normal {o : Order} {t : Term} (ho : NF o = isNormal)
    (h : stepOrd o t = none) : Normal t := by
  rw [stepOrd_none_iff, ho] at h
  exact (isNormal_iff_normal t).1 h

theorem isNormal_neutral {t : Term} (h : isNormal t = true) (hna : isAbs t = false) :
    neutral t = true :=
  isWNF_neutral (isNormal_isWNF h) hna


/-! ### a strategy-normal term is left unchanged (fuel > size suffices) -/

/-- number of constructors -/
def size : Term → Nat
  | var _ => 1
  | abs b => size b + 1
  | app l r => size l + size r + 1

theorem betaCbn_whnf_fixed (L : Nat) (t : Term) : ∀ fuel c, size t ≤ fuel → isWHNF t = true →
    betaCbn L fuel t c = some (t, c) := by
  induction t with
  | var i =>
    intro fuel c hf _
    cases fuel with
    | zero => simp [size] at hf
    | succ fuel => by_cases hg : gate L c = true <;> simp [betaCbn, hg]
  | abs b _ =>
    intro fuel c hf _
    cases fuel with
    | zero => simp [size] at hf
    | succ fuel => by_cases hg : gate L c = true <;> simp [betaCbn, hg]
  | app l r ihl _ =>
    intro fuel c hf hn
    cases fuel with
    | zero => simp [size] at hf
    | succ fuel =>
      simp only [size] at hf
      by_cases hg : gate L c = true
      · simp [betaCbn, hg]
      · have hneu : neutral l = true := by simpa [isWHNF, neutral] using hn
        have hw : isWHNF l = true := by cases l <;> simp_all [isWHNF, neutral]
        have hl := ihl fuel c (by omega) hw
        rw [betaCbn]
        simp only [hg, hl]
        cases l <;> simp_all [neutral]


theorem isNormal_app {l r : Term} (h : isNormal (app l r) = true) :
    isAbs l = false ∧ isNormal l = true ∧ isNormal r = true := by
  simp only [isNormal, Bool.and_eq_true, Bool.not_eq_true'] at h
  exact ⟨h.1.1, h.1.2, h.2⟩

theorem isWHNF_of_neutral {t : Term} (h : neutral t = true) : isWHNF t = true := by
  cases t <;> simp_all [isWHNF, neutral]

theorem betaNor_nf_fixed (L : Nat) (t : Term) : ∀ fuel c, size t ≤ fuel → isNormal t = true →
    betaNor L fuel t c = some (t, c) := by
  induction t with
  | var i =>
    intro fuel c hf _
    cases fuel with
    | zero => simp [size] at hf
    | succ fuel => by_cases hg : gate L c = true <;> simp [betaNor, hg]
  | abs b ih =>
    intro fuel c hf hn
    cases fuel with
    | zero => simp [size] at hf
    | succ fuel =>
      simp only [size] at hf
      by_cases hg : gate L c = true
      · simp [betaNor, hg]
      · have hb := ih fuel c (by omega) (by simpa [isNormal] using hn)
        simp [betaNor, hg, hb]
  | app l r ihl ihr =>
    intro fuel c hf hn
    cases fuel with
    | zero => simp [size] at hf
    | succ fuel =>
      simp only [size] at hf
      by_cases hg : gate L c = true
      · simp [betaNor, hg]
      · obtain ⟨hna, hnl, hnr⟩ := isNormal_app hn
        have h1 := betaCbn_whnf_fixed L l fuel c (by omega)
          (isWHNF_of_neutral (isNormal_neutral hnl hna))
        have h2 := ihl fuel c (by omega) hnl
        have h3 := ihr fuel c (by omega) hnr
        rw [betaNor]
        simp [hg, h1, hna, h2, h3]

theorem betaCbv_wnf_fixed (L : Nat) (t : Term) : ∀ fuel c, size t ≤ fuel → isWNF t = true →
    betaCbv L fuel t c = some (t, c) := by
  induction t with
  | var i =>
    intro fuel c hf _
    cases fuel with
    | zero => simp [size] at hf
    | succ fuel => by_cases hg : gate L c = true <;> simp [betaCbv, hg]
  | abs b _ =>
    intro fuel c hf _
    cases fuel with
    | zero => simp [size] at hf
    | succ fuel => by_cases hg : gate L c = true <;> simp [betaCbv, hg]
  | app l r ihl ihr =>
    intro fuel c hf hn
    cases fuel with
    | zero => simp [size] at hf
    | succ fuel =>
      simp only [size] at hf
      by_cases hg : gate L c = true
      · simp [betaCbv, hg]
      · simp only [isWNF, Bool.and_eq_true, Bool.not_eq_true'] at hn
        have h1 := ihl fuel c (by omega) hn.1.2
        have h2 := ihr fuel c (by omega) hn.2
        rw [betaCbv]
        simp only [hg, h1, h2]
        cases l <;> simp_all [isAbs]

theorem betaApp_nf_fixed (L : Nat) (t : Term) : ∀ fuel c, size t ≤ fuel → isNormal t = true →
    betaApp L fuel t c = some (t, c) := by
  induction t with
  | var i =>
    intro fuel c hf _
    cases fuel with
    | zero => simp [size] at hf
    | succ fuel => by_cases hg : gate L c = true <;> simp [betaApp, hg]
  | abs b ih =>
    intro fuel c hf hn
    cases fuel with
    | zero => simp [size] at hf
    | succ fuel =>
      simp only [size] at hf
      by_cases hg : gate L c = true
      · simp [betaApp, hg]
      · have hb := ih fuel c (by omega) (by simpa [isNormal] using hn)
        simp [betaApp, hg, hb]
  | app l r ihl ihr =>
    intro fuel c hf hn
    cases fuel with
    | zero => simp [size] at hf
    | succ fuel =>
      simp only [size] at hf
      by_cases hg : gate L c = true
      · simp [betaApp, hg]
      · obtain ⟨hna, hnl, hnr⟩ := isNormal_app hn
        have h1 := ihl fuel c (by omega) hnl
        have h2 := ihr fuel c (by omega) hnr
        rw [betaApp]
        simp only [hg, h1, h2]
        cases l <;> simp_all [isAbs]

theorem betaHap_nf_fixed (L : Nat) (t : Term) : ∀ fuel c, size t ≤ fuel → isNormal t = true →
    betaHap L fuel t c = some (t, c) := by
  induction t with
  | var i =>
    intro fuel c hf _
    cases fuel with
    | zero => simp [size] at hf
    | succ fuel => by_cases hg : gate L c = true <;> simp [betaHap, hg]
  | abs b ih =>
    intro fuel c hf hn
    cases fuel with
    | zero => simp [size] at hf
    | succ fuel =>
      simp only [size] at hf
      by_cases hg : gate L c = true
      · simp [betaHap, hg]
      · have hb := ih fuel c (by omega) (by simpa [isNormal] using hn)
        simp [betaHap, hg, hb]
  | app l r ihl ihr =>
    intro fuel c hf hn
    cases fuel with
    | zero => simp [size] at hf
    | succ fuel =>
      simp only [size] at hf
      by_cases hg : gate L c = true
      · simp [betaHap, hg]
      · obtain ⟨hna, hnl, hnr⟩ := isNormal_app hn
        have h1 := betaCbv_wnf_fixed L l fuel c (by omega) (isNormal_isWNF hnl)
        have h2 := ihr fuel c (by omega) hnr
        have h3 := ihl fuel c (by omega) hnl
        rw [betaHap]
        simp [hg, h1, h2, hna, h3]

theorem betaHsp_hnf_fixed (L : Nat) (t : Term) : ∀ fuel c, size t ≤ fuel → isHNF t = true →
    betaHsp L fuel t c = some (t, c) := by
  induction t with
  | var i =>
    intro fuel c hf _
    cases fuel with
    | zero => simp [size] at hf
    | succ fuel => by_cases hg : gate L c = true <;> simp [betaHsp, hg]
  | abs b ih =>
    intro fuel c hf hn
    cases fuel with
    | zero => simp [size] at hf
    | succ fuel =>
      simp only [size] at hf
      by_cases hg : gate L c = true
      · simp [betaHsp, hg]
      · have hb := ih fuel c (by omega) (by simpa [isHNF] using hn)
        simp [betaHsp, hg, hb]
  | app l r ihl _ =>
    intro fuel c hf hn
    cases fuel with
    | zero => simp [size] at hf
    | succ fuel =>
      simp only [size] at hf
      by_cases hg : gate L c = true
      · simp [betaHsp, hg]
      · have hneu : neutral l = true := by simpa [isHNF, neutral] using hn
        have hw : isHNF l = true := by cases l <;> simp_all [isHNF, neutral]
        have hl := ihl fuel c (by omega) hw
        rw [betaHsp]
        simp only [hg, hl]
        cases l <;> simp_all [neutral]

theorem betaHno_nf_fixed (L : Nat) (t : Term) : ∀ fuel c, size t ≤ fuel → isNormal t = true →
    betaHno L fuel t c = some (t, c) := by
  induction t with
  | var i =>
    intro fuel c hf _
    cases fuel with
    | zero => simp [size] at hf
    | succ fuel => by_cases hg : gate L c = true <;> simp [betaHno, hg]
  | abs b ih =>
    intro fuel c hf hn
    cases fuel with
    | zero => simp [size] at hf
    | succ fuel =>
      simp only [size] at hf
      by_cases hg : gate L c = true
      · simp [betaHno, hg]
      · have hb := ih fuel c (by omega) (by simpa [isNormal] using hn)
        simp [betaHno, hg, hb]
  | app l r ihl ihr =>
    intro fuel c hf hn
    cases fuel with
    | zero => simp [size] at hf
    | succ fuel =>
      simp only [size] at hf
      by_cases hg : gate L c = true
      · simp [betaHno, hg]
      · obtain ⟨hna, hnl, hnr⟩ := isNormal_app hn
        have h1 := betaHsp_hnf_fixed L l fuel c (by omega) (isNormal_isHNF hnl)
        have h2 := ihl fuel c (by omega) hnl
        have h3 := ihr fuel c (by omega) hnr
        rw [betaHno]
        simp [hg, h1, hna, h2, h3]

/-- all seven traversals leave a term in the documented normal form unchanged, count included -/
theorem betaOrd_nf_fixed (o : Order) (L : Nat) (t : Term) (fuel c : Nat) (hf : size t ≤ fuel)
    (hn : NF o t = true) : betaOrd o L fuel t c = some (t, c) := by
  cases o <;> simp only [betaOrd, NF] at hn ⊢
  · exact betaNor_nf_fixed L t fuel c hf hn
  · exact betaCbn_whnf_fixed L t fuel c hf hn
  · exact betaHsp_hnf_fixed L t fuel c hf hn
  · exact betaHno_nf_fixed L t fuel c hf hn
  · exact betaApp_nf_fixed L t fuel c hf hn
  · exact betaCbv_wnf_fixed L t fuel c hf hn
  · exact betaHap_nf_fixed L t fuel c hf hn

theorem reduce_nf_fixed (o : Order) (L : Nat) (t : Term) (fuel : Nat) (hf : size t ≤ fuel)
    (hn : NF o t = true) : reduce o L fuel t = some (t, 0) :=
  betaOrd_nf_fixed o L t fuel 0 hf hn


/-! ### bounded and unbounded runs of a deterministic partial function -/

/-- `u`, `c` is the result of running `f` from `t` for at most `L` steps (here `L = 0` means
"no step at all"): `c` steps were made, `c ≤ L`, and if `c < L` the run stopped because `f` is
undefined at `u`. -/
def BRun (f : Term → Option Term) (L : Nat) (t u : Term) (c : Nat) : Prop :=
  Iter f c t u ∧ c ≤ L ∧ (c < L → f u = none)

/-- `u`, `c` is the result of running `f` from `t` until it is undefined -/
def URun (f : Term → Option Term) (t u : Term) (c : Nat) : Prop :=
  Iter f c t u ∧ f u = none

variable {f : Term → Option Term}

/-- a run that has stopped at `u` after `c` steps cannot be extended -/
theorem iter_le_of_none {c c' : Nat} {t u u' : Term} (h : Iter f c t u) (hn : f u = none)
    (h' : Iter f c' t u') : c' ≤ c := by
  by_cases hle : c' ≤ c
  · exact hle
  · obtain ⟨w, h1, h2⟩ := Iter.split c (by omega) h'
    have := Iter.det h h1
    subst this
    have := (Iter.of_none h2 hn).1
    omega

theorem BRun.le_of_iter {L c c' : Nat} {t u u' : Term} (h : BRun f L t u c)
    (h' : Iter f c' t u') (hc' : c' ≤ L) : c' ≤ c := by
  obtain ⟨it, _, hn⟩ := h
  by_cases hlt : c < L
  · exact iter_le_of_none it (hn hlt) h'
  · omega

theorem BRun.unique {L c c' : Nat} {t u u' : Term} (h : BRun f L t u c) (h' : BRun f L t u' c') :
    u' = u ∧ c' = c := by
  have h1 := h.le_of_iter h'.1 h'.2.1
  have h2 := h'.le_of_iter h.1 h.2.1
  have hc : c' = c := by omega
  subst hc
  exact ⟨Iter.det h'.1 h.1, rfl⟩

theorem URun.unique {c c' : Nat} {t u u' : Term} (h : URun f t u c) (h' : URun f t u' c') :
    u' = u ∧ c' = c := by
  have h1 := iter_le_of_none h.1 h.2 h'.1
  have h2 := iter_le_of_none h'.1 h'.2 h.1
  have hc : c' = c := by omega
  subst hc
  exact ⟨Iter.det h'.1 h.1, rfl⟩

theorem BRun.zero (t : Term) : BRun f 0 t t 0 := ⟨Iter.zero t, Nat.le_refl 0, fun h => by omega⟩

/-- truncated runs compose: at most `n` steps followed by at most `m` steps is at most `n + m` steps -/
theorem BRun.comp {n m c d : Nat} {t u v : Term} (h1 : BRun f n t u c) (h2 : BRun f m u v d) :
    BRun f (n + m) t v (c + d) := by
  obtain ⟨it1, le1, n1⟩ := h1
  obtain ⟨it2, le2, n2⟩ := h2
  refine ⟨Iter.trans it1 it2, by omega, fun hlt => ?_⟩
  by_cases hd : d < m
  · exact n2 hd
  · have hc : c < n := by omega
    obtain ⟨hd0, hv⟩ := Iter.of_none it2 (n1 hc)
    subst hv
    exact n1 hc

/-- a truncated run followed by a run to the end is the run to the end -/
theorem BRun.comp_urun {n c d : Nat} {t u v : Term} (h1 : BRun f n t u c) (h2 : URun f u v d) :
    URun f t v (c + d) :=
  ⟨Iter.trans h1.1 h2.1, h2.2⟩

/-- a truncated run that did not use up its bound is the run to the end -/
theorem BRun.urun {n c : Nat} {t u : Term} (h : BRun f n t u c) (hc : c < n) : URun f t u c :=
  ⟨h.1, h.2.2 hc⟩

/-- a run to the end, seen through a bound it does not reach -/
theorem URun.brun {n c : Nat} {t u : Term} (h : URun f t u c) (hc : c ≤ n) : BRun f n t u c :=
  ⟨h.1, hc, fun _ => h.2⟩

/-! ### `reduce` computes these runs -/

theorem reduce_brun {o : Order} {L fuel : Nat} {t t' : Term} {c : Nat} (hL : L ≠ 0)
    (h : reduce o L fuel t = some (t', c)) : BRun (stepOrd o) L t t' c := by
  obtain ⟨it, hle, hn⟩ := reduce_sound o L fuel t t' c h
  exact ⟨it, hle hL, fun hlt => hn (Or.inr hlt)⟩

theorem reduce_urun {o : Order} {fuel : Nat} {t t' : Term} {c : Nat}
    (h : reduce o 0 fuel t = some (t', c)) : URun (stepOrd o) t t' c := by
  obtain ⟨it, _, hn⟩ := reduce_sound o 0 fuel t t' c h
  exact ⟨it, hn (Or.inl rfl)⟩

theorem reduce_steps {o : Order} {L fuel : Nat} {t t' : Term} {c : Nat}
    (h : reduce o L fuel t = some (t', c)) : Steps c t t' :=
  Iter.steps o (reduce_sound o L fuel t t' c h).1

theorem reduce_star {o : Order} {L fuel : Nat} {t t' : Term} {c : Nat}
    (h : reduce o L fuel t = some (t', c)) : Star t t' :=
  (reduce_steps h).star

/-- a completed run of one of the four normalising orders ends in a β-normal term -/
theorem reduce_normal {o : Order} {L fuel : Nat} {t t' : Term} {c : Nat} (ho : NF o = isNormal)
    (h : reduce o L fuel t = some (t', c)) (hl : L = 0 ∨ c < L) : Normal t' :=
  stepOrd_none_normal ho ((reduce_sound o L fuel t t' c h).2.2 hl)

end RL
end LC
