/-
The wire format of the line protocol (DESIGN §3.2), as lists of words: the SPECIFICATION side of the codec theorems
(`LC/Props/TieCodec.lean`).  A protocol line is a list of words joined by single spaces; for every kind of value the
functions below give its words.  The codec itself (what the driver runs) is `LC/Drv/Codec.lean`; that the two agree is
proved in `LC/Proofs/DriverCodec*.lean`.
-/
import LC.Drv.Codec

open LC LC.Term LC.Parser

namespace Drv

/-! ## words -/

/-- a list of words: non-empty, space-free strings -/
def Words (l : List String) : Prop := ∀ w ∈ l, w ≠ "" ∧ ' ' ∉ w.toList

/-- the line made of the given words -/
def lineOf (ws : List String) : String := " ".intercalate ws

/-! ## terms -/

/-- the protocol words of a term (prefix notation) -/
def termWords : Term → List String
  | .var n => [toString n]
  | .abs b => "L" :: termWords b
  | .app l r => "A" :: (termWords l ++ termWords r)

/-- `Spells ws t`: the word list `ws` spells the term `t` (numbers in any form `String.toNat?` accepts) -/
inductive Spells : List String → Term → Prop
  | var {w : String} {k : Nat} : w.toNat? = some k → Spells [w] (.var k)
  | abs {ws : List String} {b : Term} : Spells ws b → Spells ("L" :: ws) (.abs b)
  | app {ws vs : List String} {l r : Term} : Spells ws l → Spells vs r → Spells ("A" :: (ws ++ vs)) (.app l r)

/-! ## orders, encodings, calls, characters -/

/-- the protocol word of a reduction order -/
def orderWord : Order → String
  | .NOR => "NOR" | .CBN => "CBN" | .HSP => "HSP" | .HNO => "HNO"
  | .APP => "APP" | .CBV => "CBV" | .HAP => "HAP"

/-- the protocol word of a numeral encoding -/
def encWord : Enc.Encoding → String
  | .Church => "church" | .Scott => "scott" | .Parigot => "parigot"
  | .StumpFu => "stumpfu" | .Binary => "binary"

/-- the two protocol words of a `reduce` call -/
def callWords (c : Order × Nat) : List String := [orderWord c.1, toString c.2]

/-- the protocol word of a character with its classification: `cp:flags:dig` -/
def charWord (x : Nat × Nat × Nat) : String := ":".intercalate [toString x.1, toString x.2.1, toString x.2.2]

/-! ## expression trees -/

mutual
/-- the protocol words of an expression tree (prefix form) -/
def exprWords : Expression → List String
  | .Abstraction => ["A"]
  | .Variable i => ["V" ++ toString i]
  | .Sequence es => ("S" ++ toString es.length) :: exprsWords es
def exprsWords : List Expression → List String
  | [] => []
  | e :: es => exprWords e ++ exprsWords es
end

/-! ## code-point strings and parse errors -/

/-- the words of a code-point string: its length, then its code points -/
def cpsWords (s : List Nat) : List String := toString s.length :: s.map toString

/-- the words of a parse error -/
def errWords : ParseError → List String
  | .InvalidCharacter i c => ["err", "IC", toString i, toString c]
  | .InvalidExpression => ["err", "IE"]
  | .EmptyExpression => ["err", "EE"]

/-! ## result lines -/

def resTermWords : Except TermError Term → List String
  | .ok t => "ok" :: termWords t
  | .error e => ["err", errName e]

def resNatWords : Except TermError Nat → List String
  | .ok n => ["ok", toString n]
  | .error e => ["err", errName e]

def resPairWords : Except TermError (Term × Term) → List String
  | .ok (l, r) => "ok" :: (termWords l ++ "," :: termWords r)
  | .error e => ["err", errName e]

def resToksWords : Except ParseError (List Token) → List String
  | .ok ts => "ok" :: ts.map showTok
  | .error e => errWords e

def resCToksWords : Except ParseError (List CToken) → List String
  | .ok ts => "ok" :: ts.map showCTok
  | .error e => errWords e

def resConvWords : Option (List Token) → List String
  | some ts => "ok" :: ts.map showTok
  | none => ["PANIC"]

def resAstWords : Except ParseError Expression → List String
  | .ok e => "ok" :: exprWords e
  | .error e => errWords e

def resFoldWords : Except ParseError Term → List String
  | .ok t => "ok" :: termWords t
  | .error e => errWords e

def resParseWords : Outcome → List String
  | .ok t => "ok" :: termWords t
  | .err e => errWords e
  | .panic => ["PANIC"]

def resReduceWords : Option (Term × Nat) → List String
  | some (t, c) => toString c :: termWords t
  | none => ["fuel"]

def resBetaWords : Option Term → List String
  | some t => termWords t
  | none => ["fuel"]

/-- the words of the answer of `apply` -/
def resApplyWords (t : Term) : Term × Except TermError Unit → List String
  | (t', .ok ()) => "ok" :: termWords t'
  | (t', .error e) => if t' == t then ["err", errName e] else "err" :: errName e :: "CHANGED" :: termWords t'

/-- the words of the answer of `signed` -/
def resSignedWords : Option Term → List String
  | some t => termWords t
  | none => ["PANIC"]

end Drv
