/-
Second half of the driver protocol: lexer / parser / printer / encoder operations.
-/
import LC.Model.Term
import LC.Model.Encode
import LC.Model.Parser
import LC.Model.Display

open LC LC.Term LC.Parser

namespace Drv2

partial def encTerm (t : Term) (acc : String) : String :=
  match t with
  | .var n => acc ++ toString n
  | .abs b => encTerm b (acc ++ "L ")
  | .app l r => encTerm r (encTerm l (acc ++ "A ") ++ " ")

def showTerm (t : Term) : String := encTerm t ""

partial def decTerm : List String → Option (Term × List String)
  | [] => none
  | "L" :: rest => do
    let (b, rest') ← decTerm rest
    pure (.abs b, rest')
  | "A" :: rest => do
    let (l, r1) ← decTerm rest
    let (r, r2) ← decTerm r1
    pure (.app l r, r2)
  | n :: rest => do
    let k ← n.toNat?
    pure (.var k, rest)

partial def decTerms : Nat → List String → Option (List Term × List String)
  | 0, ts => some ([], ts)
  | n+1, ts => do
    let (t, r) ← decTerm ts
    let (more, r') ← decTerms n r
    pure (t :: more, r')

/-- a character on the wire: `cp:flags:dig`, flags = 1 ws | 2 alpha | 4 alnum, dig = 16 for none -/
def decChar (s : String) : Option (Nat × Nat × Nat) :=
  match s.splitOn ":" with
  | [a, b, c] => do pure (← a.toNat?, ← b.toNat?, ← c.toNat?)
  | _ => none

def decChars (n : Nat) (ts : List String) : Option (List (Nat × Nat × Nat)) :=
  (ts.take n).mapM decChar

def lookup (tbl : List (Nat × Nat × Nat)) (c : Nat) : Nat × Nat :=
  match tbl.find? (fun x => x.1 == c) with
  | some (_, f, d) => (f, d)
  | none => (0, 16)

def mkCls (tbl : List (Nat × Nat × Nat)) : CharCls where
  isWs c := (lookup tbl c).1 % 2 == 1
  isAlpha c := (lookup tbl c).1 / 2 % 2 == 1
  isAlnum c := (lookup tbl c).1 / 4 % 2 == 1
  digit16 c := let d := (lookup tbl c).2; if d < 16 then some d else none

def showErr : ParseError → String
  | .InvalidCharacter i c => "err IC " ++ toString i ++ " " ++ toString c
  | .InvalidExpression => "err IE"
  | .EmptyExpression => "err EE"

def showTok : Token → String
  | .Lambda => "L" | .Lparen => "(" | .Rparen => ")" | .Number n => "N" ++ toString n

def showName (n : List Nat) : String := ".".intercalate (n.map toString)

def showCTok : CToken → String
  | .CLambda n => "CL:" ++ showName n
  | .CLparen => "(" | .CRparen => ")"
  | .CName n => "CN:" ++ showName n

def decName (s : String) : Option (List Nat) :=
  if s.isEmpty then some [] else (s.splitOn ".").mapM (·.toNat?)

def decCTok (s : String) : Option CToken :=
  if s == "(" then some .CLparen
  else if s == ")" then some .CRparen
  else if s.startsWith "CL:" then CToken.CLambda <$> decName (s.drop 3).toString
  else if s.startsWith "CN:" then CToken.CName <$> decName (s.drop 3).toString
  else none

def decTok (s : String) : Option Token :=
  if s == "L" then some .Lambda
  else if s == "(" then some .Lparen
  else if s == ")" then some .Rparen
  else if s.startsWith "N" then Token.Number <$> (s.drop 1).toString.toNat?
  else none

/-- expressions on the wire, prefix form: `A` (Abstraction), `V<i>` (Variable), `S<n>` followed by n expressions -/
partial def showExpr : Expression → String
  | .Abstraction => "A"
  | .Variable i => "V" ++ toString i
  | .Sequence es => " ".intercalate (("S" ++ toString es.length) :: es.map showExpr)

mutual
partial def decExpr : List String → Option (Expression × List String)
  | [] => none
  | w :: rest =>
    if w == "A" then some (.Abstraction, rest)
    else if w.startsWith "V" then do
      let i ← (w.drop 1).toString.toNat?
      pure (.Variable i, rest)
    else if w.startsWith "S" then do
      let n ← (w.drop 1).toString.toNat?
      let (es, rest') ← decExprs n rest
      pure (.Sequence es, rest')
    else none
partial def decExprs : Nat → List String → Option (List Expression × List String)
  | 0, ts => some ([], ts)
  | n+1, ts => do
    let (e, r) ← decExpr ts
    let (more, r') ← decExprs n r
    pure (e :: more, r')
end

def showCps (s : List Nat) : String :=
  toString s.length ++ s.foldl (fun acc c => acc ++ " " ++ toString c) ""

def encOf : String → Option Enc.Encoding
  | "church" => some .Church | "scott" => some .Scott | "parigot" => some .Parigot
  | "stumpfu" => some .StumpFu | "binary" => some .Binary | _ => none

def decNats (n : Nat) (ts : List String) : Option (List Nat) := (ts.take n).mapM (·.toNat?)

def exec2 (toks : List String) : String :=
  match toks with
  | "lexd" :: n :: rest =>
    (do
      let n' ← n.toNat?
      let chars ← decChars n' rest
      let cls := mkCls chars
      pure (match tokenizeDbr cls (chars.map (fun (x : Nat × Nat × Nat) => x.1)) with
        | .ok ts => " ".intercalate ("ok" :: ts.map showTok)
        | .error e => showErr e)).getD "bad-op"
  | "lexc" :: n :: rest =>
    (do
      let n' ← n.toNat?
      let chars ← decChars n' rest
      let cls := mkCls chars
      pure (match tokenizeCla cls (chars.map (fun (x : Nat × Nat × Nat) => x.1)) with
        | .ok ts => " ".intercalate ("ok" :: ts.map showCTok)
        | .error e => showErr e)).getD "bad-op"
  | "conv" :: n :: rest =>
    (do
      let n' ← n.toNat?
      let cts ← (rest.take n').mapM decCTok
      pure (match convertClassicTokens cts with
        | some ts => " ".intercalate ("ok" :: ts.map showTok)
        | none => "PANIC")).getD "bad-op"
  | "ast" :: n :: rest =>
    (do
      let n' ← n.toNat?
      let ts ← (rest.take n').mapM decTok
      pure (match getAst ts with
        | .ok e => "ok " ++ showExpr e
        | .error e => showErr e)).getD "bad-op"
  | "fold" :: n :: rest =>
    (do
      let n' ← n.toNat?
      let (es, _) ← decExprs n' rest
      pure (match foldExprs es with
        | .ok t => "ok " ++ showTerm t
        | .error e => showErr e)).getD "bad-op"
  | "parse" :: nota :: n :: rest =>
    (do
      let n' ← n.toNat?
      let chars ← decChars n' rest
      let cls := mkCls chars
      let no ← (if nota == "d" then some Notation.DeBruijn else if nota == "c" then some Notation.Classic else none)
      pure (match parse cls (chars.map (fun (x : Nat × Nat × Nat) => x.1)) no with
        | .ok t => "ok " ++ showTerm t
        | .err e => showErr e
        | .panic => "PANIC")).getD "bad-op"
  | "show" :: which :: lam :: rest =>
    (do
      let lam' ← lam.toNat?
      let (t, _) ← decTerm rest
      if which == "c" then pure (showCps (Display.display lam' t))
      else if which == "d" then pure (showCps (Display.debug lam' t))
      else none).getD "bad-op"
  | "showu" :: which :: lam :: rest =>
    -- the printers on terms CONTAINING UD (outside the domain of C10 and C11: an advisory operation)
    (do
      let lam' ← lam.toNat?
      let (t, _) ← decTerm rest
      if which == "c" then pure (showCps (Display.display lam' t))
      else if which == "d" then pure (showCps (Display.debug lam' t))
      else none).getD "bad-op"
  | "enc" :: e :: n :: _ =>
    (do
      let e' ← encOf e
      let n' ← n.toNat?
      pure (showTerm (Enc.intoNum e' n'))).getD "bad-op"
  | "signed" :: e :: i :: _ =>
    (do
      let e' ← encOf e
      let i' ← i.toInt?
      pure (match Enc.intoSignedChecked e' i' with
        | some t => showTerm t
        | none => "PANIC")).getD "bad-op"
  | "vect" :: kind :: k :: rest =>
    (do
      let k' ← k.toNat?
      let (ts, _) ← decTerms k' rest
      match kind with
      | "pair" => pure (showTerm (Enc.pairList ts))
      | "from" => pure (showTerm (Enc.pairList ts))      -- `From<Vec<Term>>` builds the same pair list
      | "church" => pure (showTerm (Enc.churchList ts))
      | "scott" => pure (showTerm (Enc.scottList ts))
      | "parigot" => pure (showTerm (Enc.parigotList ts))
      | _ => none).getD "bad-op"
  | "vecn" :: kind :: k :: rest =>
    (do
      let k' ← k.toNat?
      let ns ← decNats k' rest
      match kind with
      | "church" => pure (showTerm (Enc.churchList (ns.map Enc.intoChurch)))
      | "scott" => pure (showTerm (Enc.scottList (ns.map Enc.intoScott)))
      | "parigot" => pure (showTerm (Enc.parigotList (ns.map Enc.intoParigot)))
      | _ => none).getD "bad-op"
  | "frompair" :: rest =>
    (do
      let (a, r1) ← decTerm rest
      let (b, _) ← decTerm r1
      pure (showTerm (Enc.fromPair a b))).getD "bad-op"
  | "fromopt" :: "none" :: _ => showTerm (Enc.fromOption none)
  | "fromopt" :: "some" :: rest =>
    (do let (a, _) ← decTerm rest; pure (showTerm (Enc.fromOption (some a)))).getD "bad-op"
  | "fromres" :: "ok" :: rest =>
    (do let (a, _) ← decTerm rest; pure (showTerm (Enc.fromResult (.ok a)))).getD "bad-op"
  | "fromres" :: "err" :: rest =>
    (do let (a, _) ← decTerm rest; pure (showTerm (Enc.fromResult (.error a)))).getD "bad-op"
  | "frombool" :: b :: _ => showTerm (Enc.fromBool (b == "1"))
  | "numpair" :: e :: a :: b :: _ =>
    (do
      let e' ← encOf e
      pure (showTerm (Enc.fromPair (Enc.intoNum e' (← a.toNat?)) (Enc.intoNum e' (← b.toNat?))))).getD "bad-op"
  | "numopt" :: e :: "none" :: _ => (do let _ ← encOf e; pure (showTerm (Enc.fromOption none))).getD "bad-op"
  | "numopt" :: e :: "some" :: a :: _ =>
    (do let e' ← encOf e; pure (showTerm (Enc.fromOption (some (Enc.intoNum e' (← a.toNat?)))))).getD "bad-op"
  | "numres" :: e :: "ok" :: a :: _ =>
    (do let e' ← encOf e; pure (showTerm (Enc.fromResult (.ok (Enc.intoNum e' (← a.toNat?)))))).getD "bad-op"
  | "numres" :: e :: "err" :: a :: _ =>
    (do let e' ← encOf e; pure (showTerm (Enc.fromResult (.error (Enc.intoNum e' (← a.toNat?)))))).getD "bad-op"
  | "tuple" :: k :: rest =>
    (do
      let k' ← k.toNat?
      let (ts, _) ← decTerms k' rest
      match ts with
      | t :: more => pure (showTerm (Enc.tuple t more))
      | [] => none).getD "bad-op"
  | "pi" :: i :: n :: _ =>
    (do pure (showTerm (Enc.pi (← i.toNat?) (← n.toNat?)))).getD "bad-op"
  | "errmsg" :: "term" :: e :: _ =>
    (match e with
     | "NotVar" => some (showCps (Display.termErrorMsg .NotVar))
     | "NotAbs" => some (showCps (Display.termErrorMsg .NotAbs))
     | "NotApp" => some (showCps (Display.termErrorMsg .NotApp))
     | _ => none).getD "bad-op"
  | "errmsg" :: "parse" :: "IC" :: i :: c :: _ =>
    (do pure (showCps (Display.parseErrorMsg (.InvalidCharacter (← i.toNat?) (← c.toNat?))))).getD "bad-op"
  | "errmsg" :: "parse" :: "IE" :: _ => showCps (Display.parseErrorMsg .InvalidExpression)
  | "errmsg" :: "parse" :: "EE" :: _ => showCps (Display.parseErrorMsg .EmptyExpression)
  | "ordname" :: o :: _ =>
    (match o with
     | "NOR" => some Order.NOR | "CBN" => some Order.CBN | "HSP" => some Order.HSP | "HNO" => some Order.HNO
     | "APP" => some Order.APP | "CBV" => some Order.CBV | "HAP" => some Order.HAP | _ => none).map
      (fun o => showCps (Display.orderName o)) |>.getD "bad-op"
  | _ => "bad-op"

end Drv2
