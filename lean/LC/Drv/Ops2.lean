/-
Second half of the driver protocol: lexer / parser / printer / encoder operations.
The codec functions used here (`decTerm`, `showTerm`, `decChars`, `showTok`, `decExprs`, ...) are those of `LC/Drv/Codec.lean`.
-/
import LC.Model.Term
import LC.Model.Encode
import LC.Model.Parser
import LC.Model.Display
import LC.Drv.Codec

open LC LC.Term LC.Parser Drv

namespace Drv2

def lookup (tbl : List (Nat × Nat × Nat)) (c : Nat) : Nat × Nat :=
  match tbl.find? (fun x => x.1 == c) with
  | some (_, f, d) => (f, d)
  | none => (0, 16)

def mkCls (tbl : List (Nat × Nat × Nat)) : CharCls where
  isWs c := (lookup tbl c).1 % 2 == 1
  isAlpha c := (lookup tbl c).1 / 2 % 2 == 1
  isAlnum c := (lookup tbl c).1 / 4 % 2 == 1
  digit16 c := let d := (lookup tbl c).2; if d < 16 then some d else none

/-- `signed` (`none`: the crate refuses) -/
def resSigned : Option Term → String
  | some t => showTerm t
  | none => "PANIC"

def exec2 (toks : List String) : String :=
  match toks with
  | "lexd" :: n :: rest =>
    (do
      let n' ← n.toNat?
      let chars ← decChars n' rest
      let cls := mkCls chars
      pure (resToks (tokenizeDbr cls (chars.map (fun (x : Nat × Nat × Nat) => x.1))))).getD "bad-op"
  | "lexc" :: n :: rest =>
    (do
      let n' ← n.toNat?
      let chars ← decChars n' rest
      let cls := mkCls chars
      pure (resCToks (tokenizeCla cls (chars.map (fun (x : Nat × Nat × Nat) => x.1))))).getD "bad-op"
  | "conv" :: n :: rest =>
    (do
      let n' ← n.toNat?
      let cts ← (rest.take n').mapM decCTok
      pure (resConv (convertClassicTokens cts))).getD "bad-op"
  | "ast" :: n :: rest =>
    (do
      let n' ← n.toNat?
      let ts ← (rest.take n').mapM decTok
      pure (resAst (getAst ts))).getD "bad-op"
  | "fold" :: n :: rest =>
    (do
      let n' ← n.toNat?
      let (es, _) ← decExprs n' rest
      pure (resFold (foldExprs es))).getD "bad-op"
  | "parse" :: nota :: n :: rest =>
    (do
      let n' ← n.toNat?
      let chars ← decChars n' rest
      let cls := mkCls chars
      let no ← (if nota == "d" then some Notation.DeBruijn else if nota == "c" then some Notation.Classic else none)
      pure (resParse (parse cls (chars.map (fun (x : Nat × Nat × Nat) => x.1)) no))).getD "bad-op"
  | "show" :: which :: lam :: rest =>
    (do
      let lam' ← lam.toNat?
      let (t, _) ← decTerm rest
      if which == "c" then pure (showCps (Display.display lam' t))
      else if which == "d" then pure (showCps (Display.debug lam' t))
      else none).getD "bad-op"
  | "showu" :: which :: lam :: rest =>
    -- the printers on terms CONTAINING UD (outside the domain of C10 and C11: an advisory operation)
    (do
      let lam' ← lam.toNat?
      let (t, _) ← decTerm rest
      if which == "c" then pure (showCps (Display.display lam' t))
      else if which == "d" then pure (showCps (Display.debug lam' t))
      else none).getD "bad-op"
  | "enc" :: e :: n :: _ =>
    (do
      let e' ← encOf e
      let n' ← n.toNat?
      pure (showTerm (Enc.intoNum e' n'))).getD "bad-op"
  | "signed" :: e :: i :: _ =>
    (do
      let e' ← encOf e
      let i' ← i.toInt?
      pure (resSigned (Enc.intoSignedChecked e' i'))).getD "bad-op"
  | "vect" :: kind :: k :: rest =>
    (do
      let k' ← k.toNat?
      let (ts, _) ← decTerms k' rest
      match kind with
      | "pair" => pure (showTerm (Enc.pairList ts))
      | "from" => pure (showTerm (Enc.pairList ts))      -- `From<Vec<Term>>` builds the same pair list
      | "church" => pure (showTerm (Enc.churchList ts))
      | "scott" => pure (showTerm (Enc.scottList ts))
      | "parigot" => pure (showTerm (Enc.parigotList ts))
      | _ => none).getD "bad-op"
  | "vecn" :: kind :: k :: rest =>
    (do
      let k' ← k.toNat?
      let ns ← decNats k' rest
      match kind with
      | "church" => pure (showTerm (Enc.churchList (ns.map Enc.intoChurch)))
      | "scott" => pure (showTerm (Enc.scottList (ns.map Enc.intoScott)))
      | "parigot" => pure (showTerm (Enc.parigotList (ns.map Enc.intoParigot)))
      | _ => none).getD "bad-op"
  | "frompair" :: rest =>
    (do
      let (a, r1) ← decTerm rest
      let (b, _) ← decTerm r1
      pure (showTerm (Enc.fromPair a b))).getD "bad-op"
  | "fromopt" :: "none" :: _ => showTerm (Enc.fromOption none)
  | "fromopt" :: "some" :: rest =>
    (do let (a, _) ← decTerm rest; pure (showTerm (Enc.fromOption (some a)))).getD "bad-op"
  | "fromres" :: "ok" :: rest =>
    (do let (a, _) ← decTerm rest; pure (showTerm (Enc.fromResult (.ok a)))).getD "bad-op"
  | "fromres" :: "err" :: rest =>
    (do let (a, _) ← decTerm rest; pure (showTerm (Enc.fromResult (.error a)))).getD "bad-op"
  | "frombool" :: b :: _ => showTerm (Enc.fromBool (b == "1"))
  | "numpair" :: e :: a :: b :: _ =>
    (do
      let e' ← encOf e
      pure (showTerm (Enc.fromPair (Enc.intoNum e' (← a.toNat?)) (Enc.intoNum e' (← b.toNat?))))).getD "bad-op"
  | "numopt" :: e :: "none" :: _ => (do let _ ← encOf e; pure (showTerm (Enc.fromOption none))).getD "bad-op"
  | "numopt" :: e :: "some" :: a :: _ =>
    (do let e' ← encOf e; pure (showTerm (Enc.fromOption (some (Enc.intoNum e' (← a.toNat?)))))).getD "bad-op"
  | "numres" :: e :: "ok" :: a :: _ =>
    (do let e' ← encOf e; pure (showTerm (Enc.fromResult (.ok (Enc.intoNum e' (← a.toNat?)))))).getD "bad-op"
  | "numres" :: e :: "err" :: a :: _ =>
    (do let e' ← encOf e; pure (showTerm (Enc.fromResult (.error (Enc.intoNum e' (← a.toNat?)))))).getD "bad-op"
  | "tuple" :: k :: rest =>
    (do
      let k' ← k.toNat?
      let (ts, _) ← decTerms k' rest
      match ts with
      | t :: more => pure (showTerm (Enc.tuple t more))
      | [] => none).getD "bad-op"
  | "pi" :: i :: n :: _ =>
    (do pure (showTerm (Enc.pi (← i.toNat?) (← n.toNat?)))).getD "bad-op"
  | "errmsg" :: "term" :: e :: _ =>
    (match e with
     | "NotVar" => some (showCps (Display.termErrorMsg .NotVar))
     | "NotAbs" => some (showCps (Display.termErrorMsg .NotAbs))
     | "NotApp" => some (showCps (Display.termErrorMsg .NotApp))
     | _ => none).getD "bad-op"
  | "errmsg" :: "parse" :: "IC" :: i :: c :: _ =>
    (do pure (showCps (Display.parseErrorMsg (.InvalidCharacter (← i.toNat?) (← c.toNat?))))).getD "bad-op"
  | "errmsg" :: "parse" :: "IE" :: _ => showCps (Display.parseErrorMsg .InvalidExpression)
  | "errmsg" :: "parse" :: "EE" :: _ => showCps (Display.parseErrorMsg .EmptyExpression)
  | "ordname" :: o :: _ =>
    (match o with
     | "NOR" => some Order.NOR | "CBN" => some Order.CBN | "HSP" => some Order.HSP | "HNO" => some Order.HNO
     | "APP" => some Order.APP | "CBV" => some Order.CBV | "HAP" => some Order.HAP | _ => none).map
      (fun o => showCps (Display.orderName o)) |>.getD "bad-op"
  | _ => "bad-op"

end Drv2
