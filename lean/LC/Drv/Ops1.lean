/-
First half of the driver protocol: term, substitution and reduction operations (and the dispatch to `Drv2.exec2`).
`exec` maps one protocol line to one result line; it is a library module (not the executable's root) so that
`LC/Props/TieCodec.lean` can state theorems about `exec` itself.
-/
import LC.Model.Term
import LC.Model.Subst
import LC.Model.Reduce
import LC.Model.Encode
import LC.Model.Parser
import LC.Model.Display
import LC.Drv.Codec
import LC.Drv.Ops2

open LC LC.Term

namespace Drv

/-- fuel for the traversals: bounds the depth of the call tree; a `none` is reported as
`fuel` and counted inconclusive by the checker, never as a result -/
def FUEL : Nat := 200000

/-- `usize::MAX` on the 64-bit targets the harness runs on -/
def USIZE_MAX : Nat := 18446744073709551615

/-- does the term contain `var 0` (UD)? -/
def hasUD01 : Term → Bool
  | .var i => i == 0
  | .abs b => hasUD01 b
  | .app l r => hasUD01 l || hasUD01 r

/-- run a history of reduce calls -/
def runHist : List (Order × Nat) → Term → String → Option String
  | [], t, acc => some (acc ++ showTerm t)
  | (o, l) :: rest, t, acc =>
    match reduce o l FUEL t with
    | some (t', c) => runHist rest t' (acc ++ toString c ++ " ")
    | none => none

/-! ## result lines of the operations of this file (the other printers are in `Codec.lean`) -/

/-- `apply`: the receiver after the call is part of the answer: on Err it must be the receiver before the call -/
def resApply (t : Term) : Term × Except TermError Unit → String
  | (t', .ok ()) => "ok " ++ showTerm t'
  | (t', .error e) => if t' == t then "err " ++ errName e else "err " ++ errName e ++ " CHANGED " ++ showTerm t'

/-- `applyb` -/
def resApplyB : Except TermError Term → String
  | .ok t' => if Term.maxIndex t' > USIZE_MAX then "PANIC" else "ok " ++ showTerm t'
  | .error e => "err " ++ errName e

/-- `reduceb` -/
def resReduceB : Option (Term × Nat) → String
  | some (t', c) => if Term.maxIndex t' > USIZE_MAX then "PANIC" else toString c ++ " " ++ showTerm t'
  | none => "fuel"

/-- `pred`: the supercombinator bit is only part of the answer for terms without UD (C18's quantifier) -/
def resPred (t : Term) : String :=
  let sc := if hasUD01 t then "-" else b01 t.isSupercombinator
  b01 t.hasFreeVariables ++ " " ++ sc ++ " " ++ toString t.maxDepth

/-- `acc`: the fifteen accessors -/
def resAcc (t : Term) : String :=
  let fam (uv : Except TermError Nat) (ua : Except TermError Term) (up : Except TermError (Term × Term))
      (lh rh : Except TermError Term) : String :=
    resNat uv ++ " | " ++ resTerm ua ++ " | " ++ resPair up ++ " | " ++ resTerm lh ++ " | " ++ resTerm rh
  fam t.unvar t.unabs t.unapp t.lhs t.rhs ++ " | " ++
    fam t.unvarRef t.unabsRef t.unappRef t.lhsRef t.rhsRef ++ " | " ++
    fam t.unvarMutGet t.unabsMutGet t.unappMutGet t.lhsMutGet t.rhsMutGet ++ " | unchanged 1"

/-- one operation, given as the words of its line -/
def execToks (toks : List String) : String :=
  match toks with
  | "apply" :: rest =>
    (do
      let (t, r1) ← decTerm rest
      let (a, _) ← decTerm r1
      pure (resApply t (Term.applyMut t a))).getD "bad-op"
  -- boundary operations: indices close to usize::MAX.  The crate refuses (panics) to create an index above usize::MAX;
  -- for a single substitution that happens exactly when the model's (unbounded) result contains such an index
  | "applyb" :: rest =>
    (do
      let (t, r1) ← decTerm rest
      let (a, _) ← decTerm r1
      pure (resApplyB (Term.apply t a))).getD "bad-op"
  | "reduceb" :: o :: rest =>
    (do
      let o' ← orderOf o
      let (t, _) ← decTerm rest
      pure (resReduceB (reduce o' 1 FUEL t))).getD "bad-op"
  | "reduce" :: o :: l :: rest =>
    (do
      let o' ← orderOf o
      let l' ← l.toNat?
      let (t, _) ← decTerm rest
      pure (resReduce (reduce o' l' FUEL t))).getD "bad-op"
  | "beta" :: o :: l :: rest =>
    (do
      let o' ← orderOf o
      let l' ← l.toNat?
      let (t, _) ← decTerm rest
      pure (resBeta (beta t o' l' FUEL))).getD "bad-op"
  | "hist" :: n :: rest =>
    (do
      let n' ← n.toNat?
      let (calls, r1) ← parseCalls n' rest
      let (t, _) ← decTerm r1
      pure ((runHist calls t "").getD "fuel")).getD "bad-op"
  | "pred" :: rest =>
    (do
      let (t, _) ← decTerm rest
      pure (resPred t)).getD "bad-op"
  | "iso" :: rest =>
    (do
      let (t, r1) ← decTerm rest
      let (u, _) ← decTerm r1
      pure (b01 (t.isIsomorphicTo u))).getD "bad-op"
  | "acc" :: rest =>
    (do
      let (t, _) ← decTerm rest
      pure (resAcc t)).getD "bad-op"
  | "put" :: which :: rest =>
    (do
      let (t, r1) ← decTerm rest
      match which with
      | "unvar" => do
        let v ← (← r1.head?).toNat?
        pure (resTerm (t.unvarMutPut v))
      | "unabs" => do
        let (v, _) ← decTerm r1
        pure (resTerm (t.unabsMutPut v))
      | "lhs" => do
        let (v, _) ← decTerm r1
        pure (resTerm (t.lhsMutPut v))
      | "rhs" => do
        let (v, _) ← decTerm r1
        pure (resTerm (t.rhsMutPut v))
      | "unapp" => do
        let (v1, r2) ← decTerm r1
        let (v2, _) ← decTerm r2
        pure (resTerm (t.unappMutPut (v1, v2)))
      | _ => none).getD "bad-op"
  | "mapp" :: k :: rest =>
    (do
      let k' ← k.toNat?
      let (ts, _) ← decTerms (k' + 1) rest
      match ts with
      | t0 :: more => pure (showTerm (appMany t0 more))
      | [] => none).getD "bad-op"
  | "mabs" :: n :: rest =>
    (do
      let n' ← n.toNat?
      let (t, _) ← decTerm rest
      pure (showTerm (absN n' t))).getD "bad-op"
  | ["udconst"] => showTerm Term.UD
  | _ => Drv2.exec2 toks

/-- one protocol line to one result line -/
def exec (line : String) : String := execToks (tokenize line)

end Drv
