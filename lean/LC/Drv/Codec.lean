/-
The pure codec of the line protocol (DESIGN §3.2): the functions that turn protocol words into model values
(terms, numbers, orders, encodings, tokens, expressions, characters) and model values into the printed result
line.  Shared by `Driver.lean` (the executable's root) and `LC/Drv/Ops2.lean`; total (every function is checked for termination), so that
`LC/Proofs/DriverCodec.lean` and `LC/Props/TieCodec.lean` can state and prove that the codec carries values
faithfully.  Imports only `LC.Model.*`, so the executable still links natively.

The recursive decoders are written with an explicit fuel argument (structural recursion); the fuel supplied by the
wrappers is large enough for every input (every recursive call consumes at least one word), which is proved:
`Drv.decTerm_nil/_L/_A/_num`, `Drv.decExpr_cons`, ... in `LC/Proofs/DriverCodec.lean` are exactly the defining
equations of the former recursive definitions (which were not checked for termination).
-/
import LC.Model.Term
import LC.Model.Reduce
import LC.Model.Encode
import LC.Model.Parser

open LC LC.Term LC.Parser

namespace Drv

/-! ## lines to words -/

/-- the pieces of `s` between the occurrences of the character `c` (`s.splitOn c` for a one-character separator,
written with `String.split`, for which core has lemmas: `String.toList_split_char`) -/
def splitChar (c : Char) (s : String) : List String := (s.split c).toList.map (·.copy)

/-- the words of a protocol line: the maximal runs of characters other than the space -/
def tokenize (line : String) : List String :=
  (splitChar ' ' line).filter (· ≠ "")

/-! ## terms -/

def encTerm (t : Term) (acc : String) : String :=
  match t with
  | .var n => acc ++ toString n
  | .abs b => encTerm b (acc ++ "L ")
  | .app l r => encTerm r (encTerm l (acc ++ "A ") ++ " ")

def showTerm (t : Term) : String := encTerm t ""

/-- parse one term from a token list (prefix words); `fuel` bounds the number of nested calls -/
def decTermF : Nat → List String → Option (Term × List String)
  | 0, _ => none
  | _+1, [] => none
  | f+1, "L" :: rest => do
    let (b, rest') ← decTermF f rest
    pure (.abs b, rest')
  | f+1, "A" :: rest => do
    let (l, r1) ← decTermF f rest
    let (r, r2) ← decTermF f r1
    pure (.app l r, r2)
  | _+1, n :: rest => do
    let k ← n.toNat?
    pure (.var k, rest)

/-- parse one term from a token list (prefix words) -/
def decTerm (ws : List String) : Option (Term × List String) := decTermF ws.length ws

def decTerms : Nat → List String → Option (List Term × List String)
  | 0, ts => some ([], ts)
  | n+1, ts => do
    let (t, r) ← decTerm ts
    let (more, r') ← decTerms n r
    pure (t :: more, r')

/-! ## orders, errors, results -/

def orderOf : String → Option Order
  | "NOR" => some .NOR | "CBN" => some .CBN | "HSP" => some .HSP | "HNO" => some .HNO
  | "APP" => some .APP | "CBV" => some .CBV | "HAP" => some .HAP | _ => none

def errName : TermError → String
  | .NotVar => "NotVar" | .NotAbs => "NotAbs" | .NotApp => "NotApp"

def resTerm : Except TermError Term → String
  | .ok t => "ok " ++ showTerm t
  | .error e => "err " ++ errName e

def resNat : Except TermError Nat → String
  | .ok n => "ok " ++ toString n
  | .error e => "err " ++ errName e

def resPair : Except TermError (Term × Term) → String
  | .ok (l, r) => "ok " ++ showTerm l ++ " , " ++ showTerm r
  | .error e => "err " ++ errName e

def b01 (b : Bool) : String := if b then "1" else "0"

def parseCalls : Nat → List String → Option (List (Order × Nat) × List String)
  | 0, ts => some ([], ts)
  | n+1, o :: l :: ts => do
    let o' ← orderOf o
    let l' ← l.toNat?
    let (cs, rest) ← parseCalls n ts
    pure ((o', l') :: cs, rest)
  | _, _ => none

/-! ## characters, tokens, names -/

/-- a character on the wire: `cp:flags:dig`, flags = 1 ws | 2 alpha | 4 alnum, dig = 16 for none -/
def decChar (s : String) : Option (Nat × Nat × Nat) :=
  match splitChar ':' s with
  | [a, b, c] => do pure (← a.toNat?, ← b.toNat?, ← c.toNat?)
  | _ => none

def decChars (n : Nat) (ts : List String) : Option (List (Nat × Nat × Nat)) :=
  (ts.take n).mapM decChar

def showErr : ParseError → String
  | .InvalidCharacter i c => "err IC " ++ toString i ++ " " ++ toString c
  | .InvalidExpression => "err IE"
  | .EmptyExpression => "err EE"

def showTok : Token → String
  | .Lambda => "L" | .Lparen => "(" | .Rparen => ")" | .Number n => "N" ++ toString n

def showName (n : List Nat) : String := ".".intercalate (n.map toString)

def showCTok : CToken → String
  | .CLambda n => "CL:" ++ showName n
  | .CLparen => "(" | .CRparen => ")"
  | .CName n => "CN:" ++ showName n

def decName (s : String) : Option (List Nat) :=
  if s.isEmpty then some [] else (splitChar '.' s).mapM (·.toNat?)

def decCTok (s : String) : Option CToken :=
  if s == "(" then some .CLparen
  else if s == ")" then some .CRparen
  else if s.startsWith "CL:" then CToken.CLambda <$> decName (s.drop 3).toString
  else if s.startsWith "CN:" then CToken.CName <$> decName (s.drop 3).toString
  else none

def decTok (s : String) : Option Token :=
  if s == "L" then some .Lambda
  else if s == "(" then some .Lparen
  else if s == ")" then some .Rparen
  else if s.startsWith "N" then Token.Number <$> (s.drop 1).toString.toNat?
  else none

/-! ## expression trees -/

/-- expressions on the wire, prefix form: `A` (Abstraction), `V<i>` (Variable), `S<n>` followed by n expressions -/
def showExpr : Expression → String
  | .Abstraction => "A"
  | .Variable i => "V" ++ toString i
  | .Sequence es => " ".intercalate (("S" ++ toString es.length) :: es.map showExpr)

mutual
def decExprF : Nat → List String → Option (Expression × List String)
  | 0, _ => none
  | _+1, [] => none
  | f+1, w :: rest =>
    if w == "A" then some (.Abstraction, rest)
    else if w.startsWith "V" then do
      let i ← (w.drop 1).toString.toNat?
      pure (.Variable i, rest)
    else if w.startsWith "S" then do
      let n ← (w.drop 1).toString.toNat?
      let (es, rest') ← decExprsF f n rest
      pure (.Sequence es, rest')
    else none
def decExprsF : Nat → Nat → List String → Option (List Expression × List String)
  | _, 0, ts => some ([], ts)
  | 0, _+1, _ => none
  | f+1, n+1, ts => do
    let (e, r) ← decExprF f ts
    let (more, r') ← decExprsF f n r
    pure (e :: more, r')
end

/-- fuel `2·|ws|` is enough for one expression: every call of `decExprF` consumes a word -/
def decExpr (ws : List String) : Option (Expression × List String) := decExprF (2 * ws.length) ws

/-- fuel `2·|ws| + 1` is enough for a sequence of expressions -/
def decExprs (n : Nat) (ws : List String) : Option (List Expression × List String) :=
  decExprsF (2 * ws.length + 1) n ws

/-! ## code-point strings, encodings, number lists -/

def showCps (s : List Nat) : String :=
  toString s.length ++ s.foldl (fun acc c => acc ++ " " ++ toString c) ""

def encOf : String → Option Enc.Encoding
  | "church" => some .Church | "scott" => some .Scott | "parigot" => some .Parigot
  | "stumpfu" => some .StumpFu | "binary" => some .Binary | _ => none

def decNats (n : Nat) (ts : List String) : Option (List Nat) := (ts.take n).mapM (·.toNat?)

/-! ## result lines of the lexer / parser / reducer operations -/

/-- `lexd`, and the token list of `conv` -/
def resToks : Except ParseError (List Token) → String
  | .ok ts => " ".intercalate ("ok" :: ts.map showTok)
  | .error e => showErr e

/-- `lexc` -/
def resCToks : Except ParseError (List CToken) → String
  | .ok ts => " ".intercalate ("ok" :: ts.map showCTok)
  | .error e => showErr e

/-- `conv` (`none`: the crate panics) -/
def resConv : Option (List Token) → String
  | some ts => " ".intercalate ("ok" :: ts.map showTok)
  | none => "PANIC"

/-- `ast` -/
def resAst : Except ParseError Expression → String
  | .ok e => "ok " ++ showExpr e
  | .error e => showErr e

/-- `fold` -/
def resFold : Except ParseError Term → String
  | .ok t => "ok " ++ showTerm t
  | .error e => showErr e

/-- `parse` -/
def resParse : Outcome → String
  | .ok t => "ok " ++ showTerm t
  | .err e => showErr e
  | .panic => "PANIC"

/-- `reduce` (`none`: the model ran out of fuel) -/
def resReduce : Option (Term × Nat) → String
  | some (t', c) => toString c ++ " " ++ showTerm t'
  | none => "fuel"

/-- `beta` -/
def resBeta : Option Term → String
  | some t' => showTerm t'
  | none => "fuel"

end Drv
