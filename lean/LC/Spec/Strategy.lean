/-
The seven evaluation strategies as total, structurally recursive small-step
functions: `stepX t = some t'` when strategy `X` contracts one redex of `t`
(yielding `t'`), `none` when it selects nothing.  `Iter f k t t'` is the k-fold
iteration.  These are the objects the traversals of `Model/Reduce.lean` are shown
to refine; `Props/C05` relates them to positional definitions.
-/
import LC.Model.Reduce

namespace LC
namespace Term

def stepCbn : Term → Option Term
  | app (abs b) r => some (contract b r)
  | app l r => (stepCbn l).map (fun l' => app l' r)
  | _ => none

def stepNor : Term → Option Term
  | var _ => none
  | abs b => (stepNor b).map abs
  | app (abs b) r => some (contract b r)
  | app l r =>
    match stepNor l with
    | some l' => some (app l' r)
    | none => (stepNor r).map (app l)

def stepCbv : Term → Option Term
  | app l r =>
    match stepCbv l with
    | some l' => some (app l' r)
    | none =>
      match stepCbv r with
      | some r' => some (app l r')
      | none =>
        match l with
        | abs b => some (contract b r)
        | _ => none
  | _ => none

def stepApp : Term → Option Term
  | var _ => none
  | abs b => (stepApp b).map abs
  | app l r =>
    match stepApp l with
    | some l' => some (app l' r)
    | none =>
      match stepApp r with
      | some r' => some (app l r')
      | none =>
        match l with
        | abs b => some (contract b r)
        | _ => none

def stepHsp : Term → Option Term
  | var _ => none
  | abs b => (stepHsp b).map abs
  | app l r =>
    match stepHsp l with
    | some l' => some (app l' r)
    | none =>
      match l with
      | abs b => some (contract b r)
      | _ => none

def stepHno : Term → Option Term
  | var _ => none
  | abs b => (stepHno b).map abs
  | app l r =>
    match stepHsp l with
    | some l' => some (app l' r)
    | none =>
      match l with
      | abs b => some (contract b r)
      | _ =>
        match stepHno l with
        | some l' => some (app l' r)
        | none => (stepHno r).map (app l)

def stepHap : Term → Option Term
  | var _ => none
  | abs b => (stepHap b).map abs
  | app l r =>
    match stepCbv l with
    | some l' => some (app l' r)
    | none =>
      match stepHap r with
      | some r' => some (app l r')
      | none =>
        match l with
        | abs b => some (contract b r)
        | _ => (stepHap l).map (fun l' => app l' r)

def stepOrd : Order → Term → Option Term
  | .CBN => stepCbn
  | .NOR => stepNor
  | .CBV => stepCbv
  | .APP => stepApp
  | .HSP => stepHsp
  | .HNO => stepHno
  | .HAP => stepHap

/-- `Iter f k t t'`: `t'` is obtained from `t` by exactly `k` applications of `f` -/
inductive Iter (f : Term → Option Term) : Nat → Term → Term → Prop
  | zero (t : Term) : Iter f 0 t t
  | succ {k : Nat} {t u v : Term} : f t = some u → Iter f k u v → Iter f (k + 1) t v

/-- Post-condition of a traversal started with count `c` on `t` under limit `L`
that returned `(t', c')`:  it performed exactly `k = c' - c` strategy steps, stayed
within the limit, and if budget is left the strategy selects nothing in `t'`. -/
def Post (step : Term → Option Term) (L c : Nat) (t t' : Term) (c' : Nat) : Prop :=
  ∃ k, c' = c + k ∧ Iter step k t t' ∧ (L ≠ 0 → c' ≤ L) ∧ ((L = 0 ∨ c' < L) → step t' = none)

end Term
end LC
