/-
Specification side: textbook de Bruijn β-reduction, defined independently of the
model's one-pass `applyAux`.  Indices are 1-based as in the crate; index 0 (`UD`)
is a constant: never bound, never shifted, never substituted for.

Two-primitive style (TAPL ch. 6 / Nipkow): `lift` (+1 above a cutoff),
`subst` (replace one index, lifting the substituted term when passing a binder),
`lower` (−1 above a cutoff); `substTop b a = lower 0 (subst 1 (lift 0 a) b)`.
-/
import LC.Model.Term

namespace LC
namespace Spec
open Term

/-- add 1 to every index that points above `c` enclosing binders -/
def lift (c : Nat) : Term → Term
  | var k => if k > c then var (k + 1) else var k
  | abs b => abs (lift (c + 1) b)
  | app l r => app (lift c l) (lift c r)

/-- replace index `j` by `s` (no renumbering of other indices) -/
def subst (j : Nat) (s : Term) : Term → Term
  | var k => if k = j then s else var k
  | abs b => abs (subst (j + 1) (lift 0 s) b)
  | app l r => app (subst j s l) (subst j s r)

/-- subtract 1 from every index that points above `c` enclosing binders -/
def lower (c : Nat) : Term → Term
  | var k => if k > c then var (k - 1) else var k
  | abs b => abs (lower (c + 1) b)
  | app l r => app (lower c l) (lower c r)

/-- capture-avoiding substitution of `a` for the variable bound by the binder just removed
from around `b` -/
def substTop (b a : Term) : Term := lower 0 (subst 1 (lift 0 a) b)

/-- one-step β-reduction: contraction of one redex anywhere -/
inductive Beta : Term → Term → Prop
  | red (b a : Term) : Beta (app (abs b) a) (substTop b a)
  | congAbs {b b' : Term} : Beta b b' → Beta (abs b) (abs b')
  | congAppL {l l' r : Term} : Beta l l' → Beta (app l r) (app l' r)
  | congAppR {l r r' : Term} : Beta r r' → Beta (app l r) (app l r')

/-- exactly `n` single β-steps -/
inductive Steps : Nat → Term → Term → Prop
  | zero (t : Term) : Steps 0 t t
  | succ {n : Nat} {t u v : Term} : Beta t u → Steps n u v → Steps (n + 1) t v

/-- reflexive-transitive closure of `Beta` -/
inductive Star : Term → Term → Prop
  | refl (t : Term) : Star t t
  | head {t u v : Term} : Beta t u → Star u v → Star t v

/-- β-normal: no β-step possible -/
def Normal (t : Term) : Prop := ∀ u, ¬ Beta t u

end Spec
end LC
