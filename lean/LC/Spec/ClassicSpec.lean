/-
Specification of the CLASSIC notation (`λx.λy.x y`) — property C09, Classic half.

* `closesOk`, `scopedPrefix`: parenthesis scoping of named tokens.
* `resolve` / `resolveAll`: reference name resolution on named tokens (scopes + free-name list),
  independent of the deque / counters used by the code.
* `cshape`, `shape`: tokens with names / indices forgotten.
* `WfName`, `NameEnd`, `Renders`, `ClsOk`, `EndsTop`: what it means for a string to be a rendering
  of a list of named tokens (glyph choice and whitespace are free; identifiers are a letter followed
  by alphanumeric characters).
* `tokenStage`: the token-level stage of `parse`, shared by the two notations.
* `NTerm`, `toDB`, `toDeBruijn`: named terms and the standard named → De Bruijn translation.
* `printN`, `printD`: token printers with the crate's parenthesisation discipline;
  `PrintsN`, `PrintsD`: all admissible printings (any redundant parentheses).
-/
import LC.Model.Parser

namespace LC.Spec.Cl
open LC LC.Parser LC.Parser.CToken LC.Parser.Token

abbrev Name := List Nat

/-! ## Scoping of named tokens -/

/-- Named tokens are well-scoped w.r.t. parentheses iff every `)` has a matching `(`
(`depth` = number of currently open parentheses).  Binders opened inside a parenthesis group are
closed by its `)`; binders at top level stay open to the end. -/
def closesOk : List CToken → (depth : Nat) → Bool
  | [], _ => true
  | CLparen :: ts, d => closesOk ts (d + 1)
  | CRparen :: _, 0 => false
  | CRparen :: ts, d + 1 => closesOk ts d
  | _ :: ts, d => closesOk ts d

/-- Number of tokens up to and including the first unmatched `)` (all of them if there is none):
the part of the input that the conversion looks at. -/
def scopedPrefix : List CToken → (depth : Nat) → Nat
  | [], _ => 0
  | CLparen :: ts, d => scopedPrefix ts (d + 1) + 1
  | CRparen :: _, 0 => 1
  | CRparen :: ts, d + 1 => scopedPrefix ts d + 1
  | _ :: ts, d => scopedPrefix ts d + 1

/-! ## Reference name resolution -/

/-- Reference name resolution, independent of the deque/counters of the code: process the tokens
left to right with
* `scopes : List (List Name)` — one list of binder names per open parenthesis level, innermost
  level first; within a level the innermost (most recent) binder first; so `scopes.flatten` lists
  all binders in scope, innermost first;
* `free : List Name` — the free names met so far, in order of first appearance.

A name occurrence bound at position `p` of `scopes.flatten` becomes the index `p + 1`; a free name
becomes `(number of binders in scope) + (its rank in free) + 1`. -/
def resolve : List CToken → (scopes : List (List Name)) → (free : List Name) → Option (List Token)
  | [], _, _ => some []
  | _ :: _, [], _ => some []            -- no scope at all (not reachable from `resolveAll`)
  | CLambda n :: ts, sc :: scs, free =>
    (Lambda :: ·) <$> resolve ts ((n :: sc) :: scs) free
  | CLparen :: ts, sc :: scs, free =>
    (Lparen :: ·) <$> resolve ts ([] :: sc :: scs) free
  | CRparen :: _, [_], _ =>
    some [Rparen]                       -- unmatched `)`: the Rust code stops converting here
  | CRparen :: ts, _ :: sc :: scs, free =>
    (Rparen :: ·) <$> resolve ts (sc :: scs) free
  | CName n :: ts, sc :: scs, free =>
    let bound := (sc :: scs).flatten
    match bound.idxOf? n with
    | some p => (Number (p + 1) :: ·) <$> resolve ts (sc :: scs) free
    | none =>
      match free.idxOf? n with
      | some r => (Number (bound.length + r + 1) :: ·) <$> resolve ts (sc :: scs) free
      | none => (Number (bound.length + free.length + 1) :: ·) <$> resolve ts (sc :: scs) (free ++ [n])

/-- resolution of a complete token list: one (top-level) scope, no binder, no free name yet -/
def resolveAll (ts : List CToken) : Option (List Token) := resolve ts [[]] []

/-! ## Shapes (tokens up to names / indices) -/

/-- a named token with its name forgotten -/
def cshape : CToken → Token
  | CLambda _ => Lambda
  | CLparen => Lparen
  | CRparen => Rparen
  | CName _ => Number 0

/-- an index token with its index forgotten -/
def shape : Token → Token
  | Number _ => Number 0
  | t => t

/-! ## Renderings of named tokens as strings -/

/-- A name (an identifier, usable both as a binder and as a variable): a first code point that is
alphabetic and not a lambda glyph, followed by alphanumeric code points; no code point is the dot
(a binder name ends at the dot) and no code point is the glyph `λ` (a letter for Unicode, but it
ends a variable name and opens a binder: `xλy.y` is `x`, `λy.`, `y`).

Nothing else has to be said per character: inside a name the lexer only asks "alphanumeric and not
`λ`?", and that an alphanumeric character (in particular a letter) is not whitespace, a parenthesis
or a backslash is a fact about the classification (`ClsOk`).  (For Rust's classification the dot is
not alphanumeric either, so there the dot clause is redundant: `wfName_of_unicode`.)

(The code accepts a little more for BINDER names — after its first character a binder name may
contain `λ`, pinned by a test of the crate — but such a binder cannot be referred to by any
variable; the well-formed renderings are the natural ones, with one notion of name.) -/
def WfName (cls : CharCls) (n : Name) : Prop :=
  (∃ c cs, n = c :: cs ∧ cls.isAlpha c = true ∧ isLam c = false ∧ ∀ d ∈ cs, cls.isAlnum d = true) ∧
  (∀ d ∈ n, d ≠ cDot) ∧
  ∀ d ∈ n, d ≠ cLambda

/-- what may follow a variable name: the end of the input, or a character that is NOT alphanumeric,
or the glyph `λ` (which is alphanumeric for Unicode but ends a name all the same).  That character
is not part of the name; it is lexed at top level like any other character (so it must be
whitespace, a parenthesis, a glyph — `x\y.y` and `xλy.y` are `x`, `\y.`, `y` — …: this is what
`Renders` requires of the remaining string). -/
def NameEnd (cls : CharCls) : List Nat → Prop
  | [] => True
  | c :: _ => cls.isAlnum c = false ∨ c = cLambda

/-- `Renders cls cts s`: the string `s` is a rendering of the named tokens `cts`.
Arbitrary whitespace may surround tokens; a binder is `glyph ++ name ++ "."` with either glyph;
a variable name is followed by the end of the input or by a character that is not alphanumeric
or is the glyph `λ` (`NameEnd`), with which the rendering of the remaining tokens starts: whitespace,
a parenthesis or the glyph of a binder — either glyph: the backslash is not alphanumeric (`ClsOk`)
and `λ`, although a letter for Rust, ends a name too; no separator is needed (a letter other than
`λ`, which would start another name, is alphanumeric and continues the name). -/
inductive Renders (cls : CharCls) : List CToken → List Nat → Prop
  | nil : Renders cls [] []
  | ws {c cts s} : cls.isWs c = true → Renders cls cts s → Renders cls cts (c :: s)
  | lparen {cts s} : Renders cls cts s → Renders cls (CLparen :: cts) (cLparen :: s)
  | rparen {cts s} : Renders cls cts s → Renders cls (CRparen :: cts) (cRparen :: s)
  | lam {g n cts s} : isLam g = true → WfName cls n → Renders cls cts s →
      Renders cls (CLambda n :: cts) (g :: (n ++ cDot :: s))
  | name {n cts s} : WfName cls n → NameEnd cls s → Renders cls cts s →
      Renders cls (CName n :: cts) (n ++ s)

/-- the only facts about the character classification that the lexer theorems need
(all of them checked against Rust's `char` methods for every code point by the harness):
* whitespace is neither a lambda glyph nor a parenthesis;
* a letter is alphanumeric;
* the delimiters — whitespace, the parentheses, the backslash — are not alphanumeric, i.e. they end
  an identifier.  (`λ` IS alphanumeric for Rust; the lexer ends an identifier at it by an explicit
  test, so nothing is assumed about it.  The dot matters only inside binders, see `WfName`.) -/
def ClsOk (cls : CharCls) : Prop :=
  (∀ c, cls.isWs c = true → isLam c = false ∧ c ≠ cLparen ∧ c ≠ cRparen) ∧
  (∀ c, cls.isAlpha c = true → cls.isAlnum c = true) ∧
  (∀ c, cls.isAlnum c = true →
    cls.isWs c = false ∧ c ≠ cLparen ∧ c ≠ cRparen ∧ c ≠ cBackslash)

/-- the last character of `s` (if any) is whitespace, a parenthesis or a dot: after a rendering
with this property the lexer is back at top level (not inside a name: under `ClsOk` a well-formed
name ends with an alphanumeric character other than the dot, which is none of these).  (The
glyphs, although they end a name, are no alternative here: after a glyph the lexer is inside a
binder, and no rendering ends with a glyph since a binder ends with its dot.) -/
def EndsTop (cls : CharCls) (s : List Nat) : Prop :=
  ∀ c, s.getLast? = some c → cls.isWs c = true ∨ c = cLparen ∨ c = cRparen ∨ c = cDot

/-! ## The token-level stage shared by the two notations -/

/-- what `parse` does with a list of De Bruijn tokens, whichever notation they came from:
`get_ast`, then `fold_exprs` (verbatim from the model of `parse`) -/
def tokenStage (toks : List Token) : Outcome :=
  match getAst toks with
  | .error e => .err e
  | .ok (.Sequence es) =>
    match foldExprs es with
    | .ok t => .ok t
    | .error e => .err e
  | .ok _ => .err .InvalidExpression

/-! ## Named terms and the standard translation to De Bruijn terms -/

/-- λ-terms with names -/
inductive NTerm where
  | nvar (n : Name)
  | nlam (n : Name) (body : NTerm)
  | napp (f a : NTerm)
deriving Repr, DecidableEq

open NTerm Term

/-- The standard named → De Bruijn translation.  `binders` = the binders in scope, innermost
first; `free` = the free names met so far in order of first appearance (threaded left to right).
A bound name becomes the position of its innermost binder + 1; a free name becomes
`binders.length + (its rank in free) + 1`. -/
def toDB (binders : List Name) (free : List Name) : NTerm → Term × List Name
  | nvar n =>
    match binders.idxOf? n with
    | some p => (var (p + 1), free)
    | none =>
      match free.idxOf? n with
      | some r => (var (binders.length + r + 1), free)
      | none => (var (binders.length + free.length + 1), free ++ [n])
  | nlam n b =>
    let (t, free') := toDB (n :: binders) free b
    (abs t, free')
  | napp f a =>
    let (t₁, free₁) := toDB binders free f
    let (t₂, free₂) := toDB binders free₁ a
    (app t₁ t₂, free₂)

/-- translation of a whole (possibly open) term -/
def toDeBruijn (t : NTerm) : Term := (toDB [] [] t).1

/-- `parenthesize_if` on token lists -/
def parenC (ts : List CToken) (c : Bool) : List CToken := if c then CLparen :: (ts ++ [CRparen]) else ts
def parenD (ts : List Token) (c : Bool) : List Token := if c then Lparen :: (ts ++ [Rparen]) else ts

/-- Printer of named terms to named tokens, with the parenthesisation discipline of the crate's
printers (`ctx` = context precedence: 0 top level / abstraction body, 2 function position,
3 argument position): an abstraction is parenthesised unless it is a body or the whole term,
an application is parenthesised in argument position. -/
def printN : NTerm → (ctx : Nat) → List CToken
  | nvar n, _ => [CName n]
  | nlam n b, ctx => parenC (CLambda n :: printN b 0) (decide (ctx > 1))
  | napp f a, ctx => parenC (printN f 2 ++ printN a 3) (ctx == 3)

/-- the same printer for De Bruijn terms, to De Bruijn tokens -/
def printD : Term → (ctx : Nat) → List Token
  | var i, _ => [Number i]
  | abs b, ctx => parenD (Lambda :: printD b 0) (decide (ctx > 1))
  | app f a, ctx => parenD (printD f 2 ++ printD a 3) (ctx == 3)

/-! ## All admissible printings (redundant parentheses allowed) -/

/-- `PrintsN t arg fin cts`: the named tokens `cts` are a printing of `t` with at least the
necessary parentheses and any number of redundant ones.
`arg` = the position is an argument position (an application must be parenthesised there);
`fin` = the position is the last one of its enclosing expression (only there may an abstraction
stay bare, because it extends as far to the right as possible).
A whole expression is printed at `arg = false`, `fin = true`. -/
inductive PrintsN : NTerm → (arg fin : Bool) → List CToken → Prop
  | var {n arg fin} : PrintsN (nvar n) arg fin [CName n]
  | lam {n b arg cts} : PrintsN b false true cts → PrintsN (nlam n b) arg true (CLambda n :: cts)
  | app {f a fin c₁ c₂} : PrintsN f false false c₁ → PrintsN a true fin c₂ →
      PrintsN (napp f a) false fin (c₁ ++ c₂)
  | paren {t arg fin cts} : PrintsN t false true cts →
      PrintsN t arg fin (CLparen :: (cts ++ [CRparen]))

/-- the same for De Bruijn terms and De Bruijn tokens -/
inductive PrintsD : Term → (arg fin : Bool) → List Token → Prop
  | var {i arg fin} : PrintsD (var i) arg fin [Number i]
  | lam {b arg ts} : PrintsD b false true ts → PrintsD (abs b) arg true (Lambda :: ts)
  | app {f a fin t₁ t₂} : PrintsD f false false t₁ → PrintsD a true fin t₂ →
      PrintsD (app f a) false fin (t₁ ++ t₂)
  | paren {t arg fin ts} : PrintsD t false true ts →
      PrintsD t arg fin (Lparen :: (ts ++ [Rparen]))

end LC.Spec.Cl
