/-
Independent specification of "supercombinator" (the definition the documentation of
`is_supercombinator` links to), used by property C18.  Definitions only.

Everything lives in `LC.Spec.SC` so that the auxiliary names (`hasUD`, `closedAt`, …) cannot
clash with similarly named definitions elsewhere in `LC.Spec`.
-/
import LC.Model.Term

namespace LC
namespace Spec
namespace SC
open Term

/-- no index exceeds the number of enclosing binders (counting `d` binders of context);
    UD (index 0) is not a free variable here -/
def closedAt (d : Nat) : Term → Bool
  | var i => decide (i ≤ d)
  | abs b => closedAt (d + 1) b
  | app l r => closedAt d l && closedAt d r

/-- `var 0` (the `UD` placeholder) occurs -/
def hasUD : Term → Bool
  | var i => i == 0
  | abs b => hasUD b
  | app l r => hasUD l || hasUD r

/-- strip the leading abstractions: `t = absN n E` (n-fold abs) with `E` not an abstraction -/
def stripAbs : Term → Nat × Term
  | abs b => let (n, e) := stripAbs b; (n + 1, e)
  | t => (0, t)

/-- the maximal abstraction subterms of `E` (those not inside another abstraction of `E`) -/
def topAbs : Term → List Term
  | var _ => []
  | abs b => [abs b]
  | app l r => topAbs l ++ topAbs r

/-- Supercombinator (Wikipedia / Peyton Jones): a closed term `λx₁…xₙ.E` (n ≥ 0, `E` not an
    abstraction) such that every abstraction occurring in `E` is itself a supercombinator.
    It suffices to ask it of the maximal ones, the others are reached recursively. -/
inductive Supercombinator : Term → Prop
  | mk (t : Term) : closedAt 0 t = true →
      (∀ s ∈ topAbs (stripAbs t).2, Supercombinator s) → Supercombinator t

end SC
end Spec
end LC
