/-
Specification of the Classic LEXER on ALL strings (property C09, Classic half, converse direction).

`LC/Spec/ClassicSpec.lean` says what a RENDERING of named tokens is (`Renders`: the documented
lexical elements) and the theorems of `LC/Props/C09.lean` are about renderings.  This file describes
every string:

* `BName`      — a binder name as the lexer reads it (a letter, then alphanumeric characters): unlike
                 `WfName` it may contain the glyph `λ`, a letter for Unicode (known finding 2).
* `RendersB`   — `Renders` with `BName` for binder names: renderings of COMPLETE tokens.
* `GlyphFree`  — no binder name contains `λ`; `RendersB` + `GlyphFree` = `Renders`.
* `CutBinder`  — the input ends inside a binder (`… λ`, `… λxy`): the lexer pushes the unterminated
                 (possibly empty) binder.
* `Lexes`      — `RendersB ∨ CutBinder`: exactly the strings on which the lexer succeeds.
* `Offending`  — `Offending cls pre c`: after the prefix `pre` the character `c` is a lexical error
                 (three lexer modes: token boundary / first character of a binder name / later
                 character of a binder name).
-/
import LC.Spec.ClassicSpec

namespace LC.Spec.Cl
open LC LC.Parser LC.Parser.CToken LC.Parser.Token

/-- A binder name as the lexer reads it: a letter followed by alphanumeric characters other than the
dot (which ends the binder).  The glyph `λ` is a letter for Unicode, so it may occur anywhere in
such a name, also as its first character (`\λ.x`, `λxλy.x`): known finding 2 of DESIGN §8b.
(`WfName` = `BName` without `λ`, see `wfName_iff_bName`.) -/
def BName (cls : CharCls) (n : Name) : Prop :=
  ∃ c cs, n = c :: cs ∧ cls.isAlpha c = true ∧ ∀ d ∈ cs, cls.isAlnum d = true ∧ d ≠ cDot

/-- `RendersB cls cts s`: the string `s` is a rendering of the COMPLETE named tokens `cts`, where a
binder name is whatever the lexer accepts as one (`BName`); everything else is as in `Renders`. -/
inductive RendersB (cls : CharCls) : List CToken → List Nat → Prop
  | nil : RendersB cls [] []
  | ws {c cts s} : cls.isWs c = true → RendersB cls cts s → RendersB cls cts (c :: s)
  | lparen {cts s} : RendersB cls cts s → RendersB cls (CLparen :: cts) (cLparen :: s)
  | rparen {cts s} : RendersB cls cts s → RendersB cls (CRparen :: cts) (cRparen :: s)
  | lam {g n cts s} : isLam g = true → BName cls n → RendersB cls cts s →
      RendersB cls (CLambda n :: cts) (g :: (n ++ cDot :: s))
  | name {n cts s} : WfName cls n → NameEnd cls s → RendersB cls cts s →
      RendersB cls (CName n :: cts) (n ++ s)

/-- no binder name contains the glyph `λ` -/
def GlyphFree (cts : List CToken) : Prop := ∀ n, CLambda n ∈ cts → cLambda ∉ n

/-- `CutBinder cls cts s`: the input ends inside a binder.  `s` is a rendering `pre` of complete
tokens `cts₀`, then a glyph, then a possibly empty beginning `nm` of a binder name — and no dot;
`cts` is `cts₀` followed by the unterminated binder `CLambda nm`. -/
def CutBinder (cls : CharCls) (cts : List CToken) (s : List Nat) : Prop :=
  ∃ cts₀ pre g nm, s = pre ++ g :: nm ∧ cts = cts₀ ++ [CLambda nm] ∧ RendersB cls cts₀ pre ∧
    isLam g = true ∧ (nm = [] ∨ BName cls nm)

/-- the strings on which the lexer succeeds, with its result -/
def Lexes (cls : CharCls) (cts : List CToken) (s : List Nat) : Prop :=
  RendersB cls cts s ∨ CutBinder cls cts s

/-- `Offending cls pre c`: directly after the prefix `pre` the character `c` is a lexical error.
1. AT A TOKEN BOUNDARY: `pre` renders complete tokens; `c` cannot start a token (it is not a glyph,
   a parenthesis, whitespace or a letter) and, if `pre` ends inside a variable name (it does not end
   with whitespace, a parenthesis or a binder dot), `c` does not continue that name either (it is not
   alphanumeric);
2. FIRST CHARACTER OF A BINDER NAME: `pre` is a rendering of complete tokens followed by a glyph;
   `c` is not a letter (in particular: the dot — an empty binder name, F12);
3. LATER CHARACTER OF A BINDER NAME: `pre` is a rendering of complete tokens followed by a glyph and
   a non-empty beginning of a binder name; `c` is neither the dot nor alphanumeric. -/
def Offending (cls : CharCls) (pre : List Nat) (c : Nat) : Prop :=
  (∃ cts, RendersB cls cts pre ∧ (EndsTop cls pre ∨ cls.isAlnum c = false) ∧
      isLam c = false ∧ c ≠ cLparen ∧ c ≠ cRparen ∧ cls.isWs c = false ∧ cls.isAlpha c = false) ∨
  (∃ cts pre₀ g, pre = pre₀ ++ [g] ∧ RendersB cls cts pre₀ ∧ isLam g = true ∧
      cls.isAlpha c = false) ∨
  (∃ cts pre₀ g nm, pre = pre₀ ++ g :: nm ∧ RendersB cls cts pre₀ ∧ isLam g = true ∧
      BName cls nm ∧ c ≠ cDot ∧ cls.isAlnum c = false)

end LC.Spec.Cl
