/-
Specification side of C08: which outer references (free variables) and whether the
placeholder `UD = var 0` occur in a term.  Definitions only.
-/
import LC.Model.Term

namespace LC
namespace Spec
open Term

/-- `freeInAux d j t`: some occurrence `var i` of `t`, sitting under `m` binders of `t`, has `i = j + d + m`
    — i.e. it refers to the `j`-th enclosing binder OUTSIDE a context of `d` binders around `t`.  `j ≥ 1`. -/
def freeInAux (d j : Nat) : Term → Bool
  | var i => i == j + d
  | abs b => freeInAux (d + 1) j b
  | app l r => freeInAux d j l || freeInAux d j r

/-- free variable number `j ≥ 1` occurs in `t` -/
def FreeIn (j : Nat) (t : Term) : Prop := 1 ≤ j ∧ freeInAux 0 j t = true

/-- the placeholder `UD = var 0` occurs in `t` -/
def hasUD : Term → Bool
  | var i => i == 0
  | abs b => hasUD b
  | app l r => hasUD l || hasUD r

end Spec
end LC
