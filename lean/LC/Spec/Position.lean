/-
Positions in a term: paths from the root.  `subAt t p = some (s, k)` means the
subterm at position `p` is `s` and `k` abstractions are crossed on the way.
-/
import LC.Model.Term

namespace LC
namespace Spec
open Term

inductive Dir where
  | L | R | B
deriving DecidableEq, Repr

abbrev Pos := List Dir

/-- subterm at a position together with the number of binders above it -/
def subAtAux : Nat → Term → Pos → Option (Term × Nat)
  | k, t, [] => some (t, k)
  | k, abs b, .B :: p => subAtAux (k + 1) b p
  | k, app l _, .L :: p => subAtAux k l p
  | k, app _ r, .R :: p => subAtAux k r p
  | _, _, _ => none

def subAt (t : Term) (p : Pos) : Option (Term × Nat) := subAtAux 0 t p

/-- replace the subterm at a position (identity when the position does not exist) -/
def replaceAt : Term → Pos → Term → Term
  | _, [], s => s
  | abs b, .B :: p, s => abs (replaceAt b p s)
  | app l r, .L :: p, s => app (replaceAt l p s) r
  | app l r, .R :: p, s => app l (replaceAt r p s)
  | t, _, _ => t

end Spec
end LC
