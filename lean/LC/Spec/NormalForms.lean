/-
The documented normal forms, defined by shape (no reference to the reducer or to
the step functions).
-/
import LC.Model.Reduce

namespace LC
namespace Spec
open Term

/-- the head of the application spine is a variable: `x N₁ … N_k`, k ≥ 0 -/
def neutral : Term → Bool
  | var _ => true
  | abs _ => false
  | app l _ => neutral l

/-- β-normal form: no subterm of the form `(λb) a` -/
def isNormal : Term → Bool
  | var _ => true
  | abs b => isNormal b
  | app l r => !isAbs l && isNormal l && isNormal r

/-- weak head normal form: an abstraction, or a variable applied to any arguments -/
def isWHNF : Term → Bool
  | abs _ => true
  | t => neutral t

/-- weak normal form: no redex outside an abstraction -/
def isWNF : Term → Bool
  | var _ => true
  | abs _ => true
  | app l r => !isAbs l && isWNF l && isWNF r

/-- head normal form: `λx₁…x_n. y N₁ … N_k` -/
def isHNF : Term → Bool
  | abs b => isHNF b
  | t => neutral t

/-- normal form documented for each order -/
def NF : Order → Term → Bool
  | .NOR | .HNO | .APP | .HAP => isNormal
  | .CBN => isWHNF
  | .CBV => isWNF
  | .HSP => isHNF

end Spec
end LC
