/-
Reference grammar of the De Bruijn notation (specification side of property C09).

Lexical level: every character is either a token character or white space

    'λ' | '\'  ↦  Lambda        '('  ↦  Lparen        ')'  ↦  Rparen        hex digit d  ↦  Number d

Token level (`DExpr ts t`: the token list `ts` is a well-formed expression denoting the term `t`):

    expr   ::=  'λ' expr                 -- abstraction: the body is the whole rest of the group
             |  atoms                    -- application spine
             |  atoms 'λ' expr           -- … whose last argument is an unparenthesised abstraction
    atoms  ::=  atom  |  atoms atom      -- LEFT-recursive: application associates to the left
    atom   ::=  index  |  '(' expr ')'

There is no production for the empty string, so bodies and parenthesised groups are non-empty;
parentheses are balanced because they are only introduced in pairs by `atom`; an abstraction body
is maximal because `'λ' expr` is only ever the LAST item of an `expr`.
-/
import LC.Model.Parser

namespace LC.Spec.Gr
open Term Parser

/-! ### lexical level -/

/-- the token a character stands for (`none`: the character is not a token character) -/
def tokenOf (cls : CharCls) (c : Nat) : Option Token :=
  if c = 955 ∨ c = 92 then some Token.Lambda          -- `λ`, `\`
  else if c = 40 then some Token.Lparen               -- `(`
  else if c = 41 then some Token.Rparen               -- `)`
  else (cls.digit16 c).map Token.Number               -- hexadecimal digit

/-- the characters allowed in De Bruijn notation: token characters and white space -/
def ValidChar (cls : CharCls) (c : Nat) : Prop :=
  (tokenOf cls c).isSome = true ∨ cls.isWs c = true

instance (cls : CharCls) (c : Nat) : Decidable (ValidChar cls c) := by
  unfold ValidChar; infer_instance

/-- the token list of a string: its token characters, in order (everything else is skipped) -/
def tokensOf (cls : CharCls) (s : List Nat) : List Token :=
  s.filterMap (tokenOf cls)

/-! ### token level -/

mutual
/-- `DExpr ts t`: the token list `ts` is an expression denoting `t` -/
inductive DExpr : List Token → Term → Prop
  | lam {ts b} : DExpr ts b → DExpr (Token.Lambda :: ts) (abs b)
  | atoms {ts t} : DAtoms ts t → DExpr ts t
  | tailLam {ts us f b} : DAtoms ts f → DExpr us b → DExpr (ts ++ Token.Lambda :: us) (app f (abs b))
/-- `DAtoms ts t`: `ts` is a non-empty sequence of atoms, denoting their left-nested application -/
inductive DAtoms : List Token → Term → Prop
  | one {ts t} : DAtom ts t → DAtoms ts t
  | snoc {ts us f a} : DAtoms ts f → DAtom us a → DAtoms (ts ++ us) (app f a)
/-- `DAtom ts t`: `ts` is an index or a parenthesised expression -/
inductive DAtom : List Token → Term → Prop
  | idx (n : Nat) : DAtom [Token.Number n] (var n)
  | paren {ts t} : DExpr ts t → DAtom (Token.Lparen :: ts ++ [Token.Rparen]) t
end

/-- the string `s` is a well-formed De Bruijn expression denoting `t` -/
def Denotes (cls : CharCls) (s : List Nat) (t : Term) : Prop :=
  (∀ c ∈ s, ValidChar cls c) ∧ DExpr (tokensOf cls s) t

end LC.Spec.Gr
