/-
Specification side of C12: INDEPENDENT structural decoders for the five numeral encodings, the
four list encodings and signed pairs, and the documented closed forms.

Everything here is written from the documentation of the Rust modules
(`/repo/src/data/num/{church,scott,parigot,stumpfu,binary}.rs`, `/repo/src/data/list/*.rs`,
`/repo/src/data/num/signed.rs`), not from the model of the constructors in `LC/Model/Encode.lean`
(that file is imported only for the enumeration type `Enc.Encoding`).

* Church  `n ≡ λf.λx. f (f (… x))`           `≡ λ λ 2 (2 (… 1))`        (`n` occurrences of `2`)
* Scott   `0 ≡ λx.λy.x ≡ λ λ 2`,              `n+1 ≡ λx.λy. y n        ≡ λ λ 1 n`
* Parigot `0 ≡ λs.λz.z ≡ λ λ 1`,              `n+1 ≡ λs.λz. s n (n s z) ≡ λ λ 2 n b`  (`n ≡ λ λ b`)
* StumpFu `0 ≡ λf.λa.a ≡ λ λ 1`,              `n+1 ≡ λf.λa. f (church (n+1)) n ≡ λ λ 2 c n`
* Binary  `0 ≡ λz.λx.λy.z ≡ λ λ λ 3`; a number is `λ λ λ b₀ (b₁ (… (b_k 3)))` with the least
  significant bit outermost, a one bit being `y ≡ 1` and a zero bit `x ≡ 2`; the most significant
  bit `b_k` is a one (no leading zero).

A decoder returns `none` on every term that is not of the documented shape, so
`decode (into n) = some n` states the shape and the value at once.
-/
import LC.Model.Term
import LC.Model.Encode

namespace LC
namespace Spec
namespace Dec
open Term

/-! ### numerals -/

/-- `2 (2 (… 1))` ↦ the number of `2`s -/
def churchCount : Term → Option Nat
  | var 1 => some 0
  | app (var 2) t =>
    match churchCount t with
    | some k => some (k + 1)
    | none => none
  | _ => none

/-- `λ λ 2 (2 (… 1))` ↦ the number of `2`s -/
def decodeChurch : Term → Option Nat
  | abs (abs b) => churchCount b
  | _ => none

/-- `λ λ 2 ↦ 0`, `λ λ 1 t ↦ decodeScott t + 1` -/
def decodeScott : Term → Option Nat
  | abs (abs (var 2)) => some 0
  | abs (abs (app (var 1) t)) =>
    match decodeScott t with
    | some k => some (k + 1)
    | none => none
  | _ => none

/-- `λ λ 1 ↦ 0`, `λ λ 2 p b ↦ decodeParigot p + 1` provided `p ≡ λ λ b` (the third component is the
body of the predecessor) -/
def decodeParigot : Term → Option Nat
  | abs (abs (var 1)) => some 0
  | abs (abs (app (app (var 2) p) b)) =>
    match decodeParigot p with
    | some k => if p = abs (abs b) then some (k + 1) else none
    | none => none
  | _ => none

/-- `λ λ 1 ↦ 0`, `λ λ 2 c s ↦ k + 1` provided `c` is the Church numeral `k + 1` and `s` the Stump-Fu
numeral `k` -/
def decodeStumpFu : Term → Option Nat
  | abs (abs (var 1)) => some 0
  | abs (abs (app (app (var 2) c) s)) =>
    match decodeChurch c, decodeStumpFu s with
    | some (k + 1), some k' => if k = k' then some (k + 1) else none
    | _, _ => none
  | _ => none

/-- value of a bit string `b₀ (b₁ (… 3))`, least significant bit outermost, `1` the one bit and `2`
the zero bit; a zero bit on top of the value `0` (a leading zero) is rejected, so every number has
exactly one accepted representation -/
def binValue : Term → Option Nat
  | var 3 => some 0
  | app (var 1) t =>
    match binValue t with
    | some v => some (2 * v + 1)
    | none => none
  | app (var 2) t =>
    match binValue t with
    | some (v + 1) => some (2 * (v + 1))
    | _ => none
  | _ => none

/-- `λ λ λ bits` -/
def decodeBinary : Term → Option Nat
  | abs (abs (abs b)) => binValue b
  | _ => none

/-- the decoder of the selected encoding -/
def decodeNum : Enc.Encoding → Term → Option Nat
  | .Church => decodeChurch
  | .Scott => decodeScott
  | .Parigot => decodeParigot
  | .StumpFu => decodeStumpFu
  | .Binary => decodeBinary

/-! ### documented closed forms -/

/-- `f (f (… x))`, `n` applications -/
def iterApp (f : Term) : Nat → Term → Term
  | 0, x => x
  | n + 1, x => app f (iterApp f n x)

/-- the bits of `n` below the three binders of a binary numeral, least significant bit outermost -/
def binBody (n : Nat) : Term :=
  if _h : n = 0 then var 3
  else app (if n % 2 = 1 then var 1 else var 2) (binBody (n / 2))
termination_by n
decreasing_by omega

/-! ### containers -/

/-- pair `λ 1 a b` -/
def decodePair : Term → Option (Term × Term)
  | abs (app (app (var 1) a) b) => some (a, b)
  | _ => none

/-- signed number: a pair `(p, n)` of numerals of one encoding, denoting `p - n` -/
def decodeSignedWith (dec : Term → Option Nat) (t : Term) : Option Int :=
  match decodePair t with
  | some (p, n) =>
    match dec p, dec n with
    | some a, some b => some ((a : Int) - (b : Int))
    | _, _ => none
  | none => none

def decodeSigned (e : Enc.Encoding) : Term → Option Int := decodeSignedWith (decodeNum e)

/-- option: `NONE ≡ λ λ 2`, `SOME v ≡ λ λ 1 v` -/
def decodeOption : Term → Option (Option Term)
  | abs (abs (var 2)) => some none
  | abs (abs (app (var 1) v)) => some (some v)
  | _ => none

/-- result: `OK v ≡ λ λ 2 v`, `ERR e ≡ λ λ 1 e` -/
def decodeResult : Term → Option (Except Term Term)
  | abs (abs (app (var 2) v)) => some (.ok v)
  | abs (abs (app (var 1) e)) => some (.error e)
  | _ => none

/-- pair list: `NIL ≡ λ λ 1` (= FALSE), `CONS h t ≡ PAIR h t ≡ λ 1 h t` -/
def decodePairList : Term → Option (List Term)
  | abs (abs (var 1)) => some []
  | abs (app (app (var 1) h) t) =>
    match decodePairList t with
    | some ts => some (h :: ts)
    | none => none
  | _ => none

/-- body of a Church (right fold) list: `NIL`-body `2`, `CONS`-body `1 h t` -/
def churchListElems : Term → Option (List Term)
  | var 2 => some []
  | app (app (var 1) h) t =>
    match churchListElems t with
    | some ts => some (h :: ts)
    | none => none
  | _ => none

/-- Church list `λc.λn. c h₁ (c h₂ (… n)) ≡ λ λ 1 h₁ (1 h₂ (… 2))` -/
def decodeChurchList : Term → Option (List Term)
  | abs (abs b) => churchListElems b
  | _ => none

/-- Scott list: `NIL ≡ λ λ 2`, `CONS h t ≡ λ λ 1 h t` -/
def decodeScottList : Term → Option (List Term)
  | abs (abs (var 2)) => some []
  | abs (abs (app (app (var 1) h) t)) =>
    match decodeScottList t with
    | some ts => some (h :: ts)
    | none => none
  | _ => none

/-- Parigot list: `NIL ≡ λ λ 2`, `CONS h t ≡ λ λ 1 h t b` where `t ≡ λ λ b` -/
def decodeParigotList : Term → Option (List Term)
  | abs (abs (var 2)) => some []
  | abs (abs (app (app (app (var 1) h) t) b)) =>
    match decodeParigotList t with
    | some ts => if t = abs (abs b) then some (h :: ts) else none
    | none => none
  | _ => none

/-- decode every element of a list of numerals -/
def decodeAll (dec : Term → Option Nat) : List Term → Option (List Nat)
  | [] => some []
  | t :: ts =>
    match dec t, decodeAll dec ts with
    | some n, some ns => some (n :: ns)
    | _, _ => none

end Dec
end Spec
end LC
