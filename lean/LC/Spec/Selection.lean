/-
Positional (strategy-independent) descriptions of *which* redex an evaluation
strategy selects.  Nothing here recurses over the term: a selection is described
by quantifying over positions (`LC/Spec/Position.lean`): `L` = operator side of an
application, `R` = operand side, `B` = body of an abstraction.
`Props/C05` relates the small-step functions of `Spec/Strategy.lean` to these.
-/
import LC.Spec.Beta
import LC.Spec.Position

namespace LC
namespace Spec
open Term

/-- `p` is the position of a redex `(λb) a` in `t` -/
def redexAt (t : Term) (p : Pos) : Prop := ∃ b a k, subAt t p = some (app (abs b) a, k)

/-- the term after contracting the redex at `p` (identity if there is none) -/
def contractAt (t : Term) (p : Pos) : Term :=
  match subAt t p with
  | some (app (abs b) a, _) => replaceAt t p (substTop b a)
  | _ => t

/-- `p` is to the left of `q`: they diverge at an application, `p` going into the operator
and `q` into the operand -/
def leftOf (p q : Pos) : Prop := ∃ r p' q', p = r ++ Dir.L :: p' ∧ q = r ++ Dir.R :: q'

/-- outermost-leftmost order on positions: `p` is a proper prefix of `q` (outer), or to its left -/
def before (p q : Pos) : Prop := (∃ s, s ≠ [] ∧ q = p ++ s) ∨ leftOf p q

/-- leftmost-outermost redex: every other redex is inside it or to its right -/
def isLMO (t : Term) (p : Pos) : Prop := redexAt t p ∧ ∀ q, redexAt t q → q = p ∨ before p q

/-- innermost redex: contains no other redex -/
def innermost (t : Term) (p : Pos) : Prop := redexAt t p ∧ ∀ s, s ≠ [] → ¬ redexAt t (p ++ s)

/-- leftmost of the innermost redexes (two innermost redexes are never nested, so any two
distinct ones are related by `leftOf` one way or the other) -/
def isLMI (t : Term) (p : Pos) : Prop := innermost t p ∧ ∀ q, innermost t q → q = p ∨ leftOf p q

/-- weak positions: not inside any abstraction -/
def weak (p : Pos) : Prop := Dir.B ∉ p

/-- innermost among the weak redexes: a weak redex containing no other weak redex -/
def innermostW (t : Term) (p : Pos) : Prop :=
  redexAt t p ∧ weak p ∧ ∀ s, s ≠ [] → weak (p ++ s) → ¬ redexAt t (p ++ s)

/-- leftmost of the innermost weak redexes -/
def isLMIW (t : Term) (p : Pos) : Prop := innermostW t p ∧ ∀ q, innermostW t q → q = p ∨ leftOf p q

/-- head position outside any abstraction: only operator steps -/
def spineL (p : Pos) : Prop := ∀ d ∈ p, d = Dir.L

/-- head spine: never enters an argument -/
def noArg (p : Pos) : Prop := Dir.R ∉ p

end Spec
end LC
