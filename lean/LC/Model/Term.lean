/-
Model of `src/term.rs`: the term datatype, `TermError`, the fifteen accessors,
`abs`/`app` and the `app!`/`abs!` macros, and the four predicates.

Import-free on purpose (the driver links natively).
Rust `usize`/`u32` are modelled as `Nat` (DESIGN §5).
-/
namespace LC

/-- `enum Term { Var(usize), Abs(Box<Term>), App(Box<(Term, Term)>) }` -/
inductive Term where
  | var : Nat → Term
  | abs : Term → Term
  | app : Term → Term → Term
deriving DecidableEq, Repr, Inhabited

/-- `enum TermError { NotVar, NotAbs, NotApp }` -/
inductive TermError where
  | NotVar | NotAbs | NotApp
deriving DecidableEq, Repr, Inhabited

namespace Term

/-- `UD = Var(0)` -/
def UD : Term := var 0

/-! ### accessors (consuming / `_ref` forms read the same component) -/

def unvar : Term → Except TermError Nat
  | var n => .ok n
  | _ => .error .NotVar

def unabs : Term → Except TermError Term
  | abs b => .ok b
  | _ => .error .NotAbs

def unapp : Term → Except TermError (Term × Term)
  | app l r => .ok (l, r)
  | _ => .error .NotApp

/-- `lhs`: `if let Ok((lhs, _)) = self.unapp() { Ok(lhs) } else { Err(NotApp) }` -/
def lhs (t : Term) : Except TermError Term :=
  match t.unapp with
  | .ok (l, _) => .ok l
  | .error _ => .error .NotApp

def rhs (t : Term) : Except TermError Term :=
  match t.unapp with
  | .ok (_, r) => .ok r
  | .error _ => .error .NotApp

/-- the `_ref` family returns references to the same components -/
def unvarRef (t : Term) := t.unvar
def unabsRef (t : Term) := t.unabs
def unappRef (t : Term) := t.unapp
def lhsRef (t : Term) := t.lhs
def rhsRef (t : Term) := t.rhs

/-! ### `_mut` accessors: a mutable reference is modelled as the pair
(current value, write-back function); `xMutGet` reads through it, `xMutPut t v`
is the term after `*t.x_mut()? = v`. -/

def unvarMutGet (t : Term) := t.unvar
def unabsMutGet (t : Term) := t.unabs
def unappMutGet (t : Term) := t.unapp
def lhsMutGet (t : Term) := t.lhs
def rhsMutGet (t : Term) := t.rhs

def unvarMutPut : Term → Nat → Except TermError Term
  | var _, v => .ok (var v)
  | _, _ => .error .NotVar

def unabsMutPut : Term → Term → Except TermError Term
  | abs _, v => .ok (abs v)
  | _, _ => .error .NotAbs

def unappMutPut : Term → Term × Term → Except TermError Term
  | app _ _, (v₁, v₂) => .ok (app v₁ v₂)
  | _, _ => .error .NotApp

def lhsMutPut : Term → Term → Except TermError Term
  | app _ r, v => .ok (app v r)
  | _, _ => .error .NotApp

def rhsMutPut : Term → Term → Except TermError Term
  | app l _, v => .ok (app l v)
  | _, _ => .error .NotApp

/-! ### macros -/

/-- `app!(t, t1, …, tk)`: `let mut term = t; term = app(term, ti) …` -/
def appMany (t : Term) (ts : List Term) : Term := ts.foldl app t

/-- `abs!(n, t)`: `for _ in 0..n { term = abs(term) }` -/
def absN : Nat → Term → Term
  | 0, t => t
  | n+1, t => absN n (abs t)

/-! ### predicates -/

def isAbs : Term → Bool
  | abs _ => true
  | _ => false

/-- `has_free_variables_helper` -/
def hasFreeVariablesHelper (depth : Nat) : Term → Bool
  | var x => decide (x > depth) || x == 0
  | abs p => hasFreeVariablesHelper (depth + 1) p
  | app f a => hasFreeVariablesHelper depth f || hasFreeVariablesHelper depth a

/-- `has_free_variables` -/
def hasFreeVariables (t : Term) : Bool := hasFreeVariablesHelper 0 t

/-- `max_depth` -/
def maxDepth : Term → Nat
  | var _ => 0
  | abs t => maxDepth t + 1
  | app l r => max (maxDepth l) (maxDepth r)

/-- `is_isomorphic_to` -/
def isIsomorphicTo : Term → Term → Bool
  | var x, var y => x == y
  | abs p, abs q => isIsomorphicTo p q
  | app fp ap, app fq aq => isIsomorphicTo fp fq && isIsomorphicTo ap aq
  | _, _ => false

/-- `is_supercombinator` (after the repair recorded as F5 in DESIGN §8).

The Rust code strips the leading abstractions (counting them in `depth`), then walks the
remaining body `E` with an explicit stack: a variable must satisfy `i ≤ depth`, an application
pushes both sides, an abstraction inside `E` must itself satisfy `is_supercombinator()`
(a fresh call, which again strips *its* leading abstractions starting from depth 0).
The model is the same computation as one structural recursion with a mode flag:
`inPrefix = true` while stripping leading abstractions, `false` inside `E`. The stack
discipline only fixes the order in which the conjuncts are evaluated. -/
def scAux : Bool → Nat → Term → Bool
  | true, d, abs b => scAux true (d + 1) b
  | false, _, abs b => scAux true 1 b
  | _, d, var i => !decide (i > d)
  | _, d, app f a => scAux false d f && scAux false d a

def isSupercombinator (t : Term) : Bool := scAux true 0 t

end Term
end LC
