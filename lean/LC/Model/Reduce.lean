/-
Model of `src/reduction.rs`: `Order`, `eval`, `is_reducible`, the seven `beta_*`
traversals, `reduce` and `beta`.

Each Rust traversal mutates the term in place and threads `count: &mut usize`.
The model function takes the term and the current count and returns the new term and
count. `fuel` bounds the depth of the call tree (each recursive call gets `fuel`
when the caller has `fuel+1`); `none` means "out of fuel" and is never a result.
-/
import LC.Model.Subst

namespace LC

/-- `enum Order { NOR, CBN, HSP, HNO, APP, CBV, HAP }` -/
inductive Order where
  | NOR | CBN | HSP | HNO | APP | CBV | HAP
deriving DecidableEq, Repr, Inhabited

namespace Term

/-- the early return at the head of every `beta_*`: `limit != 0 && *count == limit` -/
def gate (limit c : Nat) : Bool := limit != 0 && c == limit

/-- second conjunct of `is_reducible`: `limit == 0 || count < limit` -/
def budget (limit c : Nat) : Bool := limit == 0 || decide (c < limit)

/-- `is_reducible`: the operator is an abstraction and the budget is not used up -/
def isReducible (t : Term) (limit c : Nat) : Bool :=
  (match t with
   | app l _ => isAbs l
   | _ => false) && budget limit c

/-- `beta_cbn` -/
def betaCbn (limit : Nat) : Nat → Term → Nat → Option (Term × Nat)
  | 0, _, _ => none
  | fuel+1, t, c =>
    if gate limit c then some (t, c) else
    match t with
    | app l r =>
      match betaCbn limit fuel l c with
      | none => none
      | some (l', c') =>
        match l' with
        | abs b =>
          if budget limit c' then betaCbn limit fuel (contract b r) (c'+1)
          else some (app l' r, c')
        | _ => some (app l' r, c')
    | t => some (t, c)

/-- `beta_nor` -/
def betaNor (limit : Nat) : Nat → Term → Nat → Option (Term × Nat)
  | 0, _, _ => none
  | fuel+1, t, c =>
    if gate limit c then some (t, c) else
    match t with
    | abs b =>
      match betaNor limit fuel b c with
      | none => none
      | some (b', c1) => some (abs b', c1)
    | app l r =>
      match betaCbn limit fuel l c with
      | none => none
      | some (l', c1) =>
        if isAbs l' && budget limit c1 then
          match l' with
          | abs b => betaNor limit fuel (contract b r) (c1+1)
          | _ => none
        else
          match betaNor limit fuel l' c1 with
          | none => none
          | some (l2, c2) =>
            match betaNor limit fuel r c2 with
            | none => none
            | some (r', c3) => some (app l2 r', c3)
    | t => some (t, c)

/-- `beta_cbv` -/
def betaCbv (limit : Nat) : Nat → Term → Nat → Option (Term × Nat)
  | 0, _, _ => none
  | fuel+1, t, c =>
    if gate limit c then some (t, c) else
    match t with
    | app l r =>
      match betaCbv limit fuel l c with
      | none => none
      | some (l', c1) =>
        match betaCbv limit fuel r c1 with
        | none => none
        | some (r', c2) =>
          match l' with
          | abs b =>
            if budget limit c2 then betaCbv limit fuel (contract b r') (c2+1)
            else some (app l' r', c2)
          | _ => some (app l' r', c2)
    | t => some (t, c)

/-- `beta_app` -/
def betaApp (limit : Nat) : Nat → Term → Nat → Option (Term × Nat)
  | 0, _, _ => none
  | fuel+1, t, c =>
    if gate limit c then some (t, c) else
    match t with
    | abs b =>
      match betaApp limit fuel b c with
      | none => none
      | some (b', c1) => some (abs b', c1)
    | app l r =>
      match betaApp limit fuel l c with
      | none => none
      | some (l', c1) =>
        match betaApp limit fuel r c1 with
        | none => none
        | some (r', c2) =>
          match l' with
          | abs b =>
            if budget limit c2 then betaApp limit fuel (contract b r') (c2+1)
            else some (app l' r', c2)
          | _ => some (app l' r', c2)
    | t => some (t, c)

/-- `beta_hap` -/
def betaHap (limit : Nat) : Nat → Term → Nat → Option (Term × Nat)
  | 0, _, _ => none
  | fuel+1, t, c =>
    if gate limit c then some (t, c) else
    match t with
    | abs b =>
      match betaHap limit fuel b c with
      | none => none
      | some (b', c1) => some (abs b', c1)
    | app l r =>
      match betaCbv limit fuel l c with
      | none => none
      | some (l', c1) =>
        match betaHap limit fuel r c1 with
        | none => none
        | some (r', c2) =>
          if isAbs l' && budget limit c2 then
            match l' with
            | abs b => betaHap limit fuel (contract b r') (c2+1)
            | _ => none
          else
            match betaHap limit fuel l' c2 with
            | none => none
            | some (l2, c3) => some (app l2 r', c3)
    | t => some (t, c)

/-- `beta_hsp` -/
def betaHsp (limit : Nat) : Nat → Term → Nat → Option (Term × Nat)
  | 0, _, _ => none
  | fuel+1, t, c =>
    if gate limit c then some (t, c) else
    match t with
    | abs b =>
      match betaHsp limit fuel b c with
      | none => none
      | some (b', c1) => some (abs b', c1)
    | app l r =>
      match betaHsp limit fuel l c with
      | none => none
      | some (l', c1) =>
        match l' with
        | abs b =>
          if budget limit c1 then betaHsp limit fuel (contract b r) (c1+1)
          else some (app l' r, c1)
        | _ => some (app l' r, c1)
    | t => some (t, c)

/-- `beta_hno` -/
def betaHno (limit : Nat) : Nat → Term → Nat → Option (Term × Nat)
  | 0, _, _ => none
  | fuel+1, t, c =>
    if gate limit c then some (t, c) else
    match t with
    | abs b =>
      match betaHno limit fuel b c with
      | none => none
      | some (b', c1) => some (abs b', c1)
    | app l r =>
      match betaHsp limit fuel l c with
      | none => none
      | some (l', c1) =>
        if isAbs l' && budget limit c1 then
          match l' with
          | abs b => betaHno limit fuel (contract b r) (c1+1)
          | _ => none
        else
          match betaHno limit fuel l' c1 with
          | none => none
          | some (l2, c2) =>
            match betaHno limit fuel r c2 with
            | none => none
            | some (r', c3) => some (app l2 r', c3)
    | t => some (t, c)

/-- dispatch of `reduce` -/
def betaOrd (o : Order) (limit fuel : Nat) (t : Term) (c : Nat) : Option (Term × Nat) :=
  match o with
  | .CBN => betaCbn limit fuel t c
  | .NOR => betaNor limit fuel t c
  | .CBV => betaCbv limit fuel t c
  | .APP => betaApp limit fuel t c
  | .HSP => betaHsp limit fuel t c
  | .HNO => betaHno limit fuel t c
  | .HAP => betaHap limit fuel t c

/-- `Term::reduce(order, limit)`: fresh counter, returns (term left in place, count). -/
def reduce (o : Order) (limit fuel : Nat) (t : Term) : Option (Term × Nat) :=
  betaOrd o limit fuel t 0

/-- free function `beta(term, order, limit)` -/
def beta (t : Term) (o : Order) (limit fuel : Nat) : Option Term :=
  (reduce o limit fuel t).map (·.1)

end Term
end LC
