/-
Model of the substitution machinery of `src/reduction.rs`:
`update_free_variables`, `_apply`, `apply`.
-/
import LC.Model.Term

namespace LC
namespace Term

/-- `update_free_variables(added_depth, own_depth)`: add `added` to every index that is
strictly greater than the number of binders passed (`own`). -/
def shiftFV (added own : Nat) : Term → Term
  | var i => if i > own then var (i + added) else var i
  | abs b => abs (shiftFV added (own + 1) b)
  | app l r => app (shiftFV added own l) (shiftFV added own r)

/-- `_apply(rhs, depth)`: three-way comparison of the index against the binder depth. -/
def applyAux (rhs : Term) (depth : Nat) : Term → Term
  | var i =>
    if i = depth then shiftFV (depth - 1) 0 rhs
    else if i > depth then var (i - 1)
    else var i
  | abs b => abs (applyAux rhs (depth + 1) b)
  | app l r => app (applyAux rhs depth l) (applyAux rhs depth r)

/-- body `b` of an abstraction with `a` substituted: what `eval` leaves in place of `(λb) a`. -/
def contract (b a : Term) : Term := applyAux a 1 b

/-- `apply`: `self.unabs_ref()?; self._apply(rhs, 0); *self = self.unabs().unwrap()`.
`_apply` at depth 0 on `Abs(b)` is `Abs(b._apply(rhs, 1))`, which is then unwrapped.
On `Err` the Rust term is untouched; the model returns only the error. -/
def apply (t rhs : Term) : Except TermError Term :=
  match t with
  | abs b => .ok (applyAux rhs 1 b)
  | _ => .error .NotAbs

/-- `apply` as a method on `&mut self`: the receiver AFTER the call together with the returned `Result`.
`self.unabs_ref()?` comes first, so on `Err` nothing has been written: the receiver is returned as it was. -/
def applyMut (t rhs : Term) : Term × Except TermError Unit :=
  match t with
  | abs b => (applyAux rhs 1 b, .ok ())
  | _ => (t, .error .NotAbs)

/-- largest variable index occurring in a term (0 for none beyond UD).  Indices of the crate are `usize`; the model's
are unbounded: where a substitution would create an index above `usize::MAX` the crate panics ("De Bruijn index
overflow") instead of returning, and the boundary operations of the driver report that case by this function. -/
def maxIndex : Term → Nat
  | var i => i
  | abs b => maxIndex b
  | app l r => max (maxIndex l) (maxIndex r)

end Term
end LC
