/-
Model of the substitution machinery of `src/reduction.rs`:
`update_free_variables`, `_apply`, `apply`.
-/
import LC.Model.Term

namespace LC
namespace Term

/-- `update_free_variables(added_depth, own_depth)`: add `added` to every index that is
strictly greater than the number of binders passed (`own`). -/
def shiftFV (added own : Nat) : Term → Term
  | var i => if i > own then var (i + added) else var i
  | abs b => abs (shiftFV added (own + 1) b)
  | app l r => app (shiftFV added own l) (shiftFV added own r)

/-- `_apply(rhs, depth)`: three-way comparison of the index against the binder depth. -/
def applyAux (rhs : Term) (depth : Nat) : Term → Term
  | var i =>
    if i = depth then shiftFV (depth - 1) 0 rhs
    else if i > depth then var (i - 1)
    else var i
  | abs b => abs (applyAux rhs (depth + 1) b)
  | app l r => app (applyAux rhs depth l) (applyAux rhs depth r)

/-- body `b` of an abstraction with `a` substituted: what `eval` leaves in place of `(λb) a`. -/
def contract (b a : Term) : Term := applyAux a 1 b

/-- `apply`: `self.unabs_ref()?; self._apply(rhs, 0); *self = self.unabs().unwrap()`.
`_apply` at depth 0 on `Abs(b)` is `Abs(b._apply(rhs, 1))`, which is then unwrapped.
On `Err` the Rust term is untouched; the model returns only the error. -/
def apply (t rhs : Term) : Except TermError Term :=
  match t with
  | abs b => .ok (applyAux rhs 1 b)
  | _ => .error .NotAbs

end Term
end LC
