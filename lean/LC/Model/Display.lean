/-
Model of the two printers of `src/term.rs`: `base26_encode`, `show_precedence_cla`
(`Display`), `show_precedence_dbr` (`Debug`), `parenthesize_if`.  Strings are lists of code
points; `lam` is the `LAMBDA` constant (`'λ'` = 955, or `'\\'` = 92 with feature
`backslash_lambda`).  `u32`/`usize` arithmetic is `Nat` (DESIGN §5).
-/
import LC.Model.Term
import LC.Model.Reduce
import LC.Model.Parser

namespace LC
namespace Display
open Term

def str (s : String) : List Nat := s.toList.map Char.toNat

/-- the loop of `base26_encode` after `n += 1`; digits are pushed least significant first and
the buffer is reversed at the end, i.e. each new digit goes in front -/
def base26Loop (n : Nat) (acc : List Nat) : List Nat :=
  if _h : n = 0 then acc
  else
    let m := n % 26
    let m := if m == 0 then 26 else m
    base26Loop ((n - 1) / 26) ((m + 96) :: acc)     -- `m + b'a' - 1`
termination_by n
decreasing_by omega

/-- `base26_encode` -/
def base26 (n : Nat) : List Nat := base26Loop (n + 1) []

/-- `parenthesize_if` -/
def parenIf (s : List Nat) (c : Bool) : List Nat := if c then 40 :: (s ++ [41]) else s

/-- `show_precedence_cla(term, context_precedence, max_depth, depth)` -/
def showCla (lam : Nat) (maxDepth : Nat) : Term → Nat → Nat → List Nat
  | var 0, _, _ => str "undefined"
  | var (i+1), _, depth =>
    let i := i + 1
    let ix := if i ≤ depth then depth - i else maxDepth + i - depth - 1
    base26 ix
  | abs t, ctx, depth =>
    parenIf (lam :: (base26 depth ++ (46 :: showCla lam maxDepth t 0 (depth + 1)))) (decide (ctx > 1))
  | app t1 t2, ctx, depth =>
    parenIf (showCla lam maxDepth t1 2 depth ++ (32 :: showCla lam maxDepth t2 3 depth)) (ctx == 3)

/-- `impl Display for Term` -/
def display (lam : Nat) (t : Term) : List Nat := showCla lam t.maxDepth t 0 0

def hexDigit (d : Nat) : Nat := if d < 10 then 48 + d else 55 + d   -- '0'.. / 'A'..

/-- `format!("{:X}", i)`: upper-case hexadecimal, most significant digit first -/
def hexLoop (n : Nat) (acc : List Nat) : List Nat :=
  if _h : n = 0 then acc else hexLoop (n / 16) (hexDigit (n % 16) :: acc)
termination_by n
decreasing_by omega

def hexUpper (n : Nat) : List Nat := if n = 0 then [48] else hexLoop n []

/-- `show_precedence_dbr(term, context_precedence)` -/
def showDbr (lam : Nat) : Term → Nat → List Nat
  | var 0, _ => str "undefined"
  | var (i+1), _ => hexUpper (i + 1)
  | abs t, ctx => parenIf (lam :: showDbr lam t 0) (decide (ctx > 1))
  | app t1 t2, ctx => parenIf (showDbr lam t1 2 ++ showDbr lam t2 3) (ctx == 3)

/-- `impl Debug for Term` -/
def debug (lam : Nat) (t : Term) : List Nat := showDbr lam t 0

/-! ### the string tables of the crate: `Display` of `TermError`, `ParseError`, `Order` -/

/-- `impl fmt::Display for TermError` -/
def termErrorMsg : TermError → List Nat
  | .NotVar => str "the term is not a variable"
  | .NotAbs => str "the term is not an abstraction"
  | .NotApp => str "the term is not an application"

/-- `impl fmt::Display for Order` -/
def orderName : Order → List Nat
  | .NOR => str "normal"
  | .CBN => str "call-by-name"
  | .HSP => str "head spine"
  | .HNO => str "hybrid normal"
  | .APP => str "applicative"
  | .CBV => str "call-by-value"
  | .HAP => str "hybrid applicative"

/-- decimal digits of a `usize` (`{}` formatting), most significant first -/
def decLoop (n : Nat) (acc : List Nat) : List Nat :=
  if _h : n = 0 then acc else decLoop (n / 10) ((48 + n % 10) :: acc)
termination_by n
decreasing_by omega

def natDec (n : Nat) : List Nat := if n = 0 then [48] else decLoop n []

/-- `impl fmt::Display for ParseError` -/
def parseErrorMsg : Parser.ParseError → List Nat
  | .InvalidCharacter idx c =>
    str "lexical error; invalid character '" ++ (c :: (str "' at " ++ natDec idx))
  | .InvalidExpression => str "syntax error; the expression is invalid"
  | .EmptyExpression => str "syntax error; the expression is empty"

end Display
end LC
