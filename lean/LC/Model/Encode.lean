/-
Model of the Rust-side constructors of encoded data:
`src/data/num/convert.rs` (into_church/scott/parigot/stumpfu/binary, into_signed, pairs,
options, results), `src/data/list/convert.rs` (four Vec conversions), the `From` impls in
`boolean.rs`, `pair.rs`, `option.rs`, `result.rs`, and the `tuple!` / `pi!` macros.

Each function mirrors the loop of the Rust code; the loop counter becomes structural recursion.
-/
import LC.Model.Term

namespace LC
namespace Enc
open Term

/-- `enum Encoding { Church, Scott, Parigot, StumpFu, Binary }` -/
inductive Encoding where
  | Church | Scott | Parigot | StumpFu | Binary
deriving DecidableEq, Repr, Inhabited

/-- `let mut ret = Var(1); for _ in 0..n { ret = app(Var(2), ret) }` -/
def churchBody : Nat → Term
  | 0 => var 1
  | n+1 => app (var 2) (churchBody n)

/-- `into_church`: `abs!(2, ret)` -/
def intoChurch (n : Nat) : Term := abs (abs (churchBody n))

/-- `into_scott`: `ret = abs!(2, Var(2)); for _ in 0..n { ret = abs!(2, app(Var(1), ret)) }` -/
def intoScott : Nat → Term
  | 0 => abs (abs (var 2))
  | n+1 => abs (abs (app (var 1) (intoScott n)))

/-- `ret.unabs().and_then(|r| r.unabs()).unwrap()` — the body under two abstractions.
The `unwrap` cannot fail on the loop's values (`intoParigot_shape`); the fall-through
returns the term itself and is unreachable there. -/
def unabs2 : Term → Term
  | abs (abs b) => b
  | t => t

/-- `into_parigot`: `ret = λλ1; loop: ret = abs!(2, app!(Var(2), ret.clone(), ret.unabs().unabs()))` -/
def intoParigot : Nat → Term
  | 0 => abs (abs (var 1))
  | n+1 => abs (abs (app (app (var 2) (intoParigot n)) (unabs2 (intoParigot n))))

/-- `into_stumpfu`: `ret = λλ1; for n in 1..=self { ret = abs!(2, app!(Var(2), n.into_church(), ret)) }` -/
def intoStumpFu : Nat → Term
  | 0 => abs (abs (var 1))
  | n+1 => abs (abs (app (app (var 2) (intoChurch (n+1))) (intoStumpFu n)))

/-- binary digits of `n > 0`, most significant first, no leading zero — what `format!("{:b}", n)`
produces (as booleans); `[]` for 0, which the Rust code special-cases -/
def bitsMSB (n : Nat) : List Bool :=
  if _h : n = 0 then [] else bitsMSB (n / 2) ++ [n % 2 == 1]
termination_by n
decreasing_by omega

/-- `into_binary`: `ret = Var(3); for bit in binstr { ret = app(if bit == '0' {Var(2)} else {Var(1)}, ret) }; abs!(3, ret)` -/
def intoBinary (n : Nat) : Term :=
  abs (abs (abs ((bitsMSB n).foldl (fun ret bit => app (if bit then var 1 else var 2) ret) (var 3))))

/-- numeral of the selected encoding -/
def intoNum : Encoding → Nat → Term
  | .Church => intoChurch
  | .Scott => intoScott
  | .Parigot => intoParigot
  | .StumpFu => intoStumpFu
  | .Binary => intoBinary

/-- `tuple!(a, b)` with two components: `abs(app(app(Var(1), a), b))` -/
def tuple2 (a b : Term) : Term := abs (app (app (var 1) a) b)

/-- `tuple!(first, next…)`: `ret = app(Var(1), first); ret = app(ret, next)…; abs(ret)` -/
def tuple (first : Term) (rest : List Term) : Term := abs (rest.foldl app (app (var 1) first))

/-- `pi!(i, n)`: `ret = Var(n + 1 - i); for _ in 0..n { ret = abs(ret) }; abs(app(Var(1), ret))` -/
def pi (i n : Nat) : Term := abs (app (var 1) (absN n (var (n + 1 - i))))

/-- `into_signed` (after the repair recorded as F3 in DESIGN §8; `Binary` panics in Rust and is
excluded by the callers of this model function) -/
def intoSigned (e : Encoding) (i : Int) : Term :=
  let numeral := intoNum e i.natAbs
  let zero := intoNum e 0
  if i > 0 then tuple2 numeral zero else tuple2 zero numeral

/-- `into_signed` with the refusal the crate has: `Binary => panic!("signed binary numbers are not supported")`
(`none` = panic).  The driver answers `signed` operations with this function. -/
def intoSignedChecked (e : Encoding) (i : Int) : Option Term :=
  match e with
  | .Binary => none
  | _ => some (intoSigned e i)

/-! ### containers of numerals (`impl_pair!`, `impl_option!`, `impl_result!`) and `From` impls -/

/-- `(a, b).into_E()` and `From<(Term, Term)>` -/
def fromPair (a b : Term) : Term := abs (app (app (var 1) a) b)

/-- `From<Option<Term>>` / `Option<T>::into_E()`: `None => λλ2`, `Some(v) => λλ(1 v)` -/
def fromOption : Option Term → Term
  | none => abs (abs (var 2))
  | some v => abs (abs (app (var 1) v))

/-- `From<Result<Term, Term>>` / `Result<T,U>::into_E()`: `Ok(v) => λλ(2 v)`, `Err(e) => λλ(1 e)` -/
def fromResult : Except Term Term → Term
  | .ok v => abs (abs (app (var 2) v))
  | .error e => abs (abs (app (var 1) e))

/-- `From<bool>`: `tru()` = λλ2, `fls()` = λλ1 (tied to the generated constants in Props/C17) -/
def fromBool (b : Bool) : Term := if b then abs (abs (var 2)) else abs (abs (var 1))

/-! ### list conversions (`Vec<Term>`; vectors of numbers map the numeral conversion first) -/

/-- `into_pair_list`: `ret = λλ1; for t in rev { ret = abs(app!(Var(1), t, ret)) }` -/
def pairList : List Term → Term
  | [] => abs (abs (var 1))
  | t :: ts => abs (app (app (var 1) t) (pairList ts))

/-- Church (fold) list body: `ret = Var(2); for t in rev { ret = app!(Var(1), t, ret) }` -/
def churchListBody : List Term → Term
  | [] => var 2
  | t :: ts => app (app (var 1) t) (churchListBody ts)

def churchList (ts : List Term) : Term := abs (abs (churchListBody ts))

/-- Scott list: `ret = λλ2; for t in rev { ret = abs!(2, app!(Var(1), t, ret)) }` -/
def scottList : List Term → Term
  | [] => abs (abs (var 2))
  | t :: ts => abs (abs (app (app (var 1) t) (scottList ts)))

/-- Parigot list: `ret = λλ2; for t in rev { ret = abs!(2, app!(Var(1), t, ret.clone(), ret.unabs().unabs())) }` -/
def parigotList : List Term → Term
  | [] => abs (abs (var 2))
  | t :: ts => abs (abs (app (app (app (var 1) t) (parigotList ts)) (unabs2 (parigotList ts))))

end Enc
end LC
