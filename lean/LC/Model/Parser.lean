/-
Model of `src/parser.rs` (after the repairs recorded as F1/F2 in DESIGN §8, and the lexer repairs F11/F12):
`tokenize_dbr`, `tokenize_cla`, `convert_classic_tokens`, `get_ast`, `fold_exprs`,
`fold_terms`, `parse`, `ParseError`.

Strings are lists of code points (`Nat`).  Rust's Unicode predicates (`is_whitespace`,
`is_alphabetic`, `is_alphanumeric`, `to_digit(16)`) are table driven; the model takes the
classification as a parameter `CharCls` (DESIGN §3.4).

The two recursive-with-cursor Rust functions (`_convert_classic_tokens`, `_get_ast`: a loop
over `tokens[*pos]` that calls itself at `(` and returns at `)`) are modelled as one left-to-right
pass with the call stack made explicit (`counts` / `stack` below): a recursive call pushes a
frame, a return pops it.  Every Rust operation that can panic and is reachable in that pass
(`stack.len() - inner_stack_count`) is a checked operation yielding `none` (= panic).
-/
import LC.Model.Term

namespace LC
namespace Parser
open Term

/-- `enum Notation { Classic, DeBruijn }` -/
inductive Notation where
  | Classic | DeBruijn
deriving DecidableEq, Repr, Inhabited

/-- `enum ParseError` -/
inductive ParseError where
  | InvalidCharacter (idx : Nat) (c : Nat)
  | InvalidExpression
  | EmptyExpression
deriving DecidableEq, Repr, Inhabited

/-- `enum Token { Lambda, Lparen, Rparen, Number(usize) }` -/
inductive Token where
  | Lambda | Lparen | Rparen
  | Number (n : Nat)
deriving DecidableEq, Repr, Inhabited

/-- `enum CToken { CLambda(String), CLparen, CRparen, CName(String) }` -/
inductive CToken where
  | CLambda (name : List Nat)
  | CLparen | CRparen
  | CName (name : List Nat)
deriving DecidableEq, Repr, Inhabited

/-- Unicode classification of code points, as computed by Rust's `char` methods -/
structure CharCls where
  isWs : Nat → Bool
  isAlpha : Nat → Bool
  isAlnum : Nat → Bool
  /-- `c.to_digit(16)` -/
  digit16 : Nat → Option Nat

def cBackslash : Nat := 92
def cLambda : Nat := 955
def cLparen : Nat := 40
def cRparen : Nat := 41
def cDot : Nat := 46

def isLam (c : Nat) : Bool := c == cBackslash || c == cLambda

/-- `tokenize_dbr`: one token per character, whitespace dropped; `i` is the character index -/
def tokenizeDbrAux (cls : CharCls) : Nat → List Nat → Except ParseError (List Token)
  | _, [] => .ok []
  | i, c :: cs =>
    if isLam c then (Token.Lambda :: ·) <$> tokenizeDbrAux cls (i + 1) cs
    else if c == cLparen then (Token.Lparen :: ·) <$> tokenizeDbrAux cls (i + 1) cs
    else if c == cRparen then (Token.Rparen :: ·) <$> tokenizeDbrAux cls (i + 1) cs
    else match cls.digit16 c with
      | some n => (Token.Number n :: ·) <$> tokenizeDbrAux cls (i + 1) cs
      | none =>
        if cls.isWs c then tokenizeDbrAux cls (i + 1) cs
        else .error (.InvalidCharacter i c)

def tokenizeDbr (cls : CharCls) (s : List Nat) : Except ParseError (List Token) :=
  tokenizeDbrAux cls 0 s

/-- lexer state of `tokenize_cla`: at top level, inside a binder (`λ` … `.`), inside a name -/
inductive LexMode where
  | top
  | lam (name : List Nat) (first : Bool)
  | name (acc : List Nat)
deriving Repr

/-- `tokenize_cla` (after the repairs F11/F12).  A variable name is its first (alphabetic)
character followed by the maximal run of ALPHANUMERIC characters OTHER THAN THE GLYPH `λ`; the first
character that is not alphanumeric, or is the glyph `λ` (a letter for Unicode), ends the name
WITHOUT being consumed and is then processed by the outer loop like any character at top level: a
glyph (either one) opens a binder, a parenthesis is a token, whitespace is skipped, a letter starts
a new name, and anything else is `InvalidCharacter` with its character index.  So `x\y.y` and
`xλy.y` both lex as `CName "x"`, `CLambda "y"`, `CName "y"`, and `x.y`, `x#`, `λx.x-` are lexical
errors (at 1, 1, 4).

Inside a BINDER the dot ends the name only after its first character (F12): with an empty name the
dot goes through the remaining tests like any character, so `λ.x` is `InvalidCharacter 1 '.'` for
every classification in which the dot is not alphabetic.  Inside a binder name the glyph `λ` is
still an ordinary letter (`λxλy.x` has ONE binder named `xλy`; `\λ.x` has a binder named `λ`). -/
def tokenizeClaAux (cls : CharCls) : LexMode → Nat → List Nat → Except ParseError (List CToken)
  | .top, _, [] => .ok []
  -- the inner `for` loop ends with the input: the (possibly empty, unterminated) binder is pushed
  | .lam name _, _, [] => .ok [CToken.CLambda name]
  | .name acc, _, [] => .ok [CToken.CName acc]
  | .top, i, c :: cs =>
    if isLam c then tokenizeClaAux cls (.lam [] true) (i + 1) cs
    else if c == cLparen then (CToken.CLparen :: ·) <$> tokenizeClaAux cls .top (i + 1) cs
    else if c == cRparen then (CToken.CRparen :: ·) <$> tokenizeClaAux cls .top (i + 1) cs
    else if cls.isWs c then tokenizeClaAux cls .top (i + 1) cs
    else if cls.isAlpha c then tokenizeClaAux cls (.name [c]) (i + 1) cs
    else .error (.InvalidCharacter i c)
  | .lam name first, i, c :: cs =>
    -- F12: the dot ends the binder name only if the name is not empty (`c == '.' && !first_char`)
    if c == cDot && !first then (CToken.CLambda name :: ·) <$> tokenizeClaAux cls .top (i + 1) cs
    else if first && cls.isAlpha c then tokenizeClaAux cls (.lam (name ++ [c]) false) (i + 1) cs
    else if !first && cls.isAlnum c then tokenizeClaAux cls (.lam (name ++ [c]) false) (i + 1) cs
    else .error (.InvalidCharacter i c)
  | .name acc, i, c :: cs =>
    -- `peek`: an alphanumeric character other than the glyph `λ` continues the name (F11: the Rust
    -- test is `!c.is_alphanumeric() || c == 'λ'` → `break`; `λ` is a letter for Unicode) …
    if cls.isAlnum c && c != cLambda then tokenizeClaAux cls (.name (acc ++ [c])) (i + 1) cs
    -- … any other character ends it (`break`, the character is not consumed): `CName acc` is
    -- pushed and the outer loop processes `c` exactly as mode `.top` does (same tests, same order)
    else if isLam c then
      (CToken.CName acc :: ·) <$> tokenizeClaAux cls (.lam [] true) (i + 1) cs
    else if c == cLparen then
      (fun r => CToken.CName acc :: CToken.CLparen :: r) <$> tokenizeClaAux cls .top (i + 1) cs
    else if c == cRparen then
      (fun r => CToken.CName acc :: CToken.CRparen :: r) <$> tokenizeClaAux cls .top (i + 1) cs
    else if cls.isWs c then (CToken.CName acc :: ·) <$> tokenizeClaAux cls .top (i + 1) cs
    else if cls.isAlpha c then
      (CToken.CName acc :: ·) <$> tokenizeClaAux cls (.name [c]) (i + 1) cs
    else .error (.InvalidCharacter i c)

def tokenizeCla (cls : CharCls) (s : List Nat) : Except ParseError (List CToken) :=
  tokenizeClaAux cls .top 0 s

/-- position of the first element equal to `x` -/
def indexOf? (x : List Nat) : List (List Nat) → Option Nat
  | [] => none
  | y :: ys => if x == y then some 0 else (indexOf? x ys).map (· + 1)

/-- `_convert_classic_tokens` as one pass.
`stk` is the `VecDeque` read from the BACK (head = most recently pushed binder, free names are
appended at the far end = `push_front`); `counts` holds `inner_stack_count` of every active call
(head = innermost).  `none` = the checked subtraction `stack.len() - inner_stack_count`
underflowed (a Rust panic). -/
def convLoop : List CToken → List (List Nat) → List Nat → Option (List Token)
  | [], _, _ => some []
  | _ :: _, _, [] => some []   -- no active call (not reachable from `convertClassicTokens`)
  | .CLambda name :: ts, stk, c :: cs =>
    (Token.Lambda :: ·) <$> convLoop ts (name :: stk) ((c + 1) :: cs)
  | .CLparen :: ts, stk, c :: cs =>
    (Token.Lparen :: ·) <$> convLoop ts stk (0 :: c :: cs)
  | .CRparen :: ts, stk, c :: cs =>
    if c ≤ stk.length then
      match cs with
      | [] => some [Token.Rparen]           -- the outermost call returns: conversion ends here
      | _ :: _ => (Token.Rparen :: ·) <$> convLoop ts (stk.drop c) cs
    else none
  | .CName name :: ts, stk, c :: cs =>
    match indexOf? name stk with
    | some index => (Token.Number (index + 1) :: ·) <$> convLoop ts stk (c :: cs)
    | none => (Token.Number (stk.length + 1) :: ·) <$> convLoop ts (stk ++ [name]) (c :: cs)

/-- `convert_classic_tokens` -/
def convertClassicTokens (tokens : List CToken) : Option (List Token) :=
  convLoop tokens [] [0]

/-- `enum Expression { Abstraction, Sequence(Vec<Expression>), Variable(usize) }` -/
inductive Expression where
  | Abstraction
  | Sequence (es : List Expression)
  | Variable (i : Nat)
deriving Repr, Inhabited

/-- `_get_ast` as one pass: `cur` is the current call's `expr` (reversed), `stack` the `expr`
vectors of the suspended callers (so `nested` = `stack ≠ []`) -/
def astLoop : List Token → List Expression → List (List Expression) → Except ParseError Expression
  | [], cur, [] => .ok (.Sequence cur.reverse)
  | [], _, _ :: _ => .error .InvalidExpression                    -- unclosed parenthesis
  | .Lambda :: ts, cur, st => astLoop ts (.Abstraction :: cur) st
  | .Number i :: ts, cur, st => astLoop ts (.Variable i :: cur) st
  | .Lparen :: ts, cur, st => astLoop ts [] (cur :: st)
  | .Rparen :: _, _, [] => .error .InvalidExpression              -- unmatched closing parenthesis
  | .Rparen :: ts, cur, parent :: st => astLoop ts (.Sequence cur.reverse :: parent) st

/-- `get_ast` -/
def getAst (tokens : List Token) : Except ParseError Expression :=
  if tokens.isEmpty then .error .EmptyExpression else astLoop tokens [] []

/-- `fold_terms`: left-nested application of a non-empty vector -/
def foldTerms : List Term → Except ParseError Term
  | [] => .error .EmptyExpression
  | t :: ts => .ok (ts.foldl app t)

/-- the `output` vector built by the loop of `fold_exprs` (with the recursive calls
`fold_exprs(..)? = fold_terms(output of the recursive loop)?` inlined) -/
def foldList : List Expression → Except ParseError (List Term)
  | [] => .ok []
  | .Abstraction :: rest =>
    -- an abstraction extends as far to the right as possible; `break`
    match foldList rest with
    | .ok ts =>
      match foldTerms ts with
      | .ok b => .ok [abs b]
      | .error e => .error e
    | .error e => .error e
  | .Variable i :: rest =>
    match foldList rest with
    | .ok ts => .ok (var i :: ts)
    | .error e => .error e
  | .Sequence es :: rest =>
    match foldList es with
    | .ok us =>
      match foldTerms us with
      | .ok t =>
        match foldList rest with
        | .ok ts => .ok (t :: ts)
        | .error e => .error e
      | .error e => .error e
    | .error e => .error e

/-- `fold_exprs` -/
def foldExprs (es : List Expression) : Except ParseError Term :=
  match foldList es with
  | .ok ts => foldTerms ts
  | .error e => .error e

/-- outcome of `parse`: the Rust `Result`, or a panic -/
inductive Outcome where
  | ok (t : Term)
  | err (e : ParseError)
  | panic
deriving Repr, Inhabited

/-- `parse` -/
def parse (cls : CharCls) (input : List Nat) (n : Notation) : Outcome :=
  let tokens : Except ParseError (Option (List Token)) :=
    match n with
    | .DeBruijn => some <$> tokenizeDbr cls input
    | .Classic => convertClassicTokens <$> tokenizeCla cls input
  match tokens with
  | .error e => .err e
  | .ok none => .panic
  | .ok (some toks) =>
    match getAst toks with
    | .error e => .err e
    | .ok (.Sequence es) =>
      match foldExprs es with
      | .ok t => .ok t
      | .error e => .err e
    | .ok _ => .err .InvalidExpression

end Parser
end LC
