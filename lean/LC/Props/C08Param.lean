/-
C08 / C01 — UD is an inert constant for MULTI-STEP reduction (parametricity)

C08: "… index 0 (UD) appears in the result only if it appeared in the input and is never shifted, substituted for,
or captured."   C01: "The UD placeholder (index 0) behaves as an inert constant."

`LC/Props/C08.lean` states the one-step positional facts.  This file states the property for whole runs of
`apply` / `reduce` / `beta` / histories of `reduce` calls:  UD behaves EXACTLY like a free variable that nobody else
uses.  `udToFree k d t` (`LC/Proofs/UDParam.lean`) replaces every occurrence of UD in `t` — a term standing under `d`
binders — by the outer reference number `k + 1`, i.e. by `var (k + d + m + 1)` at an occurrence under `m` binders of `t`.

* forward (no hypothesis on `k`): every operation of the model and of the specification COMMUTES with `udToFree k d` —
  same `Ok`/`Err`, same `none`/`some`, same count, same redex selected, the results related by the same renaming;
* when reference `k + 1` is fresh (`freeInAux d (k+1) t = false`, e.g. `maxIndex t ≤ k + d`) the renaming is injective
  with explicit inverse `freeToUD k d`, and freshness survives reduction: the result of reducing a term with UD is
  the `freeToUD`-image of the result of reducing the term in which UD is a fresh free variable (`C08_ud_inert_constant`).
  So UD is never shifted, substituted for, captured, and it is duplicated / dropped exactly as a free variable is.
-/
import LC.Proofs.UDParamInj
import LC.Props.C06

namespace LC
open Term Spec

/-! ### 1. the substitution machinery -/

/-- `update_free_variables` commutes with the renaming (the term stands under `d + own` binders, `own` of them its own) -/
theorem C08_ud_parametric_shiftFV (k d added own : Nat) (t : Term) :
    udToFree k (d + added + own) (shiftFV added own t) = shiftFV added own (udToFree k (d + own) t) :=
  udToFree_shiftFV k d added own t

/-- `_apply(rhs, depth)` commutes with the renaming at every depth `e + 1 ≥ 1` (the only depths at which it runs on a
body): the body stands under `d + e + 1` binders, the argument under `d`, the result under `d + e` -/
theorem C08_ud_parametric_applyAux (k d e : Nat) (rhs t : Term) :
    udToFree k (d + e) (applyAux rhs (e + 1) t)
      = applyAux (udToFree k d rhs) (e + 1) (udToFree k (d + e + 1) t) :=
  udToFree_applyAux k d e rhs t

/-- the contractum of the renamed redex is the renamed contractum -/
theorem C08_ud_parametric_contract (k d : Nat) (b a : Term) :
    udToFree k d (contract b a) = contract (udToFree k (d + 1) b) (udToFree k d a) :=
  udToFree_contract k d b a

theorem C08_ud_parametric_isAbs (k d : Nat) (t : Term) : isAbs (udToFree k d t) = isAbs t :=
  isAbs_udToFree k d t

/-- `apply` commutes with the renaming; the `NotAbs` error is preserved -/
theorem C08_ud_parametric_apply (k d : Nat) (t a : Term) :
    Term.apply (udToFree k d t) (udToFree k d a) = (Term.apply t a).map (udToFree k d) :=
  udToFree_apply k d t a

/-- the `&mut self` form of `apply`: receiver afterwards and returned `Result` -/
theorem C08_ud_parametric_applyMut (k d : Nat) (t a : Term) :
    applyMut (udToFree k d t) (udToFree k d a) = (udToFree k d (applyMut t a).1, (applyMut t a).2) :=
  udToFree_applyMut k d t a

-- (λ. 1 0 (λ. 0 2 1)).apply(0 2): the argument (containing UD) is copied twice, once under a binder; k = 4, d = 0
example :
    Term.apply (abs (app (app (var 1) (var 0)) (abs (app (app (var 0) (var 2)) (var 1))))) (app (var 0) (var 2))
      = .ok (app (app (app (var 0) (var 2)) (var 0)) (abs (app (app (var 0) (app (var 0) (var 3))) (var 1)))) ∧
    Term.apply (udToFree 4 0 (abs (app (app (var 1) (var 0)) (abs (app (app (var 0) (var 2)) (var 1))))))
        (udToFree 4 0 (app (var 0) (var 2)))
      = .ok (app (app (app (var 5) (var 2)) (var 5)) (abs (app (app (var 6) (app (var 6) (var 3))) (var 1)))) ∧
    Term.apply (udToFree 4 0 (var 0)) (udToFree 4 0 (var 0)) = .error .NotAbs :=
  ⟨rfl, rfl, rfl⟩

/-! ### 2. the small-step strategies -/

/-- every strategy selects the same redex in the renamed term and contracts it to the renamed contractum -/
theorem C08_ud_parametric_step (o : Order) (k d : Nat) (t : Term) :
    stepOrd o (udToFree k d t) = (stepOrd o t).map (udToFree k d) :=
  udToFree_stepOrd o k d t

/-- iterated: `n` strategy steps of the term are `n` strategy steps of the renamed term -/
theorem C08_ud_parametric_iter (o : Order) (k d n : Nat) (t u : Term) (h : Iter (stepOrd o) n t u) :
    Iter (stepOrd o) n (udToFree k d t) (udToFree k d u) :=
  udToFree_iter k d (udToFree_stepOrd o k d) h

example : stepOrd .HAP (udToFree 2 0 (abs (app (abs (app (var 1) (var 0))) (var 0))))
    = some (abs (app (var 4) (var 4))) ∧
    stepOrd .HAP (abs (app (abs (app (var 1) (var 0))) (var 0))) = some (abs (app (var 0) (var 0))) := by
  decide

/-! ### 3. the reducers -/

/-- the traversals, from any start count -/
theorem C08_ud_parametric_betaOrd (o : Order) (L fuel k d : Nat) (t : Term) (c : Nat) :
    betaOrd o L fuel (udToFree k d t) c
      = (betaOrd o L fuel t c).map (fun r => (udToFree k d r.1, r.2)) :=
  udToFree_betaOrd o L fuel k d t c

/-- THE MAIN THEOREM: `reduce` (every order, limit, fuel) commutes with the renaming of UD to the outer reference
`k + 1` — it runs out of fuel on the same inputs, counts the same number of contractions and leaves the renamed term -/
theorem C08_ud_parametric_reduce (o : Order) (L fuel k d : Nat) (t : Term) :
    reduce o L fuel (udToFree k d t) = (reduce o L fuel t).map (fun r => (udToFree k d r.1, r.2)) :=
  udToFree_reduce o L fuel k d t

/-- the free function `beta` -/
theorem C08_ud_parametric_betaFn (o : Order) (L fuel k d : Nat) (t : Term) :
    beta (udToFree k d t) o L fuel = (beta t o L fuel).map (udToFree k d) :=
  udToFree_betaFn o L fuel k d t

/-- any history of `reduce` calls (arbitrary orders, limits, fuels) -/
theorem C08_ud_parametric_history (h : List (Order × Nat × Nat)) (k d : Nat) (t : Term) :
    runHistory h (udToFree k d t) = (runHistory h t).map (udToFree k d) := by
  induction h generalizing t with
  | nil => rfl
  | cons p h ih =>
    obtain ⟨o, L, f⟩ := p
    simp only [runHistory, udToFree_reduce]
    cases reduce o L f t with
    | none => rfl
    | some q => obtain ⟨t', c⟩ := q; exact ih t'

-- T = (λx. λy. x x UD (λz. UD y)) (λw. UD): reducing T copies the argument `λw. UD` twice (into positions under one
-- binder), then erases one copy; UD occurrences under one and two binders are kept.
-- NOR normalises in 2 steps, CBV stops at the abstraction after 1, so does HSP with limit 1;
-- in the renamed term (k = 4) UD is `var 5` at depth 0, `var 6` under one binder, `var 7` under two.
example :
    reduce .NOR 0 12 (app (abs (abs (app (app (app (var 2) (var 2)) (var 0)) (abs (app (var 0) (var 2))))))
        (abs (var 0)))
      = some (abs (app (app (var 0) (var 0)) (abs (app (var 0) (var 2)))), 2) ∧
    reduce .NOR 0 12 (udToFree 4 0 (app (abs (abs (app (app (app (var 2) (var 2)) (var 0))
        (abs (app (var 0) (var 2)))))) (abs (var 0))))
      = some (abs (app (app (var 6) (var 6)) (abs (app (var 7) (var 2)))), 2) ∧
    reduce .CBV 0 12 (app (abs (abs (app (app (app (var 2) (var 2)) (var 0)) (abs (app (var 0) (var 2))))))
        (abs (var 0)))
      = some (abs (app (app (app (abs (var 0)) (abs (var 0))) (var 0)) (abs (app (var 0) (var 2)))), 1) ∧
    reduce .CBV 0 12 (udToFree 4 0 (app (abs (abs (app (app (app (var 2) (var 2)) (var 0))
        (abs (app (var 0) (var 2)))))) (abs (var 0))))
      = some (abs (app (app (app (abs (var 7)) (abs (var 7))) (var 6)) (abs (app (var 7) (var 2)))), 1) ∧
    reduce .HSP 1 12 (udToFree 4 0 (app (abs (abs (app (app (app (var 2) (var 2)) (var 0))
        (abs (app (var 0) (var 2)))))) (abs (var 0))))
      = some (abs (app (app (app (abs (var 7)) (abs (var 7))) (var 6)) (abs (app (var 7) (var 2)))), 1) ∧
    udToFree 4 0 (app (abs (abs (app (app (app (var 2) (var 2)) (var 0)) (abs (app (var 0) (var 2))))))
        (abs (var 0)))
      = app (abs (abs (app (app (app (var 2) (var 2)) (var 7)) (abs (app (var 8) (var 2)))))) (abs (var 6)) := by
  decide

-- out of fuel on the same inputs: Ω UD
example : reduce .APP 0 9 (app (app (abs (app (var 1) (var 1))) (abs (app (var 1) (var 1)))) (var 0)) = none ∧
    reduce .APP 0 9 (udToFree 0 0 (app (app (abs (app (var 1) (var 1))) (abs (app (var 1) (var 1)))) (var 0)))
      = none := by
  decide

example : runHistory [(.CBN, 1, 10), (.APP, 0, 10)] (udToFree 1 0 (app (abs (abs (app (var 2) (var 0)))) (var 3)))
    = some (udToFree 1 0 (abs (app (var 4) (var 0)))) ∧
    udToFree 1 0 (abs (app (var 4) (var 0))) = abs (app (var 4) (var 3)) := by decide

/-! ### 4. freshness, injectivity, and the inert-constant corollary -/

/-- when reference `k + 1` occurs neither in `t` nor in `u`, the renaming identifies them only if they are equal -/
theorem C08_ud_injective (k d : Nat) (t u : Term) (ht : freeInAux d (k + 1) t = false)
    (hu : freeInAux d (k + 1) u = false) (h : udToFree k d t = udToFree k d u) : t = u :=
  udToFree_injective k d t u ht hu h

/-- the bound of the task: every `var i` at binder depth `e` (counted from `d`) has `i ≤ e + k` -/
theorem C08_ud_injective_of_bound (k d : Nat) (t u : Term) (ht : udBound k d t = true) (hu : udBound k d u = true)
    (h : udToFree k d t = udToFree k d u) : t = u :=
  udToFree_injective k d t u (fresh_of_udBound k d t ht) (fresh_of_udBound k d u hu) h

/-- `maxIndex` form, at top level: `k + 1` is greater than every index of `t` and `u` -/
theorem C08_ud_injective_of_maxIndex (k : Nat) (t u : Term) (ht : maxIndex t ≤ k) (hu : maxIndex u ≤ k)
    (h : udToFree k 0 t = udToFree k 0 u) : t = u :=
  udToFree_injective k 0 t u (fresh_of_maxIndex k 0 t ht) (fresh_of_maxIndex k 0 u hu) h

/-- the explicit inverse -/
theorem C08_ud_freeToUD_udToFree (k d : Nat) (t : Term) (h : freeInAux d (k + 1) t = false) :
    freeToUD k d (udToFree k d t) = t :=
  freeToUD_udToFree k d t h

-- the hypothesis is needed: with k = 0 the reference number 1 is in use, and `UD 1` and `1 1` are identified
example : udToFree 0 0 (app (var 0) (var 1)) = udToFree 0 0 (app (var 1) (var 1)) ∧
    freeInAux 0 (0 + 1) (app (var 0) (var 1)) = true := by decide
example : freeInAux 0 (4 + 1) (abs (app (var 0) (app (var 5) (var 1)))) = false ∧
    maxIndex (abs (app (var 0) (app (var 5) (var 1)))) ≤ 4 + 1 ∧
    udBound 4 0 (abs (app (var 0) (app (var 5) (var 1)))) = true := by decide

/-- the renamed term contains no UD; it mentions reference `k + 1` exactly when the original mentions UD -/
theorem C08_ud_renamed_away (k d : Nat) (t : Term) (h : freeInAux d (k + 1) t = false) :
    hasUD (udToFree k d t) = false ∧ freeInAux d (k + 1) (udToFree k d t) = hasUD t :=
  ⟨hasUD_udToFree k d t, freeInAux_udToFree k d t h⟩

/-- a term without UD is left alone by the renaming -/
theorem C08_ud_absent (k d : Nat) (t : Term) (h : hasUD t = false) : udToFree k d t = t :=
  udToFree_of_not_hasUD k d t h

/-- freshness of a reference survives `reduce` -/
theorem C08_ud_fresh_reduce (o : Order) (L fuel k d : Nat) (t t' : Term) (c : Nat)
    (h : reduce o L fuel t = some (t', c)) (hk : freeInAux d (k + 1) t = false) :
    freeInAux d (k + 1) t' = false :=
  fresh_reduce h d k hk

/-- C08 / C01, UD IS AN INERT CONSTANT: let reference `k + 1` be fresh for `t`.  Then what `reduce` does to `t` is
DETERMINED by what it does to the term in which UD is that fresh free variable:
(a) `reduce` on `t` is `reduce` on the renamed term followed by renaming the variable back to UD (same `none`, same count);
(b) whenever the renamed term reduces to `(r', c)`, `t` reduces to `(r, c)` for the UNIQUE `k+1`-fresh `r` whose renaming
    is `r'` — every UD of the result sits exactly where the fresh variable sits, under the same binders. -/
theorem C08_ud_inert_constant (o : Order) (L fuel k d : Nat) (t : Term) (hk : freeInAux d (k + 1) t = false) :
    reduce o L fuel t = (reduce o L fuel (udToFree k d t)).map (fun r => (freeToUD k d r.1, r.2)) ∧
    ∀ r' c, reduce o L fuel (udToFree k d t) = some (r', c) →
      ∃ r, reduce o L fuel t = some (r, c) ∧ udToFree k d r = r' ∧ freeInAux d (k + 1) r = false ∧
        ∀ r₂, freeInAux d (k + 1) r₂ = false → udToFree k d r₂ = r' → r₂ = r := by
  rw [udToFree_reduce]
  cases hr : reduce o L fuel t with
  | none => exact ⟨rfl, fun r' c h => by cases h⟩
  | some p =>
    obtain ⟨r, c⟩ := p
    have hf := fresh_reduce hr d k hk
    refine ⟨?_, ?_⟩
    · simp only [Option.map_some, udP, freeToUD_udToFree k d r hf]
    · intro r' c' h
      simp only [Option.map_some, udP, Option.some.injEq, Prod.mk.injEq] at h
      obtain ⟨h1, h2⟩ := h
      subst h1 h2
      exact ⟨r, rfl, rfl, hf, fun r₂ h₂ he => udToFree_injective k d r₂ r h₂ hf he⟩

/-- the same at top level with the `maxIndex` hypothesis: `k + 1` exceeds every index of `t` -/
theorem C08_ud_inert_constant_maxIndex (o : Order) (L fuel k : Nat) (t : Term) (hk : maxIndex t ≤ k) :
    reduce o L fuel t = (reduce o L fuel (udToFree k 0 t)).map (fun r => (freeToUD k 0 r.1, r.2)) :=
  (C08_ud_inert_constant o L fuel k 0 t (fresh_of_maxIndex k 0 t hk)).1

-- T of above has maxIndex 2; with k = 4: rename, reduce, rename back = reduce
example : maxIndex (app (abs (abs (app (app (app (var 2) (var 2)) (var 0)) (abs (app (var 0) (var 2))))))
      (abs (var 0))) ≤ 4 ∧
    (reduce .NOR 0 12 (udToFree 4 0 (app (abs (abs (app (app (app (var 2) (var 2)) (var 0))
        (abs (app (var 0) (var 2)))))) (abs (var 0))))).map (fun r => (freeToUD 4 0 r.1, r.2))
      = some (abs (app (app (var 0) (var 0)) (abs (app (var 0) (var 2)))), 2) := by
  decide

/-! ### 5. the specification's β -/

/-- textbook substitution commutes with the renaming -/
theorem C08_ud_parametric_substTop (k d : Nat) (b a : Term) :
    udToFree k d (substTop b a) = substTop (udToFree k (d + 1) b) (udToFree k d a) :=
  udToFree_substTop k d b a

/-- C01 "inert constant": a β-step of the specification is a β-step of the renamed terms -/
theorem C08_ud_parametric_beta (k d : Nat) (t u : Term) (h : Beta t u) :
    Beta (udToFree k d t) (udToFree k d u) :=
  udToFree_beta h k d

/-- and conversely every β-step of the renamed term is the renaming of a β-step of the term: the renamed UD opens no
redex and blocks none -/
theorem C08_ud_parametric_beta_reflect (k d : Nat) (t u' : Term) (h : Beta (udToFree k d t) u') :
    ∃ u, u' = udToFree k d u ∧ Beta t u := by
  induction t generalizing d u' with
  | var i => cases i <;> cases h
  | abs b ih =>
    cases h with
    | congAbs hb =>
      obtain ⟨u, rfl, hu⟩ := ih (d + 1) _ hb
      exact ⟨abs u, rfl, Beta.congAbs hu⟩
  | app l r ihl ihr =>
    generalize hl : udToFree k d l = l0 at h
    generalize hr : udToFree k d r = r0 at h
    simp only [udToFree_app] at h
    rw [hl, hr] at h
    cases h with
    | red b0 a0 =>
      cases l with
      | var i => cases i <;> cases hl
      | abs b =>
        simp only [udToFree_abs, abs.injEq] at hl
        subst hl hr
        exact ⟨substTop b r, (udToFree_substTop k d b r).symm, Beta.red b r⟩
      | app l1 l2 => cases hl
    | congAppL hb =>
      subst hl hr
      obtain ⟨u, rfl, hu⟩ := ihl d _ hb
      exact ⟨app u r, rfl, Beta.congAppL hu⟩
    | congAppR hb =>
      subst hl hr
      obtain ⟨u, rfl, hu⟩ := ihr d _ hb
      exact ⟨app l u, rfl, Beta.congAppR hu⟩

theorem C08_ud_parametric_steps (k d n : Nat) (t u : Term) (h : Steps n t u) :
    Steps n (udToFree k d t) (udToFree k d u) :=
  udToFree_steps h k d

theorem C08_ud_parametric_star (k d : Nat) (t u : Term) (h : Star t u) :
    Star (udToFree k d t) (udToFree k d u) :=
  udToFree_star h k d

/-- multi-step form of the converse: every reduct of the renamed term is the renaming of a reduct of the term -/
theorem C08_ud_parametric_star_reflect (k d : Nat) (t u' : Term) (h : Star (udToFree k d t) u') :
    ∃ u, u' = udToFree k d u ∧ Star t u := by
  generalize hx : udToFree k d t = x at h
  induction h generalizing t with
  | refl _ => exact ⟨t, hx.symm, Star.refl _⟩
  | head hb _ ih =>
    subst hx
    obtain ⟨m, rfl, hm⟩ := C08_ud_parametric_beta_reflect k d t _ hb
    obtain ⟨u, hu, hs⟩ := ih m rfl
    exact ⟨u, hu, Star.head hm hs⟩

/-- normal forms correspond -/
theorem C08_ud_parametric_normal (k d : Nat) (t : Term) : Normal (udToFree k d t) ↔ Normal t := by
  constructor
  · intro hn u hb
    exact hn _ (udToFree_beta hb k d)
  · intro hn u' hb
    obtain ⟨u, _, hu⟩ := C08_ud_parametric_beta_reflect k d t u' hb
    exact hn u hu

example : Beta (app (abs (app (var 1) (var 0))) (var 0)) (app (var 0) (var 0)) := Beta.red _ _
example : Beta (udToFree 3 0 (app (abs (app (var 1) (var 0))) (var 0))) (app (var 4) (var 4)) :=
  C08_ud_parametric_beta 3 0 _ _ (Beta.red _ _)

end LC
