/-
C15 — Signed-number operations implement integer arithmetic on numeral pairs

"For each supported encoding (Church, Scott, Parigot, Stump-Fu) and all pairs of numerals (p, n) -
representing p - n, whether or not already simplified - simplify yields the canonical pair with at
least one zero component, modulus the absolute value, neg the swapped pair, to_signed the pair
(x, zero), and add, sub and mul the canonical pair of the integer sum, difference and product,
under NOR and HNO."

`Proofs/Num/Signed.lean` proves the seven operations ONCE against an abstract encoding interface
(`NumEnc`: is_zero, pred, add, mul with their C13/C14 laws); the generated constants
`Gen.Signed.*_E` are tied to the interface-parametrised bodies by 25 kernel-checked equalities, so
a change of a Rust definition breaks the tie.  Here the interface is instantiated four times and
lifted to the reducer: `Computes t n` (Proofs/Layer2.lean) contains convergence `t ↠ n`, normality
of `n`, and that `reduce NOR 0` and `reduce HNO 0` RETURN exactly `n` (C07) — for ALL p n p₁ n₁ p₂
n₂ : Nat, canonical or not.  The canonical pair `canonOf enc z` is exactly the Rust
`into_signed` (`canonOf_intoNum`, C12).  No bounded layer: the property claims NOR and HNO only.
-/
import LC.Proofs.Layer2
import LC.Proofs.Num.Signed
import LC.Proofs.Num.ChurchB
import LC.Proofs.Num.ScottParigot
import LC.Proofs.Num.StumpFuBinary
import LC.Props.C13

namespace LC
open Term Spec Enc SignedP C13

/-- the seven C15 statements of one encoding, lifted to the reducer -/
structure SignedComputes (enc : Nat → Term) (toSigned simplify modulus add sub mul : Term) : Prop where
  simplify : ∀ p n : Nat, Computes (app simplify (tuple2 (enc p) (enc n))) (canonOf enc ((p : Int) - n))
  modulus : ∀ p n : Nat, Computes (app modulus (tuple2 (enc p) (enc n))) (enc ((p : Int) - n).natAbs)
  neg : ∀ p n : Nat, Computes (app Gen.Signed.neg (tuple2 (enc p) (enc n))) (tuple2 (enc n) (enc p))
  to_signed : ∀ x : Nat, Computes (app toSigned (enc x)) (tuple2 (enc x) (enc 0))
  add : ∀ p₁ n₁ p₂ n₂ : Nat, Computes (app2 add (tuple2 (enc p₁) (enc n₁)) (tuple2 (enc p₂) (enc n₂)))
    (canonOf enc (((p₁ : Int) - n₁) + ((p₂ : Int) - n₂)))
  sub : ∀ p₁ n₁ p₂ n₂ : Nat, Computes (app2 sub (tuple2 (enc p₁) (enc n₁)) (tuple2 (enc p₂) (enc n₂)))
    (canonOf enc (((p₁ : Int) - n₁) - ((p₂ : Int) - n₂)))
  mul : ∀ p₁ n₁ p₂ n₂ : Nat, Computes (app2 mul (tuple2 (enc p₁) (enc n₁)) (tuple2 (enc p₂) (enc n₂)))
    (canonOf enc (((p₁ : Int) - n₁) * ((p₂ : Int) - n₂)))

namespace C15
theorem normal_canonOf {enc : Nat → Term} (hn : ∀ k, isNormal (enc k) = true) (z : Int) :
    isNormal (canonOf enc z) = true := by
  unfold canonOf; split <;> exact normal_tuple2 (hn _) (hn _)

theorem lift {enc : Nat → Term} {ts si mo ad su mu : Term} (h : SignedOK enc ts si mo ad su mu)
    (hn : ∀ k, isNormal (enc k) = true) : SignedComputes enc ts si mo ad su mu where
  simplify p n := computes_of_star (h.simplify p n) (normal_canonOf hn _)
  modulus p n := computes_of_star (h.modulus p n) (hn _)
  neg p n := computes_of_star (h.neg p n) (normal_tuple2 (hn _) (hn _))
  to_signed x := computes_of_star (h.to_signed x) (normal_tuple2 (hn _) (hn _))
  add p₁ n₁ p₂ n₂ := computes_of_star (h.add p₁ n₁ p₂ n₂) (normal_canonOf hn _)
  sub p₁ n₁ p₂ n₂ := computes_of_star (h.sub p₁ n₁ p₂ n₂) (normal_canonOf hn _)
  mul p₁ n₁ p₂ n₂ := computes_of_star (h.mul p₁ n₁ p₂ n₂) (normal_canonOf hn _)
end C15

theorem C15_church : SignedComputes intoChurch Gen.Signed.to_signed_church Gen.Signed.simplify_church
    Gen.Signed.modulus_church Gen.Signed.add_church Gen.Signed.sub_church Gen.Signed.mul_church :=
  C15.lift (C15_church_of church_pred_correct church_mul_correct) C12_normal_church

theorem C15_scott : SignedComputes intoScott Gen.Signed.to_signed_scott Gen.Signed.simplify_scott
    Gen.Signed.modulus_scott Gen.Signed.add_scott Gen.Signed.sub_scott Gen.Signed.mul_scott :=
  C15.lift (C15_scott_of scott_is_zero_correct scott_mul_correct) C12_normal_scott

theorem C15_parigot : SignedComputes intoParigot Gen.Signed.to_signed_parigot Gen.Signed.simplify_parigot
    Gen.Signed.modulus_parigot Gen.Signed.add_parigot Gen.Signed.sub_parigot Gen.Signed.mul_parigot :=
  C15.lift (C15_parigot_of parigot_is_zero_correct parigot_pred_correct parigot_add_correct parigot_mul_correct)
    C12_normal_parigot

theorem C15_stumpfu : SignedComputes intoStumpFu Gen.Signed.to_signed_stumpfu Gen.Signed.simplify_stumpfu
    Gen.Signed.modulus_stumpfu Gen.Signed.add_stumpfu Gen.Signed.sub_stumpfu Gen.Signed.mul_stumpfu :=
  C15.lift (C15_stumpfu_of stumpfu_is_zero_correct stumpfu_pred_correct stumpfu_add_correct stumpfu_mul_correct)
    C12_normal_stumpfu

/-- the canonical pair is exactly what the Rust `into_signed` builds (for every supported encoding) -/
theorem C15_canonical_is_into_signed (e : Encoding) (z : Int) : canonOf (intoNum e) z = intoSigned e z :=
  canonOf_intoNum e z

/-- the canonical pair has at least one zero component -/
theorem C15_canonical_has_zero (enc : Nat → Term) (z : Int) :
    (∃ k, canonOf enc z = tuple2 (enc k) (enc 0)) ∨ (∃ k, canonOf enc z = tuple2 (enc 0) (enc k)) := by
  unfold canonOf; split
  · exact Or.inl ⟨_, rfl⟩
  · exact Or.inr ⟨_, rfl⟩

/-! non-vacuity: a non-canonical Scott product, (2,1) * (0,3) = -3, under HNO -/
example : ∃ fuel c, reduce .HNO 0 fuel
    (app2 Gen.Signed.mul_scott (tuple2 (intoScott 2) (intoScott 1)) (tuple2 (intoScott 0) (intoScott 3)))
    = some (intoSigned .Scott (-3), c) := by
  have h := (C15_scott.mul 2 1 0 3).hno
  rw [canonOf_scott] at h
  exact h

end LC
