/-
C16 — List operations agree with sequence semantics in all four list encodings (final file).

The property text, layers 1 and 2 (`Computes`: convergence for ALL lists, termination of NOR and HNO, uniqueness of
the result under every normalising order), the laws for arbitrary payload terms and the small HAP cross-check grids are in
LC/Props/C16Base.lean.  THIS file adds the third order the property names, **HAP, unbounded**: for lists of ANY length,
`reduce .HAP 0` (hybrid applicative order, no step limit) RETURNS the expected encoding — for the observers and
conversions of all four list encodings and for every pair-list library function (with the Church operations of C13 as
the function arguments of the higher-order ones).  Proofs: big-step eager semantics `EvalHap` (Proofs/Eager/BigStep.lean,
adequate for the model reducer: `EvalHap.reduce`), one derivation per function by induction on the list
(Proofs/Eager/ListA.lean, ListB.lean).  The theorems below only restate those results under the property's name.
-/
import LC.Props.C16Base
import LC.Proofs.Eager.ListA
import LC.Proofs.Eager.ListB

namespace LC
open Term Spec Enc C16

/-! ## E. HAP terminates with the right result, for ALL lists -/

theorem C16_is_nil_pairList_hap (ns : List Nat) :
    ∃ fuel c, reduce .HAP 0 fuel (app Gen.PList.is_nil (cl ns)) =
      some (fromBool ns.isEmpty, c) :=
  is_nil_pairList_reduce_hap ns

theorem C16_head_pairList_hap (n : Nat) (ns : List Nat) :
    ∃ fuel c, reduce .HAP 0 fuel (app Gen.PList.head (cl (n :: ns))) =
      some (intoChurch n, c) :=
  head_pairList_reduce_hap n ns

theorem C16_tail_pairList_hap (n : Nat) (ns : List Nat) :
    ∃ fuel c, reduce .HAP 0 fuel (app Gen.PList.tail (cl (n :: ns))) =
      some (cl ns, c) :=
  tail_pairList_reduce_hap n ns

theorem C16_is_nil_churchList_hap (ns : List Nat) :
    ∃ fuel c, reduce .HAP 0 fuel (app Gen.CList.is_nil (churchList (ns.map intoChurch))) =
      some (fromBool ns.isEmpty, c) :=
  is_nil_churchList_reduce_hap ns

theorem C16_head_churchList_hap (n : Nat) (ns : List Nat) :
    ∃ fuel c, reduce .HAP 0 fuel (app Gen.CList.head (churchList ((n :: ns).map intoChurch))) =
      some (intoChurch n, c) :=
  head_churchList_reduce_hap n ns

theorem C16_tail_churchList_hap (n : Nat) (ns : List Nat) :
    ∃ fuel c, reduce .HAP 0 fuel (app Gen.CList.tail (churchList ((n :: ns).map intoChurch))) =
      some (churchList (ns.map intoChurch), c) :=
  tail_churchList_reduce_hap n ns

theorem C16_is_nil_scottList_hap (ns : List Nat) :
    ∃ fuel c, reduce .HAP 0 fuel (app Gen.SList.is_nil (scottList (ns.map intoScott))) =
      some (fromBool ns.isEmpty, c) :=
  is_nil_scottList_reduce_hap ns

theorem C16_head_scottList_hap (n : Nat) (ns : List Nat) :
    ∃ fuel c, reduce .HAP 0 fuel (app Gen.SList.head (scottList ((n :: ns).map intoScott))) =
      some (intoScott n, c) :=
  head_scottList_reduce_hap n ns

theorem C16_tail_scottList_hap (n : Nat) (ns : List Nat) :
    ∃ fuel c, reduce .HAP 0 fuel (app Gen.SList.tail (scottList ((n :: ns).map intoScott))) =
      some (scottList (ns.map intoScott), c) :=
  tail_scottList_reduce_hap n ns

theorem C16_is_nil_parigotList_hap (ns : List Nat) :
    ∃ fuel c, reduce .HAP 0 fuel (app Gen.GList.is_nil (parigotList (ns.map intoParigot))) =
      some (fromBool ns.isEmpty, c) :=
  is_nil_parigotList_reduce_hap ns

theorem C16_head_parigotList_hap (n : Nat) (ns : List Nat) :
    ∃ fuel c, reduce .HAP 0 fuel (app Gen.GList.head (parigotList ((n :: ns).map intoParigot))) =
      some (intoParigot n, c) :=
  head_parigotList_reduce_hap n ns

theorem C16_tail_parigotList_hap (n : Nat) (ns : List Nat) :
    ∃ fuel c, reduce .HAP 0 fuel (app Gen.GList.tail (parigotList ((n :: ns).map intoParigot))) =
      some (parigotList (ns.map intoParigot), c) :=
  tail_parigotList_reduce_hap n ns

theorem C16_conv_is_cons_pair_hap (ns : List Nat) :
    ∃ fuel c, reduce .HAP 0 fuel (ns.foldr (fun n acc => app2 Gen.PList.cons (intoChurch n) acc) Gen.PList.nil) =
      some (cl ns, c) :=
  conv_is_cons_pair_reduce_hap ns

theorem C16_conv_is_cons_church_hap (ns : List Nat) :
    ∃ fuel c, reduce .HAP 0 fuel (ns.foldr (fun n acc => app2 Gen.CList.cons (intoChurch n) acc) Gen.CList.nil) =
      some (churchList (ns.map intoChurch), c) :=
  conv_is_cons_church_reduce_hap ns

theorem C16_conv_is_cons_scott_hap (ns : List Nat) :
    ∃ fuel c, reduce .HAP 0 fuel (ns.foldr (fun n acc => app2 Gen.SList.cons (intoScott n) acc) Gen.SList.nil) =
      some (scottList (ns.map intoScott), c) :=
  conv_is_cons_scott_reduce_hap ns

theorem C16_conv_is_cons_parigot_hap (ns : List Nat) :
    ∃ fuel c, reduce .HAP 0 fuel (ns.foldr (fun n acc => app2 Gen.GList.cons (intoParigot n) acc) Gen.GList.nil) =
      some (parigotList (ns.map intoParigot), c) :=
  conv_is_cons_parigot_reduce_hap ns

theorem C16_length_hap (ns : List Nat) :
    ∃ fuel c, reduce .HAP 0 fuel (app Gen.PList.length (cl ns)) =
      some (intoChurch ns.length, c) :=
  plist_length_reduce_hap ns

theorem C16_reverse_hap (ns : List Nat) :
    ∃ fuel c, reduce .HAP 0 fuel (app Gen.PList.reverse (cl ns)) =
      some (cl ns.reverse, c) :=
  plist_reverse_reduce_hap ns

theorem C16_append_hap (ms ns : List Nat) :
    ∃ fuel c, reduce .HAP 0 fuel (app2 Gen.PList.append (cl ms) (cl ns)) =
      some (cl (ms ++ ns), c) :=
  plist_append_reduce_hap ms ns

theorem C16_index_hap (ns : List Nat) (i : Nat) (h : i < ns.length) :
    ∃ fuel c, reduce .HAP 0 fuel (app2 Gen.PList.index (intoChurch i) (cl ns)) =
      some (intoChurch ns[i], c) :=
  plist_index_reduce_hap ns i h

theorem C16_last_hap (ns : List Nat) (h : ns ≠ []) :
    ∃ fuel c, reduce .HAP 0 fuel (app Gen.PList.last (cl ns)) =
      some (intoChurch (ns.getLast h), c) :=
  plist_last_reduce_hap ns h

theorem C16_init_hap (ns : List Nat) (h : ns ≠ []) :
    ∃ fuel c, reduce .HAP 0 fuel (app Gen.PList.init (cl ns)) =
      some (cl ns.dropLast, c) :=
  plist_init_reduce_hap ns h

/-- the one point `C16_init_hap` leaves out: `init` of the EMPTY list under HAP (a ground fact, checked by the kernel) -/
theorem C16_init_nil_hap : ∃ fuel c, reduce .HAP 0 fuel (app Gen.PList.init (cl [])) = some (cl [], c) :=
  ⟨100, 10, by decide +kernel⟩

theorem C16_map_succ_hap (ns : List Nat) :
    ∃ fuel c, reduce .HAP 0 fuel (app2 Gen.PList.map Gen.Church.succ (cl ns)) = some (cl (ns.map (· + 1)), c) :=
  plist_map_succ_reduce_hap ns

theorem C16_foldl_add_hap (s : Nat) (ns : List Nat) :
    ∃ fuel c, reduce .HAP 0 fuel (app3 Gen.PList.foldl Gen.Church.add (intoChurch s) (cl ns)) =
      some (intoChurch (ns.foldl (· + ·) s), c) :=
  plist_foldl_add_reduce_hap s ns

theorem C16_foldr_add_hap (a : Nat) (ns : List Nat) :
    ∃ fuel c, reduce .HAP 0 fuel (app3 Gen.PList.foldr Gen.Church.add (intoChurch a) (cl ns)) =
      some (intoChurch (ns.foldr (· + ·) a), c) :=
  plist_foldr_add_reduce_hap a ns

theorem C16_foldl_sub_hap (s : Nat) (ns : List Nat) :
    ∃ fuel c, reduce .HAP 0 fuel (app3 Gen.PList.foldl Gen.Church.sub (intoChurch s) (cl ns)) =
      some (intoChurch (ns.foldl (· - ·) s), c) :=
  plist_foldl_sub_reduce_hap s ns

theorem C16_foldr_sub_hap (a : Nat) (ns : List Nat) :
    ∃ fuel c, reduce .HAP 0 fuel (app3 Gen.PList.foldr Gen.Church.sub (intoChurch a) (cl ns)) =
      some (intoChurch (ns.foldr (· - ·) a), c) :=
  plist_foldr_sub_reduce_hap a ns

theorem C16_filter_is_zero_hap (ns : List Nat) :
    ∃ fuel c, reduce .HAP 0 fuel (app2 Gen.PList.filter Gen.Church.is_zero (cl ns)) =
      some (cl (ns.filter (· == 0)), c) :=
  plist_filter_is_zero_reduce_hap ns

theorem C16_take_while_is_zero_hap (ns : List Nat) :
    ∃ fuel c, reduce .HAP 0 fuel (app2 Gen.PList.take_while Gen.Church.is_zero (cl ns)) =
      some (cl (ns.takeWhile (· == 0)), c) :=
  plist_take_while_is_zero_reduce_hap ns

theorem C16_drop_while_is_zero_hap (ns : List Nat) :
    ∃ fuel c, reduce .HAP 0 fuel (app2 Gen.PList.drop_while Gen.Church.is_zero (cl ns)) =
      some (cl (ns.dropWhile (· == 0)), c) :=
  plist_drop_while_is_zero_reduce_hap ns

theorem C16_zip_hap (ms ns : List Nat) :
    ∃ fuel c, reduce .HAP 0 fuel (app2 Gen.PList.zip (cl ms) (cl ns)) =
      some (pairList ((ms.zip ns).map (fun p => tuple2 (intoChurch p.1) (intoChurch p.2))), c) :=
  plist_zip_reduce_hap ms ns

theorem C16_zip_with_sub_hap (ms ns : List Nat) :
    ∃ fuel c, reduce .HAP 0 fuel (app3 Gen.PList.zip_with Gen.Church.sub (cl ms) (cl ns)) =
      some (cl ((ms.zip ns).map (fun p => p.1 - p.2)), c) :=
  plist_zip_with_sub_reduce_hap ms ns

theorem C16_take_hap (k : Nat) (ns : List Nat) :
    ∃ fuel c, reduce .HAP 0 fuel (app2 Gen.PList.take (intoChurch k) (cl ns)) = some (cl (ns.take k), c) :=
  plist_take_reduce_hap k ns

theorem C16_drop_hap (k : Nat) (ns : List Nat) :
    ∃ fuel c, reduce .HAP 0 fuel (app2 Gen.PList.drop (intoChurch k) (cl ns)) = some (cl (ns.drop k), c) :=
  plist_drop_reduce_hap k ns

theorem C16_replicate_hap (k y : Nat) :
    ∃ fuel c, reduce .HAP 0 fuel (app2 Gen.PList.replicate (intoChurch k) (intoChurch y)) =
      some (cl (List.replicate k y), c) :=
  plist_replicate_reduce_hap k y

theorem C16_list_hap (ns : List Nat) :
    ∃ fuel c, reduce .HAP 0 fuel ((ns.map intoChurch).foldl app (app Gen.PList.list (intoChurch ns.length))) =
      some (cl ns, c) :=
  plist_list_reduce_hap ns


/-! non-vacuity: a concrete instance (a three-element list), so the statements are not about nothing -/
example : ∃ fuel c, reduce .HAP 0 fuel (app Gen.PList.reverse (cl [1, 2, 3])) = some (cl [3, 2, 1], c) :=
  C16_reverse_hap [1, 2, 3]
example : ∃ fuel c, reduce .HAP 0 fuel (app3 Gen.PList.foldl Gen.Church.add (intoChurch 0) (cl [1, 2, 3])) =
    some (intoChurch 6, c) := C16_foldl_add_hap 0 [1, 2, 3]

end LC
