/-
C01 — reduce/beta performs only genuine beta-contractions and counts them exactly

"For every term, evaluation order and limit, the term left by reduce (equivalently, returned by
beta) is reachable from the input by exactly as many one-step beta-contractions as the returned
count, each contraction replacing some application of an abstraction to an argument by the
abstraction body with the argument substituted capture-avoidingly for the bound variable. A
count of 0 means the term is unchanged. The UD placeholder (index 0) behaves as an inert
constant."

`Steps c t t'` is "exactly `c` single `Spec.Beta` steps"; the root rule of `Spec.Beta` is
`(λb) a → substTop b a` with the independent textbook substitution `Spec.substTop`
(`lower ∘ subst 1 (lift a)`), not the model's one-pass `applyAux`.
-/
import LC.Proofs.ReduceLemmas
import LC.Proofs.FreeVars

namespace LC
open Term Spec

/-- C01: the term left by `reduce` is reached by exactly `count` β-contractions -/
theorem C01_reduce_steps (o : Order) (L fuel : Nat) (t t' : Term) (c : Nat)
    (h : reduce o L fuel t = some (t', c)) : Steps c t t' :=
  RL.reduce_steps h

example : reduce .NOR 0 10 (app (abs (var 1)) (app (abs (var 1)) (var 7))) = some (var 7, 2) := by
  decide
example : Steps 2 (app (abs (var 1)) (app (abs (var 1)) (var 7))) (var 7) :=
  C01_reduce_steps .NOR 0 10 _ _ _ (by decide)

/-- C01: the free function `beta` returns the term left by `reduce` -/
theorem C01_beta_eq_reduce (t : Term) (o : Order) (L fuel : Nat) :
    beta t o L fuel = (reduce o L fuel t).map (·.1) := rfl

/-- C01, `beta` form: the returned term is reachable by β-contractions, as many as `reduce` counts -/
theorem C01_beta_steps (o : Order) (L fuel : Nat) (t t' : Term)
    (h : beta t o L fuel = some t') : ∃ c, reduce o L fuel t = some (t', c) ∧ Steps c t t' := by
  rw [C01_beta_eq_reduce] at h
  cases hr : reduce o L fuel t with
  | none => rw [hr] at h; cases h
  | some p =>
    obtain ⟨u, c⟩ := p
    rw [hr] at h
    simp only [Option.map_some, Option.some.injEq] at h
    subst h
    exact ⟨c, rfl, RL.reduce_steps hr⟩

example : beta (app (abs (var 1)) (var 7)) .CBV 0 10 = some (var 7) := by decide

/-- C01: a count of 0 means the term is unchanged -/
theorem C01_count_zero (o : Order) (L fuel : Nat) (t t' : Term)
    (h : reduce o L fuel t = some (t', 0)) : t' = t :=
  (RL.reduce_steps h).zero_eq

example : reduce .HSP 0 10 (abs (app (var 1) (var 2))) = some (abs (app (var 1) (var 2)), 0) := by
  decide

/-- C01: UD is never substituted for -/
theorem C01_ud_inert (a : Term) : substTop (var 0) a = var 0 := by
  simp [substTop, subst, lower]

example : reduce .NOR 0 10 (app (abs (var 0)) (var 5)) = some (var 0, 1) := by decide

/-- C01: no UD is created by a contraction -/
theorem C01_ud_not_shifted (a : Term) (b : Term) :
    hasUD (substTop b a) = true → hasUD b = true ∨ hasUD a = true :=
  fun h => hasUD_substTop h

example : hasUD (substTop (app (var 1) (var 2)) (var 3)) = false := by decide
example : hasUD (substTop (app (var 1) (abs (var 0))) (var 3)) = true ∧
    substTop (app (var 1) (abs (var 0))) (var 3) = app (var 3) (abs (var 0)) := by decide

end LC
