/-
C01 at the representation boundary of indices, traversal level (DESIGN §9, repair F7)

`Props/C02Bounded.lean` states the boundary theorems for `apply` and for strategy STEPS.  Here the checked model is the
mirror of the Rust traversals themselves: `reduceChk M o limit fuel t` is `Term.reduce o limit fuel t` of
`Model/Reduce.lean` with `eval` contracting by the checked substitution `contractChk M` (a panic unwinds the whole
call): answers `ChkRes.ret t' c` (returned), `ChkRes.panic` ("De Bruijn index overflow"), `ChkRes.fuel` (model fuel
exhausted; never an answer of the crate).

* any limit: a checked call that returns, returns what the unbounded model returns, and it is representable;
  a checked call can only panic if the unbounded call contracts at least once;
* limit 1 (`reduceb`): the checked call panics EXACTLY when the term the unbounded `reduce(o, 1)` leaves is not
  representable, otherwise it returns that term and that count; it is the checked strategy step `stepOrdChk`;
* the driver's rule for `reduceb` (`driverReduceb`, see `Props/C02Bounded.lean`) is this checked traversal:
  "driver prints PANIC ↔ checked model panics".

For limits other than 1 the exact characterisation of the checked run (all intermediate terms representable) is
stated at the level of strategy steps (`C01_checked_run_iff`); for the traversals only the two implications above are
proved.
-/
import LC.Proofs.BoundedTraversalHap
import LC.Props.C02Bounded

namespace LC
open Term Spec

/-- C01: a checked `reduce` that returns, returns the term and the count of the unbounded model, and the term is
representable: every theorem about `reduce` applies to every call of the crate that returns -/
theorem C01_checked_reduce_sound (M : Nat) (o : Order) (L fuel : Nat) (t t' : Term) (c : Nat)
    (ht : maxIndex t ≤ M) (h : reduceChk M o L fuel t = .ret t' c) :
    reduce o L fuel t = some (t', c) ∧ maxIndex t' ≤ M := by
  have := reduceChk_rel M o L fuel t ht
  rw [h] at this
  exact this

/-- C01: the checked `reduce` runs out of model fuel only where the unbounded one does; where the unbounded one runs
out, the checked one does not return -/
theorem C01_checked_reduce_fuel (M : Nat) (o : Order) (L fuel : Nat) (t : Term) (ht : maxIndex t ≤ M) :
    (reduceChk M o L fuel t = .fuel → reduce o L fuel t = none) ∧
    (reduce o L fuel t = none → reduceChk M o L fuel t = .fuel ∨ reduceChk M o L fuel t = .panic) := by
  have := reduceChk_rel M o L fuel t ht
  constructor
  · intro h; rw [h] at this; exact this
  · intro h
    cases hx : reduceChk M o L fuel t with
    | fuel => exact Or.inl rfl
    | panic => exact Or.inr rfl
    | ret t' c => rw [hx, h] at this; cases this.1

/-- C01: a checked `reduce` panics only if the unbounded call contracts at least once, and if the unbounded call
contracts exactly once the term it leaves is not representable -/
theorem C01_checked_reduce_panic (M : Nat) (o : Order) (L fuel : Nat) (t t' : Term) (c : Nat)
    (ht : maxIndex t ≤ M) (h : reduceChk M o L fuel t = .panic) (hr : reduce o L fuel t = some (t', c)) :
    0 < c ∧ (c = 1 → M < maxIndex t') := by
  have := reduceChk_rel M o L fuel t ht
  rw [h] at this
  obtain ⟨h1, h2⟩ := this t' c hr
  exact ⟨h1, fun e => h2 (by omega)⟩

/-- C01, limit 1: with `(t', c)` the answer of the unbounded `reduce(o, 1)`, the checked `reduce(o, 1)` is that answer
if `t'` is representable and the panic otherwise -/
theorem C01_checked_reduce1_eq (M : Nat) (o : Order) (fuel : Nat) (t t' : Term) (c : Nat)
    (ht : maxIndex t ≤ M) (hr : reduce o 1 fuel t = some (t', c)) :
    reduceChk M o 1 fuel t = if maxIndex t' ≤ M then .ret t' c else .panic := by
  have hrel := reduceChk_rel M o 1 fuel t ht
  have hle : c ≤ 1 := (reduce_sound o 1 fuel t t' c hr).2.1 (by omega)
  cases hx : reduceChk M o 1 fuel t with
  | fuel => rw [hx, hr] at hrel; cases hrel
  | ret u d =>
    rw [hx, hr] at hrel
    obtain ⟨e, hm⟩ := hrel
    cases e
    simp [hm]
  | panic =>
    rw [hx] at hrel
    obtain ⟨h1, h2⟩ := hrel t' c hr
    have : ¬ maxIndex t' ≤ M := by have := h2 (by omega); omega
    simp [this]

/-- C01, limit 1: the checked traversal panics EXACTLY when the term left by the unbounded `reduce(o, 1)` is not
representable -/
theorem C01_checked_reduce1_panic_iff (M : Nat) (o : Order) (fuel : Nat) (t t' : Term) (c : Nat)
    (ht : maxIndex t ≤ M) (hr : reduce o 1 fuel t = some (t', c)) :
    reduceChk M o 1 fuel t = .panic ↔ M < maxIndex t' := by
  rw [C01_checked_reduce1_eq M o fuel t t' c ht hr]
  by_cases h : maxIndex t' ≤ M
  · simp only [h, if_true]; constructor
    · intro e; cases e
    · intro h'; omega
  · simp only [h, if_false, true_iff]; omega

/-- C01, limit 1: the checked traversal is the checked strategy step (whenever the model fuel suffices, which some fuel
always does: `C04_total`) -/
theorem C01_checked_reduce1_step (M : Nat) (o : Order) (fuel : Nat) (t : Term) (ht : maxIndex t ≤ M)
    (hf : reduce o 1 fuel t ≠ none) :
    reduceChk M o 1 fuel t =
      match stepOrdChk M o t with
      | none => .panic
      | some none => .ret t 0
      | some (some u) => .ret u 1 := by
  cases hr : reduce o 1 fuel t with
  | none => exact absurd hr hf
  | some p =>
    obtain ⟨t', c⟩ := p
    rw [C01_checked_reduce1_eq M o fuel t t' c ht hr, stepOrdChk_eq M o t ht]
    rcases C04_single_step o fuel t t' c hr with ⟨hs, rfl⟩ | ⟨hs, rfl, rfl⟩
    · rw [hs]
      by_cases hm : maxIndex t' ≤ M
      · rw [guardStep_some_le hm]; simp [hm]
      · rw [guardStep_some_gt (by omega)]; simp [hm]
    · rw [hs]; simp [guardStep, ht]

/-- C01, the driver's rule for `reduceb` against the checked TRAVERSAL: when the model's traversal returns, the driver
prints `PANIC` exactly when the checked traversal panics, and `<c> <t'>` exactly when the checked traversal returns
`(t', c)` -/
theorem C01_driver_reduceb_traversal (M : Nat) (o : Order) (fuel : Nat) (t : Term) (ht : maxIndex t ≤ M)
    (hf : reduce o 1 fuel t ≠ none) :
    (driverReduceb M o fuel t = some none ↔ reduceChk M o 1 fuel t = .panic) ∧
    (∀ t' c, driverReduceb M o fuel t = some (some (t', c)) ↔ reduceChk M o 1 fuel t = .ret t' c) := by
  cases hr : reduce o 1 fuel t with
  | none => exact absurd hr hf
  | some p =>
    obtain ⟨u, d⟩ := p
    rw [C01_checked_reduce1_eq M o fuel t u d ht hr]
    unfold driverReduceb
    rw [hr]
    by_cases hm : maxIndex u ≤ M
    · have hn : ¬ maxIndex u > M := by omega
      simp only [hm, hn, if_true, if_false]
      refine ⟨by simp, fun t' c => ?_⟩
      simp only [Option.some.injEq, Prod.mk.injEq, ChkRes.ret.injEq]
    · have hn : maxIndex u > M := by omega
      simp only [hm, hn, if_true, if_false]
      refine ⟨by simp, fun t' c => by simp⟩

/-- C01: the driver prints `fuel` only when the checked traversal does not return either -/
theorem C01_driver_reduceb_fuel (M : Nat) (o : Order) (fuel : Nat) (t : Term) (ht : maxIndex t ≤ M)
    (h : driverReduceb M o fuel t = none) : ∀ t' c, reduceChk M o 1 fuel t ≠ .ret t' c := by
  intro t' c hx
  have := (C01_checked_reduce_sound M o 1 fuel t t' c ht hx).1
  unfold driverReduceb at h
  rw [this] at h
  cases h

-- PROVED SINCE (in `LC/Props/C01BoundedExact.lean`: `C01_checked_reduce_exact_run`, together with the iff forms
-- `C01_checked_reduce_exact`, `…_panic_iff`, `…_refuses_iff`, `…_returns_iff` for every limit incl. 0 and every fuel);
-- the statement is kept here as it was written when this file was finished:
-- the exact characterisation of the checked TRAVERSAL for limits other than 1 (for `L = 1` it is
-- `C01_checked_reduce1_step`; for the checked run of strategy steps it is `C01_checked_run_iff`):
-- theorem C01_checked_reduce_eq_run (M : Nat) (o : Order) (L fuel : Nat) (t : Term) (ht : maxIndex t ≤ M)
--     (hL : L ≠ 0) (hf : reduce o L fuel t ≠ none) :
--     reduceChk M o L fuel t =
--       match runChk M o L t 0 with
--       | none => .panic
--       | some (t', c) => .ret t' c

-- non-vacuity, `M = usize::MAX`: the F7 witness under all seven orders, limit 1 and limit 0; one index lower it returns
example : ∀ o : Order, reduceChk (2^64 - 1) o 1 10 (app (abs (abs (var 2))) (var (2^64 - 1))) = .panic ∧
    reduceChk (2^64 - 1) o 0 10 (app (abs (abs (var 2))) (var (2^64 - 1))) = .panic ∧
    reduceChk (2^64 - 1) o 1 10 (app (abs (abs (var 2))) (var (2^64 - 2))) = .ret (abs (var (2^64 - 1))) 1 := by
  intro o; cases o <;> decide +kernel

-- non-vacuity, `M = 5`: limit 1 on a term whose NOR successor is representable and whose APP successor is not
example :
    reduceChk 5 .NOR 1 10 (app (abs (var 2)) (app (abs (abs (var 2))) (var 5))) = .ret (var 1) 1 ∧
    reduceChk 5 .APP 1 10 (app (abs (var 2)) (app (abs (abs (var 2))) (var 5))) = .panic ∧
    reduce .APP 1 10 (app (abs (var 2)) (app (abs (abs (var 2))) (var 5))) = some (app (abs (var 2)) (abs (var 6)), 1) ∧
    driverReduceb 5 .APP 10 (app (abs (var 2)) (app (abs (abs (var 2))) (var 5))) = some none ∧
    reduceChk 5 .APP 1 10 (var 3) = .ret (var 3) 0 := by decide

-- a run whose final result is small but which the checked TRAVERSAL refuses (`M = 5`, unlimited call)
example :
    reduce .NOR 0 10 (app (app (abs (abs (var 2))) (var 5)) (var 1)) = some (var 5, 2) ∧
    reduceChk 5 .NOR 0 10 (app (app (abs (abs (var 2))) (var 5)) (var 1)) = .panic ∧
    reduceChk 6 .NOR 0 10 (app (app (abs (abs (var 2))) (var 5)) (var 1)) = .ret (var 5) 2 := by decide

end LC
