/-
C01 / C02 / C08 at the representation boundary of indices (DESIGN §9, repair F7)

In the crate De Bruijn indices are `usize`; the model's are unbounded naturals.  Since F7 a substitution whose correct
result needs an index above `usize::MAX` panics ("De Bruijn index overflow", `checked_add` in `update_free_variables`)
instead of wrapping.  `Driver.lean` answers the boundary operations `applyb` / `reduceb` with `PANIC` exactly when the
(unbounded) model result contains an index above `usize::MAX` (`maxIndex`).  The theorems below turn the hand argument
behind that rule into theorems, for an arbitrary bound `M` (`M = 2^64 - 1` for the crate on a 64-bit target):

* `applyChk`, `contractChk`, `stepOrdChk`, `runChk` (defined in `Proofs/Bounded*.lean` by mirroring the Rust text, `none`
  = panic) refuse EXACTLY when the mathematically correct result is not representable, and otherwise return it;
* the decision procedures of the driver, with the strings replaced by constructors (`driverApplyb`, `driverReduceb`),
  are equal to these checked functions on every input whose indices are representable;
* C08 at the boundary: a checked call that returns invents no variable and no UD (the pre-F7 symptom, a free variable
  wrapping into UD or into a bound one, is impossible), and an argument without free variables is never refused.

Which occurrence panics FIRST (the traversal is pre-order, operator before operand; inside a substituted copy the same)
is described by `applyAuxPanic`; it has no influence on WHETHER the call panics (`C02_checked_first_panic`).

The checked run is stated here at the level of strategy steps, of which the traversals are the iteration
(`reduce_sound`, `reduce_complete`, `C04_single_step`).  The seven traversals with the checked `eval` themselves
(`reduceChk`) are in `Proofs/BoundedTraversal*.lean`; `Props/C01BoundedTraversal.lean` states `reduceb` against them.
-/
import LC.Proofs.BoundedRun
import LC.Proofs.FreeVars
import LC.Proofs.PSubst
import LC.Props.C02
import LC.Props.C04

namespace LC
open Term Spec

/-! ## C02 — `apply` -/

/-- C02, checked `update_free_variables`: refuses exactly when the unbounded result has an index above `M`; every leaf
the Rust code adds to is a leaf of the result -/
theorem C02_checked_shift_iff (M k own : Nat) (t : Term) (ht : maxIndex t ≤ M) :
    (∀ r, shiftFVChk M k own t = some r ↔ (r = shiftFV k own t ∧ maxIndex r ≤ M)) ∧
    (shiftFVChk M k own t = none ↔ M < maxIndex (shiftFV k own t)) := by
  rw [shiftFVChk_eq M k t own ht]
  refine ⟨fun r => ?_, guardIdx_eq_none⟩
  rw [guardIdx_eq_some]
  constructor
  · rintro ⟨rfl, h⟩; exact ⟨rfl, h⟩
  · rintro ⟨rfl, h⟩; exact ⟨rfl, h⟩

example : shiftFVChk 5 2 1 (app (var 1) (abs (app (var 2) (var 3)))) = some (app (var 1) (abs (app (var 2) (var 5)))) ∧
    shiftFVChk 5 3 1 (app (var 1) (abs (app (var 2) (var 3)))) = none := by decide

/-- C02, checked `_apply` at any depth: refuses exactly when the unbounded result has an index above `M` (an overflowing
shifted copy always survives into the result: `_apply` never discards what it has substituted) -/
theorem C02_checked_applyAux_iff (M : Nat) (a b : Term) (d : Nat) (ha : maxIndex a ≤ M) (hb : maxIndex b ≤ M) :
    (∀ r, applyAuxChk M a d b = some r ↔ (r = applyAux a d b ∧ maxIndex r ≤ M)) ∧
    (applyAuxChk M a d b = none ↔ M < maxIndex (applyAux a d b)) := by
  rw [applyAuxChk_eq M a ha b d hb]
  refine ⟨fun r => ?_, guardIdx_eq_none⟩
  rw [guardIdx_eq_some]
  constructor
  · rintro ⟨rfl, h⟩; exact ⟨rfl, h⟩
  · rintro ⟨rfl, h⟩; exact ⟨rfl, h⟩

/-- C02: the crate's `apply` on an abstraction RETURNS `r` exactly when the unbounded `apply` returns `r` and `r` is
representable -/
theorem C02_checked_apply_iff (M : Nat) (b a r : Term) (hb : maxIndex (abs b) ≤ M) (ha : maxIndex a ≤ M) :
    applyChk M (abs b) a = some (.ok r) ↔ (Term.apply (abs b) a = .ok r ∧ maxIndex r ≤ M) := by
  simp only [maxIndex] at hb
  simp only [applyChk, Term.apply, applyAuxChk_eq M a ha b 1 hb, Option.map_eq_some_iff, Except.ok.injEq]
  constructor
  · rintro ⟨x, hx, rfl⟩
    obtain ⟨rfl, h⟩ := guardIdx_eq_some.1 hx
    exact ⟨rfl, h⟩
  · rintro ⟨rfl, h⟩
    exact ⟨_, guardIdx_of_le h, rfl⟩

/-- C02: the crate's `apply` on an abstraction REFUSES (panics) exactly when the mathematically correct result is not
representable -/
theorem C02_checked_apply_none_iff (M : Nat) (b a : Term) (hb : maxIndex (abs b) ≤ M) (ha : maxIndex a ≤ M) :
    applyChk M (abs b) a = none ↔ ∃ r, Term.apply (abs b) a = .ok r ∧ M < maxIndex r := by
  simp only [maxIndex] at hb
  simp only [applyChk, Term.apply, applyAuxChk_eq M a ha b 1 hb, Option.map_eq_none_iff, Except.ok.injEq]
  rw [guardIdx_eq_none]
  constructor
  · intro h; exact ⟨_, rfl, h⟩
  · rintro ⟨r, rfl, h⟩; exact h

/-- C02, the same against the textbook substitution `Spec.substTop` of `C02_apply_abs` -/
theorem C02_checked_apply_substTop (M : Nat) (b a : Term) (hb : maxIndex (abs b) ≤ M) (ha : maxIndex a ≤ M) :
    (∀ r, applyChk M (abs b) a = some (.ok r) ↔ (r = substTop b a ∧ maxIndex (substTop b a) ≤ M)) ∧
    (applyChk M (abs b) a = none ↔ M < maxIndex (substTop b a)) := by
  refine ⟨fun r => ?_, ?_⟩
  · rw [C02_checked_apply_iff M b a r hb ha, C02_apply_abs]
    constructor
    · rintro ⟨h, hm⟩; cases h; exact ⟨rfl, hm⟩
    · rintro ⟨rfl, hm⟩; exact ⟨rfl, hm⟩
  · rw [C02_checked_apply_none_iff M b a hb ha, C02_apply_abs]
    constructor
    · rintro ⟨r, h, hm⟩; cases h; exact hm
    · intro hm; exact ⟨_, rfl, hm⟩

/-- C02: on a non-abstraction the checked `apply` answers `Err(NotAbs)` for every `M` — `unabs_ref()?` comes before any
arithmetic, nothing can panic -/
theorem C02_checked_apply_err (M : Nat) (t a : Term) (h : ∀ b, t ≠ abs b) :
    applyChk M t a = some (.error .NotAbs) := by
  cases t with
  | var i => rfl
  | abs b => exact absurd rfl (h b)
  | app l r => rfl

/-- C02, all receivers at once: the checked `apply` is the unbounded `apply` followed by the representability test -/
theorem C02_checked_apply_eq (M : Nat) (t a : Term) (ht : maxIndex t ≤ M) (ha : maxIndex a ≤ M) :
    applyChk M t a =
      match Term.apply t a with
      | .ok r => if maxIndex r ≤ M then some (.ok r) else none
      | .error e => some (.error e) := by
  cases t with
  | var i => rfl
  | app l r => rfl
  | abs b =>
    simp only [maxIndex] at ht
    simp only [applyChk, Term.apply, applyAuxChk_eq M a ha b 1 ht, guardIdx]
    by_cases h : maxIndex (applyAux a 1 b) ≤ M <;> simp [h]

-- non-vacuity, `M = 5`: the copy under one binder needs 5 + 1
example : applyChk 5 (abs (app (var 1) (var 3))) (var 5) = some (.ok (app (var 5) (var 2))) ∧
    applyChk 5 (abs (abs (var 2))) (var 5) = none ∧
    Term.apply (abs (abs (var 2))) (var 5) = .ok (abs (var 6)) ∧
    applyChk 5 (var 5) (var 5) = some (.error .NotAbs) := by decide

-- non-vacuity, `M = usize::MAX`: the witnesses of F7 (`abs(abs(Var(2))).apply(&Var(usize::MAX))`) and of DESIGN §9
example : applyChk (2^64 - 1) (abs (abs (var 2))) (var (2^64 - 1)) = none ∧
    applyChk (2^64 - 1) (abs (app (var 1) (abs (var 2)))) (var (2^64 - 1)) = none ∧
    applyChk (2^64 - 1) (abs (abs (var 2))) (var (2^64 - 2)) = some (.ok (abs (var (2^64 - 1)))) ∧
    applyChk (2^64 - 1) (abs (var 1)) (var (2^64 - 1)) = some (.ok (var (2^64 - 1))) ∧
    applyChk (2^64 - 1) (abs (abs (var 3))) (var (2^64 - 1)) = some (.ok (abs (var 2))) := by decide +kernel

/-- C02, which occurrence panics first: the checked `_apply` refuses exactly when `applyAuxPanic` finds a failing
addition (leftmost substituted occurrence in the body, then leftmost free leaf of the copy); the site it reports is an
occurrence of the bound variable at binder depth `e ≥ d` and a free index `j` of the argument with `j + (e - 1) > M` -/
theorem C02_checked_first_panic (M : Nat) (a b : Term) (d : Nat) :
    (applyAuxChk M a d b = none ↔ (applyAuxPanic M a d b).isSome = true) ∧
    (∀ e j, applyAuxPanic M a d b = some (e, j) → d ≤ e ∧ 0 < j ∧ M < j + (e - 1)) := by
  refine ⟨applyAuxChk_none_iff_panic M a b d, ?_⟩
  have hs : ∀ (t : Term) (k own i : Nat), shiftFVPanic M k own t = some i → own < i ∧ M < i + k := by
    intro t k
    induction t with
    | var i0 =>
      intro own i h
      simp only [shiftFVPanic] at h
      by_cases hc : i0 > own ∧ M < i0 + k
      · simp only [hc, and_self, if_true, Option.some.injEq] at h; subst h; exact ⟨hc.1, hc.2⟩
      · simp [hc] at h
    | abs b ih =>
      intro own i h
      have := ih (own + 1) i h
      exact ⟨by omega, this.2⟩
    | app l r ihl ihr =>
      intro own i h
      simp only [shiftFVPanic] at h
      cases hl : shiftFVPanic M k own l with
      | some x => rw [hl] at h; cases h; exact ihl own _ hl
      | none => rw [hl] at h; exact ihr own i h
  induction b generalizing d with
  | var i =>
    intro e j h
    simp only [applyAuxPanic] at h
    by_cases hi : i = d
    · simp only [hi, if_true, Option.map_eq_some_iff, Prod.mk.injEq] at h
      obtain ⟨x, hx, rfl, rfl⟩ := h
      have := hs a (d - 1) 0 x hx
      exact ⟨Nat.le_refl _, this.1, this.2⟩
    · simp [hi] at h
  | abs b ih =>
    intro e j h
    have := ih (d + 1) e j h
    exact ⟨by omega, this.2⟩
  | app l r ihl ihr =>
    intro e j h
    simp only [applyAuxPanic] at h
    cases hl : applyAuxPanic M a d l with
    | some x => rw [hl] at h; cases h; exact ihl d _ _ hl
    | none => rw [hl] at h; exact ihr d e j h

-- both copies overflow; the one in the operator (depth 2, index 5) is met first, the one at depth 3 never
example : applyAuxPanic 5 (app (var 1) (var 5)) 1 (app (abs (var 2)) (abs (abs (var 3)))) = some (2, 5) ∧
    applyAuxChk 5 (app (var 1) (var 5)) 1 (app (abs (var 2)) (abs (abs (var 3)))) = none := by decide

/-- C02: the binder counters `depth + 1`, `own_depth + 1` (plain `usize` additions in the crate) never overflow on terms
whose binder nesting stays within `M`: the variants that check them too are the same functions.  For `M = usize::MAX`
the hypothesis holds for every term that fits into memory. -/
theorem C02_checked_depth_counter (M : Nat) (b a : Term) (hb : 1 + maxDepth b ≤ M) (ha : maxDepth a ≤ M) :
    applyAuxStrict M a 1 b = contractChk M b a :=
  applyAuxStrict_eq M a ha b 1 hb

example : applyAuxStrict 5 (var 5) 1 (abs (var 2)) = none ∧ applyAuxStrict 5 (var 4) 1 (abs (var 2)) = some (abs (var 5)) ∧
    -- six nested binders: the counter itself overflows a 5-bounded `usize`, although no index is created
    applyAuxStrict 5 (var 1) 1 (abs (abs (abs (abs (abs (var 0)))))) = none ∧
    contractChk 5 (abs (abs (abs (abs (abs (var 0)))))) (var 1) = some (abs (abs (abs (abs (abs (var 0)))))) := by decide

/-- the decision of `Driver.exec` for the operation `applyb` (Driver.lean, `| "applyb" :: rest`), with the strings
replaced by constructors: `none` is the line `PANIC`, `some (.ok t')` the line `ok <t'>`, `some (.error e)` the line
`err <e>` -/
def driverApplyb (M : Nat) (t a : Term) : Option (Except TermError Term) :=
  match Term.apply t a with
  | .ok t' => if maxIndex t' > M then none else some (.ok t')
  | .error e => some (.error e)

/-- C02, the driver's rule for `applyb` is the checked model: on every operation whose indices are representable the
line the driver prints is the answer of the checked `apply` -/
theorem C02_driver_applyb (M : Nat) (t a : Term) (ht : maxIndex t ≤ M) (ha : maxIndex a ≤ M) :
    driverApplyb M t a = applyChk M t a := by
  rw [C02_checked_apply_eq M t a ht ha]
  unfold driverApplyb
  cases Term.apply t a with
  | error e => rfl
  | ok r =>
    by_cases h : maxIndex r ≤ M
    · have : ¬ maxIndex r > M := by omega
      simp [h, this]
    · have : maxIndex r > M := by omega
      simp [h, this]

/-- C02: "driver prints PANIC ↔ checked model returns none" -/
theorem C02_driver_applyb_panic_iff (M : Nat) (t a : Term) (ht : maxIndex t ≤ M) (ha : maxIndex a ≤ M) :
    driverApplyb M t a = none ↔ applyChk M t a = none := by
  rw [C02_driver_applyb M t a ht ha]

example : driverApplyb (2^64 - 1) (abs (abs (var 2))) (var (2^64 - 1)) = none ∧
    driverApplyb (2^64 - 1) (abs (abs (var 2))) (var 7) = some (.ok (abs (var 8))) := by decide +kernel

/-! ## C01 — one reduction step, and runs -/

/-- C01: the checked contraction (what `eval` does) refuses exactly when the contractum is not representable -/
theorem C01_checked_contract_iff (M : Nat) (b a : Term) (hb : maxIndex b ≤ M) (ha : maxIndex a ≤ M) :
    (∀ r, contractChk M b a = some r ↔ (r = contract b a ∧ maxIndex r ≤ M)) ∧
    (contractChk M b a = none ↔ M < maxIndex (contract b a)) :=
  C02_checked_applyAux_iff M a b 1 ha hb

/-- C01: one checked step of any order RETURNS `u` exactly when the unbounded strategy steps to `u` and `u` is
representable -/
theorem C01_checked_step_iff (M : Nat) (o : Order) (t u : Term) (ht : maxIndex t ≤ M) :
    stepOrdChk M o t = some (some u) ↔ (stepOrd o t = some u ∧ maxIndex u ≤ M) := by
  rw [stepOrdChk_eq M o t ht]
  cases hs : stepOrd o t with
  | none => simp [guardStep]
  | some w =>
    by_cases h : maxIndex w ≤ M
    · rw [guardStep_some_le h]
      constructor
      · intro e; cases e; exact ⟨rfl, h⟩
      · rintro ⟨e, _⟩; cases e; rfl
    · rw [guardStep_some_gt (by omega)]
      constructor
      · intro e; cases e
      · rintro ⟨e, h'⟩; cases e; omega

/-- C01: one checked step REFUSES exactly when the term the strategy steps to is not representable -/
theorem C01_checked_step_none_iff (M : Nat) (o : Order) (t : Term) (ht : maxIndex t ≤ M) :
    stepOrdChk M o t = none ↔ ∃ u, stepOrd o t = some u ∧ M < maxIndex u := by
  rw [stepOrdChk_eq M o t ht]
  cases hs : stepOrd o t with
  | none => simp [guardStep]
  | some w =>
    by_cases h : maxIndex w ≤ M
    · rw [guardStep_some_le h]
      constructor
      · intro e; cases e
      · rintro ⟨u, e, h'⟩; cases e; omega
    · rw [guardStep_some_gt (by omega)]
      simp only [true_iff]
      exact ⟨w, rfl, by omega⟩

/-- C01: the checked step selects nothing exactly when the unbounded strategy selects nothing (no arithmetic is done) -/
theorem C01_checked_step_stuck_iff (M : Nat) (o : Order) (t : Term) (ht : maxIndex t ≤ M) :
    stepOrdChk M o t = some none ↔ stepOrd o t = none := by
  rw [stepOrdChk_eq M o t ht]
  cases hs : stepOrd o t with
  | none => simp [guardStep]
  | some w =>
    by_cases h : maxIndex w ≤ M
    · rw [guardStep_some_le h]; simp
    · rw [guardStep_some_gt (by omega)]; simp

/-- C01: a checked step that returns is a genuine β-contraction (so every theorem about `Spec.Beta` applies to it) and
leaves a representable term -/
theorem C01_checked_step_beta (M : Nat) (o : Order) (t u : Term) (ht : maxIndex t ≤ M)
    (h : stepOrdChk M o t = some (some u)) : Beta t u ∧ maxIndex u ≤ M := by
  obtain ⟨hs, hu⟩ := (C01_checked_step_iff M o t u ht).1 h
  exact ⟨stepOrd_beta o hs, hu⟩

-- non-vacuity with `M = 5`: the same term steps under NOR (the outer redex discards the argument) and is refused under
-- APP (the argument `(λλ2) 5 → λ6` is contracted first)
example :
    stepOrdChk 5 .NOR (app (abs (var 2)) (app (abs (abs (var 2))) (var 5))) = some (some (var 1)) ∧
    stepOrdChk 5 .APP (app (abs (var 2)) (app (abs (abs (var 2))) (var 5))) = none ∧
    stepOrd .APP (app (abs (var 2)) (app (abs (abs (var 2))) (var 5))) = some (app (abs (var 2)) (abs (var 6))) ∧
    stepOrdChk 5 .APP (var 3) = some none := by decide

-- non-vacuity with `M = usize::MAX`, all seven orders on the F7 witness `(λλ2) Var(usize::MAX)`
example : ∀ o : Order, stepOrdChk (2^64 - 1) o (app (abs (abs (var 2))) (var (2^64 - 1))) = none := by
  intro o; cases o <;> decide +kernel

/-- C01, multi-step runs: if every term of the unbounded run (the input, the intermediate terms, the result) is
representable, the checked run of at most `L ≠ 0` steps is the unbounded one -/
theorem C01_checked_run_eq (M : Nat) (o : Order) (L fuel : Nat) (t t' : Term) (c : Nat) (hL : L ≠ 0)
    (h : reduce o L fuel t = some (t', c))
    (hall : ∀ j u, j ≤ c → Iter (stepOrd o) j t u → maxIndex u ≤ M) :
    runChk M o L t 0 = some (t', c) := by
  have ht : maxIndex t ≤ M := hall 0 t (Nat.zero_le _) (Iter.zero t)
  rw [runChk_eq_some_iff M o L t 0 ht]
  exact ⟨c, by omega, RL.reduce_brun hL h, hall⟩

/-- C01, the same for the unlimited call `reduce(o, 0)`: any number `n ≥ count` of checked steps gives its result -/
theorem C01_checked_run_eq_unlimited (M : Nat) (o : Order) (fuel : Nat) (t t' : Term) (c n : Nat)
    (h : reduce o 0 fuel t = some (t', c)) (hn : c ≤ n)
    (hall : ∀ j u, j ≤ c → Iter (stepOrd o) j t u → maxIndex u ≤ M) :
    runChk M o n t 0 = some (t', c) := by
  have ht : maxIndex t ≤ M := hall 0 t (Nat.zero_le _) (Iter.zero t)
  rw [runChk_eq_some_iff M o n t 0 ht]
  exact ⟨c, by omega, (RL.reduce_urun h).brun hn, hall⟩

/-- C01, the exact statement for runs: the checked run of at most `n` steps returns `(t', c)` iff the unbounded
strategy run of at most `n` steps ends in `t'` after `c` steps and all its terms are representable; it refuses iff
some term reached within `n` steps is not representable -/
theorem C01_checked_run_iff (M : Nat) (o : Order) (n : Nat) (t : Term) (ht : maxIndex t ≤ M) :
    (∀ t' c, runChk M o n t 0 = some (t', c) ↔
      (Iter (stepOrd o) c t t' ∧ c ≤ n ∧ (c < n → stepOrd o t' = none) ∧
        ∀ j u, j ≤ c → Iter (stepOrd o) j t u → maxIndex u ≤ M)) ∧
    (runChk M o n t 0 = none ↔ ∃ j u, j ≤ n ∧ Iter (stepOrd o) j t u ∧ M < maxIndex u) := by
  refine ⟨fun t' c => ?_, runChk_eq_none_iff M o n t 0 ht⟩
  rw [runChk_eq_some_iff M o n t 0 ht]
  constructor
  · rintro ⟨k, hk, ⟨it, hle, hn⟩, hall⟩
    have : c = k := by omega
    subst this
    exact ⟨it, hle, hn, hall⟩
  · rintro ⟨it, hle, hn, hall⟩
    exact ⟨c, by omega, ⟨it, hle, hn⟩, hall⟩

/-- C01: a checked run that returns agrees with `reduce` (same term, same count) -/
theorem C01_checked_run_sound (M : Nat) (o : Order) (L fuel : Nat) (t t' u : Term) (c c' : Nat) (hL : L ≠ 0)
    (ht : maxIndex t ≤ M) (hr : runChk M o L t 0 = some (t', c)) (h : reduce o L fuel t = some (u, c')) :
    u = t' ∧ c' = c := by
  obtain ⟨k, hk, hb, _⟩ := (runChk_eq_some_iff M o L t 0 ht t' c).1 hr
  have : c = k := by omega
  subst this
  exact hb.unique (RL.reduce_brun hL h)

-- a run whose FINAL result is small but which the checked run refuses (`M = 5`): NOR on `((λλ2) 5) 1` passes through
-- `(λ6) 1` on its way to `5`
example :
    reduce .NOR 0 10 (app (app (abs (abs (var 2))) (var 5)) (var 1)) = some (var 5, 2) ∧
    reduce .NOR 1 10 (app (app (abs (abs (var 2))) (var 5)) (var 1)) = some (app (abs (var 6)) (var 1), 1) ∧
    runChk 5 .NOR 2 (app (app (abs (abs (var 2))) (var 5)) (var 1)) 0 = none ∧
    runChk 6 .NOR 2 (app (app (abs (abs (var 2))) (var 5)) (var 1)) 0 = some (var 5, 2) := by decide

-- the order matters: APP is refused where NOR returns (`M = 5`); with `M = 6` both return the same term
example :
    runChk 5 .NOR 9 (app (abs (var 2)) (app (abs (abs (var 2))) (var 5))) 0 = some (var 1, 1) ∧
    runChk 5 .APP 9 (app (abs (var 2)) (app (abs (abs (var 2))) (var 5))) 0 = none ∧
    runChk 6 .APP 9 (app (abs (var 2)) (app (abs (abs (var 2))) (var 5))) 0 = some (var 1, 2) := by decide

-- non-vacuity of `C01_checked_run_eq`: all three terms of the run have indices ≤ 5
example : runChk 5 .CBV 7 (app (abs (var 1)) (app (abs (var 1)) (var 5))) 0 = some (var 5, 2) ∧
    reduce .CBV 7 10 (app (abs (var 1)) (app (abs (var 1)) (var 5))) = some (var 5, 2) := by decide

/-- the decision of `Driver.exec` for the operation `reduceb <o>` (Driver.lean, `| "reduceb" :: o :: rest`), strings
replaced by constructors: outer `none` is the line `fuel`, `some none` the line `PANIC`, `some (some (t', c))` the line
`<c> <t'>`; the driver calls it with `M = USIZE_MAX`, `fuel = FUEL` -/
def driverReduceb (M : Nat) (o : Order) (fuel : Nat) (t : Term) : Option (Option (Term × Nat)) :=
  match reduce o 1 fuel t with
  | some (t', c) => some (if maxIndex t' > M then none else some (t', c))
  | none => none

/-- C01, the driver's rule for `reduceb` is the checked model: whenever the model's traversal returns (some fuel
always suffices, `C04_total`), the line the driver prints is the answer of the checked run with limit 1 -/
theorem C01_driver_reduceb (M : Nat) (o : Order) (fuel : Nat) (t : Term) (ht : maxIndex t ≤ M)
    (hf : reduce o 1 fuel t ≠ none) : driverReduceb M o fuel t = some (runChk M o 1 t 0) := by
  unfold driverReduceb
  cases h : reduce o 1 fuel t with
  | none => exact absurd h hf
  | some p =>
    obtain ⟨t', c⟩ := p
    simp only [runChk, Option.some.injEq]
    rw [stepOrdChk_eq M o t ht]
    rcases C04_single_step o fuel t t' c h with ⟨hs, rfl⟩ | ⟨hs, rfl, rfl⟩
    · rw [hs]
      by_cases hm : maxIndex t' ≤ M
      · have : ¬ maxIndex t' > M := by omega
        rw [guardStep_some_le hm]; simp [this]
      · have : maxIndex t' > M := by omega
        rw [guardStep_some_gt this]; simp [this]
    · rw [hs]
      have : ¬ maxIndex t' > M := by omega
      simp [guardStep, this]

/-- C01: "driver prints PANIC ↔ checked model returns none", for `reduceb`: with `(t', c)` the model's answer to
`reduce(o, 1)`, the test `maxIndex t' > M` of the driver holds exactly when the checked step of order `o` panics -/
theorem C01_driver_reduceb_panic_iff (M : Nat) (o : Order) (fuel : Nat) (t t' : Term) (c : Nat)
    (ht : maxIndex t ≤ M) (h : reduce o 1 fuel t = some (t', c)) :
    maxIndex t' > M ↔ stepOrdChk M o t = none := by
  rw [C01_checked_step_none_iff M o t ht]
  rcases C04_single_step o fuel t t' c h with ⟨hs, rfl⟩ | ⟨hs, rfl, rfl⟩
  · constructor
    · intro hm; exact ⟨t', hs, hm⟩
    · rintro ⟨u, hu, hm⟩; rw [hs] at hu; cases hu; exact hm
  · constructor
    · intro hm; omega
    · rintro ⟨u, hu, _⟩; rw [hs] at hu; cases hu

/-- C01: when the driver does not print PANIC it prints the result of the checked step -/
theorem C01_driver_reduceb_returned (M : Nat) (o : Order) (fuel : Nat) (t t' : Term) (c : Nat)
    (ht : maxIndex t ≤ M) (h : reduce o 1 fuel t = some (t', c)) (hm : ¬ maxIndex t' > M) :
    (c = 1 ∧ stepOrdChk M o t = some (some t')) ∨ (c = 0 ∧ t' = t ∧ stepOrdChk M o t = some none) := by
  rcases C04_single_step o fuel t t' c h with ⟨hs, rfl⟩ | ⟨hs, rfl, rfl⟩
  · exact Or.inl ⟨rfl, (C01_checked_step_iff M o t t' ht).2 ⟨hs, by omega⟩⟩
  · exact Or.inr ⟨rfl, rfl, (C01_checked_step_stuck_iff M o t' ht).2 hs⟩

example : driverReduceb (2^64 - 1) .HAP 10 (app (abs (abs (var 2))) (var (2^64 - 1))) = some none ∧
    driverReduceb (2^64 - 1) .HAP 10 (app (abs (abs (var 2))) (var (2^64 - 2)))
      = some (some (abs (var (2^64 - 1)), 1)) ∧
    runChk (2^64 - 1) .HAP 1 (app (abs (abs (var 2))) (var (2^64 - 1))) 0 = none := by decide +kernel

/-! ## C08 — nothing is invented at the boundary -/

/-- C08: a checked `apply` that returns invents no free variable and no UD: what F7 repaired (a wrapped index turning a
free variable into UD or into a bound variable) cannot be the answer of the checked operation -/
theorem C08_checked_apply (M : Nat) (b a r : Term) (hb : maxIndex (abs b) ≤ M) (ha : maxIndex a ≤ M)
    (h : applyChk M (abs b) a = some (.ok r)) :
    (∀ j, FreeIn j r → FreeIn j (abs b) ∨ FreeIn j a) ∧ (hasUD r = true → hasUD b = true ∨ hasUD a = true) := by
  obtain ⟨h1, _⟩ := (C02_checked_apply_iff M b a r hb ha).1 h
  rw [C02_apply_abs] at h1
  cases h1
  refine ⟨fun j hf => ?_, fun hu => hasUD_substTop hu⟩
  rcases freeIn_substTop hf with h | h
  · left
    obtain ⟨h1, h2⟩ := h
    exact ⟨by omega, by simpa [freeInAux] using h2⟩
  · exact Or.inr h

-- non-vacuity: free index 4 of the argument is still 4, the outer reference 2 of the body is renumbered to 1
example : applyChk 5 (abs (app (var 1) (app (var 2) (var 0)))) (var 4)
    = some (.ok (app (var 4) (app (var 1) (var 0)))) := by decide

/-- C08: a checked step that returns invents no free variable, no UD, and keeps closed terms closed -/
theorem C08_checked_step (M : Nat) (o : Order) (t u : Term) (ht : maxIndex t ≤ M)
    (h : stepOrdChk M o t = some (some u)) :
    (∀ j, FreeIn j u → FreeIn j t) ∧ (hasUD u = true → hasUD t = true) ∧
    (hasFreeVariables t = false → hasFreeVariables u = false) := by
  obtain ⟨hb, _⟩ := C01_checked_step_beta M o t u ht h
  exact ⟨fun _ hf => freeIn_beta hb hf, fun hu => hasUD_beta hb hu,
    fun hc => closed_star (Star.head hb (Star.refl _)) hc⟩

-- non-vacuity: a returning checked step keeps UD and the free variable 3
example : stepOrdChk 5 .HNO (abs (app (abs (app (var 1) (var 0))) (var 3)))
    = some (some (abs (app (var 3) (var 0)))) := by decide

/-- C08: an argument without free variables (UD allowed) is never refused: the only additions are made to FREE indices
of the argument -/
theorem C08_checked_apply_closed_arg (M : Nat) (b a : Term) (hb : maxIndex (abs b) ≤ M) (ha : maxIndex a ≤ M)
    (hc : closedAt 0 a = true) : applyChk M (abs b) a = some (.ok (substTop b a)) := by
  simp only [maxIndex] at hb
  have := maxIndex_applyAux_closed a hc b 1
  rw [C02_checked_apply_iff M b a _ (by simpa [maxIndex] using hb) ha, C02_apply_abs]
  refine ⟨rfl, ?_⟩
  rw [← contract_eq_substTop]
  unfold contract
  omega

-- the bound variable occurs under 3 binders; a closed argument with the largest representable BOUND index passes,
-- an argument with a free index near the bound does not
example : applyChk 5 (abs (abs (abs (abs (var 4))))) (abs (abs (abs (abs (abs (var 5))))))
      = some (.ok (abs (abs (abs (abs (abs (abs (abs (abs (var 5)))))))))) ∧
    closedAt 0 (abs (abs (abs (abs (abs (var 5)))))) = true ∧
    applyChk 5 (abs (abs (abs (abs (var 4))))) (var 3) = none := by decide

end LC
