/-
C18 — the four structural predicates

"For every term, has_free_variables is true exactly when some index exceeds the number of
enclosing binders or is 0; is_supercombinator is true exactly for supercombinators in the sense
of the definition its documentation links to (no free variables, and of the form of n >= 0
abstractions around a non-abstraction E in which every abstraction is again a supercombinator);
max_depth is the largest number of abstractions on any root-to-leaf path; and is_isomorphic_to
coincides with structural equality."

(is_supercombinator is only claimed for terms without UD.)

The occurrences of indices are addressed with the positions of `LC/Spec/Position.lean`
(`subAt t p = some (var i, k)`: the leaf at `p` is `var i` and lies under `k` binders).  The
specification of "supercombinator" is `Spec.SC.Supercombinator` in `LC/Spec/Supercomb.lean`; it is
written independently of the traversal used by the code (`scAux`).
-/
import LC.Spec.Supercomb
import LC.Spec.Position

namespace LC
open Term Spec

/-! ### has_free_variables -/

theorem hasFreeVariablesHelper_iff (t : Term) : ∀ d, hasFreeVariablesHelper d t = true ↔
    ∃ p i k, subAtAux d t p = some (var i, k) ∧ (i > k ∨ i = 0) := by
  induction t with
  | var x =>
    intro d
    constructor
    · intro h
      refine ⟨[], x, d, rfl, ?_⟩
      simpa [hasFreeVariablesHelper] using h
    · rintro ⟨p, i, k, hp, hik⟩
      cases p with
      | nil =>
        simp only [subAtAux, Option.some.injEq, Prod.mk.injEq, var.injEq] at hp
        obtain ⟨rfl, rfl⟩ := hp
        simpa [hasFreeVariablesHelper] using hik
      | cons c p => simp [subAtAux] at hp
  | abs b ih =>
    intro d
    simp only [hasFreeVariablesHelper]
    rw [ih (d + 1)]
    constructor
    · rintro ⟨p, i, k, hp, hik⟩
      exact ⟨.B :: p, i, k, hp, hik⟩
    · rintro ⟨p, i, k, hp, hik⟩
      cases p with
      | nil => simp [subAtAux] at hp
      | cons c p =>
        cases c with
        | B => exact ⟨p, i, k, hp, hik⟩
        | L => simp [subAtAux] at hp
        | R => simp [subAtAux] at hp
  | app l r ihl ihr =>
    intro d
    simp only [hasFreeVariablesHelper, Bool.or_eq_true]
    rw [ihl d, ihr d]
    constructor
    · rintro (⟨p, i, k, hp, hik⟩ | ⟨p, i, k, hp, hik⟩)
      · exact ⟨.L :: p, i, k, hp, hik⟩
      · exact ⟨.R :: p, i, k, hp, hik⟩
    · rintro ⟨p, i, k, hp, hik⟩
      cases p with
      | nil => simp [subAtAux] at hp
      | cons c p =>
        cases c with
        | B => simp [subAtAux] at hp
        | L => exact Or.inl ⟨p, i, k, hp, hik⟩
        | R => exact Or.inr ⟨p, i, k, hp, hik⟩

/-- C18, `has_free_variables`: true exactly when some leaf carries an index that exceeds the number
of binders enclosing it, or the index 0 (`UD`). -/
theorem C18_has_free (t : Term) : hasFreeVariables t = true ↔
    ∃ p i k, subAt t p = some (var i, k) ∧ (i > k ∨ i = 0) :=
  hasFreeVariablesHelper_iff t 0

/-! ### max_depth -/

theorem maxDepth_attained (t : Term) : ∀ d, ∃ p i, subAtAux d t p = some (var i, d + maxDepth t) := by
  induction t with
  | var x => intro d; exact ⟨[], x, rfl⟩
  | abs b ih =>
    intro d
    obtain ⟨p, i, hp⟩ := ih (d + 1)
    refine ⟨.B :: p, i, ?_⟩
    simp only [subAtAux, maxDepth]
    rw [hp]; congr 2; omega
  | app l r ihl ihr =>
    intro d
    simp only [maxDepth]
    by_cases h : maxDepth l ≤ maxDepth r
    · obtain ⟨p, i, hp⟩ := ihr d
      refine ⟨.R :: p, i, ?_⟩
      simp only [subAtAux]
      rw [hp, Nat.max_eq_right h]
    · obtain ⟨p, i, hp⟩ := ihl d
      refine ⟨.L :: p, i, ?_⟩
      simp only [subAtAux]
      rw [hp, Nat.max_eq_left (by omega)]

theorem maxDepth_bound (t : Term) : ∀ d p i k, subAtAux d t p = some (var i, k) → k ≤ d + maxDepth t := by
  induction t with
  | var x =>
    intro d p i k hp
    cases p with
    | nil =>
      simp only [subAtAux, Option.some.injEq, Prod.mk.injEq] at hp
      omega
    | cons c p => simp [subAtAux] at hp
  | abs b ih =>
    intro d p i k hp
    cases p with
    | nil => simp [subAtAux] at hp
    | cons c p =>
      cases c with
      | B => have := ih (d + 1) p i k hp; simp only [maxDepth]; omega
      | L => simp [subAtAux] at hp
      | R => simp [subAtAux] at hp
  | app l r ihl ihr =>
    intro d p i k hp
    cases p with
    | nil => simp [subAtAux] at hp
    | cons c p =>
      cases c with
      | B => simp [subAtAux] at hp
      | L => have := ihl d p i k hp; simp only [maxDepth]; omega
      | R => have := ihr d p i k hp; simp only [maxDepth]; omega

/-- depth of a leaf = number of abstractions on the path to it; max_depth is the largest one
(0 is impossible to miss: every term has a leaf) -/
theorem C18_max_depth (t : Term) :
    (∃ p i, subAt t p = some (var i, maxDepth t)) ∧
    (∀ p i k, subAt t p = some (var i, k) → k ≤ maxDepth t) := by
  constructor
  · obtain ⟨p, i, hp⟩ := maxDepth_attained t 0
    exact ⟨p, i, by simpa [subAt] using hp⟩
  · intro p i k hp
    simpa using maxDepth_bound t 0 p i k hp

/-! ### is_isomorphic_to -/

theorem isIsomorphicTo_iff (t : Term) : ∀ u, isIsomorphicTo t u = true ↔ t = u := by
  induction t with
  | var x => intro u; cases u <;> simp [isIsomorphicTo]
  | abs b ih => intro u; cases u <;> simp [isIsomorphicTo, ih]
  | app l r ihl ihr => intro u; cases u <;> simp [isIsomorphicTo, ihl, ihr]

/-- C18, `is_isomorphic_to` is structural equality. -/
theorem C18_iso (t u : Term) : isIsomorphicTo t u = decide (t = u) := by
  by_cases h : t = u
  · simp [h, (isIsomorphicTo_iff u u).2 rfl]
  · have : isIsomorphicTo t u ≠ true := fun e => h ((isIsomorphicTo_iff t u).1 e)
    simp [h, this]

/-! ### is_supercombinator -/

namespace SCProof
open Spec.SC

/-- the leaves of `t` that are not inside an abstraction of `t` carry an index `≤ d` -/
def outerLeavesLe (d : Nat) : Term → Bool
  | var i => decide (i ≤ d)
  | abs _ => true
  | app l r => outerLeavesLe d l && outerLeavesLe d r

def size : Term → Nat
  | var _ => 1
  | abs b => size b + 1
  | app l r => size l + size r + 1

theorem topAbs_size_le (t s : Term) (h : s ∈ topAbs t) : size s ≤ size t := by
  induction t with
  | var x => simp [topAbs] at h
  | abs b _ => simp only [topAbs, List.mem_singleton] at h; subst h; exact Nat.le_refl _
  | app l r ihl ihr =>
    simp only [topAbs, List.mem_append] at h
    simp only [size]
    rcases h with h | h
    · have := ihl h; omega
    · have := ihr h; omega

theorem stripAbs_size_le (t : Term) : size (stripAbs t).2 ≤ size t := by
  induction t with
  | var x => simp [stripAbs]
  | abs b ih => simp only [stripAbs, size]; omega
  | app l r _ _ => simp [stripAbs]

theorem stripAbs_not_abs (t : Term) : isAbs (stripAbs t).2 = false := by
  induction t with
  | var x => simp [stripAbs, isAbs]
  | abs b ih => simpa only [stripAbs] using ih
  | app l r _ _ => simp [stripAbs, isAbs]

/-- the maximal abstractions inside the body `E` of `t` are strictly smaller than `t` -/
theorem topAbs_strip_size_lt (t s : Term) (h : s ∈ topAbs (stripAbs t).2) : size s < size t := by
  have h1 := stripAbs_size_le t
  have h2 := stripAbs_not_abs t
  revert h h1 h2
  generalize (stripAbs t).2 = e
  intro h h1 h2
  cases e with
  | var x => simp [topAbs] at h
  | abs b => simp [isAbs] at h2
  | app l r =>
    simp only [topAbs, List.mem_append] at h
    simp only [size] at h1
    rcases h with h | h
    · have := topAbs_size_le _ _ h; omega
    · have := topAbs_size_le _ _ h; omega

/-- stripping the prefix: `scAux true d t` is `scAux false` on the body at depth `d + n` -/
theorem scAux_true_strip (t : Term) : ∀ d,
    scAux true d t = scAux false (d + (stripAbs t).1) (stripAbs t).2 := by
  induction t with
  | var x => intro d; simp [stripAbs, scAux]
  | abs b ih =>
    intro d
    simp only [scAux, stripAbs]
    rw [ih (d + 1)]; congr 1; omega
  | app l r _ _ => intro d; simp [stripAbs, scAux]

theorem closedAt_strip (t : Term) : ∀ d,
    closedAt d t = closedAt (d + (stripAbs t).1) (stripAbs t).2 := by
  induction t with
  | var x => intro d; simp [stripAbs]
  | abs b ih =>
    intro d
    simp only [closedAt, stripAbs]
    rw [ih (d + 1)]; congr 1; omega
  | app l r _ _ => intro d; simp [stripAbs]

theorem closedAt_mono (t : Term) : ∀ d d', d ≤ d' → closedAt d t = true → closedAt d' t = true := by
  induction t with
  | var x => intro d d' h; simp only [closedAt, decide_eq_true_eq]; omega
  | abs b ih => intro d d' h; simp only [closedAt]; exact ih (d + 1) (d' + 1) (by omega)
  | app l r ihl ihr =>
    intro d d' h
    simp only [closedAt, Bool.and_eq_true]
    exact fun ⟨h1, h2⟩ => ⟨ihl d d' h h1, ihr d d' h h2⟩

/-- closedness of a body splits into its outer leaves and its maximal abstractions -/
theorem closedAt_split (e : Term) (d : Nat) :
    closedAt d e = true ↔ outerLeavesLe d e = true ∧ ∀ s ∈ topAbs e, closedAt d s = true := by
  induction e with
  | var x => simp [closedAt, outerLeavesLe, topAbs]
  | abs b _ => simp [outerLeavesLe, topAbs]
  | app l r ihl ihr =>
    simp only [closedAt, outerLeavesLe, topAbs, Bool.and_eq_true, List.mem_append, ihl, ihr]
    constructor
    · rintro ⟨⟨a, b⟩, c, d⟩
      exact ⟨⟨a, c⟩, fun s hs => hs.elim (b s) (d s)⟩
    · rintro ⟨⟨a, c⟩, h⟩
      exact ⟨⟨a, fun s hs => h s (Or.inl hs)⟩, c, fun s hs => h s (Or.inr hs)⟩

/-- the body walk, given that the nested fresh calls are correct -/
theorem scAux_false_iff (e : Term)
    (hrec : ∀ s ∈ topAbs e, (isSupercombinator s = true ↔ Supercombinator s)) (d : Nat) :
    scAux false d e = true ↔ outerLeavesLe d e = true ∧ ∀ s ∈ topAbs e, Supercombinator s := by
  induction e with
  | var x => simp [scAux, outerLeavesLe, topAbs]
  | abs b _ =>
    have := hrec (abs b) (by simp [topAbs])
    simp only [isSupercombinator, scAux] at this
    simp only [scAux, outerLeavesLe, topAbs, List.mem_singleton, forall_eq, true_and]
    exact this
  | app l r ihl ihr =>
    have hl := ihl (fun s hs => hrec s (by simp [topAbs, hs]))
    have hr := ihr (fun s hs => hrec s (by simp [topAbs, hs]))
    simp only [scAux, outerLeavesLe, topAbs, Bool.and_eq_true, List.mem_append, hl, hr]
    constructor
    · rintro ⟨⟨a, b⟩, c, d⟩
      exact ⟨⟨a, c⟩, fun s hs => hs.elim (b s) (d s)⟩
    · rintro ⟨⟨a, c⟩, h⟩
      exact ⟨⟨a, fun s hs => h s (Or.inl hs)⟩, c, fun s hs => h s (Or.inr hs)⟩

theorem supercombinator_iff (t : Term) :
    Supercombinator t ↔ closedAt 0 t = true ∧ ∀ s ∈ topAbs (stripAbs t).2, Supercombinator s :=
  ⟨fun h => by cases h with | mk _ h1 h2 => exact ⟨h1, h2⟩, fun ⟨h1, h2⟩ => .mk t h1 h2⟩

theorem supercombinator_closed {t : Term} (h : Supercombinator t) : closedAt 0 t = true :=
  ((supercombinator_iff t).1 h).1

/-- the code agrees with the specification on every term (by induction on the size) -/
theorem isSupercombinator_iff_aux (n : Nat) : ∀ t, size t < n →
    (isSupercombinator t = true ↔ Supercombinator t) := by
  induction n with
  | zero => intro t h; omega
  | succ n ih =>
    intro t ht
    have hrec : ∀ s ∈ topAbs (stripAbs t).2, (isSupercombinator s = true ↔ Supercombinator s) :=
      fun s hs => ih s (by have := topAbs_strip_size_lt t s hs; omega)
    rw [isSupercombinator, scAux_true_strip t 0, scAux_false_iff _ hrec, supercombinator_iff,
      closedAt_strip t 0, closedAt_split]
    constructor
    · rintro ⟨h1, h2⟩
      exact ⟨⟨h1, fun s hs => closedAt_mono s 0 _ (Nat.zero_le _) (supercombinator_closed (h2 s hs))⟩, h2⟩
    · rintro ⟨⟨h1, _⟩, h2⟩
      exact ⟨h1, h2⟩

/-- `is_supercombinator` decides `Supercombinator` (no side condition is needed: both sides treat the
placeholder `UD = var 0` as a bound-looking index) -/
theorem isSupercombinator_iff (t : Term) : isSupercombinator t = true ↔ Supercombinator t :=
  isSupercombinator_iff_aux (size t + 1) t (Nat.lt_succ_self _)

end SCProof

/-- on terms without `UD`, "closed" in the sense of the specification is "no free variables" in the
sense of `has_free_variables` (this is where the `UD`-freeness matters: `has_free_variables` counts
`UD` as free, `is_supercombinator` does not) -/
theorem C18_closed_iff (t : Term) (h : SC.hasUD t = false) :
    SC.closedAt 0 t = true ↔ hasFreeVariables t = false := by
  suffices ∀ d, SC.closedAt d t = true ↔ hasFreeVariablesHelper d t = false from this 0
  induction t with
  | var x =>
    intro d
    simp only [SC.hasUD, beq_eq_false_iff_ne, ne_eq] at h
    simp only [SC.closedAt, hasFreeVariablesHelper, decide_eq_true_eq, Bool.or_eq_false_iff,
      decide_eq_false_iff_not, beq_eq_false_iff_ne, ne_eq]
    omega
  | abs b ih => intro d; exact ih h (d + 1)
  | app l r ihl ihr =>
    intro d
    simp only [SC.hasUD, Bool.or_eq_false_iff] at h
    simp only [SC.closedAt, hasFreeVariablesHelper, Bool.and_eq_true, Bool.or_eq_false_iff,
      ihl h.1 d, ihr h.2 d]

/-- C18, `is_supercombinator`: on terms without `UD` it is true exactly for the supercombinators.
(The hypothesis is not used by the proof, see `SCProof.isSupercombinator_iff`; it is what makes
`SC.closedAt 0` mean "`has_free_variables` is false", see `C18_closed_iff`.) -/
theorem C18_supercomb (t : Term) (_h : SC.hasUD t = false) :
    isSupercombinator t = true ↔ SC.Supercombinator t :=
  SCProof.isSupercombinator_iff t

/-! ### non-vacuity -/

-- the inner `λ.2` refers to the outer binder: not a supercombinator
example : isSupercombinator (abs (app (var 1) (abs (var 2)))) = false := by decide
example : isSupercombinator (abs (app (var 1) (abs (var 1)))) = true := by decide
-- n = 0 leading abstractions
example : isSupercombinator (app (abs (var 1)) (abs (var 1))) = true := by decide
example : hasFreeVariables (abs (app (var 1) (var 2))) = true := by decide
example : hasFreeVariables (abs (app (var 1) (abs (var 2)))) = false := by decide
example : hasFreeVariables (abs (var 0)) = true := by decide
example : maxDepth (app (abs (abs (var 1))) (abs (var 1))) = 2 := by decide
example : isIsomorphicTo (app (var 1) (var 2)) (app (var 2) (var 1)) = false := by decide

/-- the specification, instantiated by hand (not through the theorem) -/
example : SC.Supercombinator (abs (app (var 1) (abs (var 1)))) := by
  refine .mk _ (by decide) ?_
  intro s hs
  simp only [SC.stripAbs, SC.topAbs, List.nil_append, List.mem_singleton] at hs
  subst hs
  refine .mk _ (by decide) ?_
  intro s hs
  simp [SC.stripAbs, SC.topAbs] at hs

/-- and a non-instance of the specification: `λ.(1 (λ.2))` -/
example : ¬ SC.Supercombinator (abs (app (var 1) (abs (var 2)))) := by
  intro h
  cases h with
  | mk _ _ h2 =>
    have := h2 (abs (var 2)) (by simp [SC.stripAbs, SC.topAbs])
    cases this with
    | mk _ h1 _ => simp [SC.closedAt] at h1

end LC
