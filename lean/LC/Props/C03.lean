/-
C03 — Each order stops exactly at the normal form it documents

"Whenever reduce stops without exhausting its limit (or returns at all with limit 0), the term
is in the normal form documented for the order: beta-normal form for NOR, HNO, APP and HAP, weak
head normal form for CBN, weak normal form (no redex outside an abstraction) for CBV, head
normal form for HSP. Conversely a term already in that form is left unchanged with count 0, so
CBN and CBV never reduce inside abstractions and CBN/HSP never reduce arguments of a head
variable."

The normal forms `Spec.NF o` (`isNormal`, `isWHNF`, `isWNF`, `isHNF`) are defined by shape in
`LC/Spec/NormalForms.lean`, without reference to the reducer or the step functions;
`C03_normal_is_beta_normal` ties the shape `isNormal` to "no β-step is possible".
-/
import LC.Proofs.ReduceLemmas

namespace LC
open Term Spec

/-- C03: stopping with limit left (or with limit 0) happens only in the documented normal form -/
theorem C03_stops_in_nf (o : Order) (L fuel : Nat) (t t' : Term) (c : Nat)
    (h : reduce o L fuel t = some (t', c)) (hl : L = 0 ∨ c < L) : NF o t' = true :=
  (RL.stepOrd_none_iff o t').1 ((reduce_sound o L fuel t t' c h).2.2 hl)

-- (λx. (λy.y) x) : CBN stops at once (weak head normal), NOR goes on to λx.x
example : reduce .CBN 0 10 (abs (app (abs (var 1)) (var 1))) = some (abs (app (abs (var 1)) (var 1)), 0)
    ∧ NF .CBN (abs (app (abs (var 1)) (var 1))) = true := by decide
example : reduce .NOR 0 10 (abs (app (abs (var 1)) (var 1))) = some (abs (var 1), 1)
    ∧ NF .NOR (abs (var 1)) = true := by decide
-- with the limit exhausted the result need not be normal
example : reduce .NOR 1 10 (app (abs (var 1)) (app (abs (var 1)) (var 7)))
      = some (app (abs (var 1)) (var 7), 1)
    ∧ NF .NOR (app (abs (var 1)) (var 7)) = false := by decide

/-- C03, converse: whatever `reduce` returns on a term already in the documented normal form is
that term with count 0 -/
theorem C03_nf_fixed' (o : Order) (L fuel : Nat) (t t' : Term) (c : Nat) (hn : NF o t = true)
    (h : reduce o L fuel t = some (t', c)) : t' = t ∧ c = 0 := by
  have it := (reduce_sound o L fuel t t' c h).1
  obtain ⟨hc, ht⟩ := Iter.of_none it ((RL.stepOrd_none_iff o t).2 hn)
  exact ⟨ht, hc⟩

/-- C03, converse with termination: on a term already in the documented normal form `reduce`
does return (any fuel above the size of the term suffices), leaving the term unchanged with count 0 -/
theorem C03_nf_fixed (o : Order) (L : Nat) (t : Term) (hn : NF o t = true) :
    ∃ fuel, reduce o L fuel t = some (t, 0) :=
  ⟨RL.size t, RL.reduce_nf_fixed o L t (RL.size t) (Nat.le_refl _) hn⟩

/-- the explicit fuel bound behind `C03_nf_fixed` -/
theorem C03_nf_fixed_fuel (o : Order) (L fuel : Nat) (t : Term) (hn : NF o t = true)
    (hf : RL.size t ≤ fuel) : reduce o L fuel t = some (t, 0) :=
  RL.reduce_nf_fixed o L t fuel hf hn

example : NF .HSP (abs (app (var 1) (app (abs (var 1)) (var 2)))) = true
    ∧ reduce .HSP 0 6 (abs (app (var 1) (app (abs (var 1)) (var 2))))
      = some (abs (app (var 1) (app (abs (var 1)) (var 2))), 0) := by decide

/-- C03: the shape predicate `isNormal` is β-normality (no β-step possible) -/
theorem C03_normal_is_beta_normal (t : Term) : isNormal t = true ↔ Normal t :=
  RL.isNormal_iff_normal t

example : ¬ Normal (app (abs (var 1)) (var 2)) :=
  fun h => absurd ((C03_normal_is_beta_normal _).2 h) (by decide)
example : Normal (abs (app (var 1) (var 2))) := (C03_normal_is_beta_normal _).1 (by decide)

/-- C03: the strategy selects nothing exactly on the documented normal forms -/
theorem C03_no_step_iff_nf (o : Order) (t : Term) : stepOrd o t = none ↔ NF o t = true :=
  RL.stepOrd_none_iff o t

/-- C03: every abstraction is CBN- and CBV-normal — these orders never reduce inside abstractions -/
theorem C03_cbn_cbv_no_under_abs (b : Term) : NF .CBN (abs b) = true ∧ NF .CBV (abs b) = true :=
  ⟨rfl, rfl⟩

example : reduce .CBV 0 10 (abs (app (abs (var 1)) (var 1))) = some (abs (app (abs (var 1)) (var 1)), 0) := by
  decide

/-- C03: a head variable applied to any arguments is CBN- and HSP-normal — these orders never
reduce the arguments of a head variable -/
theorem C03_cbn_hsp_no_args (t : Term) (h : neutral t = true) :
    NF .CBN t = true ∧ NF .HSP t = true := by
  cases t <;> simp_all [NF, isWHNF, isHNF, neutral]

example : neutral (app (var 3) (app (abs (var 1)) (var 2))) = true
    ∧ reduce .CBN 0 10 (app (var 3) (app (abs (var 1)) (var 2)))
      = some (app (var 3) (app (abs (var 1)) (var 2)), 0) := by decide

end LC
