/-
C10, arithmetic side conditions of `impl Display for Term` (`src/term.rs`: `base26_encode`,
`show_precedence_cla`, `max_depth`): no addition overflows, no subtraction underflows, no cast
truncates, and the bytes handed to `String::from_utf8(..).expect(..)` are lower-case ASCII letters —
for every term whose binder depth fits `u32` and whose indices fit `usize` (64 bit).

`LC/Proofs/DisplayArith.lean` is a checked model of these functions: `+` on `u8`/`u32`/`u128` and
`-` return `none` when the result does not fit, `as u8` / `as u128` reduce modulo `2^8` / `2^128`,
`from_utf8(..).expect` is `none` unless the buffer is all ASCII.  The frozen model
(`LC/Model/Display.lean`) computes over `Nat`.

* `C10_display_arith_byte`       one round of the loop of `base26_encode`, operation by operation
* `C10_display_arith_bytes`      every byte pushed is in `97..=122` (`b'a'..=b'z'`)
* `C10_display_arith_base26`     `base26_encode(n)` is panic-free for `n < u128::MAX`
* `C10_display_arith_index`      `depth - i` and `max_depth + i - depth - 1` in `u128`
* `C10_display_arith_show`       `show_precedence_cla` (invariant `depth + binder depth ≤ max_depth`)
* `C10_display_arith_max_depth`  `max_depth()` fits `u32` iff the binder depth is `< 2^32`
* `C10_display_arith_total`      `Display` is panic-free and equals the frozen model's `display`
* `C10_display_arith_deep`       … and the hypothesis on the binder depth is needed
`impl Debug` (`show_precedence_dbr`) contains no operation of these kinds.
-/
import LC.Proofs.DisplayArith

namespace LC
open Term Display DisplayChk

/-- C10, one round of the loop of `base26_encode` (`n > 0`): `(n % 26) as u8` does not truncate,
the digit `m` is in `1..=26`, `m + b'a'` does not overflow `u8`, `… - 1` does not underflow and is a
lower-case ASCII letter, `n - 1` does not underflow, and the loop variable decreases -/
theorem C10_display_arith_byte (n : Nat) (h : n ≠ 0) :
    (n % 26) % 2 ^ 8 = n % 26 ∧
    (let m := if n % 26 = 0 then 26 else n % 26
     1 ≤ m ∧ m ≤ 26 ∧ m + 97 < 2 ^ 8 ∧ 1 ≤ m + 97 ∧ 97 ≤ m + 97 - 1 ∧ m + 97 - 1 ≤ 122) ∧
    1 ≤ n ∧ (n - 1) / 26 < n := by
  refine ⟨by omega, ?_, by omega, by omega⟩
  by_cases h0 : n % 26 = 0
  · simp [h0]
  · simp only [if_neg h0]; omega

example : (702 % 26) % 2 ^ 8 = 0 ∧ (701 % 26) % 2 ^ 8 = 25 := by decide

/-- C10, every byte pushed by `base26_encode` is in `97..=122` (`b'a'..=b'z'`), for every `n`; in
particular the buffer is ASCII, hence valid UTF-8: `String::from_utf8(buf).expect(..)` cannot fail -/
theorem C10_display_arith_bytes (n : Nat) : ∀ c ∈ base26 n, 97 ≤ c ∧ c ≤ 122 ∧ c < 128 := by
  intro c hc
  have := base26_range n c hc
  omega

example : base26 18277 = [122, 122, 122] := by decide +kernel

/-- C10, `base26_encode(n)` with every operation checked: for `n < u128::MAX` nothing overflows,
underflows or truncates, the UTF-8 check passes, and the result is the frozen model's `base26 n` -/
theorem C10_display_arith_base26 (n : Nat) (h : n + 1 < 2 ^ 128) :
    base26Chk n = some (base26 n) :=
  base26Chk_eq n h

example : base26Chk 702 = some [97, 97, 97] := by decide +kernel
/-- `n += 1` is a real check: it overflows for `n = u128::MAX` -/
example : base26Chk (2 ^ 128 - 1) = none := base26Chk_overflow

/-- C10, the name ordinal computed by `show_precedence_cla` for `Var(i)`, `i ≥ 1`, in `u128`: with
`i < 2^64` (a `usize`), `depth ≤ max_depth < 2^32`: a bound variable (`i ≤ depth`) gives `depth - i`,
no underflow; a free one (`i > depth`) gives `max_depth + i - depth - 1` where the sum does not
overflow and neither subtraction underflows; either ordinal is `< u128::MAX`, so `n += 1` in
`base26_encode` does not overflow -/
theorem C10_display_arith_index (i depth md : Nat) (h1 : 1 ≤ i) (hi : i < 2 ^ 64)
    (hd : depth ≤ md) (hmd : md < 2 ^ 32) :
    i % 2 ^ 128 = i ∧
    (i ≤ depth → depth - i + 1 < 2 ^ 128) ∧
    (depth < i → md + i < 2 ^ 128 ∧ depth ≤ md + i ∧ 1 ≤ md + i - depth ∧
      md + i - depth - 1 + 1 < 2 ^ 128) := by
  refine ⟨by omega, fun _ => by omega, fun _ => ⟨by omega, by omega, by omega, by omega⟩⟩

/-- C10, `show_precedence_cla(t, ctx, max_depth, depth)` with every operation checked: whenever
`depth + (binder depth of t) ≤ max_depth < 2^32` — the invariant of the recursion, so `depth + 1`
never overflows `u32` — and all indices are `< 2^64`, the result is the frozen model's `showCla` -/
theorem C10_display_arith_show (lam md : Nat) (hmd : md < 2 ^ 32) (t : Term) (ctx depth : Nat)
    (hd : depth + t.maxDepth ≤ md) (hi : idxLt (2 ^ 64) t) :
    showClaChk lam md t ctx depth = some (showCla lam md t ctx depth) :=
  showClaChk_eq lam md hmd t ctx depth hd hi

/-- C10, `max_depth()`: the `+ 1` on `u32` overflows exactly when the binder depth reaches `2^32` -/
theorem C10_display_arith_max_depth (t : Term) :
    maxDepthChk t = if t.maxDepth < 2 ^ 32 then some t.maxDepth else none :=
  maxDepthChk_eq t

/-- C10, `impl Display for Term` with every arithmetic operation checked: for every term of binder
depth `< 2^32` with indices `< 2^64`, and either glyph, nothing overflows, underflows or truncates,
`from_utf8(..).expect` succeeds, and the string is the frozen model's `display` -/
theorem C10_display_arith_total (lam : Nat) (t : Term) (hd : t.maxDepth < 2 ^ 32)
    (hi : idxLt (2 ^ 64) t) : displayChk lam t = some (display lam t) :=
  displayChk_eq lam t hd hi

example : displayChk 955 (abs (abs (app (app (var 2) (var 1)) (var 3))))
    = some [955, 97, 46, 955, 98, 46, 97, 32, 98, 32, 99] := by decide +kernel
example : idxLt (2 ^ 64) (abs (app (var 1) (var 18446744073709551615))) := by simp [idxLt]
/-- the largest index a 64-bit `usize` can hold, free at depth 1: `2^64 - 1` in bijective base 26 -/
example : displayChk 92 (abs (var 18446744073709551615))
    = some ([92, 97, 46] ++ base26 18446744073709551614) := by
  rw [C10_display_arith_total 92 _ (by decide) (by simp [idxLt])]; decide +kernel

/-- C10, the hypothesis on the binder depth is needed: with `2^32` or more nested abstractions
`max_depth()` overflows its `u32` (a panic in a debug build; such a term occupies ≥ 64 GiB and the
recursive `max_depth` exhausts the stack first) -/
theorem C10_display_arith_deep (lam : Nat) (t : Term) (hd : 2 ^ 32 ≤ t.maxDepth) :
    displayChk lam t = none :=
  displayChk_deep lam t hd

end LC
