/-
C16 — List operations agree with sequence semantics in all four list encodings (companion file: the three stated gaps).

§F  OPEN payloads.  The Rust `Vec` conversions (`pairList`, `churchList`, `scottList`, `parigotList`) place the elements
    under the binders of the list WITHOUT shifting them, `cons` is capture-avoiding.  Hence
    * `C16_tail_cons_church_open`: `tail (cons a l) ↠ l` on the Church (fold) list for an ARBITRARY (open) `a` and every
      list `l = churchList ts` whose elements do not contain the two indices free that the conversion would capture
      (`¬ FreeIn 1 t ∧ ¬ FreeIn 2 t` — every closed term, every term written "two levels up"); the hypothesis cannot be
      dropped (`C16_tail_cons_church_open_needs_nofree`);
    * `C16_conv_is_cons_*_open`, `C16_{head,tail,is_nil}_*_open`: conversions = repeated cons and the observers for lists of
      ARBITRARY open terms, the elements placed under the binders of the list (`shiftFV`); the unshifted statements are
      false for open elements (`C16_conv_is_cons_needs_closed`).
    * `C16_{is_nil,head,tail}_*List_any`: the observers on the RAW conversions under the hypotheses they really need —
      `is_nil` none, `head` only "the head element is closed", `tail` only "the tail list is closed";
      `C16_length_any`: `length` on the raw conversion of ANY list, no hypothesis;
    * `C16_*_open`: EVERY pair-list library function on lists of ARBITRARY open terms (and arbitrary function
      arguments): the general layer-1 forms `C16_*_terms` of C16Base.lean without closedness.
§G  HAP, unbounded, for lists of ARBITRARY admissible elements (`HapValue v := Closed v ∧ EvalHap v v`: closed HAP
    values) in all four list encodings — in particular lists of CHURCH numerals in the Scott and Parigot list encodings
    (what the correspondence run uses), or numerals of any of the five numeral encodings.
    Also the FIRST-ORDER pair-list library functions (`length reverse append index last init take drop replicate zip
    list`) under HAP on pair lists of arbitrary admissible elements (C16.lean: Church numerals only).
The operations are the GENERATED constants `Gen.PList/CList/SList/GList.*`, mentioned by name only.
-/
import LC.Props.C16
import LC.Proofs.List.More
import LC.Proofs.List.OpenLibA
import LC.Proofs.List.OpenLibB
import LC.Proofs.List.MoreHap
import LC.Proofs.List.MoreHapLib

namespace LC
open Term Spec Enc C16 ListMore OpenLib

/-! ## F. open payloads -/

/-! ### F.1 Church (fold) list: `tail (cons a l) ↠ l` without closedness -/

/-- `tail (cons a l) ↠ l` for an ARBITRARY term `a` (open or closed) and the conversion `l` of a list of ARBITRARY terms
in which the indices 1 and 2 — the ones `into_church_list` captures — do not occur free.  (`C16_tail_cons_church` of
C16Base.lean is the special case `a` closed, all elements closed.) -/
theorem C16_tail_cons_church_open (a : Term) (ts : List Term) (h : ∀ t ∈ ts, ¬ FreeIn 1 t ∧ ¬ FreeIn 2 t) :
    app Gen.CList.tail (app2 Gen.CList.cons a (churchList ts)) ↠ churchList ts :=
  tail_cons_church_open a ts h

/-- non-vacuity: open `a`, open non-numeral elements (free variables 3 and 5 = the outer variables 1 and 3) -/
example : app Gen.CList.tail (app2 Gen.CList.cons (app (var 1) (var 2))
      (churchList [var 3, abs (app (var 1) (var 6)), intoChurch 2])) ↠
    churchList [var 3, abs (app (var 1) (var 6)), intoChurch 2] :=
  C16_tail_cons_church_open _ _ (by decide)

/-- the same law with the hypothesis built in: the list of ARBITRARY terms `us`, each placed under the two binders of
the list (`shiftFV 2 0`), ARBITRARY `a` -/
theorem C16_tail_cons_church_open_shifted (a : Term) (us : List Term) :
    app Gen.CList.tail (app2 Gen.CList.cons a (churchList (us.map (shiftFV 2 0)))) ↠
      churchList (us.map (shiftFV 2 0)) :=
  tail_cons_openChurchList a us

example : app Gen.CList.tail (app2 Gen.CList.cons (var 1) (churchList ([var 1, var 2].map (shiftFV 2 0)))) ↠
    churchList [var 3, var 4] := C16_tail_cons_church_open_shifted _ _

/-- every closed list satisfies the hypothesis, every shifted list does -/
theorem C16_nofree_of_closed (ts : List Term) (h : ∀ t ∈ ts, Closed t) : ∀ t ∈ ts, ¬ FreeIn 1 t ∧ ¬ FreeIn 2 t :=
  NoFree12.of_closed h
theorem C16_nofree_of_shifted (us : List Term) : ∀ t ∈ us.map (shiftFV 2 0), ¬ FreeIn 1 t ∧ ¬ FreeIn 2 t :=
  NoFree12.of_open us

/-- the hypothesis cannot be dropped: an element in which index 1 (resp. 2) occurs free is CAPTURED by the conversion
(it denotes the cons function resp. the nil value of the fold), and `tail (cons a l)` does not reduce to `l` — even for a
closed `a` -/
theorem C16_tail_cons_church_open_needs_nofree :
    (¬ app Gen.CList.tail (app2 Gen.CList.cons Gen.Comb.I (churchList [var 1])) ↠ churchList [var 1]) ∧
    (¬ app Gen.CList.tail (app2 Gen.CList.cons Gen.Comb.I (churchList [var 2])) ↠ churchList [var 2]) :=
  ⟨tail_cons_church_fails_free1, tail_cons_church_fails_free2⟩

/-- the general form: for ARBITRARY `a` and the RAW conversion of ARBITRARY terms, `tail (cons a l)` reduces to the list
of the elements in which the two captured indices are instantiated by the two constants of `TAIL`'s fold (the nil value
`PAIR UD NIL` for index 2, the step function for index 1) — which is `l` again exactly when nothing was captured -/
theorem C16_tail_cons_church_raw (a : Term) (ts : List Term) :
    app Gen.CList.tail (app2 Gen.CList.cons a (churchList ts)) ↠
      churchList ((ts.map (fun t => applyAux ListBasic.tailStep 1 (applyAux ListBasic.tailNil 2 t))).map (shiftFV 2 0)) :=
  tail_cons_church_raw a ts

/-- SHARPNESS: for lists of β-NORMAL elements the free-variable hypothesis is necessary and sufficient -/
theorem C16_tail_cons_church_open_iff (a : Term) (ts : List Term) (hn : ∀ t ∈ ts, isNormal t = true) :
    app Gen.CList.tail (app2 Gen.CList.cons a (churchList ts)) ↠ churchList ts ↔
      ∀ t ∈ ts, ¬ FreeIn 1 t ∧ ¬ FreeIn 2 t :=
  ⟨tail_cons_church_nofree_of_normal a ts hn, tail_cons_church_open a ts⟩

example : ¬ app Gen.CList.tail (app2 Gen.CList.cons (var 4) (churchList [var 5, app (var 7) (var 2)])) ↠
    churchList [var 5, app (var 7) (var 2)] := by
  rw [C16_tail_cons_church_open_iff _ _ (by decide)]; decide

/-- `cons a l` on a Church list for ARBITRARY `a` and ARBITRARY elements: the new element is placed under the two binders -/
theorem C16_cons_churchList_open (a : Term) (ts : List Term) :
    app2 Gen.CList.cons a (churchList ts) ↠ churchList (shiftFV 2 0 a :: ts) :=
  cons_churchList_open a ts

example : app2 Gen.CList.cons (var 1) (churchList [var 1]) ↠ churchList [var 3, var 1] :=
  C16_cons_churchList_open _ _

/-- the observers of the Church list on lists of ARBITRARY terms (placed under the two binders) -/
theorem C16_head_churchList_open (u : Term) (us : List Term) :
    app Gen.CList.head (churchList ((u :: us).map (shiftFV 2 0))) ↠ u := head_churchList_open u us
theorem C16_tail_churchList_open (u : Term) (us : List Term) :
    app Gen.CList.tail (churchList ((u :: us).map (shiftFV 2 0))) ↠ churchList (us.map (shiftFV 2 0)) :=
  tail_churchList_open u us
theorem C16_is_nil_churchList_open (us : List Term) :
    app Gen.CList.is_nil (churchList (us.map (shiftFV 2 0))) ↠ fromBool us.isEmpty := is_nil_churchList_open us

/-- `tail` on the conversion under the free-variable hypothesis (no closedness) -/
theorem C16_tail_churchList_nofree (t : Term) (ts : List Term) (h : ∀ u ∈ t :: ts, ¬ FreeIn 1 u ∧ ¬ FreeIn 2 u) :
    app Gen.CList.tail (churchList (t :: ts)) ↠ churchList ts := tail_churchList_nofree t ts h

example : app Gen.CList.head (churchList [var 3, var 9]) ↠ var 1 := C16_head_churchList_open (var 1) [var 7]
example : app Gen.CList.tail (churchList [var 3, var 9]) ↠ churchList [var 9] :=
  C16_tail_churchList_nofree _ _ (by decide)

/-! ### F.2 conversions = repeated cons, for ARBITRARY (open) elements

`placed k d us` (Proofs/List/More.lean): element `i` of `us` shifted by `d + k·(i+1)` — over the binders it sits under in
a pair list (`k = 1`) / Scott list (`k = 2`); for closed elements `placed k d us = us` (`C16_placed_closed`). -/

theorem C16_placed_closed (k d : Nat) (us : List Term) (h : ∀ u ∈ us, Closed u) : placed k d us = us :=
  placed_closed k d h

example : placed 1 0 [var 1, var 1, intoChurch 3] = [var 2, var 3, intoChurch 3] := by decide

theorem C16_conv_is_cons_pair_open (us : List Term) :
    us.foldr (fun t acc => app2 Gen.PList.cons t acc) Gen.PList.nil ↠ pairList (placed 1 0 us) :=
  conv_is_cons_pair_open us
theorem C16_conv_is_cons_church_open (us : List Term) :
    us.foldr (fun t acc => app2 Gen.CList.cons t acc) Gen.CList.nil ↠ churchList (us.map (shiftFV 2 0)) :=
  conv_is_cons_church_open us
theorem C16_conv_is_cons_scott_open (us : List Term) :
    us.foldr (fun t acc => app2 Gen.SList.cons t acc) Gen.SList.nil ↠ scottList (placed 2 0 us) :=
  conv_is_cons_scott_open us

/-- Parigot: a cell holds its tail twice, at two different binder depths, so the list that repeated `cons` builds from
open terms is not the conversion of any `Vec`; it is `openParigotList 0 us` (Proofs/List/More.lean), which for closed
elements IS the conversion -/
theorem C16_conv_is_cons_parigot_open (us : List Term) :
    us.foldr (fun t acc => app2 Gen.GList.cons t acc) Gen.GList.nil ↠ openParigotList 0 us :=
  conv_is_cons_parigot_open us
theorem C16_openParigotList_closed (us : List Term) (h : ∀ u ∈ us, Closed u) :
    openParigotList 0 us = parigotList us := openParigotList_closed 0 h

example : app2 Gen.PList.cons (var 1) (app2 Gen.PList.cons (var 1) Gen.PList.nil) ↠ pairList [var 2, var 3] :=
  C16_conv_is_cons_pair_open [var 1, var 1]
example : app2 Gen.SList.cons (var 1) (app2 Gen.SList.cons (var 1) Gen.SList.nil) ↠ scottList [var 3, var 5] :=
  C16_conv_is_cons_scott_open [var 1, var 1]
example : app2 Gen.CList.cons (var 1) (app2 Gen.CList.cons (var 1) Gen.CList.nil) ↠ churchList [var 3, var 3] :=
  C16_conv_is_cons_church_open [var 1, var 1]
example : app2 Gen.GList.cons (var 1) (app2 Gen.GList.cons (var 4) Gen.GList.nil) ↠
    abs (abs (app3 (var 1) (var 3) (parigotList [var 8]) (unabs2 (parigotList [var 6])))) :=
  C16_conv_is_cons_parigot_open [var 1, var 4]

/-- the closedness hypothesis of `C16_conv_is_cons_*` is needed for the UNSHIFTED statement, in all four encodings -/
theorem C16_conv_is_cons_needs_closed :
    (¬ app2 Gen.PList.cons (var 5) Gen.PList.nil ↠ pairList [var 5]) ∧
    (¬ app2 Gen.CList.cons (var 5) Gen.CList.nil ↠ churchList [var 5]) ∧
    (¬ app2 Gen.SList.cons (var 5) Gen.SList.nil ↠ scottList [var 5]) ∧
    (¬ app2 Gen.GList.cons (var 5) Gen.GList.nil ↠ parigotList [var 5]) := conv_is_cons_fails_open

/-! ### F.3 the observers on lists of ARBITRARY (open) elements -/

theorem C16_head_pairList_open (u : Term) (us : List Term) :
    app Gen.PList.head (pairList (placed 1 0 (u :: us))) ↠ u := head_pairList_open u us
theorem C16_tail_pairList_open (u : Term) (us : List Term) :
    app Gen.PList.tail (pairList (placed 1 0 (u :: us))) ↠ pairList (placed 1 0 us) := tail_pairList_open u us
theorem C16_is_nil_pairList_open (us : List Term) :
    app Gen.PList.is_nil (pairList (placed 1 0 us)) ↠ fromBool us.isEmpty := is_nil_pairList_open us

theorem C16_head_scottList_open (u : Term) (us : List Term) :
    app Gen.SList.head (scottList (placed 2 0 (u :: us))) ↠ u := head_scottList_open u us
theorem C16_tail_scottList_open (u : Term) (us : List Term) :
    app Gen.SList.tail (scottList (placed 2 0 (u :: us))) ↠ scottList (placed 2 0 us) := tail_scottList_open u us
theorem C16_is_nil_scottList_open (us : List Term) :
    app Gen.SList.is_nil (scottList (placed 2 0 us)) ↠ fromBool us.isEmpty := is_nil_scottList_open us

theorem C16_head_parigotList_open (u : Term) (us : List Term) :
    app Gen.GList.head (openParigotList 0 (u :: us)) ↠ u := head_parigotList_open u us
theorem C16_tail_parigotList_open (u : Term) (us : List Term) :
    app Gen.GList.tail (openParigotList 0 (u :: us)) ↠ openParigotList 0 us := tail_parigotList_open u us
theorem C16_is_nil_parigotList_open (us : List Term) :
    app Gen.GList.is_nil (openParigotList 0 us) ↠ fromBool us.isEmpty := is_nil_parigotList_open us

example : app Gen.PList.tail (pairList [var 2, var 3, abs (var 5)]) ↠ pairList [var 2, abs (var 4)] :=
  C16_tail_pairList_open (var 1) [var 1, abs (var 2)]
example : app Gen.SList.head (scottList [app (var 3) (var 9), var 5]) ↠ app (var 1) (var 7) :=
  C16_head_scottList_open (app (var 1) (var 7)) [var 1]

/-! ### F.4 the observers on the RAW conversions: the hypotheses `C16_{head,tail,is_nil}_*List` really need

`C16_is_nil_*List` hold with NO hypothesis (the elements are discarded); `C16_head_*List` need only the HEAD element closed
(the remaining elements are arbitrary); `C16_tail_*List` need only the TAIL LIST closed as a term — its elements may
refer to the tail's own binders — and nothing about the head element.  `C16_length_terms` needs no hypothesis at all. -/

theorem C16_is_nil_pairList_any (ts : List Term) :
    app Gen.PList.is_nil (pairList ts) ↠ fromBool ts.isEmpty := is_nil_pairList_any ts
theorem C16_is_nil_churchList_any (ts : List Term) :
    app Gen.CList.is_nil (churchList ts) ↠ fromBool ts.isEmpty := is_nil_churchList_any ts
theorem C16_is_nil_scottList_any (ts : List Term) :
    app Gen.SList.is_nil (scottList ts) ↠ fromBool ts.isEmpty := is_nil_scottList_any ts
theorem C16_is_nil_parigotList_any (ts : List Term) :
    app Gen.GList.is_nil (parigotList ts) ↠ fromBool ts.isEmpty := is_nil_parigotList_any ts

theorem C16_head_pairList_any (t : Term) (ts : List Term) (ht : Closed t) :
    app Gen.PList.head (pairList (t :: ts)) ↠ t := head_pairList_any t ts ht
theorem C16_head_churchList_any (t : Term) (ts : List Term) (ht : Closed t) :
    app Gen.CList.head (churchList (t :: ts)) ↠ t := head_churchList_any t ts ht
theorem C16_head_scottList_any (t : Term) (ts : List Term) (ht : Closed t) :
    app Gen.SList.head (scottList (t :: ts)) ↠ t := head_scottList_any t ts ht
theorem C16_head_parigotList_any (t : Term) (ts : List Term) (ht : Closed t) :
    app Gen.GList.head (parigotList (t :: ts)) ↠ t := head_parigotList_any t ts ht

theorem C16_tail_pairList_any (t : Term) (ts : List Term) (hl : Closed (pairList ts)) :
    app Gen.PList.tail (pairList (t :: ts)) ↠ pairList ts := tail_pairList_any t ts hl
theorem C16_tail_scottList_any (t : Term) (ts : List Term) (hl : Closed (scottList ts)) :
    app Gen.SList.tail (scottList (t :: ts)) ↠ scottList ts := tail_scottList_any t ts hl
theorem C16_tail_parigotList_any (t : Term) (ts : List Term) (hl : Closed (parigotList ts)) :
    app Gen.GList.tail (parigotList (t :: ts)) ↠ parigotList ts := tail_parigotList_any t ts hl
/-- Church (fold) list: ARBITRARY head element (even one that the conversion captures), tail elements without the
indices 1, 2 free -/
theorem C16_tail_churchList_any (t : Term) (ts : List Term) (h : ∀ u ∈ ts, ¬ FreeIn 1 u ∧ ¬ FreeIn 2 u) :
    app Gen.CList.tail (churchList (t :: ts)) ↠ churchList ts := tail_churchList_any t ts h

theorem C16_length_any (xs : List Term) : app Gen.PList.length (pairList xs) ↠ intoChurch xs.length :=
  plist_length_any xs

/-- non-vacuity: elements that the conversion captures (`var 1`, `var 2`), an open head, a tail that is closed only as
a whole (`pairList [var 1]` is `λ. 1 1 NIL`) -/
example : app Gen.SList.is_nil (scottList [var 1, var 7]) ↠ fromBool false := C16_is_nil_scottList_any _
example : app Gen.GList.head (parigotList [Gen.Comb.K, var 1, var 9]) ↠ Gen.Comb.K :=
  C16_head_parigotList_any _ _ (by decide)
example : app Gen.PList.tail (pairList [var 5, var 1]) ↠ pairList [var 1] := C16_tail_pairList_any _ _ (by decide)
example : app Gen.CList.tail (churchList [var 1, var 3]) ↠ churchList [var 3] := C16_tail_churchList_any _ _ (by decide)
example : app Gen.PList.length (pairList [var 1, var 2, var 7]) ↠ intoChurch 3 := C16_length_any _

/-- `head` does need its hypothesis: a non-closed head element is captured or renumbered -/
theorem C16_head_needs_closed_head :
    (¬ app Gen.PList.head (pairList [var 1]) ↠ var 1) ∧ (¬ app Gen.PList.head (pairList [var 2]) ↠ var 2) ∧
    (¬ app Gen.CList.head (churchList [var 1]) ↠ var 1) ∧ (¬ app Gen.SList.head (scottList [var 3]) ↠ var 3) ∧
    (¬ app Gen.GList.head (parigotList [var 2]) ↠ var 2) := head_fails_open

/-! ### F.5 the pair-list library on lists of ARBITRARY (open) terms — the `C16_*_terms` forms without closedness

`pairList (placed 1 0 xs)` is the conversion of the elements `xs`, each shifted over the binders it sits under (for closed
elements it is `pairList xs`: `C16_placed_closed`); `f`, `p`, start values and counts' partners are ARBITRARY terms. -/

theorem C16_length_open (xs : List Term) :
    app Gen.PList.length (pairList (placed 1 0 xs)) ↠ intoChurch xs.length := plist_length_open xs

theorem C16_index_open (xs : List Term) (i : Nat) (h : i < xs.length) :
    app2 Gen.PList.index (intoChurch i) (pairList (placed 1 0 xs)) ↠ xs[i] := plist_index_open xs i h

theorem C16_reverse_open (xs : List Term) :
    app Gen.PList.reverse (pairList (placed 1 0 xs)) ↠ pairList (placed 1 0 xs.reverse) := plist_reverse_open xs

theorem C16_list_open (xs : List Term) :
    xs.foldl (fun acc x => app acc x) (app Gen.PList.list (intoChurch xs.length)) ↠ pairList (placed 1 0 xs) :=
  plist_list_open xs

theorem C16_append_open (xs ys : List Term) :
    app2 Gen.PList.append (pairList (placed 1 0 xs)) (pairList (placed 1 0 ys)) ↠ pairList (placed 1 0 (xs ++ ys)) :=
  plist_append_open xs ys

theorem C16_map_open (f : Term) (xs : List Term) :
    app2 Gen.PList.map f (pairList (placed 1 0 xs)) ↠ pairList (placed 1 0 (xs.map (app f))) := plist_map_open f xs

theorem C16_foldl_open (f s : Term) (xs : List Term) :
    app3 Gen.PList.foldl f s (pairList (placed 1 0 xs)) ↠ xs.foldl (fun acc x => app2 f acc x) s :=
  plist_foldl_open f s xs

theorem C16_foldr_open (f a : Term) (xs : List Term) :
    app3 Gen.PList.foldr f a (pairList (placed 1 0 xs)) ↠ xs.foldr (fun x acc => app2 f x acc) a :=
  plist_foldr_open f a xs

theorem C16_filter_open (p : Term) (xs : List Term) (keep : Term → Bool)
    (hkeep : ∀ x ∈ xs, app p x ↠ fromBool (keep x)) :
    app2 Gen.PList.filter p (pairList (placed 1 0 xs)) ↠ pairList (placed 1 0 (xs.filter keep)) :=
  plist_filter_open p xs keep hkeep

theorem C16_take_while_open (p : Term) (xs : List Term) (keep : Term → Bool)
    (hkeep : ∀ x ∈ xs, app p x ↠ fromBool (keep x)) :
    app2 Gen.PList.take_while p (pairList (placed 1 0 xs)) ↠ pairList (placed 1 0 (xs.takeWhile keep)) :=
  plist_take_while_open p xs keep hkeep

theorem C16_drop_while_open (p : Term) (xs : List Term) (keep : Term → Bool)
    (hkeep : ∀ x ∈ xs, app p x ↠ fromBool (keep x)) :
    app2 Gen.PList.drop_while p (pairList (placed 1 0 xs)) ↠ pairList (placed 1 0 (xs.dropWhile keep)) :=
  plist_drop_while_open p xs keep hkeep

theorem C16_last_open (xs : List Term) (hne : xs ≠ []) :
    app Gen.PList.last (pairList (placed 1 0 xs)) ↠ xs.getLast hne := plist_last_open xs hne

theorem C16_init_open (xs : List Term) (hne : xs ≠ []) :
    app Gen.PList.init (pairList (placed 1 0 xs)) ↠ pairList (placed 1 0 xs.dropLast) := plist_init_open xs hne

/-- the elements of the result are the pairs `(x, y)` with arbitrary components, placed under the pair's binder -/
theorem C16_zip_open (xs ys : List Term) :
    app2 Gen.PList.zip (pairList (placed 1 0 xs)) (pairList (placed 1 0 ys)) ↠
      pairList (placed 1 0 ((xs.zip ys).map (fun p => tuple2 (shiftFV 1 0 p.1) (shiftFV 1 0 p.2)))) :=
  plist_zip_open xs ys

theorem C16_zip_with_open (f : Term) (xs ys : List Term) :
    app3 Gen.PList.zip_with f (pairList (placed 1 0 xs)) (pairList (placed 1 0 ys)) ↠
      pairList (placed 1 0 ((xs.zip ys).map (fun p => app2 f p.1 p.2))) :=
  plist_zip_with_open f xs ys

theorem C16_take_open (k : Nat) (xs : List Term) :
    app2 Gen.PList.take (intoChurch k) (pairList (placed 1 0 xs)) ↠ pairList (placed 1 0 (xs.take k)) :=
  plist_take_open k xs

theorem C16_drop_open (k : Nat) (xs : List Term) :
    app2 Gen.PList.drop (intoChurch k) (pairList (placed 1 0 xs)) ↠ pairList (placed 1 0 (xs.drop k)) :=
  plist_drop_open k xs

theorem C16_replicate_open (k : Nat) (y : Term) :
    app2 Gen.PList.replicate (intoChurch k) y ↠ pairList (placed 1 0 (List.replicate k y)) :=
  plist_replicate_open k y

/-- layers 1+2 for a list-valued function on open NORMAL elements: NOR and HNO return the result, every normalising
order that returns returns it -/
theorem C16_computes_open {t : Term} {ws : List Term} (h : t ↠ pairList (placed 1 0 ws))
    (hn : ∀ w ∈ ws, isNormal w = true) : Computes t (pairList (placed 1 0 ws)) :=
  computes_of_star h (normal_pairList _ (normal_placed 1 0 hn))

/-- non-vacuity: `[x₁, x₂ x₁, λ.x₁]` with FREE variables, written as the Rust conversion of the shifted elements -/
example : app Gen.PList.reverse (pairList [var 2, app (var 4) (var 3), abs (var 5)]) ↠
    pairList [abs (var 3), app (var 4) (var 3), var 4] :=
  C16_reverse_open [var 1, app (var 2) (var 1), abs (var 2)]

example : ∃ fuel c, reduce .NOR 0 fuel (app2 Gen.PList.append (pairList [var 2]) (pairList [var 3, Gen.Comb.K])) =
    some (pairList [var 2, var 4, Gen.Comb.K], c) :=
  (C16_computes_open (C16_append_open [var 1] [var 2, Gen.Comb.K]) (by decide)).nor

example : app2 Gen.PList.index (intoChurch 1) (pairList [var 2, var 9]) ↠ var 7 :=
  C16_index_open [var 1, var 7] 1 (by decide)

/-- an open function argument: `map x₃ [x₁, x₂] ↠ [x₃ x₁, x₃ x₂]` -/
example : app2 Gen.PList.map (var 3) (pairList [var 2, var 4]) ↠ pairList [app (var 4) (var 2), app (var 5) (var 4)] :=
  C16_map_open (var 3) [var 1, var 2]

/-- open start value and open function: `foldr x₅ x₄ [x₁, x₂] ↠ x₅ x₁ (x₅ x₂ x₄)` -/
example : app3 Gen.PList.foldr (var 5) (var 4) (pairList [var 2, var 4]) ↠
    app2 (var 5) (var 1) (app2 (var 5) (var 2) (var 4)) :=
  C16_foldr_open (var 5) (var 4) [var 1, var 2]

/-- `filter (K TRUE)` keeps every (open) element; `zip` of two open lists -/
example : app2 Gen.PList.filter (app Gen.Comb.K Gen.Bool.tru) (pairList [var 2, var 9]) ↠ pairList [var 2, var 9] :=
  C16_filter_open _ [var 1, var 7] (fun _ => true) (fun x _ => K_elim Gen.Bool.tru x)
example : app2 Gen.PList.zip (pairList [var 2]) (pairList [var 3, var 7]) ↠
    pairList [abs (app2 (var 1) (var 3) (var 4))] :=
  C16_zip_open [var 1] [var 2, var 5]
example : app2 Gen.PList.take (intoChurch 1) (pairList [var 2, var 3]) ↠ pairList [var 2] :=
  C16_take_open 1 [var 1, var 1]
example : app2 Gen.PList.replicate (intoChurch 2) (var 1) ↠ pairList [var 2, var 3] := C16_replicate_open 2 (var 1)

/-- the closedness hypothesis of `C16_reverse_terms` is needed for the UNSHIFTED statement: the raw conversion of
`[var 5, var 6]` is the list `[x₄, x₄]`, whose reverse is itself and not the conversion of `[var 6, var 5]` -/
theorem C16_reverse_terms_needs_closed :
    ¬ app Gen.PList.reverse (pairList [var 5, var 6]) ↠ pairList [var 6, var 5] :=
  C17.not_star_of_norSteps 200 _ _ _ rfl (by decide) (by decide) (by decide)

/-! ## G. HAP, unbounded, lists of arbitrary admissible elements -/

/-- the admissible elements: closed HAP values; equivalently closed β-normal forms -/
theorem C16_hapValue_iff (v : Term) : HapValue v ↔ Closed v ∧ isNormal v = true := hapValue_iff v

/-- the numerals of ALL five numeral encodings are admissible -/
theorem C16_hapValue_num (e : Encoding) (n : Nat) : HapValue (intoNum e n) := hapValue_num e n
theorem C16_hapValue_church (n : Nat) : HapValue (intoChurch n) := hapValue_church n
theorem C16_hapValue_scott (n : Nat) : HapValue (intoScott n) := hapValue_scott n
theorem C16_hapValue_parigot (n : Nat) : HapValue (intoParigot n) := hapValue_parigot n
theorem C16_hapValue_stumpfu (n : Nat) : HapValue (intoStumpFu n) := hapValue_stumpfu n
theorem C16_hapValue_binary (n : Nat) : HapValue (intoBinary n) := hapValue_binary n

example : HapValue (intoChurch 3) ∧ HapValue (intoScott 2) ∧ HapValue (fromBool true) ∧
    HapValue (pairList [intoChurch 1, Gen.Comb.K]) :=
  ⟨hapValue_church 3, hapValue_scott 2, hapValue_bool true, .mk' (by decide) (by decide)⟩

/-! ### G.1 pair list -/

theorem C16_is_nil_pairList_hap_values (ts : List Term) (h : ∀ t ∈ ts, HapValue t) :
    ∃ fuel c, reduce .HAP 0 fuel (app Gen.PList.is_nil (pairList ts)) = some (fromBool ts.isEmpty, c) :=
  (is_nil_pairList_hap_values ts h).reduce

theorem C16_head_pairList_hap_values (t : Term) (ts : List Term) (h : ∀ u ∈ t :: ts, HapValue u) :
    ∃ fuel c, reduce .HAP 0 fuel (app Gen.PList.head (pairList (t :: ts))) = some (t, c) :=
  (head_pairList_hap_values t ts h).reduce

theorem C16_tail_pairList_hap_values (t : Term) (ts : List Term) (h : ∀ u ∈ t :: ts, HapValue u) :
    ∃ fuel c, reduce .HAP 0 fuel (app Gen.PList.tail (pairList (t :: ts))) = some (pairList ts, c) :=
  (tail_pairList_hap_values t ts h).reduce

theorem C16_conv_is_cons_pair_hap_values (ts : List Term) (h : ∀ t ∈ ts, HapValue t) :
    ∃ fuel c, reduce .HAP 0 fuel (ts.foldr (fun t acc => app2 Gen.PList.cons t acc) Gen.PList.nil) =
      some (pairList ts, c) :=
  (conv_is_cons_pair_hap_values ts h).reduce

/-! ### G.2 Church (fold) list -/

theorem C16_is_nil_churchList_hap_values (ts : List Term) (h : ∀ t ∈ ts, HapValue t) :
    ∃ fuel c, reduce .HAP 0 fuel (app Gen.CList.is_nil (churchList ts)) = some (fromBool ts.isEmpty, c) :=
  (is_nil_churchList_hap_values ts h).reduce

theorem C16_head_churchList_hap_values (t : Term) (ts : List Term) (h : ∀ u ∈ t :: ts, HapValue u) :
    ∃ fuel c, reduce .HAP 0 fuel (app Gen.CList.head (churchList (t :: ts))) = some (t, c) :=
  (head_churchList_hap_values t ts h).reduce

theorem C16_tail_churchList_hap_values (t : Term) (ts : List Term) (h : ∀ u ∈ t :: ts, HapValue u) :
    ∃ fuel c, reduce .HAP 0 fuel (app Gen.CList.tail (churchList (t :: ts))) = some (churchList ts, c) :=
  (tail_churchList_hap_values t ts h).reduce

theorem C16_conv_is_cons_church_hap_values (ts : List Term) (h : ∀ t ∈ ts, HapValue t) :
    ∃ fuel c, reduce .HAP 0 fuel (ts.foldr (fun t acc => app2 Gen.CList.cons t acc) Gen.CList.nil) =
      some (churchList ts, c) :=
  (conv_is_cons_church_hap_values ts h).reduce

/-! ### G.3 Scott list -/

theorem C16_is_nil_scottList_hap_values (ts : List Term) (h : ∀ t ∈ ts, HapValue t) :
    ∃ fuel c, reduce .HAP 0 fuel (app Gen.SList.is_nil (scottList ts)) = some (fromBool ts.isEmpty, c) :=
  (is_nil_scottList_hap_values ts h).reduce

theorem C16_head_scottList_hap_values (t : Term) (ts : List Term) (h : ∀ u ∈ t :: ts, HapValue u) :
    ∃ fuel c, reduce .HAP 0 fuel (app Gen.SList.head (scottList (t :: ts))) = some (t, c) :=
  (head_scottList_hap_values t ts h).reduce

theorem C16_tail_scottList_hap_values (t : Term) (ts : List Term) (h : ∀ u ∈ t :: ts, HapValue u) :
    ∃ fuel c, reduce .HAP 0 fuel (app Gen.SList.tail (scottList (t :: ts))) = some (scottList ts, c) :=
  (tail_scottList_hap_values t ts h).reduce

theorem C16_conv_is_cons_scott_hap_values (ts : List Term) (h : ∀ t ∈ ts, HapValue t) :
    ∃ fuel c, reduce .HAP 0 fuel (ts.foldr (fun t acc => app2 Gen.SList.cons t acc) Gen.SList.nil) =
      some (scottList ts, c) :=
  (conv_is_cons_scott_hap_values ts h).reduce

/-! ### G.4 Parigot list -/

theorem C16_is_nil_parigotList_hap_values (ts : List Term) (h : ∀ t ∈ ts, HapValue t) :
    ∃ fuel c, reduce .HAP 0 fuel (app Gen.GList.is_nil (parigotList ts)) = some (fromBool ts.isEmpty, c) :=
  (is_nil_parigotList_hap_values ts h).reduce

theorem C16_head_parigotList_hap_values (t : Term) (ts : List Term) (h : ∀ u ∈ t :: ts, HapValue u) :
    ∃ fuel c, reduce .HAP 0 fuel (app Gen.GList.head (parigotList (t :: ts))) = some (t, c) :=
  (head_parigotList_hap_values t ts h).reduce

theorem C16_tail_parigotList_hap_values (t : Term) (ts : List Term) (h : ∀ u ∈ t :: ts, HapValue u) :
    ∃ fuel c, reduce .HAP 0 fuel (app Gen.GList.tail (parigotList (t :: ts))) = some (parigotList ts, c) :=
  (tail_parigotList_hap_values t ts h).reduce

theorem C16_conv_is_cons_parigot_hap_values (ts : List Term) (h : ∀ t ∈ ts, HapValue t) :
    ∃ fuel c, reduce .HAP 0 fuel (ts.foldr (fun t acc => app2 Gen.GList.cons t acc) Gen.GList.nil) =
      some (parigotList ts, c) :=
  (conv_is_cons_parigot_hap_values ts h).reduce

/-! ### G.5 the instances the correspondence run uses: lists of numerals of ANY numeral encoding `e` (Church in
particular) in each of the four list encodings -/

namespace C16
theorem nums_values (e : Encoding) (ns : List Nat) : ∀ t ∈ ns.map (intoNum e), HapValue t :=
  hapValue_map (hapValue_num e) ns
end C16

theorem C16_head_scottList_hap_nums (e : Encoding) (n : Nat) (ns : List Nat) :
    ∃ fuel c, reduce .HAP 0 fuel (app Gen.SList.head (scottList ((n :: ns).map (intoNum e)))) =
      some (intoNum e n, c) :=
  C16_head_scottList_hap_values _ _ (nums_values e (n :: ns))

theorem C16_tail_scottList_hap_nums (e : Encoding) (n : Nat) (ns : List Nat) :
    ∃ fuel c, reduce .HAP 0 fuel (app Gen.SList.tail (scottList ((n :: ns).map (intoNum e)))) =
      some (scottList (ns.map (intoNum e)), c) :=
  C16_tail_scottList_hap_values _ _ (nums_values e (n :: ns))

theorem C16_is_nil_scottList_hap_nums (e : Encoding) (ns : List Nat) :
    ∃ fuel c, reduce .HAP 0 fuel (app Gen.SList.is_nil (scottList (ns.map (intoNum e)))) =
      some (fromBool ns.isEmpty, c) := by
  have := C16_is_nil_scottList_hap_values _ (nums_values e ns)
  rwa [show (ns.map (intoNum e)).isEmpty = ns.isEmpty by cases ns <;> rfl] at this

theorem C16_conv_is_cons_scott_hap_nums (e : Encoding) (ns : List Nat) :
    ∃ fuel c, reduce .HAP 0 fuel (ns.foldr (fun n acc => app2 Gen.SList.cons (intoNum e n) acc) Gen.SList.nil) =
      some (scottList (ns.map (intoNum e)), c) := by
  have := C16_conv_is_cons_scott_hap_values _ (nums_values e ns)
  rwa [foldr_map_cons] at this

theorem C16_head_parigotList_hap_nums (e : Encoding) (n : Nat) (ns : List Nat) :
    ∃ fuel c, reduce .HAP 0 fuel (app Gen.GList.head (parigotList ((n :: ns).map (intoNum e)))) =
      some (intoNum e n, c) :=
  C16_head_parigotList_hap_values _ _ (nums_values e (n :: ns))

theorem C16_tail_parigotList_hap_nums (e : Encoding) (n : Nat) (ns : List Nat) :
    ∃ fuel c, reduce .HAP 0 fuel (app Gen.GList.tail (parigotList ((n :: ns).map (intoNum e)))) =
      some (parigotList (ns.map (intoNum e)), c) :=
  C16_tail_parigotList_hap_values _ _ (nums_values e (n :: ns))

theorem C16_is_nil_parigotList_hap_nums (e : Encoding) (ns : List Nat) :
    ∃ fuel c, reduce .HAP 0 fuel (app Gen.GList.is_nil (parigotList (ns.map (intoNum e)))) =
      some (fromBool ns.isEmpty, c) := by
  have := C16_is_nil_parigotList_hap_values _ (nums_values e ns)
  rwa [show (ns.map (intoNum e)).isEmpty = ns.isEmpty by cases ns <;> rfl] at this

theorem C16_conv_is_cons_parigot_hap_nums (e : Encoding) (ns : List Nat) :
    ∃ fuel c, reduce .HAP 0 fuel (ns.foldr (fun n acc => app2 Gen.GList.cons (intoNum e n) acc) Gen.GList.nil) =
      some (parigotList (ns.map (intoNum e)), c) := by
  have := C16_conv_is_cons_parigot_hap_values _ (nums_values e ns)
  rwa [foldr_map_cons] at this

theorem C16_head_churchList_hap_nums (e : Encoding) (n : Nat) (ns : List Nat) :
    ∃ fuel c, reduce .HAP 0 fuel (app Gen.CList.head (churchList ((n :: ns).map (intoNum e)))) =
      some (intoNum e n, c) :=
  C16_head_churchList_hap_values _ _ (nums_values e (n :: ns))

theorem C16_tail_churchList_hap_nums (e : Encoding) (n : Nat) (ns : List Nat) :
    ∃ fuel c, reduce .HAP 0 fuel (app Gen.CList.tail (churchList ((n :: ns).map (intoNum e)))) =
      some (churchList (ns.map (intoNum e)), c) :=
  C16_tail_churchList_hap_values _ _ (nums_values e (n :: ns))

theorem C16_head_pairList_hap_nums (e : Encoding) (n : Nat) (ns : List Nat) :
    ∃ fuel c, reduce .HAP 0 fuel (app Gen.PList.head (pairList ((n :: ns).map (intoNum e)))) =
      some (intoNum e n, c) :=
  C16_head_pairList_hap_values _ _ (nums_values e (n :: ns))

theorem C16_tail_pairList_hap_nums (e : Encoding) (n : Nat) (ns : List Nat) :
    ∃ fuel c, reduce .HAP 0 fuel (app Gen.PList.tail (pairList ((n :: ns).map (intoNum e)))) =
      some (pairList (ns.map (intoNum e)), c) :=
  C16_tail_pairList_hap_values _ _ (nums_values e (n :: ns))

/-! ### G.6 the first-order pair-list library under HAP on lists of ARBITRARY admissible elements

(`C16_*_hap` of C16.lean are the instances "elements = Church numerals"; the higher-order functions stay with the concrete
Church operations there: under HAP the results of `f x` are stored as unevaluated closures and normalised at the end, so a
statement for an arbitrary `f` needs a function-specific invariant on those closures.) -/

theorem C16_length_hap_values (ts : List Term) (h : ∀ t ∈ ts, HapValue t) :
    ∃ fuel c, reduce .HAP 0 fuel (app Gen.PList.length (pairList ts)) = some (intoChurch ts.length, c) :=
  (plist_length_hap_values ts h).reduce

theorem C16_reverse_hap_values (ts : List Term) (h : ∀ t ∈ ts, HapValue t) :
    ∃ fuel c, reduce .HAP 0 fuel (app Gen.PList.reverse (pairList ts)) = some (pairList ts.reverse, c) :=
  (plist_reverse_hap_values ts h).reduce

theorem C16_append_hap_values (ts us : List Term) (ht : ∀ t ∈ ts, HapValue t) (hu : ∀ t ∈ us, HapValue t) :
    ∃ fuel c, reduce .HAP 0 fuel (app2 Gen.PList.append (pairList ts) (pairList us)) =
      some (pairList (ts ++ us), c) :=
  (plist_append_hap_values ts us ht hu).reduce

theorem C16_index_hap_values (ts : List Term) (h : ∀ t ∈ ts, HapValue t) (i : Nat) (hi : i < ts.length) :
    ∃ fuel c, reduce .HAP 0 fuel (app2 Gen.PList.index (intoChurch i) (pairList ts)) = some (ts[i], c) :=
  (plist_index_hap_values ts h i hi).reduce

theorem C16_last_hap_values (ts : List Term) (h : ∀ t ∈ ts, HapValue t) (hne : ts ≠ []) :
    ∃ fuel c, reduce .HAP 0 fuel (app Gen.PList.last (pairList ts)) = some (ts.getLast hne, c) :=
  (plist_last_hap_values ts h hne).reduce

/-- also for the empty list (`init [] = []`) -/
theorem C16_init_hap_values (ts : List Term) (h : ∀ t ∈ ts, HapValue t) :
    ∃ fuel c, reduce .HAP 0 fuel (app Gen.PList.init (pairList ts)) = some (pairList ts.dropLast, c) :=
  (plist_init_hap_values ts h).reduce

theorem C16_take_hap_values (k : Nat) (ts : List Term) (h : ∀ t ∈ ts, HapValue t) :
    ∃ fuel c, reduce .HAP 0 fuel (app2 Gen.PList.take (intoChurch k) (pairList ts)) = some (pairList (ts.take k), c) :=
  (plist_take_hap_values k ts h).reduce

theorem C16_drop_hap_values (k : Nat) (ts : List Term) (h : ∀ t ∈ ts, HapValue t) :
    ∃ fuel c, reduce .HAP 0 fuel (app2 Gen.PList.drop (intoChurch k) (pairList ts)) = some (pairList (ts.drop k), c) :=
  (plist_drop_hap_values k ts h).reduce

theorem C16_replicate_hap_values (k : Nat) (y : Term) (hy : HapValue y) :
    ∃ fuel c, reduce .HAP 0 fuel (app2 Gen.PList.replicate (intoChurch k) y) =
      some (pairList (List.replicate k y), c) :=
  (plist_replicate_hap_values k y hy).reduce

theorem C16_zip_hap_values (ts us : List Term) (ht : ∀ t ∈ ts, HapValue t) (hu : ∀ t ∈ us, HapValue t) :
    ∃ fuel c, reduce .HAP 0 fuel (app2 Gen.PList.zip (pairList ts) (pairList us)) =
      some (pairList ((ts.zip us).map (fun p => tuple2 p.1 p.2)), c) :=
  (plist_zip_hap_values ts us ht hu).reduce

theorem C16_list_hap_values (ts : List Term) (h : ∀ t ∈ ts, HapValue t) :
    ∃ fuel c, reduce .HAP 0 fuel (ts.foldl app (app Gen.PList.list (intoChurch ts.length))) = some (pairList ts, c) :=
  (plist_list_hap_values ts h).reduce

/-- non-vacuity: a pair list of SCOTT numerals reversed under HAP; `zip` of a list of booleans with Parigot numerals -/
example : ∃ fuel c, reduce .HAP 0 fuel (app Gen.PList.reverse (pairList [intoScott 1, intoScott 2, intoScott 0])) =
    some (pairList [intoScott 0, intoScott 2, intoScott 1], c) :=
  C16_reverse_hap_values _ (hapValue_map hapValue_scott [1, 2, 0])
example : ∃ fuel c, reduce .HAP 0 fuel
    (app2 Gen.PList.zip (pairList [fromBool true, fromBool false]) (pairList [intoParigot 1, intoParigot 0, intoParigot 5])) =
    some (pairList [tuple2 (fromBool true) (intoParigot 1), tuple2 (fromBool false) (intoParigot 0)], c) :=
  C16_zip_hap_values _ _ (hapValue_map hapValue_bool [true, false]) (hapValue_map hapValue_parigot [1, 0, 5])

/-! ### G.7 the constructor/observer laws under HAP: `head (cons a l)`, `tail (cons a l)`, `is_nil (cons a l)`, `is_nil nil`

for an admissible element `a` and the conversion `l` of a list of admissible elements, in all four encodings (layer 1 for
ARBITRARY `a`, `l`: `C16_head_cons_*` … of C16Base.lean).  HAP evaluates the operand `cons a l` first (to the conversion
of `a :: ts`), then the observer. -/

theorem C16_cons_pairList_hap_values (a : Term) (ts : List Term) (h : ∀ u ∈ a :: ts, HapValue u) :
    ∃ fuel c, reduce .HAP 0 fuel (app2 Gen.PList.cons a (pairList ts)) = some (pairList (a :: ts), c) :=
  (cons_pairList_hap_values a ts h).reduce
theorem C16_cons_churchList_hap_values (a : Term) (ts : List Term) (h : ∀ u ∈ a :: ts, HapValue u) :
    ∃ fuel c, reduce .HAP 0 fuel (app2 Gen.CList.cons a (churchList ts)) = some (churchList (a :: ts), c) :=
  (cons_churchList_hap_values a ts h).reduce
theorem C16_cons_scottList_hap_values (a : Term) (ts : List Term) (h : ∀ u ∈ a :: ts, HapValue u) :
    ∃ fuel c, reduce .HAP 0 fuel (app2 Gen.SList.cons a (scottList ts)) = some (scottList (a :: ts), c) :=
  (cons_scottList_hap_values a ts h).reduce
theorem C16_cons_parigotList_hap_values (a : Term) (ts : List Term) (h : ∀ u ∈ a :: ts, HapValue u) :
    ∃ fuel c, reduce .HAP 0 fuel (app2 Gen.GList.cons a (parigotList ts)) = some (parigotList (a :: ts), c) :=
  (cons_parigotList_hap_values a ts h).reduce

theorem C16_head_cons_pair_hap_values (a : Term) (ts : List Term) (h : ∀ u ∈ a :: ts, HapValue u) :
    ∃ fuel c, reduce .HAP 0 fuel (app Gen.PList.head (app2 Gen.PList.cons a (pairList ts))) = some (a, c) :=
  (EvalHap.app_arg (cons_pairList_hap_values a ts h) (head_pairList_hap_values a ts h)).reduce
theorem C16_tail_cons_pair_hap_values (a : Term) (ts : List Term) (h : ∀ u ∈ a :: ts, HapValue u) :
    ∃ fuel c, reduce .HAP 0 fuel (app Gen.PList.tail (app2 Gen.PList.cons a (pairList ts))) = some (pairList ts, c) :=
  (EvalHap.app_arg (cons_pairList_hap_values a ts h) (tail_pairList_hap_values a ts h)).reduce
theorem C16_is_nil_cons_pair_hap_values (a : Term) (ts : List Term) (h : ∀ u ∈ a :: ts, HapValue u) :
    ∃ fuel c, reduce .HAP 0 fuel (app Gen.PList.is_nil (app2 Gen.PList.cons a (pairList ts))) =
      some (fromBool false, c) :=
  (EvalHap.app_arg (cons_pairList_hap_values a ts h) (is_nil_pairList_hap_values (a :: ts) h)).reduce

theorem C16_head_cons_church_hap_values (a : Term) (ts : List Term) (h : ∀ u ∈ a :: ts, HapValue u) :
    ∃ fuel c, reduce .HAP 0 fuel (app Gen.CList.head (app2 Gen.CList.cons a (churchList ts))) = some (a, c) :=
  (EvalHap.app_arg (cons_churchList_hap_values a ts h) (head_churchList_hap_values a ts h)).reduce
/-- the HAP form of `C16_tail_cons_church` -/
theorem C16_tail_cons_church_hap_values (a : Term) (ts : List Term) (h : ∀ u ∈ a :: ts, HapValue u) :
    ∃ fuel c, reduce .HAP 0 fuel (app Gen.CList.tail (app2 Gen.CList.cons a (churchList ts))) =
      some (churchList ts, c) :=
  (EvalHap.app_arg (cons_churchList_hap_values a ts h) (tail_churchList_hap_values a ts h)).reduce
theorem C16_is_nil_cons_church_hap_values (a : Term) (ts : List Term) (h : ∀ u ∈ a :: ts, HapValue u) :
    ∃ fuel c, reduce .HAP 0 fuel (app Gen.CList.is_nil (app2 Gen.CList.cons a (churchList ts))) =
      some (fromBool false, c) :=
  (EvalHap.app_arg (cons_churchList_hap_values a ts h) (is_nil_churchList_hap_values (a :: ts) h)).reduce

theorem C16_head_cons_scott_hap_values (a : Term) (ts : List Term) (h : ∀ u ∈ a :: ts, HapValue u) :
    ∃ fuel c, reduce .HAP 0 fuel (app Gen.SList.head (app2 Gen.SList.cons a (scottList ts))) = some (a, c) :=
  (EvalHap.app_arg (cons_scottList_hap_values a ts h) (head_scottList_hap_values a ts h)).reduce
theorem C16_tail_cons_scott_hap_values (a : Term) (ts : List Term) (h : ∀ u ∈ a :: ts, HapValue u) :
    ∃ fuel c, reduce .HAP 0 fuel (app Gen.SList.tail (app2 Gen.SList.cons a (scottList ts))) = some (scottList ts, c) :=
  (EvalHap.app_arg (cons_scottList_hap_values a ts h) (tail_scottList_hap_values a ts h)).reduce
theorem C16_is_nil_cons_scott_hap_values (a : Term) (ts : List Term) (h : ∀ u ∈ a :: ts, HapValue u) :
    ∃ fuel c, reduce .HAP 0 fuel (app Gen.SList.is_nil (app2 Gen.SList.cons a (scottList ts))) =
      some (fromBool false, c) :=
  (EvalHap.app_arg (cons_scottList_hap_values a ts h) (is_nil_scottList_hap_values (a :: ts) h)).reduce

theorem C16_head_cons_parigot_hap_values (a : Term) (ts : List Term) (h : ∀ u ∈ a :: ts, HapValue u) :
    ∃ fuel c, reduce .HAP 0 fuel (app Gen.GList.head (app2 Gen.GList.cons a (parigotList ts))) = some (a, c) :=
  (EvalHap.app_arg (cons_parigotList_hap_values a ts h) (head_parigotList_hap_values a ts h)).reduce
theorem C16_tail_cons_parigot_hap_values (a : Term) (ts : List Term) (h : ∀ u ∈ a :: ts, HapValue u) :
    ∃ fuel c, reduce .HAP 0 fuel (app Gen.GList.tail (app2 Gen.GList.cons a (parigotList ts))) =
      some (parigotList ts, c) :=
  (EvalHap.app_arg (cons_parigotList_hap_values a ts h) (tail_parigotList_hap_values a ts h)).reduce
theorem C16_is_nil_cons_parigot_hap_values (a : Term) (ts : List Term) (h : ∀ u ∈ a :: ts, HapValue u) :
    ∃ fuel c, reduce .HAP 0 fuel (app Gen.GList.is_nil (app2 Gen.GList.cons a (parigotList ts))) =
      some (fromBool false, c) :=
  (EvalHap.app_arg (cons_parigotList_hap_values a ts h) (is_nil_parigotList_hap_values (a :: ts) h)).reduce

/-- `is_nil nil` under HAP, all four encodings (ground facts, checked by the kernel) -/
theorem C16_is_nil_nil_hap :
    (reduce .HAP 0 50 (app Gen.PList.is_nil Gen.PList.nil)).map (·.1) = some (fromBool true) ∧
    (reduce .HAP 0 50 (app Gen.CList.is_nil Gen.CList.nil)).map (·.1) = some (fromBool true) ∧
    (reduce .HAP 0 50 (app Gen.SList.is_nil Gen.SList.nil)).map (·.1) = some (fromBool true) ∧
    (reduce .HAP 0 50 (app Gen.GList.is_nil Gen.GList.nil)).map (·.1) = some (fromBool true) := by decide +kernel

/-- non-vacuity: `tail (cons TRUE [K, 2])` on the Church list; `head (cons 3 [1])` on the Parigot list -/
example : ∃ fuel c, reduce .HAP 0 fuel
    (app Gen.CList.tail (app2 Gen.CList.cons (fromBool true) (churchList [Gen.Comb.K, intoChurch 2]))) =
    some (churchList [Gen.Comb.K, intoChurch 2], c) :=
  C16_tail_cons_church_hap_values _ _ (by
    intro u hu
    simp only [List.mem_cons, List.not_mem_nil, or_false] at hu
    rcases hu with rfl | rfl | rfl
    · exact hapValue_bool true
    · exact .mk' (by decide) (by decide)
    · exact hapValue_church 2)
example : ∃ fuel c, reduce .HAP 0 fuel
    (app Gen.GList.head (app2 Gen.GList.cons (intoChurch 3) (parigotList [intoChurch 1]))) = some (intoChurch 3, c) :=
  C16_head_cons_parigot_hap_values _ _ (hapValue_map hapValue_church [3, 1])

/-! ### non-vacuity: the instances of the correspondence run (Church numerals in a Scott / Parigot list), a mixed list -/

/-- `vec![2, 0, 1]` of CHURCH numerals as a Scott list: `tail` under HAP -/
example : ∃ fuel c, reduce .HAP 0 fuel (app Gen.SList.tail (scottList [intoChurch 2, intoChurch 0, intoChurch 1])) =
    some (scottList [intoChurch 0, intoChurch 1], c) :=
  C16_tail_scottList_hap_nums .Church 2 [0, 1]

/-- CHURCH numerals in a Parigot list: `head`, and the conversion = repeated cons -/
example : ∃ fuel c, reduce .HAP 0 fuel (app Gen.GList.head (parigotList [intoChurch 3, intoChurch 1])) =
    some (intoChurch 3, c) :=
  C16_head_parigotList_hap_nums .Church 3 [1]
example : ∃ fuel c, reduce .HAP 0 fuel
    (app2 Gen.GList.cons (intoChurch 3) (app2 Gen.GList.cons (intoChurch 1) Gen.GList.nil)) =
    some (parigotList [intoChurch 3, intoChurch 1], c) :=
  C16_conv_is_cons_parigot_hap_nums .Church [3, 1]

/-- the pair list with elements of three different numeral encodings; `is_nil` on a Parigot list of Church numerals;
Scott list = repeated cons on Church numerals -/
example : ∃ fuel c, reduce .HAP 0 fuel (app Gen.PList.head (pairList [intoStumpFu 2, intoBinary 5, intoChurch 0])) =
    some (intoStumpFu 2, c) :=
  C16_head_pairList_hap_values _ _ (by
    intro u hu
    simp only [List.mem_cons, List.not_mem_nil, or_false] at hu
    rcases hu with rfl | rfl | rfl
    · exact hapValue_stumpfu 2
    · exact hapValue_binary 5
    · exact hapValue_church 0)
example : ∃ fuel c, reduce .HAP 0 fuel (app Gen.GList.is_nil (parigotList [intoChurch 0])) = some (fromBool false, c) :=
  C16_is_nil_parigotList_hap_nums .Church [0]
example : ∃ fuel c, reduce .HAP 0 fuel
    (app2 Gen.SList.cons (intoChurch 2) (app2 Gen.SList.cons (intoChurch 7) Gen.SList.nil)) =
    some (scottList [intoChurch 2, intoChurch 7], c) :=
  C16_conv_is_cons_scott_hap_nums .Church [2, 7]

/-- the library on pair lists of non-Church elements -/
example : ∃ fuel c, reduce .HAP 0 fuel (app Gen.PList.length (pairList [intoScott 3, fromBool true])) =
    some (intoChurch 2, c) :=
  C16_length_hap_values _ (by
    intro u hu
    simp only [List.mem_cons, List.not_mem_nil, or_false] at hu
    rcases hu with rfl | rfl
    · exact hapValue_scott 3
    · exact hapValue_bool true)
example : ∃ fuel c, reduce .HAP 0 fuel (app2 Gen.PList.index (intoChurch 1) (pairList [intoScott 3, intoScott 5])) =
    some (intoScott 5, c) :=
  C16_index_hap_values [intoScott 3, intoScott 5] (hapValue_map hapValue_scott [3, 5]) 1 (by decide)
example : ∃ fuel c, reduce .HAP 0 fuel (app2 Gen.PList.take (intoChurch 1) (pairList [intoParigot 1, intoParigot 2])) =
    some (pairList [intoParigot 1], c) :=
  C16_take_hap_values 1 _ (hapValue_map hapValue_parigot [1, 2])
example : ∃ fuel c, reduce .HAP 0 fuel
    (app2 (app Gen.PList.list (intoChurch 2)) (intoScott 1) (intoScott 0)) = some (pairList [intoScott 1, intoScott 0], c) :=
  C16_list_hap_values [intoScott 1, intoScott 0] (hapValue_map hapValue_scott [1, 0])

/-- a list of non-numeral admissible elements (a boolean, a combinator, a Scott numeral, a pair list) -/
example : ∃ fuel c, reduce .HAP 0 fuel
    (app Gen.CList.tail (churchList [fromBool true, Gen.Comb.K, intoScott 2, pairList [intoChurch 1]])) =
    some (churchList [Gen.Comb.K, intoScott 2, pairList [intoChurch 1]], c) :=
  C16_tail_churchList_hap_values _ _ (by
    intro u hu
    simp only [List.mem_cons, List.not_mem_nil, or_false] at hu
    rcases hu with rfl | rfl | rfl | rfl
    · exact hapValue_bool true
    · exact .mk' (by decide) (by decide)
    · exact hapValue_scott 2
    · exact .mk' (by decide) (by decide))

/-- the kernel agrees on a ground instance (independent of the big-step development) -/
example : (reduce .HAP 0 200 (app Gen.SList.tail (scottList [intoChurch 2, intoChurch 0]))).map (·.1) =
    some (scottList [intoChurch 0]) := by decide +kernel

end LC
