/-
C06 — All evaluation orders and call histories agree on the result (confluence)

"Whenever two of the normalising orders (NOR, HNO, APP, HAP) both terminate on a term they leave
the identical term, and the weaker orders' results normalise to that same term. More generally,
after any sequence of reduce calls with arbitrary orders and limits the term still has the same
normal form as the original."

Rests on the Church–Rosser theorem for `Spec.Beta` (`LC/Proofs/Confluence.lean`, parallel
reduction + complete developments), on `reduce_sound` (the result of `reduce` is reachable by
β-steps) and on "no strategy step ⇔ documented normal form" (`RL.stepOrd_none_iff`).
-/
import LC.Proofs.ReduceLemmas

namespace LC
open Term Spec

/-- C06: β-reduction is confluent -/
theorem C06_church_rosser {t u v : Term} (h1 : Star t u) (h2 : Star t v) :
    ∃ w, Star u w ∧ Star v w :=
  church_rosser h1 h2

/-- the four orders documented to reach the β-normal form -/
def normalising (o : Order) : Prop := o = .NOR ∨ o = .HNO ∨ o = .APP ∨ o = .HAP

theorem normalising_nf {o : Order} (h : normalising o) : NF o = isNormal := by
  rcases h with rfl | rfl | rfl | rfl <;> rfl

/-- a terminated unlimited run of a normalising order ends in a β-normal term reachable from the input -/
theorem C06_normalising_result (o : Order) (h : normalising o) (f : Nat) (t n : Term) (c : Nat)
    (r : reduce o 0 f t = some (n, c)) : Star t n ∧ Normal n :=
  ⟨RL.reduce_star r, RL.reduce_normal (normalising_nf h) r (Or.inl rfl)⟩

/-- C06: two normalising orders that both terminate leave the identical term -/
theorem C06_orders_agree (o₁ o₂ : Order) (h₁ : normalising o₁) (h₂ : normalising o₂) (f₁ f₂ : Nat)
    (t n₁ n₂ : Term) (c₁ c₂ : Nat)
    (r₁ : reduce o₁ 0 f₁ t = some (n₁, c₁)) (r₂ : reduce o₂ 0 f₂ t = some (n₂, c₂)) : n₁ = n₂ := by
  obtain ⟨s1, hn1⟩ := C06_normalising_result o₁ h₁ f₁ t n₁ c₁ r₁
  obtain ⟨s2, hn2⟩ := C06_normalising_result o₂ h₂ f₂ t n₂ c₂ r₂
  exact normal_unique s1 s2 hn1 hn2

/-- C06, the same for LIMITED runs that stopped before their limit (`c < L`): such a run has terminated too, so two
normalising orders with any limits, each stopping early or unlimited, leave the identical term -/
theorem C06_orders_agree_limited (o₁ o₂ : Order) (h₁ : normalising o₁) (h₂ : normalising o₂) (L₁ L₂ f₁ f₂ : Nat)
    (t n₁ n₂ : Term) (c₁ c₂ : Nat)
    (r₁ : reduce o₁ L₁ f₁ t = some (n₁, c₁)) (r₂ : reduce o₂ L₂ f₂ t = some (n₂, c₂))
    (e₁ : L₁ = 0 ∨ c₁ < L₁) (e₂ : L₂ = 0 ∨ c₂ < L₂) : n₁ = n₂ :=
  normal_unique (RL.reduce_star r₁) (RL.reduce_star r₂)
    (RL.reduce_normal (normalising_nf h₁) r₁ e₁) (RL.reduce_normal (normalising_nf h₂) r₂ e₂)

-- (λx. x ((λy.y) x)) ((λz.z) w): NOR needs 4 contractions (the argument is duplicated), APP needs 3
example :
    reduce .NOR 0 12 (app (abs (app (var 1) (app (abs (var 1)) (var 1)))) (app (abs (var 1)) (var 5)))
      = some (app (var 5) (var 5), 4) ∧
    reduce .APP 0 12 (app (abs (app (var 1) (app (abs (var 1)) (var 1)))) (app (abs (var 1)) (var 5)))
      = some (app (var 5) (var 5), 3) := by decide

/-- C06: whatever any order with any limit leaves still normalises to the normal form of the
input (in particular the results of the weak orders CBN, CBV, HSP) -/
theorem C06_weak_results_normalise (o : Order) (L f : Nat) (t w N : Term) (c : Nat)
    (r : reduce o L f t = some (w, c)) (hN : Star t N) (hn : Normal N) : Star w N :=
  star_normal_of_star (RL.reduce_star r) hN hn

/-- C06: a weak order's result, normalised by a normalising order, is the normalising order's
result on the original term -/
theorem C06_weak_then_normalise (o o' : Order) (ho : normalising o) (L f f₁ f₂ : Nat)
    (t w n n' : Term) (c c₁ c₂ : Nat)
    (r : reduce o' L f t = some (w, c))
    (r₁ : reduce o 0 f₁ t = some (n, c₁)) (r₂ : reduce o 0 f₂ w = some (n', c₂)) : n = n' := by
  obtain ⟨s1, hn1⟩ := C06_normalising_result o ho f₁ t n c₁ r₁
  obtain ⟨s2, hn2⟩ := C06_normalising_result o ho f₂ w n' c₂ r₂
  exact normal_unique s1 ((RL.reduce_star r).trans s2) hn1 hn2

example :
    reduce .CBN 0 12 (app (abs (abs (app (abs (var 1)) (var 2)))) (app (abs (var 1)) (var 5)))
      = some (abs (app (abs (var 1)) (app (abs (var 1)) (var 6))), 1) ∧
    reduce .NOR 0 12 (abs (app (abs (var 1)) (app (abs (var 1)) (var 6)))) = some (abs (var 6), 2) ∧
    reduce .NOR 0 12 (app (abs (abs (app (abs (var 1)) (var 2)))) (app (abs (var 1)) (var 5)))
      = some (abs (var 6), 3) := by decide

/-- a history: any finite sequence of reduce calls (order, limit, fuel) applied one after the other -/
def runHistory : List (Order × Nat × Nat) → Term → Option Term
  | [], t => some t
  | (o, L, f) :: h, t => match reduce o L f t with | some (t', _) => runHistory h t' | none => none

theorem runHistory_star (h : List (Order × Nat × Nat)) (t th : Term)
    (r : runHistory h t = some th) : Star t th := by
  induction h generalizing t with
  | nil =>
    simp only [runHistory, Option.some.injEq] at r
    subst r; exact Star.refl _
  | cons p h ih =>
    obtain ⟨o, L, f⟩ := p
    simp only [runHistory] at r
    cases h1 : reduce o L f t with
    | none => simp [h1] at r
    | some q =>
      obtain ⟨t', c⟩ := q
      simp only [h1] at r
      exact (RL.reduce_star h1).trans (ih t' r)

/-- C06: after any history of reduce calls the term is a reduct of the original and has exactly
the same normal forms -/
theorem C06_history (h : List (Order × Nat × Nat)) (t th : Term) (r : runHistory h t = some th) :
    Star t th ∧ ∀ N, Normal N → (Star t N ↔ Star th N) := by
  have hs := runHistory_star h t th r
  exact ⟨hs, fun N hN => ⟨fun h1 => star_normal_of_star hs h1 hN, fun h2 => hs.trans h2⟩⟩

/-- C06: normalising after any history gives what normalising the original gives -/
theorem C06_history_then_normalise (h : List (Order × Nat × Nat)) (t th : Term)
    (r : runHistory h t = some th)
    (o : Order) (ho : normalising o) (f f' : Nat) (n n' : Term) (c c' : Nat)
    (r₁ : reduce o 0 f t = some (n, c)) (r₂ : reduce o 0 f' th = some (n', c')) : n = n' := by
  obtain ⟨s1, hn1⟩ := C06_normalising_result o ho f t n c r₁
  obtain ⟨s2, hn2⟩ := C06_normalising_result o ho f' th n' c' r₂
  exact normal_unique s1 ((runHistory_star h t th r).trans s2) hn1 hn2

/-- same, with two different normalising orders before and after -/
theorem C06_history_then_normalise' (h : List (Order × Nat × Nat)) (t th : Term)
    (r : runHistory h t = some th)
    (o o' : Order) (ho : normalising o) (ho' : normalising o') (f f' : Nat) (n n' : Term) (c c' : Nat)
    (r₁ : reduce o 0 f t = some (n, c)) (r₂ : reduce o' 0 f' th = some (n', c')) : n = n' := by
  obtain ⟨s1, hn1⟩ := C06_normalising_result o ho f t n c r₁
  obtain ⟨s2, hn2⟩ := C06_normalising_result o' ho' f' th n' c' r₂
  exact normal_unique s1 ((runHistory_star h t th r).trans s2) hn1 hn2

example :
    runHistory [(.CBV, 1, 12), (.HSP, 0, 12), (.CBN, 2, 12)]
      (app (abs (app (var 1) (app (abs (var 1)) (var 1)))) (app (abs (var 1)) (abs (var 1))))
      = some (abs (var 1)) ∧
    reduce .HNO 0 12
      (app (abs (app (var 1) (app (abs (var 1)) (var 1)))) (app (abs (var 1)) (abs (var 1))))
      = some (abs (var 1), 5) := by decide

end LC
