/-
C16 — List operations agree with sequence semantics (companion file: the HIGHER-ORDER pair-list functions under HAP for an
ARBITRARY function argument).

C16.lean proves that `reduce .HAP 0` (hybrid applicative order, no step limit) returns the expected encoding for
`map filter take_while drop_while foldl foldr zip_with` on lists of any length — for the concrete function arguments
`SUCC`, `IS_ZERO`, `ADD`, `SUB` only.  THIS file proves the generic statements: any function argument `f` (an admissible
value, `C16.HapValue`), lists of arbitrary admissible elements (`pairList (ns.map e)` for a family `e : α → Term`; take
`α = Term`, `e = id` for a plain `List Term`: the `_terms` forms).

What HAP really does with `f` — and hence the EXACT shape of the hypothesis on `f` — differs from function to function
(derivations in LC/Proofs/List/HigherHap.lean):

* `map`, `zip_with`: the call `f x` stands in a CBV position; it is evaluated by CBV to a WEAK value `w`, and `w` is
  normalised by HAP only when the finished list is.  Hypothesis: `∃ w, EvalCbv (f x) w ∧ EvalHap w (g x)`.
  The literal hypothesis "`f x` evaluates under HAP to `g x`" is NEITHER sufficient (`C16_map_hap_fn_needs_cbv`: `f x`
  HAP-evaluates to `I`, yet `map f [x]` diverges for every fuel) NOR necessary (`C16_map_hap_fn_hap_not_needed`).
* `zip_with` moreover CALLS `f` on the surplus elements of the FIRST list and the junk heads `I`, `TRUE` when the second
  list is shorter (both branches of `IS_NIL b NIL (CONS …)` are evaluated): these calls must terminate (`JunkOK`), else
  the whole call diverges although the expected result is `NIL` (`C16_zip_with_hap_fn_needs_junk`).
* `filter`, `take_while`, `drop_while`: `p x` is the head of an application, evaluated by CBV; its weak value must be the
  boolean: `EvalCbv (p x) TRUE/FALSE` (`C16_filter_hap_fn_needs_cbv`: HAP-evaluation to `TRUE` does not suffice).
* `foldl`: the accumulators `f s x` are CBV positions: a chain of weak values `s₀ = s, sᵢ₊₁ = cbv (f sᵢ xᵢ)`
  (`HigherHap.FoldlCbv`), only the last one is normalised.  Forms: the chain itself, an invariant on the weak values
  (`C16_foldl_hap_fn`), or encodings that are reproduced exactly (`C16_foldl_hap_fn_values`).
  Counterexample to the literal HAP form: `C16_foldl_hap_fn_needs_cbv`.
* `foldr`: the recursive call is the OPERAND of `f x`: it is normalised first, so here the literal HAP hypothesis
  `EvalHap (f x (enc b)) (enc (op x b))` IS the right one (`C16_foldr_hap_fn`).

The concrete instances of C16.lean are re-derived from the generic theorems at the end (sanity check).
-/
import LC.Props.C16More
import LC.Proofs.List.HigherHap

namespace LC
open Term Spec Enc RL Eager C16 HigherHap

/-! ## H. higher-order functions, arbitrary function argument -/

/-! ### map -/

theorem C16_map_hap_fn {α : Type} (f : Term) (e r : α → Term) (ns : List α) (hf : HapValue f)
    (hv : ∀ a ∈ ns, HapValue (e a))
    (hfx : ∀ a ∈ ns, ∃ w, EvalCbv (app f (e a)) w ∧ EvalHap w (r a)) :
    ∃ fuel c, reduce .HAP 0 fuel (app2 Gen.PList.map f (pairList (ns.map e))) = some (pairList (ns.map r), c) :=
  (plist_map_hap_fn hf.closed (hapValue_isWNF hf) e r ns hv hfx).reduce

/-- the same for a plain list of terms and a function `g` on terms -/
theorem C16_map_hap_fn_terms (f : Term) (g : Term → Term) (xs : List Term) (hf : HapValue f)
    (hxs : ∀ x ∈ xs, HapValue x)
    (hfx : ∀ x ∈ xs, ∃ w, EvalCbv (app f x) w ∧ EvalHap w (g x)) :
    ∃ fuel c, reduce .HAP 0 fuel (app2 Gen.PList.map f (pairList xs)) = some (pairList (xs.map g), c) := by
  have := C16_map_hap_fn f id g xs hf hxs hfx
  rwa [List.map_id] at this

/-- special case: `f x` evaluates by CBV directly to the admissible value `g x` -/
theorem C16_map_hap_fn_cbv (f : Term) (g : Term → Term) (xs : List Term) (hf : HapValue f)
    (hxs : ∀ x ∈ xs, HapValue x) (hfx : ∀ x ∈ xs, EvalCbv (app f x) (g x)) (hg : ∀ x ∈ xs, HapValue (g x)) :
    ∃ fuel c, reduce .HAP 0 fuel (app2 Gen.PList.map f (pairList xs)) = some (pairList (xs.map g), c) :=
  C16_map_hap_fn_terms f g xs hf hxs fun x hx => ⟨g x, hfx x hx, (hg x hx).2⟩

example : ∃ fuel c, reduce .HAP 0 fuel (app2 Gen.PList.map (abs (abs (var 2))) (pairList [intoChurch 1, intoScott 2])) =
    some (pairList [abs (intoChurch 1), abs (intoScott 2)], c) :=
  C16_map_hap_fn_cbv (abs (abs (var 2))) (fun x => abs x) _ (.mk' (by decide) (by decide))
    (by simp; exact ⟨hapValue_church 1, hapValue_scott 2⟩)
    (by simp; constructor <;> ev)
    (by simp; exact ⟨.mk' (by decide) (by decide), .mk' (by decide) (by decide)⟩)

/-! ### filter, take_while, drop_while -/

theorem C16_filter_hap_fn {α : Type} (p : Term) (e : α → Term) (b : α → Bool) (ns : List α) (hp : HapValue p)
    (hv : ∀ a ∈ ns, HapValue (e a)) (hpx : ∀ a ∈ ns, EvalCbv (app p (e a)) (fromBool (b a))) :
    ∃ fuel c, reduce .HAP 0 fuel (app2 Gen.PList.filter p (pairList (ns.map e))) =
      some (pairList ((ns.filter b).map e), c) :=
  (plist_filter_hap_fn hp.closed (hapValue_isWNF hp) e b ns hv hpx).reduce

theorem C16_take_while_hap_fn {α : Type} (p : Term) (e : α → Term) (b : α → Bool) (ns : List α) (hp : HapValue p)
    (hv : ∀ a ∈ ns, HapValue (e a)) (hpx : ∀ a ∈ ns, EvalCbv (app p (e a)) (fromBool (b a))) :
    ∃ fuel c, reduce .HAP 0 fuel (app2 Gen.PList.take_while p (pairList (ns.map e))) =
      some (pairList ((ns.takeWhile b).map e), c) :=
  (plist_take_while_hap_fn hp.closed (hapValue_isWNF hp) e b ns hv hpx).reduce

theorem C16_drop_while_hap_fn {α : Type} (p : Term) (e : α → Term) (b : α → Bool) (ns : List α) (hp : HapValue p)
    (hv : ∀ a ∈ ns, HapValue (e a)) (hpx : ∀ a ∈ ns, EvalCbv (app p (e a)) (fromBool (b a))) :
    ∃ fuel c, reduce .HAP 0 fuel (app2 Gen.PList.drop_while p (pairList (ns.map e))) =
      some (pairList ((ns.dropWhile b).map e), c) :=
  (plist_drop_while_hap_fn hp.closed (hapValue_isWNF hp) e b ns hv hpx).reduce

theorem C16_filter_hap_fn_terms (p : Term) (b : Term → Bool) (xs : List Term) (hp : HapValue p)
    (hxs : ∀ x ∈ xs, HapValue x) (hpx : ∀ x ∈ xs, EvalCbv (app p x) (fromBool (b x))) :
    ∃ fuel c, reduce .HAP 0 fuel (app2 Gen.PList.filter p (pairList xs)) = some (pairList (xs.filter b), c) := by
  have := C16_filter_hap_fn p id b xs hp hxs hpx
  rwa [List.map_id, List.map_id] at this

theorem C16_take_while_hap_fn_terms (p : Term) (b : Term → Bool) (xs : List Term) (hp : HapValue p)
    (hxs : ∀ x ∈ xs, HapValue x) (hpx : ∀ x ∈ xs, EvalCbv (app p x) (fromBool (b x))) :
    ∃ fuel c, reduce .HAP 0 fuel (app2 Gen.PList.take_while p (pairList xs)) = some (pairList (xs.takeWhile b), c) := by
  have := C16_take_while_hap_fn p id b xs hp hxs hpx
  rwa [List.map_id, List.map_id] at this

theorem C16_drop_while_hap_fn_terms (p : Term) (b : Term → Bool) (xs : List Term) (hp : HapValue p)
    (hxs : ∀ x ∈ xs, HapValue x) (hpx : ∀ x ∈ xs, EvalCbv (app p x) (fromBool (b x))) :
    ∃ fuel c, reduce .HAP 0 fuel (app2 Gen.PList.drop_while p (pairList xs)) = some (pairList (xs.dropWhile b), c) := by
  have := C16_drop_while_hap_fn p id b xs hp hxs hpx
  rwa [List.map_id, List.map_id] at this

/-! ### foldl -/

/-- relational form: `v` is the last of the CBV accumulators `s₀ = s`, `sᵢ₊₁ = cbv (f sᵢ xᵢ)`, `R` its HAP-normal form -/
theorem C16_foldl_hap_fn_chain (f s v R : Term) (xs : List Term) (hf : HapValue f) (hs : HapValue s)
    (hxs : ∀ x ∈ xs, HapValue x) (hch : FoldlCbv f s xs v) (hR : EvalHap v R) :
    ∃ fuel c, reduce .HAP 0 fuel (app3 Gen.PList.foldl f s (pairList xs)) = some (R, c) :=
  (plist_foldl_hap_chain hf.closed (hapValue_isWNF hf) hs.closed (hapValue_isWNF hs) xs hxs hch hR).reduce

/-- with an invariant `P v j` ("the weak value `v` represents `j`") on the CBV accumulators, preserved by the steps -/
theorem C16_foldl_hap_fn {α γ : Type} (f s : Term) (e : α → Term) (enc : γ → Term) (op : γ → α → γ)
    (P : Term → γ → Prop) (ns : List α) (j : γ) (hf : HapValue f) (hs : HapValue s)
    (hv : ∀ a ∈ ns, HapValue (e a)) (hP : ∀ v j, P v j → EvalHap v (enc j)) (hsj : P s j)
    (hstep : ∀ v j, ∀ a ∈ ns, P v j → ∃ v', EvalCbv (app2 f v (e a)) v' ∧ P v' (op j a)) :
    ∃ fuel c, reduce .HAP 0 fuel (app3 Gen.PList.foldl f s (pairList (ns.map e))) = some (enc (ns.foldl op j), c) :=
  (plist_foldl_hap_inv hf.closed (hapValue_isWNF hf) hs.closed (hapValue_isWNF hs) e enc op P ns j hv hP hsj
    hstep).reduce

/-- special case: the CBV value of `f (enc j) x` IS the (admissible) encoding of `op j x` -/
theorem C16_foldl_hap_fn_values {α γ : Type} (f : Term) (e : α → Term) (enc : γ → Term) (op : γ → α → γ)
    (ns : List α) (j : γ) (hf : HapValue f) (henc : ∀ j, HapValue (enc j)) (hv : ∀ a ∈ ns, HapValue (e a))
    (hstep : ∀ j, ∀ a ∈ ns, EvalCbv (app2 f (enc j) (e a)) (enc (op j a))) :
    ∃ fuel c, reduce .HAP 0 fuel (app3 Gen.PList.foldl f (enc j) (pairList (ns.map e))) =
      some (enc (ns.foldl op j), c) :=
  C16_foldl_hap_fn f (enc j) e enc op (fun v j => v = enc j) ns j hf (henc j) hv
    (fun _ j h => h ▸ (henc j).2) rfl (fun _ j a ha h => ⟨_, h ▸ hstep j a ha, rfl⟩)

/-! ### foldr -/

/-- relational form: `R` is the last of the HAP results `r₀ = a`, `rᵢ₊₁ = hap (f xᵢ rᵢ)` (from the right) -/
theorem C16_foldr_hap_fn_chain (f a R : Term) (xs : List Term) (hf : HapValue f) (ha : HapValue a)
    (hxs : ∀ x ∈ xs, HapValue x) (hch : FoldrHap f a xs R) :
    ∃ fuel c, reduce .HAP 0 fuel (app3 Gen.PList.foldr f a (pairList xs)) = some (R, c) :=
  (plist_foldr_hap_chain hf.closed (hapValue_isWNF hf) ha xs hxs hch).reduce

/-- for `foldr` the literal HAP hypothesis on the binary `f` is the right one -/
theorem C16_foldr_hap_fn {α γ : Type} (f : Term) (e : α → Term) (enc : γ → Term) (op : α → γ → γ)
    (ns : List α) (j : γ) (hf : HapValue f) (hj : HapValue (enc j)) (hv : ∀ a ∈ ns, HapValue (e a))
    (hstep : ∀ a ∈ ns, ∀ j, EvalHap (app2 f (e a) (enc j)) (enc (op a j))) :
    ∃ fuel c, reduce .HAP 0 fuel (app3 Gen.PList.foldr f (enc j) (pairList (ns.map e))) =
      some (enc (ns.foldr op j), c) :=
  C16_foldr_hap_fn_chain f (enc j) _ _ hf hj (hv_map hv) (foldrHap_of_steps e enc op ns j hstep)

/-! ### zip_with -/

/-- general form: `f` is also called on the surplus elements of the first list and the junk heads `I`, `TRUE` -/
theorem C16_zip_with_hap_fn {α β : Type} (f : Term) (e1 : α → Term) (e2 : β → Term) (g : α → β → Term)
    (ms : List α) (ns : List β) (hf : HapValue f) (hv1 : ∀ a ∈ ms, HapValue (e1 a)) (hv2 : ∀ a ∈ ns, HapValue (e2 a))
    (hfx : ∀ p ∈ ms.zip ns, ∃ w, EvalCbv (app2 f (e1 p.1) (e2 p.2)) w ∧ EvalHap w (g p.1 p.2))
    (hjk : ∀ a ∈ ms.drop ns.length,
      (∃ r w, EvalCbv (app2 f (e1 a) (abs (var 1))) w ∧ EvalHap w r) ∧
      (∃ r w, EvalCbv (app2 f (e1 a) Gen.Bool.tru) w ∧ EvalHap w r)) :
    ∃ fuel c, reduce .HAP 0 fuel (app3 Gen.PList.zip_with f (pairList (ms.map e1)) (pairList (ns.map e2))) =
      some (pairList ((ms.zip ns).map (fun p => g p.1 p.2)), c) :=
  (plist_zip_with_hap_fn hf.closed (hapValue_isWNF hf) e1 e2 g ms ns hv1 hv2 hfx hjk).reduce

/-- no junk calls when the first list is not the longer one -/
theorem C16_zip_with_hap_fn_le {α β : Type} (f : Term) (e1 : α → Term) (e2 : β → Term) (g : α → β → Term)
    (ms : List α) (ns : List β) (hf : HapValue f) (hv1 : ∀ a ∈ ms, HapValue (e1 a)) (hv2 : ∀ a ∈ ns, HapValue (e2 a))
    (hfx : ∀ p ∈ ms.zip ns, ∃ w, EvalCbv (app2 f (e1 p.1) (e2 p.2)) w ∧ EvalHap w (g p.1 p.2))
    (hlen : ms.length ≤ ns.length) :
    ∃ fuel c, reduce .HAP 0 fuel (app3 Gen.PList.zip_with f (pairList (ms.map e1)) (pairList (ns.map e2))) =
      some (pairList ((ms.zip ns).map (fun p => g p.1 p.2)), c) :=
  C16_zip_with_hap_fn f e1 e2 g ms ns hf hv1 hv2 hfx (by
    rw [List.drop_eq_nil_of_le hlen]; intro a ha; cases ha)

/-! ## I. the side conditions cannot be replaced by the literal "`f x` evaluates under HAP to `g x`"

All counterexamples use the closed normal form `fn = λa. (a TRUE) (λz. (a FALSE) (z z))` and elements
`elt res = ⟨λv. v ω, λx. res⟩` (a pair, `ω = λx. x x`):  under HAP the operand `λz. (a FALSE) (z z)` is NORMALISED first (to
`λz. res`), then `(λv. v ω) (λz. res)` gives `res`; under CBV the operand is a value as it stands, and
`(λv. v ω) (λz. (λx. res) (z z))` runs into `ω ω`.  Divergence is proved for EVERY fuel (`HigherHap.reduce_hap_diverges`:
the one-step strategy `stepHap` reaches a term that steps to itself; two ground facts checked by the kernel). -/

namespace C16Cx

def om : Term := abs (app (var 1) (var 1))
def idT : Term := abs (var 1)
/-- `λa. (a TRUE) (λz. (a FALSE) (z z))` -/
def fn : Term :=
  abs (app (app (var 1) Gen.Bool.tru) (abs (app (app (var 2) Gen.Bool.fls) (app (var 1) (var 1)))))
/-- `⟨λv. v ω, λx. res⟩` (for a closed `res`) -/
def elt (res : Term) : Term := abs (app2 (var 1) (abs (app (var 1) om)) (abs res))
/-- `λs. fn` : a binary function that ignores its first argument -/
def fn2 : Term := abs fn
/-- `λx y. y ω ω` : fine on the Church numeral `0`, divergent on the junk head `I` -/
def fz : Term := abs (abs (app2 (var 1) om om))
/-- `λa. (a TRUE) (λz. (a FALSE) (a FALSE))` and `⟨λy. I, ω⟩`: here CBV converges and HAP diverges -/
def fn' : Term :=
  abs (app (app (var 1) Gen.Bool.tru) (abs (app (app (var 2) Gen.Bool.fls) (app (var 2) Gen.Bool.fls))))
def elt' : Term := abs (app2 (var 1) (abs idT) om)

end C16Cx

open C16Cx in
/-- `map`: `f`, `x`, `g x = I` admissible and `f x` evaluates under HAP to `I` — but `map f [x]` diverges -/
theorem C16_map_hap_fn_needs_cbv :
    HapValue fn ∧ HapValue (elt idT) ∧ HapValue idT ∧ EvalHap (app fn (elt idT)) idT ∧
    ∀ fuel, reduce .HAP 0 fuel (app2 Gen.PList.map fn (pairList [elt idT])) = none := by
  refine ⟨.mk' (by decide) (by decide), .mk' (by decide) (by decide), .mk' (by decide) (by decide), ?_, ?_⟩
  · unfold fn elt om idT; ev
  · exact diverges_of_cycle (N := 26) (by decide +kernel)

open C16Cx in
/-- … and conversely `map f [x]` may converge (to `[I]`) although `f x` itself diverges under HAP -/
theorem C16_map_hap_fn_hap_not_needed :
    HapValue fn' ∧ HapValue elt' ∧ EvalCbv (app fn' elt') idT ∧
    (∀ fuel, reduce .HAP 0 fuel (app fn' elt') = none) ∧
    ∃ fuel c, reduce .HAP 0 fuel (app2 Gen.PList.map fn' (pairList [elt'])) = some (pairList [idT], c) := by
  have hf : HapValue fn' := .mk' (by decide) (by decide)
  have hx : HapValue elt' := .mk' (by decide) (by decide)
  have hc : EvalCbv (app fn' elt') idT := by unfold fn' elt' om idT; ev
  refine ⟨hf, hx, hc, diverges_of_cycle (N := 10) (by decide +kernel), ?_⟩
  exact C16_map_hap_fn_cbv fn' (fun _ => idT) [elt'] hf (by simpa using hx) (by simpa using hc)
    (fun _ _ => .mk' (by decide) (by decide))

open C16Cx in
/-- `filter` (likewise `take_while`, `drop_while`): `p x` evaluates under HAP to `TRUE` — but `filter p [x]` diverges -/
theorem C16_filter_hap_fn_needs_cbv :
    HapValue fn ∧ HapValue (elt Gen.Bool.tru) ∧ EvalHap (app fn (elt Gen.Bool.tru)) Gen.Bool.tru ∧
    (∀ fuel, reduce .HAP 0 fuel (app2 Gen.PList.filter fn (pairList [elt Gen.Bool.tru])) = none) ∧
    (∀ fuel, reduce .HAP 0 fuel (app2 Gen.PList.take_while fn (pairList [elt Gen.Bool.tru])) = none) ∧
    (∀ fuel, reduce .HAP 0 fuel (app2 Gen.PList.drop_while fn (pairList [elt Gen.Bool.tru])) = none) := by
  refine ⟨.mk' (by decide) (by decide), .mk' (by decide) (by decide), ?_, ?_, ?_, ?_⟩
  · unfold fn elt om; ev
  · exact diverges_of_cycle (N := 26) (by decide +kernel)
  · exact diverges_of_cycle (N := 26) (by decide +kernel)
  · exact diverges_of_cycle (N := 26) (by decide +kernel)

open C16Cx in
/-- `foldl`: `f s x` evaluates under HAP to `I` — but `foldl f s [x]` diverges -/
theorem C16_foldl_hap_fn_needs_cbv :
    HapValue fn2 ∧ HapValue (elt idT) ∧ HapValue idT ∧ EvalHap (app2 fn2 idT (elt idT)) idT ∧
    ∀ fuel, reduce .HAP 0 fuel (app3 Gen.PList.foldl fn2 idT (pairList [elt idT])) = none := by
  refine ⟨.mk' (by decide) (by decide), .mk' (by decide) (by decide), .mk' (by decide) (by decide), ?_, ?_⟩
  · unfold fn2 fn elt om idT; ev
  · exact diverges_of_cycle (N := 32) (by decide +kernel)

open C16Cx in
/-- `zip_with`: `zip_with f [0̄] [0̄]` converges, `zip_with f [0̄] []` (expected: `NIL`, no hypothesis on `f` at all in the
literal statement) diverges: `f 0̄ I` is evaluated -/
theorem C16_zip_with_hap_fn_needs_junk :
    HapValue fz ∧
    (∃ fuel c, reduce .HAP 0 fuel (app3 Gen.PList.zip_with fz (pairList [intoChurch 0]) (pairList [intoChurch 0])) =
      some (pairList [om], c)) ∧
    ∀ fuel, reduce .HAP 0 fuel (app3 Gen.PList.zip_with fz (pairList [intoChurch 0]) (pairList [])) = none := by
  refine ⟨.mk' (by decide) (by decide), ⟨200, 55, by decide +kernel⟩, ?_⟩
  exact diverges_of_cycle (N := 27) (by decide +kernel)

/-! ## J. the concrete instances of C16.lean, re-derived from the generic theorems -/

open EagerListB in
example (ns : List Nat) :
    ∃ fuel c, reduce .HAP 0 fuel (app2 Gen.PList.map Gen.Church.succ (cl ns)) = some (cl (ns.map (· + 1)), c) := by
  have := C16_map_hap_fn Gen.Church.succ intoChurch (fun n => intoChurch (n + 1)) ns (.mk' (by decide) (by decide))
    (fun a _ => hapValue_church a)
    (fun a _ => ⟨_, (cbv_succ_anum (anum_intoChurch a)).1, (cbv_succ_anum (anum_intoChurch a)).2.2.2⟩)
  simpa [cl, List.map_map, Function.comp_def] using this

example (ns : List Nat) :
    ∃ fuel c, reduce .HAP 0 fuel (app2 Gen.PList.filter Gen.Church.is_zero (cl ns)) =
      some (cl (ns.filter (· == 0)), c) :=
  C16_filter_hap_fn Gen.Church.is_zero intoChurch (· == 0) ns (.mk' (by decide) (by decide))
    (fun a _ => hapValue_church a) (fun a _ => church_is_zero_cbv (cnum_intoChurch a))

example (ns : List Nat) :
    ∃ fuel c, reduce .HAP 0 fuel (app2 Gen.PList.take_while Gen.Church.is_zero (cl ns)) =
      some (cl (ns.takeWhile (· == 0)), c) :=
  C16_take_while_hap_fn Gen.Church.is_zero intoChurch (· == 0) ns (.mk' (by decide) (by decide))
    (fun a _ => hapValue_church a) (fun a _ => church_is_zero_cbv (cnum_intoChurch a))

example (ns : List Nat) :
    ∃ fuel c, reduce .HAP 0 fuel (app2 Gen.PList.drop_while Gen.Church.is_zero (cl ns)) =
      some (cl (ns.dropWhile (· == 0)), c) :=
  C16_drop_while_hap_fn Gen.Church.is_zero intoChurch (· == 0) ns (.mk' (by decide) (by decide))
    (fun a _ => hapValue_church a) (fun a _ => church_is_zero_cbv (cnum_intoChurch a))

open EagerListB in
example (s : Nat) (ns : List Nat) :
    ∃ fuel c, reduce .HAP 0 fuel (app3 Gen.PList.foldl Gen.Church.add (intoChurch s) (cl ns)) =
      some (intoChurch (ns.foldl (· + ·) s), c) :=
  C16_foldl_hap_fn Gen.Church.add (intoChurch s) intoChurch intoChurch (· + ·) ANum ns s (.mk' (by decide) (by decide))
    (hapValue_church s) (fun a _ => hapValue_church a) (fun _ _ h => h.2.2) (anum_intoChurch s)
    (fun _ _ a _ h => ⟨_, cbv_add_anum h (cnum_intoChurch a), anum_addCv h a⟩)

example (a : Nat) (ns : List Nat) :
    ∃ fuel c, reduce .HAP 0 fuel (app3 Gen.PList.foldr Gen.Church.add (intoChurch a) (cl ns)) =
      some (intoChurch (ns.foldr (· + ·) a), c) :=
  C16_foldr_hap_fn Gen.Church.add intoChurch intoChurch (· + ·) ns a (.mk' (by decide) (by decide))
    (hapValue_church a) (fun a _ => hapValue_church a) (fun m _ n => church_add_hap m n)

open EagerListB in
example (ms ns : List Nat) :
    ∃ fuel c, reduce .HAP 0 fuel (app3 Gen.PList.zip_with Gen.Church.sub (cl ms) (cl ns)) =
      some (cl ((ms.zip ns).map (fun p => p.1 - p.2)), c) := by
  have := C16_zip_with_hap_fn Gen.Church.sub intoChurch intoChurch (fun m n => intoChurch (m - n)) ms ns
    (.mk' (by decide) (by decide)) (fun a _ => hapValue_church a) (fun a _ => hapValue_church a)
    (fun p _ => ⟨_, church_sub_cbv p.1 p.2,
      hap_subCv (onum_intoChurch p.1) (EvalHap.of_isNormal (normal_intoChurch p.1)) p.2⟩)
    (fun m _ => by
      have hp := (cbv_pred_cnum (cnum_intoChurch m)).1
      have hpn := hap_predC_onum (onum_intoChurch m)
      constructor
      · refine ⟨_, _, ?_, hpn⟩
        ev
      · apply Exists.intro
        apply Exists.intro
        apply And.intro
        · ev
        · ev)
  simpa [cl, List.map_map, Function.comp_def] using this

/-! non-vacuity of the remaining forms: concrete instances -/

/-- `zip_with K`, first list shorter: no junk calls -/
example : ∃ fuel c, reduce .HAP 0 fuel (app3 Gen.PList.zip_with Gen.Bool.tru (cl [1, 2]) (cl [3, 4, 5])) =
    some (cl [1, 2], c) := by
  have := C16_zip_with_hap_fn_le Gen.Bool.tru intoChurch intoChurch (fun m _ => intoChurch m) [1, 2] [3, 4, 5]
    (.mk' (by decide) (by decide)) (fun a _ => hapValue_church a) (fun a _ => hapValue_church a)
    (fun p _ => ⟨intoChurch p.1, by ev, EvalHap.of_isNormal (normal_intoChurch p.1)⟩) (by decide)
  simpa [cl] using this

/-- `foldl (λs x. x)`: the accumulator is the last element seen -/
example : ∃ fuel c, reduce .HAP 0 fuel (app3 Gen.PList.foldl Gen.Bool.fls (intoChurch 7) (cl [1, 2, 3])) =
    some (intoChurch 3, c) :=
  C16_foldl_hap_fn_values Gen.Bool.fls intoChurch intoChurch (fun _ a => a) [1, 2, 3] 7
    (.mk' (by decide) (by decide)) hapValue_church (fun a _ => hapValue_church a) (fun j a _ => by ev)

example : ∃ fuel c, reduce .HAP 0 fuel (app3 Gen.PList.foldl Gen.Bool.fls (intoChurch 7) (pairList [intoScott 1])) =
    some (intoScott 1, c) :=
  C16_foldl_hap_fn_chain Gen.Bool.fls (intoChurch 7) (intoScott 1) (intoScott 1) [intoScott 1]
    (.mk' (by decide) (by decide)) (hapValue_church 7) (by simpa using hapValue_scott 1)
    (.cons (by ev) (.nil _)) (hapValue_scott 1).2

example : ∃ fuel c, reduce .HAP 0 fuel (app3 Gen.PList.foldr Gen.Bool.tru (intoChurch 7) (pairList [intoScott 1])) =
    some (intoScott 1, c) :=
  C16_foldr_hap_fn_chain Gen.Bool.tru (intoChurch 7) (intoScott 1) [intoScott 1]
    (.mk' (by decide) (by decide)) (hapValue_church 7) (by simpa using hapValue_scott 1)
    (.cons .nil (by ev))

example : ∃ fuel c, reduce .HAP 0 fuel (app2 Gen.PList.filter Gen.Church.is_zero (pairList [intoChurch 0, intoChurch 2])) =
    some (pairList [intoChurch 0], c) :=
  C16_filter_hap_fn_terms Gen.Church.is_zero (· == intoChurch 0) _ (.mk' (by decide) (by decide))
    (by simp; exact ⟨hapValue_church 0, hapValue_church 2⟩)
    (by simp; exact ⟨church_is_zero_cbv (cnum_intoChurch 0), church_is_zero_cbv (cnum_intoChurch 2)⟩)

example : ∃ fuel c, reduce .HAP 0 fuel (app2 Gen.PList.take_while Gen.Church.is_zero (pairList [intoChurch 0, intoChurch 2])) =
    some (pairList [intoChurch 0], c) :=
  C16_take_while_hap_fn_terms Gen.Church.is_zero (· == intoChurch 0) _ (.mk' (by decide) (by decide))
    (by simp; exact ⟨hapValue_church 0, hapValue_church 2⟩)
    (by simp; exact ⟨church_is_zero_cbv (cnum_intoChurch 0), church_is_zero_cbv (cnum_intoChurch 2)⟩)

example : ∃ fuel c, reduce .HAP 0 fuel (app2 Gen.PList.drop_while Gen.Church.is_zero (pairList [intoChurch 0, intoChurch 2])) =
    some (pairList [intoChurch 2], c) :=
  C16_drop_while_hap_fn_terms Gen.Church.is_zero (· == intoChurch 0) _ (.mk' (by decide) (by decide))
    (by simp; exact ⟨hapValue_church 0, hapValue_church 2⟩)
    (by simp; exact ⟨church_is_zero_cbv (cnum_intoChurch 0), church_is_zero_cbv (cnum_intoChurch 2)⟩)

end LC
