/-
C12 — Every numeral constructor yields the canonical, decodable encoding of its number

"For every natural n, into_church, into_scott, into_parigot, into_stumpfu and into_binary return a
closed term in beta-normal form that has the documented shape of that encoding, decodes back to n
(so distinct numbers get distinct terms) and coincides with the module's zero()/one() constants for
0 and 1. The derived conversions - pairs, options, results, vectors of numbers, and into_signed for
each supported encoding - are the canonical containers of those numerals; a signed value is the
pair (n, zero) or (zero, n) built with the zero of the same encoding."

* The constructors are modelled in `LC/Model/Encode.lean` (`LC.Enc`), loop for loop.
* The decoders `Spec.Dec.decodeE` and the closed forms `Dec.iterApp`, `Dec.binBody` live in
  `LC/Spec/Decode.lean`; they are written from the module documentation and return `none` on every
  term that is not of the documented shape.  Besides `decodeE (intoE n) = some n` we prove the
  converse `decodeE t = some n → t = intoE n` (`C12_canonical_E`): the decoder accepts exactly ONE
  term per number, so "decodes back to `n`" pins the term down completely.
* "closed" is `Spec.closedAt 0` (`LC/Proofs/PSubst.lean`); `C12_no_free_variables` adds the strict
  reading of the crate's own `has_free_variables` (which also flags the placeholder index `0`).
* "β-normal" is `Spec.isNormal` (`LC/Spec/NormalForms.lean`).
* `zero()`/`one()`/`nil()`/`none()`/`tru()`/`fls()` are the GENERATED constants `LC.Gen.*`, referred to
  by name only.
* `into_signed`: the statement about "the zero of the same encoding" holds for the model of the
  repaired source (finding F3: the original code paired every encoding with `λλ1`, which is not
  the Scott zero `λλ2`; see the `example`s at the end of the signed section).

All requested statements hold as stated; nothing had to be weakened.
-/
import LC.Spec.NormalForms
import LC.Spec.FreeVars
import LC.Spec.Decode
import LC.Proofs.PSubst
import LC.Model.Encode
import LC.Gen.All

namespace LC
open Term Spec Enc

/-! ## auxiliary lemmas -/

namespace C12

theorem closedAt_mono {t : Term} {d e : Nat} (h : closedAt d t = true) (hde : d ≤ e) :
    closedAt e t = true := by
  induction t generalizing d e with
  | var i => simp [closedAt] at h ⊢; omega
  | abs b ih => simp only [closedAt] at h ⊢; exact ih h (by omega)
  | app l r ihl ihr =>
    simp only [closedAt, Bool.and_eq_true] at h ⊢
    exact ⟨ihl h.1 hde, ihr h.2 hde⟩

theorem closed_up {t : Term} (d : Nat) (h : closedAt 0 t = true) : closedAt d t = true :=
  closedAt_mono h (Nat.zero_le d)

/-! ### Church -/

theorem churchBody_eq (n : Nat) : churchBody n = Dec.iterApp (var 2) n (var 1) := by
  induction n with
  | zero => rfl
  | succ n ih => simp [churchBody, Dec.iterApp, ih]

theorem churchBody_closed (n : Nat) : closedAt 2 (churchBody n) = true := by
  induction n with
  | zero => rfl
  | succ n ih => simp [churchBody, closedAt, ih]

theorem churchBody_normal (n : Nat) : isNormal (churchBody n) = true := by
  induction n with
  | zero => rfl
  | succ n ih => simp [churchBody, isNormal, isAbs, ih]

theorem churchCount_body (n : Nat) : Dec.churchCount (churchBody n) = some n := by
  induction n with
  | zero => rfl
  | succ n ih => simp [churchBody, Dec.churchCount, ih]

/-! ### Scott -/

theorem scott_closed (n : Nat) (d : Nat) : closedAt d (intoScott n) = true := by
  induction n generalizing d with
  | zero => simp [intoScott, closedAt]
  | succ n ih => simp [intoScott, closedAt, ih]

theorem scott_normal (n : Nat) : isNormal (intoScott n) = true := by
  induction n with
  | zero => rfl
  | succ n ih => simp [intoScott, isNormal, isAbs, ih]

theorem scott_decode (n : Nat) : Dec.decodeScott (intoScott n) = some n := by
  induction n with
  | zero => rfl
  | succ n ih => simp [intoScott, Dec.decodeScott, ih]

/-! ### Parigot -/

theorem parigot_shape (n : Nat) : ∃ b, intoParigot n = abs (abs b) := by
  cases n with
  | zero => exact ⟨_, rfl⟩
  | succ n => exact ⟨_, rfl⟩

theorem parigot_unabs2 (n : Nat) : intoParigot n = abs (abs (unabs2 (intoParigot n))) := by
  obtain ⟨b, hb⟩ := parigot_shape n
  rw [hb]; rfl

theorem parigot_closed (n : Nat) : closedAt 0 (intoParigot n) = true := by
  induction n with
  | zero => rfl
  | succ n ih =>
    have h2 : closedAt 2 (intoParigot n) = true := closed_up 2 ih
    have hb : closedAt 2 (unabs2 (intoParigot n)) = true := by
      rw [parigot_unabs2 n] at ih; simpa [closedAt] using ih
    simp [intoParigot, closedAt, h2, hb]

theorem parigot_normal (n : Nat) : isNormal (intoParigot n) = true := by
  induction n with
  | zero => rfl
  | succ n ih =>
    have hb : isNormal (unabs2 (intoParigot n)) = true := by
      rw [parigot_unabs2 n] at ih; simpa [isNormal] using ih
    simp [intoParigot, isNormal, isAbs, ih, hb]

theorem parigot_decode (n : Nat) : Dec.decodeParigot (intoParigot n) = some n := by
  induction n with
  | zero => rfl
  | succ n ih =>
    have hs := parigot_unabs2 n
    simp only [intoParigot, Dec.decodeParigot, ih]
    rw [if_pos hs]

/-! ### Stump-Fu -/

theorem stumpfu_closed (n : Nat) (d : Nat) : closedAt d (intoStumpFu n) = true := by
  induction n generalizing d with
  | zero => simp [intoStumpFu, closedAt]
  | succ n ih =>
    have hc : closedAt (d + 1 + 1 + 1 + 1) (churchBody (n + 1)) = true :=
      closedAt_mono (churchBody_closed (n + 1)) (by omega)
    simp [intoStumpFu, intoChurch, closedAt, ih, hc]

theorem stumpfu_normal (n : Nat) : isNormal (intoStumpFu n) = true := by
  induction n with
  | zero => rfl
  | succ n ih =>
    have hc := churchBody_normal (n + 1)
    simp [intoStumpFu, intoChurch, isNormal, isAbs, ih, hc]

theorem church_decode (n : Nat) : Dec.decodeChurch (intoChurch n) = some n := by
  simp [intoChurch, Dec.decodeChurch, churchCount_body]

theorem stumpfu_decode (n : Nat) : Dec.decodeStumpFu (intoStumpFu n) = some n := by
  induction n with
  | zero => rfl
  | succ n ih => simp [intoStumpFu, Dec.decodeStumpFu, ih, church_decode]

/-! ### binary -/

/-- one round of the loop of `into_binary` -/
def binStep (ret : Term) (bit : Bool) : Term := app (if bit then var 1 else var 2) ret

theorem bitsMSB_zero : bitsMSB 0 = [] := by
  rw [bitsMSB]; simp

theorem bitsMSB_pos {n : Nat} (h : n ≠ 0) : bitsMSB n = bitsMSB (n / 2) ++ [n % 2 == 1] := by
  rw [bitsMSB]; simp [h]

theorem binBody_zero : Dec.binBody 0 = var 3 := by
  rw [Dec.binBody]; simp

theorem binBody_pos {n : Nat} (h : n ≠ 0) :
    Dec.binBody n = app (if n % 2 = 1 then var 1 else var 2) (Dec.binBody (n / 2)) := by
  rw [Dec.binBody]; simp [h]

/-- the loop over the MSB-first digit string builds the LSB-outermost documented body -/
theorem foldl_bits (n : Nat) : (bitsMSB n).foldl binStep (var 3) = Dec.binBody n := by
  induction n using Nat.strongRecOn with
  | _ n ih =>
    by_cases h : n = 0
    · subst h; rw [bitsMSB_zero, binBody_zero]; rfl
    · rw [bitsMSB_pos h, binBody_pos h, List.foldl_append, ih (n / 2) (by omega)]
      by_cases hb : n % 2 = 1 <;> simp [binStep, hb]

theorem intoBinary_eq (n : Nat) : intoBinary n = abs (abs (abs (Dec.binBody n))) := by
  have := foldl_bits n
  unfold binStep at this
  simp only [intoBinary, this]

theorem binBody_closed (n : Nat) : closedAt 3 (Dec.binBody n) = true := by
  induction n using Nat.strongRecOn with
  | _ n ih =>
    by_cases h : n = 0
    · subst h; rw [binBody_zero]; rfl
    · rw [binBody_pos h]
      by_cases hb : n % 2 = 1 <;> simp [closedAt, hb, ih (n / 2) (by omega)]

theorem binBody_normal (n : Nat) : isNormal (Dec.binBody n) = true := by
  induction n using Nat.strongRecOn with
  | _ n ih =>
    by_cases h : n = 0
    · subst h; rw [binBody_zero]; rfl
    · rw [binBody_pos h]
      by_cases hb : n % 2 = 1 <;> simp [isNormal, isAbs, hb, ih (n / 2) (by omega)]

theorem binValue_body (n : Nat) : Dec.binValue (Dec.binBody n) = some n := by
  induction n using Nat.strongRecOn with
  | _ n ih =>
    by_cases h : n = 0
    · subst h; rw [binBody_zero]; rfl
    · rw [binBody_pos h]
      by_cases hb : n % 2 = 1
      · simp only [hb, if_true, Dec.binValue, ih (n / 2) (by omega)]
        congr 1; omega
      · obtain ⟨v, hv⟩ : ∃ v, n / 2 = v + 1 := ⟨n / 2 - 1, by omega⟩
        have this : Dec.binValue (Dec.binBody (n / 2)) = some (v + 1) := by
          rw [ih (n / 2) (by omega), hv]
        simp only [hb, if_false, Dec.binValue, this]
        congr 1; omega

/-- `bitsMSB n` is the binary expansion of `n`, most significant digit first -/
theorem bitsMSB_value (n : Nat) :
    (bitsMSB n).foldl (fun acc b => 2 * acc + (if b then 1 else 0)) 0 = n := by
  induction n using Nat.strongRecOn with
  | _ n ih =>
    by_cases h : n = 0
    · subst h; rw [bitsMSB_zero]; rfl
    · rw [bitsMSB_pos h, List.foldl_append, ih (n / 2) (by omega)]
      by_cases hb : n % 2 = 1 <;> simp [hb] <;> omega

/-- no leading zero -/
theorem bitsMSB_head {n : Nat} (h : n ≠ 0) : (bitsMSB n).head? = some true := by
  induction n using Nat.strongRecOn with
  | _ n ih =>
    rw [bitsMSB_pos h]
    by_cases h2 : n / 2 = 0
    · have h1 : n % 2 = 1 := by omega
      rw [h2, bitsMSB_zero]; simp [h1]
    · have := ih (n / 2) (by omega) h2
      rw [List.head?_append, this]; rfl


/-! ### the decoders accept only the canonical terms -/

theorem churchCount_inv (b : Term) (n : Nat) (h : Dec.churchCount b = some n) : b = churchBody n := by
  fun_induction Dec.churchCount b generalizing n <;> simp_all
  all_goals (subst h; rfl)

theorem decodeChurch_inv (t : Term) (n : Nat) (h : Dec.decodeChurch t = some n) : t = intoChurch n := by
  unfold Dec.decodeChurch at h
  split at h
  · rw [churchCount_inv _ _ h]; rfl
  · cases h

theorem decodeScott_inv (t : Term) (n : Nat) (h : Dec.decodeScott t = some n) : t = intoScott n := by
  fun_induction Dec.decodeScott t generalizing n <;> simp_all
  all_goals (subst h; rfl)

theorem decodeParigot_inv (t : Term) (n : Nat) (h : Dec.decodeParigot t = some n) :
    t = intoParigot n := by
  fun_induction Dec.decodeParigot t generalizing n <;> simp_all
  · subst h; rfl
  · rename_i b k _ ih
    subst h
    simp only [intoParigot]
    rw [← ih]; rfl

theorem decodeStumpFu_inv (t : Term) (n : Nat) (h : Dec.decodeStumpFu t = some n) :
    t = intoStumpFu n := by
  fun_induction Dec.decodeStumpFu t generalizing n <;> simp_all
  · subst h; rfl
  · rename_i p b k _ hc _
    subst h
    rw [decodeChurch_inv _ _ hc]; rfl

theorem binValue_inv (b : Term) (n : Nat) (h : Dec.binValue b = some n) : b = Dec.binBody n := by
  fun_induction Dec.binValue b generalizing n <;> simp_all
  · subst h; rw [binBody_zero]
  · rename_i k _ _
    subst h
    have h1 : (2 * k + 1) % 2 = 1 := by omega
    have h2 : (2 * k + 1) / 2 = k := by omega
    rw [binBody_pos (n := 2 * k + 1) (by omega), h1, h2]; rfl
  · rename_i v _ _
    subst h
    have h1 : ¬ (2 * (v + 1)) % 2 = 1 := by omega
    have h2 : (2 * (v + 1)) / 2 = v + 1 := by omega
    rw [binBody_pos (n := 2 * (v + 1)) (by omega), if_neg h1, h2]

theorem decodeBinary_inv (t : Term) (n : Nat) (h : Dec.decodeBinary t = some n) :
    t = intoBinary n := by
  unfold Dec.decodeBinary at h
  split at h
  · rw [binValue_inv _ _ h, intoBinary_eq]
  · cases h


/-! ### no placeholder index -/

theorem hfv_of_closed_noUD {t : Term} {d : Nat} (hc : closedAt d t = true) (hu : hasUD t = false) :
    hasFreeVariablesHelper d t = false := by
  induction t generalizing d with
  | var i => simp [closedAt, hasUD, hasFreeVariablesHelper] at *; omega
  | abs b ih => simp only [closedAt, hasUD, hasFreeVariablesHelper] at *; exact ih hc hu
  | app l r ihl ihr =>
    simp only [closedAt, hasUD, hasFreeVariablesHelper, Bool.and_eq_true, Bool.or_eq_false_iff] at *
    exact ⟨ihl hc.1 hu.1, ihr hc.2 hu.2⟩

theorem churchBody_noUD (n : Nat) : hasUD (churchBody n) = false := by
  induction n with
  | zero => rfl
  | succ n ih => simp [churchBody, hasUD, ih]

theorem scott_noUD (n : Nat) : hasUD (intoScott n) = false := by
  induction n with
  | zero => rfl
  | succ n ih => simp [intoScott, hasUD, ih]

theorem parigot_noUD (n : Nat) : hasUD (intoParigot n) = false := by
  induction n with
  | zero => rfl
  | succ n ih =>
    have hb : hasUD (unabs2 (intoParigot n)) = false := by
      rw [parigot_unabs2 n] at ih; simpa [hasUD] using ih
    simp [intoParigot, hasUD, ih, hb]

theorem stumpfu_noUD (n : Nat) : hasUD (intoStumpFu n) = false := by
  induction n with
  | zero => rfl
  | succ n ih =>
    have hc := churchBody_noUD (n + 1)
    simp [intoStumpFu, intoChurch, hasUD, ih, hc]

theorem binBody_noUD (n : Nat) : hasUD (Dec.binBody n) = false := by
  induction n using Nat.strongRecOn with
  | _ n ih =>
    by_cases h : n = 0
    · subst h; rw [binBody_zero]; rfl
    · rw [binBody_pos h]
      by_cases hb : n % 2 = 1 <;> simp [hasUD, hb, ih (n / 2) (by omega)]

theorem num_noUD (e : Encoding) (n : Nat) : hasUD (intoNum e n) = false := by
  cases e
  · simp [intoNum, intoChurch, hasUD, churchBody_noUD]
  · exact scott_noUD n
  · exact parigot_noUD n
  · exact stumpfu_noUD n
  · simp [intoNum, intoBinary_eq, hasUD, binBody_noUD]


/-! ### lists -/

theorem pairList_closed (ts : List Term) (h : ∀ t ∈ ts, closedAt 0 t = true) (d : Nat) :
    closedAt d (pairList ts) = true := by
  induction ts generalizing d with
  | nil => simp [pairList, closedAt]
  | cons t ts ih =>
    have ht := closed_up (d + 1) (h t (by simp))
    have := ih (fun u hu => h u (by simp [hu])) (d + 1)
    simp [pairList, closedAt, ht, this]

theorem pairList_normal (ts : List Term) (h : ∀ t ∈ ts, isNormal t = true) :
    isNormal (pairList ts) = true := by
  induction ts with
  | nil => rfl
  | cons t ts ih =>
    have ht := h t (by simp)
    have := ih (fun u hu => h u (by simp [hu]))
    simp [pairList, isNormal, isAbs, ht, this]

theorem pairList_decode (ts : List Term) : Dec.decodePairList (pairList ts) = some ts := by
  induction ts with
  | nil => rfl
  | cons t ts ih => simp [pairList, Dec.decodePairList, ih]

theorem churchListBody_closed (ts : List Term) (h : ∀ t ∈ ts, closedAt 0 t = true) :
    closedAt 2 (churchListBody ts) = true := by
  induction ts with
  | nil => rfl
  | cons t ts ih =>
    have ht := closed_up 2 (h t (by simp))
    have := ih (fun u hu => h u (by simp [hu]))
    simp [churchListBody, closedAt, ht, this]

theorem churchListBody_normal (ts : List Term) (h : ∀ t ∈ ts, isNormal t = true) :
    isNormal (churchListBody ts) = true := by
  induction ts with
  | nil => rfl
  | cons t ts ih =>
    have ht := h t (by simp)
    have := ih (fun u hu => h u (by simp [hu]))
    simp [churchListBody, isNormal, isAbs, ht, this]

theorem churchListBody_decode (ts : List Term) :
    Dec.churchListElems (churchListBody ts) = some ts := by
  induction ts with
  | nil => rfl
  | cons t ts ih => simp [churchListBody, Dec.churchListElems, ih]

theorem scottList_closed (ts : List Term) (h : ∀ t ∈ ts, closedAt 0 t = true) (d : Nat) :
    closedAt d (scottList ts) = true := by
  induction ts generalizing d with
  | nil => simp [scottList, closedAt]
  | cons t ts ih =>
    have ht := closed_up (d + 1 + 1) (h t (by simp))
    have := ih (fun u hu => h u (by simp [hu])) (d + 1 + 1)
    simp [scottList, closedAt, ht, this]

theorem scottList_normal (ts : List Term) (h : ∀ t ∈ ts, isNormal t = true) :
    isNormal (scottList ts) = true := by
  induction ts with
  | nil => rfl
  | cons t ts ih =>
    have ht := h t (by simp)
    have := ih (fun u hu => h u (by simp [hu]))
    simp [scottList, isNormal, isAbs, ht, this]

theorem scottList_decode (ts : List Term) : Dec.decodeScottList (scottList ts) = some ts := by
  induction ts with
  | nil => rfl
  | cons t ts ih => simp [scottList, Dec.decodeScottList, ih]

theorem parigotList_shape (ts : List Term) : ∃ b, parigotList ts = abs (abs b) := by
  cases ts with
  | nil => exact ⟨_, rfl⟩
  | cons t ts => exact ⟨_, rfl⟩

theorem parigotList_unabs2 (ts : List Term) :
    parigotList ts = abs (abs (unabs2 (parigotList ts))) := by
  obtain ⟨b, hb⟩ := parigotList_shape ts
  rw [hb]; rfl

theorem parigotList_closed (ts : List Term) (h : ∀ t ∈ ts, closedAt 0 t = true) :
    closedAt 0 (parigotList ts) = true := by
  induction ts with
  | nil => rfl
  | cons t ts ih =>
    have ht := closed_up 2 (h t (by simp))
    have ih := ih (fun u hu => h u (by simp [hu]))
    have h2 : closedAt 2 (parigotList ts) = true := closed_up 2 ih
    have hb : closedAt 2 (unabs2 (parigotList ts)) = true := by
      rw [parigotList_unabs2 ts] at ih; simpa [closedAt] using ih
    simp [parigotList, closedAt, ht, h2, hb]

theorem parigotList_normal (ts : List Term) (h : ∀ t ∈ ts, isNormal t = true) :
    isNormal (parigotList ts) = true := by
  induction ts with
  | nil => rfl
  | cons t ts ih =>
    have ht := h t (by simp)
    have ih := ih (fun u hu => h u (by simp [hu]))
    have hb : isNormal (unabs2 (parigotList ts)) = true := by
      rw [parigotList_unabs2 ts] at ih; simpa [isNormal] using ih
    simp [parigotList, isNormal, isAbs, ht, ih, hb]

theorem parigotList_decode (ts : List Term) :
    Dec.decodeParigotList (parigotList ts) = some ts := by
  induction ts with
  | nil => rfl
  | cons t ts ih =>
    have hs := parigotList_unabs2 ts
    simp only [parigotList, Dec.decodeParigotList, ih]
    rw [if_pos hs]

theorem decodeAll_map (dec : Term → Option Nat) (f : Nat → Term) (hf : ∀ n, dec (f n) = some n)
    (ns : List Nat) : Dec.decodeAll dec (ns.map f) = some ns := by
  induction ns with
  | nil => rfl
  | cons n ns ih => simp [Dec.decodeAll, hf, ih]

end C12

/-! ## numerals -/

/-! ### Church -/

theorem C12_closed_church (n : Nat) : closedAt 0 (intoChurch n) = true := by
  simp [intoChurch, closedAt, C12.churchBody_closed]

theorem C12_normal_church (n : Nat) : isNormal (intoChurch n) = true := by
  simp [intoChurch, isNormal, C12.churchBody_normal]

theorem C12_decode_church (n : Nat) : Dec.decodeChurch (intoChurch n) = some n :=
  C12.church_decode n

theorem C12_injective_church (m n : Nat) (h : intoChurch m = intoChurch n) : m = n := by
  have := C12_decode_church m
  rw [h, C12_decode_church n] at this
  exact (Option.some.inj this).symm

theorem C12_zero_one_church : intoChurch 0 = Gen.Church.zero ∧ intoChurch 1 = Gen.Church.one := by
  decide

/-- documented shape `λ λ 2 (2 (… 1))` with `n` occurrences of `2` -/
theorem C12_shape_church (n : Nat) :
    intoChurch n = abs (abs (Dec.iterApp (var 2) n (var 1))) := by
  simp [intoChurch, C12.churchBody_eq]

/-! ### Scott -/

theorem C12_closed_scott (n : Nat) : closedAt 0 (intoScott n) = true := C12.scott_closed n 0

theorem C12_normal_scott (n : Nat) : isNormal (intoScott n) = true := C12.scott_normal n

theorem C12_decode_scott (n : Nat) : Dec.decodeScott (intoScott n) = some n := C12.scott_decode n

theorem C12_injective_scott (m n : Nat) (h : intoScott m = intoScott n) : m = n := by
  have := C12_decode_scott m
  rw [h, C12_decode_scott n] at this
  exact (Option.some.inj this).symm

theorem C12_zero_one_scott : intoScott 0 = Gen.Scott.zero ∧ intoScott 1 = Gen.Scott.one := by
  decide

/-- documented shape: `0 ≡ λ λ 2`, `n+1 ≡ λ λ 1 n` -/
theorem C12_shape_scott :
    intoScott 0 = abs (abs (var 2)) ∧
    ∀ n, intoScott (n + 1) = abs (abs (app (var 1) (intoScott n))) :=
  ⟨rfl, fun _ => rfl⟩

/-! ### Parigot -/

theorem C12_closed_parigot (n : Nat) : closedAt 0 (intoParigot n) = true := C12.parigot_closed n

theorem C12_normal_parigot (n : Nat) : isNormal (intoParigot n) = true := C12.parigot_normal n

theorem C12_decode_parigot (n : Nat) : Dec.decodeParigot (intoParigot n) = some n :=
  C12.parigot_decode n

theorem C12_injective_parigot (m n : Nat) (h : intoParigot m = intoParigot n) : m = n := by
  have := C12_decode_parigot m
  rw [h, C12_decode_parigot n] at this
  exact (Option.some.inj this).symm

theorem C12_zero_one_parigot :
    intoParigot 0 = Gen.Parigot.zero ∧ intoParigot 1 = Gen.Parigot.one := by
  decide

/-- every Parigot numeral starts with two abstractions, so the `unwrap` in `into_parigot`
(`unabs2` in the model) never takes its fall-through -/
theorem C12_parigot_unabs (n : Nat) : ∃ b, intoParigot n = abs (abs b) := C12.parigot_shape n

/-- documented shape: `0 ≡ λ λ 1`, `n+1 ≡ λ λ 2 n b` where `n ≡ λ λ b` -/
theorem C12_shape_parigot :
    intoParigot 0 = abs (abs (var 1)) ∧
    ∀ n, ∃ b, intoParigot n = abs (abs b) ∧
      intoParigot (n + 1) = abs (abs (app (app (var 2) (intoParigot n)) b)) := by
  refine ⟨rfl, fun n => ?_⟩
  obtain ⟨b, hb⟩ := C12.parigot_shape n
  refine ⟨b, hb, ?_⟩
  simp only [intoParigot]
  rw [hb]; rfl

/-! ### Stump-Fu -/

theorem C12_closed_stumpfu (n : Nat) : closedAt 0 (intoStumpFu n) = true := C12.stumpfu_closed n 0

theorem C12_normal_stumpfu (n : Nat) : isNormal (intoStumpFu n) = true := C12.stumpfu_normal n

theorem C12_decode_stumpfu (n : Nat) : Dec.decodeStumpFu (intoStumpFu n) = some n :=
  C12.stumpfu_decode n

theorem C12_injective_stumpfu (m n : Nat) (h : intoStumpFu m = intoStumpFu n) : m = n := by
  have := C12_decode_stumpfu m
  rw [h, C12_decode_stumpfu n] at this
  exact (Option.some.inj this).symm

theorem C12_zero_one_stumpfu :
    intoStumpFu 0 = Gen.StumpFu.zero ∧ intoStumpFu 1 = Gen.StumpFu.one := by
  decide

/-- documented shape: `0 ≡ λ λ 1`, `n+1 ≡ λ λ 2 (church (n+1)) n`, the Church numeral in its own
documented closed form -/
theorem C12_shape_stumpfu :
    intoStumpFu 0 = abs (abs (var 1)) ∧
    ∀ n, intoStumpFu (n + 1) =
      abs (abs (app (app (var 2) (abs (abs (Dec.iterApp (var 2) (n + 1) (var 1))))) (intoStumpFu n))) := by
  refine ⟨rfl, fun n => ?_⟩
  rw [← C12_shape_church]; rfl

/-! ### binary -/

/-- documented shape: `λ λ λ b₀ (b₁ (… 3))`, least significant bit outermost -/
theorem C12_shape_binary (n : Nat) : intoBinary n = abs (abs (abs (Dec.binBody n))) :=
  C12.intoBinary_eq n

theorem C12_closed_binary (n : Nat) : closedAt 0 (intoBinary n) = true := by
  rw [C12_shape_binary]; simp [closedAt, C12.binBody_closed]

theorem C12_normal_binary (n : Nat) : isNormal (intoBinary n) = true := by
  rw [C12_shape_binary]; simp [isNormal, C12.binBody_normal]

theorem C12_decode_binary (n : Nat) : Dec.decodeBinary (intoBinary n) = some n := by
  rw [C12_shape_binary]; simp [Dec.decodeBinary, C12.binValue_body]

theorem C12_injective_binary (m n : Nat) (h : intoBinary m = intoBinary n) : m = n := by
  have := C12_decode_binary m
  rw [h, C12_decode_binary n] at this
  exact (Option.some.inj this).symm

theorem C12_zero_one_binary : intoBinary 0 = Gen.Binary.zero ∧ intoBinary 1 = Gen.Binary.one := by
  simp [C12_shape_binary, C12.binBody_pos, C12.binBody_zero, Gen.Binary.zero, Gen.Binary.one]

/-- `bitsMSB n` (the model of `format!("{:b}", n)`) is the binary expansion of `n` -/
theorem C12_bits_value (n : Nat) :
    (bitsMSB n).foldl (fun acc b => 2 * acc + (if b then 1 else 0)) 0 = n :=
  C12.bitsMSB_value n

/-- … without a leading zero -/
theorem C12_bits_head (n : Nat) (h : n ≠ 0) : (bitsMSB n).head? = some true :=
  C12.bitsMSB_head h

/-! ### all encodings at once -/

theorem C12_closed_num (e : Encoding) (n : Nat) : closedAt 0 (intoNum e n) = true := by
  cases e
  · exact C12_closed_church n
  · exact C12_closed_scott n
  · exact C12_closed_parigot n
  · exact C12_closed_stumpfu n
  · exact C12_closed_binary n

theorem C12_normal_num (e : Encoding) (n : Nat) : isNormal (intoNum e n) = true := by
  cases e
  · exact C12_normal_church n
  · exact C12_normal_scott n
  · exact C12_normal_parigot n
  · exact C12_normal_stumpfu n
  · exact C12_normal_binary n

theorem C12_decode_num (e : Encoding) (n : Nat) : Dec.decodeNum e (intoNum e n) = some n := by
  cases e
  · exact C12_decode_church n
  · exact C12_decode_scott n
  · exact C12_decode_parigot n
  · exact C12_decode_stumpfu n
  · exact C12_decode_binary n

/-- the decoders accept exactly one term per number: `decodeE t = some n` holds ONLY for the
term produced by the constructor (so the decoders really are shape checks) -/
theorem C12_canonical_church (t : Term) (n : Nat) : Dec.decodeChurch t = some n ↔ t = intoChurch n :=
  ⟨C12.decodeChurch_inv t n, fun h => h ▸ C12_decode_church n⟩

theorem C12_canonical_scott (t : Term) (n : Nat) : Dec.decodeScott t = some n ↔ t = intoScott n :=
  ⟨C12.decodeScott_inv t n, fun h => h ▸ C12_decode_scott n⟩

theorem C12_canonical_parigot (t : Term) (n : Nat) :
    Dec.decodeParigot t = some n ↔ t = intoParigot n :=
  ⟨C12.decodeParigot_inv t n, fun h => h ▸ C12_decode_parigot n⟩

theorem C12_canonical_stumpfu (t : Term) (n : Nat) :
    Dec.decodeStumpFu t = some n ↔ t = intoStumpFu n :=
  ⟨C12.decodeStumpFu_inv t n, fun h => h ▸ C12_decode_stumpfu n⟩

theorem C12_canonical_binary (t : Term) (n : Nat) : Dec.decodeBinary t = some n ↔ t = intoBinary n :=
  ⟨C12.decodeBinary_inv t n, fun h => h ▸ C12_decode_binary n⟩

/-- closedness in the strict sense of the crate's own predicate `has_free_variables` (which also
flags the placeholder index `0`): no numeral has free variables -/
theorem C12_no_free_variables (e : Encoding) (n : Nat) :
    hasFreeVariables (intoNum e n) = false :=
  C12.hfv_of_closed_noUD (C12_closed_num e n) (C12.num_noUD e n)

/-! ## containers -/

/-- pairs: `(a, b).into_E()` is the documented pair `λ 1 a b` (= `tuple!(a, b)`) -/
theorem C12_pair (a b : Term) :
    fromPair a b = tuple2 a b ∧
    (closedAt 0 a = true → closedAt 0 b = true → closedAt 0 (fromPair a b) = true) ∧
    (isNormal a = true → isNormal b = true → isNormal (fromPair a b) = true) := by
  refine ⟨rfl, fun ha hb => ?_, fun ha hb => ?_⟩
  · simp [fromPair, closedAt, C12.closed_up 1 ha, C12.closed_up 1 hb]
  · simp [fromPair, isNormal, isAbs, ha, hb]

theorem C12_pair_decode (a b : Term) : Dec.decodePair (fromPair a b) = some (a, b) := rfl

theorem C12_option_none : fromOption none = Gen.Opt.none := by decide

/-- `Some(v)` is `λ λ 1 v`, closed / normal when the payload is, and decodes to the payload -/
theorem C12_option_some (v : Term) :
    fromOption (some v) = abs (abs (app (var 1) v)) ∧
    (closedAt 0 v = true → closedAt 0 (fromOption (some v)) = true) ∧
    (isNormal v = true → isNormal (fromOption (some v)) = true) ∧
    Dec.decodeOption (fromOption (some v)) = some (some v) := by
  refine ⟨rfl, fun hv => ?_, fun hv => ?_, rfl⟩
  · simp [fromOption, closedAt, C12.closed_up 2 hv]
  · simp [fromOption, isNormal, isAbs, hv]

theorem C12_option_none_decode : Dec.decodeOption (fromOption none) = some none := rfl

/-- `Ok(v)` is `λ λ 2 v`, `Err(e)` is `λ λ 1 e`; closed / normal when the payload is; decodable -/
theorem C12_result (v : Term) :
    fromResult (.ok v) = abs (abs (app (var 2) v)) ∧
    fromResult (.error v) = abs (abs (app (var 1) v)) ∧
    (closedAt 0 v = true →
      closedAt 0 (fromResult (.ok v)) = true ∧ closedAt 0 (fromResult (.error v)) = true) ∧
    (isNormal v = true →
      isNormal (fromResult (.ok v)) = true ∧ isNormal (fromResult (.error v)) = true) ∧
    Dec.decodeResult (fromResult (.ok v)) = some (.ok v) ∧
    Dec.decodeResult (fromResult (.error v)) = some (.error v) := by
  refine ⟨rfl, rfl, fun hv => ?_, fun hv => ?_, rfl, rfl⟩
  · simp [fromResult, closedAt, C12.closed_up 2 hv]
  · simp [fromResult, isNormal, isAbs, hv]

theorem C12_bool : fromBool true = Gen.Bool.tru ∧ fromBool false = Gen.Bool.fls := by decide

/-- pairs, options and results OF NUMBERS (`(m, n).into_E()`, `Some(n).into_E()`, `Ok(n).into_E()`,
`Err(n).into_E()`): closed, normal, and decodable back to the numbers -/
theorem C12_containers_num (e : Encoding) (m n : Nat) :
    (closedAt 0 (fromPair (intoNum e m) (intoNum e n)) = true ∧
      isNormal (fromPair (intoNum e m) (intoNum e n)) = true ∧
      (Dec.decodePair (fromPair (intoNum e m) (intoNum e n))).bind
        (fun p => (Dec.decodeNum e p.1).bind fun a => (Dec.decodeNum e p.2).map fun b => (a, b))
        = some (m, n)) ∧
    (closedAt 0 (fromOption (some (intoNum e n))) = true ∧
      isNormal (fromOption (some (intoNum e n))) = true ∧
      (Dec.decodeOption (fromOption (some (intoNum e n)))).bind
        (fun o => o.bind (Dec.decodeNum e)) = some n) ∧
    (closedAt 0 (fromResult (.ok (intoNum e n))) = true ∧
      isNormal (fromResult (.ok (intoNum e n))) = true ∧
      closedAt 0 (fromResult (.error (intoNum e n))) = true ∧
      isNormal (fromResult (.error (intoNum e n))) = true) := by
  have hc := C12_closed_num e
  have hn := C12_normal_num e
  refine ⟨⟨(C12_pair _ _).2.1 (hc m) (hc n), (C12_pair _ _).2.2 (hn m) (hn n), ?_⟩,
    ⟨(C12_option_some _).2.1 (hc n), (C12_option_some _).2.2.1 (hn n), ?_⟩,
    ((C12_result _).2.2.1 (hc n)).1, ((C12_result _).2.2.2.1 (hn n)).1,
    ((C12_result _).2.2.1 (hc n)).2, ((C12_result _).2.2.2.1 (hn n)).2⟩
  · simp [C12_pair_decode, C12_decode_num]
  · simp [(C12_option_some _).2.2.2, C12_decode_num]

/-! ### signed numbers -/

set_option linter.unusedVariables false in
/-- a signed value is the pair `(n, zero)` or `(zero, n)` of numerals of the selected encoding -/
theorem C12_signed (e : Encoding) (he : e ≠ .Binary) (i : Int) :
    intoSigned e i =
      if i > 0 then tuple2 (intoNum e i.natAbs) (intoNum e 0)
      else tuple2 (intoNum e 0) (intoNum e i.natAbs) := rfl

/-- the zero component is the `zero()` constant of the SAME encoding -/
theorem C12_signed_zero_component :
    intoNum .Church 0 = Gen.Church.zero ∧ intoNum .Scott 0 = Gen.Scott.zero ∧
    intoNum .Parigot 0 = Gen.Parigot.zero ∧ intoNum .StumpFu 0 = Gen.StumpFu.zero := by
  decide

set_option linter.unusedVariables false in
/-- the pair decodes, component by component with the decoder of the selected encoding, to `i` -/
theorem C12_signed_decode (e : Encoding) (he : e ≠ .Binary) (i : Int) :
    Dec.decodeSigned e (intoSigned e i) = some i := by
  rw [C12_signed e he i]
  by_cases hi : i > 0
  · simp only [hi, if_true, Dec.decodeSigned, Dec.decodeSignedWith, tuple2, Dec.decodePair,
      C12_decode_num]
    congr 1; omega
  · simp only [hi, if_false, Dec.decodeSigned, Dec.decodeSignedWith, tuple2, Dec.decodePair,
      C12_decode_num]
    congr 1; omega

/-- signed numbers are closed and normal -/
theorem C12_signed_closed_normal (e : Encoding) (i : Int) :
    closedAt 0 (intoSigned e i) = true ∧ isNormal (intoSigned e i) = true := by
  have hc := fun n => C12.closed_up 1 (C12_closed_num e n)
  have hn := C12_normal_num e
  simp only [intoSigned]
  split <;> simp [tuple2, closedAt, isNormal, isAbs, hc, hn]


/-- the refusal the crate documents ("signed binary numbers are not supported"): `into_signed` panics exactly for `Binary`
and is `intoSigned` — the function all the theorems above are about — on every supported encoding.  (The model function
`intoSigned` is total; this is the statement that nothing was proved "for the wrong reason" on the rejected input: the
driver answers `signed` operations with `intoSignedChecked`, and `signed binary i` is compared with the crate's panic.) -/
theorem C12_signed_refuses_exactly_binary (e : Encoding) (i : Int) :
    (intoSignedChecked e i = none ↔ e = .Binary) ∧
    (e ≠ .Binary → intoSignedChecked e i = some (intoSigned e i)) := by
  cases e <;> simp [intoSignedChecked]

example : intoSignedChecked .Binary 3 = none ∧ intoSignedChecked .Scott (-1) = some (intoSigned .Scott (-1)) := by
  decide

/-! ### lists -/

/-- the empty list of each list encoding is the module's `nil()` constant -/
theorem C12_lists_nil :
    pairList [] = Gen.PList.nil ∧ churchList [] = Gen.CList.nil ∧
    scottList [] = Gen.SList.nil ∧ parigotList [] = Gen.GList.nil := by
  decide

/-- lists of closed elements are closed (elements are inserted verbatim under the binders of the
list structure, which is harmless exactly because they are closed) -/
theorem C12_lists_closed (ts : List Term) (h : ∀ t ∈ ts, closedAt 0 t = true) :
    closedAt 0 (pairList ts) = true ∧ closedAt 0 (churchList ts) = true ∧
    closedAt 0 (scottList ts) = true ∧ closedAt 0 (parigotList ts) = true :=
  ⟨C12.pairList_closed ts h 0, by simp [churchList, closedAt, C12.churchListBody_closed ts h],
   C12.scottList_closed ts h 0, C12.parigotList_closed ts h⟩

/-- lists of normal elements are normal -/
theorem C12_lists_normal (ts : List Term) (h : ∀ t ∈ ts, isNormal t = true) :
    isNormal (pairList ts) = true ∧ isNormal (churchList ts) = true ∧
    isNormal (scottList ts) = true ∧ isNormal (parigotList ts) = true :=
  ⟨C12.pairList_normal ts h, by simp [churchList, isNormal, C12.churchListBody_normal ts h],
   C12.scottList_normal ts h, C12.parigotList_normal ts h⟩

/-- the independent decoders return the element list (for arbitrary elements, in particular for
closed normal ones) -/
theorem C12_lists_decode (ts : List Term) :
    Dec.decodePairList (pairList ts) = some ts ∧ Dec.decodeChurchList (churchList ts) = some ts ∧
    Dec.decodeScottList (scottList ts) = some ts ∧
    Dec.decodeParigotList (parigotList ts) = some ts :=
  ⟨C12.pairList_decode ts, by simp [churchList, Dec.decodeChurchList, C12.churchListBody_decode],
   C12.scottList_decode ts, C12.parigotList_decode ts⟩

/-- every Parigot list starts with two abstractions: the `unwrap` in `Vec::into_parigot` never fails -/
theorem C12_parigotList_unabs (ts : List Term) : ∃ b, parigotList ts = abs (abs b) :=
  C12.parigotList_shape ts

/-- documented shapes of the list encodings -/
theorem C12_lists_shape (t : Term) (ts : List Term) :
    pairList (t :: ts) = tuple2 t (pairList ts) ∧
    churchList (t :: ts) = abs (abs (app (app (var 1) t) (churchListBody ts))) ∧
    churchList ts = abs (abs (churchListBody ts)) ∧
    scottList (t :: ts) = abs (abs (app (app (var 1) t) (scottList ts))) ∧
    (∃ b, parigotList ts = abs (abs b) ∧
      parigotList (t :: ts) = abs (abs (app (app (app (var 1) t) (parigotList ts)) b))) := by
  refine ⟨rfl, rfl, rfl, rfl, ?_⟩
  obtain ⟨b, hb⟩ := C12.parigotList_shape ts
  refine ⟨b, hb, ?_⟩
  simp only [parigotList]
  rw [hb]; rfl

/-- vectors of numbers (`Vec<usize>::into_church/into_scott/into_parigot`: the list of the numerals
of the same encoding): closed, normal, and decodable back to the numbers -/
theorem C12_vectors (ns : List Nat) :
    (closedAt 0 (churchList (ns.map intoChurch)) = true ∧
      isNormal (churchList (ns.map intoChurch)) = true ∧
      (Dec.decodeChurchList (churchList (ns.map intoChurch))).bind (Dec.decodeAll Dec.decodeChurch)
        = some ns) ∧
    (closedAt 0 (scottList (ns.map intoScott)) = true ∧
      isNormal (scottList (ns.map intoScott)) = true ∧
      (Dec.decodeScottList (scottList (ns.map intoScott))).bind (Dec.decodeAll Dec.decodeScott)
        = some ns) ∧
    (closedAt 0 (parigotList (ns.map intoParigot)) = true ∧
      isNormal (parigotList (ns.map intoParigot)) = true ∧
      (Dec.decodeParigotList (parigotList (ns.map intoParigot))).bind
        (Dec.decodeAll Dec.decodeParigot) = some ns) := by
  have hcl : ∀ (f : Nat → Term), (∀ n, closedAt 0 (f n) = true) →
      ∀ t ∈ ns.map f, closedAt 0 t = true := by
    intro f hf t ht
    obtain ⟨n, _, rfl⟩ := List.mem_map.mp ht
    exact hf n
  have hnf : ∀ (f : Nat → Term), (∀ n, isNormal (f n) = true) →
      ∀ t ∈ ns.map f, isNormal t = true := by
    intro f hf t ht
    obtain ⟨n, _, rfl⟩ := List.mem_map.mp ht
    exact hf n
  refine ⟨⟨(C12_lists_closed _ (hcl _ C12_closed_church)).2.1,
      (C12_lists_normal _ (hnf _ C12_normal_church)).2.1, ?_⟩,
    ⟨(C12_lists_closed _ (hcl _ C12_closed_scott)).2.2.1,
      (C12_lists_normal _ (hnf _ C12_normal_scott)).2.2.1, ?_⟩,
    ⟨(C12_lists_closed _ (hcl _ C12_closed_parigot)).2.2.2,
      (C12_lists_normal _ (hnf _ C12_normal_parigot)).2.2.2, ?_⟩⟩
  · rw [(C12_lists_decode _).2.1]
    exact C12.decodeAll_map _ _ C12_decode_church ns
  · rw [(C12_lists_decode _).2.2.1]
    exact C12.decodeAll_map _ _ C12_decode_scott ns
  · rw [(C12_lists_decode _).2.2.2]
    exact C12.decodeAll_map _ _ C12_decode_parigot ns


/-! ## non-vacuity: concrete values -/

example : intoChurch 3 = abs (abs (app (var 2) (app (var 2) (app (var 2) (var 1))))) := by decide
example : intoScott 2 = abs (abs (app (var 1) (abs (abs (app (var 1) (abs (abs (var 2)))))))) := by
  decide
-- Parigot 2 = λλ. 2 ONE (2 ZERO 1): the third component is the body of the predecessor
example : intoParigot 2 =
    abs (abs (app (app (var 2) (abs (abs (app (app (var 2) (abs (abs (var 1)))) (var 1)))))
      (app (app (var 2) (abs (abs (var 1)))) (var 1)))) := by decide
-- Stump-Fu 2 = λλ. 2 (church 2) (stumpfu 1)
example : intoStumpFu 2 =
    abs (abs (app (app (var 2) (abs (abs (app (var 2) (app (var 2) (var 1))))))
      (abs (abs (app (app (var 2) (abs (abs (app (var 2) (var 1))))) (abs (abs (var 1)))))))) := by
  decide
-- 6 = 110₂: least significant bit (zero bit = 2) outermost, most significant (one bit = 1) innermost
example : intoBinary 6 = abs (abs (abs (app (var 2) (app (var 1) (app (var 1) (var 3)))))) := by
  simp [C12_shape_binary, C12.binBody_pos, C12.binBody_zero]
example : bitsMSB 6 = [true, true, false] := by
  simp [C12.bitsMSB_pos, C12.bitsMSB_zero]
example : Dec.decodeBinary (abs (abs (abs (app (var 2) (app (var 1) (app (var 1) (var 3))))))) = some 6 := by
  decide

-- the decoders reject near misses
example : Dec.decodeBinary (abs (abs (abs (app (var 1) (app (var 2) (var 3)))))) = none := by
  decide  -- leading zero ("01")
example : Dec.decodeChurch (abs (abs (app (var 2) (var 2)))) = none := by decide
example : Dec.decodeChurch (abs (app (var 2) (var 1))) = none := by decide
example : Dec.decodeScott (abs (abs (app (var 2) (abs (abs (var 2)))))) = none := by decide
-- Parigot: third component is not the predecessor's body
example : Dec.decodeParigot (abs (abs (app (app (var 2) (abs (abs (var 1)))) (var 2)))) = none := by
  decide
-- Stump-Fu: the Church component must be the successor of the Stump-Fu component
example : Dec.decodeStumpFu
    (abs (abs (app (app (var 2) (abs (abs (app (var 2) (app (var 2) (var 1)))))) (abs (abs (var 1))))))
    = none := by decide

-- signed numbers; the zero is the zero OF THE SAME ENCODING (finding F3: before the repair
-- `1.into_signed(Scott)` was paired with `λλ1`, which is not the Scott zero `λλ2`)
example : intoSigned .Scott 1 =
    abs (app (app (var 1) (abs (abs (app (var 1) (abs (abs (var 2))))))) (abs (abs (var 2)))) := by
  decide
example : intoSigned .Scott 1 = tuple2 Gen.Scott.one Gen.Scott.zero := by decide
example : intoSigned .Scott 1 ≠ tuple2 (intoScott 1) (abs (abs (var 1))) := by decide
example : Dec.decodeSigned .Scott (tuple2 (intoScott 1) (abs (abs (var 1)))) = none := by decide
example : intoSigned .Church (-2) = tuple2 Gen.Church.zero (intoChurch 2) := by decide
example : intoSigned .Parigot 0 = tuple2 Gen.Parigot.zero Gen.Parigot.zero := by decide
example : Dec.decodeSigned .StumpFu (intoSigned .StumpFu (-3)) = some (-3) := by decide

-- containers
example : fromPair (intoChurch 1) (intoChurch 0) = tuple2 Gen.Church.one Gen.Church.zero := by decide
example : fromOption (some (intoChurch 1)) = abs (abs (app (var 1) Gen.Church.one)) := by decide
example : pairList [var 7, var 8] =
    abs (app (app (var 1) (var 7)) (abs (app (app (var 1) (var 8)) (abs (abs (var 1)))))) := by
  decide
example : churchList [intoChurch 0, intoChurch 1] =
    abs (abs (app (app (var 1) Gen.Church.zero) (app (app (var 1) Gen.Church.one) (var 2)))) := by
  decide
example : Dec.decodeParigotList (parigotList [intoParigot 1, intoParigot 0]) =
    some [Gen.Parigot.one, Gen.Parigot.zero] := by decide
example : (Dec.decodeScottList (scottList ([2, 0, 1].map intoScott))).bind
    (Dec.decodeAll Dec.decodeScott) = some [2, 0, 1] := by decide

end LC
