/-
C10, sharpness of the input domain — the restriction "terms WITHOUT UD" of the Display / Classic round trip is
NECESSARY, and what exactly happens outside it.

`Display` prints `UD` as the word `undefined`.  The Classic parser reads that word as an ordinary identifier, a
FREE variable: for EVERY term the Display output parses (`C10_display_parses`), the result never contains `UD`
(`C10_parse_display_noUD`), hence for a term with `UD` it is neither `t` nor `canon t` (`C10_ud_not_roundtrip`):
the round trip `parse (display t) = canon t` holds IFF `t` has no `UD` (`C10_roundtrip_iff`).

More precisely (`C10_ud_reads_as_free_variable`): `undefined` is the bijective base-26 name number
4 499 111 678 181 (`C10_undefined_is_a_name`).  For a term of binder depth ≤ 4 499 111 678 181 (every term that
fits a machine: `max_depth` is a `u32`) the word is the name of the free variable number
`K = 4 499 111 678 182 - max_depth`, so the output of `t` is also the output of the `UD`-free term `fillUD K 0 t`
(each `UD` replaced by that free variable, `C10_ud_display_eq`), and `parse` returns `canon (fillUD K 0 t)`.
So `Display` — injective up to the numbering of free variables on `UD`-free terms (`C10_display_injective`,
`LC/Props/C10.lean`) — is NOT injective on all terms (`C10_display_not_injective_with_ud`).

Hypotheses on the character classification: `C10.ClsOk10`, as in `C10_roundtrip`.
-/
import LC.Props.C10
import LC.Proofs.Syntax.DisplayUD

namespace LC
open Term Parser Display
open Spec (hasUD)
open C10 C10S

/-! ## 1. the word `undefined` is a variable name -/

/-- `undefined` is the name with ordinal 4 499 111 678 181, i.e. the bijective base-26 numeral of
4 499 111 678 182 — and `Display` prints exactly this word for `UD` -/
theorem C10_undefined_is_a_name :
    base26 4499111678181 = str "undefined" ∧ C10.value26 (str "undefined") = 4499111678182 ∧
      ∀ lam M ctx d, showCla lam M (var 0) ctx d = str "undefined" := by
  refine ⟨?_, ?_, fun _ _ _ _ => by simp [showCla]⟩
  · rw [str_undefined]; exact base26_undefined
  · rw [str_undefined]; decide +kernel

/-! ## 2. every Display output parses, and never to a term with `UD` -/

/-- the Display output of ANY term parses in Classic notation: to the standard named → De Bruijn translation
(`Spec.Cl.toDeBruijn`) of the named term that was printed, in which `UD` is the identifier `undefined` -/
theorem C10_display_parses (cls : CharCls) (hc : C10.ClsOk10 cls) (lam : Nat)
    (hl : lam = 955 ∨ lam = 92) (t : Term) :
    parse cls (display lam t) .Classic = .ok (Spec.Cl.toDeBruijn (nameOfU t.maxDepth 0 t)) :=
  parse_display cls hc lam hl t

/-- on `UD`-free terms `nameOfU` is the `C10.nameOf` of the round-trip proof -/
theorem C10_nameOfU_noUD (t : Term) (h : hasUD t = false) :
    nameOfU t.maxDepth 0 t = C10.nameOf t.maxDepth 0 t :=
  nameOfU_eq_nameOf _ t (noUD_of_hasUD_false h) 0

/-- whatever the term, the parse result of its Display output contains no `UD` -/
theorem C10_parse_display_noUD (cls : CharCls) (hc : C10.ClsOk10 cls) (lam : Nat)
    (hl : lam = 955 ∨ lam = 92) (t u : Term) (h : parse cls (display lam t) .Classic = .ok u) :
    hasUD u = false := by
  rw [C10_display_parses cls hc lam hl t] at h
  rw [← Outcome.ok.inj h]
  exact toDeBruijn_noUD _

/-- `canon` keeps `UD` -/
theorem C10_canon_hasUD (t : Term) : hasUD (canon t) = hasUD t := hasUD_canon t

/-- C10, sharpness: for a term containing `UD` the Display output parses, but the result has no `UD`; it is
neither `t` nor `canon t` -/
theorem C10_ud_not_roundtrip (cls : CharCls) (hc : C10.ClsOk10 cls) (lam : Nat)
    (hl : lam = 955 ∨ lam = 92) (t : Term) (ht : hasUD t = true) :
    ∃ u, parse cls (display lam t) .Classic = .ok u ∧ hasUD u = false ∧ u ≠ t ∧ u ≠ canon t := by
  refine ⟨_, C10_display_parses cls hc lam hl t, toDeBruijn_noUD _, ?_, ?_⟩
  · intro he
    have := toDeBruijn_noUD (nameOfU t.maxDepth 0 t)
    rw [he, ht] at this
    exact absurd this (by decide)
  · intro he
    have := toDeBruijn_noUD (nameOfU t.maxDepth 0 t)
    rw [he, hasUD_canon, ht] at this
    exact absurd this (by decide)

/-- the same, in the form "whatever `parse` returns" -/
theorem C10_ud_not_roundtrip' (cls : CharCls) (hc : C10.ClsOk10 cls) (lam : Nat)
    (hl : lam = 955 ∨ lam = 92) (t u : Term) (ht : hasUD t = true)
    (h : parse cls (display lam t) .Classic = .ok u) :
    hasUD u = false ∧ u ≠ t ∧ u ≠ canon t := by
  obtain ⟨u', hp, h1, h2, h3⟩ := C10_ud_not_roundtrip cls hc lam hl t ht
  rw [hp] at h
  rw [← Outcome.ok.inj h]
  exact ⟨h1, h2, h3⟩

/-- C10, both directions: parsing the Display output yields the canonical renumbering IFF the term has no `UD` -/
theorem C10_roundtrip_iff (cls : CharCls) (hc : C10.ClsOk10 cls) (lam : Nat)
    (hl : lam = 955 ∨ lam = 92) (t : Term) :
    parse cls (display lam t) .Classic = .ok (canon t) ↔ hasUD t = false := by
  constructor
  · intro hp
    cases ht : hasUD t with
    | false => rfl
    | true => exact absurd rfl (C10_ud_not_roundtrip' cls hc lam hl t _ ht hp).2.2
  · intro h
    exact C10_roundtrip cls hc lam hl t (noUD_of_hasUD_false h)

/-- … and yields the term itself only if it has no `UD` (for closed `UD`-free terms it does:
`C10_roundtrip_closed`) -/
theorem C10_roundtrip_exact_only_if (cls : CharCls) (hc : C10.ClsOk10 cls) (lam : Nat)
    (hl : lam = 955 ∨ lam = 92) (t : Term) (hp : parse cls (display lam t) .Classic = .ok t) :
    hasUD t = false :=
  C10_parse_display_noUD cls hc lam hl t t hp

/-! ## 3. `UD` is read as the free variable named `undefined` -/

/-- the free-variable number whose Display name is `undefined` in a term of binder depth `M` -/
def undefinedFV (M : Nat) : Nat := 4499111678182 - M

/-- replacing every `UD` of a term of binder depth ≤ 4 499 111 678 181 by the free variable number
`undefinedFV (max_depth)` (an occurrence under `d` binders becomes `var (d + that)`) gives a `UD`-free term of
the same binder depth with the SAME Display output -/
theorem C10_ud_display_eq (lam : Nat) (t : Term) (hM : t.maxDepth ≤ 4499111678181) :
    display lam t = display lam (fillUD (undefinedFV t.maxDepth) 0 t) ∧
      hasUD (fillUD (undefinedFV t.maxDepth) 0 t) = false ∧
      (fillUD (undefinedFV t.maxDepth) 0 t).maxDepth = t.maxDepth := by
  have hK : 1 ≤ undefinedFV t.maxDepth := by unfold undefinedFV; omega
  have hMK : t.maxDepth + undefinedFV t.maxDepth - 1 = undefinedOrdinal := by
    unfold undefinedFV undefinedOrdinal; omega
  refine ⟨?_, hasUD_fillUD _ hK t 0, maxDepth_fillUD _ t 0⟩
  unfold display
  rw [maxDepth_fillUD, showCla_fillUD lam _ _ hK hMK t 0 0]

/-- what `fillUD` does -/
theorem C10_fillUD_cases (K : Nat) :
    (∀ d, fillUD K d (var 0) = var (d + K)) ∧ (∀ d i, fillUD K d (var (i + 1)) = var (i + 1)) ∧
    (∀ d b, fillUD K d (abs b) = abs (fillUD K (d + 1) b)) ∧
    (∀ d l r, fillUD K d (app l r) = app (fillUD K d l) (fillUD K d r)) ∧
    (∀ d t, hasUD t = false → fillUD K d t = t) :=
  ⟨fun _ => rfl, fun _ _ => rfl, fun _ _ => rfl, fun _ _ _ => rfl, fun d t h => fillUD_noUD K t h d⟩

/-- C10, outside the domain: for a term of binder depth ≤ 4 499 111 678 181 (with or without `UD`), parsing the
Display output yields the canonical renumbering of the term with every `UD` replaced by the free variable whose
name is `undefined` -/
theorem C10_ud_reads_as_free_variable (cls : CharCls) (hc : C10.ClsOk10 cls) (lam : Nat)
    (hl : lam = 955 ∨ lam = 92) (t : Term) (hM : t.maxDepth ≤ 4499111678181) :
    parse cls (display lam t) .Classic = .ok (canon (fillUD (undefinedFV t.maxDepth) 0 t)) := by
  obtain ⟨he, hu, _⟩ := C10_ud_display_eq lam t hM
  rw [he]
  exact C10_roundtrip cls hc lam hl _ (noUD_of_hasUD_false hu)

/-! ## 4. Display is not injective on all terms -/

/-- every term with `UD` (of binder depth ≤ 4 499 111 678 181) shares its Display output with a DIFFERENT term
that has no `UD` -/
theorem C10_ud_display_collision (lam : Nat) (t : Term) (ht : hasUD t = true)
    (hM : t.maxDepth ≤ 4499111678181) :
    ∃ u, hasUD u = false ∧ u ≠ t ∧ canon u ≠ canon t ∧ display lam u = display lam t := by
  obtain ⟨he, hu, _⟩ := C10_ud_display_eq lam t hM
  refine ⟨fillUD (undefinedFV t.maxDepth) 0 t, hu, ?_, ?_, he.symm⟩
  · exact fillUD_ne _ (by unfold undefinedFV; omega) t ht 0
  · intro hc
    have h1 := hasUD_canon (fillUD (undefinedFV t.maxDepth) 0 t)
    rw [hc, hasUD_canon, ht, hu] at h1
    exact absurd h1 (by decide)

/-- C10: `Display` is NOT injective on all terms, not even up to the numbering of free variables: `UD` and the
`UD`-free term `var 4499111678182` (the free variable with ordinal 4 499 111 678 181) are both printed
`undefined` -/
theorem C10_display_not_injective_with_ud (lam : Nat) :
    ∃ t u : Term, hasUD t = true ∧ hasUD u = false ∧ t ≠ u ∧ canon t ≠ canon u ∧
      display lam t = display lam u := by
  refine ⟨var 0, var 4499111678182, rfl, rfl, by decide, by decide +kernel, ?_⟩
  have := (C10_ud_display_eq lam (var 0) (by decide)).1
  simpa [fillUD, undefinedFV, maxDepth] using this

/-! ## 5. non-vacuity -/

namespace C10S.Examples
open C10.Examples C09C.Examples

example : display 955 (var 0) = [117, 110, 100, 101, 102, 105, 110, 101, 100] := by decide +kernel
example : display 955 (var 4499111678182) = [117, 110, 100, 101, 102, 105, 110, 101, 100] := by
  decide +kernel

/-- `λ. UD 1 (λ. 2 UD)` is printed `λa.undefined a (λb.a undefined)`; binder depth 2, so `undefined` is the free
variable number 4 499 111 678 180: the same string is printed for `λ. X+1 1 (λ. 2 X+2)`, X = that number -/
def withUD : Term := abs (app (app (var 0) (var 1)) (abs (app (var 2) (var 0))))

example : hasUD withUD = true := by decide
example : display 92 withUD =
    [92, 97, 46] ++ str "undefined" ++ [32, 97, 32, 40, 92, 98, 46, 97, 32] ++ str "undefined" ++ [41] := by
  decide +kernel

example : fillUD (undefinedFV withUD.maxDepth) 0 withUD =
    abs (app (app (var 4499111678181) (var 1)) (abs (app (var 2) (var 4499111678182)))) := by
  decide +kernel

example : display 92 withUD =
    display 92 (abs (app (app (var 4499111678181) (var 1)) (abs (app (var 2) (var 4499111678182))))) := by
  decide +kernel

/-- it parses back as `λ. 2 1 (λ. 2 3)`: the two `UD`s have become ONE free variable -/
example : parse asciiCls (display 92 withUD) .Classic =
    .ok (abs (app (app (var 2) (var 1)) (abs (app (var 2) (var 3))))) := by
  have h := C10_ud_reads_as_free_variable asciiCls asciiCls_ok10 92 (.inr rfl) withUD (by decide)
  have hc : canon (fillUD (undefinedFV withUD.maxDepth) 0 withUD) =
      abs (app (app (var 2) (var 1)) (abs (app (var 2) (var 3)))) := by decide +kernel
  rwa [hc] at h

example : ∃ u, parse asciiCls (display 955 withUD) .Classic = .ok u ∧ hasUD u = false ∧ u ≠ withUD ∧
    u ≠ canon withUD :=
  C10_ud_not_roundtrip asciiCls asciiCls_ok10 955 (.inl rfl) withUD (by decide)

/-- the equivalence, instantiated in both directions -/
example : parse asciiCls (display 955 withUD) .Classic ≠ .ok (canon withUD) := fun h =>
  absurd ((C10_roundtrip_iff asciiCls asciiCls_ok10 955 (.inl rfl) withUD).1 h) (by decide)

example : parse asciiCls (display 955 (abs (app (var 5) (var 3)))) .Classic =
    .ok (canon (abs (app (var 5) (var 3)))) :=
  (C10_roundtrip_iff asciiCls asciiCls_ok10 955 (.inl rfl) _).2 (by decide)

example : ∃ u, hasUD u = false ∧ u ≠ withUD ∧ canon u ≠ canon withUD ∧
    display 955 u = display 955 withUD :=
  C10_ud_display_collision 955 withUD (by decide) (by decide)

end C10S.Examples

end LC
