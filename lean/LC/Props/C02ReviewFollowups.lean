/-
Follow-ups of the second review (DESIGN 18.8): the big-step semantics of call-by-value is EXACTLY the terminating unlimited runs of
the model (the library had "derivation ⇒ run"; this is the converse), so the hypotheses `EvalCbv (app f x) w` of `C16HigherHap`
are the honest ones; and the line the driver prints for a boundary substitution is `PANIC` exactly when the transcription
`driverApplyb` of `C02Bounded` answers `none` (the codec is importable since the refactoring of 18.7, so this no longer rests on reading).
Contributed by the reviewer; kernel-checked here.
-/
import LC.Proofs.Eager.BigStep
import LC.Props.C02Bounded
import LC.Drv.Ops1

namespace LC
open LC.Term Spec RL Drv

/-- converse adequacy: a terminating unlimited `beta_cbv` run yields a big-step derivation -/
theorem EvalCbv_of_run : ∀ fuel t c v c', betaCbv 0 fuel t c = some (v, c') → EvalCbv t v := by
  intro fuel
  induction fuel with
  | zero => intro t c v c' h; simp [betaCbv] at h
  | succ fuel ih =>
    intro t c v c' h
    cases t with
    | var i => simp [betaCbv, LC.gate_zero] at h; obtain ⟨rfl, _⟩ := h; exact .var i
    | abs b => simp [betaCbv, LC.gate_zero] at h; obtain ⟨rfl, _⟩ := h; exact .abs b
    | app l r =>
      unfold betaCbv at h
      simp only [LC.gate_zero, Bool.false_eq_true, if_false] at h
      cases hl : betaCbv 0 fuel l c with
      | none => simp [hl] at h
      | some p =>
        obtain ⟨l', c1⟩ := p
        simp only [hl] at h
        cases hr : betaCbv 0 fuel r c1 with
        | none => simp [hr] at h
        | some q =>
          obtain ⟨r', c2⟩ := q
          simp only [hr] at h
          have dl := ih l c l' c1 hl
          have dr := ih r c1 r' c2 hr
          cases l' with
          | abs b =>
            simp only [LC.budget_zero, if_true] at h
            exact .appRed dl dr (ih _ _ _ _ h)
          | var i => simp at h; obtain ⟨rfl, _⟩ := h; exact .appNeu dl rfl dr
          | app a b => simp at h; obtain ⟨rfl, _⟩ := h; exact .appNeu dl rfl dr

theorem C16_evalCbv_iff_reduce (t v : Term) : EvalCbv t v ↔ ∃ fuel c, reduce .CBV 0 fuel t = some (v, c) := by
  constructor
  · exact fun h => h.reduce
  · rintro ⟨fuel, c, h⟩
    exact EvalCbv_of_run fuel t 0 v c (by simpa [reduce, betaOrd] using h)

theorem append_ne_PANIC_o (s : String) : "ok " ++ s ≠ "PANIC" := by
  intro h
  have := congrArg String.toList h
  simp at this

theorem append_ne_PANIC_e (s : String) : "err " ++ s ≠ "PANIC" := by
  intro h
  have := congrArg String.toList h
  simp at this

/-- the driver's printed line for `applyb` is `PANIC` exactly when the transcription `driverApplyb` answers `none` -/
theorem C02_driver_applyb_line_panic_iff (t a : Term) :
    resApplyB (Term.apply t a) = "PANIC" ↔ driverApplyb USIZE_MAX t a = none := by
  unfold resApplyB driverApplyb
  cases Term.apply t a with
  | error e => simp [append_ne_PANIC_e]
  | ok r =>
    by_cases h : maxIndex r > USIZE_MAX <;> simp [h, append_ne_PANIC_o]



theorem nat_line_ne_PANIC (c : Nat) (s : String) : toString c ++ " " ++ s ≠ "PANIC" := by
  intro h
  have hm : ' ' ∈ (toString c ++ " " ++ s).toList := by simp
  rw [h] at hm
  simp at hm

/-- the same for `reduceb`: the printed line is `PANIC` exactly when the transcription `driverReduceb` of `C02Bounded`
answers `some none` ("the traversal returned and its result is not representable") -/
theorem C01_driver_reduceb_line_panic_iff (o : Order) (fuel : Nat) (t : Term) :
    resReduceB (reduce o 1 fuel t) = "PANIC" ↔ driverReduceb USIZE_MAX o fuel t = some none := by
  unfold resReduceB driverReduceb
  cases reduce o 1 fuel t with
  | none => simp
  | some p =>
    obtain ⟨t', c⟩ := p
    by_cases h : maxIndex t' > USIZE_MAX
    · simp [h]
    · have hne := nat_line_ne_PANIC c (showTerm t')
      simp only [h, if_false]
      constructor
      · intro hp; exact absurd hp hne
      · intro hp; simp at hp

end LC
