/-
C14 — Scott, Parigot, Stump-Fu and binary numerals compute and inter-convert correctly

"For all naturals in range, every operation the Scott (succ, pred, add, mul, pow, is_zero), Parigot
(succ, pred, add, sub, mul, is_zero), Stump-Fu (succ, pred, add, mul, is_zero) and binary (succ,
pred, shl0, shl1, lsb, is_zero, strip) modules export normalises, applied to encodings of its
arguments, to the same encoding of the expected result (binary results compared after strip where
the docs allow leading zeroes). Every cross-encoding conversion (church to scott/parigot/stumpfu,
scott to church, stumpfu to church/scott/parigot) maps the encoding of n to the other encoding of
the same n. This holds under NOR and HNO always and under APP and HAP wherever the documentation
does not exclude them (the Z-based Scott operations are documented as unsuitable for both)."

Same three layers as C13 (see LC/Props/C13.lean): `Computes t n` for ALL arguments (convergence by
induction, termination of NOR/HNO via C07, result of any normalising order via C06), and — **unbounded
too** — `reduce HAP 0` and `reduce APP 0` RETURN the expected encoding for all arguments on every operation
the documentation does not exclude (`C14_*_hap`, `C14_*_app`; big-step eager semantics, one derivation per
operation).  The excluded Z-based Scott operations are shown to DIVERGE under both eager orders
(`C14_scott_z_based_diverge_*`), confirming the documentation.  A small kernel grid is kept as a cross-check.
Binary: bits are Booleans with B0 ≡ TRUE, B1 ≡ FALSE and `lsb` returns the bit; `pred` and `shl0`
may produce a leading zero and are compared after `strip`, as documented; `strip` itself is
specified on ALL bit strings with leading zeroes (`binaryBits`).
-/
import LC.Proofs.Layer2
import LC.Proofs.Grid
import LC.Proofs.Num.ScottParigot
import LC.Proofs.Num.StumpFuBinary
import LC.Proofs.Eager.ScottParigot
import LC.Proofs.Eager.StumpFu
import LC.Proofs.Eager.Binary
import LC.Props.C12
import LC.Props.C13

namespace LC
open Term Spec Enc C13 StumpFuBinary


/-! ### layers 1 and 2: for all arguments -/

theorem C14_scott_succ (n : Nat) : Computes (app Gen.Scott.succ (intoScott n)) (intoScott (n + 1)) :=
  computes_of_star (scott_succ_correct n) (C12_normal_scott _)

theorem C14_scott_pred (n : Nat) : Computes (app Gen.Scott.pred (intoScott n)) (intoScott (n - 1)) :=
  computes_of_star (scott_pred_correct n) (C12_normal_scott _)

theorem C14_scott_is_zero (n : Nat) : Computes (app Gen.Scott.is_zero (intoScott n)) (fromBool (n == 0)) :=
  computes_of_star (scott_is_zero_correct n) (normal_fromBool _)

theorem C14_scott_add (m n : Nat) :
    Computes (app2 Gen.Scott.add (intoScott m) (intoScott n)) (intoScott (m + n)) :=
  computes_of_star (scott_add_correct m n) (C12_normal_scott _)

theorem C14_scott_mul (m n : Nat) :
    Computes (app2 Gen.Scott.mul (intoScott m) (intoScott n)) (intoScott (m * n)) :=
  computes_of_star (scott_mul_correct m n) (C12_normal_scott _)

theorem C14_scott_pow (m n : Nat) :
    Computes (app2 Gen.Scott.pow (intoScott m) (intoScott n)) (intoScott (m ^ n)) :=
  computes_of_star (scott_pow_correct m n) (C12_normal_scott _)

theorem C14_scott_to_church (n : Nat) : Computes (app Gen.Scott.to_church (intoScott n)) (intoChurch n) :=
  computes_of_star (scott_to_church_correct n) (C12_normal_church _)

theorem C14_parigot_succ (n : Nat) : Computes (app Gen.Parigot.succ (intoParigot n)) (intoParigot (n + 1)) :=
  computes_of_star (parigot_succ_correct n) (C12_normal_parigot _)

theorem C14_parigot_pred (n : Nat) : Computes (app Gen.Parigot.pred (intoParigot n)) (intoParigot (n - 1)) :=
  computes_of_star (parigot_pred_correct n) (C12_normal_parigot _)

theorem C14_parigot_is_zero (n : Nat) : Computes (app Gen.Parigot.is_zero (intoParigot n)) (fromBool (n == 0)) :=
  computes_of_star (parigot_is_zero_correct n) (normal_fromBool _)

theorem C14_parigot_add (m n : Nat) :
    Computes (app2 Gen.Parigot.add (intoParigot m) (intoParigot n)) (intoParigot (m + n)) :=
  computes_of_star (parigot_add_correct m n) (C12_normal_parigot _)

theorem C14_parigot_sub (m n : Nat) :
    Computes (app2 Gen.Parigot.sub (intoParigot m) (intoParigot n)) (intoParigot (m - n)) :=
  computes_of_star (parigot_sub_correct m n) (C12_normal_parigot _)

theorem C14_parigot_mul (m n : Nat) :
    Computes (app2 Gen.Parigot.mul (intoParigot m) (intoParigot n)) (intoParigot (m * n)) :=
  computes_of_star (parigot_mul_correct m n) (C12_normal_parigot _)

theorem C14_stumpfu_succ (n : Nat) : Computes (app Gen.StumpFu.succ (intoStumpFu n)) (intoStumpFu (n + 1)) :=
  computes_of_star (stumpfu_succ_correct n) (C12_normal_stumpfu _)

theorem C14_stumpfu_pred (n : Nat) : Computes (app Gen.StumpFu.pred (intoStumpFu n)) (intoStumpFu (n - 1)) :=
  computes_of_star (stumpfu_pred_correct n) (C12_normal_stumpfu _)

theorem C14_stumpfu_is_zero (n : Nat) : Computes (app Gen.StumpFu.is_zero (intoStumpFu n)) (fromBool (n == 0)) :=
  computes_of_star (stumpfu_is_zero_correct n) (normal_fromBool _)

theorem C14_stumpfu_add (m n : Nat) :
    Computes (app2 Gen.StumpFu.add (intoStumpFu m) (intoStumpFu n)) (intoStumpFu (m + n)) :=
  computes_of_star (stumpfu_add_correct m n) (C12_normal_stumpfu _)

theorem C14_stumpfu_mul (m n : Nat) :
    Computes (app2 Gen.StumpFu.mul (intoStumpFu m) (intoStumpFu n)) (intoStumpFu (m * n)) :=
  computes_of_star (stumpfu_mul_correct m n) (C12_normal_stumpfu _)

theorem C14_stumpfu_to_church (n : Nat) : Computes (app Gen.StumpFu.to_church (intoStumpFu n)) (intoChurch n) :=
  computes_of_star (stumpfu_to_church_correct n) (C12_normal_church _)

theorem C14_stumpfu_to_scott (n : Nat) : Computes (app Gen.StumpFu.to_scott (intoStumpFu n)) (intoScott n) :=
  computes_of_star (stumpfu_to_scott_correct n) (C12_normal_scott _)

theorem C14_stumpfu_to_parigot (n : Nat) : Computes (app Gen.StumpFu.to_parigot (intoStumpFu n)) (intoParigot n) :=
  computes_of_star (stumpfu_to_parigot_correct n) (C12_normal_parigot _)

theorem C14_church_to_scott (n : Nat) : Computes (app Gen.Church.to_scott (intoChurch n)) (intoScott n) :=
  computes_of_star (church_to_scott_correct n) (C12_normal_scott _)

theorem C14_church_to_parigot (n : Nat) : Computes (app Gen.Church.to_parigot (intoChurch n)) (intoParigot n) :=
  computes_of_star (church_to_parigot_correct n) (C12_normal_parigot _)

theorem C14_church_to_stumpfu (n : Nat) : Computes (app Gen.Church.to_stumpfu (intoChurch n)) (intoStumpFu n) :=
  computes_of_star (church_to_stumpfu_correct n) (C12_normal_stumpfu _)

/-! binary -/
theorem C14_binary_is_zero (n : Nat) : Computes (app Gen.Binary.is_zero (intoBinary n)) (fromBool (n == 0)) :=
  computes_of_star (binary_is_zero_correct n) (normal_fromBool _)

theorem C14_binary_lsb (n : Nat) :
    Computes (app Gen.Binary.lsb (intoBinary n)) (if n % 2 = 1 then Gen.Binary.b1 else Gen.Binary.b0) :=
  computes_of_star (binary_lsb_correct n) (by split <;> decide)

theorem C14_binary_succ (n : Nat) : Computes (app Gen.Binary.succ (intoBinary n)) (intoBinary (n + 1)) :=
  computes_of_star (binary_succ_correct n) (C12_normal_binary _)

theorem C14_binary_shl1 (n : Nat) : Computes (app Gen.Binary.shl1 (intoBinary n)) (intoBinary (2 * n + 1)) :=
  computes_of_star (binary_shl1_correct n) (C12_normal_binary _)

/-- `shl0` of zero has a leading zero bit: compared after `strip`, as documented -/
theorem C14_binary_shl0 (n : Nat) :
    Computes (app Gen.Binary.strip (app Gen.Binary.shl0 (intoBinary n))) (intoBinary (2 * n)) :=
  computes_of_star (binary_shl0_correct n) (C12_normal_binary _)

/-- `pred` may leave a leading zero bit: compared after `strip`, as documented -/
theorem C14_binary_pred (n : Nat) :
    Computes (app Gen.Binary.strip (app Gen.Binary.pred (intoBinary n))) (intoBinary (n - 1)) :=
  computes_of_star (binary_pred_correct n) (C12_normal_binary _)

/-- `strip` on ARBITRARY bit strings (any number of leading zeroes) yields the canonical numeral -/
theorem C14_binary_strip (bs : List Bool) :
    Computes (app Gen.Binary.strip (binaryBits bs)) (intoBinary (valueOf bs)) :=
  computes_of_star (binary_strip_correct bs) (C12_normal_binary _)

/-- non-vacuity -/
example : ∃ fuel c, reduce .HNO 0 fuel (app2 Gen.Parigot.sub (intoParigot 5) (intoParigot 2))
    = some (intoParigot 3, c) := (C14_parigot_sub 5 2).hno

/-! ### layer 3, unbounded: HAP and APP return the expected encoding for all arguments -/

theorem C14_scott_succ_hap (n : Nat) :
    ∃ fuel c, reduce .HAP 0 fuel (app Gen.Scott.succ (intoScott n)) = some (intoScott (n + 1), c) := by
  have h := (scott_succ_hap n).reduce
  first | exact h | simpa using h

theorem C14_scott_succ_app (n : Nat) :
    ∃ fuel c, reduce .APP 0 fuel (app Gen.Scott.succ (intoScott n)) = some (intoScott (n + 1), c) := by
  have h := (scott_succ_app n).reduce
  first | exact h | simpa using h

theorem C14_scott_pred_hap (n : Nat) :
    ∃ fuel c, reduce .HAP 0 fuel (app Gen.Scott.pred (intoScott n)) = some (intoScott (n - 1), c) := by
  have h := (scott_pred_hap n).reduce
  first | exact h | simpa using h

theorem C14_scott_pred_app (n : Nat) :
    ∃ fuel c, reduce .APP 0 fuel (app Gen.Scott.pred (intoScott n)) = some (intoScott (n - 1), c) := by
  have h := (scott_pred_app n).reduce
  first | exact h | simpa using h

theorem C14_scott_is_zero_hap (n : Nat) :
    ∃ fuel c, reduce .HAP 0 fuel (app Gen.Scott.is_zero (intoScott n)) = some (fromBool (n == 0), c) := by
  have h := (scott_is_zero_hap n).reduce
  first | exact h | simpa using h

theorem C14_scott_is_zero_app (n : Nat) :
    ∃ fuel c, reduce .APP 0 fuel (app Gen.Scott.is_zero (intoScott n)) = some (fromBool (n == 0), c) := by
  have h := (scott_is_zero_app n).reduce
  first | exact h | simpa using h

theorem C14_parigot_succ_hap (n : Nat) :
    ∃ fuel c, reduce .HAP 0 fuel (app Gen.Parigot.succ (intoParigot n)) = some (intoParigot (n + 1), c) := by
  have h := (parigot_succ_hap n).reduce
  first | exact h | simpa using h

theorem C14_parigot_succ_app (n : Nat) :
    ∃ fuel c, reduce .APP 0 fuel (app Gen.Parigot.succ (intoParigot n)) = some (intoParigot (n + 1), c) := by
  have h := (parigot_succ_app n).reduce
  first | exact h | simpa using h

theorem C14_parigot_pred_hap (n : Nat) :
    ∃ fuel c, reduce .HAP 0 fuel (app Gen.Parigot.pred (intoParigot n)) = some (intoParigot (n - 1), c) := by
  have h := (parigot_pred_hap n).reduce
  first | exact h | simpa using h

theorem C14_parigot_pred_app (n : Nat) :
    ∃ fuel c, reduce .APP 0 fuel (app Gen.Parigot.pred (intoParigot n)) = some (intoParigot (n - 1), c) := by
  have h := (parigot_pred_app n).reduce
  first | exact h | simpa using h

theorem C14_parigot_is_zero_hap (n : Nat) :
    ∃ fuel c, reduce .HAP 0 fuel (app Gen.Parigot.is_zero (intoParigot n)) = some (fromBool (n == 0), c) := by
  have h := (parigot_is_zero_hap n).reduce
  first | exact h | simpa using h

theorem C14_parigot_is_zero_app (n : Nat) :
    ∃ fuel c, reduce .APP 0 fuel (app Gen.Parigot.is_zero (intoParigot n)) = some (fromBool (n == 0), c) := by
  have h := (parigot_is_zero_app n).reduce
  first | exact h | simpa using h

theorem C14_parigot_add_hap (m n : Nat) :
    ∃ fuel c, reduce .HAP 0 fuel (app2 Gen.Parigot.add (intoParigot m) (intoParigot n)) = some (intoParigot (m + n), c) := by
  have h := (parigot_add_hap m n).reduce
  first | exact h | simpa using h

theorem C14_parigot_add_app (m n : Nat) :
    ∃ fuel c, reduce .APP 0 fuel (app2 Gen.Parigot.add (intoParigot m) (intoParigot n)) = some (intoParigot (m + n), c) := by
  have h := (parigot_add_app m n).reduce
  first | exact h | simpa using h

theorem C14_parigot_sub_hap (m n : Nat) :
    ∃ fuel c, reduce .HAP 0 fuel (app2 Gen.Parigot.sub (intoParigot m) (intoParigot n)) = some (intoParigot (m - n), c) := by
  have h := (parigot_sub_hap m n).reduce
  first | exact h | simpa using h

theorem C14_parigot_sub_app (m n : Nat) :
    ∃ fuel c, reduce .APP 0 fuel (app2 Gen.Parigot.sub (intoParigot m) (intoParigot n)) = some (intoParigot (m - n), c) := by
  have h := (parigot_sub_app m n).reduce
  first | exact h | simpa using h

theorem C14_parigot_mul_hap (m n : Nat) :
    ∃ fuel c, reduce .HAP 0 fuel (app2 Gen.Parigot.mul (intoParigot m) (intoParigot n)) = some (intoParigot (m * n), c) := by
  have h := (parigot_mul_hap m n).reduce
  first | exact h | simpa using h

theorem C14_parigot_mul_app (m n : Nat) :
    ∃ fuel c, reduce .APP 0 fuel (app2 Gen.Parigot.mul (intoParigot m) (intoParigot n)) = some (intoParigot (m * n), c) := by
  have h := (parigot_mul_app m n).reduce
  first | exact h | simpa using h

theorem C14_stumpfu_succ_hap (n : Nat) :
    ∃ fuel c, reduce .HAP 0 fuel (app Gen.StumpFu.succ (intoStumpFu n)) = some (intoStumpFu (n + 1), c) := by
  have h := (stumpfu_succ_hap n).reduce
  first | exact h | simpa using h

theorem C14_stumpfu_succ_app (n : Nat) :
    ∃ fuel c, reduce .APP 0 fuel (app Gen.StumpFu.succ (intoStumpFu n)) = some (intoStumpFu (n + 1), c) := by
  have h := (stumpfu_succ_app n).reduce
  first | exact h | simpa using h

theorem C14_stumpfu_pred_hap (n : Nat) :
    ∃ fuel c, reduce .HAP 0 fuel (app Gen.StumpFu.pred (intoStumpFu n)) = some (intoStumpFu (n - 1), c) := by
  have h := (stumpfu_pred_hap n).reduce
  first | exact h | simpa using h

theorem C14_stumpfu_pred_app (n : Nat) :
    ∃ fuel c, reduce .APP 0 fuel (app Gen.StumpFu.pred (intoStumpFu n)) = some (intoStumpFu (n - 1), c) := by
  have h := (stumpfu_pred_app n).reduce
  first | exact h | simpa using h

theorem C14_stumpfu_is_zero_hap (n : Nat) :
    ∃ fuel c, reduce .HAP 0 fuel (app Gen.StumpFu.is_zero (intoStumpFu n)) = some (fromBool (n == 0), c) := by
  have h := (stumpfu_is_zero_hap n).reduce
  first | exact h | simpa using h

theorem C14_stumpfu_is_zero_app (n : Nat) :
    ∃ fuel c, reduce .APP 0 fuel (app Gen.StumpFu.is_zero (intoStumpFu n)) = some (fromBool (n == 0), c) := by
  have h := (stumpfu_is_zero_app n).reduce
  first | exact h | simpa using h

theorem C14_stumpfu_add_hap (m n : Nat) :
    ∃ fuel c, reduce .HAP 0 fuel (app2 Gen.StumpFu.add (intoStumpFu m) (intoStumpFu n)) = some (intoStumpFu (m + n), c) := by
  have h := (stumpfu_add_hap m n).reduce
  first | exact h | simpa using h

theorem C14_stumpfu_add_app (m n : Nat) :
    ∃ fuel c, reduce .APP 0 fuel (app2 Gen.StumpFu.add (intoStumpFu m) (intoStumpFu n)) = some (intoStumpFu (m + n), c) := by
  have h := (stumpfu_add_app m n).reduce
  first | exact h | simpa using h

theorem C14_stumpfu_mul_hap (m n : Nat) :
    ∃ fuel c, reduce .HAP 0 fuel (app2 Gen.StumpFu.mul (intoStumpFu m) (intoStumpFu n)) = some (intoStumpFu (m * n), c) := by
  have h := (stumpfu_mul_hap m n).reduce
  first | exact h | simpa using h

theorem C14_stumpfu_mul_app (m n : Nat) :
    ∃ fuel c, reduce .APP 0 fuel (app2 Gen.StumpFu.mul (intoStumpFu m) (intoStumpFu n)) = some (intoStumpFu (m * n), c) := by
  have h := (stumpfu_mul_app m n).reduce
  first | exact h | simpa using h

theorem C14_stumpfu_to_church_hap (n : Nat) :
    ∃ fuel c, reduce .HAP 0 fuel (app Gen.StumpFu.to_church (intoStumpFu n)) = some (intoChurch n, c) := by
  have h := (stumpfu_to_church_hap n).reduce
  first | exact h | simpa using h

theorem C14_stumpfu_to_church_app (n : Nat) :
    ∃ fuel c, reduce .APP 0 fuel (app Gen.StumpFu.to_church (intoStumpFu n)) = some (intoChurch n, c) := by
  have h := (stumpfu_to_church_app n).reduce
  first | exact h | simpa using h

theorem C14_stumpfu_to_scott_hap (n : Nat) :
    ∃ fuel c, reduce .HAP 0 fuel (app Gen.StumpFu.to_scott (intoStumpFu n)) = some (intoScott n, c) := by
  have h := (stumpfu_to_scott_hap n).reduce
  first | exact h | simpa using h

theorem C14_stumpfu_to_scott_app (n : Nat) :
    ∃ fuel c, reduce .APP 0 fuel (app Gen.StumpFu.to_scott (intoStumpFu n)) = some (intoScott n, c) := by
  have h := (stumpfu_to_scott_app n).reduce
  first | exact h | simpa using h

theorem C14_stumpfu_to_parigot_hap (n : Nat) :
    ∃ fuel c, reduce .HAP 0 fuel (app Gen.StumpFu.to_parigot (intoStumpFu n)) = some (intoParigot n, c) := by
  have h := (stumpfu_to_parigot_hap n).reduce
  first | exact h | simpa using h

theorem C14_stumpfu_to_parigot_app (n : Nat) :
    ∃ fuel c, reduce .APP 0 fuel (app Gen.StumpFu.to_parigot (intoStumpFu n)) = some (intoParigot n, c) := by
  have h := (stumpfu_to_parigot_app n).reduce
  first | exact h | simpa using h

theorem C14_church_to_scott_hap (n : Nat) :
    ∃ fuel c, reduce .HAP 0 fuel (app Gen.Church.to_scott (intoChurch n)) = some (intoScott n, c) := by
  have h := (church_to_scott_hap n).reduce
  first | exact h | simpa using h

theorem C14_church_to_scott_app (n : Nat) :
    ∃ fuel c, reduce .APP 0 fuel (app Gen.Church.to_scott (intoChurch n)) = some (intoScott n, c) := by
  have h := (church_to_scott_app n).reduce
  first | exact h | simpa using h

theorem C14_church_to_parigot_hap (n : Nat) :
    ∃ fuel c, reduce .HAP 0 fuel (app Gen.Church.to_parigot (intoChurch n)) = some (intoParigot n, c) := by
  have h := (church_to_parigot_hap n).reduce
  first | exact h | simpa using h

theorem C14_church_to_parigot_app (n : Nat) :
    ∃ fuel c, reduce .APP 0 fuel (app Gen.Church.to_parigot (intoChurch n)) = some (intoParigot n, c) := by
  have h := (church_to_parigot_app n).reduce
  first | exact h | simpa using h

theorem C14_church_to_stumpfu_hap (n : Nat) :
    ∃ fuel c, reduce .HAP 0 fuel (app Gen.Church.to_stumpfu (intoChurch n)) = some (intoStumpFu n, c) := by
  have h := (church_to_stumpfu_hap n).reduce
  first | exact h | simpa using h

theorem C14_church_to_stumpfu_app (n : Nat) :
    ∃ fuel c, reduce .APP 0 fuel (app Gen.Church.to_stumpfu (intoChurch n)) = some (intoStumpFu n, c) := by
  have h := (church_to_stumpfu_app n).reduce
  first | exact h | simpa using h

theorem C14_binary_is_zero_hap (n : Nat) :
    ∃ fuel c, reduce .HAP 0 fuel (app Gen.Binary.is_zero (intoBinary n)) = some (fromBool (n == 0), c) := by
  have h := (binary_is_zero_hap n).reduce
  first | exact h | simpa using h

theorem C14_binary_is_zero_app (n : Nat) :
    ∃ fuel c, reduce .APP 0 fuel (app Gen.Binary.is_zero (intoBinary n)) = some (fromBool (n == 0), c) := by
  have h := (binary_is_zero_app n).reduce
  first | exact h | simpa using h

theorem C14_binary_lsb_hap (n : Nat) :
    ∃ fuel c, reduce .HAP 0 fuel (app Gen.Binary.lsb (intoBinary n)) = some (if n % 2 = 1 then Gen.Binary.b1 else Gen.Binary.b0, c) := by
  have h := (binary_lsb_hap n).reduce
  first | exact h | simpa using h

theorem C14_binary_lsb_app (n : Nat) :
    ∃ fuel c, reduce .APP 0 fuel (app Gen.Binary.lsb (intoBinary n)) = some (if n % 2 = 1 then Gen.Binary.b1 else Gen.Binary.b0, c) := by
  have h := (binary_lsb_app n).reduce
  first | exact h | simpa using h

theorem C14_binary_succ_hap (n : Nat) :
    ∃ fuel c, reduce .HAP 0 fuel (app Gen.Binary.succ (intoBinary n)) = some (intoBinary (n + 1), c) := by
  have h := (binary_succ_hap n).reduce
  first | exact h | simpa using h

theorem C14_binary_succ_app (n : Nat) :
    ∃ fuel c, reduce .APP 0 fuel (app Gen.Binary.succ (intoBinary n)) = some (intoBinary (n + 1), c) := by
  have h := (binary_succ_app n).reduce
  first | exact h | simpa using h

theorem C14_binary_shl1_hap (n : Nat) :
    ∃ fuel c, reduce .HAP 0 fuel (app Gen.Binary.shl1 (intoBinary n)) = some (intoBinary (2 * n + 1), c) := by
  have h := (binary_shl1_hap n).reduce
  first | exact h | simpa using h

theorem C14_binary_shl1_app (n : Nat) :
    ∃ fuel c, reduce .APP 0 fuel (app Gen.Binary.shl1 (intoBinary n)) = some (intoBinary (2 * n + 1), c) := by
  have h := (binary_shl1_app n).reduce
  first | exact h | simpa using h

theorem C14_binary_shl0_hap (n : Nat) :
    ∃ fuel c, reduce .HAP 0 fuel (app Gen.Binary.strip (app Gen.Binary.shl0 (intoBinary n))) = some (intoBinary (2 * n), c) := by
  have h := (binary_shl0_hap n).reduce
  first | exact h | simpa using h

theorem C14_binary_shl0_app (n : Nat) :
    ∃ fuel c, reduce .APP 0 fuel (app Gen.Binary.strip (app Gen.Binary.shl0 (intoBinary n))) = some (intoBinary (2 * n), c) := by
  have h := (binary_shl0_app n).reduce
  first | exact h | simpa using h

theorem C14_binary_pred_hap (n : Nat) :
    ∃ fuel c, reduce .HAP 0 fuel (app Gen.Binary.strip (app Gen.Binary.pred (intoBinary n))) = some (intoBinary (n - 1), c) := by
  have h := (binary_pred_hap n).reduce
  first | exact h | simpa using h

theorem C14_binary_pred_app (n : Nat) :
    ∃ fuel c, reduce .APP 0 fuel (app Gen.Binary.strip (app Gen.Binary.pred (intoBinary n))) = some (intoBinary (n - 1), c) := by
  have h := (binary_pred_app n).reduce
  first | exact h | simpa using h

theorem C14_binary_strip_hap (bs : List Bool) :
    ∃ fuel c, reduce .HAP 0 fuel (app Gen.Binary.strip (binaryBits bs)) = some (intoBinary (valueOf bs), c) := by
  have h := (binary_strip_hap bs).reduce
  first | exact h | simpa using h

theorem C14_binary_strip_app (bs : List Bool) :
    ∃ fuel c, reduce .APP 0 fuel (app Gen.Binary.strip (binaryBits bs)) = some (intoBinary (valueOf bs), c) := by
  have h := (binary_strip_app bs).reduce
  first | exact h | simpa using h

/-- the Z-based Scott operations do not terminate under HAP on numerals, for any fuel (the documentation says
they overflow the stack under the applicative family) -/
theorem C14_scott_z_based_diverge_hap (m n fuel : Nat) :
    reduce .HAP 0 fuel (app2 Gen.Scott.add (intoScott m) (intoScott n)) = none ∧
    reduce .HAP 0 fuel (app2 Gen.Scott.mul (intoScott m) (intoScott n)) = none ∧
    reduce .HAP 0 fuel (app2 Gen.Scott.pow (intoScott m) (intoScott n)) = none ∧
    reduce .HAP 0 fuel (app Gen.Scott.to_church (intoScott n)) = none :=
  ⟨scott_add_diverges_hap m n fuel, scott_mul_diverges_hap m n fuel, scott_pow_diverges_hap m n fuel,
   scott_to_church_diverges_hap n fuel⟩

/-- … and under APP for ANY argument terms (the combinator Z itself has no APP-normal form) -/
theorem C14_scott_z_based_diverge_app (a b : Term) (fuel : Nat) :
    reduce .APP 0 fuel (app2 Gen.Scott.add a b) = none ∧ reduce .APP 0 fuel (app2 Gen.Scott.mul a b) = none ∧
    reduce .APP 0 fuel (app2 Gen.Scott.pow a b) = none ∧ reduce .APP 0 fuel (app Gen.Scott.to_church a) = none :=
  ⟨scott_add_diverges_app a b fuel, scott_mul_diverges_app a b fuel, scott_pow_diverges_app a b fuel,
   scott_to_church_diverges_app a fuel⟩

/-! ### cross-check grid (BOUNDED; carries no claim any more) -/

set_option maxRecDepth 100000 in
theorem C14_grid_scott_succ : (List.range 4).all (fun n => (eager false).all (fun o =>
    Grid.runsTo o FUEL (app Gen.Scott.succ (intoScott n)) (intoScott (n + 1)))) = true := by decide +kernel

set_option maxRecDepth 100000 in
theorem C14_grid_scott_pred : (List.range 4).all (fun n => (eager false).all (fun o =>
    Grid.runsTo o FUEL (app Gen.Scott.pred (intoScott n)) (intoScott (n - 1)))) = true := by decide +kernel

set_option maxRecDepth 100000 in
theorem C14_grid_scott_is_zero : (List.range 4).all (fun n => (eager false).all (fun o =>
    Grid.runsTo o FUEL (app Gen.Scott.is_zero (intoScott n)) (fromBool (n == 0)))) = true := by decide +kernel

set_option maxRecDepth 100000 in
theorem C14_grid_parigot_succ : (List.range 4).all (fun n => (eager false).all (fun o =>
    Grid.runsTo o FUEL (app Gen.Parigot.succ (intoParigot n)) (intoParigot (n + 1)))) = true := by decide +kernel

set_option maxRecDepth 100000 in
theorem C14_grid_parigot_pred : (List.range 4).all (fun n => (eager false).all (fun o =>
    Grid.runsTo o FUEL (app Gen.Parigot.pred (intoParigot n)) (intoParigot (n - 1)))) = true := by decide +kernel

set_option maxRecDepth 100000 in
theorem C14_grid_parigot_is_zero : (List.range 4).all (fun n => (eager false).all (fun o =>
    Grid.runsTo o FUEL (app Gen.Parigot.is_zero (intoParigot n)) (fromBool (n == 0)))) = true := by decide +kernel

set_option maxRecDepth 100000 in
theorem C14_grid_parigot_add : (Grid.range2 2 2).all (fun (m, n) => (eager false).all (fun o =>
    Grid.runsTo o FUEL (app2 Gen.Parigot.add (intoParigot m) (intoParigot n)) (intoParigot (m + n)))) = true := by decide +kernel

set_option maxRecDepth 100000 in
theorem C14_grid_parigot_sub : (Grid.range2 2 2).all (fun (m, n) => (eager false).all (fun o =>
    Grid.runsTo o FUEL (app2 Gen.Parigot.sub (intoParigot m) (intoParigot n)) (intoParigot (m - n)))) = true := by decide +kernel

set_option maxRecDepth 100000 in
theorem C14_grid_parigot_mul : (Grid.range2 2 2).all (fun (m, n) => (eager false).all (fun o =>
    Grid.runsTo o FUEL (app2 Gen.Parigot.mul (intoParigot m) (intoParigot n)) (intoParigot (m * n)))) = true := by decide +kernel

set_option maxRecDepth 100000 in
theorem C14_grid_stumpfu_succ : (List.range 4).all (fun n => (eager false).all (fun o =>
    Grid.runsTo o FUEL (app Gen.StumpFu.succ (intoStumpFu n)) (intoStumpFu (n + 1)))) = true := by decide +kernel

set_option maxRecDepth 100000 in
theorem C14_grid_stumpfu_pred : (List.range 4).all (fun n => (eager false).all (fun o =>
    Grid.runsTo o FUEL (app Gen.StumpFu.pred (intoStumpFu n)) (intoStumpFu (n - 1)))) = true := by decide +kernel

set_option maxRecDepth 100000 in
theorem C14_grid_stumpfu_is_zero : (List.range 4).all (fun n => (eager false).all (fun o =>
    Grid.runsTo o FUEL (app Gen.StumpFu.is_zero (intoStumpFu n)) (fromBool (n == 0)))) = true := by decide +kernel

set_option maxRecDepth 100000 in
theorem C14_grid_stumpfu_add : (Grid.range2 2 2).all (fun (m, n) => (eager false).all (fun o =>
    Grid.runsTo o FUEL (app2 Gen.StumpFu.add (intoStumpFu m) (intoStumpFu n)) (intoStumpFu (m + n)))) = true := by decide +kernel

set_option maxRecDepth 100000 in
theorem C14_grid_stumpfu_mul : (Grid.range2 2 2).all (fun (m, n) => (eager false).all (fun o =>
    Grid.runsTo o FUEL (app2 Gen.StumpFu.mul (intoStumpFu m) (intoStumpFu n)) (intoStumpFu (m * n)))) = true := by decide +kernel

set_option maxRecDepth 100000 in
theorem C14_grid_stumpfu_to_church : (List.range 4).all (fun n => (eager false).all (fun o =>
    Grid.runsTo o FUEL (app Gen.StumpFu.to_church (intoStumpFu n)) (intoChurch n))) = true := by decide +kernel

set_option maxRecDepth 100000 in
theorem C14_grid_stumpfu_to_scott : (List.range 4).all (fun n => (eager false).all (fun o =>
    Grid.runsTo o FUEL (app Gen.StumpFu.to_scott (intoStumpFu n)) (intoScott n))) = true := by decide +kernel

set_option maxRecDepth 100000 in
theorem C14_grid_stumpfu_to_parigot : (List.range 4).all (fun n => (eager false).all (fun o =>
    Grid.runsTo o FUEL (app Gen.StumpFu.to_parigot (intoStumpFu n)) (intoParigot n))) = true := by decide +kernel

set_option maxRecDepth 100000 in
theorem C14_grid_church_to_scott : (List.range 4).all (fun n => (eager false).all (fun o =>
    Grid.runsTo o FUEL (app Gen.Church.to_scott (intoChurch n)) (intoScott n))) = true := by decide +kernel

set_option maxRecDepth 100000 in
theorem C14_grid_church_to_parigot : (List.range 4).all (fun n => (eager false).all (fun o =>
    Grid.runsTo o FUEL (app Gen.Church.to_parigot (intoChurch n)) (intoParigot n))) = true := by decide +kernel

set_option maxRecDepth 100000 in
theorem C14_grid_church_to_stumpfu : (List.range 4).all (fun n => (eager false).all (fun o =>
    Grid.runsTo o FUEL (app Gen.Church.to_stumpfu (intoChurch n)) (intoStumpFu n))) = true := by decide +kernel

set_option maxRecDepth 100000 in
theorem C14_grid_binary_is_zero : (List.range 9).all (fun n => (eager false).all (fun o =>
    Grid.runsTo o FUEL (app Gen.Binary.is_zero (intoBinary n)) (fromBool (n == 0)))) = true := by decide +kernel

set_option maxRecDepth 100000 in
theorem C14_grid_binary_lsb : (List.range 9).all (fun n => (eager false).all (fun o =>
    Grid.runsTo o FUEL (app Gen.Binary.lsb (intoBinary n)) (if n % 2 = 1 then Gen.Binary.b1 else Gen.Binary.b0))) = true := by decide +kernel

set_option maxRecDepth 100000 in
theorem C14_grid_binary_succ : (List.range 9).all (fun n => (eager false).all (fun o =>
    Grid.runsTo o FUEL (app Gen.Binary.succ (intoBinary n)) (intoBinary (n + 1)))) = true := by decide +kernel

set_option maxRecDepth 100000 in
theorem C14_grid_binary_shl1 : (List.range 9).all (fun n => (eager false).all (fun o =>
    Grid.runsTo o FUEL (app Gen.Binary.shl1 (intoBinary n)) (intoBinary (2 * n + 1)))) = true := by decide +kernel

set_option maxRecDepth 100000 in
theorem C14_grid_binary_shl0 : (List.range 9).all (fun n => (eager false).all (fun o =>
    Grid.runsTo o FUEL (app Gen.Binary.strip (app Gen.Binary.shl0 (intoBinary n))) (intoBinary (2 * n)))) = true := by decide +kernel

set_option maxRecDepth 100000 in
theorem C14_grid_binary_pred : (List.range 9).all (fun n => (eager false).all (fun o =>
    Grid.runsTo o FUEL (app Gen.Binary.strip (app Gen.Binary.pred (intoBinary n))) (intoBinary (n - 1)))) = true := by decide +kernel

set_option maxRecDepth 100000 in
theorem C14_grid_binary_strip : (List.range 9).all (fun n => (eager false).all (fun o =>
    Grid.runsTo o FUEL (app Gen.Binary.strip (intoBinary n)) (intoBinary n))) = true := by decide +kernel

end LC
