/-
C14 (exact form) — the binary operations return CANONICAL numerals wherever the documentation does not allow
leading zeroes

C14 compares binary results "after strip where the docs allow leading zeroes".  The documentation
(`/repo/src/data/num/binary.rs`) allows leading zeroes only for `pred` on powers of two (and for `shl0` of zero).
`C14_binary_pred` / `C14_binary_shl0` in `LC/Props/C14.lean` are stated after `strip` for ALL arguments; a change that
added a spurious leading zero on the remaining arguments would keep them true.  This file closes that gap:

* raw `shl0 n` is exactly the encoding of `2 * n` for every `n ≠ 0`;
* raw `pred n` is exactly the encoding of `n - 1` for every `n ≠ 0` that is not a power of two;
* `strip` is the identity on canonical numerals;

each as `Computes` (convergence, NOR/HNO termination with that result, any normalising order that returns returns it) and,
unbounded, as `reduce HAP 0` / `reduce APP 0` results.  The side conditions are sharp: raw `pred (2 ^ k)` is NOT the
canonical numeral of `2 ^ k - 1` for any `k`, raw `shl0 0` is not the canonical zero (kernel-evaluated instances and
general statements below).
-/
import LC.Props.C14
import LC.Proofs.Num.BinaryExact

namespace LC
open Term Spec Enc C13 StumpFuBinary

/-! ### layers 1 and 2: for all admissible arguments -/

/-- raw `shl0` of a positive numeral: no `strip` needed -/
theorem C14_binary_shl0_exact (n : Nat) (h : n ≠ 0) :
    Computes (app Gen.Binary.shl0 (intoBinary n)) (intoBinary (2 * n)) :=
  computes_of_star (binary_shl0_exact n h) (C12_normal_binary _)

/-- raw `pred` of a positive numeral that is not a power of two: no `strip` needed -/
theorem C14_binary_pred_exact (n : Nat) (h0 : n ≠ 0) (h2 : ∀ k, n ≠ 2 ^ k) :
    Computes (app Gen.Binary.pred (intoBinary n)) (intoBinary (n - 1)) :=
  computes_of_star (binary_pred_exact n h0 h2) (C12_normal_binary _)

/-- `strip` is the identity on canonical numerals -/
theorem C14_binary_strip_canonical (n : Nat) : Computes (app Gen.Binary.strip (intoBinary n)) (intoBinary n) :=
  computes_of_star (binary_strip_canonical n) (C12_normal_binary _)

/-! ### layer 3, unbounded: HAP and APP return the exact encoding -/

theorem C14_binary_shl0_exact_hap (n : Nat) (h : n ≠ 0) :
    ∃ fuel c, reduce .HAP 0 fuel (app Gen.Binary.shl0 (intoBinary n)) = some (intoBinary (2 * n), c) :=
  (binary_shl0_exact_hap n h).reduce

theorem C14_binary_shl0_exact_app (n : Nat) (h : n ≠ 0) :
    ∃ fuel c, reduce .APP 0 fuel (app Gen.Binary.shl0 (intoBinary n)) = some (intoBinary (2 * n), c) :=
  (binary_shl0_exact_app n h).reduce

theorem C14_binary_pred_exact_hap (n : Nat) (h0 : n ≠ 0) (h2 : ∀ k, n ≠ 2 ^ k) :
    ∃ fuel c, reduce .HAP 0 fuel (app Gen.Binary.pred (intoBinary n)) = some (intoBinary (n - 1), c) :=
  (binary_pred_exact_hap n h0 h2).reduce

theorem C14_binary_pred_exact_app (n : Nat) (h0 : n ≠ 0) (h2 : ∀ k, n ≠ 2 ^ k) :
    ∃ fuel c, reduce .APP 0 fuel (app Gen.Binary.pred (intoBinary n)) = some (intoBinary (n - 1), c) :=
  (binary_pred_exact_app n h0 h2).reduce

theorem C14_binary_strip_canonical_hap (n : Nat) :
    ∃ fuel c, reduce .HAP 0 fuel (app Gen.Binary.strip (intoBinary n)) = some (intoBinary n, c) :=
  (binary_strip_canonical_hap n).reduce

theorem C14_binary_strip_canonical_app (n : Nat) :
    ∃ fuel c, reduce .APP 0 fuel (app Gen.Binary.strip (intoBinary n)) = some (intoBinary n, c) :=
  (binary_strip_canonical_app n).reduce

/-! ### the side conditions are needed (sharpness) -/

/-- for EVERY power of two the raw predecessor keeps a leading zero: it does not converge to the canonical numeral -/
theorem C14_binary_pred_pow2_not_exact (k : Nat) :
    ¬ Computes (app Gen.Binary.pred (intoBinary (2 ^ k))) (intoBinary (2 ^ k - 1)) :=
  fun h => binary_pred_pow2_not_exact k h.conv

/-- raw `shl0 0` is the one-digit string `0`, not the canonical (empty) zero -/
theorem C14_binary_shl0_zero_not_exact :
    ¬ Computes (app Gen.Binary.shl0 (intoBinary 0)) (intoBinary (2 * 0)) :=
  fun h => shl0_zero_not_canonical h.conv

set_option maxRecDepth 100000 in
/-- boundary instance by kernel evaluation of the model reducer: raw `pred 4` normalises (NOR, HNO, HAP, APP) to the
three-digit string `011` (LSB first `[1, 1, 0]`), which is a DIFFERENT term than the encoding `11` of 3 -/
theorem C14_binary_pred_four_leading_zero :
    ([Order.NOR, .HNO, .HAP, .APP].all (fun o =>
      Grid.runsTo o FUEL (app Gen.Binary.pred (intoBinary 4)) (binaryBits [true, true, false])) = true) ∧
    binaryBits [true, true, false] ≠ intoBinary 3 := by decide +kernel

/-- the same, read off the reducer: the NOR result of raw `pred 4` is not `intoBinary 3` -/
theorem C14_binary_pred_four_nor :
    ∃ r c, reduce .NOR 0 FUEL (app Gen.Binary.pred (intoBinary 4)) = some (r, c) ∧ r ≠ intoBinary 3 := by
  obtain ⟨h, hne⟩ := C14_binary_pred_four_leading_zero
  have h1 : Grid.runsTo .NOR FUEL (app Gen.Binary.pred (intoBinary 4)) (binaryBits [true, true, false]) = true := by
    simp only [List.all_cons, Bool.and_eq_true] at h; exact h.1
  obtain ⟨c, hc⟩ := Grid.runsTo_spec h1
  exact ⟨_, c, hc, hne⟩

set_option maxRecDepth 100000 in
/-- boundary instance: raw `shl0 0` normalises to the one-digit string `0`, a DIFFERENT term than the encoding of 0 -/
theorem C14_binary_shl0_zero_leading_zero :
    ([Order.NOR, .HNO, .HAP, .APP].all (fun o =>
      Grid.runsTo o FUEL (app Gen.Binary.shl0 (intoBinary 0)) (binaryBits [false])) = true) ∧
    binaryBits [false] ≠ intoBinary 0 := by decide +kernel

theorem C14_binary_shl0_zero_nor :
    ∃ r c, reduce .NOR 0 FUEL (app Gen.Binary.shl0 (intoBinary 0)) = some (r, c) ∧ r ≠ intoBinary 0 := by
  obtain ⟨h, hne⟩ := C14_binary_shl0_zero_leading_zero
  have h1 : Grid.runsTo .NOR FUEL (app Gen.Binary.shl0 (intoBinary 0)) (binaryBits [false]) = true := by
    simp only [List.all_cons, Bool.and_eq_true] at h; exact h.1
  obtain ⟨c, hc⟩ := Grid.runsTo_spec h1
  exact ⟨_, c, hc, hne⟩

/-! ### non-vacuity: positive instances, exactly, by kernel evaluation and from the general theorems -/

set_option maxRecDepth 100000 in
/-- `pred 6 = 5` exactly (no `strip`) under all four normalising orders -/
example : [Order.NOR, .HNO, .HAP, .APP].all (fun o =>
    Grid.runsTo o FUEL (app Gen.Binary.pred (intoBinary 6)) (intoBinary 5)) = true := by decide +kernel

set_option maxRecDepth 100000 in
/-- `shl0 3 = 6` exactly (no `strip`) under all four normalising orders -/
example : [Order.NOR, .HNO, .HAP, .APP].all (fun o =>
    Grid.runsTo o FUEL (app Gen.Binary.shl0 (intoBinary 3)) (intoBinary 6)) = true := by decide +kernel

/-- the hypotheses of the general theorems are satisfiable: 6 is positive and not a power of two -/
example : ∃ fuel c, reduce .HAP 0 fuel (app Gen.Binary.pred (intoBinary 6)) = some (intoBinary 5, c) :=
  C14_binary_pred_exact_hap 6 (by decide) (fun k e => by
    have h3 : k < 3 := by
      apply Decidable.byContradiction; intro hk
      have : 2 ^ 3 ≤ 2 ^ k := Nat.pow_le_pow_right (by decide) (by omega)
      omega
    have : k = 0 ∨ k = 1 ∨ k = 2 := by omega
    rcases this with rfl | rfl | rfl <;> simp at e)

example : ∃ fuel c, reduce .NOR 0 fuel (app Gen.Binary.shl0 (intoBinary 3)) = some (intoBinary 6, c) :=
  (C14_binary_shl0_exact 3 (by decide)).nor

set_option maxRecDepth 100000 in
/-- cross-check grid (BOUNDED; carries no claim): raw `shl0` on 1‥8, raw `pred` on the non-powers of two below 16,
`strip` on 0‥8, under the eager orders -/
theorem C14_grid_binary_shl0_exact : ((List.range 9).filter (· ≠ 0)).all (fun n => (eager false).all (fun o =>
    Grid.runsTo o FUEL (app Gen.Binary.shl0 (intoBinary n)) (intoBinary (2 * n)))) = true := by decide +kernel

set_option maxRecDepth 100000 in
theorem C14_grid_binary_pred_exact : [3, 5, 6, 7, 9, 10, 11, 12, 13, 14, 15].all (fun n => (eager false).all (fun o =>
    Grid.runsTo o FUEL (app Gen.Binary.pred (intoBinary n)) (intoBinary (n - 1)))) = true := by decide +kernel

end LC
