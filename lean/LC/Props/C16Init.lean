/-
C16 — review remark L2: `C16_init_open` (LC/Props/C16More.lean) carries the hypothesis `xs ≠ []`.  It is
unnecessary: `init` of the EMPTY pair list reduces to the empty pair list, so the law
`init (pairList (placed 1 0 xs)) ↠ pairList (placed 1 0 xs.dropLast)` holds for EVERY list of arbitrary (open) terms.
-/
import LC.Props.C16More

namespace LC
open Term Spec Enc C16 ListMore OpenLib

/-- `init` of the empty pair list (the case `C16_init_open` excludes): `placed 1 0 [] = []`, `[].dropLast = []` -/
theorem C16_init_open_nil :
    app Gen.PList.init (pairList (placed 1 0 [])) ↠ pairList (placed 1 0 ([] : List Term).dropLast) :=
  plist_init_nil

example : app Gen.PList.init (pairList []) ↠ pairList [] := C16_init_open_nil

/-- `C16_init_open` WITHOUT the hypothesis `xs ≠ []`: for every list of arbitrary (open) terms -/
theorem C16_init_open_all (xs : List Term) :
    app Gen.PList.init (pairList (placed 1 0 xs)) ↠ pairList (placed 1 0 xs.dropLast) := by
  cases xs with
  | nil => exact C16_init_open_nil
  | cons x xs => exact C16_init_open (x :: xs) (by simp)

/-- non-vacuity: the empty list, and a list of OPEN elements (free variables) -/
example : app Gen.PList.init (pairList (placed 1 0 [])) ↠ pairList (placed 1 0 []) := C16_init_open_all []
example : app Gen.PList.init (pairList (placed 1 0 [var 1, app (var 2) (var 1), abs (var 3)])) ↠
    pairList (placed 1 0 [var 1, app (var 2) (var 1)]) := C16_init_open_all _

/-- layers 1+2 (`Computes`: NOR and HNO return the result, every normalising order that returns returns it) for `init`
on every list of open NORMAL elements, the empty one included -/
theorem C16_init_open_computes (xs : List Term) (hn : ∀ x ∈ xs, isNormal x = true) :
    Computes (app Gen.PList.init (pairList (placed 1 0 xs))) (pairList (placed 1 0 xs.dropLast)) :=
  C16_computes_open (C16_init_open_all xs) (fun w hw => hn w (List.dropLast_subset xs hw))

example : Computes (app Gen.PList.init (pairList (placed 1 0 []))) (pairList (placed 1 0 [])) :=
  C16_init_open_computes [] (by simp)

end LC
